/-
Gen/PyRt.lean — the (hand-written, trusted) runtime library the TRANSLATED kernels are expressed in.

`tools/py2lean.py` turns the numba kernels of `/repo/src/msmhelper` into Lean `do`-blocks over the functions below; this file
fixes what a Python / numpy primitive means.  Everything is total and executable; the monad is `Except Err`
(`IndexError`, `ValueError`, `LagtimeError` … are values, never defaults) and, for kernels that call `random.random()`,
`StateT (List Rat) (Except Err)` whose state is the stream of uniform draws still to be consumed.

Semantics fixed here (validated against CPython/numba by the translator-validation stream of the checks, DESIGN §3a):
* integers are unbounded (`Int`); numba's int64 wrap-around is outside the model;
* floats are exact rationals (`Rat`); only comparison, addition, `max` and one final division occur in the kernels;
* indexing follows Python: a negative index wraps once, everything else out of range is an `IndexError`
  (the compiled kernels do no bounds checking at all — a theorem `kernel … = .ok …` therefore also shows memory safety);
* slices `a[lo:hi]` clamp like Python, step 1 only;
* `dict` with integer keys is an insertion-ordered association list;
* `np.empty` is modelled as zeros; `numba.prange` is an ordinary `range` (the reduction order is the subject of C12).
-/
import MsmVerif.Model.Basic

namespace MsmVerif.Gen

abbrev Py := Except Err
abbrev PyR := StateT (List Rat) (Except Err)
abbrev PyDict := List (Int × Int)

/-- `len(x)` -/
def pyLen {α : Type} (l : List α) : Int := (l.length : Int)

/-- `x[i]` -/
def pyGet {α : Type} (l : List α) (i : Int) : Py α :=
  match normIdx l.length i with
  | none => .error .index
  | some k =>
    match l[k]? with
    | some v => .ok v
    | none => .error .index

/-- `x[i] = v` (returns the updated list) -/
def pySet {α : Type} (l : List α) (i : Int) (v : α) : Py (List α) :=
  match normIdx l.length i with
  | none => .error .index
  | some k => .ok (l.set k v)

/-- `m[i, j]` -/
def pyGet2 {α : Type} (m : List (List α)) (i j : Int) : Py α := do
  let r ← pyGet m i
  pyGet r j

/-- `m[i, j] = v` -/
def pySet2 {α : Type} (m : List (List α)) (i j : Int) (v : α) : Py (List (List α)) := do
  let r ← pyGet m i
  let r' ← pySet r j v
  pySet m i r'

/-- `range(a, b)` -/
def pyRange (a b : Int) : List Int := (List.range (b - a).toNat).map (fun (k : Nat) => a + (k : Int))

/-- clamp a slice bound like Python: negative bounds count from the end, then clamp to `[0, n]` -/
def pyBound (n : Nat) (b : Int) : Nat :=
  if b < 0 then (b + n).toNat else min b.toNat n

/-- `x[lo:hi]` (step 1; `none` = omitted bound) -/
def pySlice {α : Type} (l : List α) (lo hi : Option Int) : List α :=
  let n := l.length
  let a := match lo with | none => 0 | some b => pyBound n b
  let e := match hi with | none => n | some b => pyBound n b
  (l.drop a).take (e - a)

/-- `zip(a, b)` -/
def pyZip {α β : Type} (a : List α) (b : List β) : List (α × β) := a.zip b

/-- `enumerate(a)` -/
def pyEnumerate {α : Type} (a : List α) : List (Int × α) := (pyRange 0 (pyLen a)).zip a

/-- `x in l` for a list / array of integers -/
def pyIn (x : Int) (l : List Int) : Bool := l.contains x

/-- `l.index(x)` -/
def pyIndex (l : List Int) (x : Int) : Py Int :=
  if l.contains x then .ok (l.idxOf x : Nat) else .error .value

/-- `np.zeros(n)` / `np.empty(n)` -/
def pyFull1 {α : Type} (n : Int) (v : α) : List α := List.replicate n.toNat v

/-- `np.zeros((n, m))` / `np.empty((n, m))` -/
def pyFull2 {α : Type} (n m : Int) (v : α) : List (List α) := List.replicate n.toNat (List.replicate m.toNat v)

/-- `k in d` -/
def pyDictHas (d : PyDict) (k : Int) : Bool := d.any (fun p => p.1 == k)

/-- `d[k]` -/
def pyDictGet (d : PyDict) (k : Int) : Py Int :=
  match d.find? (fun p => p.1 == k) with
  | some p => .ok p.2
  | none => .error .other

/-- `d[k] = v` : overwrite in place, or append a new key -/
def pyDictSet (d : PyDict) (k v : Int) : PyDict :=
  if pyDictHas d k then d.map (fun p => if p.1 == k then (p.1, v) else p) else d ++ [(k, v)]

/-- `max([a, b, …])` of a non-empty literal list -/
def pyMaxOf (a : Rat) (rest : List Rat) : Rat := rest.foldl max a

/-- `np.argmax(l)` : first position of the maximum (0 for the empty list, where numpy raises) -/
def pyArgmax (l : List Rat) : Int :=
  match l with
  | [] => 0
  | x :: xs =>
    ((xs.foldl (fun (acc : Nat × Nat × Rat) v =>
        let (best, pos, bv) := acc
        if bv < v then (pos, pos + 1, v) else (best, pos + 1, bv)) (0, 1, x)).1 : Nat)

/-- `a / b` (true division); division by zero is an error (numba's default error model) -/
def pyTrueDiv (a b : Rat) : Py Rat := if b = 0 then .error .other else .ok (a / b)

/-- `random.random()` : the next uniform draw of the stream -/
def pyRandom : PyR Rat := do
  let s ← get
  match s with
  | [] => throw Err.other
  | u :: rest =>
    set rest
    pure u

/-- error raised when a translated `while` loop exhausts its fuel (never a Python behaviour) -/
def pyFuel : Err := Err.other

end MsmVerif.Gen
