#!/usr/bin/env python3
"""Regenerates MANIFEST.json from the table below (kept in one place so the manifest stays valid)."""
import json, os
HOME = os.path.dirname(os.path.dirname(os.path.abspath(__file__)))
ALL = ['C%02d' % i for i in range(1, 21)]

import sys
sys.path.insert(0, os.path.dirname(os.path.abspath(__file__)))
from claims import CLAIMS, NOTE_COMMON   # noqa: E402

CLAIMED = {pid: dict(text=t, note=NOTE_COMMON + n, technique=tech, ref='§7 ' + pid) for pid, (t, n, tech) in CLAIMS.items()}


def main():
    checks = []
    for pid in ALL:
        if pid not in CLAIMED:
            continue
        c = CLAIMED[pid]
        checks.append({
            'property_id': pid,
            'quick_cmd': './bin/check %s quick' % pid,
            'thorough_cmd': './bin/check %s thorough' % pid,
            'evidence_file': 'evidence/%s.json' % pid,
            'replay_cmd_template': './bin/check %s --replay {path}' % pid,
            'engine': 'lean-model+correspondence',
            'level_claimed': {'category': 'proof', 'text': c['text'], 'design_ref': c['ref']},
            'level_note': c['note'],
            'technique': c['technique'],
        })
    na = [{'property_id': p, 'reason': 'no check registered'} for p in ALL if p not in CLAIMED]
    man = {
        'version': 1,
        'setup_cmd': 'cd lean && lake build',
        'hooks': {
            'guard': 'MSMHELPER_VERIF',
            'enable': 'no source hooks: the checks run the working tree via PYTHONPATH=/repo/src; randomness is '
                      'controlled through numba._helperlib.rnd_set_state and module globals',
            'baseline_off_cmd': './bin/baseline_off',
            'source_commits': [],
            'add_only': True,
        },
        'engines': [{'name': 'lean-model+correspondence', 'path': 'lean/ + harness/',
                     'serves_properties': sorted(CLAIMED),
                     'kind_free_text': 'hand-written Lean 4 model with machine-checked theorems; Python correspondence '
                                       'harness drives the model through a JSON line protocol and judges real outputs '
                                       'with the Lean `holds` oracle'}],
        'checks': checks,
        'not_applicable': na,
        'notes': 'See DESIGN.md. Exit 0 held / 1 violation / 2 machinery failure.',
    }
    json.dump(man, open(os.path.join(HOME, 'MANIFEST.json'), 'w'), indent=1)
    print('claimed', len(checks), 'not_applicable', len(na))

if __name__ == '__main__':
    main()
