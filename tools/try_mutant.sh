#!/bin/bash
# tools/try_mutant.sh <patch.diff> <Cxx> [quick|thorough]  — apply to /repo, run the check, always undo
patch="$1"; pid="$2"; tier="${3:-quick}"
cd /repo || exit 9
if [ -n "$(git status --porcelain)" ]; then echo "/repo not clean"; exit 9; fi
git apply "$patch" || { echo "patch does not apply"; exit 9; }
cd /verif && timeout 3000 ./bin/check "$pid" "$tier" > /tmp/try_mutant.out 2>&1; rc=$?
git -C /repo checkout -- . ; git -C /repo clean -fdq src test 2>/dev/null
tail -4 /tmp/try_mutant.out
echo "exit=$rc"
# restore evidence from the clean tree state in git
git -C /verif checkout -- evidence 2>/dev/null
exit $rc
