/-
Refine/MsmLemmas.lean — helper lemmas for `MsmVerif/Refine/Msm.lean` (task RP1): Python indexing on well-shaped matrices,
the loop body `T_count[i, j] += 1`, the two `for` loops of `_generate_transition_count_matrix`, slices, the search loop of `find_first`.
-/
import MsmVerif.Gen.MsmMsm
import MsmVerif.Gen.UtilsUtils
import MsmVerif.Model.Msm

namespace MsmVerif.Refine.Msm
open MsmVerif MsmVerif.Gen

/-! ### list helpers -/

theorem set_getElem_eq_modify {α : Type} (f : α → α) (l : List α) (i : Nat) (h : i < l.length) :
    l.set i (f l[i]) = l.modify i f := by
  induction l generalizing i with
  | nil => simp at h
  | cons x xs ih =>
    cases i with
    | zero => simp
    | succ i => simp at h ⊢; exact ih i h

theorem map_modify_comm {α β : Type} (g : α → β) (f : α → α) (f' : β → β) (hc : ∀ x, g (f x) = f' (g x))
    (l : List α) (i : Nat) : (l.modify i f).map g = (l.map g).modify i f' := by
  induction l generalizing i with
  | nil => simp
  | cons x xs ih =>
    cases i with
    | zero => simp [hc]
    | succ i => simp [ih]

theorem mem_modify {α : Type} {f : α → α} {l : List α} {i : Nat} {y : α} (h : y ∈ l.modify i f) :
    y ∈ l ∨ ∃ x ∈ l, y = f x := by
  induction l generalizing i with
  | nil => simp at h
  | cons x xs ih =>
    cases i with
    | zero =>
      simp at h
      rcases h with h | h
      · exact .inr ⟨x, by simp, h⟩
      · exact .inl (by simp [h])
    | succ i =>
      simp at h
      rcases h with h | h
      · exact .inl (by simp [h])
      · rcases ih h with h | ⟨z, hz, e⟩
        · exact .inl (by simp [h])
        · exact .inr ⟨z, by simp [hz], e⟩

/-! ### indexing -/

theorem normIdx_lt {n k : Nat} {i : Int} (h : normIdx n i = some k) : k < n := by
  unfold normIdx at h
  split at h
  · split at h
    · simp at h; omega
    · simp at h
  · split at h
    · simp at h; omega
    · simp at h

theorem normIdx_nonneg {n : Nat} {i : Int} (h0 : 0 ≤ i) (h1 : i < n) : normIdx n i = some i.toNat := by
  simp [normIdx, h0, h1]

theorem normIdx_neg {n : Nat} {i : Int} (h0 : i < 0) (h1 : -(n : Int) ≤ i) : normIdx n i = some (i + n).toNat := by
  have : ¬ 0 ≤ i := by omega
  have h2 : 0 ≤ i + n := by omega
  simp [normIdx, this, h2]

theorem normIdx_eq_none_iff {n : Nat} {i : Int} : normIdx n i = none ↔ (i < -(n : Int) ∨ (n : Int) ≤ i) := by
  unfold normIdx
  split
  · split
    · simp; omega
    · simp; omega
  · split
    · simp; omega
    · simp; omega

theorem pyGet_of_norm {α : Type} {l : List α} {i : Int} {k : Nat} (h : normIdx l.length i = some k) :
    pyGet l i = .ok (l[k]'(normIdx_lt h)) := by
  unfold pyGet
  rw [h]
  simp [List.getElem?_eq_getElem (normIdx_lt h)]

theorem pyGet_of_none {α : Type} {l : List α} {i : Int} (h : normIdx l.length i = none) :
    pyGet l i = .error .index := by
  unfold pyGet
  rw [h]

theorem pySet_of_norm {α : Type} {l : List α} {i : Int} {k : Nat} (v : α) (h : normIdx l.length i = some k) :
    pySet l i v = .ok (l.set k v) := by
  unfold pySet
  rw [h]

theorem pySet_of_none {α : Type} {l : List α} {i : Int} (v : α) (h : normIdx l.length i = none) :
    pySet l i v = .error .index := by
  unfold pySet
  rw [h]

/-! ### the loop body `T_count[i, j] += 1` -/

/-- `n × n` matrix -/
def Shape {α : Type} (n : Nat) (M : List (List α)) : Prop := M.length = n ∧ ∀ r ∈ M, r.length = n

/-- loop body of the kernel -/
def step (M : List (List Int)) (i j : Int) : Py (List (List Int)) := do
  let t1 ← pyGet2 M i j
  pySet2 M i j (t1 + (1 : Int))

/-- increment of one cell -/
def bumpAt (M : List (List Int)) (a b : Nat) : List (List Int) :=
  M.modify a (fun row => row.modify b (· + 1))

theorem shape_bumpAt {n : Nat} {M : List (List Int)} (h : Shape n M) (a b : Nat) : Shape n (bumpAt M a b) := by
  refine ⟨by simp [bumpAt, h.1], ?_⟩
  intro r hr
  rcases mem_modify hr with hr | ⟨x, hx, e⟩
  · exact h.2 r hr
  · subst e; simp [h.2 x hx]

theorem step_ok {n : Nat} {M : List (List Int)} (hM : Shape n M) {i j : Int} {a b : Nat}
    (hi : normIdx n i = some a) (hj : normIdx n j = some b) : step M i j = .ok (bumpAt M a b) := by
  have ha : a < M.length := by rw [hM.1]; exact normIdx_lt hi
  have hrow : (M[a]).length = n := hM.2 _ (List.getElem_mem ha)
  have hi' : normIdx M.length i = some a := by rw [hM.1]; exact hi
  have hj' : normIdx (M[a]).length j = some b := by rw [hrow]; exact hj
  have hb : b < (M[a]).length := normIdx_lt hj'
  unfold step pyGet2 pySet2
  simp only [pyGet_of_norm hi', pyGet_of_norm hj', pySet_of_norm _ hi', pySet_of_norm _ hj',
    bind, Except.bind]
  unfold bumpAt
  rw [set_getElem_eq_modify (fun x => x + 1) M[a] b hb]
  rw [set_getElem_eq_modify (fun row : List Int => row.modify b (· + 1)) M a ha]

theorem step_err {n : Nat} {M : List (List Int)} (hM : Shape n M) {i j : Int}
    (h : normIdx n i = none ∨ normIdx n j = none) : step M i j = .error .index := by
  cases hi : normIdx n i with
  | none =>
    have hi' : normIdx M.length i = none := by rw [hM.1]; exact hi
    unfold step pyGet2
    simp only [pyGet_of_none hi', bind, Except.bind]
  | some a =>
    have hj : normIdx n j = none := by
      rcases h with h | h
      · rw [hi] at h; cases h
      · exact h
    have ha : a < M.length := by rw [hM.1]; exact normIdx_lt hi
    have hrow : (M[a]).length = n := hM.2 _ (List.getElem_mem ha)
    have hi' : normIdx M.length i = some a := by rw [hM.1]; exact hi
    have hj' : normIdx (M[a]).length j = none := by rw [hrow]; exact hj
    unfold step pyGet2
    simp only [pyGet_of_norm hi', pyGet_of_none hj', bind, Except.bind]


/-! ### slices -/

theorem slice_left (t : List Int) (lag : Nat) (hlag : 1 ≤ lag) :
    pySlice t none (some (-(lag : Int))) = t.take (t.length - lag) := by
  have h : (-(lag : Int)) < 0 := by omega
  simp only [pySlice, pyBound, h, if_true, List.drop_zero, Nat.sub_zero]
  congr 1
  omega

theorem slice_right (t : List Int) (lag : Nat) :
    pySlice t (some (lag : Int)) none = t.drop lag := by
  have h : ¬ ((lag : Int) < 0) := by omega
  simp only [pySlice, pyBound, h, if_false, Int.toNat_natCast]
  by_cases hl : lag ≤ t.length
  · rw [Nat.min_eq_left hl, List.take_of_length_le (by simp)]
  · have hl' : t.length ≤ lag := by omega
    rw [Nat.min_eq_right hl', List.drop_of_length_le (Nat.le_refl _), List.drop_of_length_le hl']
    simp

theorem slices_eq_pairs' (t : List Int) (lag : Nat) (hlag : 1 ≤ lag) :
    pyZip (pySlice t none (some (-(lag : Int)))) (pySlice t (some (lag : Int)) none) = Msm.pairs lag t := by
  rw [slice_left t lag hlag, slice_right]
  rfl

/-! ### the two loops -/

/-- the index pair addresses a cell of an `n × n` numpy array (negative indices wrap once) -/
def pairOk (n : Nat) (p : Int × Int) : Bool := (normIdx n p.1).isSome && (normIdx n p.2).isSome

/-- `T[p] += 1` with Python index wrap-around -/
def bumpI (n : Nat) (M : List (List Int)) (p : Int × Int) : List (List Int) :=
  bumpAt M ((normIdx n p.1).getD 0) ((normIdx n p.2).getD 0)

theorem shape_bumpI {n : Nat} {M : List (List Int)} (h : Shape n M) (p : Int × Int) : Shape n (bumpI n M p) :=
  shape_bumpAt h _ _

theorem shape_foldl_bumpI {n : Nat} (ps : List (Int × Int)) {M : List (List Int)} (h : Shape n M) :
    Shape n (ps.foldl (bumpI n) M) := by
  induction ps generalizing M with
  | nil => exact h
  | cons p ps ih => exact ih (shape_bumpI h p)

theorem step_eq {n : Nat} {M : List (List Int)} (hM : Shape n M) (p : Int × Int) :
    step M p.1 p.2 = if pairOk n p then .ok (bumpI n M p) else .error .index := by
  cases hi : normIdx n p.1 with
  | none => simp [pairOk, hi, step_err hM (.inl hi)]
  | some a =>
    cases hj : normIdx n p.2 with
    | none => simp [pairOk, hj, step_err hM (.inr hj)]
    | some b => simp [pairOk, bumpI, hi, hj, step_ok hM hi hj]

/-- the inner `for` loop over the pairs of one trajectory -/
theorem inner_loop {n : Nat} (ps : List (Int × Int)) {M : List (List Int)} (hM : Shape n M) :
    (forIn ps M (fun x __s => do
        let t1 ← pyGet2 __s x.fst x.snd
        let T_count ← pySet2 __s x.fst x.snd (t1 + (1 : Int))
        pure (ForInStep.yield T_count)) : Py (List (List Int)))
      = if ps.all (pairOk n) then .ok (ps.foldl (bumpI n) M) else .error .index := by
  induction ps generalizing M with
  | nil => simp [pure, Except.pure]
  | cons p ps ih =>
    rw [List.forIn_cons]
    have hb : (do
        let t1 ← pyGet2 M p.fst p.snd
        let T_count ← pySet2 M p.fst p.snd (t1 + (1 : Int))
        pure (ForInStep.yield T_count) : Py (ForInStep (List (List Int))))
        = (step M p.1 p.2 >>= fun T => pure (ForInStep.yield T)) := by
      simp [step]
    rw [hb, step_eq hM p]
    by_cases hp : pairOk n p = true
    · simp only [hp, if_true, List.all_cons, Bool.true_and, List.foldl_cons]
      have := ih (shape_bumpI hM p)
      simpa [bind, Except.bind, pure, Except.pure] using this
    · simp [hp, bind, Except.bind]


/-- all index pairs of all trajectories address a cell -/
def allOk (idx : List (List Int)) (lag n : Nat) : Bool :=
  idx.all (fun t => (Msm.pairs lag t).all (pairOk n))

theorem normIdx_isSome_iff {n : Nat} {i : Int} : (normIdx n i).isSome = true ↔ (-(n : Int) ≤ i ∧ i < (n : Int)) := by
  cases h : normIdx n i with
  | none => have := normIdx_eq_none_iff.mp h; simp; omega
  | some k =>
    have : ¬ (normIdx n i = none) := by simp [h]
    rw [normIdx_eq_none_iff] at this
    simp; omega

theorem pairOk_iff {n : Nat} {p : Int × Int} :
    pairOk n p = true ↔ (-(n : Int) ≤ p.1 ∧ p.1 < (n : Int)) ∧ (-(n : Int) ≤ p.2 ∧ p.2 < (n : Int)) := by
  simp only [pairOk, Bool.and_eq_true, normIdx_isSome_iff]

theorem allOk_iff {idx : List (List Int)} {lag n : Nat} :
    allOk idx lag n = true ↔ ∀ t ∈ idx, ∀ p ∈ Msm.pairs lag t,
      (-(n : Int) ≤ p.1 ∧ p.1 < (n : Int)) ∧ (-(n : Int) ≤ p.2 ∧ p.2 < (n : Int)) := by
  simp only [allOk, List.all_eq_true, pairOk_iff]

/-- the count matrix with Python index wrap-around, over `Int` -/
def countI (idx : List (List Int)) (lag n : Nat) (M : List (List Int)) : List (List Int) :=
  idx.foldl (fun m t => (Msm.pairs lag t).foldl (bumpI n) m) M

theorem outer_loop {n : Nat} (lag : Nat) (hlag : 1 ≤ lag) (idx : List (List Int)) {M : List (List Int)} (hM : Shape n M) :
    (forIn idx M (fun traj __s => do
        let T_count ←
          forIn (pyZip (pySlice traj none (some (-(lag : Int)))) (pySlice traj (some (lag : Int)) none)) __s fun x __s => do
            let t1 ← pyGet2 __s x.fst x.snd
            let T_count ← pySet2 __s x.fst x.snd (t1 + (1 : Int))
            pure (ForInStep.yield T_count)
        pure (ForInStep.yield T_count)) : Py (List (List Int)))
      = if allOk idx lag n then .ok (countI idx lag n M) else .error .index := by
  induction idx generalizing M with
  | nil => simp [allOk, countI, pure, Except.pure]
  | cons t ts ih =>
    rw [List.forIn_cons, slices_eq_pairs' t lag hlag, inner_loop _ hM]
    by_cases hp : (Msm.pairs lag t).all (pairOk n) = true
    · have := ih (shape_foldl_bumpI (Msm.pairs lag t) hM)
      simp only [allOk, countI] at this ⊢
      simp only [hp, if_true, List.all_cons, Bool.true_and, List.foldl_cons]
      exact this
    · simp only [allOk, List.all_cons, hp]
      simp [bind, Except.bind]

theorem shape_zero (n : Nat) : Shape n (pyFull2 (n : Int) (n : Int) (0 : Int)) := by
  simp [Shape, pyFull2]

/-! ### back to the `Nat` model -/

def natMat (m : List (List Nat)) : List (List Int) := m.map (·.map Int.ofNat)

theorem natMat_bump (m : List (List Nat)) (a b : Nat) : natMat (Msm.bump m a b) = bumpAt (natMat m) a b := by
  unfold natMat Msm.bump bumpAt
  apply map_modify_comm
  intro row
  apply map_modify_comm
  intro x
  rfl

theorem pairOk_of_nonneg {n : Nat} {p : Int × Int} (h1 : 0 ≤ p.1 ∧ p.1 < (n : Int)) (h2 : 0 ≤ p.2 ∧ p.2 < (n : Int)) :
    pairOk n p = true := by
  simp [pairOk, normIdx_nonneg h1.1 h1.2, normIdx_nonneg h2.1 h2.2]

theorem bumpI_natMat {n : Nat} {p : Int × Int} (h1 : 0 ≤ p.1 ∧ p.1 < (n : Int)) (h2 : 0 ≤ p.2 ∧ p.2 < (n : Int))
    (m : List (List Nat)) : bumpI n (natMat m) p = natMat (Msm.bump m p.1.toNat p.2.toNat) := by
  simp [bumpI, normIdx_nonneg h1.1 h1.2, normIdx_nonneg h2.1 h2.2, natMat_bump]

theorem foldl_bumpI_natMat {n : Nat} (ps : List (Int × Int))
    (h : ∀ p ∈ ps, (0 ≤ p.1 ∧ p.1 < (n : Int)) ∧ (0 ≤ p.2 ∧ p.2 < (n : Int))) (m : List (List Nat)) :
    ps.foldl (bumpI n) (natMat m) = natMat (ps.foldl (fun m p => Msm.bump m p.1.toNat p.2.toNat) m) := by
  induction ps generalizing m with
  | nil => rfl
  | cons p ps ih =>
    have hp := h p (by simp)
    simp only [List.foldl_cons]
    rw [bumpI_natMat hp.1 hp.2, ih (fun q hq => h q (by simp [hq]))]

theorem pairs_mem {lag : Nat} {t : List Int} {p : Int × Int} (h : p ∈ Msm.pairs lag t) : p.1 ∈ t ∧ p.2 ∈ t := by
  unfold Msm.pairs at h
  have := List.of_mem_zip (a := p.1) (b := p.2) h
  exact ⟨List.mem_of_mem_take this.1, List.mem_of_mem_drop this.2⟩

theorem pairs_ok {n lag : Nat} {t : List Int} (ht : ∀ x ∈ t, 0 ≤ x ∧ x < (n : Int)) :
    ∀ p ∈ Msm.pairs lag t, (0 ≤ p.1 ∧ p.1 < (n : Int)) ∧ (0 ≤ p.2 ∧ p.2 < (n : Int)) :=
  fun _ hp => ⟨ht _ (pairs_mem hp).1, ht _ (pairs_mem hp).2⟩

theorem allOk_of_nonneg {idx : List (List Int)} {lag n : Nat}
    (hidx : ∀ t ∈ idx, ∀ x ∈ t, 0 ≤ x ∧ x < (n : Int)) : allOk idx lag n = true := by
  simp only [allOk, List.all_eq_true]
  intro t ht p hp
  have := pairs_ok (lag := lag) (hidx t ht) p hp
  exact pairOk_of_nonneg this.1 this.2

theorem countI_natMat {n : Nat} (lag : Nat) (idx : List (List Int))
    (hidx : ∀ t ∈ idx, ∀ x ∈ t, 0 ≤ x ∧ x < (n : Int)) (m : List (List Nat)) :
    countI idx lag n (natMat m)
      = natMat (idx.foldl (fun m t => (Msm.pairs lag t).foldl (fun m p => Msm.bump m p.1.toNat p.2.toNat) m) m) := by
  induction idx generalizing m with
  | nil => rfl
  | cons t ts ih =>
    have := ih (fun s hs => hidx s (by simp [hs]))
    simp only [countI] at this ⊢
    simp only [List.foldl_cons]
    rw [foldl_bumpI_natMat _ (pairs_ok (hidx t (by simp))), this]

theorem full_eq_zeroMat (n : Nat) : pyFull2 (n : Int) (n : Int) (0 : Int) = natMat (Msm.zeroMat n) := by
  simp [pyFull2, natMat, Msm.zeroMat]

/-! ### `lag = 0` -/

theorem slices_lag_zero (t : List Int) :
    pyZip (pySlice t none (some (-(0 : Int)))) (pySlice t (some (0 : Int)) none) = [] := by
  simp [pySlice, pyBound, pyZip]

/-! ### `find_first` -/

theorem pyRange_succ (k : Int) (n : Nat) :
    pyRange k (k + ((n + 1 : Nat) : Int)) = k :: pyRange (k + 1) (k + 1 + (n : Int)) := by
  unfold pyRange
  have h1 : (k + ((n + 1 : Nat) : Int) - k).toNat = n + 1 := by omega
  have h2 : (k + 1 + (n : Int) - (k + 1)).toNat = n := by omega
  rw [h1, h2, List.range_succ_eq_map]
  simp only [List.map_cons, List.map_map]
  congr 1
  · simp
  · apply List.map_congr_left
    intro a _
    simp only [Function.comp]
    omega

/-- the search loop of `find_first` on the enumeration starting at offset `k` -/
theorem find_loop (v : Int) (a : List Int) (k : Int) :
    (forIn ((pyRange k (k + (a.length : Int))).zip a) ((none : Option Int), ()) (fun x __s =>
        if (v == x.snd) = true then pure (ForInStep.done (some x.fst, ())) else pure (ForInStep.yield (none, ()))) : Py (Option Int × Unit))
      = .ok (if a.idxOf v < a.length then (some (k + ((a.idxOf v : Nat) : Int)), ()) else (none, ())) := by
  induction a generalizing k with
  | nil => simp [pure, Except.pure]
  | cons x xs ih =>
    rw [List.length_cons, pyRange_succ, List.zip_cons_cons, List.forIn_cons]
    by_cases hv : v = x
    · subst hv
      simp [bind, Except.bind, pure, Except.pure]
    · have hx : (x == v) = false := by simpa using fun h : x = v => hv h.symm
      have hv' : (v == x) = false := by simpa using hv
      have := ih (k + 1)
      simp only [hv', List.idxOf_cons, hx, cond_false, Nat.add_lt_add_iff_right]
      refine Eq.trans this ?_
      congr 1
      split
      · simp only [Prod.mk.injEq, Option.some.injEq, and_true]; omega
      · rfl

end MsmVerif.Refine.Msm
