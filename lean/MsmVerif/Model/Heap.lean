/-
Model/Heap.lean — heap model for the aliasing properties C02 (StateTraj / LumpedStateTraj are isolated views)
and C18 (purity).  Arrays live at addresses; the object holds PRIVATE addresses; the caller holds a set of
KNOWN addresses (constructor arguments and every array an accessor returned) and may write into those only.
The constructor copies (`astype`, `traj - 1`, `shift_data`), every accessor returns fresh arrays
(`.copy()`, `+ 1`, `shift_data`, `np.concatenate`).
-/
import MsmVerif.Model.Basic

namespace MsmVerif.Heap

abbrev Addr := Nat

/-- what the object stores privately: index trajectories, state list, and for a lumped object the macrostate list
and the micro→macro assignment (all as integer arrays) -/
structure Obj where
  idx : List Addr
  sts : Addr
  macroSts : Option Addr := none
  assign : Option Addr := none
  deriving Repr, DecidableEq

structure State where
  heap : List (List Int)          -- address = position
  obj : Option Obj := none
  known : List Addr := []         -- addresses the caller may write to
  deriving Repr

def State.read (s : State) (a : Addr) : List Int := s.heap.getD a []

/-- allocate fresh arrays; returns their addresses -/
def State.allocMany (s : State) (vs : List (List Int)) : State × List Addr :=
  ({ s with heap := s.heap ++ vs }, (List.range vs.length).map (· + s.heap.length))

def Obj.addrs (o : Obj) : List Addr := o.idx ++ [o.sts] ++ o.macroSts.toList ++ o.assign.toList

/-- everything the object reports, as a function of the contents of its private arrays -/
structure Report where
  idxTrajs : Trajs
  sts : List Int
  macroSts : Option (List Int)
  assign : Option (List Int)
  deriving Repr, DecidableEq

def report (s : State) : Option Report :=
  s.obj.map (fun o => { idxTrajs := o.idx.map s.read, sts := s.read o.sts,
                        macroSts := o.macroSts.map s.read, assign := o.assign.map s.read })

/-- micro → macro assignment of `LumpedStateTraj.__init__`: macro label at the first occurrence of each microstate -/
def assignment (micro macroT : Trajs) : List Int :=
  let mic := micro.flatten
  let mac := macroT.flatten
  (states micro).map (fun s => mac.getD (mic.idxOf s) 0)

/-- accessors, as functions of the report (labels decoded through `states[·]`) -/
inductive Acc where
  | trajs | indexTrajs | states | trajsFlatten | indexTrajsFlatten | getitem (k : Nat)
  | microTrajs | microIndexTrajs | microstates | stateAssignment
  deriving Repr, DecidableEq

def decode (sts : List Int) (t : List Int) : List Int := t.map (labelOf sts)

def evalTrajs (r : Report) : List (List Int) :=
  match r.assign with
  | none => r.idxTrajs.map (decode r.sts)
  | some asg => r.idxTrajs.map (fun t => t.map (labelOf asg))          -- macro trajectory of a lumped object

def evalIndexTrajs (r : Report) : List (List Int) :=
  match r.assign, r.macroSts with
  | some asg, some ms => r.idxTrajs.map (fun t => t.map (fun i => (rank ms (labelOf asg i) : Int)))
  | _, _ => r.idxTrajs

/-- value of an accessor: a list of arrays (scalars are not arrays and cannot be written to) -/
def Acc.eval (r : Report) : Acc → List (List Int)
  | .trajs => evalTrajs r
  | .indexTrajs => evalIndexTrajs r
  | .states => [match r.macroSts with | some ms => ms | none => r.sts]
  | .trajsFlatten => [(evalTrajs r).flatten]
  | .indexTrajsFlatten => [(evalIndexTrajs r).flatten]
  | .getitem k => [(evalTrajs r).getD k []]
  | .microTrajs => r.idxTrajs.map (decode r.sts)
  | .microIndexTrajs => r.idxTrajs
  | .microstates => [r.sts]
  | .stateAssignment => [r.assign.getD []]

inductive Op where
  | newArray (v : List Int)                          -- the caller creates an array it can write to
  | construct (args : List Addr)                     -- StateTraj(list of the arrays at `args`)
  | constructLumped (macroArgs microArgs : List Addr) -- LumpedStateTraj(macro, micro)
  | access (a : Acc)                                 -- returns fresh arrays; the caller learns their addresses
  | write (a : Addr) (pos : Nat) (v : Int)           -- in-place write, only into a known address
  | reconstruct                                      -- StateTraj(obj): the same object
  deriving Repr

/-- one step; the output is the list of returned arrays (by value) -/
def step (s : State) : Op → State × List (List Int)
  | .newArray v =>
    let (s', as) := s.allocMany [v]
    ({ s' with known := s'.known ++ as }, [])
  | .construct args =>
    let ts := args.map s.read
    match StateTraj.mk' ts with
    | .error _ => (s, [])
    | .ok st =>
      let (s1, ia) := s.allocMany st.idx
      let (s2, sa) := s1.allocMany [st.sts]
      ({ s2 with obj := some { idx := ia, sts := sa.headD 0 } }, [])
  | .constructLumped macroArgs microArgs =>
    let mac := macroArgs.map s.read
    let mic := microArgs.map s.read
    match StateTraj.mk' mic with
    | .error _ => (s, [])
    | .ok st =>
      let (s1, ia) := s.allocMany st.idx
      let (s2, sa) := s1.allocMany [st.sts, states mac, assignment mic mac]
      ({ s2 with obj := some { idx := ia, sts := sa.getD 0 0, macroSts := some (sa.getD 1 0), assign := some (sa.getD 2 0) } }, [])
  | .access a =>
    match report s with
    | none => (s, [])
    | some r =>
      let vals := a.eval r
      let (s', as) := s.allocMany vals
      ({ s' with known := s'.known ++ as }, vals)
  | .write a pos v =>
    if s.known.contains a then ({ s with heap := s.heap.modify a (fun arr => arr.set pos v) }, []) else (s, [])
  | .reconstruct => (s, [])

def run (s : State) (ops : List Op) : State × List (List (List Int)) :=
  ops.foldl (fun (acc : State × List (List (List Int))) op =>
    let (s', out) := step acc.1 op
    (s', acc.2 ++ [out])) (s, [])

/-- separation invariant: no private address of the object is known to the caller, and all addresses are allocated -/
def Inv (s : State) : Prop :=
  (∀ a ∈ s.known, a < s.heap.length) ∧
  match s.obj with
  | none => True
  | some o => ∀ a ∈ o.addrs, a < s.heap.length ∧ a ∉ s.known

end MsmVerif.Heap
