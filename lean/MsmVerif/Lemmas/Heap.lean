/-
Lemmas/Heap.lean — helper lemmas about the heap model of Model/Heap.lean (core Lean only): allocation appends,
explicit forms of every `step`, the separation invariant, and the reports of freshly constructed objects.
-/
import MsmVerif.Model.Heap
import MsmVerif.Lemmas.StateTraj

namespace MsmVerif.Heap
open MsmVerif

/-! ### classification of operations -/

/-- the two constructor calls -/
def Op.isCtor : Op → Bool
  | .construct _ => true
  | .constructLumped _ _ => true
  | _ => false

/-- in-place writes -/
def Op.isWrite : Op → Bool
  | .write _ _ _ => true
  | _ => false

/-- an op list without constructor calls -/
def NoCtor (ops : List Op) : Prop := ∀ op ∈ ops, op.isCtor = false

instance (ops : List Op) : Decidable (NoCtor ops) := by unfold NoCtor; infer_instance

/-! ### lists of arrays -/

theorem getD_append_lt {h vs : List (List Int)} {a : Nat} (ha : a < h.length) :
    (h ++ vs).getD a [] = h.getD a [] := by
  simp only [List.getD_eq_getElem?_getD, List.getElem?_append_left ha]

theorem getD_append_right (h vs : List (List Int)) (i : Nat) :
    (h ++ vs).getD (i + h.length) [] = vs.getD i [] := by
  simp only [List.getD_eq_getElem?_getD]
  rw [List.getElem?_append_right (by omega)]
  simp

/-- reading back freshly allocated arrays gives their contents -/
theorem map_getD_alloc (h vs : List (List Int)) :
    ((List.range vs.length).map (· + h.length)).map (fun a => (h ++ vs).getD a []) = vs := by
  apply List.ext_getElem
  · simp
  · intro i h1 h2
    simp only [List.getElem_map, List.getElem_range, getD_append_right]
    simp [List.getD_eq_getElem?_getD, h2]

theorem getD_modify_ne {h : List (List Int)} {a a' : Nat} (f : List Int → List Int) (hne : a' ≠ a) :
    (h.modify a' f).getD a [] = h.getD a [] := by
  simp only [List.getD_eq_getElem?_getD, List.getElem?_modify, hne, if_false, id_map']

theorem getD_modify_self (h : List (List Int)) (a pos : Nat) (v : Int) :
    (h.modify a (fun arr => arr.set pos v)).getD a [] = (h.getD a []).set pos v := by
  simp only [List.getD_eq_getElem?_getD, List.getElem?_modify, if_true]
  cases h[a]? <;> simp

/-! ### allocation -/

theorem mem_alloc_addrs {n len a : Nat} :
    a ∈ (List.range n).map (· + len) ↔ len ≤ a ∧ a < len + n := by
  simp only [List.mem_map, List.mem_range]
  constructor
  · rintro ⟨i, hi, rfl⟩; omega
  · rintro ⟨h0, h1⟩; exact ⟨a - len, by omega, by omega⟩

/-! ### explicit forms of `step` -/

theorem step_newArray (s : State) (v : List Int) :
    step s (.newArray v)
      = ({ heap := s.heap ++ [v], obj := s.obj, known := s.known ++ [s.heap.length] }, []) := by
  simp [step, State.allocMany]

theorem step_construct_error {s : State} {args : List Addr} {e : Err}
    (h : StateTraj.mk' (args.map s.read) = .error e) : step s (.construct args) = (s, []) := by
  simp only [step, h]

theorem step_construct_ok {s : State} {args : List Addr} {st : StateTraj}
    (h : StateTraj.mk' (args.map s.read) = .ok st) :
    step s (.construct args)
      = ({ heap := s.heap ++ st.idx ++ [st.sts],
           obj := some { idx := (List.range st.idx.length).map (· + s.heap.length),
                         sts := s.heap.length + st.idx.length },
           known := s.known }, []) := by
  simp [step, h, State.allocMany]

theorem step_constructLumped_error {s : State} {macroArgs microArgs : List Addr} {e : Err}
    (h : StateTraj.mk' (microArgs.map s.read) = .error e) :
    step s (.constructLumped macroArgs microArgs) = (s, []) := by
  simp only [step, h]

theorem step_constructLumped_ok {s : State} {macroArgs microArgs : List Addr} {st : StateTraj}
    (h : StateTraj.mk' (microArgs.map s.read) = .ok st) :
    step s (.constructLumped macroArgs microArgs)
      = ({ heap := s.heap ++ st.idx ++ [st.sts, states (macroArgs.map s.read),
                                        assignment (microArgs.map s.read) (macroArgs.map s.read)],
           obj := some { idx := (List.range st.idx.length).map (· + s.heap.length),
                         sts := s.heap.length + st.idx.length,
                         macroSts := some (s.heap.length + st.idx.length + 1),
                         assign := some (s.heap.length + st.idx.length + 2) },
           known := s.known }, []) := by
  simp [step, h, State.allocMany]
  exact ⟨Nat.add_comm _ _, Nat.add_comm _ _⟩

theorem step_access_none {s : State} (acc : Acc) (h : report s = none) :
    step s (.access acc) = (s, []) := by
  simp only [step, h]

theorem step_access_some {s : State} (acc : Acc) {r : Report} (h : report s = some r) :
    step s (.access acc)
      = ({ heap := s.heap ++ acc.eval r, obj := s.obj,
           known := s.known ++ (List.range (acc.eval r).length).map (· + s.heap.length) }, acc.eval r) := by
  simp only [step, h, State.allocMany]

theorem step_write_known {s : State} {a : Addr} (pos : Nat) (v : Int) (h : a ∈ s.known) :
    step s (.write a pos v)
      = ({ s with heap := s.heap.modify a (fun arr => arr.set pos v) }, []) := by
  simp [step, h]

theorem step_write_unknown {s : State} {a : Addr} (pos : Nat) (v : Int) (h : a ∉ s.known) :
    step s (.write a pos v) = (s, []) := by
  simp [step, h]

/-! ### `run` -/

theorem foldl_run_fst (ops : List Op) (s : State) (acc : List (List (List Int))) :
    (ops.foldl (fun (acc : State × List (List (List Int))) op =>
        let (s', out) := step acc.1 op
        (s', acc.2 ++ [out])) (s, acc)).1
      = ops.foldl (fun s op => (step s op).1) s := by
  induction ops generalizing s acc with
  | nil => rfl
  | cons op ops ih => simp only [List.foldl_cons]; exact ih _ _

theorem run_fst (s : State) (ops : List Op) :
    (run s ops).1 = ops.foldl (fun s op => (step s op).1) s := foldl_run_fst ops s []

theorem run_nil (s : State) : (run s []).1 = s := rfl

theorem run_cons (s : State) (op : Op) (ops : List Op) :
    (run s (op :: ops)).1 = (run (step s op).1 ops).1 := by
  simp only [run_fst, List.foldl_cons]

/-! ### the invariant -/

/-- `omega` does not look through the abbreviation `Addr := Nat` -/
local macro "omegaA" : tactic => `(tactic| (unfold Addr at *; omega))


theorem inv_iff {s : State} :
    Inv s ↔ (∀ a ∈ s.known, a < s.heap.length) ∧
      ∀ o, s.obj = some o → ∀ a ∈ o.addrs, a < s.heap.length ∧ a ∉ s.known := by
  unfold Inv
  cases s.obj <;> simp

theorem mem_addrs {o : Obj} {a : Addr} :
    a ∈ o.addrs ↔ a ∈ o.idx ∨ a = o.sts ∨ o.macroSts = some a ∨ o.assign = some a := by
  simp only [Obj.addrs, List.mem_append, List.mem_singleton, Option.mem_toList]
  grind

/-- every step preserves the separation invariant -/
theorem inv_step (s : State) (op : Op) (h : Inv s) : Inv (step s op).1 := by
  rw [inv_iff] at h ⊢
  obtain ⟨hk, ho⟩ := h
  cases op with
  | newArray v =>
    rw [step_newArray]
    simp only [List.length_append, List.length_singleton, List.mem_append, List.mem_singleton]
    refine ⟨?_, ?_⟩
    · rintro a (ha | rfl)
      · have := hk a ha; omegaA
      · omegaA
    · intro o hobj a ha
      have := ho o hobj a ha
      refine ⟨by omegaA, ?_⟩
      rintro (h' | rfl)
      · exact this.2 h'
      · omegaA
  | construct args =>
    cases hmk : StateTraj.mk' (args.map s.read) with
    | error e => rw [step_construct_error hmk]; exact ⟨hk, ho⟩
    | ok st =>
      rw [step_construct_ok hmk]
      simp only [List.length_append, List.length_singleton, Option.some.injEq]
      refine ⟨fun a ha => by have := hk a ha; omegaA, ?_⟩
      rintro o rfl a ha
      rw [mem_addrs] at ha
      simp only [mem_alloc_addrs, reduceCtorEq, or_false] at ha
      have hlow : s.heap.length ≤ a := by omegaA
      exact ⟨by omegaA, fun hka => by have := hk a hka; omegaA⟩
  | constructLumped macroArgs microArgs =>
    cases hmk : StateTraj.mk' (microArgs.map s.read) with
    | error e => rw [step_constructLumped_error hmk]; exact ⟨hk, ho⟩
    | ok st =>
      rw [step_constructLumped_ok hmk]
      simp only [List.length_append, List.length_cons, List.length_nil, Option.some.injEq]
      refine ⟨fun a ha => by have := hk a ha; omegaA, ?_⟩
      rintro o rfl a ha
      rw [mem_addrs] at ha
      simp only [mem_alloc_addrs, Option.some.injEq] at ha
      have hlow : s.heap.length ≤ a := by omegaA
      exact ⟨by omegaA, fun hka => by have := hk a hka; omegaA⟩
  | access acc =>
    cases hr : report s with
    | none => rw [step_access_none acc hr]; exact ⟨hk, ho⟩
    | some r =>
      rw [step_access_some acc hr]
      simp only [List.length_append, List.mem_append, mem_alloc_addrs]
      refine ⟨?_, ?_⟩
      · rintro a (ha | ha)
        · have := hk a ha; omegaA
        · omegaA
      · intro o hobj a ha
        have := ho o hobj a ha
        refine ⟨by omegaA, ?_⟩
        rintro (h' | h')
        · exact this.2 h'
        · omegaA
  | write a pos v =>
    by_cases hka : a ∈ s.known
    · rw [step_write_known pos v hka]
      simp only [List.length_modify]
      exact ⟨hk, ho⟩
    · rw [step_write_unknown pos v hka]; exact ⟨hk, ho⟩
  | reconstruct => exact ⟨hk, ho⟩

theorem inv_run (s : State) (ops : List Op) (h : Inv s) : Inv (run s ops).1 := by
  induction ops generalizing s with
  | nil => exact h
  | cons op ops ih => rw [run_cons]; exact ih _ (inv_step s op h)

/-! ### contents of allocated addresses -/

/-- only a `write a _ _` into a known address `a` can change the contents of the allocated address `a` -/
theorem read_step_of_lt' {s : State} {op : Op} {a : Addr} (ha : a < s.heap.length)
    (hw : ∀ pos v, op = .write a pos v → a ∉ s.known) : (step s op).1.read a = s.read a := by
  cases op with
  | newArray v => rw [step_newArray]; exact getD_append_lt ha
  | construct args =>
    cases hmk : StateTraj.mk' (args.map s.read) with
    | error e => rw [step_construct_error hmk]
    | ok st =>
      rw [step_construct_ok hmk]
      simp only [State.read, List.append_assoc]
      exact getD_append_lt ha
  | constructLumped macroArgs microArgs =>
    cases hmk : StateTraj.mk' (microArgs.map s.read) with
    | error e => rw [step_constructLumped_error hmk]
    | ok st =>
      rw [step_constructLumped_ok hmk]
      simp only [State.read, List.append_assoc]
      exact getD_append_lt ha
  | access acc =>
    cases hr : report s with
    | none => rw [step_access_none acc hr]
    | some r => rw [step_access_some acc hr]; exact getD_append_lt ha
  | write a' pos v =>
    by_cases hka : a' ∈ s.known
    · rw [step_write_known pos v hka]
      have hne : a' ≠ a := fun h => hw pos v (h ▸ rfl) (h ▸ hka)
      exact getD_modify_ne _ hne
    · rw [step_write_unknown pos v hka]
  | reconstruct => rfl

/-- only a `write a _ _` can change the contents of the allocated address `a` -/
theorem read_step_of_lt {s : State} {op : Op} {a : Addr} (ha : a < s.heap.length)
    (hw : ∀ pos v, op ≠ .write a pos v) : (step s op).1.read a = s.read a :=
  read_step_of_lt' ha (fun pos v h => absurd h (hw pos v))

/-- a write changes no other address (allocated or not) -/
theorem read_write_ne {s : State} {a a' : Addr} (pos : Nat) (v : Int) (hne : a' ≠ a) :
    (step s (.write a' pos v)).1.read a = s.read a := by
  by_cases hka : a' ∈ s.known
  · rw [step_write_known pos v hka]; exact getD_modify_ne _ hne
  · rw [step_write_unknown pos v hka]

/-- effect of a write on its target: the entry is set if the address is known to the caller, nothing happens otherwise -/
theorem read_write_self (s : State) (a : Addr) (pos : Nat) (v : Int) :
    (step s (.write a pos v)).1.read a = if a ∈ s.known then (s.read a).set pos v else s.read a := by
  by_cases hka : a ∈ s.known
  · rw [step_write_known pos v hka, if_pos hka]; exact getD_modify_self _ _ _ _
  · rw [step_write_unknown pos v hka, if_neg hka]

/-- the heap never shrinks -/
theorem heap_length_step (s : State) (op : Op) : s.heap.length ≤ (step s op).1.heap.length := by
  cases op with
  | newArray v => rw [step_newArray]; simp
  | construct args =>
    cases hmk : StateTraj.mk' (args.map s.read) with
    | error e => rw [step_construct_error hmk]; exact Nat.le_refl _
    | ok st => rw [step_construct_ok hmk]; simp only [List.length_append]; omega
  | constructLumped macroArgs microArgs =>
    cases hmk : StateTraj.mk' (microArgs.map s.read) with
    | error e => rw [step_constructLumped_error hmk]; exact Nat.le_refl _
    | ok st => rw [step_constructLumped_ok hmk]; simp only [List.length_append]; omega
  | access acc =>
    cases hr : report s with
    | none => rw [step_access_none acc hr]; exact Nat.le_refl _
    | some r => rw [step_access_some acc hr]; simp
  | write a' pos v =>
    by_cases hka : a' ∈ s.known
    · rw [step_write_known pos v hka]; simp
    · rw [step_write_unknown pos v hka]; exact Nat.le_refl _
  | reconstruct => exact Nat.le_refl _

/-- the object is replaced by constructor calls only -/
theorem obj_step {s : State} {op : Op} (hc : op.isCtor = false) : (step s op).1.obj = s.obj := by
  cases op with
  | newArray v => rw [step_newArray]
  | construct args => simp [Op.isCtor] at hc
  | constructLumped macroArgs microArgs => simp [Op.isCtor] at hc
  | access acc =>
    cases hr : report s with
    | none => rw [step_access_none acc hr]
    | some r => rw [step_access_some acc hr]
  | write a' pos v =>
    by_cases hka : a' ∈ s.known
    · rw [step_write_known pos v hka]
    · rw [step_write_unknown pos v hka]
  | reconstruct => rfl

/-! ### reports -/

/-- the report depends on the object and on the contents of its private addresses only -/
theorem report_congr {s s' : State} (hobj : s'.obj = s.obj)
    (hread : ∀ o, s.obj = some o → ∀ a ∈ o.addrs, s'.read a = s.read a) : report s' = report s := by
  unfold report
  rw [hobj]
  cases ho : s.obj with
  | none => rfl
  | some o =>
    have hr := hread o ho
    simp only [Option.map_some, Option.some.injEq, Report.mk.injEq]
    refine ⟨?_, ?_, ?_, ?_⟩
    · exact List.map_congr_left (fun a ha => hr a (mem_addrs.mpr (Or.inl ha)))
    · exact hr _ (mem_addrs.mpr (Or.inr (Or.inl rfl)))
    · cases hm : o.macroSts with
      | none => rfl
      | some m => simp only [Option.map_some]; rw [hr m (mem_addrs.mpr (Or.inr (Or.inr (Or.inl hm))))]
    · cases hm : o.assign with
      | none => rfl
      | some m => simp only [Option.map_some]; rw [hr m (mem_addrs.mpr (Or.inr (Or.inr (Or.inr hm))))]

/-- under the invariant no op other than a constructor call changes what the object reports -/
theorem report_step_of_inv {s : State} {op : Op} (h : Inv s) (hc : op.isCtor = false) :
    report (step s op).1 = report s := by
  rw [inv_iff] at h
  apply report_congr (obj_step hc)
  intro o ho a ha
  have hoa := h.2 o ho a ha
  exact read_step_of_lt' hoa.1 (fun _ _ _ => hoa.2)

/-- … and so does no sequence of such ops -/
theorem report_run_of_inv {s : State} {ops : List Op} (h : Inv s) (hc : NoCtor ops) :
    report (run s ops).1 = report s := by
  induction ops generalizing s with
  | nil => rfl
  | cons op ops ih =>
    rw [run_cons, ih (inv_step s op h) (fun o ho => hc o (List.mem_cons_of_mem _ ho)),
      report_step_of_inv h (hc op List.mem_cons_self)]

/-! ### reports of freshly constructed objects -/

theorem getD_append_right' (h ws : List (List Int)) (i : Nat) :
    (h ++ ws).getD (h.length + i) [] = ws.getD i [] := by
  rw [Nat.add_comm]; exact getD_append_right h ws i

/-- reading back freshly allocated arrays gives their contents, whatever is allocated after them -/
theorem map_getD_alloc' (h vs ws : List (List Int)) :
    ((List.range vs.length).map (· + h.length)).map (fun a => (h ++ vs ++ ws).getD a []) = vs := by
  apply List.ext_getElem
  · simp
  · intro i h1 h2
    simp only [List.getElem_map, List.getElem_range, List.append_assoc, getD_append_right]
    simp [List.getD_eq_getElem?_getD, List.getElem?_append_left h2, List.getElem?_eq_getElem h2]

theorem report_construct_ok {s : State} {args : List Addr} {st : StateTraj}
    (h : StateTraj.mk' (args.map s.read) = .ok st) :
    report (step s (.construct args)).1
      = some { idxTrajs := st.idx, sts := st.sts, macroSts := none, assign := none } := by
  rw [step_construct_ok h]
  simp only [report, Option.map_some, Option.map_none, Option.some.injEq, Report.mk.injEq, and_true]
  refine ⟨map_getD_alloc' _ _ _, ?_⟩
  show ((s.heap ++ st.idx) ++ [st.sts]).getD (s.heap.length + st.idx.length) [] = st.sts
  rw [← List.length_append, ← Nat.add_zero (s.heap ++ st.idx).length, getD_append_right']
  rfl

theorem report_constructLumped_ok {s : State} {macroArgs microArgs : List Addr} {st : StateTraj}
    (h : StateTraj.mk' (microArgs.map s.read) = .ok st) :
    report (step s (.constructLumped macroArgs microArgs)).1
      = some { idxTrajs := st.idx, sts := st.sts, macroSts := some (states (macroArgs.map s.read)),
               assign := some (assignment (microArgs.map s.read) (macroArgs.map s.read)) } := by
  rw [step_constructLumped_ok h]
  simp only [report, Option.map_some, Option.some.injEq, Report.mk.injEq]
  refine ⟨map_getD_alloc' _ _ _, ?_, ?_, ?_⟩
  · show ((s.heap ++ st.idx) ++ _).getD (s.heap.length + st.idx.length) [] = st.sts
    rw [← List.length_append, ← Nat.add_zero (s.heap ++ st.idx).length, getD_append_right']
    rfl
  · show ((s.heap ++ st.idx) ++ _).getD (s.heap.length + st.idx.length + 1) [] = _
    rw [← List.length_append, getD_append_right']
    rfl
  · show ((s.heap ++ st.idx) ++ _).getD (s.heap.length + st.idx.length + 2) [] = _
    rw [← List.length_append, getD_append_right']
    rfl

/-! ### decoding -/

theorem decode_rankTrajs (ts : Trajs) : (rankTrajs ts).map (decode (states ts)) = ts := by
  show (rankTrajs ts).map (·.map (labelOf (states ts))) = ts
  rw [rankTrajs_map_map]
  exact map_map_id (fun x hx => labelOf_rank (mem_states.mpr hx))

theorem labelOf_map_rank {ss : List Int} (f : Int → Int) {x : Int} (h : x ∈ ss) :
    labelOf (ss.map f) (rank ss x : Int) = f x := by
  rw [labelOf_natCast, List.getD_eq_getElem?_getD, List.getElem?_map,
    List.getElem?_eq_getElem (rank_lt h), getElem_rank h]
  rfl

theorem assignment_of_consistent (mic : Trajs) (f : Int → Int) :
    assignment mic (mic.map (·.map f)) = (states mic).map f := by
  unfold assignment
  apply List.map_congr_left
  intro x hx
  have hx' := mem_states.mp hx
  rw [← List.map_flatten, List.getD_eq_getElem?_getD, List.getElem?_map,
    List.getElem?_eq_getElem (List.idxOf_lt_length_of_mem hx'), List.getElem_idxOf]
  rfl

/-! ### reports and accessor values in canonical form -/

theorem report_construct_guard {s : State} {args : List Addr} (hg : LabelGuard (args.map s.read)) :
    report (step s (.construct args)).1
      = some ⟨rankTrajs (args.map s.read), states (args.map s.read), none, none⟩ :=
  report_construct_ok (mk'_eq_rank hg)

theorem report_constructLumped_guard {s : State} {macroArgs microArgs : List Addr}
    (hg : LabelGuard (microArgs.map s.read)) :
    report (step s (.constructLumped macroArgs microArgs)).1
      = some ⟨rankTrajs (microArgs.map s.read), states (microArgs.map s.read),
          some (states (macroArgs.map s.read)),
          some (assignment (microArgs.map s.read) (macroArgs.map s.read))⟩ :=
  report_constructLumped_ok (mk'_eq_rank hg)

theorem evalTrajs_plain (ts : Trajs) (m : Option (List Int)) :
    evalTrajs ⟨rankTrajs ts, states ts, m, none⟩ = ts := by
  simp only [evalTrajs]
  exact decode_rankTrajs ts

theorem evalTrajs_lumped (mic : Trajs) (f : Int → Int) (m : Option (List Int)) :
    evalTrajs ⟨rankTrajs mic, states mic, m, some ((states mic).map f)⟩ = mic.map (·.map f) := by
  simp only [evalTrajs]
  rw [rankTrajs_map_map]
  exact map_map_congr (fun x hx => labelOf_map_rank f (mem_states.mpr hx))

theorem evalIndexTrajs_plain (ts : Trajs) (m : Option (List Int)) :
    evalIndexTrajs ⟨rankTrajs ts, states ts, m, none⟩ = rankTrajs ts := by
  simp only [evalIndexTrajs]

theorem evalIndexTrajs_lumped (mic : Trajs) (f : Int → Int) (ms : List Int) :
    evalIndexTrajs ⟨rankTrajs mic, states mic, some ms, some ((states mic).map f)⟩
      = (mic.map (·.map f)).map (·.map (fun x => (rank ms x : Int))) := by
  simp only [evalIndexTrajs]
  rw [rankTrajs_map_map, List.map_map]
  simp only [Function.comp_def, List.map_map]
  exact map_map_congr (fun x hx => by rw [labelOf_map_rank f (mem_states.mpr hx)])

/-! ### freshness of the private addresses after a constructor call -/

theorem addrs_construct_ok {s : State} {args : List Addr} {st : StateTraj}
    (h : StateTraj.mk' (args.map s.read) = .ok st) :
    ∃ o, (step s (.construct args)).1.obj = some o ∧ ∀ a ∈ o.addrs, s.heap.length ≤ a := by
  rw [step_construct_ok h]
  refine ⟨_, rfl, ?_⟩
  intro a ha
  rw [mem_addrs] at ha
  simp only [mem_alloc_addrs, reduceCtorEq, or_false] at ha
  omegaA

theorem addrs_constructLumped_ok {s : State} {macroArgs microArgs : List Addr} {st : StateTraj}
    (h : StateTraj.mk' (microArgs.map s.read) = .ok st) :
    ∃ o, (step s (.constructLumped macroArgs microArgs)).1.obj = some o ∧
      ∀ a ∈ o.addrs, s.heap.length ≤ a := by
  rw [step_constructLumped_ok h]
  refine ⟨_, rfl, ?_⟩
  intro a ha
  rw [mem_addrs] at ha
  simp only [mem_alloc_addrs, Option.some.injEq] at ha
  omegaA

/-! ### a concrete session used for the non-vacuity examples -/

/-- two label trajectories `[3,5,3]`, `[7,5]` created by the caller -/
def exState : State := { heap := [[3, 5, 3], [7, 5]], obj := none, known := [0, 1] }

/-- read everything, overwrite a returned array (address 5), overwrite a constructor argument (address 0), read again -/
def exOps : List Op :=
  [.access .trajs, .write 5 0 99, .write 0 1 42, .access .states, .newArray [1, 2], .reconstruct, .access .indexTrajs]

end MsmVerif.Heap
