/-
Refine/McmcEnd.lean — task RP29 (property C07): the public `propagate_MCMC` of `msm/timescales.py` END TO END and the law of the chain — the
composition of

* the public wrapper (`Refine/Small.lean`, task RP15): start-state handling (`start = -1` ⇒ `np.random.choice`), label → index conversion
  (`state_to_idx`), `_get_cummat(lagtime)`, THE KERNEL, index → label conversion (`states[·]`);
* the translated `_get_cummat` (`Refine/Cummat.lean`, task RP9) applied to the estimated transition matrix `T` (taken as given), plugged in as the
  `_get_cummat` oracle (`getcOf argsort T`); `np.argsort` stays an oracle with the contract of `Refine/Cummat.lean`;
* the translated compiled kernel `_propagate_MCMC` (`Refine/Mcmc.lean`, task RP4), which consumes a stream of uniform draws: plugged in as the kernel
  oracle by fixing the stream (`chainOracle us`);
* the law of the model chain (`Props/C07Law.lean`).

Setting of all theorems of the section `accepted` (section variables, included in every theorem):
* `T` an `n × n` matrix without negative entries; the `argsort` oracle answers every row of `T` with the reverse of a permutation `ord row` of
  `range n`; the state list `ss` has `n` entries;
* the call has the argument `start`, and `s ∈ ss` is the START LABEL: `start` itself if `start ≠ -1`, the answer of the `np.random.choice(states)`
  oracle if `start = -1` (hypothesis `hstart : start ≠ -1 ∧ start = s ∨ start = -1 ∧ choice ss = .ok s`).
`cumOf T ord` / `permOf T ord` is the exact `_get_cummat` of `T` (rows `Mcmc.cumRow row (ord row)` / `ord row`); `labels ss c` reads an index chain
through `states[·]`.  The law theorems (section `law`) assume in addition: rows of `T` sum to 1, the oracle's order sorts every row non-increasingly
(`np.argsort(row)[::-1]`), `ss` ascending.

Results:
* `get_cummat_plugged`: the plugged-in `_get_cummat` returns `(cumOf T ord, permI (permOf T ord))`, well-formed (`WF`);
* `propagate_MCMC_end_to_end`, `…_realised` (start label followed by `Mcmc.realised`), `…_shape` (length, first frame, only labels of `ss`),
  `…_steps` (`ss` duplicate-free: every frame is the inverse-CDF step from its predecessor), `…_holdsChain` (accepted by the harness oracle),
  `…_exists` (oracle contract in existential form);
* errors: `propagate_MCMC_draws_exhausted`, `propagate_MCMC_no_frames` (`steps ≤ 0`: `IndexError`), `propagate_MCMC_negative_matrix`,
  `propagate_MCMC_unknown_start`;
* the law: `get_cummat_exactModel` (link `get_cummat_refines` → `ExactModel`), `propagate_MCMC_law`, `propagate_MCMC_zero_never`,
  `propagate_MCMC_zero_pair_never`, `propagate_MCMC_partition`, `propagate_MCMC_volume_sum_one`.

Notes: the returned index chain is `Mcmc.chain … steps us` = start index followed by `Mcmc.realised … (steps - 1) us` (`steps` frames, `steps - 1`
draws), not `Mcmc.realised … steps us`.  The law needs the oracle to SORT (last example of §5: with a non-sorting permutation a zero-probability
transition is taken); the end-to-end equations need only permutations.

Helper lemmas and the definitions `chainOracle`, `getcOf`, `cumOf`, `permOf`, `labels`: `Refine/McmcEndLemmas.lean` (same namespace).
-/
import MsmVerif.Refine.McmcEndLemmas

namespace MsmVerif.Refine.McmcEnd
open MsmVerif MsmVerif.Gen
open MsmVerif.Mcmc (cumRow isPermOfRange nonIncreasing chainFrom chain realised step holdsChain ExactModel pathBox inBox volume allPaths
  T3 cum3 perm3 pathBox3)
open MsmVerif.Refine.Mcmc (WF permI)

section accepted
variable {choice : List Int → Py Int} {argsort : List Rat → Py (List Int)} {T : List (List Rat)} {n : Nat}
  {ord : List Rat → List Nat} {ss : List Int} {start s : Int}
  (hsq : T.length = n ∧ ∀ r ∈ T, r.length = n) (hnonneg : ∀ r ∈ T, ∀ x ∈ r, 0 ≤ x)
  (horacle : ∀ row ∈ T, isPermOfRange (ord row) n = true ∧ argsort row = .ok (((ord row).map Int.ofNat).reverse))
  (hlen : ss.length = n)
  (hstart : start ≠ -1 ∧ start = s ∨ start = -1 ∧ choice ss = .ok s) (hmem : s ∈ ss)

/-! ### 1. the plugged-in `_get_cummat` -/

include hsq hnonneg horacle in
/-- **the plugged-in `_get_cummat`.**  For every lag time the oracle `getcOf argsort T` (the translated `_get_cummat` run on `T`, `n ≥ 1`) raises
    nothing and returns the exact cumulative matrix `cumOf T ord` (row `i`: `Mcmc.cumRow T[i] (ord T[i])`) with the permutation matrix `permOf T ord`
    (row `i`: `ord T[i]`, as integers); the pair is well-formed (`WF`: `n` rows of `n` entries each, permutation entries `< n`) — what the chain
    kernel needs. -/
theorem get_cummat_plugged (hn : 1 ≤ n) (lag : Int) :
    getcOf argsort T lag = .ok (cumOf T ord, permI (permOf T ord)) ∧ WF (cumOf T ord) (permOf T ord) n :=
  ⟨getcOf_ok hn hsq hnonneg horacle lag, wf_of_argsort hn hsq horacle⟩

/-! ### 2. end to end -/

include hsq hnonneg horacle hlen hstart hmem

/-- **`propagate_MCMC`, end to end.**  `T` an `n × n` matrix without negative entries, `argsort` answering with permutations, `|ss| = n`; start label
    `s ∈ ss` (the argument `start` if it is not `-1`, else the answer of `np.random.choice(states)`), `steps ≥ 1` frames, at least `steps - 1` draws in
    `us`.  Then the public `propagate_MCMC` with the TRANSLATED `_get_cummat` and the TRANSLATED chain kernel plugged in raises nothing (no
    `IndexError`, no `ValueError`) and returns the LABEL chain `ss[c_0], ss[c_1], …` of the model's index chain
    `c = Mcmc.chain cum perm (rank ss s) steps us` for `(cum, perm)` the exact `_get_cummat` of `T`: frame 0 is the index of `s`, every further frame
    the inverse-CDF step of the previous one with the next draw.  For `start ≠ -1` the `np.random.choice` oracle is not consulted; the lag time only
    selects the matrix (taken as given).  (That `ss` is ascending is not needed for this equation.) -/
theorem propagate_MCMC_end_to_end (lag : Int) (steps : Nat) (hsteps : 1 ≤ steps) (us : List Rat) (hus : steps - 1 ≤ us.length) :
    Gen.MsmMcmcApi.propagate_MCMC choice (getcOf argsort T) (chainOracle us) ss lag (steps : Int) start
      = .ok (labels ss (chain (cumOf T ord) (permOf T ord) (rank ss s) steps us)) := by
  have hn := npos_of_mem hmem hlen
  have hwf := wf_of_argsort hn hsq horacle
  have hr : rank ss s < n := hlen ▸ rank_lt hmem
  exact propagate_ok choice _ _ ss lag steps start s hstart hmem _ (getcOf_ok hn hsq hnonneg horacle lag) _
    (chainOracle_ok hwf (rank ss s) steps hr hsteps us hus) (fun i hi => hlen ▸ chain_lt hwf (rank ss s) steps hr us i hi)

/-- **the same in terms of the realised states**: the result is the start label `s` followed by the labels of `Mcmc.realised cum perm (rank ss s)
    (steps - 1) us`, the states after each of the `steps - 1` propagation steps (the chain the event loops of C08 see, started in the same state). -/
theorem propagate_MCMC_end_to_end_realised (lag : Int) (steps : Nat) (hsteps : 1 ≤ steps) (us : List Rat) (hus : steps - 1 ≤ us.length) :
    Gen.MsmMcmcApi.propagate_MCMC choice (getcOf argsort T) (chainOracle us) ss lag (steps : Int) start
      = .ok (s :: labels ss (realised (cumOf T ord) (permOf T ord) (rank ss s) (steps - 1) us)) := by
  rw [propagate_MCMC_end_to_end hsq hnonneg horacle hlen hstart hmem lag steps hsteps us hus, chain_eq_cons _ _ _ _ hsteps,
    labels_cons, labelOf_rank' hmem]

/-- **shape of the result**: exactly `steps` frames, the first is the start label, every frame is a label of `ss`. -/
theorem propagate_MCMC_end_to_end_shape (lag : Int) (steps : Nat) (hsteps : 1 ≤ steps) (us : List Rat) (hus : steps - 1 ≤ us.length) :
    ∃ r, Gen.MsmMcmcApi.propagate_MCMC choice (getcOf argsort T) (chainOracle us) ss lag (steps : Int) start = .ok r ∧
      r.length = steps ∧ r.head? = some s ∧ ∀ x ∈ r, x ∈ ss := by
  have hn := npos_of_mem hmem hlen
  have hwf := wf_of_argsort hn hsq horacle
  have hr : rank ss s < n := hlen ▸ rank_lt hmem
  refine ⟨_, propagate_MCMC_end_to_end hsq hnonneg horacle hlen hstart hmem lag steps hsteps us hus, ?_, ?_, ?_⟩
  · rw [labels_length, C07.chain_length _ _ _ _ _ hus]
  · rw [chain_eq_cons _ _ _ _ hsteps, labels_cons, labelOf_rank' hmem]; rfl
  · intro x hx
    obtain ⟨i, hi, rfl⟩ := List.mem_map.mp hx
    exact labelOf_mem ss i (hlen ▸ chain_lt hwf (rank ss s) steps hr us i hi)

/-- **every frame is the inverse-CDF step from its predecessor** (state list duplicate-free, as the ascending list of a `StateTraj` is): for
    `i + 1 < steps` the index of frame `i + 1` of the result is `Mcmc.step` of the cumulative row and the permutation row of the index of frame `i`,
    with draw `us[i]` — the state of the first column whose cumulative value exceeds the draw. -/
theorem propagate_MCMC_end_to_end_steps (hnd : ss.Nodup) (lag : Int) (steps : Nat) (hsteps : 1 ≤ steps) (us : List Rat)
    (hus : steps - 1 ≤ us.length) :
    ∃ r, Gen.MsmMcmcApi.propagate_MCMC choice (getcOf argsort T) (chainOracle us) ss lag (steps : Int) start = .ok r ∧
      ∀ i, i + 1 < steps →
        rank ss (r.getD (i + 1) 0) = step ((cumOf T ord).getD (rank ss (r.getD i 0)) []) ((permOf T ord).getD (rank ss (r.getD i 0)) [])
          (us.getD i 0) := by
  have hn := npos_of_mem hmem hlen
  have hwf := wf_of_argsort hn hsq horacle
  have hr : rank ss s < n := hlen ▸ rank_lt hmem
  refine ⟨_, propagate_MCMC_end_to_end hsq hnonneg horacle hlen hstart hmem lag steps hsteps us hus, ?_⟩
  intro i hi
  have hl := C07.chain_length (cumOf T ord) (permOf T ord) (rank ss s) steps us hus
  have hget : ∀ k, k < steps → rank ss ((labels ss (chain (cumOf T ord) (permOf T ord) (rank ss s) steps us)).getD k 0)
      = (chain (cumOf T ord) (permOf T ord) (rank ss s) steps us).getD k 0 := by
    intro k hk
    rw [labels_getD _ _ _ (by omega)]
    apply rank_labelOf hnd
    rw [Mcmc.getD_of_lt _ 0 (by omega : k < _), hlen]
    exact chain_lt hwf (rank ss s) steps hr us _ (List.getElem_mem _)
  rw [hget (i + 1) hi, hget i (by omega)]
  exact C07.chain_step _ _ _ _ _ hus i hi

/-- **the result is accepted by the chain oracle of the differential harness** (`Mcmc.holdsChain`, `Model/Mcmc.lean`) for the exact cumulative matrix
    of `T`, the state list, the index of the start label, `steps` and the draws. -/
theorem propagate_MCMC_end_to_end_holdsChain (lag : Int) (steps : Nat) (hsteps : 1 ≤ steps) (us : List Rat) (hus : steps - 1 ≤ us.length) :
    ∃ r, Gen.MsmMcmcApi.propagate_MCMC choice (getcOf argsort T) (chainOracle us) ss lag (steps : Int) start = .ok r ∧
      holdsChain (cumOf T ord) (permOf T ord) ss (rank ss s) steps us r = true :=
  ⟨_, propagate_MCMC_end_to_end hsq hnonneg horacle hlen hstart hmem lag steps hsteps us hus, C07.holdsChain_of_model _ _ _ _ _ _⟩

/-! ### 3. errors -/

/-- **draws exhausted**: fewer than `steps - 1` draws in the stream ⇒ the kernel's error (the runtime's "no draw left") is passed on — nothing is
    defaulted, no chain is returned. -/
theorem propagate_MCMC_draws_exhausted (lag : Int) (steps : Nat) (us : List Rat) (hus : us.length < steps - 1) :
    Gen.MsmMcmcApi.propagate_MCMC choice (getcOf argsort T) (chainOracle us) ss lag (steps : Int) start = .error .other := by
  have hn := npos_of_mem hmem hlen
  have hwf := wf_of_argsort hn hsq horacle
  have hr : rank ss s < n := hlen ▸ rank_lt hmem
  exact propagate_kernel_error choice _ _ ss lag steps start s hstart hmem _ (getcOf_ok hn hsq hnonneg horacle lag) _
    (chainOracle_exhausted hwf (rank ss s) steps hr us hus)

/-- **no frames requested**: `steps ≤ 0` ⇒ `IndexError` (`mcmc[0] = start` on the empty array `np.empty(0)`), whatever the draws. -/
theorem propagate_MCMC_no_frames (lag : Int) (steps : Int) (hsteps : steps ≤ 0) (us : List Rat) :
    Gen.MsmMcmcApi.propagate_MCMC choice (getcOf argsort T) (chainOracle us) ss lag steps start = .error .index := by
  have hn := npos_of_mem hmem hlen
  exact propagate_kernel_error choice _ _ ss lag steps start s hstart hmem _ (getcOf_ok hn hsq hnonneg horacle lag) _
    (chainOracle_no_frames us _ _ steps hsteps)

end accepted

/-- **the oracle contract in existential form** (for every row of `T` SOME permutation of `range n` is what `argsort` returns, reversed): the
    statement of `propagate_MCMC_end_to_end` holds with the visiting orders read off the oracle's answers (`Cummat.ordOf argsort row` = the answer
    reversed, as naturals). -/
theorem propagate_MCMC_end_to_end_exists {choice : List Int → Py Int} {argsort : List Rat → Py (List Int)} {T : List (List Rat)} {n : Nat}
    {ss : List Int} {start s : Int}
    (hsq : T.length = n ∧ ∀ r ∈ T, r.length = n) (hnonneg : ∀ r ∈ T, ∀ x ∈ r, 0 ≤ x)
    (horacle : ∀ row ∈ T, ∃ order : List Nat, isPermOfRange order n = true ∧ argsort row = .ok ((order.map Int.ofNat).reverse))
    (hlen : ss.length = n) (hstart : start ≠ -1 ∧ start = s ∨ start = -1 ∧ choice ss = .ok s) (hmem : s ∈ ss)
    (lag : Int) (steps : Nat) (hsteps : 1 ≤ steps) (us : List Rat) (hus : steps - 1 ≤ us.length) :
    Gen.MsmMcmcApi.propagate_MCMC choice (getcOf argsort T) (chainOracle us) ss lag (steps : Int) start
      = .ok (labels ss (chain (cumOf T (Cummat.ordOf argsort)) (permOf T (Cummat.ordOf argsort)) (rank ss s) steps us)) := by
  apply propagate_MCMC_end_to_end hsq hnonneg _ hlen hstart hmem lag steps hsteps us hus
  intro row hrow
  obtain ⟨order, hperm, hext⟩ := horacle row hrow
  rw [Cummat.ordOf_eq argsort row order hext]
  exact ⟨hperm, hext⟩

/-- **a negative entry in the matrix** ⇒ `ValueError` from `_get_cummat`, for every start label of `ss`, whatever the `argsort` oracle, the number
    of frames and the draws (the kernel is not run). -/
theorem propagate_MCMC_negative_matrix (choice : List Int → Py Int) (argsort : List Rat → Py (List Int)) (T : List (List Rat))
    (hneg : ∃ r ∈ T, ∃ x ∈ r, x < 0) (ss : List Int) (lag steps start s : Int)
    (hstart : start ≠ -1 ∧ start = s ∨ start = -1 ∧ choice ss = .ok s) (hmem : s ∈ ss) (us : List Rat) :
    Gen.MsmMcmcApi.propagate_MCMC choice (getcOf argsort T) (chainOracle us) ss lag steps start = .error .value :=
  propagate_cummat_error choice _ _ ss lag steps start s hstart hmem _ (Cummat.get_cummat_negative argsort T hneg)

/-- **unknown start label** (neither `-1` nor a state) ⇒ `ValueError`; neither `_get_cummat` nor the kernel is run. -/
theorem propagate_MCMC_unknown_start (choice : List Int → Py Int) (argsort : List Rat → Py (List Int)) (T : List (List Rat))
    (ss : List Int) (lag steps start : Int) (hs : start ≠ -1) (hmem : start ∉ ss) (us : List Rat) :
    Gen.MsmMcmcApi.propagate_MCMC choice (getcOf argsort T) (chainOracle us) ss lag steps start = .error .value :=
  Small.propagate_MCMC_api_rejects _ _ _ ss lag steps start hs hmem

/-! ### 4. the law of the chain -/

section law
variable {choice : List Int → Py Int} {argsort : List Rat → Py (List Int)} {T : List (List Rat)} {n : Nat}
  {ord : List Rat → List Nat} {ss : List Int} {start s : Int}
  (hsq : T.length = n ∧ ∀ r ∈ T, r.length = n) (hnonneg : ∀ r ∈ T, ∀ x ∈ r, 0 ≤ x) (hsum : ∀ r ∈ T, r.sum = 1)
  (horacle : ∀ row ∈ T, isPermOfRange (ord row) n = true ∧ argsort row = .ok (((ord row).map Int.ofNat).reverse))
  (hsort : ∀ row ∈ T, nonIncreasing ((ord row).map (fun j => row.getD j 0)) = true)
  (hss : ss.Pairwise (· < ·)) (hlen : ss.length = n)
  (hstart : start ≠ -1 ∧ start = s ∨ start = -1 ∧ choice ss = .ok s) (hmem : s ∈ ss)

include hsq hnonneg hsum horacle hsort in
/-- **the link `_get_cummat` → `ExactModel`.**  `T` square (`n ≥ 1`), row-stochastic (no negative entries, rows sum to 1); the `argsort` oracle answers
    every row with the reverse of a permutation of `range n` that sorts the row non-increasingly (what `np.argsort(row)[::-1]` is, whatever the tie
    order).  Then whatever the translated `_get_cummat` returns on `T` is the exact model of `T`: the returned cumulative matrix is `cumOf T ord`,
    the returned permutation matrix is (the integer form of) `permOf T ord`, and `ExactModel T (cumOf T ord) (permOf T ord)` holds — the hypothesis
    of the law theorems of `Props/C07Law.lean`. -/
theorem get_cummat_exactModel (hn : 1 ≤ n) (cum : List (List Rat)) (pI : List (List Int))
    (hres : Gen.MsmCummat.get_cummat argsort T = .ok (cum, pI)) :
    cum = cumOf T ord ∧ pI = permI (permOf T ord) ∧ ExactModel T (cumOf T ord) (permOf T ord) := by
  have h := getcOf_ok hn hsq hnonneg horacle 0
  unfold getcOf at h
  rw [h] at hres
  injection hres with hres
  injection hres with h1 h2
  exact ⟨h1.symm, h2.symm, exactModel_of_argsort hsq hnonneg hsum horacle hsort⟩

include hsq hnonneg hsum horacle hsort hss hlen hstart hmem

/-- **the law of `propagate_MCMC`.**  Setting of `propagate_MCMC_end_to_end`, `T` row-stochastic, the oracle's order sorting every row
    non-increasingly, `ss` ascending, and the `steps - 1` draws that are consumed all in `[0, 1)`.  For every index path `path` over the states `< n`:
    the public `propagate_MCMC` returns the start label followed by the labels of `path` IF AND ONLY IF the consumed draws lie in the box
    `pathBox cum perm (rank ss s) path` (one half-open interval per step); and the volume of that box is the product of the transition
    probabilities `T[s][p_0] · T[p_0][p_1] · …` along the path.  So for independent uniform draws the returned chain is a Markov chain with
    transition matrix `T` started in `s`. -/
theorem propagate_MCMC_law (lag : Int) (steps : Nat) (hsteps : 1 ≤ steps) (us : List Rat) (hus : steps - 1 ≤ us.length)
    (hu : ∀ u ∈ us.take (steps - 1), 0 ≤ u ∧ u < 1) (path : List Nat) (hpath : ∀ j ∈ path, j < n) :
    (Gen.MsmMcmcApi.propagate_MCMC choice (getcOf argsort T) (chainOracle us) ss lag (steps : Int) start = .ok (s :: labels ss path)
      ↔ inBox (pathBox (cumOf T ord) (permOf T ord) (rank ss s) path) (us.take (steps - 1))) ∧
    volume (pathBox (cumOf T ord) (permOf T ord) (rank ss s) path)
      = (((rank ss s :: path).zip path).map (fun ab => (T.getD ab.1 []).getD ab.2 0)).prod := by
  have hn := npos_of_mem hmem hlen
  have hwf := wf_of_argsort hn hsq horacle
  have hm := exactModel_of_argsort hsq hnonneg hsum horacle hsort
  have hr : rank ss s < n := hlen ▸ rank_lt hmem
  have hlaw := C07Law.chain_law T _ _ hm (rank ss s) (hsq.1 ▸ hr) path (fun j hj => hsq.1 ▸ hpath j hj) (us.take (steps - 1)) hu
  refine ⟨?_, hlaw.2⟩
  rw [propagate_MCMC_end_to_end_realised hsq hnonneg horacle hlen hstart hmem lag steps hsteps us hus, ← hlaw.1]
  constructor
  · intro h
    injection h with h
    injection h with _ h
    exact labels_inj (nodup_of_ascending hss) _ _ (fun x hx => hlen ▸ realised_lt hwf _ _ hr us x hx) (fun x hx => hlen ▸ hpath x hx) h
  · intro h
    unfold realised
    rw [h]

/-- **a transition with `T_ij = 0` is never taken.**  Setting of `propagate_MCMC_law`.  In the returned label chain every pair of consecutive frames
    `(a, b)` is a transition of POSITIVE probability: `T[rank a][rank b] > 0`. -/
theorem propagate_MCMC_zero_never (lag : Int) (steps : Nat) (hsteps : 1 ≤ steps) (us : List Rat) (hus : steps - 1 ≤ us.length)
    (hu : ∀ u ∈ us.take (steps - 1), 0 ≤ u ∧ u < 1) :
    ∃ r, Gen.MsmMcmcApi.propagate_MCMC choice (getcOf argsort T) (chainOracle us) ss lag (steps : Int) start = .ok r ∧
      ∀ ab ∈ r.zip r.tail, 0 < (T.getD (rank ss ab.1) []).getD (rank ss ab.2) 0 := by
  have hn := npos_of_mem hmem hlen
  have hwf := wf_of_argsort hn hsq horacle
  have hm := exactModel_of_argsort hsq hnonneg hsum horacle hsort
  have hr : rank ss s < n := hlen ▸ rank_lt hmem
  have hnd := nodup_of_ascending hss
  refine ⟨_, propagate_MCMC_end_to_end_realised hsq hnonneg horacle hlen hstart hmem lag steps hsteps us hus, ?_⟩
  intro ab hab
  have hpos := Mcmc.chainFrom_pos hm (rank ss s) (hsq.1 ▸ hr) (us.take (steps - 1)) hu
  have hlt := realised_lt hwf (rank ss s) (steps - 1) hr us
  have e : s :: labels ss (realised (cumOf T ord) (permOf T ord) (rank ss s) (steps - 1) us)
      = labels ss (rank ss s :: realised (cumOf T ord) (permOf T ord) (rank ss s) (steps - 1) us) := by
    rw [labels_cons, labelOf_rank' hmem]
  rw [List.tail_cons, e] at hab
  unfold labels at hab
  rw [List.zip_map, List.mem_map] at hab
  obtain ⟨⟨a, b⟩, hmem', rfl⟩ := hab
  have ha : a < ss.length := by
    rcases List.mem_cons.mp (List.of_mem_zip hmem').1 with rfl | h
    · exact rank_lt hmem
    · exact hlen ▸ hlt a h
  have hb : b < ss.length := hlen ▸ hlt b (List.of_mem_zip hmem').2
  show 0 < (T.getD (rank ss (labelOf ss (a : Int))) []).getD (rank ss (labelOf ss (b : Int))) 0
  rw [rank_labelOf hnd a ha, rank_labelOf hnd b hb]
  exact hpos (a, b) hmem'

/-- **the same, read from the matrix**: if `T[i][j] = 0` for two state indices `i, j < n`, the label pair `(ss[i], ss[j])` never occurs as two
    consecutive frames of the returned chain. -/
theorem propagate_MCMC_zero_pair_never (lag : Int) (steps : Nat) (hsteps : 1 ≤ steps) (us : List Rat) (hus : steps - 1 ≤ us.length)
    (hu : ∀ u ∈ us.take (steps - 1), 0 ≤ u ∧ u < 1) (i j : Nat) (hi : i < n) (hj : j < n) (hzero : (T.getD i []).getD j 0 = 0) :
    ∃ r, Gen.MsmMcmcApi.propagate_MCMC choice (getcOf argsort T) (chainOracle us) ss lag (steps : Int) start = .ok r ∧
      (labelOf ss (i : Int), labelOf ss (j : Int)) ∉ r.zip r.tail := by
  obtain ⟨r, hr, hpos⟩ := propagate_MCMC_zero_never hsq hnonneg hsum horacle hsort hss hlen hstart hmem lag steps hsteps us hus hu
  refine ⟨r, hr, fun hin => ?_⟩
  have h := hpos _ hin
  have hnd := nodup_of_ascending hss
  simp only [rank_labelOf hnd i (hlen ▸ hi), rank_labelOf hnd j (hlen ▸ hj), hzero] at h
  exact absurd h (by decide)

omit hss in
/-- **the boxes partition the cube of draws.**  Setting of `propagate_MCMC_law` (`ss` need not be ascending here).  There is exactly one index path
    over the states `< n` whose box holds the consumed draws; it has `steps - 1` states, the public `propagate_MCMC` returns the start label followed
    by the labels of that path, and its box has positive volume.  (Together with `propagate_MCMC_law` and `propagate_MCMC_volume_sum_one`: the boxes
    of the paths of length `steps - 1` partition `[0,1)^(steps-1)` and their volumes — the path probabilities — add up to 1.) -/
theorem propagate_MCMC_partition (lag : Int) (steps : Nat) (hsteps : 1 ≤ steps) (us : List Rat) (hus : steps - 1 ≤ us.length)
    (hu : ∀ u ∈ us.take (steps - 1), 0 ≤ u ∧ u < 1) :
    ∃ path : List Nat, (∀ j ∈ path, j < n) ∧ path.length = steps - 1 ∧
      inBox (pathBox (cumOf T ord) (permOf T ord) (rank ss s) path) (us.take (steps - 1)) ∧
      0 < volume (pathBox (cumOf T ord) (permOf T ord) (rank ss s) path) ∧
      Gen.MsmMcmcApi.propagate_MCMC choice (getcOf argsort T) (chainOracle us) ss lag (steps : Int) start = .ok (s :: labels ss path) ∧
      ∀ path' : List Nat, (∀ j ∈ path', j < n) →
        inBox (pathBox (cumOf T ord) (permOf T ord) (rank ss s) path') (us.take (steps - 1)) → path' = path := by
  have hm := exactModel_of_argsort hsq hnonneg hsum horacle hsort
  have hr : rank ss s < n := hlen ▸ rank_lt hmem
  obtain ⟨h1, h2, _, h4, h5⟩ := C07Law.boxes_cover T _ _ hm (rank ss s) (hsq.1 ▸ hr) (us.take (steps - 1)) hu
  refine ⟨chainFrom (cumOf T ord) (permOf T ord) (rank ss s) (us.take (steps - 1)), fun j hj => hsq.1 ▸ h2 j hj, ?_, h5, h4, ?_, ?_⟩
  · rw [h1, List.length_take]; omega
  · exact propagate_MCMC_end_to_end_realised hsq hnonneg horacle hlen hstart hmem lag steps hsteps us hus
  · intro path' hp' hb'
    exact (((C07Law.chain_law T _ _ hm (rank ss s) (hsq.1 ▸ hr) path' (fun j hj => hsq.1 ▸ hp' j hj) _ hu).1).mpr hb').symm

omit hss hlen hstart hmem in
/-- **the path probabilities form a distribution**: for every start index `i < n` and every number of steps `m`, the volumes of the boxes of all
    `n^m` index paths of length `m` (by `propagate_MCMC_law` the products of the transition probabilities along them) add up to 1. -/
theorem propagate_MCMC_volume_sum_one (i : Nat) (hi : i < n) (m : Nat) :
    ((allPaths n m).map (fun p => volume (pathBox (cumOf T ord) (permOf T ord) i p))).sum = 1 := by
  have hm := exactModel_of_argsort hsq hnonneg hsum horacle hsort
  have := C07Law.volume_sum_one T _ _ hm i (hsq.1 ▸ hi) m
  rw [hsq.1] at this
  exact this

end law

/-! ### 5. non-vacuity: the concrete 3-state model of `Lemmas/ChainLaw.lean` (`T3`, `cum3`, `perm3`) behind the public function -/

/-- the visiting orders an `argsort` delivers for the three rows of `T3` (non-increasing probability; rows of `perm3`) -/
def ex3Ord (row : List Rat) : List Nat :=
  if row = [1/2, 1/2, 0] then [0, 1, 2] else if row = [1/4, 1/2, 1/4] then [1, 0, 2] else [2, 1, 0]
/-- the `np.argsort` oracle of the example (ascending order = the visiting order reversed) -/
def ex3Argsort (row : List Rat) : Py (List Int) := .ok (((ex3Ord row).map Int.ofNat).reverse)
/-- the `np.random.choice` oracle of the example: always the state `8` -/
def ex3Choice : List Int → Py Int := fun _ => .ok 8

/-- all hypotheses of the sections `accepted` and `law` hold for `T3`, the example oracle and the states `3 < 5 < 8` -/
example : (T3.length = 3 ∧ ∀ r ∈ T3, r.length = 3) ∧ (∀ r ∈ T3, ∀ x ∈ r, 0 ≤ x) ∧ (∀ r ∈ T3, r.sum = 1) ∧
    (∀ row ∈ T3, isPermOfRange (ex3Ord row) 3 = true ∧ ex3Argsort row = .ok (((ex3Ord row).map Int.ofNat).reverse)) ∧
    (∀ row ∈ T3, nonIncreasing ((ex3Ord row).map (fun j => row.getD j 0)) = true) ∧
    ([3, 5, 8] : List Int).Pairwise (· < ·) ∧ ([3, 5, 8] : List Int).length = 3 := by
  decide +kernel

/-- the exact `_get_cummat` of `T3` is `(cum3, perm3)`, and the translated `_get_cummat` really returns it -/
example : cumOf T3 ex3Ord = cum3 ∧ permOf T3 ex3Ord = perm3 ∧ getcOf ex3Argsort T3 7 = .ok (cum3, permI perm3) := by
  decide +kernel

/-- end to end, explicit start label 3: the theorem applies … -/
example : Gen.MsmMcmcApi.propagate_MCMC ex3Choice (getcOf ex3Argsort T3) (chainOracle [3/5, 4/5, 1/3]) [3, 5, 8] 7 ((4 : Nat) : Int) 3
    = .ok (labels [3, 5, 8] (chain (cumOf T3 ex3Ord) (permOf T3 ex3Ord) (rank [3, 5, 8] 3) 4 [3/5, 4/5, 1/3])) :=
  propagate_MCMC_end_to_end (n := 3) (s := 3) (by decide +kernel) (by decide +kernel) (by decide +kernel) (by decide)
    (.inl ⟨by decide, rfl⟩) (by decide) 7 4 (by decide) _ (by decide)
/-- … and the value: the index path `0 → 1 → 2 → 2` as labels (the translated wrapper, `_get_cummat` and kernel really run, on the three draws) -/
example : Gen.MsmMcmcApi.propagate_MCMC ex3Choice (getcOf ex3Argsort T3) (chainOracle [3/5, 4/5, 1/3]) [3, 5, 8] 7 4 3 = .ok [3, 5, 8, 8] := by
  decide +kernel

/-- `start = -1`: the start label is the oracle's choice `8`; the theorem applies, and the value -/
example : Gen.MsmMcmcApi.propagate_MCMC ex3Choice (getcOf ex3Argsort T3) (chainOracle [3/5, 4/5, 1/3]) [3, 5, 8] 7 ((4 : Nat) : Int) (-1)
    = .ok (labels [3, 5, 8] (chain (cumOf T3 ex3Ord) (permOf T3 ex3Ord) (rank [3, 5, 8] 8) 4 [3/5, 4/5, 1/3])) :=
  propagate_MCMC_end_to_end (n := 3) (s := 8) (by decide +kernel) (by decide +kernel) (by decide +kernel) (by decide)
    (.inr ⟨rfl, rfl⟩) (by decide) 7 4 (by decide) _ (by decide)
example : Gen.MsmMcmcApi.propagate_MCMC ex3Choice (getcOf ex3Argsort T3) (chainOracle [3/5, 4/5, 1/3]) [3, 5, 8] 7 4 (-1) = .ok [8, 8, 5, 5] := by
  decide +kernel

/-- the corollaries apply (shape; steps; harness oracle; existential contract) -/
example := propagate_MCMC_end_to_end_shape (choice := ex3Choice) (argsort := ex3Argsort) (T := T3) (n := 3) (ord := ex3Ord) (ss := [3, 5, 8])
  (start := 3) (s := 3) (by decide +kernel) (by decide +kernel) (by decide +kernel) (by decide) (.inl ⟨by decide, rfl⟩) (by decide) 7 4
  (by decide) [3/5, 4/5, 1/3] (by decide)
example := propagate_MCMC_end_to_end_steps (choice := ex3Choice) (argsort := ex3Argsort) (T := T3) (n := 3) (ord := ex3Ord) (ss := [3, 5, 8])
  (start := 3) (s := 3) (by decide +kernel) (by decide +kernel) (by decide +kernel) (by decide) (.inl ⟨by decide, rfl⟩) (by decide) (by decide)
  7 4 (by decide) [3/5, 4/5, 1/3] (by decide)
example := propagate_MCMC_end_to_end_holdsChain (choice := ex3Choice) (argsort := ex3Argsort) (T := T3) (n := 3) (ord := ex3Ord)
  (ss := [3, 5, 8]) (start := 3) (s := 3) (by decide +kernel) (by decide +kernel) (by decide +kernel) (by decide) (.inl ⟨by decide, rfl⟩)
  (by decide) 7 4 (by decide) [3/5, 4/5, 1/3] (by decide)
example := propagate_MCMC_end_to_end_exists (choice := ex3Choice) (argsort := ex3Argsort) (T := T3) (n := 3) (ss := [3, 5, 8])
  (start := 3) (s := 3) (by decide +kernel) (by decide +kernel)
  (fun row hrow => ⟨ex3Ord row, by revert row; decide +kernel, rfl⟩) (by decide) (.inl ⟨by decide, rfl⟩) (by decide) 7 4
  (by decide) [3/5, 4/5, 1/3] (by decide)

/-- errors: five frames on three draws; no frames; a negative entry; an unknown start label -/
example : Gen.MsmMcmcApi.propagate_MCMC ex3Choice (getcOf ex3Argsort T3) (chainOracle [3/5, 4/5, 1/3]) [3, 5, 8] 7 ((5 : Nat) : Int) 3
    = .error .other :=
  propagate_MCMC_draws_exhausted (n := 3) (ord := ex3Ord) (s := 3) (by decide +kernel) (by decide +kernel) (by decide +kernel) (by decide)
    (.inl ⟨by decide, rfl⟩) (by decide) 7 5 _ (by decide)
example : Gen.MsmMcmcApi.propagate_MCMC ex3Choice (getcOf ex3Argsort T3) (chainOracle [3/5, 4/5, 1/3]) [3, 5, 8] 7 0 3 = .error .index :=
  propagate_MCMC_no_frames (n := 3) (ord := ex3Ord) (s := 3) (by decide +kernel) (by decide +kernel) (by decide +kernel) (by decide)
    (.inl ⟨by decide, rfl⟩) (by decide) 7 0 (by decide) _
example : Gen.MsmMcmcApi.propagate_MCMC ex3Choice (getcOf ex3Argsort [[1, 0], [-1/2, 3/2]]) (chainOracle [3/5]) [3, 5] 7 2 3 = .error .value :=
  propagate_MCMC_negative_matrix _ _ _ (by decide +kernel) _ 7 2 3 3 (.inl ⟨by decide, rfl⟩) (by decide) _
example : Gen.MsmMcmcApi.propagate_MCMC ex3Choice (getcOf ex3Argsort T3) (chainOracle [3/5, 4/5, 1/3]) [3, 5, 8] 7 4 4 = .error .value :=
  propagate_MCMC_unknown_start _ _ _ _ 7 4 4 (by decide) (by decide) _

/-- the law: `_get_cummat` of `T3` is an exact model … -/
example : ExactModel T3 (cumOf T3 ex3Ord) (permOf T3 ex3Ord) :=
  (get_cummat_exactModel (argsort := ex3Argsort) (n := 3) (by decide +kernel) (by decide +kernel) (by decide +kernel) (by decide +kernel)
    (by decide +kernel) (by decide) cum3 (permI perm3) (by decide +kernel)).2.2

/-- … the three draws lie in `[0, 1)` and in the box of the path `0 → 1 → 2 → 2`, whose volume is `1/2 · 1/4 · 2/3 = 1/12` … -/
example : (∀ u ∈ ([3/5, 4/5, 1/3] : List Rat).take (4 - 1), 0 ≤ u ∧ u < 1) ∧ (∀ j ∈ [1, 2, 2], j < 3) ∧
    inBox (pathBox cum3 perm3 0 [1, 2, 2]) (([3/5, 4/5, 1/3] : List Rat).take (4 - 1)) ∧
    volume (pathBox cum3 perm3 0 [1, 2, 2]) = 1 / 12 := by
  refine ⟨by decide +kernel, by decide, ?_, ?_⟩
  · rw [pathBox3]; simp; norm_num
  · rw [pathBox3]; simp [volume]; norm_num

/-- … and the law theorem applies to the example: the result is `3 :: labels [1, 2, 2] = [3, 5, 8, 8]` iff the draws lie in that box -/
example := propagate_MCMC_law (choice := ex3Choice) (argsort := ex3Argsort) (T := T3) (n := 3) (ord := ex3Ord) (ss := [3, 5, 8])
  (start := 3) (s := 3) (by decide +kernel) (by decide +kernel) (by decide +kernel) (by decide +kernel) (by decide +kernel) (by decide)
  (by decide) (.inl ⟨by decide, rfl⟩) (by decide) 7 4 (by decide) [3/5, 4/5, 1/3] (by decide) (by decide +kernel) [1, 2, 2] (by decide)
example : (3 : Int) :: labels [3, 5, 8] [1, 2, 2] = [3, 5, 8, 8] := by decide

/-- `T3[0][2] = 0`: the label pair `(3, 8)` never occurs as consecutive frames; the partition and the total-volume theorems apply -/
example : (T3.getD 0 []).getD 2 0 = 0 ∧ labelOf [3, 5, 8] ((0 : Nat) : Int) = 3 ∧ labelOf [3, 5, 8] ((2 : Nat) : Int) = 8 := by decide +kernel
example := propagate_MCMC_zero_pair_never (choice := ex3Choice) (argsort := ex3Argsort) (T := T3) (n := 3) (ord := ex3Ord) (ss := [3, 5, 8])
  (start := 3) (s := 3) (by decide +kernel) (by decide +kernel) (by decide +kernel) (by decide +kernel) (by decide +kernel) (by decide)
  (by decide) (.inl ⟨by decide, rfl⟩) (by decide) 7 4 (by decide) [3/5, 4/5, 1/3] (by decide) (by decide +kernel) 0 2 (by decide) (by decide)
  (by decide +kernel)
example := propagate_MCMC_zero_never (choice := ex3Choice) (argsort := ex3Argsort) (T := T3) (n := 3) (ord := ex3Ord) (ss := [3, 5, 8])
  (start := -1) (s := 8) (by decide +kernel) (by decide +kernel) (by decide +kernel) (by decide +kernel) (by decide +kernel) (by decide)
  (by decide) (.inr ⟨rfl, rfl⟩) (by decide) 7 4 (by decide) [3/5, 4/5, 1/3] (by decide) (by decide +kernel)
example := propagate_MCMC_partition (choice := ex3Choice) (argsort := ex3Argsort) (T := T3) (n := 3) (ord := ex3Ord) (ss := [3, 5, 8])
  (start := 3) (s := 3) (by decide +kernel) (by decide +kernel) (by decide +kernel) (by decide +kernel) (by decide +kernel)
  (by decide) (.inl ⟨by decide, rfl⟩) (by decide) 7 4 (by decide) [3/5, 4/5, 1/3] (by decide) (by decide +kernel)
example : ((allPaths 3 2).map (fun p => volume (pathBox (cumOf T3 ex3Ord) (permOf T3 ex3Ord) 1 p))).sum = 1 :=
  propagate_MCMC_volume_sum_one (argsort := ex3Argsort) (by decide +kernel) (by decide +kernel) (by decide +kernel) (by decide +kernel)
    (by decide +kernel) 1 (by decide) 2

/-- the sorting hypothesis `hsort` of the law theorems is NEEDED (the permutation contract of `Refine/Cummat.lean` alone does not give the law): an
    `argsort` oracle that answers every row with the identity order (a permutation, all hypotheses of the section `accepted` hold) does not sort the
    row `[1/2, 0, 1/2]`; `_get_cummat` then forces the cumulative row to 1 from the second column on, and the draw `3/4` moves the chain from state 0
    (label 3) to state 1 (label 5) although `T[0][1] = 0`. -/
example : (∀ row ∈ ([[1/2, 0, 1/2], [0, 1, 0], [0, 0, 1]] : List (List Rat)),
      isPermOfRange ((fun _ => [0, 1, 2]) row) 3 = true ∧
        (fun _ => Except.ok [2, 1, 0] : List Rat → Py (List Int)) row = .ok ((((fun _ => [0, 1, 2]) row).map Int.ofNat).reverse)) ∧
    (∀ r ∈ ([[1/2, 0, 1/2], [0, 1, 0], [0, 0, 1]] : List (List Rat)), r.sum = 1) ∧
    Gen.MsmMcmcApi.propagate_MCMC ex3Choice (getcOf (fun _ => .ok [2, 1, 0]) [[1/2, 0, 1/2], [0, 1, 0], [0, 0, 1]]) (chainOracle [3/4])
      [3, 5, 8] 7 2 3 = .ok [3, 5] ∧
    nonIncreasing (([0, 1, 2] : List Nat).map (fun j => ([1/2, 0, 1/2] : List Rat).getD j 0)) = false := by
  decide +kernel

end MsmVerif.Refine.McmcEnd
