"""Source anchors: SHA-256 of the normalised AST of every modelled function (DESIGN §2.3).

Drift is never a violation; it only enlarges the correspondence budget of the quick tier and is
recorded in the evidence.  `python anchors.py --update` rewrites anchors.json from the current tree.
"""
import ast
import hashlib
import json
import os
import sys

HOME = os.environ.get('VERIF_HOME') or os.path.dirname(os.path.dirname(os.path.abspath(__file__)))
REPO = os.environ.get('VERIF_REPO', '/repo')
PATH = os.path.join(HOME, 'harness', 'anchors.json')


def _strip_doc(node):
    for n in ast.walk(node):
        if isinstance(n, (ast.FunctionDef, ast.ClassDef, ast.Module)) and n.body:
            b = n.body[0]
            if isinstance(b, ast.Expr) and isinstance(getattr(b, 'value', None), ast.Constant) \
                    and isinstance(b.value.value, str):
                n.body = n.body[1:] or [ast.Pass()]
    return node


def hashes(relfile):
    src = open(os.path.join(REPO, relfile)).read()
    tree = ast.parse(src)
    out = {}

    def visit(node, prefix):
        for n in node.body:
            if isinstance(n, (ast.FunctionDef, ast.ClassDef)):
                name = prefix + n.name
                out[name] = hashlib.sha256(ast.dump(_strip_doc(n)).encode()).hexdigest()[:20]
                if isinstance(n, ast.ClassDef):
                    visit(n, name + '.')
    visit(tree, '')
    return out


def drifted(anchor_list):
    if not os.path.exists(PATH):
        return ['anchors.json missing']
    ref = json.load(open(PATH))
    res = []
    for relfile, names in anchor_list:
        try:
            cur = hashes(relfile)
        except Exception as e:  # noqa
            res.append('%s: %r' % (relfile, e))
            continue
        for n in names:
            key = relfile + '::' + n
            if ref.get(key) != cur.get(n):
                res.append(key)
    return res


def update():
    import importlib
    sys.path.insert(0, os.path.join(HOME, 'harness'))
    ref = {}
    for f in sorted(os.listdir(os.path.join(HOME, 'harness', 'props'))):
        if f.startswith('c') and f.endswith('.py'):
            mod = importlib.import_module('props.' + f[:-3])
            for relfile, names in getattr(mod, 'ANCHORS', []):
                cur = hashes(relfile)
                for n in names:
                    if n not in cur:
                        raise SystemExit('anchor %s::%s not found' % (relfile, n))
                    ref[relfile + '::' + n] = cur[n]
    json.dump(ref, open(PATH, 'w'), indent=1, sort_keys=True)
    print('wrote', len(ref), 'anchors')


if __name__ == '__main__':
    if '--update' in sys.argv:
        update()
