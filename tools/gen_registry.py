#!/usr/bin/env python3
"""Rebuild lean/registry.json: every `theorem` of lean/MsmVerif/Props/C<nn>.lean is an obligation of property C<nn>.
The statement text is the theorem's docstring. (Helper lemmas live in Lemmas/ and are not obligations.)"""
import json, os, re, sys
HOME = os.path.dirname(os.path.dirname(os.path.abspath(__file__)))
props = os.path.join(HOME, 'lean', 'MsmVerif', 'Props')
reg = {}
for f in sorted(os.listdir(props)):
    m = re.match(r'(C\d+)(\w*)\.lean$', f)
    if not m:
        continue
    pid = m.group(1)
    modname = m.group(1) + m.group(2)
    src = open(os.path.join(props, f)).read()
    ns = re.search(r'^namespace\s+(\S+)', src, re.M).group(1)
    thms = []
    sys.path.insert(0, os.path.join(HOME, 'harness'))
    from core import strip_comments
    real_names = set(re.findall(r'^theorem\s+(\S+)', strip_comments(src), re.M))
    for mm in re.finditer(r'(?:/--((?:(?!-/).)*)-/\s*)?(?:@\[[^\]]*\]\s*)?^theorem\s+(\S+)', src, re.S | re.M):
        doc = ' '.join((mm.group(1) or '').split())
        # keep only the docstring immediately preceding
        if mm.group(2) in real_names:
            thms.append({'name': ns + '.' + mm.group(2), 'statement': doc[-600:], 'module': 'MsmVerif.Props.' + modname})
    if pid in reg:
        reg[pid]['modules'].append('MsmVerif.Props.' + modname)
        reg[pid]['theorems'] += thms
    else:
        reg[pid] = {'modules': ['MsmVerif.Props.' + modname], 'theorems': thms}
# refinement theorems (translated kernel = model), MsmVerif/Refine/<Topic>.lean: obligations of the properties whose kernels they cover
# an entry is a property id, or (property id, regex on the theorem name) when only part of a module concerns the property
REFINE_MAP = {'Msm': ['C01', 'C11'], 'Coring': ['C05'], 'Events': ['C06', 'C11'], 'Mcmc': ['C07', 'C08', ('C18', r'^(chain|wt_loop|tt_loop|step)_refines$|^draws_exhausted$')], 'Compare': ['C13'],
              'Norm': [('C01', r'row_normalize'), ('C03', r'row_normalize'), ('C04', r'row_normalize'), ('C19', r'split_array'),
                       ('C09', r'calc_times')],
              'Ergodic': ['C14', ('C04', r'is_ergodic|ergodic_mask|is_tmat|is_quadratic|npPow'), ('C03', r'is_ergodic|is_tmat|is_quadratic|npPow')],
              'HS': ['C03'], 'Cummat': ['C07', 'C08'], 'Peq': ['C04'], 'CompareApi': ['C13', ('C12', r'_refines$'), ('C17', r'compare_discretization_(symmetric|directed)_refines$')], 'CoringApi': ['C05', ('C12', r'flag_irrelevant|api_refines$')],
              'TimesApi': ['C06', 'C11', ('C12', r'flag_irrelevant')], 'Times': ['C08', ('C12', r'estimate_times_(list|hist)_refines$')], 'Relabel': ['C15', ('C02', r'unique|rename_by_index|shift_data'), ('C17', r'rename_by_index|shift_data')],
              'Init': ['C01', 'C02', 'C17'], 'Accessors': ['C02', ('C03', r'lumped'), ('C17', r'construct_then|trajs_refines')], 'CkTest': ['C09'], 'CkApi': ['C09'], 'Public2': [('C13', r'compare_api'), ('C07', r'propagate_tmat')], 'Public': ['C01', 'C03', ('C11', r'public_estimate'), ('C17', r'public_estimate')],
              'Small': [('C01', r'estimate_markov_model'), ('C11', r'estimate_markov_model'), ('C12', r'estimate_markov_model_(perm|default)_refines'), ('C07', r'propagate_MCMC'), ('C20', r'runningmean'), ('C16', r'open_limits'), ('C19', r'open_limits')],
              'Eigen': ['C10', ('C04', r'left_eigenvectors')], 'Its': ['C10'], 'TextIO': ['C16', ('C19', r'opentxt_limits|openmicrostates')],
              'TimesPublic': ['C08', ('C06', r'msm_estimate_paths')], 'Gauss': ['C20'], 'ItsEnd': ['C10'], 'TimesEnd': ['C08'], 'McmcEnd': ['C07'], 'CkEnd': ['C09'], 'ItsPlain': ['C10'], 'TextIOEnd': ['C16', ('C19', r'openmicrostates|opentxt_limits')],
              'Transfer': ['C11', ('C05', r'coring'), ('C06', r'waiting'), ('C13', r'compare')], 'ErgodicTransfer': ['C14'],
              'CoringTransfer': [('C05', r'dynamical_coring|^api_|guard_of_result|mapM_bind'), ('C06', r'^estimate_')],
              'CompareTransfer': [('C13', r'^api_|swap$'), ('C15', r'shift_data|rename_by|unique')],
              'LumpedTransfer': [('C01', r'^plain'), ('C03', r'^lumped')], 'PeqTransfer': [('C04', r'^peq'), ('C20', r'^runningmean|^gaussian')],
              'RelabelTransfer': [('C17', r'relabel|Pipe_eq|firstKeys|bucket_map|groupFirst'), ('C02', r'roundtrip|index_trajs_ranks|states_ascending|^counters$')]}
refine = os.path.join(HOME, 'lean', 'MsmVerif', 'Refine')
for topic, pids in REFINE_MAP.items():
    f = os.path.join(refine, topic + '.lean')
    if not os.path.exists(f):
        continue
    src = open(f).read()
    ns = re.search(r'^namespace\s+(\S+)', src, re.M).group(1)
    from core import strip_comments
    real_names = set(re.findall(r'^theorem\s+(\S+)', strip_comments(src), re.M))
    thms = []
    for mm in re.finditer(r'(?:/--((?:(?!-/).)*)-/\s*)?(?:@\[[^\]]*\]\s*)?^theorem\s+(\S+)', src, re.S | re.M):
        doc = ' '.join((mm.group(1) or '').split())
        if mm.group(2) in real_names:
            thms.append({'name': ns + '.' + mm.group(2), 'statement': '[refinement: translated kernel = model] ' + doc[-600:],
                         'module': 'MsmVerif.Refine.' + topic})
    for ent in pids:
        pid, pat = (ent, None) if isinstance(ent, str) else ent
        mine = [t for t in thms if pat is None or re.search(pat, t['name'].split('.')[-1])]
        reg.setdefault(pid, {'modules': [], 'theorems': []})
        reg[pid]['modules'].append('MsmVerif.Refine.' + topic)
        reg[pid]['theorems'] += mine
DEFAULT_MODULES = {'C01': 'Msm', 'C02': 'Heap', 'C03': 'Linalg', 'C04': 'Linalg', 'C05': 'Coring', 'C06': 'Events', 'C07': 'Mcmc',
                   'C08': 'Events', 'C09': 'Linalg', 'C10': 'Timescales', 'C11': 'Msm', 'C12': 'Basic', 'C13': 'Compare', 'C14': 'Linalg',
                   'C15': 'Relabel', 'C16': 'TextIO', 'C17': 'Basic', 'C18': 'Heap', 'C19': 'TextIO', 'C20': 'Filter'}
for pid, mod in DEFAULT_MODULES.items():
    if pid not in reg and os.path.exists(os.path.join(HOME, 'lean', 'MsmVerif', 'Model', mod + '.lean')):
        reg[pid] = {'modules': ['MsmVerif.Model.' + mod], 'theorems': []}
json.dump(reg, open(os.path.join(HOME, 'lean', 'registry.json'), 'w'), indent=1)
for k, v in reg.items():
    print(k, len(v['theorems']))
