/-
Refine/Events.lean — refinement (task RP3, properties C06 / C11): the kernels of `src/msmhelper/md/timescales.py` as TRANSLATED in
`MsmVerif/Gen/MdTimescales.lean` compute exactly the hand-written model of `MsmVerif/Model/Events.lean`, for all inputs,
without raising.  Core Lean only.
-/
import MsmVerif.Gen.MdTimescales
import MsmVerif.Model.Events

namespace MsmVerif.Refine.Events
open MsmVerif MsmVerif.Gen MsmVerif.Events

/-- the model's events (`Nat` frame indices) as the kernel's integer pairs -/
def evI (l : List (Nat × Nat)) : List (Int × Int) := l.map (fun e => ((e.1 : Int), (e.2 : Int)))

/-! ### generic loop lemma -/

/-- a `for` loop whose body never raises and never breaks is a `foldl` -/
theorem forIn_yield {α σ : Type} (l : List α) (f : α → σ → Py (ForInStep σ)) (g : σ → α → σ) (init : σ)
    (h : ∀ x ∈ l, ∀ s, f x s = .ok (.yield (g s x))) : forIn l init f = .ok (l.foldl g init) := by
  induction l generalizing init with
  | nil => rfl
  | cons x xs ih =>
    rw [List.forIn_cons, h x (by simp)]
    simp only [bind, Except.bind, List.foldl_cons]
    exact ih _ (fun y hy => h y (by simp [hy]))

/-! ### runtime lemmas -/

theorem ok_bind {α β : Type} (a : α) (f : α → Py β) : (Except.ok a >>= f) = f a := rfl

theorem pyRange_nil {a b : Int} (h : b ≤ a) : pyRange a b = [] := by
  have : (b - a).toNat = 0 := by omega
  simp [pyRange, this]

theorem pyRange_cons {a b : Int} (h : a < b) : pyRange a b = a :: pyRange (a + 1) b := by
  obtain ⟨m, hm⟩ : ∃ m, (b - a).toNat = m + 1 := ⟨(b - a).toNat - 1, by omega⟩
  have hm' : (b - (a + 1)).toNat = m := by omega
  simp only [pyRange, hm, hm', List.range_succ_eq_map, List.map_cons, List.map_map]
  simp only [Int.natCast_zero, Int.add_zero, List.cons.injEq, true_and]
  apply List.map_congr_left
  intro k _
  simp only [Function.comp, Nat.succ_eq_add_one, Int.natCast_add, Int.natCast_one]
  omega

theorem pyGet_nat {α : Type} {l : List α} {k : Nat} {x : α} (h : l[k]? = some x) : pyGet l (k : Int) = .ok x := by
  have hk : k < l.length := by
    rcases Nat.lt_or_ge k l.length with h' | h'
    · exact h'
    · rw [List.getElem?_eq_none h'] at h; cases h
  have h1 : (0 : Int) ≤ (k : Int) := by omega
  have h2 : (k : Int) < (l.length : Int) := by omega
  simp [pyGet, normIdx, h1, h2, h]

theorem drop_cons_info {t : List Int} {k : Nat} {x : Int} {rest : List Int} (h : t.drop k = x :: rest) :
    t[k]? = some x ∧ t.drop (k + 1) = rest ∧ k < t.length := by
  have hk : k < t.length := by
    rcases Nat.lt_or_ge k t.length with h' | h'
    · exact h'
    · rw [List.drop_eq_nil_of_le h'] at h; cases h
  rw [List.drop_eq_getElem_cons hk] at h
  injection h with h1 h2
  exact ⟨by rw [List.getElem?_eq_getElem hk, h1], h2, hk⟩

/-! ### events loop -/

abbrev EvSt := Int × List (Int × Int) × Bool × Int

def evG (t S F : List Int) (s : EvSt) (idx : Int) : EvSt :=
  let x := t[idx.toNat]?.getD 0
  if (!s.2.2.1 && S.contains x) = true then (x, s.2.1, true, idx)
  else if (s.2.2.1 && F.contains x) = true then (x, s.2.1 ++ [(s.2.2.2, idx)], false, s.2.2.2)
  else (x, s.2.1, s.2.2.1, s.2.2.2)

theorem evG_step (t S F : List Int) {k : Nat} {x : Int} (hx : t[k]? = some x) (st : Int) (acc : List (Int × Int))
    (b : Bool) (s : Int) :
    evG t S F (st, acc, b, s) (k : Int) =
      if (!b && S.contains x) = true then (x, acc, true, (k : Int))
      else if (b && F.contains x) = true then (x, acc ++ [(s, (k : Int))], false, s)
      else (x, acc, b, s) := by
  simp [evG, hx]

theorem evFold (t S F : List Int) : ∀ (l : List Int) (k : Nat) (a : Auto) (st : Int) (acc : List (Int × Int)),
    t.drop k = l →
    ((pyRange (k : Int) (t.length : Int)).foldl (evG t S F) (st, acc, a.open_, (a.start : Int))).2.1
      = acc ++ evI (eventsFrom S F a k l) := by
  intro l
  induction l with
  | nil =>
    intro k a st acc h
    have : t.length ≤ k := by simpa using h
    rw [pyRange_nil (by omega)]
    simp [eventsFrom, evI]
  | cons x rest ih =>
    intro k a st acc h
    obtain ⟨hx, hrest, hk⟩ := drop_cons_info h
    rw [pyRange_cons (by omega), List.foldl_cons]
    have hcast : (k : Int) + 1 = ((k + 1 : Nat) : Int) := by omega
    rw [hcast, evG_step t S F hx]
    unfold eventsFrom autoStep
    by_cases h1 : (!a.open_ && S.contains x) = true
    · rw [if_pos h1, if_pos h1]
      exact ih (k + 1) { open_ := true, start := k } x acc hrest
    · rw [if_neg h1, if_neg h1]
      by_cases h2 : (a.open_ && F.contains x) = true
      · rw [if_pos h2, if_pos h2]
        have := ih (k + 1) { open_ := false, start := a.start } x (acc ++ [((a.start : Int), (k : Int))]) hrest
        simp only [] at this
        rw [this]
        simp [evI]
      · rw [if_neg h2, if_neg h2]
        exact ih (k + 1) a x acc hrest

theorem evBody_eq' (t S F : List Int) {k : Nat} {x : Int} (hx : t[k]? = some x) (acc : List (Int × Int))
    (b : Bool) (s0 : Int) :
    (do
        let t1 ← pyGet t (k : Int)
        if (!b && pyIn t1 S) = true then
            pure (ForInStep.yield (t1, acc, true, (k : Int)))
          else
            if (b && pyIn t1 F) = true then
              pure (ForInStep.yield (t1, acc ++ [(s0, (k : Int))], false, s0))
            else pure (ForInStep.yield (t1, acc, b, s0)) : Py (ForInStep EvSt))
      = .ok (.yield (if (!b && S.contains x) = true then (x, acc, true, (k : Int))
      else if (b && F.contains x) = true then (x, acc ++ [(s0, (k : Int))], false, s0)
      else (x, acc, b, s0))) := by
  rw [pyGet_nat hx]
  show (if (!b && pyIn x S) = true then _ else _) = _
  unfold pyIn
  generalize S.contains x = u
  generalize F.contains x = v
  cases b <;> cases u <;> cases v <;> rfl

theorem evBody_eq (t S F : List Int) (idx : Int) (hidx : idx ∈ pyRange 0 (pyLen t)) (s : EvSt) :
    (do
        let t1 ← pyGet t idx
        if (!s.2.2.1 && pyIn t1 S) = true then
            pure (ForInStep.yield (t1, s.2.1, true, idx))
          else
            if (s.2.2.1 && pyIn t1 F) = true then
              pure (ForInStep.yield (t1, s.2.1 ++ [(s.2.2.2, idx)], false, s.2.2.2))
            else pure (ForInStep.yield (t1, s.2.1, s.2.2.1, s.2.2.2)) : Py (ForInStep EvSt))
      = .ok (.yield (evG t S F s idx)) := by
  simp only [pyRange, pyLen, List.mem_map, List.mem_range] at hidx
  obtain ⟨k, hk, rfl⟩ := hidx
  have hk' : k < t.length := by omega
  have hx : t[k]? = some t[k] := List.getElem?_eq_getElem hk'
  have h0 : (0 : Int) + (k : Int) = (k : Int) := by omega
  obtain ⟨st, acc, b, s0⟩ := s
  rw [h0, evG_step t S F hx]
  exact evBody_eq' t S F hx acc b s0

/-- The translated `_estimate_events_singletraj` returns (without raising) exactly the model's event list. -/
theorem events_refines (t S F : List Int) :
    Gen.MdTimescales.estimate_events_singletraj t S F = .ok (evI (Events.events S F t)) := by
  unfold Gen.MdTimescales.estimate_events_singletraj
  simp only []
  rw [forIn_yield _ _ (evG t S F) _ (fun idx hidx s => evBody_eq t S F idx hidx s)]
  simp only [bind, Except.bind, pure, Except.pure]
  have := evFold t S F t 0 {} default [] rfl
  simp only [List.nil_append] at this
  simp only [pyLen, Events.events]
  exact congrArg Except.ok this

/-! ### shape of the model's events -/

/-- an event `(i, j)` of `t`: `i < j < t.length` and `t[i] ∈ S` -/
def Good (t S : List Int) (e : Nat × Nat) : Prop :=
  e.1 < e.2 ∧ e.2 < t.length ∧ ∃ x, t[e.1]? = some x ∧ S.contains x = true

/-- every event of the model is well-formed; the automaton invariant is "if open, the opening frame is earlier and lies in `S`" -/
theorem eventsFrom_good (t S F : List Int) : ∀ (l : List Int) (k : Nat) (a : Auto),
    t.drop k = l →
    (a.open_ = true → a.start < k ∧ ∃ x, t[a.start]? = some x ∧ S.contains x = true) →
    ∀ e ∈ eventsFrom S F a k l, Good t S e := by
  intro l
  induction l with
  | nil => intro k a _ _ e he; simp [eventsFrom] at he
  | cons x rest ih =>
    intro k a h ha e he
    obtain ⟨hx, hrest, hk⟩ := drop_cons_info h
    unfold eventsFrom autoStep at he
    by_cases h1 : (!a.open_ && S.contains x) = true
    · rw [if_pos h1] at he
      have hS : S.contains x = true := by
        revert h1; cases a.open_ <;> simp
      exact ih (k + 1) { open_ := true, start := k } hrest (fun _ => ⟨Nat.lt_succ_self k, x, hx, hS⟩) e he
    · rw [if_neg h1] at he
      by_cases h2 : (a.open_ && F.contains x) = true
      · rw [if_pos h2] at he
        have ho : a.open_ = true := by
          revert h2; cases a.open_ <;> simp
        simp only [List.mem_cons] at he
        rcases he with rfl | he
        · obtain ⟨hlt, y, hy, hyS⟩ := ha ho
          exact ⟨hlt, hk, y, hy, hyS⟩
        · exact ih (k + 1) { open_ := false, start := a.start } hrest (fun h => by cases h) e he
      · rw [if_neg h2] at he
        exact ih (k + 1) a hrest (fun h => by
          obtain ⟨hlt, r⟩ := ha h
          exact ⟨Nat.lt_succ_of_lt hlt, r⟩) e he

theorem events_good (t S F : List Int) : ∀ e ∈ Events.events S F t, Good t S e :=
  eventsFrom_good t S F t 0 {} rfl (fun h => by cases h)

/-! ### waiting times -/

theorem dur_map (es : List (Nat × Nat)) (h : ∀ e ∈ es, e.1 ≤ e.2) :
    (evI es).map (fun (x : Int × Int) => x.2 - x.1) = (es.map (fun e => e.2 - e.1)).map Int.ofNat := by
  induction es with
  | nil => rfl
  | cons e es ih =>
    have h1 := h e (by simp)
    have := ih (fun e he => h e (by simp [he]))
    simp only [evI, List.map_cons, List.map_map] at this ⊢
    rw [this]
    congr 1
    simp only [Int.ofNat_eq_natCast]
    omega

/-- The translated `_estimate_waiting_times_singletraj` returns the durations `j - i` of the model's events. -/
theorem wt_single_refines (t S F : List Int) :
    Gen.MdTimescales.estimate_waiting_times_singletraj t S F
      = .ok (((Events.events S F t).map (fun e => e.2 - e.1)).map Int.ofNat) := by
  unfold Gen.MdTimescales.estimate_waiting_times_singletraj
  rw [events_refines]
  simp only [bind, Except.bind, pure, Except.pure]
  congr 1
  exact dur_map _ (fun e he => Nat.le_of_lt (events_good t S F e he).1)

theorem foldl_append_flatten {α β : Type} (g : α → List β) (l : List α) (init : List β) :
    l.foldl (fun s x => s ++ g x) init = init ++ (l.map g).flatten := by
  induction l generalizing init with
  | nil => simp
  | cons x xs ih => simp [ih]

/-- The translated `_estimate_waiting_times` returns the model's waiting times over all trajectories, in order. -/
theorem wt_refines (ts : List (List Int)) (S F : List Int) :
    Gen.MdTimescales.estimate_waiting_times ts S F = .ok ((Events.waitingTimes S F ts).map Int.ofNat) := by
  unfold Gen.MdTimescales.estimate_waiting_times
  simp only []
  rw [forIn_yield _ _ (fun s t => s ++ ((Events.events S F t).map (fun e => e.2 - e.1)).map Int.ofNat) _
    (fun t _ s => by rw [wt_single_refines]; rfl)]
  simp only [bind, Except.bind, pure, Except.pure]
  rw [foldl_append_flatten (fun t => ((Events.events S F t).map (fun e => e.2 - e.1)).map Int.ofNat)]
  simp [Events.waitingTimes, List.map_flatten, List.map_map, Function.comp_def]

/-! ### paths -/

theorem pySlice_nat (t : List Int) {i j : Nat} (hij : i ≤ j) (hj : j < t.length) :
    pySlice t (some (i : Int)) (some ((j : Int) + 1)) = (t.drop i).take (j - i + 1) := by
  have h1 : pyBound t.length (i : Int) = i := by
    unfold pyBound
    rw [if_neg (by omega)]
    omega
  have h2 : pyBound t.length ((j : Int) + 1) = j + 1 := by
    unfold pyBound
    rw [if_neg (by omega)]
    omega
  simp only [pySlice, h1, h2]
  congr 1
  omega

theorem pySlice_prefix (p : List Int) (x : Int) :
    pySlice p none (some ((p.idxOf x : Nat) : Int)) = p.take (p.idxOf x) := by
  have hle : p.idxOf x ≤ p.length := List.idxOf_le_length
  have h2 : pyBound p.length ((p.idxOf x : Nat) : Int) = p.idxOf x := by
    unfold pyBound
    rw [if_neg (by omega)]
    omega
  simp [pySlice, h2]

theorem pathBody_eq (S : List Int) (x : Int) (p : List Int) :
    (if pyIn x S = true then (pure (ForInStep.yield ((pyRange 0 0).map (fun v => v) ++ [x])) : Py (ForInStep (List Int)))
     else if pyIn x p = true then
       (pyIndex p x >>= fun t2 => pure (ForInStep.yield (pySlice p none (some t2) ++ [x])))
     else pure (ForInStep.yield (p ++ [x])))
      = .ok (.yield (pathStep S p x)) := by
  unfold pathStep pyIn
  by_cases h1 : S.contains x = true
  · rw [if_pos h1, if_pos h1]; rfl
  · rw [if_neg h1, if_neg h1]
    by_cases h2 : p.contains x = true
    · rw [if_pos h2, if_pos h2]
      unfold pyIndex
      rw [if_pos h2]
      show Except.ok (ForInStep.yield (pySlice p none (some ((p.idxOf x : Nat) : Int)) ++ [x])) = _
      rw [pySlice_prefix]
    · rw [if_neg h2, if_neg h2]; rfl

theorem foldl_pathStep_reset (S : List Int) (seg : List Int) (x : Int) (hx : S.contains x = true) (p : List Int) :
    (x :: seg).foldl (pathStep S) p = (x :: seg).foldl (pathStep S) [] := by
  simp only [List.foldl_cons, pathStep, hx, if_true]

/-- state transformer of the outer loop of `_estimate_paths_singletraj` -/
def pathG (t S : List Int) (s : List Int × List (List Int × Int)) (e : Int × Int) : List Int × List (List Int × Int) :=
  ((pySlice t (some e.1) (some (e.2 + 1))).foldl (pathStep S) s.1,
    s.2 ++ [((pySlice t (some e.1) (some (e.2 + 1))).foldl (pathStep S) s.1, e.2 - e.1)])

theorem pathG_eq (t S : List Int) (p : List Int) (acc : List (List Int × Int)) (i j : Int) :
    pathG t S (p, acc) (i, j) =
      ((pySlice t (some i) (some (j + 1))).foldl (pathStep S) p,
        acc ++ [((pySlice t (some i) (some (j + 1))).foldl (pathStep S) p, j - i)]) := rfl

theorem pathFold (t S : List Int) (es : List (Nat × Nat)) (hes : ∀ e ∈ es, Good t S e)
    (p : List Int) (acc : List (List Int × Int)) :
    ((evI es).foldl (pathG t S) (p, acc)).2
      = acc ++ es.map (fun e => (loopErase S ((t.drop e.1).take (e.2 - e.1 + 1)), ((e.2 - e.1 : Nat) : Int))) := by
  induction es generalizing p acc with
  | nil => simp [evI]
  | cons e es ih =>
    obtain ⟨hlt, hlen, x, hx, hS⟩ := hes e (by simp)
    have hi : e.1 < t.length := by omega
    have hseg : pySlice t (some (e.1 : Int)) (some ((e.2 : Int) + 1)) = x :: ((t.drop (e.1 + 1)).take (e.2 - e.1)) := by
      rw [pySlice_nat t (Nat.le_of_lt hlt) hlen, List.drop_eq_getElem_cons hi, List.take_succ_cons]
      rw [List.getElem?_eq_getElem hi] at hx
      injection hx with hx
      rw [hx]
    have hseg' : (t.drop e.1).take (e.2 - e.1 + 1) = x :: ((t.drop (e.1 + 1)).take (e.2 - e.1)) := by
      rw [← hseg, pySlice_nat t (Nat.le_of_lt hlt) hlen]
    have hd : (e.2 : Int) - (e.1 : Int) = ((e.2 - e.1 : Nat) : Int) := by omega
    simp only [evI, List.map_cons, List.foldl_cons]
    rw [pathG_eq]
    simp only [hseg, hd]
    rw [foldl_pathStep_reset S _ x hS p]
    have := ih (fun e he => hes e (by simp [he])) ((x :: ((t.drop (e.1 + 1)).take (e.2 - e.1))).foldl (pathStep S) [])
      (acc ++ [((x :: ((t.drop (e.1 + 1)).take (e.2 - e.1))).foldl (pathStep S) [], ((e.2 - e.1 : Nat) : Int))])
    simp only [evI] at this
    rw [this, hseg']
    simp [loopErase]

/-- The translated `_estimate_paths_singletraj` returns, per event of the model, the model's loop-erased path and the
duration; in particular `path.index(state)` never raises and the carried-over `path` variable does no harm. -/
theorem paths_single_refines (t S F : List Int) :
    Gen.MdTimescales.estimate_paths_singletraj t S F
      = .ok ((Events.pathsSingle S F t).map (fun p => (p.1, (p.2 : Int)))) := by
  unfold Gen.MdTimescales.estimate_paths_singletraj
  rw [events_refines, ok_bind]
  dsimp only
  rw [forIn_yield _ _ (pathG t S) _ (fun e _ s => by
    obtain ⟨a, b⟩ := e
    dsimp only
    rw [forIn_yield _ _ (pathStep S) _ (fun x _ p => pathBody_eq S x p)]
    rfl)]
  rw [ok_bind]
  simp only [pure, Except.pure]
  rw [pathFold t S _ (events_good t S F)]
  simp [Events.pathsSingle, List.map_map, Function.comp_def]

/-- The translated `_estimate_paths` returns the model's (path, duration) tuples over all trajectories, in order. -/
theorem paths_refines (ts : List (List Int)) (S F : List Int) :
    Gen.MdTimescales.estimate_paths ts S F = .ok ((Events.pathsAll S F ts).map (fun p => (p.1, (p.2 : Int)))) := by
  unfold Gen.MdTimescales.estimate_paths
  simp only []
  rw [forIn_yield _ _ (fun s t => s ++ (Events.pathsSingle S F t).map (fun p => (p.1, (p.2 : Int)))) _
    (fun t _ s => by rw [paths_single_refines]; rfl)]
  simp only [bind, Except.bind, pure, Except.pure]
  rw [foldl_append_flatten (fun t => (Events.pathsSingle S F t).map (fun p => (p.1, (p.2 : Int))))]
  simp [Events.pathsAll, List.map_flatten, List.map_map, Function.comp_def]

/-! ### non-vacuity: the theorems instantiated on concrete non-trivial inputs -/

/-- example trajectory of the task: three events, loops inside the second one -/
def exT : List Int := [0,1,2,1,3,0,0,2,3,1,0,3]
/-- a trajectory whose events contain loops that are erased (`2,4,2` and `5,4,5`) -/
def exT2 : List Int := [0,2,4,2,5,4,3,2,2,1,5,4,5,3]

example : Events.events [0,1] [3] exT = [(0,4),(5,8),(9,11)] := by decide
example : ∀ e ∈ Events.events [0,1] [3] exT, Good exT [0,1] e := events_good exT [0,1] [3]
example : Gen.MdTimescales.estimate_events_singletraj exT [0,1] [3] = .ok [(0,4),(5,8),(9,11)] := by
  rw [events_refines]; rfl
example : Gen.MdTimescales.estimate_waiting_times_singletraj exT [0,1] [3] = .ok [4,3,2] := by
  rw [wt_single_refines]; rfl
example : Gen.MdTimescales.estimate_waiting_times [exT, [3,1,2,3]] [0,1] [3] = .ok [4,3,2,2] := by
  rw [wt_refines]; rfl
example : Gen.MdTimescales.estimate_paths_singletraj exT [0,1] [3] = .ok [([1,3],4), ([0,2,3],3), ([0,3],2)] := by
  rw [paths_single_refines]; rfl
example : Gen.MdTimescales.estimate_paths_singletraj exT2 [0,1] [3] = .ok [([0,2,5,4,3],6), ([1,5,3],4)] := by
  rw [paths_single_refines]; rfl
example : Gen.MdTimescales.estimate_paths [exT, [3,1,2,2,4,2,3]] [0,1] [3]
    = .ok [([1,3],4), ([0,2,3],3), ([0,3],2), ([1,2,3],5)] := by
  rw [paths_refines]; rfl

end MsmVerif.Refine.Events
