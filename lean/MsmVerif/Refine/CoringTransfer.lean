/-
Refine/CoringTransfer.lean — task RP35: the laws of properties C05 (dynamical coring) and C06 (waiting times, pathways)
stated DIRECTLY about the TRANSLATED public functions `md.dynamical_coring` (`Gen.MdCoringApi.dynamical_coring`),
`md.estimate_waiting_times` and `md.estimate_paths` (`Gen.MdTimesApi.*`), by combining the refinement theorems
(`Refine/CoringApi.lean`, `Refine/TimesApi.lean`: translated function = model) with the property theorems
(`Props/C05.lean`, `Props/C06.lean`: the model satisfies the law).  The `StateTraj` object is given by its attributes:
`st.sts`, `st.idx` for `StateTraj.mk' ts = .ok st`; C05 needs the project's label guard `LabelGuard ts`.
-/
import MsmVerif.Refine.CoringApi
import MsmVerif.Refine.TimesApi
import MsmVerif.Props.C05
import MsmVerif.Props.C06

namespace MsmVerif.Refine.CoringTransfer
open MsmVerif MsmVerif.Gen MsmVerif.Coring MsmVerif.Events

/-! ## C05 — `md.dynamical_coring` -/

/-- bridge: under the label guard, the TRANSLATED public `md.dynamical_coring` (fed with the attributes of the
`StateTraj` object built from `ts`) returns exactly what the declarative reference `Coring.refSet` demands — values
and errors alike (refinement theorem + `C05.model_meets_spec`). -/
theorem api_eq_ref (ts : Trajs) (hg : LabelGuard ts) (st : StateTraj) (h : StateTraj.mk' ts = .ok st)
    (τ : Int) (iter flag : Bool) :
    MdCoringApi.dynamical_coring st.sts st.idx ts false τ iter flag = refSet ts τ iter := by
  rw [CoringApi.dynamical_coring_api_refines_of_guard ts hg st h, C05.model_meets_spec ts τ iter hg]

/-- a successful call, in terms of the reference: either `lagtime = 1` and the result is the input, or `lagtime ≥ 2` and
trajectory `i` of the result is the reference pipeline applied to trajectory `i` of the input alone -/
theorem api_ok_iff (ts : Trajs) (hg : LabelGuard ts) (st : StateTraj) (h : StateTraj.mk' ts = .ok st)
    (τ : Int) (iter flag : Bool) (r : Trajs) :
    MdCoringApi.dynamical_coring st.sts st.idx ts false τ iter flag = .ok r ↔
      (τ = 1 ∧ r = ts) ∨ (2 ≤ τ ∧ ts.mapM (refOne τ.toNat iter) = some r) := by
  rw [api_eq_ref ts hg st h]
  unfold refSet
  by_cases h0 : τ ≤ 0
  · rw [if_pos h0]
    constructor
    · intro e; cases e
    · rintro (⟨h1, _⟩ | ⟨h2, _⟩) <;> omega
  rw [if_neg h0]
  by_cases h1 : τ = 1
  · rw [if_pos h1]
    constructor
    · intro e; cases e; exact .inl ⟨h1, rfl⟩
    · rintro (⟨_, rfl⟩ | ⟨h2, _⟩)
      · rfl
      · omega
  rw [if_neg h1]
  cases hm : ts.mapM (refOne τ.toNat iter) with
  | none =>
    constructor
    · intro e; cases e
    · rintro (⟨h1', _⟩ | ⟨_, e⟩)
      · exact absurd h1' h1
      · cases e
  | some q =>
    constructor
    · intro e; cases e; exact .inr ⟨by omega, rfl⟩
    · rintro (⟨h1', _⟩ | ⟨_, e⟩)
      · exact absurd h1' h1
      · cases e; rfl

/-- every trajectory of a successful result is the reference pipeline applied to the trajectory of the input at the
same position (`lagtime ≥ 1`; for `lagtime = 1` the pipeline is empty) -/
theorem api_ok_pointwise (ts : Trajs) (hg : LabelGuard ts) (st : StateTraj) (h : StateTraj.mk' ts = .ok st)
    (τ : Int) (iter flag : Bool) (r : Trajs)
    (hr : MdCoringApi.dynamical_coring st.sts st.idx ts false τ iter flag = .ok r) :
    1 ≤ τ ∧ r.length = ts.length ∧ ∀ i (hi : i < ts.length) (hi' : i < r.length),
      τ = 1 ∧ r[i] = ts[i] ∨ 2 ≤ τ ∧ refOne τ.toNat iter ts[i] = some r[i] := by
  rcases (api_ok_iff ts hg st h τ iter flag r).mp hr with ⟨h1, rfl⟩ | ⟨h2, hm⟩
  · exact ⟨by omega, rfl, fun i _ _ => .inl ⟨h1, rfl⟩⟩
  · obtain ⟨hl, hp⟩ := (mapM_eq_some_opt _ ts r).mp hm
    refine ⟨by omega, hl, fun i hi hi' => .inr ⟨h2, ?_⟩⟩
    rw [hp i hi, List.getElem?_eq_getElem hi']

/-- **C05, clause "same shape, only labels of the input".**  A successful call of the translated `md.dynamical_coring`
returns as many trajectories as the input has; trajectory `i` of the result has the length of trajectory `i` of the input and
carries only labels that occur in trajectory `i` of the input. -/
theorem dynamical_coring_shape (ts : Trajs) (hg : LabelGuard ts) (st : StateTraj) (h : StateTraj.mk' ts = .ok st)
    (τ : Int) (iter flag : Bool) (r : Trajs)
    (hr : MdCoringApi.dynamical_coring st.sts st.idx ts false τ iter flag = .ok r) :
    r.length = ts.length ∧ ∀ i (hi : i < ts.length) (hi' : i < r.length),
      r[i].length = ts[i].length ∧ ∀ y ∈ r[i], y ∈ ts[i] := by
  obtain ⟨hτ, hl, hp⟩ := api_ok_pointwise ts hg st h τ iter flag r hr
  refine ⟨hl, fun i hi hi' => ?_⟩
  rcases hp i hi hi' with ⟨_, e⟩ | ⟨h2, e⟩
  · rw [e]; exact ⟨rfl, fun _ hy => hy⟩
  · have := C05.refOne_props τ.toNat (by omega) iter ts[i] r[i] e
    exact ⟨this.1, this.2.1⟩

example : LabelGuard [[-1, -1, -1, 2, 2, 2, -1], [5, 5]] ∧
    StateTraj.mk' [[-1, -1, -1, 2, 2, 2, -1], [5, 5]] = .ok ⟨[[0, 0, 0, 1, 1, 1, 0], [2, 2]], [-1, 2, 5]⟩ ∧
    MdCoringApi.dynamical_coring [-1, 2, 5] [[0, 0, 0, 1, 1, 1, 0], [2, 2]] [[-1, -1, -1, 2, 2, 2, -1], [5, 5]]
      false 2 false true = .ok [[-1, -1, -1, 2, 2, 2, 2], [5, 5]] := by decide +kernel

/-- **C05, clause "`lagtime = 1` returns the input"** — for ALL attribute values of a plain object (no guard, no
constructor needed), both modes, both flag values. -/
theorem dynamical_coring_tau_one (ss : List Int) (idx it : List (List Int)) (iter flag : Bool) :
    MdCoringApi.dynamical_coring ss idx it false 1 iter flag = .ok it := by
  rw [CoringApi.api_unfold]; rfl

example : MdCoringApi.dynamical_coring [-1, 2, 5] [[0, 0, 0, 1, 1, 1, 0], [2, 2]] [[-1, -1, -1, 2, 2, 2, -1], [5, 5]]
    false 1 true false = .ok [[-1, -1, -1, 2, 2, 2, -1], [5, 5]] := by decide +kernel

/-- **C05, clause "every run of the result is at least `lagtime` long"**: in every trajectory of a successful result every
maximal constant run has at least `lagtime` frames (no exception: the model theorem `C05.refOne_props` has none). -/
theorem dynamical_coring_runs (ts : Trajs) (hg : LabelGuard ts) (st : StateTraj) (h : StateTraj.mk' ts = .ok st)
    (τ : Int) (iter flag : Bool) (r : Trajs)
    (hr : MdCoringApi.dynamical_coring st.sts st.idx ts false τ iter flag = .ok r) :
    ∀ q ∈ r, AllRunsGE τ.toNat q := by
  obtain ⟨hτ, hl, hp⟩ := api_ok_pointwise ts hg st h τ iter flag r hr
  intro q hq
  obtain ⟨i, hi', rfl⟩ := List.mem_iff_getElem.mp hq
  rcases hp i (by omega) hi' with ⟨h1, _⟩ | ⟨h2, e⟩
  · subst h1; exact C05.allRuns_one _
  · exact (C05.refOne_props τ.toNat (by omega) iter _ _ e).2.2.1

example : AllRunsGE 2 [-1, -1, -1, 2, 2, 2, 2] ∧ ¬ AllRunsGE 2 [-1, -1, -1, 2, 2, 2, -1] :=
  ⟨(C05.allRunsGE_iff_runLengths 2 _).mpr (by decide),
    fun h => absurd ((C05.allRunsGE_iff_runLengths 2 _).mp h) (by decide)⟩

/-- the guard is inherited by a successful result (it carries only labels of the input) -/
theorem guard_of_result (ts : Trajs) (hg : LabelGuard ts) (st : StateTraj) (h : StateTraj.mk' ts = .ok st)
    (τ : Int) (iter flag : Bool) (r : Trajs)
    (hr : MdCoringApi.dynamical_coring st.sts st.idx ts false τ iter flag = .ok r) : LabelGuard r := by
  obtain ⟨hl, hp⟩ := dynamical_coring_shape ts hg st h τ iter flag r hr
  intro x hx
  obtain ⟨q, hq, hxq⟩ := List.mem_flatten.mp hx
  obtain ⟨i, hi', rfl⟩ := List.mem_iff_getElem.mp hq
  have hi : i < ts.length := by omega
  exact hg x (List.mem_flatten.mpr ⟨ts[i], List.getElem_mem hi, (hp i hi hi').2 x hxq⟩)

/-- **C05, clause "idempotent at fixed `lagtime`"**: coring a successful result again (through its own `StateTraj` object
`st'`) with the same lag time and mode returns it unchanged. -/
theorem dynamical_coring_idempotent (ts : Trajs) (hg : LabelGuard ts) (st : StateTraj) (h : StateTraj.mk' ts = .ok st)
    (τ : Int) (iter flag : Bool) (r : Trajs)
    (hr : MdCoringApi.dynamical_coring st.sts st.idx ts false τ iter flag = .ok r)
    (st' : StateTraj) (h' : StateTraj.mk' r = .ok st') (flag' : Bool) :
    MdCoringApi.dynamical_coring st'.sts st'.idx r false τ iter flag' = .ok r := by
  have hg' := guard_of_result ts hg st h τ iter flag r hr
  rw [api_ok_iff r hg' st' h']
  rcases (api_ok_iff ts hg st h τ iter flag r).mp hr with ⟨h1, _⟩ | ⟨h2, hm⟩
  · exact .inl ⟨h1, rfl⟩
  · refine .inr ⟨h2, ?_⟩
    rw [mapM_eq_some_opt]
    refine ⟨rfl, fun i hi => ?_⟩
    obtain ⟨t, _, ht⟩ := mapM_some_mem_opt _ ts r hm r[i] (List.getElem_mem hi)
    rw [(C05.refOne_props τ.toNat (by omega) iter t r[i] ht).2.2.2, List.getElem?_eq_getElem hi]

/-- **C05, clause "LagtimeError iff some trajectory has no core"**: the translated function raises `LagtimeError` exactly
when `lagtime ≥ 2` and some trajectory, taken alone, fails at some stage of the reference pipeline. -/
theorem dynamical_coring_lagtimeError_iff (ts : Trajs) (hg : LabelGuard ts) (st : StateTraj)
    (h : StateTraj.mk' ts = .ok st) (τ : Int) (iter flag : Bool) :
    MdCoringApi.dynamical_coring st.sts st.idx ts false τ iter flag = .error .lagtime ↔
      2 ≤ τ ∧ ∃ t ∈ ts, refOne τ.toNat iter t = none := by
  rw [api_eq_ref ts hg st h, ← mapM_eq_none_opt]
  unfold refSet
  by_cases h0 : τ ≤ 0
  · rw [if_pos h0]
    constructor
    · intro e; cases e
    · rintro ⟨h2, _⟩; omega
  rw [if_neg h0]
  by_cases h1 : τ = 1
  · rw [if_pos h1]
    constructor
    · intro e; cases e
    · rintro ⟨h2, _⟩; omega
  rw [if_neg h1]
  cases hm : ts.mapM (refOne τ.toNat iter) with
  | none => exact ⟨fun _ => ⟨by omega, rfl⟩, fun _ => rfl⟩
  | some q =>
    constructor
    · intro e; cases e
    · rintro ⟨_, e⟩; cases e

/-- … in the non-iterative mode, in elementary terms: `LagtimeError` iff `lagtime ≥ 2` and some trajectory has no window of
`lagtime` equal consecutive frames anywhere. -/
theorem dynamical_coring_lagtimeError_iff_no_window (ts : Trajs) (hg : LabelGuard ts) (st : StateTraj)
    (h : StateTraj.mk' ts = .ok st) (τ : Int) (flag : Bool) :
    MdCoringApi.dynamical_coring st.sts st.idx ts false τ false flag = .error .lagtime ↔
      2 ≤ τ ∧ ∃ t ∈ ts, ∀ (pre : List Int) (x : Int) (rest : List Int),
        t = pre ++ x :: rest → remains τ.toNat (x :: rest) = false := by
  rw [dynamical_coring_lagtimeError_iff ts hg st h]
  have e : ∀ t, refOne τ.toNat false t = coreRef τ.toNat t := by
    intro t
    simp only [refOne, schedule_false, List.foldlM_cons, List.foldlM_nil]
    cases coreRef τ.toNat t <;> rfl
  simp only [e, C05.error_iff_no_core]

example : MdCoringApi.dynamical_coring [-1, 2, 5] [[0, 0, 0, 1, 1, 1, 0], [2, 2]] [[-1, -1, -1, 2, 2, 2, -1], [5, 5]]
    false 3 false false = .error .lagtime := by decide +kernel

/-- **C05, clause "iterative = successive application"**: for `lagtime ≥ 2` the iterative mode returns, for every
trajectory alone, the successive application of the single-window reference rule `coreRef` with windows `2, 3, …, lagtime`
(`LagtimeError` iff one of these applications fails for some trajectory). -/
theorem dynamical_coring_iterative (ts : Trajs) (hg : LabelGuard ts) (st : StateTraj)
    (h : StateTraj.mk' ts = .ok st) (τ : Int) (hτ : 2 ≤ τ) (flag : Bool) :
    MdCoringApi.dynamical_coring st.sts st.idx ts false τ true flag =
      match ts.mapM (fun t => ((List.range (τ.toNat - 1)).map (· + 2)).foldlM (fun acc s => coreRef s acc) t) with
      | none => .error .lagtime
      | some r => .ok r := by
  rw [api_eq_ref ts hg st h]
  unfold refSet
  rw [if_neg (by omega), if_neg (by omega)]
  rfl

/-- `mapM` of a composed partial map, when the first stage succeeds on the whole list -/
theorem mapM_bind_of_some {α : Type} (f g : α → Option α) (l r : List α) (h : l.mapM f = some r) :
    l.mapM (fun t => (f t).bind g) = r.mapM g := by
  obtain ⟨hl, hp⟩ := (mapM_eq_some_opt f l r).mp h
  cases hq : r.mapM g with
  | none =>
    obtain ⟨x, hx, hgx⟩ := (mapM_eq_none_opt g r).mp hq
    obtain ⟨t, ht, hft⟩ := mapM_some_mem_opt f l r h x hx
    exact (mapM_eq_none_opt _ l).mpr ⟨t, ht, by rw [hft]; exact hgx⟩
  | some q =>
    obtain ⟨hl', hp'⟩ := (mapM_eq_some_opt g r q).mp hq
    refine (mapM_eq_some_opt _ l q).mpr ⟨by omega, fun i hi => ?_⟩
    have hi' : i < r.length := by omega
    rw [hp i hi, List.getElem?_eq_getElem hi']
    exact hp' i hi'

/-- **C05, clause "iterative = successive application", in terms of the translated function itself**: for `lagtime ≥ 2`,
if the iterative mode succeeds with result `r` at `lagtime`, then the iterative mode at `lagtime + 1` returns exactly what the
NON-iterative mode at `lagtime + 1` returns on `r` (through the `StateTraj` object `st'` of `r`) — values and errors alike. -/
theorem dynamical_coring_iterative_step (ts : Trajs) (hg : LabelGuard ts) (st : StateTraj)
    (h : StateTraj.mk' ts = .ok st) (τ : Int) (hτ : 2 ≤ τ) (flag : Bool) (r : Trajs)
    (hr : MdCoringApi.dynamical_coring st.sts st.idx ts false τ true flag = .ok r)
    (st' : StateTraj) (h' : StateTraj.mk' r = .ok st') (flag' : Bool) :
    MdCoringApi.dynamical_coring st.sts st.idx ts false (τ + 1) true flag
      = MdCoringApi.dynamical_coring st'.sts st'.idx r false (τ + 1) false flag' := by
  have hg' := guard_of_result ts hg st h τ true flag r hr
  rw [api_eq_ref ts hg st h, api_eq_ref r hg' st' h']
  rcases (api_ok_iff ts hg st h τ true flag r).mp hr with ⟨h1, _⟩ | ⟨_, hm⟩
  · omega
  unfold refSet
  rw [if_neg (by omega), if_neg (by omega), if_neg (by omega), if_neg (by omega)]
  have hn : (τ + 1).toNat = τ.toNat + 1 := by omega
  have e1 : ∀ t, refOne (τ.toNat + 1) true t = (refOne τ.toNat true t).bind (coreRef (τ.toNat + 1)) := by
    intro t
    simp only [refOne, schedule_true_succ τ.toNat (by omega), List.foldlM_append, List.foldlM_cons, List.foldlM_nil]
    cases (List.foldlM (fun acc s => coreRef s acc) t (schedule τ.toNat true)) with
    | none => rfl
    | some a => simp
  have e2 : ∀ t, refOne (τ.toNat + 1) false t = coreRef (τ.toNat + 1) t := by
    intro t
    simp only [refOne, schedule_false, List.foldlM_cons, List.foldlM_nil]
    cases coreRef (τ.toNat + 1) t <;> rfl
  rw [hn]
  have : ts.mapM (refOne (τ.toNat + 1) true) = r.mapM (refOne (τ.toNat + 1) false) := by
    rw [show refOne (τ.toNat + 1) true = fun t => (refOne τ.toNat true t).bind (coreRef (τ.toNat + 1)) from funext e1,
      show refOne (τ.toNat + 1) false = coreRef (τ.toNat + 1) from funext e2]
    exact mapM_bind_of_some _ _ ts r hm
  rw [this]

/-- the first step of the succession: the iterative mode at `lagtime = 2` is the non-iterative mode at `lagtime = 2` -/
theorem dynamical_coring_iterative_two (ts : Trajs) (hg : LabelGuard ts) (st : StateTraj)
    (h : StateTraj.mk' ts = .ok st) (flag flag' : Bool) :
    MdCoringApi.dynamical_coring st.sts st.idx ts false 2 true flag
      = MdCoringApi.dynamical_coring st.sts st.idx ts false 2 false flag' := by
  rw [api_eq_ref ts hg st h, api_eq_ref ts hg st h]
  rfl

example : MdCoringApi.dynamical_coring [0, 1] [[0, 0, 1, 0, 0, 0, 1, 1, 1]] [[0, 0, 1, 0, 0, 0, 1, 1, 1]] false 2 true false
      = .ok [[0, 0, 0, 0, 0, 0, 1, 1, 1]] ∧
    MdCoringApi.dynamical_coring [0, 1] [[0, 0, 1, 0, 0, 0, 1, 1, 1]] [[0, 0, 1, 0, 0, 0, 1, 1, 1]] false 3 true false
      = MdCoringApi.dynamical_coring [0, 1] [[0, 0, 0, 0, 0, 0, 1, 1, 1]] [[0, 0, 0, 0, 0, 0, 1, 1, 1]] false 3 false true := by
  decide +kernel

/-! ## C06 — `md.estimate_waiting_times`, `md.estimate_paths` -/

/-- the rejection condition of both functions: `start` and `final` overlap, or one of them has a label absent from `ts` -/
def BadSets (ts : Trajs) (start final : List Int) : Prop :=
  (∃ x ∈ start, x ∈ final) ∨ (∃ x ∈ start, x ∉ ts.flatten) ∨ (∃ x ∈ final, x ∉ ts.flatten)

/-- **C06, clause "overlapping or absent states are rejected"** (waiting times): the translated
`md.estimate_waiting_times` raises `ValueError` exactly when `start` and `final` share a label or one of them contains a
label that occurs in no trajectory. -/
theorem estimate_waiting_times_reject_iff (ts : Trajs) (st : StateTraj) (h : StateTraj.mk' ts = .ok st)
    (start final : List Int) (flag : Bool) :
    MdTimesApi.estimate_waiting_times st.sts ts start final flag = .error .value ↔ BadSets ts start final :=
  TimesApi.estimate_waiting_times_api_reject ts st h start final flag

/-- **C06, clause "overlapping or absent states are rejected"** (paths): the same rule for `md.estimate_paths`. -/
theorem estimate_paths_reject_iff (ts : Trajs) (st : StateTraj) (h : StateTraj.mk' ts = .ok st)
    (start final : List Int) (flag : Bool) :
    MdTimesApi.estimate_paths st.sts ts start final flag = .error .value ↔ BadSets ts start final :=
  TimesApi.estimate_paths_api_reject ts st h start final flag

/-- a successful call of the translated `md.estimate_waiting_times` had acceptable sets and returns the durations of the
events of the DECLARATIVE spec (`specEvents`: first frame in `start`, then the next frame in `final`, repeat), trajectory
by trajectory, in order -/
theorem estimate_waiting_times_ok (ts : Trajs) (st : StateTraj) (h : StateTraj.mk' ts = .ok st)
    (start final : List Int) (flag : Bool) (w : List Int)
    (hw : MdTimesApi.estimate_waiting_times st.sts ts start final flag = .ok w) :
    ¬ BadSets ts start final ∧
    w = ((ts.map (fun t => (specEvents (sortDedup start) (sortDedup final) t).map (fun e => e.2 - e.1))).flatten).map
      Int.ofNat := by
  have hok : ¬ BadSets ts start final := by
    intro hb
    rw [(estimate_waiting_times_reject_iff ts st h start final flag).mpr hb] at hw
    cases hw
  refine ⟨hok, ?_⟩
  rw [TimesApi.estimate_waiting_times_api_accept ts st h start final flag hok] at hw
  cases hw
  simp only [waitingTimes, events_eq_specEvents]

/-- **C06, clause "every waiting time is the duration of an event of the declarative spec"**: every number returned by the
translated `md.estimate_waiting_times` is `j - i` for an event `(i, j)` of the declarative spec on ONE trajectory `t` of the
input; frame `i` carries a label of `start`, frame `j` a label of `final`, `i < j` lie inside `t`, and no frame strictly
between them carries a label of `final` (the next hit of `final` closes the event). -/
theorem estimate_waiting_times_sound (ts : Trajs) (st : StateTraj) (h : StateTraj.mk' ts = .ok st)
    (start final : List Int) (flag : Bool) (w : List Int)
    (hw : MdTimesApi.estimate_waiting_times st.sts ts start final flag = .ok w) :
    ∀ d ∈ w, ∃ t ∈ ts, ∃ i j, (i, j) ∈ specEvents (sortDedup start) (sortDedup final) t ∧ d = ((j - i : Nat) : Int) ∧
      i < j ∧ j < t.length ∧ t.getD i 0 ∈ start ∧ t.getD j 0 ∈ final ∧ ∀ m, i < m → m < j → t.getD m 0 ∉ final := by
  obtain ⟨_, rfl⟩ := estimate_waiting_times_ok ts st h start final flag w hw
  intro d hd
  simp only [List.mem_map, List.mem_flatten] at hd
  obtain ⟨n, ⟨l, ⟨t, ht, rfl⟩, hn⟩, rfl⟩ := hd
  obtain ⟨⟨i, j⟩, he, rfl⟩ := List.mem_map.mp hn
  have hs := C06.events_sound (sortDedup start) (sortDedup final) t i j (by rw [events_eq_specEvents]; exact he)
  simp only [mem_sortDedup] at hs
  exact ⟨t, ht, i, j, he, rfl, hs⟩

/-- **C06, clause "results are per trajectory" (append law)**: if the translated `md.estimate_waiting_times` succeeds on
the trajectory sets `A` and `B` separately, it succeeds on `A ++ B` and returns the two results one after the other. -/
theorem estimate_waiting_times_append (A B : Trajs) (stA stB stAB : StateTraj)
    (hA : StateTraj.mk' A = .ok stA) (hB : StateTraj.mk' B = .ok stB) (hAB : StateTraj.mk' (A ++ B) = .ok stAB)
    (start final : List Int) (flag : Bool) (wA wB : List Int)
    (hwA : MdTimesApi.estimate_waiting_times stA.sts A start final flag = .ok wA)
    (hwB : MdTimesApi.estimate_waiting_times stB.sts B start final flag = .ok wB) :
    MdTimesApi.estimate_waiting_times stAB.sts (A ++ B) start final flag = .ok (wA ++ wB) := by
  have hokA : ¬ BadSets A start final := (estimate_waiting_times_ok A stA hA start final flag wA hwA).1
  have hokB : ¬ BadSets B start final := (estimate_waiting_times_ok B stB hB start final flag wB hwB).1
  have hok : ¬ BadSets (A ++ B) start final := by
    unfold BadSets at *
    simp only [List.flatten_append, List.mem_append, not_or, not_exists, not_and, not_not] at *
    exact ⟨hokA.1, fun x hx hn => absurd (hokA.2.1 x hx) hn, fun x hx hn => absurd (hokA.2.2 x hx) hn⟩
  rw [TimesApi.estimate_waiting_times_api_accept A stA hA start final flag hokA] at hwA
  rw [TimesApi.estimate_waiting_times_api_accept B stB hB start final flag hokB] at hwB
  cases hwA; cases hwB
  rw [TimesApi.estimate_waiting_times_api_accept (A ++ B) stAB hAB start final flag hok, C06.per_traj, List.map_append]

/-- **C06, clause "paths are loop-free, start in `start`, end in `final`"**: every key of the dictionary returned by the
translated `md.estimate_paths` has no repeated label, its first label is in `start`, its last label is in `final`; and the
bucket stored under it is non-empty. -/
theorem estimate_paths_shape (ts : Trajs) (st : StateTraj) (h : StateTraj.mk' ts = .ok st)
    (start final : List Int) (flag : Bool) (d : List (List Int × List Int))
    (hd : MdTimesApi.estimate_paths st.sts ts start final flag = .ok d) :
    ∀ k ds, (k, ds) ∈ d → k.Nodup ∧ (∃ s ∈ start, k.head? = some s) ∧ (∃ f ∈ final, k.getLast? = some f) ∧ ds ≠ [] := by
  have hok : ¬ BadSets ts start final := by
    intro hb
    rw [(estimate_paths_reject_iff ts st h start final flag).mpr hb] at hd
    cases hd
  rw [TimesApi.estimate_paths_api_accept ts st h start final flag hok] at hd
  cases hd
  intro k ds hk
  simp only [TimesApi.dictI, List.mem_map] at hk
  obtain ⟨⟨k', ds'⟩, hmem, hk'⟩ := hk
  simp only [Prod.mk.injEq] at hk'
  obtain ⟨rfl, rfl⟩ := hk'
  obtain ⟨hne, hds⟩ := (TimesApi.groupFirst_bucket _ k' ds').mp hmem
  have hne' : (ds'.map Int.ofNat) ≠ [] := by simpa using hne
  -- some tuple has path `k'`
  have hex : ∃ e ∈ pathsAll (sortDedup start) (sortDedup final) ts, e.1 = k' := by
    cases hf : (pathsAll (sortDedup start) (sortDedup final) ts).filter (fun e => e.1 == k') with
    | nil => rw [hf] at hds; exact absurd hds hne
    | cons e es =>
      have : e ∈ (pathsAll (sortDedup start) (sortDedup final) ts).filter (fun e => e.1 == k') := by
        rw [hf]; exact List.mem_cons_self
      obtain ⟨h1, h2⟩ := List.mem_filter.mp this
      exact ⟨e, h1, by simpa using h2⟩
  obtain ⟨e, he, rfl⟩ := hex
  simp only [pathsAll, pathsSingle, List.mem_flatten, List.mem_map] at he
  obtain ⟨l, ⟨t, ht, rfl⟩, he⟩ := he
  obtain ⟨⟨i, j⟩, hev, rfl⟩ := List.mem_map.mp he
  obtain ⟨hij, hj, hS, hF, _⟩ := C06.events_sound _ _ t i j hev
  simp only [mem_sortDedup] at hS hF
  have hseg : ((t.drop i).take (j - i + 1)).head? = some (t.getD i 0) := seg_head? t i (j - i) (by omega)
  refine ⟨C06.path_nodup _ _, ?_, ?_, hne'⟩
  · rw [C06.path_head _ _ (fun s hs => by rw [hseg] at hs; cases hs; exact mem_sortDedup.mpr hS)]
    cases hfind : ((t.drop i).take (j - i + 1)).reverse.find? (fun x => (sortDedup start).contains x) with
    | none =>
      have hmem : t.getD i 0 ∈ ((t.drop i).take (j - i + 1)).reverse :=
        List.mem_reverse.mpr (List.mem_of_mem_head? hseg)
      have := List.find?_eq_none.mp hfind _ hmem
      simp only [List.contains_eq_mem, decide_eq_true_eq, mem_sortDedup] at this
      exact absurd hS this
    | some s =>
      have := List.find?_some hfind
      simp only [List.contains_eq_mem, decide_eq_true_eq, mem_sortDedup] at this
      exact ⟨s, this, rfl⟩
  · rw [C06.path_last]
    refine ⟨t.getD j 0, hF, ?_⟩
    have hlen : ((t.drop i).take (j - i + 1)).length = j - i + 1 := by
      rw [List.length_take, List.length_drop]; omega
    rw [List.getLast?_eq_getElem?, hlen, List.getElem?_take_of_lt (by omega), List.getElem?_drop,
      List.getD_eq_getElem?_getD]
    have e : i + (j - i + 1 - 1) = j := by omega
    rw [e, List.getElem?_eq_getElem hj]
    rfl

/-! ### non-vacuity for C06 (the example of `Refine/TimesApi.lean`: two trajectories, loops, an open event) -/

example : StateTraj.mk' TimesApi.exTs = .ok TimesApi.exSt ∧ ¬ BadSets TimesApi.exTs [1, 0, 0] [3] ∧
    BadSets TimesApi.exTs [0, 3] [3] ∧ BadSets TimesApi.exTs [0] [7] := by
  unfold BadSets; decide +kernel

example (flag : Bool) : MdTimesApi.estimate_waiting_times TimesApi.exSt.sts TimesApi.exTs [1, 0, 0] [3] flag
    = .ok [4, 2, 4] := by
  rw [TimesApi.estimate_waiting_times_api_accept TimesApi.exTs TimesApi.exSt (by decide) _ _ _ (by decide)]; decide

example (flag : Bool) : MdTimesApi.estimate_paths TimesApi.exSt.sts TimesApi.exTs [1, 0, 0] [3] flag
    = .ok [([0, 2, 3], [4, 4]), ([1, 2, 3], [2])] := by
  rw [TimesApi.estimate_paths_api_accept TimesApi.exTs TimesApi.exSt (by decide) _ _ _ (by decide)]; decide

end MsmVerif.Refine.CoringTransfer

