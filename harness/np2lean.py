"""np2lean — the ARRAY DIALECT of the translator: numpy-vectorised, (almost) loop-free functions of msmhelper → Lean 4.

Same idea and same rules as py2lean (which this module extends): the function's AST is read from the working tree and
emitted statement by statement as a Lean `do`-block, now over the numpy runtime `MsmVerif/Gen/NpRt.lean`.  What is new:

* array types `L[T]` (1-d), `L[L[T]]` (2-d, rectangular by precondition), `Col[T]` (an `(n, 1)` view made by
  `v[:, np.newaxis]` / `v.reshape(n, 1)`); element-wise arithmetic, comparison, `np.logical_*`, `~`, `np.abs` are emitted
  as `List.map` (array ∘ scalar), `npBroadcast1/2` (array ∘ array, numpy broadcasting, `ValueError` on a mismatch),
  `npOuter` (column ∘ row) or `npMatCol` (2-d ∘ column) — chosen from the static types;
* reductions `.sum(axis=…)`, `.all()`, `np.max`, boolean-mask reads and writes, `np.ix_`, pairwise fancy assignment,
  `np.diag`, `np.zeros`, `np.ones_like`, `np.arange`, `np.split`, `@`, `np.linalg.multi_dot`, `np.linalg.inv`,
  `np.linalg.matrix_power`, `.T`, `.shape`, `.ndim`, `np.atleast_2d`;
* a variable may be re-bound with another type at the top level of the function (`matrix = matrix > atol`): this becomes
  a shadowing `let mut`; inside branches the type must stay the same;
* keyword parameters with defaults (`atol=1e-8`): the Lean function takes them explicitly, calls that omit them pass the
  default of the callee's signature; a float literal is its exact binary value;
* `self.<attr>` reads become parameters `self_<attr>` (table `selfattrs`); calls of functions that are not translated
  (LAPACK eigen-solver, `mh.msm.peq` inside the Hummer–Szabo projection) become ORACLE parameters `ext_<name>` — the
  refinement theorems quantify over them (with the contract they need as a hypothesis);
* calls of translated functions of other modules go through XREF.
Anything outside the subset raises Unsupported (→ "no longer translated": an undischarged obligation, never a default).
"""
import ast
from fractions import Fraction

import argwrites
import py2lean
from py2lean import Unsupported, Fn, parse_type as _parse_type, lean_name

SCAL = ('Int', 'Rat', 'Bool', 'Cx')      # Cx: complex double or NaN (runtime type `Cx`)

# (relative file, Lean namespace, container class or None, [(function, signature)])
NP_KERNELS = [
    ('utils/tests.py', 'UtilsTests', None, [
        ('is_quadratic', dict(params=['L[L[Rat]]'], ret='Bool')),
        ('is_transition_matrix', dict(params=['L[L[Rat]]', 'Rat'], ret='Bool')),
        ('is_ergodic', dict(params=['L[L[Rat]]', 'Rat'], ret='Bool')),
        ('is_fuzzy_ergodic', dict(params=['L[L[Rat]]', 'Rat'], ret='Bool')),
        ('ergodic_mask', dict(params=['L[L[Rat]]', 'Rat'], ret='L[Bool]')),
    ]),
    ('msm/msm.py', 'MsmNorm', None, [
        ('row_normalize_matrix', dict(params=['L[L[Rat]]'], ret='L[L[Rat]]')),
        ('equilibrium_population', dict(
            params=['L[L[Rat]]', 'Bool'], ret='L[Rat]',
            externals={'linalg.left_eigenvectors': ('ext_left_eigenvectors', ['L[L[Rat]]', 'Int'], 'T[L[Rat],L[L[Rat]]]', ['matrix', 'nvals'])})),
    ]),
    ('plot/_ck_test.py', 'PlotCkTest', None, [
        ('_split_array', dict(params=['L[Int]', 'Int'], ret='L[L[Int]]')),
    ]),
    ('msm/tests.py', 'MsmTests', None, [
        ('_calc_times', dict(params=['Int', 'Int'], ret='L[Int]')),
        # the object is given by `nstates`, `states`; its estimator (`trajs.estimate_markov_model`, for a lumped object the Hummer–Szabo model) is an oracle
        ('_chapman_kolmogorov_test', dict(
            ret='T[L[T[Int,L[Rat]]],L[Int],Bool,Bool]', param_names=['trajs_nstates', 'trajs_states', 'lagtime', 'tmax'],
            params=['Int', 'L[Int]', 'Int', 'Int'], objects={'trajs': {'attrs': {'nstates': 'Int', 'states': 'L[Int]'}}},
            externals={'trajs.estimate_markov_model': ('ext_estimate', ['Int'], 'T[L[L[Rat]],L[Int]]', ['lagtime'])})),
        # reference curve: the rounded geometric time grid is an oracle, the estimator is the PLAIN (macro-level) one
        ('_chapman_kolmogorov_test_md', dict(
            ret='T[L[T[Int,L[Rat]]],L[Int],L[Bool],L[Bool]]', param_names=['trajs_nstates', 'trajs_states', 'tmin', 'tmax', 'steps'],
            params=['Int', 'L[Int]', 'Int', 'Int', 'Int'], objects={'trajs': {'attrs': {'nstates': 'Int', 'states': 'L[Int]'}}},
            rewrite_stmts={'times = np.around(np.geomspace(start=tmin, stop=tmax, num=steps)).astype(np.int64)': 'times = ext_geomspace_rounded(tmin, tmax, steps)',
                           'if isinstance(trajs, LumpedStateTraj):\n    macrotrajs = StateTraj(trajs.trajs)\nelse:\n    macrotrajs = trajs': 'pass'},
            externals={'macrotrajs.estimate_markov_model': ('ext_estimate_plain', ['Int'], 'T[L[L[Rat]],L[Int]]', ['lagtime']),
                       'ext_geomspace_rounded': ('ext_geomspace_rounded', ['Int', 'Int', 'Int'], 'L[Int]')})),
    ]),
    ('msm/timescales.py', 'MsmCummat', None, [
        ('_get_cummat', dict(
            params=['L[L[Rat]]'], ret='T[L[L[Rat]],L[L[Int]]]',
            # the first statement (`msm, _ = StateTraj(trajs).estimate_markov_model(lagtime)`) is replaced by the parameter `msm`
            replace_params=['msm'], skip=1,
            locals={'idx_sort': 'L[Int]', 'npositive': 'Int'},
            externals={'np.argsort': ('ext_argsort', ['L[Rat]'], 'L[Int]')})),
    ]),
    ('statetraj.py', 'StateTrajBase', 'StateTraj', [
        ('state_to_idx', dict(params=['Int'], ret='Int', selfattrs=[('states', 'L[Int]')])),
    ]),
    ('msm/timescales.py', 'MsmTimes', None, [
        # `_estimate_times` has two result types; it is translated once per value of `return_list`
        ('_estimate_times', dict(
            lean_name='estimate_times_list', consts={'return_list': True}, ret='L[Int]', fn_params={'estimator': 'ext_estimator'},
            param_names=['trajs_states', 'lagtime', 'start', 'final', 'steps', 'cfg_disable_jit'],
            params=['L[Int]', 'Int', 'L[Int]', 'L[Int]', 'Int', 'Bool'],
            objects={'trajs': {'attrs': {'states': 'L[Int]'}}}, flags={'numba.config.DISABLE_JIT': 'cfg_disable_jit'},
            methods={'state_to_idx': ('StateTrajBase', 'state_to_idx', ['states'])},
            externals={'np.random.choice': ('ext_choice', ['L[Int]'], 'Int'),
                       '_get_cummat': ('ext_get_cummat', ['Int'], py2lean.CUMMAT, ['trajs', 'lagtime'], ['trajs']),
                       'estimator': ('ext_estimator', [py2lean.CUMMAT, 'Int', 'L[Int]', 'L[Int]', 'Int'], 'Dict',
                                     ['cummat', 'start', 'states_from', 'states_to', 'steps'])})),
        ('_estimate_times', dict(
            lean_name='estimate_times_hist', consts={'return_list': False}, ret='T[L[Rat],L[Int]]', fn_params={'estimator': 'ext_estimator'},
            param_names=['trajs_states', 'lagtime', 'start', 'final', 'steps', 'cfg_disable_jit'],
            params=['L[Int]', 'Int', 'L[Int]', 'L[Int]', 'Int', 'Bool'],
            objects={'trajs': {'attrs': {'states': 'L[Int]'}}}, flags={'numba.config.DISABLE_JIT': 'cfg_disable_jit'},
            methods={'state_to_idx': ('StateTrajBase', 'state_to_idx', ['states'])},
            externals={'np.random.choice': ('ext_choice', ['L[Int]'], 'Int'),
                       '_get_cummat': ('ext_get_cummat', ['Int'], py2lean.CUMMAT, ['trajs', 'lagtime'], ['trajs']),
                       'estimator': ('ext_estimator', [py2lean.CUMMAT, 'Int', 'L[Int]', 'L[Int]', 'Int'], 'Dict',
                                     ['cummat', 'start', 'states_from', 'states_to', 'steps'])})),
    ]),
    ('utils/_utils.py', 'UtilsRelabel', None, [
        # the relabelling utilities for the container form `list of 1-d integer arrays` (what StateTraj passes on); the type dispatch of
        # _flatten_data / _unflatten_data is a runtime primitive for that form (npFlattenLL / npUnflattenLL), dtype = int64
        ('unique', dict(params=['L[L[Int]]'], ret='L[Int]', param_names=['trajs'], kwargs_consts={})),
        ('unique', dict(lean_name='unique_counts', params=['L[L[Int]]'], ret='T[L[Int],L[Int]]', param_names=['trajs'],
                        kwargs_consts={'return_counts': True})),
        ('shift_data', dict(params=['L[L[Int]]', 'L[Int]', 'L[Int]'], ret='L[L[Int]]', param_names=['array', 'val_old', 'val_new'],
                            consts={'dtype': 'np.int64'}, facts={'np.issubdtype(dtype, np.integer)': True, "np.issubdtype('np.int64', np.integer)": True})),
        ('shift_data', dict(lean_name='shift_data_1d', form='1d', params=['L[Int]', 'L[Int]', 'L[Int]'], ret='L[Int]', param_names=['array', 'val_old', 'val_new'],
                            consts={'dtype': 'np.int64'}, facts={'np.issubdtype(dtype, np.integer)': True, "np.issubdtype('np.int64', np.integer)": True})),
        ('rename_by_index', dict(params=['L[L[Int]]'], ret='T[L[L[Int]],L[Int]]', param_names=['trajs'], consts={'return_permutation': True})),
        ('rename_by_population', dict(params=['L[L[Int]]'], ret='T[L[L[Int]],L[Int]]', param_names=['trajs'], consts={'return_permutation': True},
                                      xcalls={'unique': ('UtilsRelabel', 'unique_counts')},
                                      externals={'np.argsort': ('ext_argsort_int', ['L[Int]'], 'L[Int]')})),
    ]),
    ('statetraj.py', 'StateTrajInit', 'StateTraj', [
        ('__init__', dict(lean_name='init', params=['L[L[Int]]'], ret='T[L[L[Int]],L[Int]]', param_names=['trajs'],
                          facts={'isinstance(trajs, StateTraj)': False}, self_locals=['_trajs', '_states'],
                          self_props={'nstates': 'len(self._states.copy())'}, returns_self=['_trajs', '_states'],
                          drop_stmts=['dtype = np.result_type(*self._trajs)'])),
    ]),
    ('statetraj.py', 'StateTrajAcc', 'StateTraj', [
        # the accessors of a plain StateTraj, as functions of the private attributes `_trajs` (index trajectories) and `_states`
        ('states', dict(params=[], ret='L[Int]', selfattrs=[('_states', 'L[Int]')])),
        ('nstates', dict(params=[], ret='Int', selfattrs=[('_states', 'L[Int]')], self_props={'states': 'self._states.copy()', 'nstates': 'len(self._states.copy())', 'index_trajs': '[traj.copy() for traj in self._trajs]', 'len_self': 'len(self._trajs)'})),
        ('ntrajs', dict(params=[], ret='Int', selfattrs=[('_trajs', 'L[L[Int]]')], self_props={'states': 'self._states.copy()', 'nstates': 'len(self._states.copy())', 'index_trajs': '[traj.copy() for traj in self._trajs]', 'len_self': 'len(self._trajs)'})),
        ('nframes', dict(params=[], ret='Int', selfattrs=[('_trajs', 'L[L[Int]]')])),
        ('index_trajs', dict(params=[], ret='L[L[Int]]', selfattrs=[('_trajs', 'L[L[Int]]')])),
        ('index_trajs_flatten', dict(params=[], ret='L[Int]', selfattrs=[('_trajs', 'L[L[Int]]')], self_props={'states': 'self._states.copy()', 'nstates': 'len(self._states.copy())', 'index_trajs': '[traj.copy() for traj in self._trajs]', 'len_self': 'len(self._trajs)'})),
        ('trajs', dict(params=[], ret='L[L[Int]]', selfattrs=[('_trajs', 'L[L[Int]]'), ('_states', 'L[Int]')], self_props={'states': 'self._states.copy()', 'nstates': 'len(self._states.copy())', 'index_trajs': '[traj.copy() for traj in self._trajs]', 'len_self': 'len(self._trajs)'})),
        ('trajs_flatten', dict(params=[], ret='L[Int]', selfattrs=[('_trajs', 'L[L[Int]]'), ('_states', 'L[Int]')], selfcalls=['trajs'])),
    ]),
    ('statetraj.py', 'LumpedAcc', 'LumpedStateTraj', [
        # accessors and constructor of LumpedStateTraj as functions of the private attributes
        ('microstate_trajs', dict(params=[], ret='L[L[Int]]', selfattrs=[('_trajs', 'L[L[Int]]'), ('_states', 'L[Int]'), ('_macrostates', 'L[Int]')], self_props={'states': 'self._macrostates.copy()', 'nstates': 'len(self._macrostates.copy())', 'microstates': 'self._states.copy()', 'nmicrostates': 'len(self._states.copy())', 'state_assignment': 'self._state_assignment.copy()', 'microstate_index_trajs': '[traj.copy() for traj in self._trajs]'})),
        ('microstate_trajs_flatten', dict(params=[], ret='L[Int]', selfattrs=[('_trajs', 'L[L[Int]]'), ('_states', 'L[Int]'), ('_macrostates', 'L[Int]')],
                                          selfcalls=['microstate_trajs'])),
        ('_state_assignment_idx', dict(lean_name='state_assignment_idx', params=[], ret='L[Int]', selfattrs=[('_macrostates', 'L[Int]'), ('_state_assignment', 'L[Int]')],
                                       self_props={'states': 'self._macrostates.copy()', 'nstates': 'len(self._macrostates.copy())', 'microstates': 'self._states.copy()', 'nmicrostates': 'len(self._states.copy())', 'state_assignment': 'self._state_assignment.copy()', 'microstate_index_trajs': '[traj.copy() for traj in self._trajs]'}, xcalls={'mh.shift_data': ('UtilsRelabel', 'shift_data_1d')})),
        ('trajs', dict(params=[], ret='L[L[Int]]', selfattrs=[('_trajs', 'L[L[Int]]'), ('_states', 'L[Int]'), ('_state_assignment', 'L[Int]')], self_props={'states': 'self._macrostates.copy()', 'nstates': 'len(self._macrostates.copy())', 'microstates': 'self._states.copy()', 'nmicrostates': 'len(self._states.copy())', 'state_assignment': 'self._state_assignment.copy()', 'microstate_index_trajs': '[traj.copy() for traj in self._trajs]'})),
        ('index_trajs', dict(params=[], ret='L[L[Int]]', selfattrs=[('_trajs', 'L[L[Int]]'), ('_states', 'L[Int]'), ('_macrostates', 'L[Int]'), ('_state_assignment', 'L[Int]')],
                             self_props={'states': 'self._macrostates.copy()', 'nstates': 'len(self._macrostates.copy())', 'microstates': 'self._states.copy()', 'nmicrostates': 'len(self._states.copy())', 'state_assignment': 'self._state_assignment.copy()', 'microstate_index_trajs': '[traj.copy() for traj in self._trajs]'}, selfcalls=['_state_assignment_idx'])),
        ('__init__', dict(lean_name='init', params=['L[L[Int]]', 'L[L[Int]]', 'Bool'], ret='T[Bool,L[Int],L[L[Int]],L[Int],L[Int]]',
                          param_names=['macrotrajs', 'microtrajs', 'positive'], not_none=['microtrajs'],
                          facts={'isinstance(macrotrajs, LumpedStateTraj)': False},
                          self_locals=['positive', '_macrostates', '_trajs', '_states', '_state_assignment'], super_init=['_trajs', '_states'],
                          self_props={'states': 'self._macrostates.copy()', 'nstates': 'len(self._macrostates.copy())', 'microstates': 'self._states.copy()', 'nmicrostates': 'len(self._states.copy())', 'state_assignment': 'self._state_assignment.copy()', 'microstate_index_trajs': '[traj.copy() for traj in self._trajs]'}, selfcalls=['microstate_trajs_flatten'], locals={'idx_first': 'Int'},
                          selfattrs_local=[('_trajs', 'L[L[Int]]'), ('_states', 'L[Int]'), ('_macrostates', 'L[Int]')],
                          returns_self=['positive', '_macrostates', '_trajs', '_states', '_state_assignment'])),
    ]),
    ('msm/msm.py', 'MsmEstimate', None, [
        ('_estimate_markov_model', dict(
            lean_name='estimate_markov_model_perm', ret='T[L[L[Rat]],L[Int]]', not_none=['perm'],
            param_names=['trajs', 'lagtime', 'nstates', 'perm', 'cfg_disable_jit'], params=['L[L[Int]]', 'Int', 'Int', 'L[Int]', 'Bool'],
            flags={'numba.config.DISABLE_JIT': 'cfg_disable_jit'}, scalar_calls=['_generate_transition_count_matrix'],
            xcalls={'row_normalize_matrix': ('MsmNorm', 'row_normalize_matrix')})),
        ('_estimate_markov_model', dict(
            lean_name='estimate_markov_model_default', ret='T[L[L[Rat]],L[Int]]', consts={'perm': None},
            param_names=['trajs', 'lagtime', 'nstates', 'cfg_disable_jit'], params=['L[L[Int]]', 'Int', 'Int', 'Bool'],
            flags={'numba.config.DISABLE_JIT': 'cfg_disable_jit'}, scalar_calls=['_generate_transition_count_matrix'],
            xcalls={'row_normalize_matrix': ('MsmNorm', 'row_normalize_matrix')})),
    ]),
    ('msm/timescales.py', 'MsmMcmcApi', None, [
        ('propagate_MCMC', dict(
            ret='L[Int]', param_names=['trajs_states', 'lagtime', 'steps', 'start'], params=['L[Int]', 'Int', 'Int', 'Int'],
            objects={'trajs': {'attrs': {'states': 'L[Int]'}}},
            methods={'state_to_idx': ('StateTrajBase', 'state_to_idx', ['states'])},
            externals={'np.random.choice': ('ext_choice', ['L[Int]'], 'Int'),
                       '_get_cummat': ('ext_get_cummat', ['Int'], py2lean.CUMMAT, ['trajs', 'lagtime'], ['trajs']),
                       '_propagate_MCMC': ('ext_propagate', [py2lean.CUMMAT, 'Int', 'Int'], 'L[Int]', ['cummat', 'start', 'steps'])})),
    ]),
    ('utils/filtering.py', 'UtilsFiltering', None, [
        ('runningmean', dict(params=['L[Rat]', 'Int'], ret='L[Rat]')),
    ]),
    ('io.py', 'IoLimits', None, [
        ('open_limits', dict(
            lean_name='open_limits_file', ret='L[Int]', not_none=['limits_file'],
            param_names=['data_length', 'limits_file'], params=['Int', 'Int'],       # the file name is an opaque token
            externals={'opentxt': ('ext_opentxt', ['Int'], 'L[Int]')})),
        ('open_limits', dict(lean_name='open_limits_none', ret='L[Int]', consts={'limits_file': None}, param_names=['data_length'], params=['Int'])),
    ]),
    ('utils/datasets.py', 'UtilsDatasets', None, [
        ('propagate_tmat', dict(lean_name='propagate_tmat_start', ret='L[Int]', not_none=['start'], param_names=['tmat', 'nsteps', 'start'],
                                params=['L[L[Rat]]', 'Int', 'Int'],
                                externals={'_propagate_MCMC': ('ext_propagate_echo', [py2lean.CUMMAT, 'Int', 'Int'], 'L[Int]', ['cummat', 'start', 'steps'])})),
        ('propagate_tmat', dict(lean_name='propagate_tmat_random', ret='L[Int]', consts={'start': None}, param_names=['tmat', 'nsteps'],
                                params=['L[L[Rat]]', 'Int'],
                                externals={'_propagate_MCMC': ('ext_propagate_echo', [py2lean.CUMMAT, 'Int', 'Int'], 'L[Int]', ['cummat', 'start', 'steps']),
                                           'np.random.randint': ('ext_randint', ['Int'], 'Int')})),
    ]),
    ('md/comparison.py', 'MdCompareApi', None, [
        ('_compare_discretization', dict(
            lean_name='compare_discretization_symmetric', consts={'method': 'symmetric'}, ret='Rat',
            param_names=['traj1_index_trajs_flatten', 'traj1_nstates', 'traj2_index_trajs_flatten', 'traj2_nstates', 'cfg_disable_jit'],
            params=['L[Int]', 'Int', 'L[Int]', 'Int', 'Bool'],
            objects={'traj1': {'attrs': {'index_trajs_flatten': 'L[Int]', 'nstates': 'Int'}}, 'traj2': {'attrs': {'index_trajs_flatten': 'L[Int]', 'nstates': 'Int'}}},
            flags={'numba.config.DISABLE_JIT': 'cfg_disable_jit'},
            scalar_calls=['_intersect_array', '_compare_trajs_symmetric', '_compare_trajs_directed'],
            fuel='(traj1_index_trajs_flatten).length + (traj2_index_trajs_flatten).length + 1')),
        ('_compare_discretization', dict(
            lean_name='compare_discretization_directed', consts={'method': 'directed'}, ret='Rat',
            param_names=['traj1_index_trajs_flatten', 'traj1_nstates', 'traj2_index_trajs_flatten', 'traj2_nstates', 'cfg_disable_jit'],
            params=['L[Int]', 'Int', 'L[Int]', 'Int', 'Bool'],
            objects={'traj1': {'attrs': {'index_trajs_flatten': 'L[Int]', 'nstates': 'Int'}}, 'traj2': {'attrs': {'index_trajs_flatten': 'L[Int]', 'nstates': 'Int'}}},
            flags={'numba.config.DISABLE_JIT': 'cfg_disable_jit'},
            scalar_calls=['_intersect_array', '_compare_trajs_symmetric', '_compare_trajs_directed'],
            fuel='(traj1_index_trajs_flatten).length + (traj2_index_trajs_flatten).length + 1')),
        ('compare_discretization', dict(
            lean_name='compare_discretization_api_symmetric', consts={'method': 'symmetric'}, ret='Rat', param_names=['traj1_index_trajs_flatten', 'traj1_nstates', 'traj1_nframes', 'traj2_index_trajs_flatten', 'traj2_nstates', 'traj2_nframes', 'cfg_disable_jit'], params=['L[Int]', 'Int', 'Int', 'L[Int]', 'Int', 'Int', 'Bool'],
            objects={'traj1': {'attrs': {'index_trajs_flatten': 'L[Int]', 'nstates': 'Int', 'nframes': 'Int'}}, 'traj2': {'attrs': {'index_trajs_flatten': 'L[Int]', 'nstates': 'Int', 'nframes': 'Int'}}}, flags={'numba.config.DISABLE_JIT': 'cfg_disable_jit'})),
        ('compare_discretization', dict(
            lean_name='compare_discretization_api_directed', consts={'method': 'directed'}, ret='Rat', param_names=['traj1_index_trajs_flatten', 'traj1_nstates', 'traj1_nframes', 'traj2_index_trajs_flatten', 'traj2_nstates', 'traj2_nframes', 'cfg_disable_jit'], params=['L[Int]', 'Int', 'Int', 'L[Int]', 'Int', 'Int', 'Bool'],
            objects={'traj1': {'attrs': {'index_trajs_flatten': 'L[Int]', 'nstates': 'Int', 'nframes': 'Int'}}, 'traj2': {'attrs': {'index_trajs_flatten': 'L[Int]', 'nstates': 'Int', 'nframes': 'Int'}}}, flags={'numba.config.DISABLE_JIT': 'cfg_disable_jit'})),
        ('compare_discretization', dict(
            lean_name='compare_discretization_api_other', consts={'method': 'other'}, ret='Rat', param_names=['traj1_index_trajs_flatten', 'traj1_nstates', 'traj1_nframes', 'traj2_index_trajs_flatten', 'traj2_nstates', 'traj2_nframes', 'cfg_disable_jit'], params=['L[Int]', 'Int', 'Int', 'L[Int]', 'Int', 'Int', 'Bool'],
            objects={'traj1': {'attrs': {'index_trajs_flatten': 'L[Int]', 'nstates': 'Int', 'nframes': 'Int'}}, 'traj2': {'attrs': {'index_trajs_flatten': 'L[Int]', 'nstates': 'Int', 'nframes': 'Int'}}}, flags={'numba.config.DISABLE_JIT': 'cfg_disable_jit'})),
    ]),
    ('md/timescales.py', 'MdTimesApi', None, [
        ('estimate_waiting_times', dict(
            ret='L[Int]', param_names=['trajs_states', 'trajs_iter', 'start', 'final', 'cfg_disable_jit'],
            params=['L[Int]', 'L[L[Int]]', 'L[Int]', 'L[Int]', 'Bool'],
            objects={'trajs': {'attrs': {'states': 'L[Int]'}, 'iter': 'L[L[Int]]'}}, flags={'numba.config.DISABLE_JIT': 'cfg_disable_jit'},
            scalar_calls=['_estimate_waiting_times'])),
        ('estimate_paths', dict(
            ret='L[T[L[Int],L[Int]]]', param_names=['trajs_states', 'trajs_iter', 'start', 'final', 'cfg_disable_jit'],
            params=['L[Int]', 'L[L[Int]]', 'L[Int]', 'L[Int]', 'Bool'],
            objects={'trajs': {'attrs': {'states': 'L[Int]'}, 'iter': 'L[L[Int]]'}}, flags={'numba.config.DISABLE_JIT': 'cfg_disable_jit'},
            scalar_calls=['_estimate_paths'])),
    ]),
    ('md/corrections.py', 'MdCoringApi', None, [
        ('dynamical_coring', dict(
            ret='L[L[Int]]', param_names=['trajs_states', 'trajs_index_trajs', 'trajs_iter', 'trajs_is_lumped', 'lagtime', 'iterative', 'cfg_disable_jit'],
            params=['L[Int]', 'L[L[Int]]', 'L[L[Int]]', 'Bool', 'Int', 'Bool', 'Bool'],
            objects={'trajs': {'attrs': {'states': 'L[Int]', 'index_trajs': 'L[L[Int]]'}, 'iter': 'L[L[Int]]',
                               'isinstance': {'LumpedStateTraj': 'trajs_is_lumped'}}},
            flags={'numba.config.DISABLE_JIT': 'cfg_disable_jit'}, scalar_calls=['_dynamical_coring'])),
    ]),
    ('statetraj.py', 'StateTrajHS', 'LumpedStateTraj', [
        ('_estimate_markov_model', dict(
            params=['L[L[Rat]]'], ret='L[L[Rat]]',
            selfattrs=[('microstates', 'L[Int]'), ('states', 'L[Int]'), ('state_assignment', 'L[Int]'),
                       ('_state_assignment_idx', 'L[Int]'), ('nmicrostates', 'Int'), ('nstates', 'Int'),
                       ('positive', 'Bool')],
            externals={'mh.msm.peq': ('ext_peq', ['L[L[Rat]]'], 'L[Rat]')})),
    ]),
    ('msm/tests.py', 'MsmCkApi', None, [
        # the public Chapman–Kolmogorov test for a list of integer lag times; the result dictionary {lag: …, 'md': …} is the pair
        # (association list over the lag times, reference entry)
        ('chapman_kolmogorov_test', dict(
            ret='T[L[T[Int,T[L[T[Int,L[Rat]]],L[Int],Bool,Bool]]],T[L[T[Int,L[Rat]]],L[Int],L[Bool],L[Bool]]]', param_names=['trajs_nstates', 'trajs_states', 'lagtimes', 'tmax'], params=['Int', 'L[Int]', 'L[Int]', 'Int'],
            objects={'trajs': {'attrs': {'nstates': 'Int', 'states': 'L[Int]'}}},
            facts={'np.issubdtype(lagtimes.dtype, np.integer)': True, 'isinstance(tmax, int)': True},
            locals={'ckeqs': 'L[T[Int,T[L[T[Int,L[Rat]]],L[Int],Bool,Bool]]]'},
            rewrite_stmts={'ckeqs = {}': 'ckeqs = []',
                           'ckeqs[lagtime] = _chapman_kolmogorov_test(trajs, lagtime, tmax)':
                               'ckeqs = rt__pyAssocSet(ckeqs, lagtime, _chapman_kolmogorov_test(trajs, lagtime, tmax))',
                           "ckeqs['md'] = _chapman_kolmogorov_test_md(trajs, tmin=lagtimes[0], tmax=tmax)":
                               'ckeqs_md = _chapman_kolmogorov_test_md(trajs, tmin=lagtimes[0], tmax=tmax)',
                           'return ckeqs': 'return (ckeqs, ckeqs_md)'},
            xcalls={'_chapman_kolmogorov_test': ('MsmTests', '_chapman_kolmogorov_test'), '_chapman_kolmogorov_test_md': ('MsmTests', '_chapman_kolmogorov_test_md')},
            externals={'decl__estimate': ('ext_estimate', ['Int'], 'T[L[L[Rat]],L[Int]]'),
                       'decl__estimate_plain': ('ext_estimate_plain', ['Int'], 'T[L[L[Rat]],L[Int]]'),
                       'decl__geomspace': ('ext_geomspace_rounded', ['Int', 'Int', 'Int'], 'L[Int]')})),
    ]),
    ('statetraj.py', 'StateTrajEst', 'StateTraj', [
        ('estimate_markov_model', dict(params=['Int'], ret='T[L[L[Rat]],L[Int]]', param_names=['lagtime'],
                                       selfattrs=[('_trajs', 'L[L[Int]]'), ('_states', 'L[Int]')],
                                       self_props={'states': 'self._states.copy()', 'nstates': 'len(self._states.copy())',
                                                   'index_trajs': '[traj.copy() for traj in self._trajs]'},
                                       extra_params=[('cfg_disable_jit', 'Bool')])),
    ]),
    ('statetraj.py', 'LumpedEst', 'LumpedStateTraj', [
        ('estimate_markov_model', dict(params=['Int'], ret='T[L[L[Rat]],L[Int]]', param_names=['lagtime'],
                                       selfattrs=[('_trajs', 'L[L[Int]]'), ('_states', 'L[Int]'), ('_macrostates', 'L[Int]'), ('_state_assignment', 'L[Int]'),
                                                  ('positive', 'Bool')],
                                       self_props={'states': 'self._macrostates.copy()', 'nstates': 'len(self._macrostates.copy())',
                                                   'microstates': 'self._states.copy()', 'nmicrostates': 'len(self._states.copy())',
                                                   'state_assignment': 'self._state_assignment.copy()',
                                                   'microstate_index_trajs': '[traj.copy() for traj in self._trajs]'},
                                       selfcalls=['_estimate_markov_model', '_state_assignment_idx'],
                                       selfcall_ns={'_estimate_markov_model': 'StateTrajHS', '_state_assignment_idx': 'LumpedAcc'},
                                       externals={'mh.msm.peq': ('ext_peq', ['L[L[Rat]]'], 'L[Rat]')},
                                       extra_params=[('cfg_disable_jit', 'Bool')])),
    ]),
    ('msm/utils/linalg.py', 'MsmLinalg', None, [
        # the eigen-solver wrappers: LAPACK (`np.linalg.eig`) and the sorting permutation (`argsort`) are oracles, values are complex doubles `Cx`;
        # every function once for an integer `nvals` and once for `nvals=None`
        ('_eigenvectors', dict(
            lean_name='eigenvectors_n', ret='T[L[Cx],L[L[Cx]]]', not_none=['nvals'], param_names=['matrix', 'nvals'], params=['L[L[Rat]]', 'Int'],
            rewrite_stmts={'idx_eigenvalues = eigenvalues.argsort()[::-1]': 'idx_eigenvalues = np.argsort(eigenvalues)[::-1]'},
            externals={'np.linalg.eig': ('ext_eig', ['L[L[Rat]]'], 'T[L[Cx],L[L[Cx]]]'), 'np.argsort': ('ext_argsort_cx', ['L[Cx]'], 'L[Int]')})),
        ('_eigenvectors', dict(
            lean_name='eigenvectors_all', ret='T[L[Cx],L[L[Cx]]]', consts={'nvals': None}, param_names=['matrix'], params=['L[L[Rat]]'],
            rewrite_stmts={'idx_eigenvalues = eigenvalues.argsort()[::-1]': 'idx_eigenvalues = np.argsort(eigenvalues)[::-1]'},
            externals={'np.linalg.eig': ('ext_eig', ['L[L[Rat]]'], 'T[L[Cx],L[L[Cx]]]'), 'np.argsort': ('ext_argsort_cx', ['L[Cx]'], 'L[Int]')})),
        ('_eigenvalues', dict(lean_name='eigenvalues_n', ret='L[Cx]', not_none=['nvals'], param_names=['matrix', 'nvals'], params=['L[L[Rat]]', 'Int'],
            xcalls={'_eigenvectors': ('MsmLinalg', 'eigenvectors_n')},
            externals={'decl__eig': ('ext_eig', ['L[L[Rat]]'], 'T[L[Cx],L[L[Cx]]]'), 'decl__argsort': ('ext_argsort_cx', ['L[Cx]'], 'L[Int]')})),
        ('_eigenvalues', dict(lean_name='eigenvalues_all', ret='L[Cx]', consts={'nvals': None}, param_names=['matrix'], params=['L[L[Rat]]'],
            xcalls={'_eigenvectors': ('MsmLinalg', 'eigenvectors_all')},
            externals={'decl__eig': ('ext_eig', ['L[L[Rat]]'], 'T[L[Cx],L[L[Cx]]]'), 'decl__argsort': ('ext_argsort_cx', ['L[Cx]'], 'L[Int]')})),
        ('left_eigenvectors', dict(lean_name='left_eigenvectors_n', ret='T[L[Cx],L[L[Cx]]]', not_none=['nvals'], param_names=['matrix', 'nvals'], params=['L[L[Rat]]', 'Int'],
            xcalls={'_eigenvectors': ('MsmLinalg', 'eigenvectors_n')},
            externals={'decl__eig': ('ext_eig', ['L[L[Rat]]'], 'T[L[Cx],L[L[Cx]]]'), 'decl__argsort': ('ext_argsort_cx', ['L[Cx]'], 'L[Int]')})),
        ('left_eigenvectors', dict(lean_name='left_eigenvectors_all', ret='T[L[Cx],L[L[Cx]]]', consts={'nvals': None}, param_names=['matrix'], params=['L[L[Rat]]'],
            xcalls={'_eigenvectors': ('MsmLinalg', 'eigenvectors_all')},
            externals={'decl__eig': ('ext_eig', ['L[L[Rat]]'], 'T[L[Cx],L[L[Cx]]]'), 'decl__argsort': ('ext_argsort_cx', ['L[Cx]'], 'L[Int]')})),
        ('right_eigenvectors', dict(lean_name='right_eigenvectors_n', ret='T[L[Cx],L[L[Cx]]]', not_none=['nvals'], param_names=['matrix', 'nvals'], params=['L[L[Rat]]', 'Int'],
            xcalls={'_eigenvectors': ('MsmLinalg', 'eigenvectors_n')},
            externals={'decl__eig': ('ext_eig', ['L[L[Rat]]'], 'T[L[Cx],L[L[Cx]]]'), 'decl__argsort': ('ext_argsort_cx', ['L[Cx]'], 'L[Int]')})),
        ('right_eigenvectors', dict(lean_name='right_eigenvectors_all', ret='T[L[Cx],L[L[Cx]]]', consts={'nvals': None}, param_names=['matrix'], params=['L[L[Rat]]'],
            xcalls={'_eigenvectors': ('MsmLinalg', 'eigenvectors_all')},
            externals={'decl__eig': ('ext_eig', ['L[L[Rat]]'], 'T[L[Cx],L[L[Cx]]]'), 'decl__argsort': ('ext_argsort_cx', ['L[Cx]'], 'L[Int]')})),
        ('left_eigenvalues', dict(lean_name='left_eigenvalues_n', ret='L[Cx]', not_none=['nvals'], param_names=['matrix', 'nvals'], params=['L[L[Rat]]', 'Int'],
            xcalls={'_eigenvalues': ('MsmLinalg', 'eigenvalues_n')},
            externals={'decl__eig': ('ext_eig', ['L[L[Rat]]'], 'T[L[Cx],L[L[Cx]]]'), 'decl__argsort': ('ext_argsort_cx', ['L[Cx]'], 'L[Int]')})),
        ('left_eigenvalues', dict(lean_name='left_eigenvalues_all', ret='L[Cx]', consts={'nvals': None}, param_names=['matrix'], params=['L[L[Rat]]'],
            xcalls={'_eigenvalues': ('MsmLinalg', 'eigenvalues_all')},
            externals={'decl__eig': ('ext_eig', ['L[L[Rat]]'], 'T[L[Cx],L[L[Cx]]]'), 'decl__argsort': ('ext_argsort_cx', ['L[Cx]'], 'L[Int]')})),
        ('right_eigenvalues', dict(lean_name='right_eigenvalues_n', ret='L[Cx]', not_none=['nvals'], param_names=['matrix', 'nvals'], params=['L[L[Rat]]', 'Int'],
            xcalls={'_eigenvalues': ('MsmLinalg', 'eigenvalues_n')},
            externals={'decl__eig': ('ext_eig', ['L[L[Rat]]'], 'T[L[Cx],L[L[Cx]]]'), 'decl__argsort': ('ext_argsort_cx', ['L[Cx]'], 'L[Int]')})),
        ('right_eigenvalues', dict(lean_name='right_eigenvalues_all', ret='L[Cx]', consts={'nvals': None}, param_names=['matrix'], params=['L[L[Rat]]'],
            xcalls={'_eigenvalues': ('MsmLinalg', 'eigenvalues_all')},
            externals={'decl__eig': ('ext_eig', ['L[L[Rat]]'], 'T[L[Cx],L[L[Cx]]]'), 'decl__argsort': ('ext_argsort_cx', ['L[Cx]'], 'L[Int]')})),
    ]),
    ('msm/timescales.py', 'MsmIts', None, [
        # one row of implied timescales: `np.log` is an oracle (no rational logarithm), NaN is a value of `Cx`
        ('_implied_timescales', dict(
            ret='L[Cx]', params=['L[L[Rat]]', 'Int', 'Int'], param_names=['tmat', 'lagtime', 'ntimescales'],
            xcalls={'linalg.left_eigenvalues': ('MsmLinalg', 'left_eigenvalues_n')},
            externals={'np.log': ('ext_log', ['L[Cx]'], 'L[Cx]'),
                       'decl__eig': ('ext_eig', ['L[L[Rat]]'], 'T[L[Cx],L[L[Cx]]]'), 'decl__argsort': ('ext_argsort_cx', ['L[Cx]'], 'L[Int]')})),
        # the public function, once for the default number of timescales and once for a given one; the estimator of the object is an oracle
        ('implied_timescales', dict(lean_name='implied_timescales_default', ret='L[L[Cx]]', consts={'ntimescales': None}, param_names=['trajs_nstates', 'lagtimes', 'reversible'], params=['Int', 'L[Int]', 'Bool'],
            objects={'trajs': {'attrs': {'nstates': 'Int'}}}, facts={'np.issubdtype(lagtimes.dtype, np.integer)': True},
            locals={'impl_timescales': 'L[L[Cx]]'}, real_arrays=['impl_timescales'],
            externals={'trajs.estimate_markov_model': ('ext_estimate', ['Int'], 'T[L[L[Rat]],L[Int]]', ['lagtime']), 'decl__log': ('ext_log', ['L[Cx]'], 'L[Cx]'),
                       'decl__eig': ('ext_eig', ['L[L[Rat]]'], 'T[L[Cx],L[L[Cx]]]'), 'decl__argsort': ('ext_argsort_cx', ['L[Cx]'], 'L[Int]')})),
        ('implied_timescales', dict(lean_name='implied_timescales_n', ret='L[L[Cx]]', not_none=['ntimescales'], param_names=['trajs_nstates', 'lagtimes', 'ntimescales', 'reversible'], params=['Int', 'L[Int]', 'Int', 'Bool'],
            objects={'trajs': {'attrs': {'nstates': 'Int'}}}, facts={'np.issubdtype(lagtimes.dtype, np.integer)': True},
            locals={'impl_timescales': 'L[L[Cx]]'}, real_arrays=['impl_timescales'],
            externals={'trajs.estimate_markov_model': ('ext_estimate', ['Int'], 'T[L[L[Rat]],L[Int]]', ['lagtime']), 'decl__log': ('ext_log', ['L[Cx]'], 'L[Cx]'),
                       'decl__eig': ('ext_eig', ['L[L[Rat]]'], 'T[L[Cx],L[L[Cx]]]'), 'decl__argsort': ('ext_argsort_cx', ['L[Cx]'], 'L[Int]')})),
    ]),
    ('utils/_utils.py', 'UtilsSwap', None, [
        ('_asindex', dict(params=['L[Int]'], ret='L[Int]', param_names=['idx'])),
        # the assignment through the transposed VIEW is written with an explicit transposed copy (values are immutable in the translation)
        ('swapcols', dict(params=['L[L[Int]]', 'L[Int]', 'L[Int]'], ret='L[L[Int]]', param_names=['array', 'indicesold', 'indicesnew'],
                          rewrite_stmts={'array_swapped.T[indicesold] = array.T[indicesnew]':
                                         'swapped_t = array_swapped.T\nswapped_t[indicesold] = array.T[indicesnew]\narray_swapped = swapped_t.T'})),
    ]),
    ('io.py', 'IoOpen', None, [
        # `opentxt` for the default one-character comment (the pandas branch); the parser `pd.read_csv(...).values` is an oracle of (file, nrows, usecols) — file name and
        # `nrows` are opaque tokens —; the function has two result types (1-d for a single column, 2-d otherwise) and two forms of `usecols` (None / a list): four
        # specialisations, the data-dependent one guarded by an explicit check (`assume`)
        ('opentxt', dict(lean_name='opentxt_cols_1d', ret='L[Int]', param_names=['file_name', 'nrows', 'usecols'], params=['Int', 'Int', 'L[Int]'],
            consts={'comment': '#'}, facts={'len(comment) == 1': True, 'isinstance(comment, str)': True, 'cols is not None': True},
            assume={'array.shape[-1] == 1': True}, rewrite_stmts={"cols = kwargs.pop('usecols', None)": 'cols = usecols', "array = pd.read_csv(file_name, sep='\\\\s+', header=None, comment=comment, nrows=nrows, usecols=cols, **kwargs).values": 'array = ext_read_csv(file_name, nrows, cols)'},
            xcalls={'utils.swapcols': ('UtilsSwap', 'swapcols')}, externals={'ext_read_csv': ('ext_read_csv', ['Int', 'Int', 'L[Int]'], 'L[L[Int]]'), 'np.argsort': ('ext_argsort_int', ['L[Int]'], 'L[Int]')})),
        ('opentxt', dict(lean_name='opentxt_cols_2d', ret='L[L[Int]]', param_names=['file_name', 'nrows', 'usecols'], params=['Int', 'Int', 'L[Int]'],
            consts={'comment': '#'}, facts={'len(comment) == 1': True, 'isinstance(comment, str)': True, 'cols is not None': True},
            assume={'array.shape[-1] == 1': False}, rewrite_stmts={"cols = kwargs.pop('usecols', None)": 'cols = usecols', "array = pd.read_csv(file_name, sep='\\\\s+', header=None, comment=comment, nrows=nrows, usecols=cols, **kwargs).values": 'array = ext_read_csv(file_name, nrows, cols)'},
            xcalls={'utils.swapcols': ('UtilsSwap', 'swapcols')}, externals={'ext_read_csv': ('ext_read_csv', ['Int', 'Int', 'L[Int]'], 'L[L[Int]]'), 'np.argsort': ('ext_argsort_int', ['L[Int]'], 'L[Int]')})),
        ('opentxt', dict(lean_name='opentxt_all_1d', ret='L[Int]', param_names=['file_name', 'nrows'], params=['Int', 'Int'],
            consts={'comment': '#'}, facts={'len(comment) == 1': True, 'isinstance(comment, str)': True, 'cols is not None': False},
            assume={'array.shape[-1] == 1': True}, rewrite_stmts={"cols = kwargs.pop('usecols', None)": 'pass', "array = pd.read_csv(file_name, sep='\\\\s+', header=None, comment=comment, nrows=nrows, usecols=cols, **kwargs).values": 'array = ext_read_csv_all(file_name, nrows)'},
            xcalls={'utils.swapcols': ('UtilsSwap', 'swapcols')}, externals={'ext_read_csv_all': ('ext_read_csv_all', ['Int', 'Int'], 'L[L[Int]]')})),
        ('opentxt', dict(lean_name='opentxt_all_2d', ret='L[L[Int]]', param_names=['file_name', 'nrows'], params=['Int', 'Int'],
            consts={'comment': '#'}, facts={'len(comment) == 1': True, 'isinstance(comment, str)': True, 'cols is not None': False},
            assume={'array.shape[-1] == 1': False}, rewrite_stmts={"cols = kwargs.pop('usecols', None)": 'pass', "array = pd.read_csv(file_name, sep='\\\\s+', header=None, comment=comment, nrows=nrows, usecols=cols, **kwargs).values": 'array = ext_read_csv_all(file_name, nrows)'},
            xcalls={'utils.swapcols': ('UtilsSwap', 'swapcols')}, externals={'ext_read_csv_all': ('ext_read_csv_all', ['Int', 'Int'], 'L[L[Int]]')})),
        ('opentxt_limits', dict(lean_name='opentxt_limits_1d_none', ret='L[L[Int]]', param_names=['file_name', 'dtype'], params=['Int', 'Int'], consts={'limits_file': None},
            rewrite_stmts={'traj = opentxt(file_name, **kwargs)': 'traj = ext_opentxt_data(file_name, dtype)'},
            xcalls={'open_limits': ('IoLimits', 'open_limits_none')},
            externals={'ext_opentxt_data': ('ext_opentxt_data', ['Int', 'Int'], 'L[Int]'), 'decl__opentxt': ('ext_opentxt', ['Int'], 'L[Int]')})),
        ('opentxt_limits', dict(lean_name='opentxt_limits_1d_file', ret='L[L[Int]]', param_names=['file_name', 'limits_file', 'dtype'], params=['Int', 'Int', 'Int'], not_none=['limits_file'],
            rewrite_stmts={'traj = opentxt(file_name, **kwargs)': 'traj = ext_opentxt_data(file_name, dtype)'},
            xcalls={'open_limits': ('IoLimits', 'open_limits_file')},
            externals={'ext_opentxt_data': ('ext_opentxt_data', ['Int', 'Int'], 'L[Int]'), 'decl__opentxt': ('ext_opentxt', ['Int'], 'L[Int]')})),
        ('opentxt_limits', dict(lean_name='opentxt_limits_2d_none', ret='L[L[L[Int]]]', param_names=['file_name', 'dtype'], params=['Int', 'Int'], consts={'limits_file': None},
            rewrite_stmts={'traj = opentxt(file_name, **kwargs)': 'traj = ext_opentxt_data(file_name, dtype)'},
            xcalls={'open_limits': ('IoLimits', 'open_limits_none')},
            externals={'ext_opentxt_data': ('ext_opentxt_data_2d', ['Int', 'Int'], 'L[L[Int]]'), 'decl__opentxt': ('ext_opentxt', ['Int'], 'L[Int]')})),
        ('opentxt_limits', dict(lean_name='opentxt_limits_2d_file', ret='L[L[L[Int]]]', param_names=['file_name', 'limits_file', 'dtype'], params=['Int', 'Int', 'Int'], not_none=['limits_file'],
            rewrite_stmts={'traj = opentxt(file_name, **kwargs)': 'traj = ext_opentxt_data(file_name, dtype)'},
            xcalls={'open_limits': ('IoLimits', 'open_limits_file')},
            externals={'ext_opentxt_data': ('ext_opentxt_data_2d', ['Int', 'Int'], 'L[L[Int]]'), 'decl__opentxt': ('ext_opentxt', ['Int'], 'L[Int]')})),
        ('openmicrostates', dict(lean_name='openmicrostates_default_1d_none', ret='L[L[Int]]', param_names=['file_name'], params=['Int'], consts={'limits_file': None},
            facts={"'dtype' not in kwargs": True}, rewrite_stmts={"kwargs['dtype'] = np.int16": 'dtype = 16', 'traj = opentxt_limits(file_name, limits_file, **kwargs)': 'traj = opentxt_limits(file_name, dtype=dtype)'}, xcalls={'opentxt_limits': ('IoOpen', 'opentxt_limits_1d_none')},
            externals={'decl__data': ('ext_opentxt_data', ['Int', 'Int'], 'L[Int]'), 'decl__opentxt': ('ext_opentxt', ['Int'], 'L[Int]')})),
        ('openmicrostates', dict(lean_name='openmicrostates_default_1d_file', ret='L[L[Int]]', param_names=['file_name', 'limits_file'], params=['Int', 'Int'], not_none=['limits_file'],
            facts={"'dtype' not in kwargs": True}, rewrite_stmts={"kwargs['dtype'] = np.int16": 'dtype = 16', 'traj = opentxt_limits(file_name, limits_file, **kwargs)': 'traj = opentxt_limits(file_name, limits_file=limits_file, dtype=dtype)'}, xcalls={'opentxt_limits': ('IoOpen', 'opentxt_limits_1d_file')},
            externals={'decl__data': ('ext_opentxt_data', ['Int', 'Int'], 'L[Int]'), 'decl__opentxt': ('ext_opentxt', ['Int'], 'L[Int]')})),
        ('openmicrostates', dict(lean_name='openmicrostates_default_2d_none', ret='L[L[L[Int]]]', param_names=['file_name'], params=['Int'], consts={'limits_file': None},
            facts={"'dtype' not in kwargs": True}, rewrite_stmts={"kwargs['dtype'] = np.int16": 'dtype = 16', 'traj = opentxt_limits(file_name, limits_file, **kwargs)': 'traj = opentxt_limits(file_name, dtype=dtype)'}, xcalls={'opentxt_limits': ('IoOpen', 'opentxt_limits_2d_none')},
            externals={'decl__data': ('ext_opentxt_data_2d', ['Int', 'Int'], 'L[L[Int]]'), 'decl__opentxt': ('ext_opentxt', ['Int'], 'L[Int]')})),
        ('openmicrostates', dict(lean_name='openmicrostates_default_2d_file', ret='L[L[L[Int]]]', param_names=['file_name', 'limits_file'], params=['Int', 'Int'], not_none=['limits_file'],
            facts={"'dtype' not in kwargs": True}, rewrite_stmts={"kwargs['dtype'] = np.int16": 'dtype = 16', 'traj = opentxt_limits(file_name, limits_file, **kwargs)': 'traj = opentxt_limits(file_name, limits_file=limits_file, dtype=dtype)'}, xcalls={'opentxt_limits': ('IoOpen', 'opentxt_limits_2d_file')},
            externals={'decl__data': ('ext_opentxt_data_2d', ['Int', 'Int'], 'L[L[Int]]'), 'decl__opentxt': ('ext_opentxt', ['Int'], 'L[Int]')})),
        ('openmicrostates', dict(lean_name='openmicrostates_int_1d_none', ret='L[L[Int]]', param_names=['file_name', 'dtype'], params=['Int', 'Int'], consts={'limits_file': None},
            facts={"'dtype' not in kwargs": False, "np.issubdtype(kwargs['dtype'], np.integer)": True}, rewrite_stmts={"kwargs['dtype'] = np.int16": 'dtype = 16', 'traj = opentxt_limits(file_name, limits_file, **kwargs)': 'traj = opentxt_limits(file_name, dtype=dtype)'}, xcalls={'opentxt_limits': ('IoOpen', 'opentxt_limits_1d_none')},
            externals={'decl__data': ('ext_opentxt_data', ['Int', 'Int'], 'L[Int]'), 'decl__opentxt': ('ext_opentxt', ['Int'], 'L[Int]')})),
        ('openmicrostates', dict(lean_name='openmicrostates_int_1d_file', ret='L[L[Int]]', param_names=['file_name', 'limits_file', 'dtype'], params=['Int', 'Int', 'Int'], not_none=['limits_file'],
            facts={"'dtype' not in kwargs": False, "np.issubdtype(kwargs['dtype'], np.integer)": True}, rewrite_stmts={"kwargs['dtype'] = np.int16": 'dtype = 16', 'traj = opentxt_limits(file_name, limits_file, **kwargs)': 'traj = opentxt_limits(file_name, limits_file=limits_file, dtype=dtype)'}, xcalls={'opentxt_limits': ('IoOpen', 'opentxt_limits_1d_file')},
            externals={'decl__data': ('ext_opentxt_data', ['Int', 'Int'], 'L[Int]'), 'decl__opentxt': ('ext_opentxt', ['Int'], 'L[Int]')})),
        ('openmicrostates', dict(lean_name='openmicrostates_nonint_1d_none', ret='L[L[Int]]', param_names=['file_name', 'dtype'], params=['Int', 'Int'], consts={'limits_file': None},
            facts={"'dtype' not in kwargs": False, "np.issubdtype(kwargs['dtype'], np.integer)": False}, rewrite_stmts={"kwargs['dtype'] = np.int16": 'dtype = 16', 'traj = opentxt_limits(file_name, limits_file, **kwargs)': 'traj = opentxt_limits(file_name, dtype=dtype)'}, xcalls={'opentxt_limits': ('IoOpen', 'opentxt_limits_1d_none')},
            externals={'decl__data': ('ext_opentxt_data', ['Int', 'Int'], 'L[Int]'), 'decl__opentxt': ('ext_opentxt', ['Int'], 'L[Int]')})),
    ]),
    ('msm/timescales.py', 'MsmTimesApi', None, [
        # the public wrappers of `_estimate_times`: which compiled kernel they hand over is visible as the oracle parameter `ext_kernel_wt` / `ext_kernel_tt`
        ('estimate_waiting_times', dict(lean_name='estimate_waiting_times_list', ret='L[Int]', consts={'return_list': True},
            param_names=['trajs_states', 'lagtime', 'start', 'final', 'steps', 'cfg_disable_jit'], params=['L[Int]', 'Int', 'L[Int]', 'L[Int]', 'Int', 'Bool'],
            objects={'trajs': {'attrs': {'states': 'L[Int]'}}}, fn_values={'_estimate_waiting_times': 'ext_kernel_wt'},
            xcalls={'_estimate_times': ('MsmTimes', 'estimate_times_list')},
            externals={'decl__kernel': ('ext_kernel_wt', [py2lean.CUMMAT, 'Int', 'L[Int]', 'L[Int]', 'Int'], 'Dict'), 'decl__choice': ('ext_choice', ['L[Int]'], 'Int'),
                       'decl__cummat': ('ext_get_cummat', ['Int'], py2lean.CUMMAT)})),
        ('estimate_waiting_times', dict(lean_name='estimate_waiting_times_hist', ret='T[L[Rat],L[Int]]', consts={'return_list': False},
            param_names=['trajs_states', 'lagtime', 'start', 'final', 'steps', 'cfg_disable_jit'], params=['L[Int]', 'Int', 'L[Int]', 'L[Int]', 'Int', 'Bool'],
            objects={'trajs': {'attrs': {'states': 'L[Int]'}}}, fn_values={'_estimate_waiting_times': 'ext_kernel_wt'},
            xcalls={'_estimate_times': ('MsmTimes', 'estimate_times_hist')},
            externals={'decl__kernel': ('ext_kernel_wt', [py2lean.CUMMAT, 'Int', 'L[Int]', 'L[Int]', 'Int'], 'Dict'), 'decl__choice': ('ext_choice', ['L[Int]'], 'Int'),
                       'decl__cummat': ('ext_get_cummat', ['Int'], py2lean.CUMMAT)})),
        ('estimate_transition_times', dict(lean_name='estimate_transition_times_list', ret='L[Int]', consts={'return_list': True},
            param_names=['trajs_states', 'lagtime', 'start', 'final', 'steps', 'cfg_disable_jit'], params=['L[Int]', 'Int', 'L[Int]', 'L[Int]', 'Int', 'Bool'],
            objects={'trajs': {'attrs': {'states': 'L[Int]'}}}, fn_values={'_estimate_transition_times': 'ext_kernel_tt'},
            xcalls={'_estimate_times': ('MsmTimes', 'estimate_times_list')},
            externals={'decl__kernel': ('ext_kernel_tt', [py2lean.CUMMAT, 'Int', 'L[Int]', 'L[Int]', 'Int'], 'Dict'), 'decl__choice': ('ext_choice', ['L[Int]'], 'Int'),
                       'decl__cummat': ('ext_get_cummat', ['Int'], py2lean.CUMMAT)})),
        ('estimate_transition_times', dict(lean_name='estimate_transition_times_hist', ret='T[L[Rat],L[Int]]', consts={'return_list': False},
            param_names=['trajs_states', 'lagtime', 'start', 'final', 'steps', 'cfg_disable_jit'], params=['L[Int]', 'Int', 'L[Int]', 'L[Int]', 'Int', 'Bool'],
            objects={'trajs': {'attrs': {'states': 'L[Int]'}}}, fn_values={'_estimate_transition_times': 'ext_kernel_tt'},
            xcalls={'_estimate_times': ('MsmTimes', 'estimate_times_hist')},
            externals={'decl__kernel': ('ext_kernel_tt', [py2lean.CUMMAT, 'Int', 'L[Int]', 'L[Int]', 'Int'], 'Dict'), 'decl__choice': ('ext_choice', ['L[Int]'], 'Int'),
                       'decl__cummat': ('ext_get_cummat', ['Int'], py2lean.CUMMAT)})),
        # the MSM pathway estimate: the validation of start / final, then the md pathway extraction (an oracle here, translated and proved in MdTimesApi) on the chain of `propagate_MCMC`
        ('estimate_paths', dict(ret='L[T[L[Int],L[Int]]]', param_names=['trajs_states', 'lagtime', 'start', 'final', 'steps'], params=['L[Int]', 'Int', 'L[Int]', 'L[Int]', 'Int'],
            objects={'trajs': {'attrs': {'states': 'L[Int]'}}},
            rewrite_stmts={'return md_estimate_paths(propagate_MCMC(trajs, lagtime, steps), start, final)':
                           'chain = propagate_MCMC(trajs, lagtime, steps)\nreturn ext_md_estimate_paths(chain, start, final)'},
            xcalls={'propagate_MCMC': ('MsmMcmcApi', 'propagate_MCMC')},
            externals={'ext_md_estimate_paths': ('ext_md_estimate_paths', ['L[Int]', 'L[Int]', 'L[Int]'], 'L[T[L[Int],L[Int]]]'),
                       'decl__choice': ('ext_choice', ['L[Int]'], 'Int'), 'decl__cummat': ('ext_get_cummat', ['Int'], py2lean.CUMMAT),
                       'decl__propagate': ('ext_propagate', [py2lean.CUMMAT, 'Int', 'Int'], 'L[Int]')})),
    ]),
    ('utils/filtering.py', 'UtilsGauss', None, [
        # `gaussian_filter` for a 1-d, a 2-d and a 3-d float array (the dimension is static in the translation: one form each); the scipy filters are oracles whose
        # NAME records the keyword arguments of the call (`mode='nearest'`, `sigma=(sigma, 0)` = along axis 0 only): another call text is "no longer translated"
        ('gaussian_filter', dict(lean_name='gaussian_filter_1d', ret='L[Rat]', params=['L[Rat]', 'Rat'], param_names=['array', 'sigma'],
            rewrite_stmts={"return _gaussian_filter_1d(array, sigma=sigma, mode='nearest')": 'return ext_gaussian_filter1d_nearest(array, sigma)',
                           "return _gaussian_filter(array, sigma=(sigma, 0), mode='nearest')": 'return ext_gaussian_filter_axis0_nearest(array, sigma)'},
            externals={'ext_gaussian_filter1d_nearest': ('ext_gaussian_filter1d_nearest', ['L[Rat]', 'Rat'], 'L[Rat]'),
                       'ext_gaussian_filter_axis0_nearest': ('ext_gaussian_filter_axis0_nearest', ['L[L[Rat]]', 'Rat'], 'L[L[Rat]]')})),
        ('gaussian_filter', dict(lean_name='gaussian_filter_2d', ret='L[L[Rat]]', params=['L[L[Rat]]', 'Rat'], param_names=['array', 'sigma'],
            rewrite_stmts={"return _gaussian_filter_1d(array, sigma=sigma, mode='nearest')": 'return ext_gaussian_filter1d_nearest(array, sigma)',
                           "return _gaussian_filter(array, sigma=(sigma, 0), mode='nearest')": 'return ext_gaussian_filter_axis0_nearest(array, sigma)'},
            externals={'ext_gaussian_filter1d_nearest': ('ext_gaussian_filter1d_nearest', ['L[Rat]', 'Rat'], 'L[Rat]'),
                       'ext_gaussian_filter_axis0_nearest': ('ext_gaussian_filter_axis0_nearest', ['L[L[Rat]]', 'Rat'], 'L[L[Rat]]')})),
        ('gaussian_filter', dict(lean_name='gaussian_filter_3d', ret='L[L[Rat]]', params=['L[L[L[Rat]]]', 'Rat'], param_names=['array', 'sigma'],
            rewrite_stmts={"return _gaussian_filter_1d(array, sigma=sigma, mode='nearest')": 'return ext_gaussian_filter1d_nearest(array, sigma)',
                           "return _gaussian_filter(array, sigma=(sigma, 0), mode='nearest')": 'return ext_gaussian_filter_axis0_nearest(array, sigma)'},
            externals={'ext_gaussian_filter1d_nearest': ('ext_gaussian_filter1d_nearest', ['L[Rat]', 'Rat'], 'L[Rat]'),
                       'ext_gaussian_filter_axis0_nearest': ('ext_gaussian_filter_axis0_nearest', ['L[L[Rat]]', 'Rat'], 'L[L[Rat]]')})),
    ]),
]

# calls of translated functions of OTHER modules: dotted python name -> (namespace, function)
XREF = {
    'mh.utils.unique': ('UtilsRelabel', 'unique'),
    'is_transition_matrix': ('UtilsTests', 'is_transition_matrix'),
    'row_normalize_matrix': ('MsmNorm', 'row_normalize_matrix'),
    'mh.msm.msm._estimate_markov_model': ('MsmEstimate', 'estimate_markov_model_perm'),
    'utils.tests.is_ergodic': ('UtilsTests', 'is_ergodic'),
    'utils.tests.is_fuzzy_ergodic': ('UtilsTests', 'is_fuzzy_ergodic'),
    'mh.shift_data': ('UtilsRelabel', 'shift_data'),
    'mh.utils.rename_by_index': ('UtilsRelabel', 'rename_by_index'),
    'mh.utils.format_state_traj': None,
    'mh.msm.row_normalize_matrix': ('MsmNorm', 'row_normalize_matrix'),
    'mh.utils.tests.is_ergodic': ('UtilsTests', 'is_ergodic'),
    'tests.is_ergodic': ('UtilsTests', 'is_ergodic'),
    'tests.ergodic_mask': ('UtilsTests', 'ergodic_mask'),
    'tests.is_quadratic': ('UtilsTests', 'is_quadratic'),
}
SCALAR = {
    '_intersect_array': ('MdComparison', 'intersect_array', True, ['L[L[Int]]', 'L[L[Int]]'], 'L[L[Rat]]'),
    '_compare_trajs_symmetric': ('MdComparison', 'compare_trajs_symmetric', False, ['L[Int]', 'L[Int]', 'L[L[Rat]]', 'L[L[Rat]]'], 'Rat'),
    '_compare_trajs_directed': ('MdComparison', 'compare_trajs_directed', False, ['L[Int]', 'L[Int]', 'L[L[Rat]]', 'L[L[Rat]]'], 'Rat'),
    '_estimate_waiting_times': ('MdTimescales', 'estimate_waiting_times', False, ['L[L[Int]]', 'L[Int]', 'L[Int]'], 'L[Int]'),
    '_estimate_paths': ('MdTimescales', 'estimate_paths', False, ['L[L[Int]]', 'L[Int]', 'L[Int]'], py2lean.PATHS),
    '_dynamical_coring': ('MdCorrections', 'dynamical_coring', False, ['L[L[Int]]', 'Int', 'Bool'], 'L[L[Int]]'),
    '_generate_transition_count_matrix': ('MsmMsm', 'generate_transition_count_matrix', False, ['L[L[Int]]', 'Int', 'Int'], 'L[L[Int]]'),
}
REGISTRY = {}      # (ns, name) -> NpFn, filled while translating (modules are translated in table order)


def parse_type(s):
    s = s.strip()
    if s.startswith('Col[') and s.endswith(']'):
        return ('Col', parse_type(s[4:-1]))
    return _parse_type(s)


def lean_type(t):
    if isinstance(t, tuple) and t[0] == 'Col':
        return 'List %s' % lean_atom(t[1])
    if isinstance(t, tuple) and t[0] == 'L':
        return 'List %s' % lean_atom(t[1])
    if isinstance(t, tuple) and t[0] == 'T':
        return ' × '.join(lean_atom(x) for x in t[1:])
    return py2lean.lean_type(t)


def lean_atom(t):
    s = lean_type(t)
    return s if ' ' not in s else '(%s)' % s


def is_vec(t):
    return isinstance(t, tuple) and t[0] == 'L' and t[1] in SCAL


def is_col(t):
    return isinstance(t, tuple) and t[0] == 'Col' and t[1] in SCAL


def is_mat(t):
    return isinstance(t, tuple) and t[0] == 'L' and is_vec(t[1])


def elem(t):
    if t in SCAL:
        return t
    if is_vec(t) or is_col(t):
        return t[1]
    if is_mat(t):
        return t[1][1]
    raise Unsupported('no element type for %s' % (t,))


def with_elem(t, e):
    if t in SCAL:
        return e
    if is_vec(t):
        return ('L', e)
    if is_col(t):
        return ('Col', e)
    if is_mat(t):
        return ('L', ('L', e))
    raise Unsupported('shape of %s' % (t,))


def rat_lit(x):
    f = Fraction(x)
    if f.denominator == 1:
        return '(%d : Rat)' % f.numerator
    return '((%d : Rat) / (%d : Rat))' % (f.numerator, f.denominator)


def _dotted(n):
    parts = []
    while isinstance(n, ast.Attribute):
        parts.append(n.attr)
        n = n.value
    if isinstance(n, ast.Name):
        parts.append(n.id)
        return '.'.join(reversed(parts))
    return None


class _Prep(ast.NodeTransformer):
    """source-level preparation driven by the signature table (every step is a literal, local rewrite):
    objects  {'trajs': {'attrs': {...}, 'iter': type?}} : `trajs = StateTraj(trajs)` is dropped, `trajs.<attr>` → `trajs_<attr>`,
             a bare `trajs` (iteration over the object) → `trajs_iter`;
    consts   {'return_list': True}  : the parameter is replaced by the constant and `if <constant>` is resolved;
    flags    {'numba.config.DISABLE_JIT': 'cfg_disable_jit'} : a module-level configuration flag becomes a Bool parameter."""

    def __init__(self, sig):
        self.assume = sig.get('assume', {})                # source text of an `if` test -> the value this specialisation is FOR; a guard raising on the other value is emitted
        self.facts = sig.get('facts', {})                  # source text of an expression -> constant (type dispatch resolved by the signature table)
        self.self_locals = set(sig.get('self_locals', []))  # self.<x> assigned by the method: a local variable self_<x>
        self.self_props_raw = sig.get('self_props', {})
        self.self_props = {k: ast.parse(v, mode='eval').body for k, v in sig.get('self_props', {}).items() if k != 'len_self'}
        self.super_init = sig.get('super_init')            # `super().__init__(x)` sets these attributes (result of the translated base constructor)
        self.selfcalls = set(sig.get('selfcalls', []))       # self.<prop> evaluated by calling the translated property of the same class
        self.kwargs_consts = sig.get('kwargs_consts')      # `**kwargs` at a call site replaced by these keyword constants
        self.rewrite = sig.get('rewrite_stmts', {})          # source text of a statement -> replacement statement (e.g. an expression turned into an oracle call)
        self.drop = set(sig.get('drop_stmts', []))           # source text of statements that are dropped (e.g. the dtype bookkeeping)
        self.not_none = set(sig.get('not_none', []))
        self.objects = sig.get('objects', {})
        self.consts = sig.get('consts', {})
        self.flags = sig.get('flags', {})

    def visit(self, node):
        if isinstance(node, ast.expr) and self.facts:
            try:
                txt = ast.unparse(node)
            except Exception:  # noqa
                txt = None
            if txt in self.facts:
                return ast.copy_location(ast.Constant(value=self.facts[txt]), node)
        if isinstance(node, ast.stmt) and (self.drop or self.rewrite):
            try:
                txt = ast.unparse(node)
            except Exception:  # noqa
                txt = None
            if txt in self.drop:
                return None
            if txt in self.rewrite:
                new = ast.parse(self.rewrite[txt]).body
                return [super(_Prep, self).visit(n) for n in new]
        return super().visit(node)

    def visit_Assign(self, node):
        if len(node.targets) == 1 and isinstance(node.targets[0], ast.Name) and node.targets[0].id in self.objects \
                and isinstance(node.value, ast.Call) and _dotted(node.value.func) in ('StateTraj', 'LumpedStateTraj', 'mh.StateTraj') \
                and len(node.value.args) == 1 and isinstance(node.value.args[0], ast.Name) and node.value.args[0].id == node.targets[0].id:
            return None          # `trajs = StateTraj(trajs)` : the object is given by its attributes
        if len(node.targets) == 1 and isinstance(node.targets[0], ast.Tuple) and isinstance(node.value, ast.Tuple) \
                and len(node.targets[0].elts) == len(node.value.elts) and all(
                    isinstance(t_, ast.Name) and t_.id in self.objects and isinstance(v_, ast.Call) and _dotted(v_.func) in ('StateTraj', 'mh.StateTraj')
                    and len(v_.args) == 1 and isinstance(v_.args[0], ast.Name) and v_.args[0].id == t_.id
                    for t_, v_ in zip(node.targets[0].elts, node.value.elts)):
            return None          # `a, b = StateTraj(a), StateTraj(b)`
        return self.generic_visit(node)

    def visit_Attribute(self, node):
        d = _dotted(node)
        if isinstance(node.value, ast.Name) and node.value.id == 'self':
            if node.attr in self.selfcalls and isinstance(node.ctx, ast.Load):
                return ast.copy_location(ast.Call(func=ast.Name(id='selfcall__' + node.attr, ctx=ast.Load()), args=[], keywords=[]), node)
            if node.attr in self.self_props and isinstance(node.ctx, ast.Load):
                import copy
                return self.visit(copy.deepcopy(self.self_props[node.attr]))
            if node.attr in self.self_locals:
                return ast.copy_location(ast.Name(id='self_' + node.attr.lstrip('_'), ctx=node.ctx), node)
        if d in self.flags:
            return ast.copy_location(ast.Name(id=self.flags[d], ctx=ast.Load()), node)
        if isinstance(node.value, ast.Name) and node.value.id in self.objects and node.attr in self.objects[node.value.id].get('attrs', {}):
            return ast.copy_location(ast.Name(id='%s_%s' % (node.value.id, node.attr.lstrip('_')), ctx=ast.Load()), node)
        return self.generic_visit(node)

    def visit_Compare(self, node):
        node = self.generic_visit(node)
        if len(node.ops) == 1 and isinstance(node.ops[0], (ast.Is, ast.IsNot)) and isinstance(node.comparators[0], ast.Constant) \
                and node.comparators[0].value is None:
            v = None
            if isinstance(node.left, ast.Constant):
                v = node.left.value is None
            elif isinstance(node.left, ast.Name) and node.left.id in self.not_none:
                v = False
            if v is not None:
                return ast.copy_location(ast.Constant(value=v if isinstance(node.ops[0], ast.Is) else not v), node)
        if len(node.ops) == 1 and isinstance(node.left, ast.Constant):
            r = node.comparators[0]
            o = node.ops[0]
            if isinstance(r, ast.Constant) and isinstance(o, (ast.Eq, ast.NotEq)):
                v = (node.left.value == r.value)
                return ast.copy_location(ast.Constant(value=v if isinstance(o, ast.Eq) else not v), node)
            if isinstance(r, (ast.Set, ast.Tuple, ast.List)) and all(isinstance(x, ast.Constant) for x in r.elts) and isinstance(o, (ast.In, ast.NotIn)):
                v = node.left.value in [x.value for x in r.elts]
                return ast.copy_location(ast.Constant(value=v if isinstance(o, ast.In) else not v), node)
        return node

    def visit_Call(self, node):
        d = _dotted(node.func)
        if d == 'len' and len(node.args) == 1 and isinstance(node.args[0], ast.Name) and node.args[0].id == 'self' and 'len_self' in self.self_props_raw:
            return self.visit(ast.parse(self.self_props_raw['len_self'], mode='eval').body)
        if isinstance(node.func, ast.Attribute) and isinstance(node.func.value, ast.Name) and node.func.value.id == 'self' \
                and node.func.attr in self.selfcalls:
            return ast.copy_location(ast.Call(func=ast.Name(id='selfcall__' + node.func.attr, ctx=ast.Load()),
                                              args=[self.visit(a_) for a_ in node.args], keywords=[]), node)
        if self.kwargs_consts is not None and any(k.arg is None for k in node.keywords):
            node.keywords = [k for k in node.keywords if k.arg is not None] + \
                [ast.keyword(arg=kk, value=ast.Constant(value=vv)) for kk, vv in self.kwargs_consts.items()]
        if d == 'isinstance' and len(node.args) == 2 and isinstance(node.args[0], ast.Name) and node.args[0].id in self.objects:
            flag = self.objects[node.args[0].id].get('isinstance', {}).get(_dotted(node.args[1]))
            if flag:
                return ast.copy_location(ast.Name(id=flag, ctx=ast.Load()), node)
        if d in ('StateTraj', 'mh.StateTraj') and len(node.args) == 1 and self.objects and \
                not (isinstance(node.args[0], ast.Name) and node.args[0].id in self.objects):
            return self.visit(node.args[0])          # a new object made from a list of label trajectories is represented by that list
        # keep `obj.method(...)` intact (resolved by the expression compiler), rewrite only the arguments
        if isinstance(node.func, ast.Attribute) and isinstance(node.func.value, ast.Name) and node.func.value.id in self.objects \
                and node.func.attr not in self.objects[node.func.value.id].get('attrs', {}):
            node.args = [self.visit(a) for a in node.args]
            for k in node.keywords:
                k.value = self.visit(k.value)
            return node
        return self.generic_visit(node)

    def visit_Name(self, node):
        if isinstance(node.ctx, ast.Load):
            if node.id in self.consts:
                return ast.copy_location(ast.Constant(value=self.consts[node.id]), node)
            if node.id in self.objects and 'iter' in self.objects[node.id]:
                return ast.copy_location(ast.Name(id=node.id + '_iter', ctx=ast.Load()), node)
        return node

    def visit_If(self, node):
        try:
            txt = ast.unparse(node.test)
        except Exception:  # noqa
            txt = None
        if txt in self.assume:
            # data-dependent branch with two result types: this specialisation covers one value of the test; the other value is an explicit error
            val = self.assume[txt]
            bad = ast.UnaryOp(op=ast.Not(), operand=node.test) if val else node.test
            guard = ast.If(test=bad, body=[ast.Raise(exc=ast.Call(func=ast.Name(id='AssumptionViolated', ctx=ast.Load()), args=[], keywords=[]), cause=None)], orelse=[])
            out = [self.generic_visit(guard)]
            for st in (node.body if val else node.orelse):
                r = self.visit(st)
                out.extend(r if isinstance(r, list) else ([] if r is None else [r]))
            return out
        node = self.generic_visit(node)
        t = node.test
        neg = False
        if isinstance(t, ast.UnaryOp) and isinstance(t.op, ast.Not) and isinstance(t.operand, ast.Constant):
            t, neg = t.operand, True
        if isinstance(t, ast.Constant) and isinstance(t.value, bool):
            return node.body if (t.value != neg) else (node.orelse or None)
        return node

    def visit_Expr(self, node):
        v = node.value
        if isinstance(v, ast.Call) and isinstance(v.func, ast.Attribute) and v.func.attr == '__init__' and isinstance(v.func.value, ast.Call) \
                and _dotted(v.func.value.func) == 'super' and self.super_init:
            tgt = ast.Tuple(elts=[ast.Name(id='self_' + a_.lstrip('_'), ctx=ast.Store()) for a_ in self.super_init], ctx=ast.Store())
            return ast.copy_location(ast.Assign(targets=[tgt], value=ast.Call(func=ast.Name(id='superinit__', ctx=ast.Load()),
                                                                              args=[self.visit(a_) for a_ in v.args], keywords=[])), node)
        return self.generic_visit(node)

    def visit_Raise(self, node):
        return node            # messages (format strings mentioning object attributes) are never evaluated


def prepare(node, sig):
    """returns a FunctionDef whose positional parameters are exactly sig['param_names'] (when given)"""
    if not any(k in sig for k in ('objects', 'consts', 'flags', 'param_names', 'not_none', 'facts', 'assume', 'self_locals', 'self_props', 'kwargs_consts',
                                  'drop_stmts', 'returns_self', 'selfcalls', 'super_init', 'rewrite_stmts')):
        return node
    import copy
    node = copy.deepcopy(node)          # the same source function may be prepared several times (specialisations)
    a = node.args
    prep = _Prep(sig)
    prep.consts = dict(prep.consts)
    sig['_prep'] = prep
    new_body = []
    for st in node.body:
        r = prep.visit(st)
        items = r if isinstance(r, list) else ([] if r is None else [r])
        new_body.extend(items)
        # a parameter fixed to a constant stops being that constant once the code assigns it
        for it in items:
            for n in ast.walk(it):
                if isinstance(n, ast.Name) and isinstance(n.ctx, ast.Store) and n.id in prep.consts:
                    del prep.consts[n.id]
    if sig.get('returns_self'):
        # a constructor: the object state it leaves behind is the function's result
        new_body.append(ast.Return(value=ast.Tuple(elts=[ast.Name(id='self_' + a_.lstrip('_'), ctx=ast.Load()) for a_ in sig['returns_self']], ctx=ast.Load())))
    node.body = new_body
    ast.fix_missing_locations(node)
    # statements after an unconditional return (left over from resolved constants) are dropped
    body = []
    for st in node.body:
        if isinstance(st, ast.If) and isinstance(st.test, ast.Constant) and not st.test.value and not st.orelse:
            continue
        body.append(st)
        if isinstance(st, (ast.Return, ast.Raise)):
            break
    names = sig.get('param_names')
    if names is not None:
        a = ast.arguments(posonlyargs=[], args=[ast.arg(arg=n) for n in names], vararg=None, kwonlyargs=[], kw_defaults=[], kwarg=None, defaults=[])
    return ast.FunctionDef(name=node.name, args=a, body=body, decorator_list=[], returns=None, type_comment=None,
                           lineno=node.lineno, col_offset=node.col_offset)


class NpFn(Fn):
    dialect = 'np'

    def __init__(self, node, sig, module_fns, src_file, ns='', cls=None):
        self.cls = cls
        self.orig_params = [a.arg for a in node.args.args if a.arg != 'self'] + [a.arg for a in node.args.kwonlyargs]
        self.orig_defaults = {}
        d0 = node.args.defaults
        for a_, dv in zip(node.args.args[len(node.args.args) - len(d0):], d0):
            self.orig_defaults[a_.arg] = dv
        for a_, dv in zip(node.args.kwonlyargs, node.args.kw_defaults):
            if dv is not None:
                self.orig_defaults[a_.arg] = dv
        node = prepare(node, sig)
        self.lean_name = sig.get('lean_name')
        self.xcalls = sig.get('xcalls', {})
        self.scalar_calls = set(sig.get('scalar_calls', []))
        self.fuel_expr = sig.get('fuel', '0')
        self.methods = sig.get('methods', {})       # obj.method → (namespace, function, [object attributes passed as the callee's self attributes])
        self.selfattrs = [(a, parse_type(t)) for a, t in sig.get('selfattrs', [])]
        self.externals = {k: (v[0], [parse_type(p) for p in v[1]], parse_type(v[2])) for k, v in sig.get('externals', {}).items()}
        self.ext_argnames = {k: (v[3] if len(v) > 3 else None) for k, v in sig.get('externals', {}).items()}
        self.ext_drop = {k: (v[4] if len(v) > 4 else []) for k, v in sig.get('externals', {}).items()}
        args = [a.arg for a in node.args.args]
        self.has_self = bool(args and args[0] == 'self')
        if self.has_self:
            node = ast.FunctionDef(name=node.name, args=ast.arguments(posonlyargs=[], args=node.args.args[1:], vararg=node.args.vararg,
                                                                     kwonlyargs=node.args.kwonlyargs, kw_defaults=node.args.kw_defaults,
                                                                     kwarg=node.args.kwarg, defaults=node.args.defaults),
                                   body=node.body, decorator_list=[], returns=None, type_comment=None, lineno=node.lineno,
                                   col_offset=node.col_offset)
        if sig.get('replace_params') is not None or sig.get('skip'):
            body = list(node.body)
            k = 0
            while k < len(body) and isinstance(body[k], ast.Expr) and isinstance(body[k].value, ast.Constant) and isinstance(body[k].value.value, str):
                k += 1
            body = body[:k] + body[k + sig.get('skip', 0):]
            names = sig.get('replace_params')
            a = node.args
            if names is not None:
                a = ast.arguments(posonlyargs=[], args=[ast.arg(arg=n) for n in names], vararg=None, kwonlyargs=[], kw_defaults=[],
                                  kwarg=None, defaults=[])
            node = ast.FunctionDef(name=node.name, args=a, body=body, decorator_list=[], returns=None, type_comment=None,
                                   lineno=node.lineno, col_offset=node.col_offset)
        Fn.__init__(self, node, dict(sig, params=sig['params']), module_fns, src_file, ns)
        self.ptypes = [parse_type(p) for p in sig['params']]
        for pn_, pt_ in sig.get('extra_params', []):
            self.params = self.params + [pn_]
            self.ptypes = self.ptypes + [parse_type(pt_)]
        self.ret = parse_type(sig['ret'])
        self.hints = {k: parse_type(v) for k, v in sig.get('locals', {}).items()}
        self.const_env = {}       # names currently bound to a STATIC integer (`ndim = array.ndim`): tests on them are resolved at translation time
        # defaults of trailing parameters (python source)
        self.defaults = {}
        d = node.args.defaults
        for a, dv in zip(node.args.args[len(node.args.args) - len(d):], d):
            self.defaults[a.arg] = dv
        for k_, dv in self.orig_defaults.items():
            self.defaults.setdefault(k_, dv)
        for n in ast.walk(node):
            if isinstance(n, ast.Name) and n.id in ('x_', 'y_', 'r_'):
                raise Unsupported('%s: variable name %s is reserved by the translator' % (node.name, n.id))
        self.loop_depth, self.inner_decl = 0, []
        self.scope_outer, self.fresh_in_scope = set(), set()
        self.declared_np = {}     # name -> type, variables declared so far (sequential emission)
        self.rename, self.version = {}, {}
        self.depth = 0
        self.used_ext = []
        self.imports = set()

    def lname_def(self):
        return self.lean_name or lean_name(self.name)

    # ----- helpers
    def needs_fuel(self, seen=None):
        return False

    def needs_random(self, seen=None):
        return False

    def const_default(self, node):
        """literal default value of a parameter → (code, type)"""
        if isinstance(node, ast.Constant):
            if isinstance(node.value, bool):
                return ('true' if node.value else 'false'), 'Bool'
            if isinstance(node.value, int):
                return '(%d : Int)' % node.value, 'Int'
            if isinstance(node.value, float):
                return rat_lit(node.value), 'Rat'
        if isinstance(node, ast.UnaryOp) and isinstance(node.op, ast.USub) and isinstance(node.operand, ast.Constant) and isinstance(node.operand.value, int) \
                and not isinstance(node.operand.value, bool):
            return '(-%d : Int)' % node.operand.value, 'Int'
        raise Unsupported('%s: default value %s' % (self.name, ast.dump(node)))

    def coerce(self, code, frm, to):
        """cast code of type frm to type to (Int→Rat element-wise); identity otherwise"""
        if frm == to:
            return code
        if frm == 'Int' and to == 'Rat':
            return '((%s : Int) : Rat)' % code
        if frm == 'Rat' and to == 'Cx':
            return '(cxOfRat %s)' % code
        if frm == 'Int' and to == 'Cx':
            return '(cxOfRat ((%s : Int) : Rat))' % code
        if (is_vec(frm) and is_vec(to)) or (is_col(frm) and is_col(to)):
            if frm[1] == 'Int' and to[1] == 'Rat':
                return '((%s).map (fun (x_ : Int) => (x_ : Rat)))' % code
        if is_mat(frm) and is_mat(to) and elem(frm) == 'Int' and elem(to) == 'Rat':
            return '((%s).map (fun r_ => r_.map (fun (x_ : Int) => (x_ : Rat))))' % code
        if is_col(frm) and is_vec(to) and frm[1] == to[1]:
            return code
        raise Unsupported('%s: cannot use %s where %s is needed (%s)' % (self.name, frm, to, code))

    cast = coerce

    def truth(self, code, t):
        """numpy truthiness: numeric arrays / scalars → Bool"""
        e = elem(t)
        if e == 'Bool':
            return code, t
        fn = '(fun x_ => x_ != 0)'
        if t in SCAL:
            return '(%s != 0)' % code, 'Bool'
        if is_vec(t) or is_col(t):
            return '((%s).map %s)' % (code, fn), with_elem(t, 'Bool')
        return '((%s).map (fun r_ => r_.map %s))' % (code, fn), with_elem(t, 'Bool')

    def elementwise(self, pre, a, ta, b, tb, fn_xy, te, dry):
        """code of the element-wise combination `fn_xy` (a Lean term over the placeholders §x §y) of a : ta and b : tb
        with numpy broadcasting; te is the element type of the result"""
        def inst(x, y):
            return fn_xy.replace('§x', x).replace('§y', y)
        lam = '(fun x_ y_ => %s)' % inst('x_', 'y_')

        def eff(code, typ):
            t = self.fresh() if not dry else 't'
            pre.append('let %s ← %s' % (t, code))
            return t, typ

        if ta in SCAL and tb in SCAL:
            return '(%s)' % inst(a, b), te
        if ta in SCAL:
            if is_vec(tb) or is_col(tb):
                return '((%s).map (fun y_ => %s))' % (b, inst(a, 'y_')), with_elem(tb, te)
            if is_mat(tb):
                return '((%s).map (fun r_ => r_.map (fun y_ => %s)))' % (b, inst(a, 'y_')), with_elem(tb, te)
        if tb in SCAL:
            if is_vec(ta) or is_col(ta):
                return '((%s).map (fun x_ => %s))' % (a, inst('x_', b)), with_elem(ta, te)
            if is_mat(ta):
                return '((%s).map (fun r_ => r_.map (fun x_ => %s)))' % (a, inst('x_', b)), with_elem(ta, te)
        if is_vec(ta) and is_vec(tb):
            return eff('npBroadcast1 %s %s %s' % (lam, a, b), ('L', te))
        if is_mat(ta) and is_mat(tb):
            return eff('npBroadcast2 %s %s %s' % (lam, a, b), ('L', ('L', te)))
        if is_col(ta) and is_vec(tb):
            return '(npOuter %s %s %s)' % (lam, a, b), ('L', ('L', te))
        if is_vec(ta) and is_col(tb):
            return '(npOuter (fun y_ x_ => %s) %s %s)' % (inst('x_', 'y_'), b, a), ('L', ('L', te))
        if is_mat(ta) and is_col(tb):
            return eff('npMatCol %s %s %s' % (lam, a, b), ('L', ('L', te)))
        raise Unsupported('%s: element-wise operation on %s and %s' % (self.name, ta, tb))

    def arith_lambda(self, op, ea, eb):
        """(lambda body over x y, result element type) for + - * / on element types ea, eb"""
        if ea == 'Bool' or eb == 'Bool':
            raise Unsupported('%s: arithmetic on booleans' % self.name)
        if isinstance(op, ast.Div):
            x = '§x' if ea == 'Rat' else '((§x : Int) : Rat)'
            y = '§y' if eb == 'Rat' else '((§y : Int) : Rat)'
            return '%s / %s' % (x, y), 'Rat'
        sym = {ast.Add: '+', ast.Sub: '-', ast.Mult: '*'}[type(op)]
        if ea == eb:
            return '§x %s §y' % sym, ea
        x = '§x' if ea == 'Rat' else '((§x : Int) : Rat)'
        y = '§y' if eb == 'Rat' else '((§y : Int) : Rat)'
        return '%s %s %s' % (x, sym, y), 'Rat'

    # ----- expressions
    def ex(self, e, dry=False, want=None):
        pre = []

        def sub(x, want=None):
            p, c, t = self.ex(x, dry=dry, want=want)
            pre.extend(p)
            return c, t

        def eff(code, typ):
            t = self.fresh() if not dry else 't'
            pre.append('let %s ← %s' % (t, code))
            return t, typ

        name = self._callname(e) if isinstance(e, ast.Call) else None

        if isinstance(e, ast.Constant) and isinstance(e.value, float):
            return pre, rat_lit(e.value), 'Rat'
        if isinstance(e, ast.Name) and e.id in self.rename:
            return pre, self.rename[e.id], self.env[e.id]
        if isinstance(e, ast.Attribute) and e.attr == 'nan' and isinstance(e.value, ast.Name) and e.value.id == 'np':
            return pre, 'cxNan', 'Cx'
        if isinstance(e, ast.Attribute):
            if isinstance(e.value, ast.Name) and e.value.id == 'self':
                nm = 'self_' + e.attr.lstrip('_')
                if nm not in self.env:
                    raise Unsupported('%s: self.%s is not in the selfattrs table' % (self.name, e.attr))
                return pre, nm, self.env[nm]
            if e.attr == 'T':
                c, t = sub(e.value)
                if not is_mat(t):
                    raise Unsupported('%s: .T of %s' % (self.name, t))
                return pre, '(npTranspose %s)' % c, t
            if e.attr == 'size':
                c, t = sub(e.value)
                if not is_vec(t):
                    raise Unsupported('%s: .size of %s' % (self.name, t))
                return pre, '(pyLen %s)' % c, 'Int'
            if e.attr == 'ndim':
                c, t = sub(e.value)
                depth, tt = 0, t
                while isinstance(tt, tuple) and tt[0] == 'L':
                    depth, tt = depth + 1, tt[1]
                if tt not in SCAL or depth < 1:
                    raise Unsupported('%s: .ndim of %s' % (self.name, t))
                return pre, '(%d : Int)' % depth, 'Int'
            if e.attr == 'shape' and is_vec(self.typeof(e.value)):
                c, t = sub(e.value)
                return pre, '[(pyLen %s)]' % c, ('L', 'Int')
            if e.attr == 'shape':
                c, t = sub(e.value)
                if not is_mat(t):
                    raise Unsupported('%s: .shape of %s' % (self.name, t))
                return pre, '(npShape0 %s, npShape1 %s)' % (c, c), ('T', 'Int', 'Int')
            raise Unsupported('%s: attribute .%s' % (self.name, e.attr))
        if isinstance(e, ast.UnaryOp) and isinstance(e.op, (ast.Invert, ast.Not, ast.USub)):
            c, t = sub(e.operand)
            if isinstance(e.op, ast.Not):
                if t == 'Bool':
                    return pre, '(!%s)' % c, 'Bool'
                if t == 'Int':
                    return pre, '(%s == 0)' % c, 'Bool'
                raise Unsupported('%s: not on %s' % (self.name, t))
            if isinstance(e.op, ast.USub):
                if t in ('Int', 'Rat'):
                    return pre, '(-%s)' % c, t
                if is_vec(t) or is_col(t):
                    return pre, '((%s).map (fun x_ => -x_))' % c, t
                if is_mat(t):
                    return pre, '((%s).map (fun r_ => r_.map (fun x_ => -x_)))' % c, t
                raise Unsupported('neg')
            if elem(t) != 'Bool':
                raise Unsupported('%s: ~ on non-boolean %s' % (self.name, t))
            if t == 'Bool':
                return pre, '(!%s)' % c, 'Bool'
            if is_mat(t):
                return pre, '((%s).map (fun r_ => r_.map (fun x_ => !x_)))' % c, t
            return pre, '((%s).map (fun x_ => !x_))' % c, t
        if isinstance(e, ast.BinOp):
            if isinstance(e.op, ast.Pow):
                a, ta = sub(e.left)
                if ta != 'Int' or not (isinstance(e.right, ast.Constant) and isinstance(e.right.value, int) and e.right.value >= 0):
                    raise Unsupported('%s: power form' % self.name)
                return pre, '(%s ^ %d)' % (a, e.right.value), 'Int'
            if isinstance(e.op, ast.MatMult):
                a, ta = sub(e.left)
                b, tb = sub(e.right)
                if not (is_mat(ta) and is_mat(tb)):
                    raise Unsupported('%s: @ on %s, %s' % (self.name, ta, tb))
                R = ('L', ('L', 'Rat'))
                c, t = eff('npMatMul %s %s' % (self.coerce(a, ta, R), self.coerce(b, tb, R)), R)
                return pre, c, t
            if isinstance(e.op, (ast.Add, ast.Sub, ast.Mult, ast.Div)):
                a, ta = sub(e.left)
                b, tb = sub(e.right)
                if ta in ('Int', 'Rat') and tb in ('Int', 'Rat'):
                    if isinstance(e.op, ast.Div):
                        c, t = eff('pyTrueDiv %s %s' % (self.coerce(a, ta, 'Rat'), self.coerce(b, tb, 'Rat')), 'Rat')
                        return pre, c, t
                    sym = {ast.Add: '+', ast.Sub: '-', ast.Mult: '*'}[type(e.op)]
                    t = 'Rat' if 'Rat' in (ta, tb) else 'Int'
                    return pre, '(%s %s %s)' % (self.coerce(a, ta, t), sym, self.coerce(b, tb, t)), t
                if isinstance(ta, tuple) and ta[0] == 'L' and not (is_vec(ta) or is_mat(ta)):
                    return Fn.ex(self, e, dry=dry, want=want)
                body, te = self.arith_lambda(e.op, elem(ta), elem(tb))
                c, t = self.elementwise(pre, a, ta, b, tb, body, te, dry)
                return pre, c, t
            raise Unsupported('%s: operator %s' % (self.name, type(e.op).__name__))
        if isinstance(e, ast.Compare) and len(e.ops) == 1 and isinstance(e.ops[0], (ast.In, ast.NotIn)) \
                and self.typeof(e.left) == 'Int' and self.typeof(e.comparators[0]) == ('L', 'Int'):
            a, _ = sub(e.left)
            b, _ = sub(e.comparators[0])
            c = '(pyIn %s %s)' % (a, b)
            return pre, c if isinstance(e.ops[0], ast.In) else '(!%s)' % c, 'Bool'
        if isinstance(e, ast.Compare) and len(e.ops) == 1 and not isinstance(e.ops[0], (ast.In, ast.NotIn)):
            a, ta = sub(e.left)
            b, tb = sub(e.comparators[0])
            if ta in SCAL and tb in SCAL:
                if ta == tb or {ta, tb} == {'Int', 'Rat'} or 'Cx' in (ta, tb):
                    pass
                else:
                    raise Unsupported('%s: comparing %s with %s' % (self.name, ta, tb))
            ea, eb = elem(ta), elem(tb)
            o = e.ops[0]
            if 'Cx' in (ea, eb):
                # complex (or NaN-carrying) elements: numpy's lexicographic ordering, false for NaN
                fn = {ast.Lt: 'cxLt', ast.LtE: 'cxLe', ast.Gt: 'cxGt', ast.GtE: 'cxGe'}.get(type(o))
                if fn is None or 'Bool' in (ea, eb):
                    raise Unsupported('%s: comparison of complex values' % self.name)
                cx = lambda v, t_: v if t_ == 'Cx' else ('(cxOfRat %s)' % v if t_ == 'Rat' else '(cxOfRat ((%s : Int) : Rat))' % v)
                body = '%s %s %s' % (fn, cx('§x', ea), cx('§y', eb))
                c, t = self.elementwise(pre, a, ta, b, tb, body, 'Bool', dry)
                return pre, c, t
            x = '§x' if (ea == eb or ea == 'Rat') else '((§x : Int) : Rat)'
            y = '§y' if (ea == eb or eb == 'Rat') else '((§y : Int) : Rat)'
            sym = {ast.Lt: '<', ast.LtE: '≤', ast.Gt: '>', ast.GtE: '≥'}.get(type(o))
            if sym is None and not isinstance(o, (ast.Eq, ast.NotEq)):
                raise Unsupported('%s: comparison operator' % self.name)
            if sym is not None and 'Bool' in (ea, eb):
                raise Unsupported('ordering on Bool')
            if ta in SCAL and tb in SCAL:
                if ea != eb:
                    a, b = self.coerce(a, ta, 'Rat'), self.coerce(b, tb, 'Rat')
                if isinstance(o, ast.Eq):
                    return pre, '(%s == %s)' % (a, b), 'Bool'
                if isinstance(o, ast.NotEq):
                    return pre, '(%s != %s)' % (a, b), 'Bool'
                return pre, '(decide (%s %s %s))' % (a, sym, b), 'Bool'
            if isinstance(o, ast.Eq):
                body = '%s == %s' % (x, y)
            elif isinstance(o, ast.NotEq):
                body = '%s != %s' % (x, y)
            else:
                body = 'decide (%s %s %s)' % (x, sym, y)
            c, t = self.elementwise(pre, a, ta, b, tb, body, 'Bool', dry)
            return pre, c, t
        if isinstance(e, ast.Subscript):
            sl = e.slice
            # np.where(b)[0]
            if isinstance(sl, ast.Constant) and sl.value == 0 and isinstance(e.value, ast.Call) and self._callname(e.value) == 'np.where' \
                    and len(e.value.args) == 1:
                c, t = sub(e.value.args[0])
                if t != ('L', 'Bool'):
                    raise Unsupported('%s: np.where of %s' % (self.name, t))
                return pre, '(npWhere1 %s)' % c, ('L', 'Int')
            # x.shape[k]  (k a literal, possibly negative)
            neg_lit = isinstance(sl, ast.UnaryOp) and isinstance(sl.op, ast.USub) and isinstance(sl.operand, ast.Constant) and isinstance(sl.operand.value, int)
            if (isinstance(sl, ast.Constant) and isinstance(sl.value, int)) or neg_lit:
                tv = self.typeof(e.value)
                if isinstance(tv, tuple) and tv[0] == 'T':
                    v, _ = sub(e.value)
                    n = len(tv) - 1
                    k = sl.value if not neg_lit else n - sl.operand.value
                    if not 0 <= k < n:
                        raise Unsupported('tuple index')
                    proj = v + '.2' * k + ('.1' if k < n - 1 else '')
                    return pre, '(%s)' % proj, tv[1 + k]
            # v[:, np.newaxis] / v[np.newaxis, :] / v[np.newaxis:, ]
            if isinstance(sl, ast.Tuple):
                def full(s):
                    return isinstance(s, ast.Slice) and s.upper is None and s.step is None and \
                        (s.lower is None or self._is_newaxis(s.lower))
                if len(sl.elts) == 2 and full(sl.elts[0]) and self._is_newaxis(sl.elts[1]):
                    v, tv = sub(e.value)
                    if not is_vec(tv):
                        raise Unsupported('%s: [:, newaxis] of %s' % (self.name, tv))
                    return pre, v, ('Col', tv[1])
                if len(sl.elts) == 2 and self._is_newaxis(sl.elts[0]) and full(sl.elts[1]):
                    v, tv = sub(e.value)
                    if not is_vec(tv):
                        raise Unsupported('%s: [newaxis, :] of %s' % (self.name, tv))
                    return pre, v, tv        # a row: broadcasts like the 1-d array itself
                if len(sl.elts) == 1 and full(sl.elts[0]):
                    v, tv = sub(e.value)
                    return pre, v, tv
            if isinstance(sl, ast.Slice) and sl.lower is None and sl.upper is None and isinstance(sl.step, ast.UnaryOp) \
                    and isinstance(sl.step.op, ast.USub) and isinstance(sl.step.operand, ast.Constant) and sl.step.operand.value == 1:
                v, tv = sub(e.value)
                if not is_vec(tv):
                    raise Unsupported('%s: [::-1] of %s' % (self.name, tv))
                return pre, '(npReverse %s)' % v, tv
            ts = None
            try:
                ts = self.typeof(sl) if not isinstance(sl, (ast.Slice, ast.Tuple)) else None
            except Unsupported:
                ts = None
            if ts == ('L', 'Int'):
                v, tv = sub(e.value)
                m, _ = sub(sl)
                if not (is_vec(tv) or is_mat(tv)):
                    raise Unsupported('%s: fancy read of %s' % (self.name, tv))
                c, t = eff('npTake %s %s' % (v, m), tv)
                return pre, c, t
            if ts == ('L', 'Bool'):
                v, tv = sub(e.value)
                m, _ = sub(sl)
                if not is_vec(tv):
                    raise Unsupported('%s: mask read of %s' % (self.name, tv))
                c, t = eff('npMaskGet %s %s' % (v, m), tv)
                return pre, c, t
            # tmat[np.ix_(a, b)]
            if isinstance(sl, ast.Call) and self._callname(sl) == 'np.ix_' and len(sl.args) == 2:
                v, tv = sub(e.value)
                a, ta = sub(sl.args[0])
                b, tb = sub(sl.args[1])
                if not (is_mat(tv) and ta == ('L', 'Bool') and tb == ('L', 'Bool')):
                    raise Unsupported('%s: np.ix_ form' % self.name)
                c, t = eff('npIx %s %s %s' % (v, a, b), tv)
                return pre, c, t
            return Fn.ex(self, e, dry=dry, want=want)
        if isinstance(e, ast.Call):
            args = e.args
            kw = {k.arg: k.value for k in e.keywords}
            meth = e.func.attr if isinstance(e.func, ast.Attribute) else None
            # obj.method(args) of a state-trajectory object given by its attributes
            if isinstance(e.func, ast.Attribute) and isinstance(e.func.value, ast.Name) and e.func.attr in self.methods \
                    and (e.func.value.id + '_states') in self.env:
                ns2, fn2, attrs = self.methods[e.func.attr]
                callee = REGISTRY.get((ns2, fn2))
                if callee is None:
                    raise Unsupported('%s: method %s is not translated' % (self.name, e.func.attr))
                cs = ['%s_%s' % (e.func.value.id, a_.lstrip('_')) for a_ in attrs]
                for x, pt in zip(args, callee.ptypes):
                    c, t = sub(x, want=pt)
                    cs.append(self.coerce(c, t, pt))
                c, t = eff('MsmVerif.Gen.%s.%s %s' % (callee.ns, callee.lname_def(), ' '.join(cs)), callee.ret)
                return pre, c, t
            if name in self.scalar_calls:
                ns2, fn2, fuel, pts, rt = SCALAR[name]
                cs = []
                for x, pt in zip(args, pts):
                    c, t = sub(x, want=parse_type(pt))
                    cs.append(self.coerce(c, t, parse_type(pt)))
                if len(cs) != len(pts) or kw:
                    raise Unsupported('%s: call of kernel %s' % (self.name, name))
                fl = (' (%s)' % self.fuel_expr) if fuel else ''
                c, t = eff('MsmVerif.Gen.%s.%s%s %s' % (ns2, fn2, fl, ' '.join(cs)), parse_type(rt))
                return pre, c, t
            if name == 'defaultdict' and len(args) == 1 and isinstance(args[0], ast.Name) and args[0].id == 'list':
                return pre, '([] : List (List Int × List Int))', ('L', ('T', ('L', 'Int'), ('L', 'Int')))
            if name == 'intersect' and len(args) == 2:
                # `from msmhelper.md.comparison import _intersect as intersect` : the translated kernel (scalar dialect, fuel-bounded while loop)
                a, ta = sub(args[0])
                b, tb = sub(args[1])
                if ta != ('L', 'Int') or tb != ('L', 'Int'):
                    raise Unsupported('%s: intersect of %s, %s' % (self.name, ta, tb))
                self.imports.add('MdComparison')
                c, t = eff('MsmVerif.Gen.MdComparison.intersect ((%s).length + (%s).length + 1) %s %s' % (a, b, a, b), 'Int')
                return pre, c, t
            if name == 'np.unique' and len(args) == 1 and list(kw) == ['return_counts'] and isinstance(kw['return_counts'], ast.Constant) \
                    and kw['return_counts'].value is True:
                c, t = sub(args[0])
                if t != ('L', 'Int'):
                    raise Unsupported('%s: np.unique of %s' % (self.name, t))
                return pre, '(npUnique %s, npUniqueCounts %s)' % (c, c), ('T', ('L', 'Int'), ('L', 'Int'))
            if name == '_flatten_data' and len(args) == 1 and self.typeof(args[0]) == ('L', 'Int'):
                c, t = sub(args[0])
                return pre, '(%s, [(pyLen %s)])' % (c, c), ('T', ('L', 'Int'), ('L', 'Int'))          # 1-d ndarray: kwargs['data_shape'] = (n,)
            if name == '_unflatten_data' and len(args) == 2 and self.sig.get('form') == '1d':
                c, t = sub(args[0])
                kwc, kwt = sub(args[1])
                c2, t2 = eff('npReshape1 %s %s' % (c, kwc), ('L', 'Int'))
                return pre, c2, t2
            if name == '_flatten_data' and len(args) == 1:
                c, t = sub(args[0])
                if t != ('L', ('L', 'Int')):
                    raise Unsupported('%s: _flatten_data of %s' % (self.name, t))
                return pre, '(npFlattenLL %s)' % c, ('T', ('L', 'Int'), ('L', 'Int'))
            if name == '_unflatten_data' and len(args) == 2:
                c, t = sub(args[0])
                kwc, kwt = sub(args[1])
                if t != ('L', 'Int') or kwt != ('L', 'Int'):
                    raise Unsupported('%s: _unflatten_data form' % self.name)
                return pre, '(npUnflattenLL %s %s)' % (c, kwc), ('L', ('L', 'Int'))
            if name == 'np.min' and len(args) == 1:
                if isinstance(args[0], ast.List) and len(args[0].elts) == 2:
                    a, ta = sub(args[0].elts[0])
                    b, tb = sub(args[0].elts[1])
                    if ta != 'Int' or tb != 'Int':
                        raise Unsupported('%s: np.min of a pair of %s, %s' % (self.name, ta, tb))
                    return pre, '(min %s %s)' % (a, b), 'Int'
                c, t = sub(args[0])
                if t != ('L', 'Int'):
                    raise Unsupported('%s: np.min of %s' % (self.name, t))
                c, t = eff('npMinInt %s' % c, 'Int')
                return pre, c, t
            if meth == 'max' and not args and self.typeof(e.func.value) == ('L', 'Int'):
                c, t = sub(e.func.value)
                c, t = eff('npMaxInt %s' % c, 'Int')
                return pre, c, t
            if meth == 'astype' and len(args) == 1:
                c, t = sub(e.func.value)
                d = _dotted(args[0]) if not isinstance(args[0], ast.Constant) else args[0].value
                if elem(t) != 'Int':
                    raise Unsupported('%s: astype on %s' % (self.name, t))
                if d == 'np.int32':
                    if not is_vec(t):
                        raise Unsupported('%s: astype(int32) of %s' % (self.name, t))
                    return pre, '((%s).map npWrap32)' % c, t
                if d in ('np.int64', 'int64', 'dtype'):
                    return pre, c, t            # int64 / the common input dtype: wrap-around there is outside the model (unbounded Int)
                raise Unsupported('%s: astype(%s)' % (self.name, d))
            if name == 'np.array_equal' and len(args) == 2:
                a, ta = sub(args[0])
                b, tb = sub(args[1])
                if ta != tb or not is_vec(ta):
                    raise Unsupported('%s: array_equal of %s, %s' % (self.name, ta, tb))
                return pre, '(%s == %s)' % (a, b), 'Bool'
            if name == 'np.unique' and len(args) == 1 and not kw:
                c, t = sub(args[0])
                if t == 'Int':
                    return pre, '[%s]' % c, ('L', 'Int')
                if t != ('L', 'Int'):
                    raise Unsupported('%s: np.unique of %s' % (self.name, t))
                return pre, '(npUnique %s)' % c, t
            if name == 'np.sort' and len(args) == 1:
                c, t = sub(args[0])
                if t != ('L', 'Int'):
                    raise Unsupported('%s: np.sort of %s' % (self.name, t))
                return pre, '(npSortInt %s)' % c, t
            if name == 'np.repeat' and len(args) == 2:
                a, ta = sub(args[0])
                b, tb = sub(args[1])
                if not is_vec(ta) or tb != ('L', 'Int'):
                    raise Unsupported('%s: np.repeat form' % self.name)
                c, t = eff('npRepeat %s %s' % (a, b), ta)
                return pre, c, t
            if name == 'max' and len(args) == 1 and self.typeof(args[0]) == ('L', 'Int'):
                c, t = sub(args[0])
                c, t = eff('npMaxInt %s' % c, 'Int')
                return pre, c, t
            if meth in ('keys', 'values', 'items') and not args and self.typeof(e.func.value) == 'Dict':
                c, t = sub(e.func.value)
                if meth == 'keys':
                    return pre, '((%s).map (fun p_ => p_.1))' % c, ('L', 'Int')
                if meth == 'values':
                    return pre, '((%s).map (fun p_ => p_.2))' % c, ('L', 'Int')
                return pre, c, ('L', ('T', 'Int', 'Int'))
            if name == 'np.where' and len(args) == 1:
                raise Unsupported('%s: np.where without [0]' % self.name)
            if name == 'np.any' and len(args) == 1:
                c, t = sub(args[0])
                c, t = self.truth(c, t)
                if is_mat(t):
                    return pre, '(npAny2 %s)' % c, 'Bool'
                if is_vec(t):
                    return pre, '((%s).any id)' % c, 'Bool'
                raise Unsupported('%s: np.any of %s' % (self.name, t))
            if name in ('np.empty_like', 'np.zeros_like') and args and is_mat(self.typeof(args[0])):
                c, t = sub(args[0])
                dt = kw.get('dtype')
                dtn = self._callname(ast.Call(func=dt, args=[], keywords=[])) if isinstance(dt, ast.Attribute) else None
                if dt is None:
                    return pre, '(npFullLike2 %s (0 : %s))' % (c, elem(t)), t
                if dtn and 'int' in dtn:
                    return pre, '(npFullLike2 %s (0 : Int))' % c, ('L', ('L', 'Int'))
                if dtn and 'float' in dtn:
                    return pre, '(npFullLike2 %s (0 : Rat))' % c, ('L', ('L', 'Rat'))
                raise Unsupported('%s: empty_like dtype' % self.name)
            if name == 'np.cumsum' and len(args) == 1 and 'axis' in kw and ast.literal_eval(kw['axis']) in (1, -1):
                c, t = sub(args[0])
                if t != ('L', ('L', 'Rat')):
                    raise Unsupported('%s: cumsum(axis=1) of %s' % (self.name, t))
                return pre, '((%s).map npCumsum)' % c, t
            if name == 'np.tile' and len(args) == 2 and isinstance(args[1], ast.Tuple) and len(args[1].elts) == 2 \
                    and isinstance(args[1].elts[1], ast.Constant) and args[1].elts[1].value == 1:
                c, t = sub(args[0])
                n_, tn = sub(args[1].elts[0])
                if not is_vec(t) or tn != 'Int':
                    raise Unsupported('%s: np.tile form' % self.name)
                return pre, '(List.replicate (%s).toNat %s)' % (n_, c), ('L', t)
            if name == 'np.cumsum' and len(args) == 1:
                c, t = sub(args[0])
                if t == ('L', 'Int'):
                    return pre, '(npCumsumInt %s)' % c, t
                if t != ('L', 'Rat'):
                    raise Unsupported('%s: cumsum of %s' % (self.name, t))
                return pre, '(npCumsum %s)' % c, t
            if name == 'np.count_nonzero' and len(args) == 1:
                c, t = sub(args[0])
                if t != ('L', 'Rat'):
                    raise Unsupported('%s: count_nonzero of %s' % (self.name, t))
                return pre, '(npCountNonzero %s)' % c, 'Int'
            if name == 'np.atleast_2d':
                c, t = sub(args[0])
                if not is_mat(t):
                    raise Unsupported('%s: atleast_2d of %s' % (self.name, t))
                return pre, c, t
            if name == 'np.asarray' or name == 'np.array':
                c, t = sub(args[0], want=want)
                return pre, c, t
            if name == 'np.shape':
                c, t = sub(args[0])
                if not is_mat(t):
                    raise Unsupported('%s: np.shape of %s' % (self.name, t))
                return pre, '(npShape0 %s, npShape1 %s)' % (c, c), ('T', 'Int', 'Int')
            if name in ('np.logical_or', 'np.logical_and'):
                a, ta = sub(args[0])
                b, tb = sub(args[1])
                a, ta = self.truth(a, ta)
                b, tb = self.truth(b, tb)
                body = '§x || §y' if name.endswith('or') else '§x && §y'
                c, t = self.elementwise(pre, a, ta, b, tb, body, 'Bool', dry)
                return pre, c, t
            if name == 'np.abs':
                c, t = sub(args[0])
                if elem(t) != 'Rat':
                    raise Unsupported('%s: np.abs of %s' % (self.name, t))
                if t == 'Rat':
                    return pre, '(npAbs %s)' % c, t
                if is_mat(t):
                    return pre, '((%s).map (fun r_ => r_.map npAbs))' % c, t
                return pre, '((%s).map npAbs)' % c, t
            if name == 'np.sum' or meth == 'sum':
                if name == 'np.sum':
                    target = args[0]
                    axis = kw.get('axis') if 'axis' in kw else (args[1] if len(args) > 1 else None)
                else:
                    target = e.func.value
                    axis = kw.get('axis') if 'axis' in kw else (args[0] if args else None)
                c, t = sub(target)
                ax = None
                if axis is not None:
                    ax = ast.literal_eval(axis)
                if is_mat(t):
                    if ax in (1, -1):
                        if elem(t) == 'Bool':
                            return pre, '(npCountAxis1 %s)' % c, ('L', 'Int')
                        return pre, '(npSumAxis1 %s)' % self.coerce(c, t, ('L', ('L', 'Rat'))), ('L', 'Rat')
                    if ax == 0 and elem(t) in ('Rat', 'Int'):
                        return pre, '(npSumAxis0 %s)' % self.coerce(c, t, ('L', ('L', 'Rat'))), ('L', 'Rat')
                    raise Unsupported('%s: sum over axis %s of %s' % (self.name, ax, t))
                if is_vec(t) and ax is None and t[1] == 'Rat':
                    return pre, '(npSum1 %s)' % c, 'Rat'
                if is_vec(t) and ax is None and t[1] == 'Int':
                    return pre, '(List.sum %s)' % c, 'Int'
                raise Unsupported('%s: sum of %s' % (self.name, t))
            if name == 'np.max':
                c, t = sub(args[0])
                if t != ('L', 'Int'):
                    raise Unsupported('%s: np.max of %s' % (self.name, t))
                c, t = eff('npMaxInt %s' % c, 'Int')
                return pre, c, t
            if meth == 'all' and not args:
                c, t = sub(e.func.value)
                c, t = self.truth(c, t)
                if is_mat(t):
                    return pre, '(npAll2 %s)' % c, 'Bool'
                if is_vec(t):
                    return pre, '(npAll1 %s)' % c, 'Bool'
                raise Unsupported('%s: .all() of %s' % (self.name, t))
            if meth == 'reshape' and len(args) == 2 and isinstance(args[1], ast.Constant) and args[1].value == 1:
                c, t = sub(e.func.value)
                n, tn = sub(args[0])
                if not is_vec(t) or tn != 'Int':
                    raise Unsupported('%s: reshape form' % self.name)
                c, t = eff('npReshapeCol %s %s' % (c, n), ('Col', t[1]))
                return pre, c, t
            if name in ('np.ones_like', 'np.zeros_like'):
                c, t = sub(args[0])
                if not is_vec(t):
                    raise Unsupported('%s: ones_like of %s' % (self.name, t))
                one = '1' if name == 'np.ones_like' else '0'
                return pre, '(npFullLike %s (%s : %s))' % (c, one, t[1]), t
            if name == 'np.diag':
                c, t = sub(args[0])
                if not is_vec(t) or t[1] == 'Bool':
                    raise Unsupported('%s: np.diag of %s' % (self.name, t))
                return pre, '(npDiag (0 : %s) %s)' % (t[1], c), ('L', t)
            if name in ('np.zeros', 'np.empty') and 'dtype' in kw and isinstance(kw['dtype'], ast.Attribute) and kw['dtype'].attr == 'dtype' \
                    and not isinstance(args[0], ast.Tuple):
                _c0, t0 = sub(kw['dtype'].value)
                a, _ = sub(args[0])
                return pre, '(pyFull1 %s (0 : %s))' % (a, elem(t0)), ('L', elem(t0))
            if name in ('np.zeros', 'np.empty') and 'dtype' not in kw:
                shape = args[0]
                if isinstance(shape, ast.Tuple) and len(shape.elts) == 2:
                    a, _ = sub(shape.elts[0])
                    b, _ = sub(shape.elts[1])
                    if want == ('L', ('L', 'Cx')):      # a float array that will hold NaNs
                        c, t = eff('npZeros2 %s %s (cxOfRat 0)' % (a, b), want)
                        return pre, c, t
                    return pre, '(pyFull2 %s %s (0 : Rat))' % (a, b), ('L', ('L', 'Rat'))
                a, _ = sub(shape)
                return pre, '(pyFull1 %s (0 : Rat))' % a, ('L', 'Rat')
            if name in ('np.convolve', '_np.convolve') and len(args) == 2 and isinstance(kw.get('mode'), ast.Constant) and kw['mode'].value == 'same':
                a, ta = sub(args[0])
                b, tb = sub(args[1])
                R = ('L', 'Rat')
                c, t = eff('npConvolveSame %s %s' % (self.coerce(a, ta, R), self.coerce(b, tb, R)), R)
                return pre, c, t
            if name in ('np.ones', '_np.ones') and len(args) == 1 and not kw:
                a, ta = sub(args[0])
                if ta != 'Int':
                    raise Unsupported('%s: np.ones of %s' % (self.name, ta))
                return pre, '(pyFull1 %s (1 : Rat))' % a, ('L', 'Rat')
            if name in ('np.asarray', '_np.asarray') and len(args) == 1:
                c, t = sub(args[0], want=want)
                return pre, c, t
            if name == 'np.arange' and set(kw) <= {'dtype'}:
                if len(args) == 1:
                    a, _ = sub(args[0])
                    return pre, '(npArange 0 %s)' % a, ('L', 'Int')
                if len(args) == 2:
                    a, _ = sub(args[0])
                    b, _ = sub(args[1])
                    return pre, '(npArange %s %s)' % (a, b), ('L', 'Int')
                raise Unsupported('arange with step')
            if (name == 'np.transpose' and len(args) == 1 and not kw) or (meth == 'transpose' and not args and not kw and name not in self.externals):
                c, t = sub(args[0] if args else e.func.value)
                if not is_mat(t):
                    raise Unsupported('%s: transpose of %s' % (self.name, t))
                return pre, '(npTranspose %s)' % c, t
            if name == 'len' and len(args) == 1 and not kw:
                ta_ = None
                try:
                    ta_ = self.typeof(args[0])
                except Unsupported:
                    ta_ = None
                if isinstance(ta_, tuple) and ta_[0] == 'T':
                    return pre, '(%d : Int)' % (len(ta_) - 1), 'Int'       # the length of a shape tuple is static
            if name == 'np.all' and len(args) == 1 and not kw:
                c, t = sub(args[0])
                if t == ('L', 'Bool'):
                    return pre, '(npAll1 %s)' % c, 'Bool'
                if t == ('L', ('L', 'Bool')):
                    return pre, '(npAll2 %s)' % c, 'Bool'
                raise Unsupported('%s: np.all of %s' % (self.name, t))
            if (name == 'np.copy' and len(args) == 1 and not kw) or (meth == 'copy' and not args and not kw and (is_vec(self.typeof(e.func.value)) or is_mat(self.typeof(e.func.value)))):
                c, t = sub(args[0] if args else e.func.value)
                return pre, c, t          # values are immutable
            if meth == 'flatten' and not args and not kw and is_mat(self.typeof(e.func.value)):
                c, t = sub(e.func.value)
                return pre, '((%s).flatten)' % c, t[1]
            if name == 'np.real' and len(args) == 1 and not kw:
                c, t = sub(args[0])
                if elem(t) != 'Cx':
                    raise Unsupported('%s: np.real of %s' % (self.name, t))
                if t == 'Cx':
                    return pre, '(cxReal %s)' % c, t
                if is_mat(t):
                    return pre, '((%s).map (fun r_ => r_.map cxReal))' % c, t
                return pre, '((%s).map cxReal)' % c, t
            if name == 'np.real_if_close' and len(args) == 1 and not kw:
                c, t = sub(args[0])
                if t == ('L', 'Cx'):
                    return pre, '(npRealIfClose1 %s)' % c, t
                if t == ('L', ('L', 'Cx')):
                    return pre, '(npRealIfClose2 %s)' % c, t
                raise Unsupported('%s: np.real_if_close of %s' % (self.name, t))
            if meth == 'filled' and len(args) == 1 and isinstance(e.func.value, ast.Call) and self._callname(e.func.value) == 'np.ma.divide' \
                    and len(e.func.value.args) == 2 and isinstance(args[0], ast.Attribute) and args[0].attr == 'nan':
                # np.ma.divide(a, z).filled(np.nan): masked (→ NaN) where the quotient is not finite or the divisor is zero
                a, ta = sub(e.func.value.args[0])
                z, tz = sub(e.func.value.args[1])
                if ta not in ('Int', 'Rat') or tz != ('L', 'Cx'):
                    raise Unsupported('%s: np.ma.divide of %s by %s' % (self.name, ta, tz))
                return pre, '(npMaDivideFilledNan %s %s)' % (self.coerce(a, ta, 'Rat'), z), tz
            if name == 'np.linalg.inv':
                c, t = sub(args[0])
                R = ('L', ('L', 'Rat'))
                c, t = eff('npInv %s' % self.coerce(c, t, R), R)
                return pre, c, t
            if name == 'np.linalg.multi_dot':
                if not isinstance(args[0], (ast.Tuple, ast.List)) or len(args[0].elts) < 2:
                    raise Unsupported('multi_dot form')
                R = ('L', ('L', 'Rat'))
                cs = []
                for x in args[0].elts:
                    c, t = sub(x)
                    cs.append(self.coerce(c, t, R))
                acc = cs[0]
                for c in cs[1:]:
                    acc, _ = eff('npMatMul %s %s' % (acc, c), R)
                return pre, acc, R
            if name == 'np.split':
                a, ta = sub(args[0])
                b, tb = sub(args[1])
                if not (is_vec(ta) or is_mat(ta)) or tb != ('L', 'Int'):
                    raise Unsupported('%s: np.split form' % self.name)
                return pre, '(npSplit %s %s)' % (a, b), ('L', ta)
            if name == 'np.floor':
                c, t = sub(args[0])
                if t != 'Rat':
                    raise Unsupported('np.floor of %s' % (t,))
                return pre, '((npFloor %s : Int) : Rat)' % c, 'Rat'
            if name == 'int':
                c, t = sub(args[0])
                if t == 'Int':
                    return pre, c, 'Int'
                if t == 'Rat':
                    return pre, '(pyIntTrunc %s)' % c, 'Int'
                raise Unsupported('int() of %s' % (t,))
            if name in ('_utils.matrix_power', 'np.linalg.matrix_power', 'utils.matrix_power'):
                c, t = sub(args[0])
                k, tk = sub(args[1])
                R = ('L', ('L', 'Rat'))
                c, t = eff('npMatrixPower %s %s' % (self.coerce(c, t, R), k), R)
                return pre, c, t
            if name in self.externals:
                en, pts, rt = self.externals[name]
                if en not in self.used_ext:
                    self.used_ext.append(en)
                cs = []
                actual = list(args)
                drop = self.ext_drop.get(name, [])
                kw = {k: v for k, v in kw.items() if k not in drop}
                if kw:
                    names = self.ext_argnames.get(name)
                    names = [n_ for n_ in names if n_ not in drop] if names else names
                    if not names:
                        raise Unsupported('%s: keyword call of external %s' % (self.name, name))
                    for nm in names[len(actual):]:
                        if nm not in kw:
                            raise Unsupported('%s: call of external %s misses %s' % (self.name, name, nm))
                        actual.append(kw[nm])
                    if len(actual) != len(names) or set(kw) - set(names):
                        raise Unsupported('%s: call of external %s' % (self.name, name))
                for x, pt in zip(actual, pts):
                    c, t = sub(x, want=pt)
                    cs.append(self.coerce(c, t, pt))
                if len(cs) != len(pts):
                    raise Unsupported('%s: call of external %s' % (self.name, name))
                c, t = eff('%s %s' % (en, ' '.join(cs)), rt)
                return pre, c, t
            callee = None
            if name == 'rt__pyAssocSet' and len(args) == 3:
                d_, td = sub(args[0])
                k_, tk = sub(args[1])
                v_, tv = sub(args[2])
                if not (isinstance(td, tuple) and td[0] == 'L' and td[1] == ('T', 'Int', tv)) or tk != 'Int':
                    raise Unsupported('%s: association-list assignment of %s into %s' % (self.name, tv, td))
                return pre, '(pyAssocSet %s %s %s)' % (d_, k_, v_), td
            if name == 'np.atleast_1d' and len(args) == 1:
                c, t = sub(args[0])
                if not is_vec(t):
                    raise Unsupported('%s: atleast_1d of %s' % (self.name, t))
                return pre, c, t
            if name == 'superinit__' and len(args) == 1:
                callee = REGISTRY.get(('StateTrajInit', 'init'))
                if callee is None:
                    raise Unsupported('%s: the base constructor is not translated' % self.name)
                c, t = sub(args[0])
                c, t = eff('MsmVerif.Gen.StateTrajInit.init %s' % self.coerce(c, t, callee.ptypes[0]), callee.ret)
                return pre, c, t
            if name == 'mh.utils.find_first' and len(args) == 2:
                a, ta = sub(args[0])
                b, tb = sub(args[1])
                if ta != 'Int' or tb != ('L', 'Int'):
                    raise Unsupported('%s: find_first of %s, %s' % (self.name, ta, tb))
                c, t = eff('MsmVerif.Gen.UtilsUtils.find_first %s %s' % (a, b), 'Int')
                return pre, c, t
            if name and name.startswith('selfcall__'):
                attr_ = name[len('selfcall__'):]
                ns_ = self.sig.get('selfcall_ns', {}).get(attr_, self.ns)
                callee = REGISTRY.get((ns_, attr_)) or REGISTRY.get((ns_, attr_.lstrip('_')))
                if callee is None:
                    raise Unsupported('%s: property %s is not translated' % (self.name, name))
                mine = {a_ for a_, _t in self.selfattrs} | set(self.sig.get('self_locals', []))
                cs = list(callee.ext_params())
                for x_ in callee.ext_params():
                    if x_ not in self.used_ext:
                        self.used_ext.append(x_)
                    if x_ not in [v_[0] for v_ in self.externals.values()]:
                        raise Unsupported('%s: oracle %s of %s is not declared by the caller' % (self.name, x_, attr_))
                for a_, t_ in callee.selfattrs:
                    if a_ in mine:
                        cs.append('self_' + a_.lstrip('_'))
                        continue
                    # the callee reads a PROPERTY of the object: evaluate `self.<a_>` in the caller's terms
                    prep = self.sig.get('_prep')
                    node_ = ast.Attribute(value=ast.Name(id='self', ctx=ast.Load()), attr=a_, ctx=ast.Load())
                    node_ = prep.visit(node_) if prep is not None else node_
                    ast.fix_missing_locations(node_)
                    c, t = sub(node_)
                    cs.append(self.coerce(c, t, t_))
                for x, pt in zip(args, callee.ptypes):
                    c, t = sub(x, want=pt)
                    cs.append(self.coerce(c, t, pt))
                c, t = eff('MsmVerif.Gen.%s.%s %s' % (callee.ns, callee.lname_def(), ' '.join(cs)), callee.ret)
                return pre, c, t
            if name == 'np.diagonal' and len(args) == 1:
                c, t = sub(args[0])
                if not is_mat(t):
                    raise Unsupported('%s: np.diagonal of %s' % (self.name, t))
                return pre, '(npDiagonal %s)' % c, t[1]
            if name in ('np.empty', 'np.zeros') and len(args) == 1 and isinstance(kw.get('dtype'), ast.Name) and kw['dtype'].id == 'bool' \
                    and not isinstance(args[0], ast.Tuple):
                a, _ = sub(args[0])
                return pre, '(pyFull1 %s false)' % a, ('L', 'Bool')
            if name == 'np.concatenate' and len(args) == 1:
                c, t = sub(args[0])
                if not is_mat(t):
                    raise Unsupported('%s: np.concatenate of %s' % (self.name, t))
                return pre, '((%s).flatten)' % c, t[1]
            if name == 'np.sum' and len(args) == 1 and not kw and self.typeof(args[0]) == ('L', 'Int'):
                c, t = sub(args[0])
                return pre, '(List.sum %s)' % c, 'Int'
            if name == 'mh.utils.format_state_traj' and len(args) == 1:
                c, t = sub(args[0])          # the container is already a list of 1-d integer arrays (form fixed by the signature table)
                return pre, c, t
            if name in self.xcalls and tuple(self.xcalls[name]) in REGISTRY:
                callee = REGISTRY[tuple(self.xcalls[name])]
            elif isinstance(e.func, ast.Name) and e.func.id in self.mod:
                callee = self.mod[e.func.id]
            elif isinstance(e.func, ast.Name) and any(n2 == self.ns and f_.name == e.func.id for (n2, _k), f_ in REGISTRY.items()):
                callee = [f_ for (n2, _k), f_ in REGISTRY.items() if n2 == self.ns and f_.name == e.func.id][0]
            elif name in XREF and XREF[name] in REGISTRY:
                callee = REGISTRY[XREF[name]]
            elif name in self.xcalls and tuple(self.xcalls[name]) in REGISTRY:
                callee = REGISTRY[tuple(self.xcalls[name])]
            if callee is not None and getattr(callee, 'dialect', '') == 'np':
                # the callee may exist in several specialisations (constant parameters): take the one whose constants match this call
                variants = [f_ for (n2, _k), f_ in REGISTRY.items() if n2 == callee.ns and f_.name == callee.name]
                by_orig = {}
                for p_, a_ in zip(callee.orig_params, args):
                    by_orig[p_] = a_
                for k_, v_ in kw.items():
                    by_orig[k_] = v_
                if len(variants) > 1:
                    def fits(f_):
                        for cn, cv in f_.sig.get('consts', {}).items():
                            if cn in by_orig and not (isinstance(by_orig[cn], ast.Constant) and by_orig[cn].value == cv):
                                return False
                        return True
                    fitting = [f_ for f_ in variants if fits(f_)]
                    if callee not in fitting and len(fitting) == 1:
                        callee = fitting[0]
                # a function-valued argument (`estimator=_estimate_waiting_times`): the callee's oracle parameter is instantiated with the CALLER's oracle
                # that stands for the named function (table `fn_values` of the caller)
                ext_subst = {}
                for k_ in list(by_orig):
                    fa = callee.sig.get('fn_params', {})
                    if k_ in fa:
                        v_ = by_orig.pop(k_)
                        fv = self.sig.get('fn_values', {})
                        if not (isinstance(v_, ast.Name) and v_.id in fv):
                            raise Unsupported('%s: function-valued argument %s of %s' % (self.name, k_, callee.name))
                        ext_subst[fa[k_]] = fv[v_.id]
                kw = {k_: v_ for k_, v_ in kw.items() if k_ not in callee.sig.get('fn_params', {})}
                actual = {}
                cc = dict(callee.sig.get('consts', {}))
                cc.update(callee.sig.get('kwargs_consts') or {})
                objs = callee.sig.get('objects', {})
                positional = (callee.params == callee.orig_params)
                if positional:
                    for p, a in zip(callee.params, args):
                        actual[p] = a
                    for k, v in kw.items():
                        if k in cc and isinstance(v, ast.Constant) and v.value == cc[k]:
                            continue          # the callee was translated for exactly this value of the keyword
                        if k not in callee.params or k in actual:
                            raise Unsupported('%s: call of %s with keyword %s' % (self.name, callee.name, k))
                        actual[k] = v
                else:
                    # prepared callee: map by the ORIGINAL parameter names; objects are passed attribute by attribute (same-named
                    # variables of the caller), constants must match the specialisation
                    for k, v in by_orig.items():
                        if k in cc:
                            if not (isinstance(v, ast.Constant) and v.value == cc[k]):
                                raise Unsupported('%s: call of %s with %s not equal to the specialisation' % (self.name, callee.name, k))
                            continue
                        if k in objs:
                            if not (isinstance(v, ast.Name) and v.id == k):
                                raise Unsupported('%s: object argument %s of %s must be passed under the same name' % (self.name, k, callee.name))
                            continue
                        if k not in callee.params:
                            raise Unsupported('%s: call of %s with argument %s' % (self.name, callee.name, k))
                        actual[k] = v
                cs = []
                for p, pt in zip(callee.params, callee.ptypes):
                    if p in actual:
                        c, t = sub(actual[p], want=pt)
                        cs.append(self.coerce(c, t, pt))
                    elif p in callee.defaults:
                        c, t = callee.const_default(callee.defaults[p])
                        cs.append(self.coerce(c, t, pt))
                    elif p in self.env and (p.startswith('cfg_') or any(p.startswith(o_ + '_') for o_ in callee.sig.get('objects', {}))):
                        cs.append(self.lname(p))     # configuration flags and object attributes: the caller's variable of the same name
                    else:
                        raise Unsupported('%s: call of %s misses argument %s' % (self.name, callee.name, p))
                head = 'MsmVerif.Gen.%s.%s' % (callee.ns, callee.lname_def())
                ext = ''.join(' ' + ext_subst.get(x, x) for x in callee.ext_params())
                for x in callee.ext_params():
                    x = ext_subst.get(x, x)
                    if x not in self.used_ext:
                        self.used_ext.append(x)
                c, t = eff('%s%s %s' % (head, ext, ' '.join(cs)), callee.ret)
                return pre, c, t
        if isinstance(e, ast.Dict) and e.keys and all(isinstance(k_, ast.Constant) and isinstance(k_.value, str) for k_ in e.keys):
            cs = [sub(v_) for v_ in e.values]
            return pre, '(%s)' % ', '.join(c for c, _ in cs), ('T',) + tuple(t for _, t in cs)
        if isinstance(e, ast.DictComp) and len(e.generators) == 1 and not e.generators[0].ifs:
            g = e.generators[0]
            it, tit = sub(g.iter)
            if not (isinstance(tit, tuple) and tit[0] == 'L'):
                raise Unsupported('dict comprehension over %s' % (tit,))
            saved = dict(self.env)
            pat = self.pattern(g.target, tit[1])
            pk, ck, tk = self.ex(e.key, dry=dry)
            pv, cv, tv = self.ex(e.value, dry=dry)
            self.env = saved
            if tk != 'Int':
                raise Unsupported('%s: dict comprehension key of type %s' % (self.name, tk))
            t = self.fresh() if not dry else 't'
            pre.append('let %s ← (%s).mapM (fun %s => do %s)' % (t, it, pat, '; '.join(pk + pv + ['pure (%s, %s)' % (ck, cv)])))
            return pre, t, ('L', ('T', 'Int', tv))
        if isinstance(e, ast.ListComp) and len(e.generators) == 1 and not e.generators[0].ifs:
            g = e.generators[0]
            it, tit = sub(g.iter)
            if not (isinstance(tit, tuple) and tit[0] == 'L'):
                raise Unsupported('comprehension over %s' % (tit,))
            saved = dict(self.env)
            pat = self.pattern(g.target, tit[1])
            pb, cb, tb = self.ex(e.elt, dry=dry)
            self.env = saved
            if pb:
                t = self.fresh() if not dry else 't'
                pre.append('let %s ← (%s).mapM (fun %s => do %s)' % (t, it, pat, '; '.join(pb + ['pure %s' % cb])))
                return pre, t, ('L', tb)
            return pre, '((%s).map (fun %s => %s))' % (it, pat, cb), ('L', tb)
        return Fn.ex(self, e, dry=dry, want=want)

    @staticmethod
    def _is_newaxis(n):
        return (isinstance(n, ast.Attribute) and n.attr == 'newaxis') or (isinstance(n, ast.Constant) and n.value is None)

    def ext_params(self):
        return [v[0] for v in self.externals.values()]

    # ----- statements (sequential typing: the environment evolves in program order)
    def lname(self, name):
        return self.rename.get(name, name)

    def ensure_local(self, name, ind):
        """inside a merged branch an element assignment to a variable of the enclosing block first copies it under a new name"""
        if name in self.scope_outer and name not in self.fresh_in_scope and name in self.declared_np:
            return self.bind_np(name, self.lname(name), self.declared_np[name], ind)
        return []

    @staticmethod
    def _assigned_in(stmts):
        out = []

        def add(t):
            if isinstance(t, ast.Name):
                if t.id != '_' and t.id not in out:
                    out.append(t.id)
            elif isinstance(t, ast.Tuple):
                for e in t.elts:
                    add(e)
            elif isinstance(t, ast.Subscript):
                add(t.value)
        for st in stmts:
            if isinstance(st, ast.Assign):
                for t in st.targets:
                    add(t)
            elif isinstance(st, ast.AugAssign):
                add(st.target)
        return out

    def phi_if(self, s, ind):
        """`if` whose branches introduce or re-type variables: each branch becomes its own `do` block that returns the
        variables assigned in BOTH branches; they are re-declared after the `if` (a φ-node)"""
        for n in ast.walk(s):
            if isinstance(n, (ast.Return, ast.Break, ast.Continue, ast.For, ast.While)) or (isinstance(n, ast.If) and n is not s):
                raise Unsupported('%s: control flow inside a merged if-branch' % self.name)
        sp = ' ' * ind
        pre, c, t = self.ex(s.test)
        if t == 'Int':
            c, t = '(%s != 0)' % c, 'Bool'
        if t != 'Bool':
            raise Unsupported('%s: condition of type %s' % (self.name, t))
        out = [sp + p for p in pre]
        saved = (dict(self.env), dict(self.declared_np), dict(self.rename), dict(self.version), set(self.scope_outer), set(self.fresh_in_scope), self.depth)
        results = []
        tmp0 = self.tmp
        for branch in (s.body, s.orelse):
            self.env, self.declared_np, self.rename = dict(saved[0]), dict(saved[1]), dict(saved[2])
            self.version = dict(self.version)          # version counters keep growing: names stay unique over both branches
            self.scope_outer, self.fresh_in_scope, self.depth = set(saved[1]), set(), 0
            lines = self.block(branch, ind + 4) if branch else []
            final = {w: (self.lname(w), self.env[w]) for w in self._assigned_in(branch) if w in self.declared_np}
            results.append((lines, final))
        ver = dict(self.version)
        self.env, self.declared_np, self.rename, _v, self.scope_outer, self.fresh_in_scope, self.depth = \
            saved[0], saved[1], saved[2], saved[3], saved[4], saved[5], saved[6]
        self.version = ver
        (l1, f1), (l2, f2) = results
        live = [w for w in f1 if w in f2]
        for w in list(f1) + list(f2):
            if w not in live and w in saved[1]:
                live.append(w)           # assigned in one branch only, but known before: the other branch passes the old value on
        if not live:
            raise Unsupported('%s: merged if without a common variable' % self.name)
        types = []
        for w in live:
            t1 = f1[w][1] if w in f1 else saved[1][w]
            t2 = f2[w][1] if w in f2 else saved[1][w]
            if t1 != t2:
                raise Unsupported('%s: %s has type %s in one branch and %s in the other' % (self.name, w, t1, t2))
            types.append(t1)

        def tup(f):
            names = [(f[w][0] if w in f else saved[2].get(w, w)) for w in live]
            return names[0] if len(names) == 1 else '(%s)' % ', '.join(names)
        tn = self.fresh()
        out.append(sp + 'let %s ← do' % tn)
        out.append(sp + '  if %s then' % c)
        out.extend(l1)
        out.append(sp + '    pure %s' % tup(f1))
        out.append(sp + '  else')
        out.extend(l2)
        out.append(sp + '    pure %s' % tup(f2))
        proj = tn
        for k, (w, ty) in enumerate(zip(live, types)):
            last = (k == len(live) - 1)
            acc = proj if (last or len(live) == 1) else proj + '.1'
            if len(live) == 1:
                acc = tn
            out.extend(self.bind_np(w, acc, ty, ind))
            proj = proj + '.2'
        return out

    def static_test(self, t):
        if isinstance(t, ast.Compare) and len(t.ops) == 1 and isinstance(t.left, ast.Name) and t.left.id in self.const_env \
                and isinstance(t.comparators[0], ast.Constant) and isinstance(t.comparators[0].value, int) and not isinstance(t.comparators[0].value, bool):
            a, b = self.const_env[t.left.id], t.comparators[0].value
            return {ast.Eq: a == b, ast.NotEq: a != b, ast.Lt: a < b, ast.LtE: a <= b, ast.Gt: a > b, ast.GtE: a >= b}.get(type(t.ops[0]))
        return None

    def bind_np(self, name, code, typ, ind):
        self.const_env.pop(name, None)          # any re-binding ends the static knowledge about the name
        sp = ' ' * ind
        old = self.declared_np.get(name)
        outer = name in self.scope_outer and name not in self.fresh_in_scope
        if outer and old is not None:
            # inside a merged branch: a variable of the enclosing block is re-declared under a new Lean name
            self.fresh_in_scope.add(name)
            self.version[name] = self.version.get(name, 1) + 1
            self.rename[name] = '%s_%d' % (name, self.version[name])
            self.declared_np[name] = typ
            self.env[name] = typ
            return [sp + 'let mut %s : %s := %s' % (self.lname(name), lean_type(typ), code)]
        if old is None or (old != typ and self.depth == 0):
            if self.depth != 0 and old is None:
                if not self.loop_depth:
                    raise Unsupported('%s: %s is first assigned inside a branch — add a `locals` hint' % (self.name, name))
                # first assigned inside a loop body: a local of that body (dropped again when the loop ends, so that a later
                # use — legal in Python — is reported as unsupported instead of being mistranslated)
                self.inner_decl[-1].append(name)
            if old is not None:
                # re-bound with another type: Lean's `let mut` cannot be shadowed, so the variable gets a new Lean name
                self.version[name] = self.version.get(name, 1) + 1
                self.rename[name] = '%s_%d' % (name, self.version[name])
            self.declared_np[name] = typ
            self.env[name] = typ
            return [sp + 'let mut %s : %s := %s' % (self.lname(name), lean_type(typ), code)]
        if old != typ:
            code = self.coerce(code, typ, old)
        return [sp + '%s := %s' % (self.lname(name), code)]

    def stmt(self, s, ind):
        sp = ' ' * ind
        out = []

        def emit_pre(pre):
            for p in pre:
                out.append(sp + p)

        if isinstance(s, ast.For) and isinstance(s.iter, ast.Tuple):
            s = ast.For(target=s.target, iter=ast.List(elts=s.iter.elts, ctx=ast.Load()), body=s.body, orelse=s.orelse)
        if isinstance(s, ast.Expr) and isinstance(s.value, ast.Call) and isinstance(s.value.func, ast.Attribute) and s.value.func.attr == 'append' \
                and isinstance(s.value.func.value, ast.Subscript) and isinstance(s.value.func.value.value, ast.Name):
            # `d[tuple(k)].append(v)` on a defaultdict(list): grouping by key, keys in order of first appearance
            dn = s.value.func.value.value.id
            if self.env.get(dn) == ('L', ('T', ('L', 'Int'), ('L', 'Int'))):
                ke = s.value.func.value.slice
                if isinstance(ke, ast.Call) and self._callname(ke) == 'tuple' and len(ke.args) == 1:
                    ke = ke.args[0]
                pk, ck, tk = self.ex(ke)
                pv, cv, tv = self.ex(s.value.args[0])
                if tk != ('L', 'Int') or tv != 'Int':
                    raise Unsupported('%s: grouping key/value of type %s / %s' % (self.name, tk, tv))
                emit_pre(pk); emit_pre(pv)
                out.append(sp + '%s := pyGroupAppend %s %s %s' % (self.lname(dn), self.lname(dn), ck, cv))
                return out
        if isinstance(s, ast.Assign) and len(s.targets) == 1:
            t = s.targets[0]
            if isinstance(t, ast.Name):
                pre, c, ty = self.ex(s.value, want=self.hints.get(t.id) or self.declared_np.get(t.id))
                emit_pre(pre)
                if t.id in self.hints and ty != self.hints[t.id]:
                    c = self.coerce(c, ty, self.hints[t.id])
                    ty = self.hints[t.id]
                out.extend(self.bind_np(t.id, c, ty, ind))
                if isinstance(s.value, ast.Attribute) and s.value.attr == 'ndim' and self.depth == 0 and not self.scope_outer:
                    import re as _re2
                    m_ = _re2.fullmatch(r'\((\d+) : Int\)', c)
                    if m_:
                        self.const_env[t.id] = int(m_.group(1))      # the number of dimensions is fixed by the static type
                return out
            if isinstance(t, ast.Tuple) and all(isinstance(x, ast.Name) for x in t.elts):
                pre, c, ty = self.ex(s.value)
                emit_pre(pre)
                if not (isinstance(ty, tuple) and ty[0] == 'T' and len(ty) - 1 == len(t.elts)):
                    raise Unsupported('%s: unpacking %s' % (self.name, ty))
                tn = self.fresh()
                out.append(sp + 'let %s := %s' % (tn, c))
                proj = tn
                for k, te in enumerate(t.elts):
                    last = (k == len(t.elts) - 1)
                    acc = proj if last else proj + '.1'
                    if te.id != '_':
                        out.extend(self.bind_np(te.id, acc, ty[1 + k], ind))
                    proj = proj + '.2'
                return out
            if isinstance(t, ast.Subscript) and isinstance(t.value, ast.Name):
                ta = self.env.get(t.value.id)
                arr = self.lname(t.value.id)
                sl = t.slice
                # fancy pair assignment  m[(is, js)] = v
                if isinstance(sl, ast.Tuple) and len(sl.elts) == 2 and is_mat(ta) and not any(isinstance(x, ast.Slice) for x in sl.elts):
                    pi, ci, ti = self.ex(sl.elts[0])
                    pj, cj, tj = self.ex(sl.elts[1])
                    if ti == ('L', 'Int') and tj == ('L', 'Int'):
                        emit_pre(pi); emit_pre(pj)
                        pv, cv, tv = self.ex(s.value, want=elem(ta))
                        emit_pre(pv)
                        out.append(sp + '%s ← npSetPairs %s %s %s %s' % (arr, arr, ci, cj, self.coerce(cv, tv, elem(ta))))
                        return out
                if isinstance(sl, ast.Tuple) and len(sl.elts) == 2 and is_mat(ta):
                    i0, i1 = sl.elts
                    full0 = isinstance(i0, ast.Slice) and i0.lower is None and i0.upper is None and i0.step is None
                    if full0 and not isinstance(i1, ast.Slice):
                        pj, cj, tj = self.ex(i1)
                        if tj == 'Int' and is_vec(self.typeof(s.value)):
                            emit_pre(pj)
                            pv, cv, tv = self.ex(s.value)
                            emit_pre(pv)
                            out.append(sp + '%s ← npSetColVec %s %s %s' % (arr, arr, cj, self.coerce(cv, tv, ta[1])))
                            return out
                        if tj == 'Int':
                            emit_pre(pj)
                            pv, cv, tv = self.ex(s.value, want=elem(ta))
                            emit_pre(pv)
                            out.append(sp + '%s ← npSetCol %s %s %s' % (arr, arr, cj, self.coerce(cv, tv, elem(ta))))
                            return out
                    if not isinstance(i0, ast.Slice) and isinstance(i1, ast.Slice) and i1.upper is None and i1.step is None and i1.lower is not None:
                        pi, ci, ti = self.ex(i0)
                        pl, cl, tl = self.ex(i1.lower)
                        if ti == 'Int' and tl == 'Int':
                            emit_pre(pi); emit_pre(pl)
                            pv, cv, tv = self.ex(s.value, want=elem(ta))
                            emit_pre(pv)
                            out.append(sp + '%s ← npSetRowFrom %s %s %s %s' % (arr, arr, ci, cl, self.coerce(cv, tv, elem(ta))))
                            return out
                if not isinstance(sl, (ast.Slice, ast.Tuple)) and is_mat(ta):
                    pi, ci, ti = self.ex(sl)
                    if ti == 'Int':
                        pv, cv, tv = self.ex(s.value)
                        if is_vec(tv):
                            emit_pre(pi); emit_pre(pv)
                            if t.value.id in self.sig.get('real_arrays', []) and tv == ('L', 'Cx'):
                                cv = '((%s).map cxReal)' % cv      # a float array: numpy stores the real part of a complex value
                            out.append(sp + '%s ← npSetRow %s %s %s' % (arr, arr, ci, self.coerce(cv, tv, ta[1])))
                            return out
                if not isinstance(sl, (ast.Slice, ast.Tuple)) and (is_vec(ta) or is_mat(ta)) and self.typeof(sl) == ('L', 'Int'):
                    pm, cm, tm = self.ex(sl)
                    pv, cv, tv = self.ex(s.value)
                    if tv == ta:
                        emit_pre(pm); emit_pre(pv)
                        out.extend(self.ensure_local(t.value.id, ind))
                        arr = self.lname(t.value.id)
                        out.append(sp + '%s ← npAssignAt %s %s %s' % (arr, arr, cm, cv))
                        return out
                if not isinstance(sl, (ast.Slice, ast.Tuple)):
                    pm, cm, tm = self.ex(sl)
                    if tm == ('L', 'Bool') and is_vec(ta):
                        emit_pre(pm)
                        pv, cv, tv = self.ex(s.value, want=elem(ta))
                        emit_pre(pv)
                        out.extend(self.ensure_local(t.value.id, ind))
                        arr = self.lname(t.value.id)
                        if is_vec(tv):
                            out.append(sp + '%s ← npMaskAssign %s %s %s' % (arr, arr, cm, self.coerce(cv, tv, ta)))
                        else:
                            out.append(sp + '%s ← npMaskSet %s %s %s' % (arr, arr, cm, self.coerce(cv, tv, elem(ta))))
                        return out
                    if tm == ('L', ('L', 'Bool')) and is_mat(ta):
                        emit_pre(pm)
                        pv, cv, tv = self.ex(s.value, want=elem(ta))
                        emit_pre(pv)
                        out.append(sp + '%s ← npMaskSet2 %s %s %s' % (arr, arr, cm, self.coerce(cv, tv, elem(ta))))
                        return out
        if isinstance(s, ast.If):
            st_ = self.static_test(s.test)
            if st_ is not None:
                # a test on a statically known integer (array rank): only the branch taken exists for this form
                out = []
                taken = (s.body if st_ else s.orelse)
                for b_ in taken:
                    out.extend(self.stmt(b_, ind))
                    if getattr(self, '_dead', False):
                        break
                if taken and isinstance(taken[-1], (ast.Return, ast.Raise)):
                    self._dead = True
                return out
        if isinstance(s, ast.If) and self.depth == 0 and not self.scope_outer:
            # simple form first (branches only update variables that already exist with the same type); otherwise merge the branches
            snap = (dict(self.env), dict(self.declared_np), dict(self.rename), dict(self.version), self.tmp)
            try:
                return self._plain_if(s, ind)
            except Unsupported:
                self.env, self.declared_np, self.rename, self.version, self.tmp = snap
                return self.phi_if(s, ind)
        if isinstance(s, ast.If) and self.typeof(s.test) == 'Int':
            # truthiness of an integer
            s = ast.If(test=ast.Compare(left=s.test, ops=[ast.NotEq()], comparators=[ast.Constant(value=0)]), body=s.body, orelse=s.orelse)
        if isinstance(s, ast.For):
            self.depth += 1
            self.loop_depth += 1
            self.inner_decl.append([])
            try:
                return Fn.stmt(self, s, ind)
            finally:
                self.depth -= 1
                self.loop_depth -= 1
                for n_ in self.inner_decl.pop():
                    self.declared_np.pop(n_, None)
                    self.env.pop(n_, None)
        if isinstance(s, ast.If):
            self.depth += 1
            try:
                return Fn.stmt(self, s, ind)
            finally:
                self.depth -= 1
        if isinstance(s, ast.While):
            raise Unsupported('%s: while in the array dialect' % self.name)
        if isinstance(s, (ast.Assign, ast.AugAssign)):
            for t in (s.targets if isinstance(s, ast.Assign) else [s.target]):
                base = t.value if isinstance(t, ast.Subscript) else t
                if isinstance(base, ast.Name) and base.id in self.rename:
                    raise Unsupported('%s: element assignment to the re-typed variable %s' % (self.name, base.id))
        return Fn.stmt(self, s, ind)

    def _plain_if(self, s, ind):
        if self.typeof(s.test) == 'Int':
            s = ast.If(test=ast.Compare(left=s.test, ops=[ast.NotEq()], comparators=[ast.Constant(value=0)]), body=s.body, orelse=s.orelse)
        self.depth += 1
        try:
            return Fn.stmt(self, s, ind)
        finally:
            self.depth -= 1

    def assign_to(self, target, code, typ, ind):
        if isinstance(target, ast.Name):
            return self.bind_np(target.id, code, typ, ind)
        raise Unsupported('assign')

    def emit(self):
        self.env = dict(zip(self.params, self.ptypes))
        for a, t in self.selfattrs:
            self.env['self_' + a.lstrip('_')] = t
        self.declared_np = dict(self.env)
        self.rename, self.version = {}, {}
        self.scope_outer, self.fresh_in_scope = set(), set()
        self.late, self.declared = set(), set()
        self.tmp = 0
        lines = []
        for k, t in self.hints.items():
            if k not in self.env:
                lines.append('  let mut %s : %s := default' % (k, lean_type(t)))
                self.env[k] = t
                self.declared_np[k] = t
        reassigned = set()
        for n in ast.walk(self.node):
            if isinstance(n, (ast.Assign, ast.AugAssign)):
                for t in (n.targets if isinstance(n, ast.Assign) else [n.target]):
                    base = t.value if isinstance(t, ast.Subscript) else t
                    if isinstance(base, ast.Name) and base.id in self.params:
                        reassigned.add(base.id)
        for p in self.params:
            if p in reassigned:
                lines.append('  let mut %s := %s' % (p, p))
        body = self.block(self.node.body, 2)
        ext = ''
        for k, (en, pts, rt) in self.externals.items():
            ext += '(%s : %s → Py %s) ' % (en, ' → '.join(lean_atom(p) for p in pts), lean_atom(rt))
        selfp = ' '.join('(self_%s : %s)' % (a.lstrip('_'), lean_type(t)) for a, t in self.selfattrs)
        params = ' '.join('(%s : %s)' % (p, lean_type(t)) for p, t in zip(self.params, self.ptypes))
        head = 'def %s %s%s%s : Py %s := do' % (self.lname_def(), ext, (selfp + ' ') if selfp else '', params, lean_atom(self.ret))
        return '\n'.join([head] + lines + body)


# --------------------------------------------------------------------------- driver

def check_self_props(tree, cls, sig):
    """The table entry `self_props` says what reading a PROPERTY of the object means inside a translated method (`self.nstates` → `len(self._states.copy())`).
    That text is checked against the class on every run: the property's source (its single `return`), with the properties it reads expanded in turn, must be the
    table's text expanded the same way.  A changed property makes every method that reads it "no longer translated"."""
    classes = {n.name: n for n in tree.body if isinstance(n, ast.ClassDef)}

    def find(c, name, want_property=True):
        if c not in classes:
            return None
        for m in classes[c].body:
            if isinstance(m, ast.FunctionDef) and m.name == name and \
                    (not want_property or any(isinstance(d, ast.Name) and d.id == 'property' for d in m.decorator_list)):
                return m
        for b in classes[c].bases:
            if isinstance(b, ast.Name):
                r = find(b.id, name, want_property)
                if r is not None:
                    return r
        return None

    def ret_expr(m):
        body = [st for st in m.body if not (isinstance(st, ast.Expr) and isinstance(st.value, ast.Constant))]
        if len(body) == 1 and isinstance(body[0], ast.Return) and body[0].value is not None:
            return body[0].value
        return None

    class Expand(ast.NodeTransformer):
        def __init__(self):
            self.depth = 0

        def visit_Attribute(self, node):
            node = self.generic_visit(node)
            if isinstance(node.value, ast.Name) and node.value.id == 'self' and self.depth < 6:
                m = find(cls, node.attr)
                r = ret_expr(m) if m is not None else None
                if r is not None:
                    import copy
                    self.depth += 1
                    out = self.visit(copy.deepcopy(r))
                    self.depth -= 1
                    return out
            return node

        def visit_Call(self, node):
            node = self.generic_visit(node)
            # len(self) is the object's __len__
            if isinstance(node.func, ast.Name) and node.func.id == 'len' and len(node.args) == 1 and isinstance(node.args[0], ast.Name) and node.args[0].id == 'self':
                m = find(cls, '__len__', want_property=False)
                r = ret_expr(m) if m is not None else None
                if r is not None:
                    import copy
                    return self.visit(copy.deepcopy(r))
            return node

    def norm(e):
        import copy
        return ast.unparse(Expand().visit(copy.deepcopy(e)))
    probs = []
    for k, text in sig.get('self_props', {}).items():
        try:
            table = ast.parse(text, mode='eval').body
        except SyntaxError:
            probs.append('self_props[%s] does not parse' % k)
            continue
        if k == 'len_self':
            m = find(cls, '__len__', want_property=False)
        else:
            m = find(cls, k)
        src_e = ret_expr(m) if m is not None else None
        if src_e is None:
            probs.append('property %s.%s not found or not a single return' % (cls, k))
        elif norm(src_e) != norm(table):
            probs.append('%s.%s is `%s` in the source but `%s` in the table' % (cls, k, norm(src_e), norm(table)))
    return probs


def translate_module(repo, relfile, ns, cls, funcs):
    import os
    import re as _re
    path = os.path.join(repo, 'src', 'msmhelper', relfile)
    src = open(path).read()
    tree = ast.parse(src)
    body = tree.body
    if cls is not None:
        cl = [n for n in tree.body if isinstance(n, ast.ClassDef) and n.name == cls]
        if not cl:
            raise Unsupported('class %s not found in %s' % (cls, relfile))
        body = cl[0].body
    nodes = {n.name: n for n in body if isinstance(n, ast.FunctionDef)}
    fns, problems = {}, []
    order = []
    stale = {}
    if cls is not None:
        for name, sig in funcs:
            st_ = check_self_props(tree, cls, sig)
            if st_:
                stale[sig.get('lean_name') or name] = st_
    for name, sig in funcs:
        if (sig.get('lean_name') or name) in stale:
            problems.append('%s: the signature table no longer matches the class: %s' % (name, '; '.join(stale[sig.get('lean_name') or name])))
            continue
        key = sig.get('lean_name') or name
        if name not in nodes:
            problems.append('%s: function %s not found in %s' % (ns, name, relfile))
            continue
        aw = argwrites.arg_writes(nodes[name])
        if aw:
            # the translation treats arrays as immutable values: a function that writes through a parameter is not translated faithfully
            problems.append('%s: writes through its argument (%s) — not a pure function of its arguments' % (
                name, '; '.join('line %d: `%s`: %s' % x for x in aw[:3])))
            continue
        try:
            f = NpFn(nodes[name], sig, fns, relfile, ns, cls)
            f.key = key
            fns[name if 'lean_name' not in sig else key] = f
            order.append(name if 'lean_name' not in sig else key)
        except Unsupported as e:
            problems.append(str(e))
    out = ['/-',
           'GENERATED by harness/py2lean.py (array dialect, harness/np2lean.py) from src/msmhelper/%s — do not edit.' % relfile,
           'Functions: ' + ', '.join('%s@%s' % (sig.get('lean_name') or n, py2lean.fn_source_hash(src, nodes[n])) for n, sig in funcs if n in nodes),
           '-/',
           'import MsmVerif.Gen.NpRt']
    deps = set()
    texts = []
    emitted = []
    for k in order:
        f = fns[k]
        try:
            code = f.emit()
        except Unsupported as e:
            problems.append(str(e))
            fns.pop(k)
            continue
        except KeyError as e:
            problems.append('%s: unknown name %s' % (k, e))
            fns.pop(k)
            continue
        REGISTRY[(ns, f.key)] = f
        emitted.append(f)
        for ns2 in _re.findall(r'MsmVerif\.Gen\.([A-Za-z]+)\.', code):
            if ns2 != ns:
                deps.add(ns2)
        where = ('`%s.%s`' % (cls, f.name)) if cls else ('`%s`' % f.name)
        spec = ''
        if f.sig.get('consts'):
            spec = ' specialised to ' + ', '.join('%s=%r' % kv for kv in sorted(f.sig['consts'].items()))
        texts.append('/-- %s of `src/msmhelper/%s`%s -/' % (where, relfile, spec))
        texts.append(code)
        texts.append('')
    for d in sorted(deps):
        out.append('import MsmVerif.Gen.%s' % d)
    out += ['', 'set_option linter.unusedVariables false', '', 'namespace MsmVerif.Gen.%s' % ns, '']
    out += texts
    out.append('end MsmVerif.Gen.%s' % ns)
    out.append('')
    return '\n'.join(out), problems, emitted


def run_module(ns, relfile, emitted, ext_impl):
    """line-protocol driver for the translated functions of one module; oracle parameters are instantiated with the
    executable stand-ins of `ext_impl` (name -> Lean term)"""
    out = ['/-',
           'GENERATED by harness/py2lean.py — line-protocol driver for the translated functions of src/msmhelper/%s.' % relfile,
           '-/',
           'import MsmVerif.Gen.%s' % ns,
           'import MsmVerif.Driver.GenCodec',
           '',
           'open Lean MsmVerif MsmVerif.Gen MsmVerif.GenCodec',
           '',
           'namespace MsmVerif.Gen.%sRun' % ns,
           '',
           'def dispatch (r : Req) : Except String Json :=',
           '  match r.k, r.args with']
    for f in emitted:
        extra = []
        for en in f.ext_params():
            extra.append('(%s r)' % ext_impl[en])
        n = len(f.selfattrs) + len(f.params)
        pats = ', '.join('a%d' % i for i in range(n))
        call = 'MsmVerif.Gen.%s.%s %s' % (ns, f.lname_def(), ' '.join(extra + ['(← JCodec.dec a%d)' % i for i in range(n)]))
        out.append('  | "%s", [%s] => do return encPy (%s)' % (getattr(f, 'key', f.name), pats, call))
    out.append('  | k, _ => throw s!"unknown function or arity: {k}"')
    out.append('')
    out.append('end MsmVerif.Gen.%sRun' % ns)
    out.append('')
    out.append('def main : IO Unit := runMain MsmVerif.Gen.%sRun.dispatch' % ns)
    out.append('')
    return '\n'.join(out)


# oracle stand-ins for RUNNING the translated code: the oracle's answer is supplied by the harness in the request
EXT_IMPL = {'ext_peq': 'MsmVerif.GenCodec.oracleVec "peq"', 'ext_argsort': 'MsmVerif.GenCodec.oracleTable "argsort"',
            'ext_left_eigenvectors': 'MsmVerif.GenCodec.oracleEig "eig"',
            'ext_choice': 'MsmVerif.GenCodec.oracleConst "choice"',
            'ext_randint': 'MsmVerif.GenCodec.oracleConst "randint"',
            'ext_estimate': 'MsmVerif.GenCodec.oracleTableInt "estimate"',
            'ext_estimate_plain': 'MsmVerif.GenCodec.oracleTableInt "estimate"',
            'ext_geomspace_rounded': 'MsmVerif.GenCodec.oracleConst3 "times"',
            'ext_argsort_int': 'MsmVerif.GenCodec.oracleConst "argsort"',
            'ext_propagate': 'MsmVerif.GenCodec.oracleConst3 "propagate"',
            'ext_propagate_echo': 'MsmVerif.GenCodec.oracleEchoCummat "propagate"',
            'ext_opentxt': 'MsmVerif.GenCodec.oracleConst "opentxt"',
            'ext_get_cummat': 'MsmVerif.GenCodec.oracleConst "cummat"',
            'ext_estimator': 'MsmVerif.GenCodec.oracleConst5 "estimator"',
            'ext_eig': 'MsmVerif.GenCodec.oracleTableKey "eig"',
            'ext_argsort_cx': 'MsmVerif.GenCodec.oracleTableKey "argsort_cx"',
            'ext_log': 'MsmVerif.GenCodec.oracleElemwise "log"',
            'ext_read_csv': 'MsmVerif.GenCodec.oracleConst3 "read_csv"',
            'ext_gaussian_filter1d_nearest': 'MsmVerif.GenCodec.oracleConst2 "filter1d"', 'ext_gaussian_filter_axis0_nearest': 'MsmVerif.GenCodec.oracleConst2 "filter2d"',
            'ext_kernel_wt': 'MsmVerif.GenCodec.oracleConst5 "estimator"', 'ext_kernel_tt': 'MsmVerif.GenCodec.oracleConst5 "estimator_tt"',
            'ext_md_estimate_paths': 'MsmVerif.GenCodec.oracleConst3 "md_paths"',
            'ext_opentxt_data': 'MsmVerif.GenCodec.oracleConst2 "data"', 'ext_opentxt_data_2d': 'MsmVerif.GenCodec.oracleConst2 "data"',
            'ext_read_csv_all': 'MsmVerif.GenCodec.oracleConst2 "read_csv"'}


def translate_all(repo, files, probs):
    REGISTRY.clear()
    for relfile, ns, cls, funcs in NP_KERNELS:
        try:
            text, pr, emitted = translate_module(repo, relfile, ns, cls, funcs)
            files[ns + 'Run.lean'] = run_module(ns, relfile, emitted, EXT_IMPL)
            probs[ns + 'Run.lean'] = []
        except (SyntaxError, OSError, Unsupported) as e:
            text, pr = None, ['%s: %r' % (relfile, e)]
        files[ns + '.lean'] = text
        probs[ns + '.lean'] = pr
    return files, probs
