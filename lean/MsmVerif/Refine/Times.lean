/-
Refine/Times.lean — task RP11 (property C08): the TRANSLATED `_estimate_times` of `src/msmhelper/msm/timescales.py`
(`Gen/MsmTimes.lean`, once per value of its flag `return_list`) and the translated `StateTraj.state_to_idx`
(`Gen/StateTrajBase.lean`) compute exactly the hand-written model: the validation of the start/final sets
(`ValueError` exactly for overlapping sets or unknown states, before any oracle is consulted), the label → index
conversion (`rank`), and the post-processing of the dictionary returned by the compiled event loop
(`Events.histList` / `Events.histDensity`).  The three oracle parameters (`np.random.choice`, the cumulative matrix, the
compiled event loop) are universally quantified; the hypotheses say what they returned at the one call the function makes.

All helper lemmas live in `Refine/TimesLemmas.lean` (same namespace).
-/
import MsmVerif.Refine.TimesLemmas
open MsmVerif MsmVerif.Gen

namespace MsmVerif.Refine.Times

/-! ### runtime = model -/

/-- **`np.unique` of the runtime is the model's `sortDedup`** (ascending distinct values), for every integer list. -/
theorem npUnique_eq_sortDedup (v : List Int) : Gen.npUnique v = sortDedup v := npUnique_eq v

/-- **`np.sort` of the runtime returns an ascending rearrangement of its input**, for every integer list. -/
theorem npSortInt_sorted_perm (v : List Int) : (Gen.npSortInt v).Pairwise (· ≤ ·) ∧ (Gen.npSortInt v).Perm v :=
  ⟨npSortInt_pairwise v, npSortInt_perm v⟩

/-- **`np.sort` is determined by that**: any ascending rearrangement `l` of `v` is `np.sort(v)`. -/
theorem npSortInt_unique (v l : List Int) (hs : l.Pairwise (· ≤ ·)) (hp : l.Perm v) : Gen.npSortInt v = l :=
  eq_npSortInt_of_sorted_perm l v hs hp

/-- **on naturals the runtime's `np.sort` is the model's `mergeSort`** (the sort used by `Events.histList`). -/
theorem npSortInt_eq_mergeSort (l : List Nat) :
    Gen.npSortInt (l.map Int.ofNat) = (l.mergeSort (· ≤ ·)).map Int.ofNat := npSortInt_natCast l

example : Gen.npUnique [3, 1, 3, -2, 1] = [-2, 1, 3] := by decide
example : Gen.npSortInt [3, 1, 2, 1] = [1, 1, 2, 3] := by decide

/-! ### `StateTraj.state_to_idx` -/

/-- **`state_to_idx` returns the position of the state in the state list, `ValueError` iff the state is absent.**
Holds for every state list `ss` (position = first occurrence, `rank`); on the ascending duplicate-free state list of a
`StateTraj` this is the rank of the state.  No `IndexError` is raised. -/
theorem state_to_idx_refines (ss : List Int) (x : Int) :
    Gen.StateTrajBase.state_to_idx ss x = if x ∈ ss then .ok ((rank ss x : Nat) : Int) else .error .value :=
  state_to_idx_eq ss x

example : Gen.StateTrajBase.state_to_idx [1, 3, 5] 5 = .ok 2 := by
  rw [state_to_idx_refines]; decide
example : Gen.StateTrajBase.state_to_idx [1, 3, 5] 4 = .error .value := by
  rw [state_to_idx_refines]; decide

/-! ### `_estimate_times` -/

/-- the hypothesis `hss` below holds for the state list of every `StateTraj` (`states ts = np.unique` of the data) -/
example (ts : Trajs) : (states ts).Pairwise (· < ·) := Events.pairwise_states ts

section
variable (ec : List Int → Py Int) (eg : Int → Py (List (List Rat) × List (List Int)))
  (ee : List (List Rat) × List (List Int) → Int → List Int → List Int → Int → Py PyDict)

/-- **Rejection.**  On an ascending state list `ss`: if the start and final sets overlap, or some start/final state is not
a state of the trajectory, both forms of `_estimate_times` return `ValueError` — whatever the three oracles are (they are
not consulted: even oracles that fail with another error do not change the result). -/
theorem estimate_times_rejects (ss : List Int) (lag : Int) (S F : List Int) (steps : Int) (jit : Bool)
    (hss : ss.Pairwise (· < ·))
    (h : (∃ x, x ∈ S ∧ x ∈ F) ∨ (∃ x ∈ S ++ F, x ∉ ss)) :
    Gen.MsmTimes.estimate_times_list ec eg ee ss lag S F steps jit = .error .value ∧
    Gen.MsmTimes.estimate_times_hist ec eg ee ss lag S F steps jit = .error .value := by
  rw [list_unfold, hist_unfold, front_bad ss S F hss h]
  exact ⟨rfl, rfl⟩

/-- **Accepted input, list form.**  `ss` ascending, `S`, `F` disjoint sets of states of `ss`.  Suppose `np.random.choice`,
called with the final indices `(sortDedup F).map (rank ss)`, returned `c`; `get_cummat(lagtime)` returned `cm`; and the
compiled event loop, called with EXACTLY `cm`, `c`, the start indices `(sortDedup S).map (rank ss)`, the final indices and
`steps`, returned the dictionary `d` (natural keys and counts).  Then the function returns
`np.sort(np.repeat(keys, values)) * lagtime`, i.e. the model's `histList d lag` (ascending durations × lag time). -/
theorem estimate_times_list_refines (ss : List Int) (lag : Nat) (S F : List Int) (steps : Int) (jit : Bool)
    (hss : ss.Pairwise (· < ·)) (hd : ∀ x ∈ S, x ∉ F) (hS : ∀ x ∈ S, x ∈ ss) (hF : ∀ x ∈ F, x ∈ ss)
    (c : Int) (cm : List (List Rat) × List (List Int)) (d : List (Nat × Nat))
    (hchoice : ec ((sortDedup F).map (fun x => ((rank ss x : Nat) : Int))) = .ok c)
    (hcm : eg lag = .ok cm)
    (hest : ee cm c ((sortDedup S).map (fun x => ((rank ss x : Nat) : Int)))
      ((sortDedup F).map (fun x => ((rank ss x : Nat) : Int))) steps = .ok (dictI d)) :
    Gen.MsmTimes.estimate_times_list ec eg ee ss lag S F steps jit
      = .ok ((Events.histList d lag).map Int.ofNat) := by
  rw [list_unfold, front_ok ss S F hss hd hS hF]
  show (do let c ← ec (idxs ss (sortDedup F)); let cm ← eg lag
           let d ← ee cm c (idxs ss (sortDedup S)) (idxs ss (sortDedup F)) steps; listTail lag d) = _
  unfold idxs
  rw [hchoice]
  show (do let cm ← eg lag; let d ← ee cm c _ _ steps; listTail lag d) = _
  rw [hcm]
  show (do let d ← ee cm c _ _ steps; listTail lag d) = _
  rw [hest]
  exact listTail_eq lag d

/-- **Accepted input, list form, arbitrary integer lag time.**  As `estimate_times_list_refines`, without assuming that
`lagtime` is a natural number: the result is the ascending list of durations (`histList d 1`), each multiplied by `lagtime`
(so for a negative `lagtime` it is descending). -/
theorem estimate_times_list_refines_anylag (ss : List Int) (lag : Int) (S F : List Int) (steps : Int) (jit : Bool)
    (hss : ss.Pairwise (· < ·)) (hd : ∀ x ∈ S, x ∉ F) (hS : ∀ x ∈ S, x ∈ ss) (hF : ∀ x ∈ F, x ∈ ss)
    (c : Int) (cm : List (List Rat) × List (List Int)) (d : List (Nat × Nat))
    (hchoice : ec ((sortDedup F).map (fun x => ((rank ss x : Nat) : Int))) = .ok c)
    (hcm : eg lag = .ok cm)
    (hest : ee cm c ((sortDedup S).map (fun x => ((rank ss x : Nat) : Int)))
      ((sortDedup F).map (fun x => ((rank ss x : Nat) : Int))) steps = .ok (dictI d)) :
    Gen.MsmTimes.estimate_times_list ec eg ee ss lag S F steps jit
      = .ok (((Events.histList d 1).map Int.ofNat).map (· * lag)) := by
  rw [list_unfold, front_ok ss S F hss hd hS hF]
  show (do let c ← ec (idxs ss (sortDedup F)); let cm ← eg lag
           let d ← ee cm c (idxs ss (sortDedup S)) (idxs ss (sortDedup F)) steps; listTail lag d) = _
  unfold idxs
  rw [hchoice]
  show (do let cm ← eg lag; let d ← ee cm c _ _ steps; listTail lag d) = _
  rw [hcm]
  show (do let d ← ee cm c _ _ steps; listTail lag d) = _
  rw [hest]
  exact listTail_eq_int lag d

/-- **Accepted input, histogram form.**  Same hypotheses as `estimate_times_list_refines`; if in addition the returned
dictionary `d` is non-empty and its keys are distinct (as the keys of a Python `dict` are), the function returns the
model's `histDensity d lag`: the array `pts[k] = count of key k` for `k = 0 … maxkey` divided by `sum(pts) * lagtime`,
and the edges `k * lagtime` for `k = 0 … maxkey + 1`.  No `IndexError` is raised by `pts[time] = count`. -/
theorem estimate_times_hist_refines (ss : List Int) (lag : Nat) (S F : List Int) (steps : Int) (jit : Bool)
    (hss : ss.Pairwise (· < ·)) (hd : ∀ x ∈ S, x ∉ F) (hS : ∀ x ∈ S, x ∈ ss) (hF : ∀ x ∈ F, x ∈ ss)
    (c : Int) (cm : List (List Rat) × List (List Int)) (d : List (Nat × Nat))
    (hchoice : ec ((sortDedup F).map (fun x => ((rank ss x : Nat) : Int))) = .ok c)
    (hcm : eg lag = .ok cm)
    (hest : ee cm c ((sortDedup S).map (fun x => ((rank ss x : Nat) : Int)))
      ((sortDedup F).map (fun x => ((rank ss x : Nat) : Int))) steps = .ok (dictI d))
    (hne : d ≠ []) (hkeys : (d.map (·.1)).Nodup) :
    Gen.MsmTimes.estimate_times_hist ec eg ee ss lag S F steps jit
      = .ok ((Events.histDensity d lag).1, (Events.histDensity d lag).2.map Int.ofNat) := by
  rw [hist_unfold, front_ok ss S F hss hd hS hF]
  show (do let c ← ec (idxs ss (sortDedup F)); let cm ← eg lag
           let d ← ee cm c (idxs ss (sortDedup S)) (idxs ss (sortDedup F)) steps; histTail lag d) = _
  unfold idxs
  rw [hchoice]
  show (do let cm ← eg lag; let d ← ee cm c _ _ steps; histTail lag d) = _
  rw [hcm]
  show (do let d ← ee cm c _ _ steps; histTail lag d) = _
  rw [hest]
  exact histTail_eq lag d hne hkeys

/-- **Accepted input, histogram form, no event.**  If the event loop returned the empty dictionary, the histogram form
returns `ValueError` (Python: `np.max` of an empty sequence); here `lagtime` may be any integer. -/
theorem estimate_times_hist_empty (ss : List Int) (lag : Int) (S F : List Int) (steps : Int) (jit : Bool)
    (hss : ss.Pairwise (· < ·)) (hd : ∀ x ∈ S, x ∉ F) (hS : ∀ x ∈ S, x ∈ ss) (hF : ∀ x ∈ F, x ∈ ss)
    (c : Int) (cm : List (List Rat) × List (List Int))
    (hchoice : ec ((sortDedup F).map (fun x => ((rank ss x : Nat) : Int))) = .ok c)
    (hcm : eg lag = .ok cm)
    (hest : ee cm c ((sortDedup S).map (fun x => ((rank ss x : Nat) : Int)))
      ((sortDedup F).map (fun x => ((rank ss x : Nat) : Int))) steps = .ok []) :
    Gen.MsmTimes.estimate_times_hist ec eg ee ss lag S F steps jit = .error .value := by
  rw [hist_unfold, front_ok ss S F hss hd hS hF]
  show (do let c ← ec (idxs ss (sortDedup F)); let cm ← eg lag
           let d ← ee cm c (idxs ss (sortDedup S)) (idxs ss (sortDedup F)) steps; histTail lag d) = _
  unfold idxs
  rw [hchoice]
  show (do let cm ← eg lag; let d ← ee cm c _ _ steps; histTail lag d) = _
  rw [hcm]
  show (do let d ← ee cm c _ _ steps; histTail lag d) = _
  rw [hest]
  rfl

/-! ### error propagation: an oracle that fails at its call makes the function fail with the same error -/

/-- **`np.random.choice` fails ⇒ same error** (both forms), on accepted input. -/
theorem estimate_times_choice_error (ss : List Int) (lag : Int) (S F : List Int) (steps : Int) (jit : Bool)
    (hss : ss.Pairwise (· < ·)) (hd : ∀ x ∈ S, x ∉ F) (hS : ∀ x ∈ S, x ∈ ss) (hF : ∀ x ∈ F, x ∈ ss) (e : Err)
    (hchoice : ec ((sortDedup F).map (fun x => ((rank ss x : Nat) : Int))) = .error e) :
    Gen.MsmTimes.estimate_times_list ec eg ee ss lag S F steps jit = .error e ∧
    Gen.MsmTimes.estimate_times_hist ec eg ee ss lag S F steps jit = .error e := by
  rw [list_unfold, hist_unfold, front_ok ss S F hss hd hS hF]
  constructor
  · show (do let c ← ec (idxs ss (sortDedup F)); let cm ← eg lag
             let d ← ee cm c (idxs ss (sortDedup S)) (idxs ss (sortDedup F)) steps; listTail lag d) = _
    unfold idxs
    rw [hchoice]
    rfl
  · show (do let c ← ec (idxs ss (sortDedup F)); let cm ← eg lag
             let d ← ee cm c (idxs ss (sortDedup S)) (idxs ss (sortDedup F)) steps; histTail lag d) = _
    unfold idxs
    rw [hchoice]
    rfl

/-- **`get_cummat(lagtime)` fails (after `np.random.choice` returned `c`) ⇒ same error** (both forms), on accepted input. -/
theorem estimate_times_cummat_error (ss : List Int) (lag : Int) (S F : List Int) (steps : Int) (jit : Bool)
    (hss : ss.Pairwise (· < ·)) (hd : ∀ x ∈ S, x ∉ F) (hS : ∀ x ∈ S, x ∈ ss) (hF : ∀ x ∈ F, x ∈ ss) (c : Int) (e : Err)
    (hchoice : ec ((sortDedup F).map (fun x => ((rank ss x : Nat) : Int))) = .ok c)
    (hcm : eg lag = .error e) :
    Gen.MsmTimes.estimate_times_list ec eg ee ss lag S F steps jit = .error e ∧
    Gen.MsmTimes.estimate_times_hist ec eg ee ss lag S F steps jit = .error e := by
  rw [list_unfold, hist_unfold, front_ok ss S F hss hd hS hF]
  constructor
  · show (do let c ← ec (idxs ss (sortDedup F)); let cm ← eg lag
             let d ← ee cm c (idxs ss (sortDedup S)) (idxs ss (sortDedup F)) steps; listTail lag d) = _
    unfold idxs
    rw [hchoice]
    show (do let cm ← eg lag; let d ← ee cm c _ _ steps; listTail lag d) = _
    rw [hcm]
    rfl
  · show (do let c ← ec (idxs ss (sortDedup F)); let cm ← eg lag
             let d ← ee cm c (idxs ss (sortDedup S)) (idxs ss (sortDedup F)) steps; histTail lag d) = _
    unfold idxs
    rw [hchoice]
    show (do let cm ← eg lag; let d ← ee cm c _ _ steps; histTail lag d) = _
    rw [hcm]
    rfl

/-- **the compiled event loop fails (e.g. draws exhausted) ⇒ same error** (both forms), on accepted input. -/
theorem estimate_times_estimator_error (ss : List Int) (lag : Int) (S F : List Int) (steps : Int) (jit : Bool)
    (hss : ss.Pairwise (· < ·)) (hd : ∀ x ∈ S, x ∉ F) (hS : ∀ x ∈ S, x ∈ ss) (hF : ∀ x ∈ F, x ∈ ss)
    (c : Int) (cm : List (List Rat) × List (List Int)) (e : Err)
    (hchoice : ec ((sortDedup F).map (fun x => ((rank ss x : Nat) : Int))) = .ok c)
    (hcm : eg lag = .ok cm)
    (hest : ee cm c ((sortDedup S).map (fun x => ((rank ss x : Nat) : Int)))
      ((sortDedup F).map (fun x => ((rank ss x : Nat) : Int))) steps = .error e) :
    Gen.MsmTimes.estimate_times_list ec eg ee ss lag S F steps jit = .error e ∧
    Gen.MsmTimes.estimate_times_hist ec eg ee ss lag S F steps jit = .error e := by
  rw [list_unfold, hist_unfold, front_ok ss S F hss hd hS hF]
  constructor
  · show (do let c ← ec (idxs ss (sortDedup F)); let cm ← eg lag
             let d ← ee cm c (idxs ss (sortDedup S)) (idxs ss (sortDedup F)) steps; listTail lag d) = _
    unfold idxs
    rw [hchoice]
    show (do let cm ← eg lag; let d ← ee cm c _ _ steps; listTail lag d) = _
    rw [hcm]
    show (do let d ← ee cm c _ _ steps; listTail lag d) = _
    rw [hest]
    rfl
  · show (do let c ← ec (idxs ss (sortDedup F)); let cm ← eg lag
             let d ← ee cm c (idxs ss (sortDedup S)) (idxs ss (sortDedup F)) steps; histTail lag d) = _
    unfold idxs
    rw [hchoice]
    show (do let cm ← eg lag; let d ← ee cm c _ _ steps; histTail lag d) = _
    rw [hcm]
    show (do let d ← ee cm c _ _ steps; histTail lag d) = _
    rw [hest]
    rfl

end

/-! ### non-vacuity: concrete oracles -/

/-- `np.random.choice` replaced by "take the last index" -/
def exChoice : List Int → Py Int := fun l => pyGet l (-1)
/-- a cumulative matrix that exists only for lag time 2 -/
def exCummat : Int → Py (List (List Rat) × List (List Int)) :=
  fun lag => if lag = 2 then .ok ([[1/2, 1], [1, 1], [1/3, 1]], [[0, 1], [1, 0], [2, 0]]) else .error .lagtime
/-- an event loop that answers `r` only to the exact call expected for `ss = [1,3,5]`, `S = {1,3}`, `F = {5}`, 10 steps -/
def exEstimator (r : Py PyDict) : List (List Rat) × List (List Int) → Int → List Int → List Int → Int → Py PyDict :=
  fun cm c iS iF steps =>
    if cm = ([[1/2, 1], [1, 1], [1/3, 1]], [[0, 1], [1, 0], [2, 0]]) ∧ c = 2 ∧ iS = [0, 1] ∧ iF = [2] ∧ steps = 10
    then r else .error .assertion

/-- accepted input (start given with a repetition and unsorted), list form: the theorem applies … -/
example : Gen.MsmTimes.estimate_times_list exChoice exCummat (exEstimator (.ok (dictI [(3, 1), (1, 2)])))
      [1, 3, 5] (2 : Nat) [3, 1, 3] [5] 10 false = .ok ((Events.histList [(3, 1), (1, 2)] 2).map Int.ofNat) :=
  estimate_times_list_refines _ _ _ [1, 3, 5] 2 [3, 1, 3] [5] 10 false (by decide +kernel) (by decide +kernel) (by decide +kernel) (by decide +kernel)
    2 ([[1/2, 1], [1, 1], [1/3, 1]], [[0, 1], [1, 0], [2, 0]]) [(3, 1), (1, 2)] (by decide +kernel) (by decide +kernel) (by decide +kernel)
/-- … and the value is the sorted list of durations times the lag time -/
example : Gen.MsmTimes.estimate_times_list exChoice exCummat (exEstimator (.ok (dictI [(3, 1), (1, 2)])))
      [1, 3, 5] 2 [3, 1, 3] [5] 10 false = .ok [2, 2, 6] := by decide +kernel

/-- accepted input, histogram form -/
example : Gen.MsmTimes.estimate_times_hist exChoice exCummat (exEstimator (.ok (dictI [(3, 1), (1, 2)])))
      [1, 3, 5] (2 : Nat) [3, 1, 3] [5] 10 true
      = .ok ((Events.histDensity [(3, 1), (1, 2)] 2).1, (Events.histDensity [(3, 1), (1, 2)] 2).2.map Int.ofNat) :=
  estimate_times_hist_refines _ _ _ [1, 3, 5] 2 [3, 1, 3] [5] 10 true (by decide +kernel) (by decide +kernel) (by decide +kernel) (by decide +kernel)
    2 ([[1/2, 1], [1, 1], [1/3, 1]], [[0, 1], [1, 0], [2, 0]]) [(3, 1), (1, 2)] (by decide +kernel) (by decide +kernel) (by decide +kernel)
    (by decide +kernel) (by decide +kernel)
example : Events.histDensity [(3, 1), (1, 2)] 2 = ([0, 1/3, 0, 1/6], [0, 2, 4, 6, 8]) := by decide +kernel

/-- the empty dictionary: `ValueError` in the histogram form, the empty list in the list form -/
example : Gen.MsmTimes.estimate_times_hist exChoice exCummat (exEstimator (.ok [])) [1, 3, 5] 2 [3, 1, 3] [5] 10 false
      = .error .value :=
  estimate_times_hist_empty _ _ _ [1, 3, 5] 2 [3, 1, 3] [5] 10 false (by decide +kernel) (by decide +kernel) (by decide +kernel) (by decide +kernel)
    2 ([[1/2, 1], [1, 1], [1/3, 1]], [[0, 1], [1, 0], [2, 0]]) (by decide +kernel) (by decide +kernel) (by decide +kernel)
example : Gen.MsmTimes.estimate_times_list exChoice exCummat (exEstimator (.ok (dictI []))) [1, 3, 5] 2 [3, 1, 3] [5] 10 false
      = .ok [] := by decide +kernel

/-- rejection, with oracles that would fail differently: overlap; unknown final state -/
example : Gen.MsmTimes.estimate_times_list (fun _ => .error .other) (fun _ => .error .other) (fun _ _ _ _ _ => .error .other)
      [1, 3, 5] 2 [3, 1] [5, 3] 10 false = .error .value :=
  (estimate_times_rejects _ _ _ [1, 3, 5] 2 [3, 1] [5, 3] 10 false (by decide +kernel) (Or.inl ⟨3, by decide, by decide⟩)).1
example : Gen.MsmTimes.estimate_times_hist (fun _ => .error .other) (fun _ => .error .other) (fun _ _ _ _ _ => .error .other)
      [1, 3, 5] 2 [3, 1] [4] 10 false = .error .value :=
  (estimate_times_rejects _ _ _ [1, 3, 5] 2 [3, 1] [4] 10 false (by decide +kernel) (Or.inr ⟨4, by decide, by decide⟩)).2

/-- error propagation: no cumulative matrix for lag time 3 (`LagtimeError`); the event loop fails (`Other`) -/
example : Gen.MsmTimes.estimate_times_list exChoice exCummat (exEstimator (.ok [])) [1, 3, 5] 3 [3, 1, 3] [5] 10 false
      = .error .lagtime :=
  (estimate_times_cummat_error _ _ _ [1, 3, 5] 3 [3, 1, 3] [5] 10 false (by decide +kernel) (by decide +kernel) (by decide +kernel) (by decide +kernel)
    2 .lagtime (by decide +kernel) (by decide +kernel)).1
example : Gen.MsmTimes.estimate_times_hist exChoice exCummat (exEstimator (.error .other)) [1, 3, 5] 2 [3, 1, 3] [5] 10 false
      = .error .other :=
  (estimate_times_estimator_error _ _ _ [1, 3, 5] 2 [3, 1, 3] [5] 10 false (by decide +kernel) (by decide +kernel) (by decide +kernel) (by decide +kernel)
    2 ([[1/2, 1], [1, 1], [1/3, 1]], [[0, 1], [1, 0], [2, 0]]) .other (by decide +kernel) (by decide +kernel) (by decide +kernel)).2
example : Gen.MsmTimes.estimate_times_hist (fun _ => .error .type) exCummat (exEstimator (.ok [])) [1, 3, 5] 2 [3, 1, 3] [5] 10 false
      = .error .type :=
  (estimate_times_choice_error _ _ _ [1, 3, 5] 2 [3, 1, 3] [5] 10 false (by decide +kernel) (by decide +kernel) (by decide +kernel) (by decide +kernel)
    .type rfl).2

/-! ### the hypotheses of the histogram form are needed (dictionaries a Python `dict` of durations can never be) -/

/-- keys not distinct: the translation overwrites (`pts = [1, 3]`), the model adds up (`pts = [1, 5]`) -/
example : histTail 1 [(1, 2), (1, 3), (0, 1)] = .ok ([1/4, 3/4], [0, 1, 2]) ∧
    Events.histDensity [(1, 2), (1, 3), (0, 1)] 1 = ([1/6, 5/6], [0, 1, 2]) := by decide +kernel
/-- a negative key wraps around like a Python index (silently, `pts[-1]` is the last bin), or is an `IndexError` -/
example : histTail 1 [(3, 1), (-1, 2)] = .ok ([0, 0, 0, 1], [0, 1, 2, 3, 4]) ∧ histTail 1 [(-2, 2), (0, 1)] = .error .index := by
  decide +kernel

end MsmVerif.Refine.Times
