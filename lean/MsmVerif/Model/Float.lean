/-
Model/Float.lean — abstract rounding model for the schedule-dependent float reductions (C12/C13):
a summation tree over the terms, each addition perturbed by a relative error `δ` with `|δ| ≤ u`.
-/
import MsmVerif.Model.Basic

namespace MsmVerif.FloatModel

/-- a binary summation tree over rational terms; every inner node carries the relative rounding error of that addition -/
inductive Tree where
  | leaf (x : Rat)
  | node (l r : Tree) (δ : Rat)
  deriving Repr

/-- exact sum of the leaves -/
def Tree.exact : Tree → Rat
  | .leaf x => x
  | .node l r _ => l.exact + r.exact

/-- computed value: `fl(a + b) = (a + b)(1 + δ)` -/
def Tree.computed : Tree → Rat
  | .leaf x => x
  | .node l r δ => (l.computed + r.computed) * (1 + δ)

def absQ (r : Rat) : Rat := if r < 0 then -r else r

/-- sum of absolute values of the leaves -/
def Tree.absSum : Tree → Rat
  | .leaf x => absQ x
  | .node l r _ => l.absSum + r.absSum

/-- leaves in order -/
def Tree.leaves : Tree → List Rat
  | .leaf x => [x]
  | .node l r _ => l.leaves ++ r.leaves

/-- depth (number of additions on the longest path) -/
def Tree.depth : Tree → Nat
  | .leaf _ => 0
  | .node l r _ => max l.depth r.depth + 1

/-- every rounding error is bounded by `u` -/
def Tree.bounded (u : Rat) : Tree → Prop
  | .leaf _ => True
  | .node l r δ => absQ δ ≤ u ∧ l.bounded u ∧ r.bounded u

end MsmVerif.FloatModel
