/-
Lemmas/Misc.lean — helper lemmas for C20 (smoothing filters), C09 (Chapman–Kolmogorov grids and matrix powers),
C12 (summation order / rounding trees) and C10 (classification of implied-timescale entries).
-/
import MsmVerif.Model.Filter
import MsmVerif.Model.Timescales
import MsmVerif.Model.Float
import MsmVerif.Model.Linalg
import Mathlib.Tactic.Linarith
import Mathlib.Tactic.Ring
import Mathlib.Algebra.Order.Field.Rat
import Mathlib.Algebra.BigOperators.Group.List.Basic
import Mathlib.Algebra.BigOperators.Ring.List
import Mathlib.Algebra.Order.BigOperators.Group.List
import Mathlib.Algebra.Order.AbsoluteValue.Basic
import Mathlib.Tactic.NormNum

namespace MsmVerif.Misc
open MsmVerif.Filter MsmVerif.Timescales MsmVerif.Linalg MsmVerif.FloatModel

/-! ### generic sums over `List.range` -/

theorem sum_range_getD (l : List Rat) :
    ((List.range l.length).map (fun k => l.getD k 0)).sum = l.sum := by
  induction l with
  | nil => rfl
  | cons a l ih =>
    rw [List.length_cons, List.range_succ_eq_map, List.map_cons, List.map_map, List.sum_cons, List.sum_cons]
    have : ((fun k => (a :: l).getD k 0) ∘ Nat.succ) = (fun k => l.getD k 0) := by
      funext k; simp
    rw [this, ih]; simp

theorem sum_range_reflect (m : Nat) (f : Nat → Rat) :
    ((List.range m).map f).sum = ((List.range m).map (fun k => f (m - 1 - k))).sum := by
  have h : (List.range m).reverse = (List.range m).map (fun k => m - 1 - k) := by
    rw [List.range_eq_range', List.reverse_range']
    simp [List.range_eq_range']
  calc ((List.range m).map f).sum = (((List.range m).reverse).map f).sum := by
        rw [List.map_reverse, List.sum_reverse]
    _ = _ := by rw [h, List.map_map]; rfl


/-- the clamped index used by `clampGet` -/
def clampIdx (n : Nat) (i : Int) : Nat := if i < 0 then 0 else if i ≥ n then n - 1 else i.toNat

theorem clampGet_eq (x : List Rat) (i : Int) : clampGet x i = x.getD (clampIdx x.length i) 0 := by
  unfold clampGet clampIdx; split
  · rfl
  · split <;> rfl

theorem clampIdx_lt {n : Nat} (hn : 0 < n) (i : Int) : clampIdx n i < n := by
  unfold clampIdx; split
  · exact hn
  · split <;> omega

theorem clampIdx_reflect {n : Nat} (hn : 0 < n) (i : Int) :
    clampIdx n ((n : Int) - 1 - i) = n - 1 - clampIdx n i := by
  unfold clampIdx
  split <;> split <;> (try split) <;> (try split) <;> omega

theorem clampGet_mem {x : List Rat} (hx : x ≠ []) (i : Int) : clampGet x i ∈ x := by
  rw [clampGet_eq]
  have h := clampIdx_lt (List.length_pos_iff.mpr hx) i
  rw [List.getD_eq_getElem?_getD, List.getElem?_eq_getElem h]
  exact List.getElem_mem h

theorem clampGet_nil (i : Int) : clampGet [] i = 0 := by
  rw [clampGet_eq]; rfl

theorem clampGet_replicate {n : Nat} (hn : 0 < n) (c : Rat) (i : Int) : clampGet (List.replicate n c) i = c := by
  have h : clampGet (List.replicate n c) i ∈ List.replicate n c :=
    clampGet_mem (by intro h; have := congrArg List.length h; simp at this; omega) i
  exact (List.mem_replicate.mp h).2

theorem clampGet_zipWith (f : Rat → Rat → Rat) (hf : f 0 0 = 0) (x y : List Rat) (h : x.length = y.length)
    (i : Int) : clampGet (List.zipWith f x y) i = f (clampGet x i) (clampGet y i) := by
  simp only [clampGet_eq, List.length_zipWith, ← h, Nat.min_self]
  generalize clampIdx x.length i = k
  simp only [List.getD_eq_getElem?_getD, List.getElem?_zipWith]
  by_cases hk : k < x.length
  · have hk' : k < y.length := h ▸ hk
    simp [List.getElem?_eq_getElem hk, List.getElem?_eq_getElem hk']
  · have hk' : ¬ k < y.length := h ▸ hk
    simp [List.getElem?_eq_none (Nat.le_of_not_lt hk), List.getElem?_eq_none (Nat.le_of_not_lt hk'), hf]

theorem clampGet_reverse (x : List Rat) (i : Int) :
    clampGet x.reverse i = clampGet x ((x.length : Int) - 1 - i) := by
  by_cases hx : x = []
  · subst hx; simp [clampGet_nil]
  have hn : 0 < x.length := List.length_pos_iff.mpr hx
  rw [clampGet_eq, clampGet_eq, List.length_reverse, clampIdx_reflect hn]
  have h := clampIdx_lt hn i
  generalize clampIdx x.length i = k at h ⊢
  rw [List.getD_eq_getElem?_getD, List.getD_eq_getElem?_getD, List.getElem?_reverse h]

/-! ### `filt` -/

/-- one output sample of `filt` -/
def filtAt (w x : List Rat) (i : Nat) : Rat :=
  ((List.range w.length).map (fun (k : Nat) =>
    w.getD k 0 * clampGet x ((i : Int) + (k : Int) - ((w.length / 2 : Nat) : Int)))).sum

theorem filt_eq (w x : List Rat) : filt w x = (List.range x.length).map (filtAt w x) := rfl

theorem filt_length (w x : List Rat) : (filt w x).length = x.length := by
  simp [filt_eq]

theorem filt_getD (w x : List Rat) (i : Nat) (hi : i < x.length) : (filt w x).getD i 0 = filtAt w x i := by
  simp [filt_eq, List.getD_eq_getElem?_getD, hi]

theorem filtAt_zipWith (w x y : List Rat) (a b : Rat) (h : x.length = y.length) (i : Nat) :
    filtAt w (List.zipWith (fun u v => a * u + b * v) x y) i = a * filtAt w x i + b * filtAt w y i := by
  unfold filtAt
  rw [← List.sum_map_mul_left, ← List.sum_map_mul_left, ← List.sum_map_add]
  congr 1
  apply List.map_congr_left
  intro k _
  rw [clampGet_zipWith _ (by simp) x y h]
  ring

theorem filt_linear (w x y : List Rat) (a b : Rat) (h : x.length = y.length) :
    filt w (List.zipWith (fun u v => a * u + b * v) x y)
      = List.zipWith (fun u v => a * u + b * v) (filt w x) (filt w y) := by
  apply List.ext_getElem
  · simp [filt_length, h]
  · intro i h1 h2
    simp only [filt_eq, List.getElem_map, List.getElem_range, List.getElem_zipWith]
    exact filtAt_zipWith w x y a b h i

theorem filtAt_const (w : List Rat) (hw : w.sum = 1) {n : Nat} (hn : 0 < n) (c : Rat) (i : Nat) :
    filtAt w (List.replicate n c) i = c := by
  unfold filtAt
  simp only [clampGet_replicate hn]
  rw [List.sum_map_mul_right, sum_range_getD, hw, one_mul]

theorem filt_const (w : List Rat) (hw : w.sum = 1) (n : Nat) (c : Rat) :
    filt w (List.replicate n c) = List.replicate n c := by
  apply List.ext_getElem
  · simp [filt_length]
  · intro i h1 h2
    have hn : 0 < n := by simp at h2; omega
    simp only [filt_eq, List.getElem_map, List.getElem_range, List.getElem_replicate]
    exact filtAt_const w hw hn c i

/-- a weighted mean with non-negative weights summing to one stays inside any interval containing the values -/
theorem weighted_mean_bounds (w : List Rat) (g : Nat → Rat) (lo hi : Rat)
    (hw0 : ∀ v ∈ w, 0 ≤ v) (hw : w.sum = 1) (hg : ∀ k, lo ≤ g k ∧ g k ≤ hi) :
    lo ≤ ((List.range w.length).map (fun k => w.getD k 0 * g k)).sum ∧
    ((List.range w.length).map (fun k => w.getD k 0 * g k)).sum ≤ hi := by
  have hnn : ∀ k, 0 ≤ w.getD k 0 := by
    intro k
    rw [List.getD_eq_getElem?_getD]
    by_cases hk : k < w.length
    · rw [List.getElem?_eq_getElem hk]; exact hw0 _ (List.getElem_mem hk)
    · rw [List.getElem?_eq_none (Nat.le_of_not_lt hk)]; exact le_refl _
  have hlo : ((List.range w.length).map (fun k => w.getD k 0 * lo)).sum = lo := by
    rw [List.sum_map_mul_right, sum_range_getD, hw, one_mul]
  have hhi : ((List.range w.length).map (fun k => w.getD k 0 * hi)).sum = hi := by
    rw [List.sum_map_mul_right, sum_range_getD, hw, one_mul]
  constructor
  · calc lo = ((List.range w.length).map (fun k => w.getD k 0 * lo)).sum := hlo.symm
      _ ≤ _ := List.sum_le_sum (fun k _ => mul_le_mul_of_nonneg_left (hg k).1 (hnn k))
  · calc _ ≤ ((List.range w.length).map (fun k => w.getD k 0 * hi)).sum :=
          List.sum_le_sum (fun k _ => mul_le_mul_of_nonneg_left (hg k).2 (hnn k))
      _ = hi := hhi

theorem filt_minmax (w x : List Rat) (lo hi : Rat) (hw0 : ∀ v ∈ w, 0 ≤ v) (hw : w.sum = 1)
    (hx : ∀ v ∈ x, lo ≤ v ∧ v ≤ hi) : ∀ y ∈ filt w x, lo ≤ y ∧ y ≤ hi := by
  intro y hy
  rw [filt_eq, List.mem_map] at hy
  obtain ⟨i, hi', rfl⟩ := hy
  have hne : x ≠ [] := by
    intro h; subst h; simp at hi'
  exact weighted_mean_bounds w _ lo hi hw0 hw (fun k => hx _ (clampGet_mem hne _))

/-- symmetric kernel: `w[k] = w[len-1-k]` -/
theorem getD_of_reverse_eq {w : List Rat} (hsym : w.reverse = w) {k : Nat} (hk : k < w.length) :
    w.getD (w.length - 1 - k) 0 = w.getD k 0 := by
  conv_rhs => rw [← hsym]
  rw [List.getD_eq_getElem?_getD, List.getD_eq_getElem?_getD, List.getElem?_reverse hk]

theorem filtAt_reverse (w x : List Rat) (r : Nat) (hlen : w.length = 2 * r + 1) (hsym : w.reverse = w)
    (i : Nat) (hi : i < x.length) :
    filtAt w x.reverse i = filtAt w x (x.length - 1 - i) := by
  unfold filtAt
  rw [sum_range_reflect]
  apply congrArg
  apply List.map_congr_left
  intro k hk
  have hk' : k < w.length := List.mem_range.mp hk
  rw [getD_of_reverse_eq hsym hk', clampGet_reverse]
  congr 2
  have : w.length / 2 = r := by omega
  rw [this]
  omega

theorem filt_reverse (w x : List Rat) (r : Nat) (hlen : w.length = 2 * r + 1) (hsym : w.reverse = w) :
    filt w x.reverse = (filt w x).reverse := by
  apply List.ext_getElem
  · simp [filt_length]
  · intro i h1 h2
    have hi : i < x.length := by simpa [filt_length] using h1
    rw [List.getElem_reverse]
    simp only [filt_eq, List.getElem_map, List.getElem_range, List.length_reverse, List.length_map, List.length_range]
    exact filtAt_reverse w x r hlen hsym i hi

/-! ### `filtTable` -/

theorem filtTable_length (w : List Rat) (t : List (List Rat)) : (filtTable w t).length = t.length := by
  simp [filtTable]

theorem filtTable_row_length (w : List Rat) (t : List (List Rat)) :
    ∀ row ∈ filtTable w t, row.length = (t.headD []).length := by
  intro row h
  simp only [filtTable, List.mem_map] at h
  obtain ⟨i, _, rfl⟩ := h
  simp

theorem column_length (t : List (List Rat)) (j : Nat) : (column t j).length = t.length := by
  simp [column]

theorem filtTable_column (w : List Rat) (t : List (List Rat)) (j : Nat) (hj : j < (t.headD []).length) :
    column (filtTable w t) j = filt w (column t j) := by
  apply List.ext_getElem
  · simp [column_length, filtTable_length, filt_length]
  · intro i h1 h2
    have hi : i < t.length := by simpa [column_length, filtTable_length] using h1
    simp only [column, filtTable, List.getElem_map, List.getElem_range, List.map_map]
    simp only [List.getD_eq_getElem?_getD, List.getElem?_map, List.getElem?_range hj, Option.map_some,
      Option.getD_some, Function.comp]
    rw [List.getElem?_eq_getElem (by simpa [filt_length, column_length] using hi)]
    simp

theorem filtTable_shape (w : List Rat) (t : List (List Rat))
    (hrect : ∀ row ∈ t, row.length = (t.headD []).length) :
    (filtTable w t).map List.length = t.map List.length := by
  apply List.ext_getElem
  · simp [filtTable]
  · intro i h1 h2
    have hi : i < t.length := by simpa using h2
    simp only [List.getElem_map]
    rw [hrect _ (List.getElem_mem hi)]
    simp [filtTable]

/-! ### running mean -/

theorem runningMean_length (x : List Rat) (w : Nat) : (runningMean x w).length = x.length := by
  simp [runningMean]

theorem zeroGet_natCast (x : List Rat) (i : Nat) : zeroGet x (i : Int) = x.getD i 0 := by
  unfold zeroGet
  by_cases hi : i < x.length
  · have : ¬ (((i : Int) < 0) ∨ (i : Int) ≥ x.length) := by omega
    rw [if_neg this]; simp
  · have : (((i : Int) < 0) ∨ (i : Int) ≥ x.length) := by omega
    rw [if_pos this, List.getD_eq_getElem?_getD, List.getElem?_eq_none (Nat.le_of_not_lt hi)]; rfl

theorem runningMean_one (x : List Rat) : runningMean x 1 = x := by
  apply List.ext_getElem
  · simp [runningMean]
  · intro i h1 h2
    simp only [runningMean, List.getElem_map, List.getElem_range]
    have : ((i : Int) - ((1 / 2 : Nat) : Int) + ((0 : Nat) : Int)) = (i : Int) := by simp
    simp [List.range_succ, zeroGet_natCast, List.getD_eq_getElem?_getD, h2]

/-- sum over a filtered list as an indicator sum -/
theorem sum_map_filter {α : Type} (l : List α) (p : α → Bool) (f : α → Rat) :
    ((l.filter p).map f).sum = (l.map (fun a => if p a then f a else 0)).sum := by
  induction l with
  | nil => rfl
  | cons a l ih =>
    rw [List.filter_cons]
    split <;> simp_all

/-- picking one index out of a range -/
theorem sum_range_ite_eq (n : Nat) (a : Int) (f : Nat → Rat) :
    ((List.range n).map (fun (j : Nat) => if (j : Int) = a then f j else 0)).sum
      = if 0 ≤ a ∧ a < n then f a.toNat else 0 := by
  induction n with
  | zero =>
    have : ¬ (0 ≤ a ∧ a < ((0 : Nat) : Int)) := by omega
    rw [if_neg this]; rfl
  | succ n ih =>
    rw [List.range_succ, List.map_append, List.sum_append, ih]
    simp only [List.map_cons, List.map_nil, List.sum_cons, List.sum_nil, add_zero]
    by_cases h1 : (n : Int) = a
    · have h2 : ¬ (0 ≤ a ∧ a < (n : Int)) := by omega
      have h3 : 0 ≤ a ∧ a < ((n + 1 : Nat) : Int) := by omega
      rw [if_neg h2, if_pos h1, if_pos h3, zero_add, ← h1]; rfl
    · by_cases h2 : 0 ≤ a ∧ a < n
      · have h3 : 0 ≤ a ∧ a < ((n + 1 : Nat) : Int) := by omega
        rw [if_pos h2, if_neg h1, if_pos h3, add_zero]
      · have h3 : ¬ (0 ≤ a ∧ a < ((n + 1 : Nat) : Int)) := by omega
        rw [if_neg h2, if_neg h1, if_neg h3, add_zero]

theorem zeroGet_eq_ite (x : List Rat) (a : Int) :
    zeroGet x a = if 0 ≤ a ∧ a < x.length then x.getD a.toNat 0 else 0 := by
  unfold zeroGet
  by_cases h : a < 0 ∨ a ≥ x.length
  · have : ¬ (0 ≤ a ∧ a < x.length) := by omega
    rw [if_pos h, if_neg this]
  · have : (0 ≤ a ∧ a < x.length) := by omega
    rw [if_neg h, if_pos this]

/-- a run of `m` consecutive zero-padded samples starting at `lo` is the sum over the in-range indices of the window -/
theorem window_sum (x : List Rat) (lo : Int) (m : Nat) :
    ((List.range m).map (fun (k : Nat) => zeroGet x (lo + (k : Int)))).sum
      = ((List.range x.length).map (fun (j : Nat) =>
          if lo ≤ (j : Int) ∧ (j : Int) < lo + m then x.getD j 0 else 0)).sum := by
  induction m with
  | zero =>
    simp only [List.range_zero, List.map_nil, List.sum_nil]
    symm
    apply List.sum_eq_zero
    intro v hv
    simp only [List.mem_map] at hv
    obtain ⟨j, _, rfl⟩ := hv
    rw [if_neg (by omega)]
  | succ m ih =>
    rw [List.range_succ, List.map_append, List.sum_append, ih]
    simp only [List.map_cons, List.map_nil, List.sum_cons, List.sum_nil, add_zero]
    rw [zeroGet_eq_ite, ← sum_range_ite_eq x.length (lo + m) (fun j => x.getD j 0), ← List.sum_map_add]
    apply congrArg
    apply List.map_congr_left
    intro j _
    by_cases h1 : (j : Int) = lo + m
    · have h2 : ¬ (lo ≤ (j : Int) ∧ (j : Int) < lo + m) := by omega
      have h3 : (lo ≤ (j : Int) ∧ (j : Int) < lo + ((m + 1 : Nat) : Int)) := by omega
      rw [if_neg h2, if_pos h1, if_pos h3, zero_add]
    · by_cases h2 : (lo ≤ (j : Int) ∧ (j : Int) < lo + m)
      · have h3 : (lo ≤ (j : Int) ∧ (j : Int) < lo + ((m + 1 : Nat) : Int)) := by omega
        rw [if_pos h2, if_neg h1, if_pos h3, add_zero]
      · have h3 : ¬ (lo ≤ (j : Int) ∧ (j : Int) < lo + ((m + 1 : Nat) : Int)) := by omega
        rw [if_neg h2, if_neg h1, if_neg h3, add_zero]

theorem runningMean_eq_doc (x : List Rat) (w : Nat) (hw : 1 ≤ w) : runningMean x w = runningMeanDoc x w := by
  unfold runningMean runningMeanDoc
  apply List.map_congr_left
  intro i _
  simp only
  congr 1
  rw [sum_map_filter, window_sum]
  apply congrArg
  apply List.map_congr_left
  intro j _
  have hw2 : ((w / 2 : Nat) : Int) + (((w - 1) / 2 : Nat) : Int) = (w : Int) - 1 := by omega
  have e : ∀ (a b : Int), ((decide (a ≤ (j : Int)) && decide ((j : Int) ≤ b)) = true) ↔ (a ≤ (j : Int) ∧ (j : Int) ≤ b) := by
    intro a b; simp
  by_cases h : (i : Int) - ((w / 2 : Nat) : Int) ≤ (j : Int) ∧ (j : Int) < (i : Int) - ((w / 2 : Nat) : Int) + w
  · have h' : (i : Int) - ((w / 2 : Nat) : Int) ≤ (j : Int) ∧ (j : Int) ≤ (i : Int) + (((w - 1) / 2 : Nat) : Int) := by omega
    rw [if_pos h, if_pos ((e _ _).mpr h')]
  · have h' : ¬ ((i : Int) - ((w / 2 : Nat) : Int) ≤ (j : Int) ∧ (j : Int) ≤ (i : Int) + (((w - 1) / 2 : Nat) : Int)) := by omega
    rw [if_neg h, if_neg (fun hh => h' ((e _ _).mp hh))]

/-! ### Chapman–Kolmogorov time grid -/

theorem ckTimes_length (lag tmax : Nat) : (ckTimes lag tmax).length = tmax / lag := by
  simp [ckTimes]

theorem ckTimes_getElem (lag tmax k : Nat) (hk : k < (ckTimes lag tmax).length) :
    (ckTimes lag tmax)[k] = (k + 1) * lag := by
  simp [ckTimes]

theorem ckTimes_mem {lag tmax t : Nat} : t ∈ ckTimes lag tmax ↔ ∃ k, k < tmax / lag ∧ t = (k + 1) * lag := by
  simp only [ckTimes, List.mem_map, List.mem_range]
  constructor
  · rintro ⟨k, hk, rfl⟩; exact ⟨k, hk, rfl⟩
  · rintro ⟨k, hk, rfl⟩; exact ⟨k, hk, rfl⟩

theorem ckTimes_mem_bounds {lag tmax t : Nat} (ht : t ∈ ckTimes lag tmax) :
    t ≤ tmax ∧ lag ∣ t ∧ lag ≤ t := by
  obtain ⟨k, hk, rfl⟩ := ckTimes_mem.mp ht
  refine ⟨?_, Nat.dvd_mul_left _ _, Nat.le_mul_of_pos_left _ (Nat.succ_pos k)⟩
  calc (k + 1) * lag ≤ (tmax / lag) * lag := Nat.mul_le_mul_right _ hk
    _ ≤ tmax := Nat.div_mul_le_self _ _

theorem ckTimes_pairwise (lag tmax : Nat) (hlag : 1 ≤ lag) : (ckTimes lag tmax).Pairwise (· < ·) := by
  unfold ckTimes
  rw [List.pairwise_map]
  refine List.Pairwise.imp ?_ List.pairwise_lt_range
  intro a b hab
  exact Nat.mul_lt_mul_of_pos_right (Nat.succ_lt_succ hab) hlag

theorem ckTimes_next_gt (lag tmax : Nat) (hlag : 1 ≤ lag) : tmax < (tmax / lag + 1) * lag := by
  rw [Nat.mul_comm]
  exact Nat.lt_mul_div_succ tmax hlag

theorem ckTimes_eq_nil (lag tmax : Nat) (hlag : 1 ≤ lag) : ckTimes lag tmax = [] ↔ tmax < lag := by
  rw [← List.length_eq_zero_iff, ckTimes_length, Nat.div_eq_zero_iff]
  omega

/-! ### reference grid predicate -/

theorem zip_tail_all_iff_pairwise (l : List Nat) :
    (l.zip l.tail).all (fun p => decide (p.1 < p.2)) = true ↔ l.Pairwise (· < ·) := by
  induction l with
  | nil => simp
  | cons a l ih =>
    cases l with
    | nil => simp
    | cons b l =>
      simp only [List.tail_cons, List.zip_cons_cons, List.all_cons, Bool.and_eq_true, decide_eq_true_eq] at ih ⊢
      rw [List.pairwise_cons, ih]
      constructor
      · rintro ⟨hab, hp⟩
        refine ⟨?_, hp⟩
        intro c hc
        rcases List.mem_cons.mp hc with rfl | hc
        · exact hab
        · exact Nat.lt_trans hab ((List.pairwise_cons.mp hp).1 c hc)
      · rintro ⟨h, hp⟩
        exact ⟨h b List.mem_cons_self, hp⟩

theorem refGridOk_iff (times : List Nat) (tmin tmax : Nat) :
    refGridOk times tmin tmax = true ↔
      times.head? = some tmin ∧ (∀ t ∈ times, t ≤ tmax) ∧ times.Pairwise (· < ·) := by
  unfold refGridOk
  rw [Bool.and_eq_true, Bool.and_eq_true, zip_tail_all_iff_pairwise]
  simp [and_assoc]

/-! ### sub-stochastic matrices and their powers -/

/-- `n × n`, non-negative entries, every row sums to at most one -/
def SubStoch (n : Nat) (m : Mat) : Prop :=
  m.length = n ∧ (∀ r ∈ m, r.length = n) ∧ (∀ r ∈ m, ∀ v ∈ r, 0 ≤ v) ∧ (∀ r ∈ m, r.sum ≤ 1)

theorem dot_cons (a b : Rat) (r c : Vec) : dot (a :: r) (b :: c) = a * b + dot r c := by
  simp [dot]

theorem dot_nil_left (c : Vec) : dot [] c = 0 := by simp [dot]

theorem transpose_of_rows {n : Nat} {m : Mat} (hne : m ≠ []) (hrow : ∀ r ∈ m, r.length = n) :
    transpose m = (List.range n).map (fun j => m.map (fun row => row.getD j 0)) := by
  cases m with
  | nil => exact absurd rfl hne
  | cons r rest =>
    simp only [transpose]
    rw [hrow r List.mem_cons_self]

theorem dot_nonneg {r c : Vec} (hr : ∀ v ∈ r, 0 ≤ v) (hc : ∀ v ∈ c, 0 ≤ v) : 0 ≤ dot r c := by
  unfold dot
  apply List.sum_nonneg
  intro v hv
  obtain ⟨p, hp, rfl⟩ := List.mem_map.mp hv
  exact mul_nonneg (hr _ (List.of_mem_zip hp).1) (hc _ (List.of_mem_zip hp).2)

/-- `Σ_j (r · column_j B) = Σ_k r_k · (row sum of B_k)` — exchange of the two summations, by recursion on the rows -/
theorem sum_dot_columns (n : Nat) : ∀ (r : Vec) (B : Mat), r.length = B.length → (∀ b ∈ B, b.length = n) →
    ((List.range n).map (fun j => dot r (B.map (fun row => row.getD j 0)))).sum
      = ((r.zip B).map (fun p => p.1 * p.2.sum)).sum
  | [], B, _, _ => by
    simp only [dot_nil_left, List.zip_nil_left, List.map_nil, List.sum_nil]
    apply List.sum_eq_zero
    intro v hv
    obtain ⟨j, _, rfl⟩ := List.mem_map.mp hv
    rfl
  | a :: r, [], h, _ => by simp at h
  | a :: r, b :: B, h, hB => by
    have hb : b.length = n := hB b List.mem_cons_self
    have ih := sum_dot_columns n r B (by simpa using h) (fun b' hb' => hB b' (List.mem_cons_of_mem _ hb'))
    simp only [List.map_cons, dot_cons, List.zip_cons_cons, List.sum_cons]
    rw [List.sum_map_add, List.sum_map_mul_left, ih]
    congr 2
    rw [← hb]
    exact sum_range_getD b

/-- a non-negative combination of numbers `≤ 1` is at most the sum of the coefficients -/
theorem sum_zip_mul_le (r : Vec) (B : Mat) (hr : ∀ v ∈ r, 0 ≤ v) (hB : ∀ b ∈ B, b.sum ≤ 1) :
    ((r.zip B).map (fun p => p.1 * p.2.sum)).sum ≤ r.sum := by
  induction r generalizing B with
  | nil => simp
  | cons a r ih =>
    cases B with
    | nil =>
      simp only [List.zip_nil_right, List.map_nil, List.sum_nil]
      exact List.sum_nonneg hr
    | cons b B =>
      simp only [List.zip_cons_cons, List.map_cons, List.sum_cons]
      have h1 : a * b.sum ≤ a := by
        have := mul_le_mul_of_nonneg_left (hB b List.mem_cons_self) (hr a List.mem_cons_self)
        simpa using this
      have h2 := ih B (fun v hv => hr v (List.mem_cons_of_mem _ hv)) (fun b' hb' => hB b' (List.mem_cons_of_mem _ hb'))
      linarith

theorem subStoch_identity (n : Nat) : SubStoch n (identity n) := by
  refine ⟨by simp [identity], ?_, ?_, ?_⟩
  · intro r hr
    simp only [identity, List.mem_map] at hr
    obtain ⟨i, _, rfl⟩ := hr
    simp
  · intro r hr v hv
    simp only [identity, List.mem_map] at hr
    obtain ⟨i, _, rfl⟩ := hr
    obtain ⟨j, _, rfl⟩ := List.mem_map.mp hv
    split <;> decide
  · intro r hr
    simp only [identity, List.mem_map] at hr
    obtain ⟨i, hi, rfl⟩ := hr
    have := sum_range_ite_eq n (i : Int) (fun _ => (1 : Rat))
    have e : (List.map (fun j => if i = j then (1 : Rat) else 0) (List.range n))
        = (List.map (fun (j : Nat) => if (j : Int) = (i : Int) then (1 : Rat) else 0) (List.range n)) := by
      apply List.map_congr_left
      intro j _
      by_cases hij : i = j
      · subst hij; simp
      · have : ¬ ((j : Int) = (i : Int)) := by omega
        rw [if_neg hij, if_neg this]
    rw [e, this]
    split <;> decide

theorem subStoch_mul {n : Nat} {A B : Mat} (hA : SubStoch n A) (hB : SubStoch n B) : SubStoch n (mul A B) := by
  obtain ⟨hAl, hAr, hA0, hA1⟩ := hA
  obtain ⟨hBl, hBr, hB0, hB1⟩ := hB
  by_cases hn : n = 0
  · subst hn
    have : A = [] := List.length_eq_zero_iff.mp hAl
    subst this
    exact ⟨rfl, by simp [mul], by simp [mul], by simp [mul]⟩
  have hBne : B ≠ [] := by
    intro h; subst h; simp at hBl; omega
  have htr := transpose_of_rows hBne hBr
  have hmul : mul A B = A.map (fun row => (List.range n).map (fun j => dot row (B.map (fun r => r.getD j 0)))) := by
    simp only [mul, htr, List.map_map]; rfl
  rw [hmul]
  refine ⟨by simpa using hAl, ?_, ?_, ?_⟩
  · intro r hr
    obtain ⟨row, _, rfl⟩ := List.mem_map.mp hr
    simp
  · intro r hr v hv
    obtain ⟨row, hrow, rfl⟩ := List.mem_map.mp hr
    obtain ⟨j, _, rfl⟩ := List.mem_map.mp hv
    apply dot_nonneg (hA0 row hrow)
    intro c hc
    obtain ⟨r', hr', rfl⟩ := List.mem_map.mp hc
    rw [List.getD_eq_getElem?_getD]
    by_cases hj : j < r'.length
    · rw [List.getElem?_eq_getElem hj]; exact hB0 r' hr' _ (List.getElem_mem hj)
    · rw [List.getElem?_eq_none (Nat.le_of_not_lt hj)]; exact le_refl _
  · intro r hr
    obtain ⟨row, hrow, rfl⟩ := List.mem_map.mp hr
    rw [sum_dot_columns n row B (by rw [hAr row hrow, hBl]) hBr]
    exact le_trans (sum_zip_mul_le row B (hA0 row hrow) hB1) (hA1 row hrow)

theorem subStoch_pow {n : Nat} {T : Mat} (hT : SubStoch n T) (k : Nat) : SubStoch n (pow T k) := by
  induction k with
  | zero => rw [pow, hT.1]; exact subStoch_identity n
  | succ k ih => rw [pow]; exact subStoch_mul ih hT

theorem le_sum_of_mem_nonneg {l : List Rat} (h0 : ∀ v ∈ l, 0 ≤ v) {x : Rat} (hx : x ∈ l) : x ≤ l.sum := by
  induction l with
  | nil => simp at hx
  | cons a l ih =>
    rw [List.sum_cons]
    have ha : 0 ≤ a := h0 a List.mem_cons_self
    have hl : 0 ≤ l.sum := List.sum_nonneg (fun v hv => h0 v (List.mem_cons_of_mem _ hv))
    rcases List.mem_cons.mp hx with rfl | hx
    · linarith
    · have := ih (fun v hv => h0 v (List.mem_cons_of_mem _ hv)) hx
      linarith

theorem subStoch_entry_unit {n : Nat} {m : Mat} (hm : SubStoch n m) (i j : Nat) :
    0 ≤ entry m i j ∧ entry m i j ≤ 1 := by
  obtain ⟨_, _, h0, h1⟩ := hm
  unfold entry
  rw [List.getD_eq_getElem?_getD (l := m)]
  by_cases hi : i < m.length
  · rw [List.getElem?_eq_getElem hi, Option.getD_some, List.getD_eq_getElem?_getD]
    have hrow := List.getElem_mem hi
    by_cases hj : j < m[i].length
    · rw [List.getElem?_eq_getElem hj, Option.getD_some]
      have hmem := List.getElem_mem hj
      exact ⟨h0 _ hrow _ hmem, le_trans (le_sum_of_mem_nonneg (h0 _ hrow) hmem) (h1 _ hrow)⟩
    · rw [List.getElem?_eq_none (Nat.le_of_not_lt hj)]; decide
  · rw [List.getElem?_eq_none (Nat.le_of_not_lt hi)]
    simp

/-! ### Chapman–Kolmogorov curves -/

theorem ckCurves_length (T : Mat) (lag tmax : Nat) : (ckCurves T lag tmax).length = T.length := by
  simp [ckCurves]

theorem ckCurves_curve_length (T : Mat) (lag tmax : Nat) :
    ∀ c ∈ ckCurves T lag tmax, c.length = (ckTimes lag tmax).length := by
  intro c hc
  simp only [ckCurves, List.mem_map] at hc
  obtain ⟨s, _, rfl⟩ := hc
  simp [ckTimes]

theorem ckCurves_getElem (T : Mat) (lag tmax s k : Nat) (hs : s < (ckCurves T lag tmax).length)
    (hk : k < ((ckCurves T lag tmax)[s]).length) :
    ((ckCurves T lag tmax)[s])[k] = entry (pow T (k + 1)) s s := by
  simp [ckCurves]

/-! ### rounding trees (C12) -/

theorem absQ_eq_abs (r : Rat) : FloatModel.absQ r = |r| := by
  unfold FloatModel.absQ
  split
  · rename_i h; rw [abs_of_neg h]
  · rename_i h; rw [abs_of_nonneg (not_lt.mp h)]

theorem Tree.exact_eq_sum (t : Tree) : t.exact = t.leaves.sum := by
  induction t with
  | leaf x => simp [Tree.exact, Tree.leaves]
  | node l r δ ihl ihr => simp [Tree.exact, Tree.leaves, ihl, ihr]

theorem Tree.absSum_eq_sum (t : Tree) : t.absSum = (t.leaves.map (fun x => |x|)).sum := by
  induction t with
  | leaf x => simp [Tree.absSum, Tree.leaves, absQ_eq_abs]
  | node l r δ ihl ihr => simp [Tree.absSum, Tree.leaves, ihl, ihr]

theorem Tree.absSum_nonneg (t : Tree) : 0 ≤ t.absSum := by
  rw [Tree.absSum_eq_sum]
  apply List.sum_nonneg
  intro v hv
  obtain ⟨x, _, rfl⟩ := List.mem_map.mp hv
  exact abs_nonneg x

theorem Tree.abs_exact_le (t : Tree) : |t.exact| ≤ t.absSum := by
  induction t with
  | leaf x => simp [Tree.exact, Tree.absSum, absQ_eq_abs]
  | node l r δ ihl ihr =>
    simp only [Tree.exact, Tree.absSum]
    exact le_trans (abs_add_le _ _) (add_le_add ihl ihr)

theorem Tree.leaves_length_pos (t : Tree) : 1 ≤ t.leaves.length := by
  induction t with
  | leaf x => simp [Tree.leaves]
  | node l r δ ihl ihr => simp [Tree.leaves]; omega

theorem Tree.depth_le (t : Tree) : t.depth ≤ t.leaves.length - 1 := by
  induction t with
  | leaf x => simp [Tree.depth]
  | node l r δ ihl ihr =>
    have hl := Tree.leaves_length_pos l
    have hr := Tree.leaves_length_pos r
    simp only [Tree.depth, Tree.leaves, List.length_append]
    omega

/-- standard forward error bound of a summation tree -/
theorem Tree.error_bound (u : Rat) (hu : 0 ≤ u) (t : Tree) (hb : t.bounded u) :
    |t.computed - t.exact| ≤ ((1 + u) ^ t.depth - 1) * t.absSum := by
  induction t with
  | leaf x => simp [Tree.computed, Tree.exact, Tree.depth]
  | node l r δ ihl ihr =>
    obtain ⟨hδ, hbl, hbr⟩ := hb
    rw [absQ_eq_abs] at hδ
    have ihl := ihl hbl
    have ihr := ihr hbr
    simp only [Tree.computed, Tree.exact, Tree.depth, Tree.absSum]
    set d := max l.depth r.depth with hd
    have h1u : (1 : Rat) ≤ 1 + u := by linarith
    have hpl : (1 + u) ^ l.depth ≤ (1 + u) ^ d := pow_le_pow_right₀ h1u (le_max_left _ _)
    have hpr : (1 + u) ^ r.depth ≤ (1 + u) ^ d := pow_le_pow_right₀ h1u (le_max_right _ _)
    have hSl := Tree.absSum_nonneg l
    have hSr := Tree.absSum_nonneg r
    have hP : (1 : Rat) ≤ (1 + u) ^ d := one_le_pow₀ h1u
    -- errors of the two subtrees, with the common exponent
    have el : |l.computed - l.exact| ≤ ((1 + u) ^ d - 1) * l.absSum :=
      le_trans ihl (mul_le_mul_of_nonneg_right (by linarith) hSl)
    have er : |r.computed - r.exact| ≤ ((1 + u) ^ d - 1) * r.absSum :=
      le_trans ihr (mul_le_mul_of_nonneg_right (by linarith) hSr)
    -- sizes of the computed subtree sums
    have cl : |l.computed| ≤ (1 + u) ^ d * l.absSum := by
      have h := abs_add_le (l.computed - l.exact) l.exact
      rw [sub_add_cancel] at h
      have := Tree.abs_exact_le l
      nlinarith
    have cr : |r.computed| ≤ (1 + u) ^ d * r.absSum := by
      have h := abs_add_le (r.computed - r.exact) r.exact
      rw [sub_add_cancel] at h
      have := Tree.abs_exact_le r
      nlinarith
    have hsum : |l.computed + r.computed| ≤ (1 + u) ^ d * (l.absSum + r.absSum) := by
      have := abs_add_le l.computed r.computed
      nlinarith
    have hprod : |(l.computed + r.computed) * δ| ≤ (1 + u) ^ d * (l.absSum + r.absSum) * u := by
      rw [abs_mul]
      exact mul_le_mul hsum hδ (abs_nonneg _) (by positivity)
    have hsplit : (l.computed + r.computed) * (1 + δ) - (l.exact + r.exact)
        = (l.computed - l.exact) + (r.computed - r.exact) + (l.computed + r.computed) * δ := by ring
    rw [hsplit]
    have h3 := abs_add_le ((l.computed - l.exact) + (r.computed - r.exact)) ((l.computed + r.computed) * δ)
    have h4 := abs_add_le (l.computed - l.exact) (r.computed - r.exact)
    have hgoal : ((1 + u) ^ (d + 1) - 1) * (l.absSum + r.absSum)
        = ((1 + u) ^ d - 1) * l.absSum + ((1 + u) ^ d - 1) * r.absSum
          + (1 + u) ^ d * (l.absSum + r.absSum) * u := by ring
    rw [hgoal]
    linarith

/-- the same bound with the number of leaves `N` in place of the depth -/
theorem Tree.error_bound_leaves (u : Rat) (hu : 0 ≤ u) (t : Tree) (hb : t.bounded u) :
    |t.computed - t.exact| ≤ ((1 + u) ^ (t.leaves.length - 1) - 1) * t.absSum := by
  refine le_trans (Tree.error_bound u hu t hb) ?_
  apply mul_le_mul_of_nonneg_right _ (Tree.absSum_nonneg t)
  have h1u : (1 : Rat) ≤ 1 + u := by linarith
  have := pow_le_pow_right₀ h1u (Tree.depth_le t)
  linarith

/-- `(1+u)^N (1 - N u) ≤ 1` for `u ≥ 0` -/
theorem pow_mul_one_sub_le (u : Rat) (hu : 0 ≤ u) (N : Nat) : (1 + u) ^ N * (1 - N * u) ≤ 1 := by
  induction N with
  | zero => simp
  | succ N ih =>
    have hp : (0 : Rat) ≤ (1 + u) ^ N := by positivity
    have h : (1 + u) * (1 - ((N + 1 : Nat) : Rat) * u) ≤ 1 - N * u := by
      push_cast
      nlinarith [mul_nonneg hu hu, mul_nonneg (Nat.cast_nonneg (α := Rat) N) (mul_nonneg hu hu)]
    calc (1 + u) ^ (N + 1) * (1 - ((N + 1 : Nat) : Rat) * u)
        = (1 + u) ^ N * ((1 + u) * (1 - ((N + 1 : Nat) : Rat) * u)) := by ring
      _ ≤ (1 + u) ^ N * (1 - N * u) := mul_le_mul_of_nonneg_left h hp
      _ ≤ 1 := ih

/-- unit roundoff of IEEE double precision -/
def uDouble : Rat := 1 / 2 ^ 53

theorem pow_bound_1e9 (u : Rat) (hu0 : 0 ≤ u) (hu : u ≤ uDouble) (N : Nat) (hN : N ≤ 10 ^ 5) :
    (1 + u) ^ N - 1 < 12 / 10 ^ 12 := by
  have h := pow_mul_one_sub_le u hu0 N
  have hNq : (N : Rat) ≤ 10 ^ 5 := by exact_mod_cast hN
  have hNu : (N : Rat) * u ≤ 10 ^ 5 / 2 ^ 53 := by
    have : (N : Rat) * u ≤ 10 ^ 5 * uDouble := mul_le_mul hNq hu hu0 (by norm_num)
    rw [uDouble] at this
    linarith
  have hp : (1 : Rat) ≤ (1 + u) ^ N := one_le_pow₀ (by linarith)
  -- (1+u)^N (1 - c) ≤ (1+u)^N (1 - N u) ≤ 1 with c = 10^5/2^53
  have h2 : (1 + u) ^ N * (1 - 10 ^ 5 / 2 ^ 53) ≤ 1 := by
    refine le_trans (mul_le_mul_of_nonneg_left ?_ (by linarith)) h
    linarith
  by_contra hcon
  rw [not_lt] at hcon
  have h3 : (1 + 12 / 10 ^ 12 : Rat) * (1 - 10 ^ 5 / 2 ^ 53) ≤ (1 + u) ^ N * (1 - 10 ^ 5 / 2 ^ 53) :=
    mul_le_mul_of_nonneg_right (by linarith) (by norm_num)
  have h4 : (1 : Rat) < (1 + 12 / 10 ^ 12 : Rat) * (1 - 10 ^ 5 / 2 ^ 53) := by norm_num
  linarith


theorem Tree.absSum_le_length (t : Tree) (h01 : ∀ x ∈ t.leaves, 0 ≤ x ∧ x ≤ 1) :
    t.absSum ≤ (t.leaves.length : Rat) := by
  rw [Tree.absSum_eq_sum]
  have h := List.sum_le_card_nsmul (t.leaves.map (fun x => |x|)) 1 (by
    intro v hv
    obtain ⟨x, hx, rfl⟩ := List.mem_map.mp hv
    rw [abs_of_nonneg (h01 x hx).1]; exact (h01 x hx).2)
  simpa using h

/-- one schedule: the computed mean of `N ≤ 10^5` terms in `[0,1]` is within `1.2·10⁻¹¹` of the exact mean -/
theorem Tree.mean_error (u : Rat) (hu0 : 0 ≤ u) (hu : u ≤ uDouble) (t : Tree) (hb : t.bounded u)
    (h01 : ∀ x ∈ t.leaves, 0 ≤ x ∧ x ≤ 1) (hN : t.leaves.length ≤ 10 ^ 5) :
    |t.computed - t.exact| / (t.leaves.length : Rat) < 12 / 10 ^ 12 := by
  have hpos : (0 : Rat) < (t.leaves.length : Rat) := by
    exact_mod_cast Tree.leaves_length_pos t
  have hB := pow_bound_1e9 u hu0 hu (t.leaves.length - 1) (by omega)
  have hB0 : (0 : Rat) ≤ (1 + u) ^ (t.leaves.length - 1) - 1 := by
    have := one_le_pow₀ (M₀ := Rat) (a := 1 + u) (n := t.leaves.length - 1) (by linarith)
    linarith
  have h1 := Tree.error_bound_leaves u hu0 t hb
  have h2 := Tree.absSum_le_length t h01
  rw [div_lt_iff₀ hpos]
  calc |t.computed - t.exact| ≤ ((1 + u) ^ (t.leaves.length - 1) - 1) * t.absSum := h1
    _ ≤ ((1 + u) ^ (t.leaves.length - 1) - 1) * (t.leaves.length : Rat) := mul_le_mul_of_nonneg_left h2 hB0
    _ < 12 / 10 ^ 12 * (t.leaves.length : Rat) := mul_lt_mul_of_pos_right hB hpos

theorem Tree.two_schedules (u : Rat) (hu0 : 0 ≤ u) (hu : u ≤ uDouble) (t₁ t₂ : Tree)
    (hperm : t₁.leaves.Perm t₂.leaves) (hb₁ : t₁.bounded u) (hb₂ : t₂.bounded u)
    (h01 : ∀ x ∈ t₁.leaves, 0 ≤ x ∧ x ≤ 1) (hN : t₁.leaves.length ≤ 10 ^ 5) :
    |t₁.computed - t₂.computed| / (t₁.leaves.length : Rat) < 1 / 10 ^ 9 := by
  have hlen : t₂.leaves.length = t₁.leaves.length := hperm.length_eq.symm
  have h01' : ∀ x ∈ t₂.leaves, 0 ≤ x ∧ x ≤ 1 := fun x hx => h01 x (hperm.mem_iff.mpr hx)
  have he : t₁.exact = t₂.exact := by
    rw [Tree.exact_eq_sum, Tree.exact_eq_sum]; exact hperm.sum_eq
  have m1 := Tree.mean_error u hu0 hu t₁ hb₁ h01 hN
  have m2 := Tree.mean_error u hu0 hu t₂ hb₂ h01' (by omega)
  rw [hlen, ← he] at m2
  have hpos : (0 : Rat) < (t₁.leaves.length : Rat) := by
    exact_mod_cast Tree.leaves_length_pos t₁
  have htri : |t₁.computed - t₂.computed| ≤ |t₁.computed - t₁.exact| + |t₂.computed - t₁.exact| := by
    have := abs_sub_le t₁.computed t₁.exact t₂.computed
    rwa [abs_sub_comm t₁.exact t₂.computed] at this
  calc |t₁.computed - t₂.computed| / (t₁.leaves.length : Rat)
      ≤ (|t₁.computed - t₁.exact| + |t₂.computed - t₁.exact|) / (t₁.leaves.length : Rat) :=
        div_le_div_of_nonneg_right htri hpos.le
    _ = |t₁.computed - t₁.exact| / (t₁.leaves.length : Rat)
        + |t₂.computed - t₁.exact| / (t₁.leaves.length : Rat) := add_div _ _ _
    _ < 12 / 10 ^ 12 + 12 / 10 ^ 12 := add_lt_add m1 m2
    _ < 1 / 10 ^ 9 := by norm_num

/-! ### implied timescales: classification of entries (C10) -/

/-- is the classification of what the code returns (first argument) acceptable for what the property requires (second)?
A NaN is acceptable where NaN or "positive or NaN" is required, a positive value where "positive" or "positive or NaN"
is required; an unspecific "positive or NaN" only where nothing more is required. -/
def admissible : Kind → Kind → Prop
  | .nan, .nan => True
  | .nan, .posOrNan => True
  | .pos, .pos => True
  | .pos, .posOrNan => True
  | .posOrNan, .posOrNan => True
  | _, _ => False

instance (a b : Kind) : Decidable (admissible a b) := by
  cases a <;> cases b <;> simp only [admissible] <;> infer_instance

theorem linalg_absQ_eq_abs (r : Rat) : Linalg.absQ r = |r| := by
  unfold Linalg.absQ
  split
  · rename_i h; rw [abs_of_neg h]
  · rename_i h; rw [abs_of_nonneg (not_lt.mp h)]

theorem codeKind_ne_posOrNan (re im : Rat) : codeKind re im ≠ .posOrNan := by
  unfold codeKind
  simp only
  split
  · simp
  · split <;> simp

theorem codeKind_real_inside (re : Rat) (h0 : 0 < re) (h1 : re < 1 - 1 / 1000000000) : codeKind re 0 = .pos := by
  unfold codeKind
  simp only
  have hlex : ¬ (re < 0 ∨ (re = 0 ∧ (0 : Rat) ≤ 0)) := by
    rintro (h | ⟨h, _⟩) <;> linarith
  rw [if_neg hlex]
  have : re * re + 0 * 0 < 1 := by nlinarith
  rw [if_pos this]

theorem codeKind_real_nonpos (re : Rat) (h0 : re ≤ 0) : codeKind re 0 = .nan := by
  unfold codeKind
  simp only
  have hlex : (re < 0 ∨ (re = 0 ∧ (0 : Rat) ≤ 0)) := by
    rcases lt_or_eq_of_le h0 with h | h
    · exact Or.inl h
    · exact Or.inr ⟨h, le_refl _⟩
  rw [if_pos hlex]

theorem codeKind_pos_iff (re im : Rat) :
    codeKind re im = .pos ↔ (0 < re ∨ (re = 0 ∧ 0 < im)) ∧ re * re + im * im < 1 := by
  unfold codeKind
  simp only
  by_cases hlex : re < 0 ∨ (re = 0 ∧ im ≤ 0)
  · rw [if_pos hlex]
    constructor
    · intro h; cases h
    · rintro ⟨h | ⟨h, h'⟩, _⟩
      · rcases hlex with h2 | ⟨h2, _⟩ <;> linarith
      · rcases hlex with h2 | ⟨_, h2⟩ <;> linarith
  · rw [if_neg hlex]
    have hl : 0 < re ∨ (re = 0 ∧ 0 < im) := by
      by_contra hc
      apply hlex
      rcases lt_trichotomy re 0 with h | h | h
      · exact Or.inl h
      · refine Or.inr ⟨h, ?_⟩
        by_contra h2
        exact hc (Or.inr ⟨h, not_le.mp h2⟩)
      · exact absurd (Or.inl h) hc
    by_cases hm : re * re + im * im < 1
    · rw [if_pos hm]; exact ⟨fun _ => ⟨hl, hm⟩, fun _ => rfl⟩
    · rw [if_neg hm]
      constructor
      · intro h; cases h
      · intro h; exact absurd h.2 hm

theorem code_admissible (re im : Rat) : admissible (codeKind re im) (required re im) := by
  unfold required
  by_cases him : im = 0
  · subst him
    rw [if_pos rfl]
    by_cases h0 : re ≤ 0
    · rw [if_pos h0, codeKind_real_nonpos re h0]; trivial
    · rw [if_neg h0]
      by_cases h1 : re < 1 - 1 / 1000000000
      · rw [if_pos h1, codeKind_real_inside re (not_le.mp h0) h1]; trivial
      · rw [if_neg h1]
        have := codeKind_ne_posOrNan re 0
        revert this
        cases codeKind re 0 <;> simp [admissible]
  · rw [if_neg him]
    have := codeKind_ne_posOrNan re im
    revert this
    cases codeKind re im <;> simp [admissible]

theorem entryOk_nan_iff (obs ref : Option Rat) : entryOk .nan obs ref = true ↔ obs = none := by
  cases obs <;> simp [entryOk]

theorem entryOk_posOrNan_iff (obs ref : Option Rat) :
    entryOk .posOrNan obs ref = true ↔ obs = none ∨ ∃ t, obs = some t ∧ 0 < t := by
  cases obs <;> simp [entryOk]

theorem entryOk_pos_iff (obs ref : Option Rat) :
    entryOk .pos obs ref = true ↔
      ∃ t r, obs = some t ∧ ref = some r ∧ 0 < t ∧ |t - r| ≤ (|r| + 1) / 1000000000 := by
  cases obs <;> cases ref <;> simp [entryOk, linalg_absQ_eq_abs]

end MsmVerif.Misc
