/-
Refine/Relabel.lean — task RP16 (property C15; used by C01/C02/C17): the TRANSLATED relabelling utilities of
`src/msmhelper/utils/_utils.py` (`Gen/UtilsRelabel.lean`: `unique`, `unique_counts`, `shift_data`, `rename_by_index`,
`rename_by_population`, container form "list of 1-d integer arrays", `dtype = np.int64`) compute exactly the hand-written
model (`Model/Basic.lean`: `states`, `counts`, `shiftTrajs`; `Model/Relabel.lean`: `renameByIndex`,
`renameByPopulationWith`) — same result and same error kind, for every input, with ONE exception that is a defect of the
MODEL, not of the translation:

  when `val_new` has exactly one entry and `val_old` does not have exactly one entry, numpy (and the translation)
  broadcasts the single value over all entries of `val_old` and succeeds, whereas the model `shiftFlat` answers
  `ValueError` ("different lengths").  Example: `shift_data([[1,2],[3]], [1,2,3], [7])` is `[[7,7],[7]]` in numpy and in
  the translation, `ValueError` in the model (see the `example`s below; checked on the real code).

`shift_data_refines` therefore carries the hypothesis `old.length = new.length ∨ new.length ≠ 1`; the excluded inputs are
covered by `shift_data_broadcast` / `shift_data_broadcast_nil`, which say what the translation computes there.
`rename_by_index` and `rename_by_population` call `shift_data` with lists of equal length, so their theorems are unconditional.

All helper lemmas live in `Refine/RelabelLemmas.lean` (same namespace).
-/
import MsmVerif.Refine.RelabelLemmas
open MsmVerif MsmVerif.Gen

namespace MsmVerif.Refine.Relabel

/-! ### runtime = model -/

/-- **the runtime's `astype(np.int32)` is the model's `wrap32`** (wrap into the signed 32-bit range). -/
theorem npWrap32_eq_wrap32 : Gen.npWrap32 = wrap32 := rfl

/-- **`np.unique` of the runtime is the model's `sortDedup`** (ascending distinct values), for every integer list. -/
theorem npUnique_eq_sortDedup (v : List Int) : Gen.npUnique v = sortDedup v := npUnique_eq v

/-- **`np.min` / `np.max` of the runtime are the model's `minimum?` / `maximum?`**, `ValueError` exactly for the empty array. -/
theorem npMinMax_eq (v : List Int) :
    Gen.npMinInt v = (match minimum? v with | some m => .ok m | none => .error .value) ∧
    Gen.npMaxInt v = (match maximum? v with | some m => .ok m | none => .error .value) :=
  ⟨npMinInt_eq v, npMaxInt_eq v⟩

/-- **the fancy assignment `conv[val_old] = val_new` of the runtime is the model's `assignAll`** on the zipped pairs —
sequential assignment with python index rules, `IndexError` iff some index is out of range, `ValueError` iff the lengths
differ — for every table and all index / value lists except the broadcasting corner (`val_new` of length one with a
`val_old` of another length). -/
theorem npAssignAt_eq_assignAll (conv old new : List Int) (h : old.length = new.length ∨ new.length ≠ 1) :
    Gen.npAssignAt conv old new
      = if old.length ≠ new.length then .error .value
        else (match assignAll conv (old.zip new) with | some c => .ok c | none => .error .index) :=
  npAssignAt_of_length h

/-- **broadcasting corner of `conv[val_old] = val_new`**: a one-entry `val_new = [x]` is assigned to every index of
`val_old` (whatever its length, also none) — the model's `assignAll` on `val_old` paired with copies of `x`; never a `ValueError`. -/
theorem npAssignAt_broadcast (conv old : List Int) (x : Int) :
    Gen.npAssignAt conv old [x]
      = (match assignAll conv (old.zip (List.replicate old.length x)) with | some c => .ok c | none => .error .index) :=
  npAssignAt_singleton conv old x

/-- **reading the table, `conv[array]`**: if every index lies in `[0, len conv)` the runtime's fancy read succeeds and
returns the entries (`getD`, the form the model uses). -/
theorem npTake_eq_getD (conv idx : List Int) (h : ∀ i ∈ idx, 0 ≤ i ∧ i < conv.length) :
    Gen.npTake conv idx = .ok (idx.map (fun i => conv.getD i.toNat 0)) :=
  npTake_of_range conv idx h

/-- **`_unflatten_data` undoes `_flatten_data`'s bookkeeping**: splitting ANY flat array `v` (no length condition) at the
cumulative lengths recorded for the list of arrays `ts` and dropping the last piece (`np.split(v, limits)[:-1]`) is the
model's `unflatten` with the lengths of `ts`. -/
theorem npUnflattenLL_flatten (ts : List (List Int)) (v : List Int) :
    Gen.npUnflattenLL v (Gen.npFlattenLL ts).2 = unflatten (ts.map List.length) v :=
  npUnflattenLL_flatten_gen ts v

/-- **flatten then unflatten is the identity** on every list of arrays (also with empty arrays in it). -/
theorem npUnflattenLL_flatten_self (ts : List (List Int)) :
    Gen.npUnflattenLL (Gen.npFlattenLL ts).1 (Gen.npFlattenLL ts).2 = ts := by
  rw [npUnflattenLL_flatten]
  have h := unflatten_map_flatten ts id
  simpa [npFlattenLL] using h

example : Gen.npUnflattenLL [7, 8, 9, 10] (Gen.npFlattenLL [[1, 2], [], [3, 4]]).2 = [[7, 8], [], [9, 10]] := rfl

/-! ### `unique` -/

/-- **`unique(trajs)` returns the ascending distinct labels of all trajectories** (the model's `states`), never an error —
also for an empty list of trajectories. -/
theorem unique_refines (ts : List (List Int)) : Gen.UtilsRelabel.unique ts = .ok (states ts) := by
  unfold UtilsRelabel.unique
  simp only [npFlattenLL, npUnique_eq, states]
  rfl

/-- **`unique(trajs, return_counts=True)` returns the ascending distinct labels and the number of occurrences of each**
(the model's `states` and `counts`), never an error. -/
theorem unique_counts_refines (ts : List (List Int)) :
    Gen.UtilsRelabel.unique_counts ts = .ok (states ts, (counts ts).map Int.ofNat) := by
  unfold UtilsRelabel.unique_counts
  simp only [npFlattenLL, npUnique_eq, npUniqueCounts_eq, states, counts]
  rfl

/-- the same, against `Relabel.unique` / `Relabel.uniqueCounts` of `Model/Relabel.lean` on the flattened data -/
theorem unique_refines_data (ts : List (List Int)) (sh : MsmVerif.Relabel.Shape) :
    Gen.UtilsRelabel.unique ts = .ok (MsmVerif.Relabel.unique ⟨ts.flatten, sh⟩) ∧
    Gen.UtilsRelabel.unique_counts ts
      = .ok ((MsmVerif.Relabel.uniqueCounts ⟨ts.flatten, sh⟩).1, (MsmVerif.Relabel.uniqueCounts ⟨ts.flatten, sh⟩).2.map Int.ofNat) :=
  ⟨unique_refines ts, unique_counts_refines ts⟩

example : Gen.UtilsRelabel.unique_counts [[5, -2], [], [3, 5, 5]] = .ok ([-2, 3, 5], [1, 1, 3]) := rfl

/-! ### `shift_data` -/

/-- **MAIN: `shift_data` on a list of arrays equals the model `shiftTrajs`** — same result (same list structure, every value
through the lookup table, int32 wrap included) and the same error kind: `ValueError` for empty data, for an empty `val_new`
and for `val_old` / `val_new` of different lengths, `IndexError` when a (shifted) old value falls outside the lookup table;
in particular the table read `conv[array]` never fails.  Holds for every input with `len val_old = len val_new` or
`len val_new ≠ 1`; the remaining inputs are the broadcasting corner (`shift_data_broadcast`, `shift_data_broadcast_nil`),
where the model is wrong. -/
theorem shift_data_refines (ts : List (List Int)) (old new : List Int)
    (h : old.length = new.length ∨ new.length ≠ 1) :
    Gen.UtilsRelabel.shift_data ts old new = shiftTrajs ts old new := by
  rw [shift_data_eq_core, shiftCore_eq_shiftFlat _ _ _ h]
  rfl

/-- the same against `Relabel.shiftData` of `Model/Relabel.lean` (flattened values + remembered structure) -/
theorem shift_data_refines_data (ts : List (List Int)) (old new : List Int)
    (h : old.length = new.length ∨ new.length ≠ 1) :
    Gen.UtilsRelabel.shift_data ts old new
      = (MsmVerif.Relabel.shiftData ⟨ts.flatten, .ragged (ts.map List.length)⟩ old new).map
          (fun d => unflatten (ts.map List.length) d.vals) := by
  rw [shift_data_refines ts old new h]
  unfold shiftTrajs MsmVerif.Relabel.shiftData
  rw [except_map_map]
  rfl

/-- **broadcasting corner, non-empty `val_old`**: with a one-entry `val_new = [x]` the translation (like numpy) assigns `x` to
every old value: it computes what the model computes for `val_new = [x, …, x]` (as many copies as `val_old` has entries).
For `len val_old ≥ 2` the model itself answers `ValueError` on `[x]` — a defect of the model. -/
theorem shift_data_broadcast (ts : List (List Int)) (old : List Int) (x : Int) (hne : old ≠ []) :
    Gen.UtilsRelabel.shift_data ts old [x] = shiftTrajs ts old (List.replicate old.length x) := by
  rw [shift_data_eq_core, shiftCore_broadcast _ _ _ hne]
  rfl

/-- **broadcasting corner, empty `val_old`**: nothing is relabelled; the translation (like numpy) returns the data, each
value `v` passed through the int32 cast around the offset `off = min(min data, x)` (i.e. unchanged whenever
`v - off < 2^31`), `ValueError` for empty data.  The model answers `ValueError` — a defect of the model. -/
theorem shift_data_broadcast_nil (ts : List (List Int)) (x : Int) :
    Gen.UtilsRelabel.shift_data ts [] [x]
      = match minimum? ts.flatten with
        | none => .error .value
        | some dmin => .ok (ts.map (·.map (fun v => wrap32 (v - min dmin x) + min dmin x))) := by
  rw [shift_data_eq_core, shiftCore_broadcast_nil]
  cases minimum? ts.flatten with
  | none => rfl
  | some dmin => simp only [Except.map, unflatten_map_flatten]

/-- the model's answer in the broadcasting corner: `ValueError` whenever the lengths differ (data and `val_new` non-empty) -/
theorem shiftTrajs_length_ne (ts : List (List Int)) (old new : List Int) (h : old.length ≠ new.length) :
    shiftTrajs ts old new = .error .value := by
  unfold shiftTrajs shiftFlat
  split
  · simp only [h, ne_eq, not_false_eq_true, if_true]; rfl
  · rfl

/-- non-vacuity, a swap on a ragged set with negative labels -/
example : Gen.UtilsRelabel.shift_data [[1, -2], [], [3, 1, 1]] [1, -2] [-2, 1] = .ok [[-2, 1], [], [3, -2, -2]] ∧
    shiftTrajs [[1, -2], [], [3, 1, 1]] [1, -2] [-2, 1] = .ok [[-2, 1], [], [3, -2, -2]] := ⟨rfl, rfl⟩
/-- an IndexError case (old value 9 outside the table) -/
example : Gen.UtilsRelabel.shift_data [[1, -2], [], [3, 1, 1]] [1, 9] [-2, 1] = .error .index ∧
    shiftTrajs [[1, -2], [], [3, 1, 1]] [1, 9] [-2, 1] = .error .index := ⟨rfl, rfl⟩
/-- ValueError cases: different lengths, empty data, empty `val_new` -/
example : Gen.UtilsRelabel.shift_data [[1, -2], [], [3, 1, 1]] [1, 9, 8] [-2, 1] = .error .value ∧
    Gen.UtilsRelabel.shift_data [[], []] [1] [2] = .error .value ∧
    Gen.UtilsRelabel.shift_data [[1]] [] [] = .error .value := ⟨rfl, rfl, rfl⟩
/-- the discrepancy: translation (= numpy) broadcasts, the model says ValueError -/
example : Gen.UtilsRelabel.shift_data [[1, 2], [3]] [1, 2, 3] [7] = .ok [[7, 7], [7]] ∧
    shiftTrajs [[1, 2], [3]] [1, 2, 3] [7] = .error .value ∧
    Gen.UtilsRelabel.shift_data [[1, 2], [3]] [] [7] = .ok [[1, 2], [3]] ∧
    shiftTrajs [[1, 2], [3]] [] [7] = .error .value := ⟨rfl, rfl, rfl, rfl⟩

/-! ### `rename_by_index` -/

/-- **`rename_by_index(trajs, return_permutation=True)` is the model**: the trajectories shifted by `shift_data` from the
ascending distinct labels to `0, 1, …, n-1`, together with those labels — for EVERY input, errors included (`ValueError` for
empty data; the model `shiftTrajs` decides everything else, e.g. the int32 wrap for huge label ranges). -/
theorem rename_by_index_refines (ts : List (List Int)) :
    Gen.UtilsRelabel.rename_by_index ts
      = (shiftTrajs ts (states ts) ((List.range (states ts).length).map Int.ofNat)).map (fun r => (r, states ts)) := by
  unfold UtilsRelabel.rename_by_index
  rw [unique_refines]
  simp only [bind, Except.bind, pyLen]
  rw [shift_data_refines _ _ _ (Or.inl (by simp [arange_eq])), arange_eq, Int.toNat_natCast]
  cases shiftTrajs ts (states ts) ((List.range (states ts).length).map (fun (i : Nat) => (i : Int))) <;> rfl

/-- the same against `Relabel.renameByIndex` of `Model/Relabel.lean` (flattened values + remembered structure) -/
theorem rename_by_index_refines_data (ts : List (List Int)) :
    Gen.UtilsRelabel.rename_by_index ts
      = (MsmVerif.Relabel.renameByIndex ⟨ts.flatten, .ragged (ts.map List.length)⟩).map
          (fun p => (unflatten (ts.map List.length) p.1.vals, p.2)) := by
  rw [rename_by_index_refines]
  unfold MsmVerif.Relabel.renameByIndex MsmVerif.Relabel.shiftData shiftTrajs states
  simp only [except_map_map]
  rfl

/-- **end to end, `rename_by_index` under the 32-bit guard**: on non-empty data whose labels lie in a window `[lo, hi]` with
`lo ≤ 0` and `hi - 2*lo < 2^31` (e.g. all labels in `[-2^29, 2^29]`), the translated function returns without error, every
label replaced by its rank among the ascending distinct labels (list structure kept), and those labels as the permutation. -/
theorem rename_by_index_rank (ts : List (List Int)) {lo hi : Int} (hw : LabelWindow ts lo hi) (hne : ts.flatten ≠ []) :
    Gen.UtilsRelabel.rename_by_index ts = .ok (rankTrajs ts, states ts) := by
  rw [rename_by_index_refines]
  unfold shiftTrajs
  have h := shiftFlat_states_eq_rank hw hne
  rw [← natCast_range_eq_arange] at h
  rw [show (List.range (states ts).length).map Int.ofNat = (List.range (states ts).length).map (fun (i : Nat) => (i : Int)) from rfl, h]
  simp only [Except.map, unflatten_map_flatten]
  rfl

example : LabelWindow [[5, -2], [], [3, 5, 5]] (-2) 5 ∧ [[5, -2], [], [3, 5, 5]].flatten ≠ [] :=
  ⟨⟨by decide, by decide, by decide⟩, by decide⟩

example : Gen.UtilsRelabel.rename_by_index [[5, -2], [], [3, 5, 5]] = .ok ([[2, 0], [], [1, 2, 2]], [-2, 3, 5]) := rfl
example : Gen.UtilsRelabel.rename_by_index [[], []] = .error .value := rfl

/-! ### `rename_by_population` -/

/-- **`rename_by_population(trajs, return_permutation=True)`, all inputs and all oracles**: the translated function is
exactly: ask the sorting oracle (`np.argsort`) for the populations (its error is passed on), read the distinct labels at
the reversed answer (`states[idx_sort]`, python index rules, `IndexError` for an invalid index), then the model `shiftTrajs`
from those labels to `1, 2, …, n`, returned together with those labels. -/
theorem rename_by_population_refines_all (ext : List Int → Py (List Int)) (ts : List (List Int)) :
    Gen.UtilsRelabel.rename_by_population ext ts
      = (ext ((counts ts).map Int.ofNat)).bind (fun p =>
          (Gen.npTake (states ts) p.reverse).bind (fun perm =>
            (shiftTrajs ts perm ((List.range perm.length).map (fun (i : Nat) => (i : Int) + 1))).map
              (fun r => (r, perm)))) := by
  unfold UtilsRelabel.rename_by_population
  rw [unique_counts_refines]
  simp only [bind, Except.bind, npReverse, pyLen]
  cases ext ((counts ts).map Int.ofNat) with
  | error e => rfl
  | ok p =>
    simp only
    cases Gen.npTake (states ts) p.reverse with
    | error e => rfl
    | ok perm =>
      simp only
      rw [shift_data_refines _ _ _ (Or.inl (by simp [arange_eq])), arange_succ]
      cases shiftTrajs ts perm ((List.range perm.length).map (fun (i : Nat) => (i : Int) + 1)) <;> rfl

/-- **`rename_by_population(trajs, return_permutation=True)` is the model** for every answer `p` of the sorting oracle
(`np.argsort` of the populations) whose entries are valid indices `0 ≤ i < n` into the `n` distinct labels (what any
argsort returns; being a permutation is not even needed): with `perm` = the labels in the order `p[::-1]` (most populated
first for a true argsort), the result is the trajectories shifted by `shift_data` from `perm` to `1, 2, …, n`, together
with `perm` — errors included (`ValueError` for empty data). -/
theorem rename_by_population_refines (ext : List Int → Py (List Int)) (ts : List (List Int)) (p : List Int)
    (horacle : ext ((counts ts).map Int.ofNat) = .ok p)
    (hp : ∀ i ∈ p, 0 ≤ i ∧ i < (states ts).length) :
    Gen.UtilsRelabel.rename_by_population ext ts
      = (shiftTrajs ts (p.reverse.map (fun i => (states ts).getD i.toNat 0))
            ((List.range p.length).map (fun (i : Nat) => (i : Int) + 1))).map
          (fun r => (r, p.reverse.map (fun i => (states ts).getD i.toNat 0))) := by
  unfold UtilsRelabel.rename_by_population
  rw [unique_counts_refines]
  simp only [bind, Except.bind, horacle, npReverse, pyLen]
  rw [npTake_of_range _ _ (fun i hi => hp i (List.mem_reverse.mp hi))]
  simp only
  rw [shift_data_refines _ _ _ (Or.inl (by simp [arange_eq]))]
  simp only [List.length_map, List.length_reverse, arange_succ]
  cases shiftTrajs ts (p.reverse.map (fun i => (states ts).getD i.toNat 0))
    ((List.range p.length).map (fun (i : Nat) => (i : Int) + 1)) <;> rfl

/-- the same against `Relabel.renameByPopulationWith` of `Model/Relabel.lean`, `perm` = the labels in the order `p[::-1]` -/
theorem rename_by_population_refines_data (ext : List Int → Py (List Int)) (ts : List (List Int)) (p : List Int)
    (horacle : ext ((counts ts).map Int.ofNat) = .ok p)
    (hp : ∀ i ∈ p, 0 ≤ i ∧ i < (states ts).length) :
    Gen.UtilsRelabel.rename_by_population ext ts
      = (MsmVerif.Relabel.renameByPopulationWith ⟨ts.flatten, .ragged (ts.map List.length)⟩
            (p.reverse.map (fun i => (states ts).getD i.toNat 0))).map
          (fun q => (unflatten (ts.map List.length) q.1.vals, q.2)) := by
  rw [rename_by_population_refines ext ts p horacle hp]
  unfold MsmVerif.Relabel.renameByPopulationWith MsmVerif.Relabel.shiftData shiftTrajs
  simp only [except_map_map, List.length_map, List.length_reverse]
  rfl

/-- **an error of the sorting oracle is passed on unchanged** (nothing is computed after it). -/
theorem rename_by_population_oracle_error (ext : List Int → Py (List Int)) (ts : List (List Int)) (e : Err)
    (horacle : ext ((counts ts).map Int.ofNat) = .error e) :
    Gen.UtilsRelabel.rename_by_population ext ts = .error e := by
  unfold UtilsRelabel.rename_by_population
  rw [unique_counts_refines]
  simp only [bind, Except.bind, horacle]

/-- **if the oracle answers with a permutation of `0 … n-1`** (what `np.argsort` does), the returned `perm` is a
rearrangement of the distinct labels — the precondition under which `Props/C15` describes `renameByPopulationWith`. -/
theorem rename_by_population_perm (ts : List (List Int)) (p : List Int)
    (hperm : p.Perm ((List.range (states ts).length).map Int.ofNat)) :
    (∀ i ∈ p, 0 ≤ i ∧ i < (states ts).length) ∧
    (p.reverse.map (fun i => (states ts).getD i.toNat 0)).Perm (states ts) := by
  constructor
  · intro i hi
    obtain ⟨k, hk, rfl⟩ := List.mem_map.mp (hperm.mem_iff.mp hi)
    have := List.mem_range.mp hk
    simp only [Int.ofNat_eq_natCast]; omega
  · refine ((List.reverse_perm p).map _).trans ((hperm.map _).trans ?_)
    rw [List.map_map]
    have : (List.range (states ts).length).map ((fun i : Int => (states ts).getD i.toNat 0) ∘ Int.ofNat) = states ts := by
      apply List.ext_getElem
      · simp
      · intro i h1 h2
        simp at h1
        simp [h1]
    rw [this]

/-- **end to end, `rename_by_population` under the 32-bit guard**: if the oracle answers with a permutation of `0 … n-1`
and the data is non-empty with all labels in a window `[lo, hi]`, `lo ≤ 1`, `hi - 2*lo + 1 < 2^31`, the translated function
returns without error: every label `x` replaced by `1 +` its position in `perm` (list structure kept), and `perm` (the
distinct labels in the order `p[::-1]`) as the permutation. -/
theorem rename_by_population_position (ext : List Int → Py (List Int)) (ts : List (List Int)) (p : List Int)
    (horacle : ext ((counts ts).map Int.ofNat) = .ok p)
    (hperm : p.Perm ((List.range (states ts).length).map Int.ofNat))
    {lo hi : Int} (hmem : ∀ x ∈ ts.flatten, lo ≤ x ∧ x ≤ hi) (hlo : lo ≤ 1) (hnarrow : hi - 2 * lo + 1 < 2147483648)
    (hne : ts.flatten ≠ []) :
    Gen.UtilsRelabel.rename_by_population ext ts
      = .ok (ts.map (·.map (fun x => (((p.reverse.map (fun i => (states ts).getD i.toNat 0)).idxOf x : Nat) : Int) + 1)),
          p.reverse.map (fun i => (states ts).getD i.toNat 0)) := by
  obtain ⟨hp, hpp⟩ := rename_by_population_perm ts p hperm
  rw [rename_by_population_refines ext ts p horacle hp]
  unfold shiftTrajs
  have h := MsmVerif.Relabel.shiftFlat_perm_eq_idxOf hmem hlo hnarrow hne hpp
  simp only [List.length_map, List.length_reverse] at h
  rw [h]
  simp only [Except.map, unflatten_map_flatten]

/-- non-vacuity: populations `[1, 1, 3]` of the labels `[-2, 3, 5]`; a stable argsort answers `[0, 1, 2]` -/
example : Gen.UtilsRelabel.rename_by_population (fun _ => .ok [0, 1, 2]) [[5, -2], [], [3, 5, 5]]
    = .ok ([[1, 3], [], [2, 1, 1]], [5, 3, -2]) := rfl
example : Gen.UtilsRelabel.rename_by_population (fun _ => .ok []) [[], []] = .error .value := rfl

end MsmVerif.Refine.Relabel
