/-
Refine/TextIOEnd.lean — task RP32 (properties C16, C19): `openmicrostates` / `opentxt_limits` END TO END, the translated `opentxt`
(`Gen.IoOpen.opentxt_all_1d` / `_2d`, parser oracle `parse file nrows`) plugged into the two reader oracles of `Gen/IoOpen.lean`:
data reader := `dataRd1 parse nn = fun file _dtype => opentxt_all_1d parse file nn` (resp. `dataRd2`, the 2-d specialisation),
limits reader := `limRd parse nn = fun file => opentxt_all_1d parse file nn`, for ONE parser oracle `parse` (`nn` = the token of `nrows=None`).
Results are stated with `splitOutcome lim rows` (= `.ok pieces` for `TextIO.splitLimits lim rows = some pieces`, `ValueError` for `none`),
`col T` (column 0 of a parsed table) and `limNat Lm` (the limits held by a parsed limits table).
The hypothesis `dataFile ≠ limFile` is not needed: the two `parse` hypotheses are the only thing used.
Helper lemmas live in Refine/TextIOEndLemmas.lean.
-/
import MsmVerif.Refine.TextIOEndLemmas

namespace MsmVerif.Refine.TextIOEnd
open MsmVerif MsmVerif.Gen MsmVerif.Refine.TextIO

/-! ### 1. single-column data file, single-column limits file -/

/-- Core: `opentxt_limits(file, limits_file, dtype=dt)` (1-d form) for ANY data reader `d` that, for the token `dt` it is called with, does what
    the translated `opentxt` does on the data file; limits reader := translated `opentxt`.  Data table `D` (≥ 1 row, rows of length 1),
    limits table `Lm` (≥ 1 row, rows of length 1, entries ≥ 0): the result is `splitOutcome (limNat Lm) (col D)`. -/
theorem opentxt_limits_1d_end_to_end (parse : Int → Int → Py (List (List Int))) (nn dataFile limFile dt : Int) (D Lm : List (List Int))
    (hD : parse dataFile nn = .ok D) (hDne : D ≠ []) (hD1 : ∀ r ∈ D, r.length = 1)
    (hL : parse limFile nn = .ok Lm) (hLne : Lm ≠ []) (hL1 : ∀ r ∈ Lm, r.length = 1) (hL0 : ∀ r ∈ Lm, 0 ≤ r.getD 0 0)
    (d : Int → Int → Py (List Int)) (hd : d dataFile dt = Gen.IoOpen.opentxt_all_1d parse dataFile nn) :
    Gen.IoOpen.opentxt_limits_1d_file d (limRd parse nn) dataFile limFile dt = splitOutcome (limNat Lm) (col D) ∧
    Gen.IoOpen.opentxt_limits_1d_none d (limRd parse nn) dataFile dt = .ok [col D] := by
  have ho : limRd parse nn limFile = .ok ((limNat Lm).map Int.ofNat) := by
    rw [← col_limNat Lm hL0]
    exact read1 parse limFile nn Lm hL hLne hL1
  have hdd : d dataFile dt = .ok (col D) := by
    rw [hd]
    exact read1 parse dataFile nn D hD hDne hD1
  constructor
  · rw [(opentxt_limits_file_refines d (fun _ _ => .ok []) _ dataFile limFile dt (limNat Lm) ho).1 _ hdd]
    exact limitsOutcome_ne_nil _ _ (limNat_ne_nil Lm hLne)
  · exact ((opentxt_limits_none_refines d (fun _ _ => .ok []) _ dataFile dt).1 _ hdd).1

/-- `openmicrostates(file, limits_file)` (default dtype) where the dtype token is VISIBLE: for any data reader `d` that behaves like the
    translated `opentxt` when called with the token 16 (`np.int16`) — whatever it does for other tokens, e.g. fail — the result is
    `splitOutcome (limNat Lm) (col D)`.  So the token handed to the reader is 16. -/
theorem openmicrostates_file_dtype16 (parse : Int → Int → Py (List (List Int))) (nn dataFile limFile : Int) (D Lm : List (List Int))
    (hD : parse dataFile nn = .ok D) (hDne : D ≠ []) (hD1 : ∀ r ∈ D, r.length = 1)
    (hL : parse limFile nn = .ok Lm) (hLne : Lm ≠ []) (hL1 : ∀ r ∈ Lm, r.length = 1) (hL0 : ∀ r ∈ Lm, 0 ≤ r.getD 0 0)
    (d : Int → Int → Py (List Int)) (hd : d dataFile 16 = Gen.IoOpen.opentxt_all_1d parse dataFile nn) :
    Gen.IoOpen.openmicrostates_default_1d_file d (limRd parse nn) dataFile limFile = splitOutcome (limNat Lm) (col D) ∧
    Gen.IoOpen.openmicrostates_default_1d_none d (limRd parse nn) dataFile = .ok [col D] := by
  have h := opentxt_limits_1d_end_to_end parse nn dataFile limFile 16 D Lm hD hDne hD1 hL hLne hL1 hL0 d hd
  have he := openmicrostates_default_eq d (limRd parse nn) dataFile limFile
  exact ⟨he.2.trans h.1, he.1.trans h.2⟩

/-- `openmicrostates(file, limits_file)` end to end, both readers := the translated `opentxt` over one parser oracle.
    Single-column data file (`parse dataFile = .ok D`, ≥ 1 row, every row of length 1), single-column limits file (`parse limFile = .ok Lm`,
    ≥ 1 row, rows of length 1, entries ≥ 0).  The result `res` is `splitOutcome (limNat Lm) (col D)`, i.e.
    * `res = .ok pieces` iff the model `splitLimits (limits) (column of D)` returns `some pieces`;
    * then the pieces have exactly the listed lengths and their concatenation is the whole column;
    * `res` is `ValueError` iff the limits do not add up to the number of rows of `D`; there is no other error; if they add up, `res` is `.ok`.
    (In the plugged form the dtype token is ignored by the reader; `openmicrostates_file_dtype16` shows it is 16.) -/
theorem openmicrostates_file_end_to_end (parse : Int → Int → Py (List (List Int))) (nn dataFile limFile : Int) (D Lm : List (List Int))
    (hD : parse dataFile nn = .ok D) (hDne : D ≠ []) (hD1 : ∀ r ∈ D, r.length = 1)
    (hL : parse limFile nn = .ok Lm) (hLne : Lm ≠ []) (hL1 : ∀ r ∈ Lm, r.length = 1) (hL0 : ∀ r ∈ Lm, 0 ≤ r.getD 0 0) :
    let res := Gen.IoOpen.openmicrostates_default_1d_file (dataRd1 parse nn) (limRd parse nn) dataFile limFile
    res = splitOutcome (limNat Lm) (col D) ∧
    (∀ pieces, res = .ok pieces ↔ TextIO.splitLimits (limNat Lm) (col D) = some pieces) ∧
    (∀ pieces, res = .ok pieces → pieces.map List.length = limNat Lm ∧ pieces.flatten = col D) ∧
    (res = .error .value ↔ (limNat Lm).sum ≠ D.length) ∧
    ((limNat Lm).sum = D.length → ∃ pieces, res = .ok pieces) ∧
    (∀ e, res = .error e → e = .value) := by
  intro res
  have h : res = splitOutcome (limNat Lm) (col D) :=
    (openmicrostates_file_dtype16 parse nn dataFile limFile D Lm hD hDne hD1 hL hLne hL1 hL0 (dataRd1 parse nn) rfl).1
  have hc := splitOutcome_cases (limNat Lm) (col D)
  rw [col_length] at hc
  rw [h]
  exact ⟨rfl, hc⟩

/-- `openmicrostates(file)` without a limits file, data reader := translated `opentxt`: the single piece `[column of D]` — for EVERY limits
    reader `o` (it is not consulted), in particular the plugged one. -/
theorem openmicrostates_none_end_to_end (parse : Int → Int → Py (List (List Int))) (nn dataFile : Int) (D : List (List Int))
    (hD : parse dataFile nn = .ok D) (hDne : D ≠ []) (hD1 : ∀ r ∈ D, r.length = 1) (o : Int → Py (List Int)) :
    Gen.IoOpen.openmicrostates_default_1d_none (dataRd1 parse nn) o dataFile = .ok [col D] ∧
    TextIO.splitLimits [D.length] (col D) = some [col D] := by
  have hdd : dataRd1 parse nn dataFile 16 = .ok (col D) := read1 parse dataFile nn D hD hDne hD1
  have h := (opentxt_limits_none_refines (dataRd1 parse nn) (fun _ _ => .ok []) o dataFile 16).1 _ hdd
  rw [col_length] at h
  exact ⟨(openmicrostates_default_eq (dataRd1 parse nn) o dataFile 0).1.trans h.1, h.2⟩

/-- `openmicrostates(file, limits_file, dtype=dt)` with an integer dtype token, plugged readers: the same results as with the default. -/
theorem openmicrostates_int_end_to_end (parse : Int → Int → Py (List (List Int))) (nn dataFile limFile dt : Int) (D Lm : List (List Int))
    (hD : parse dataFile nn = .ok D) (hDne : D ≠ []) (hD1 : ∀ r ∈ D, r.length = 1)
    (hL : parse limFile nn = .ok Lm) (hLne : Lm ≠ []) (hL1 : ∀ r ∈ Lm, r.length = 1) (hL0 : ∀ r ∈ Lm, 0 ≤ r.getD 0 0) :
    Gen.IoOpen.openmicrostates_int_1d_file (dataRd1 parse nn) (limRd parse nn) dataFile limFile dt = splitOutcome (limNat Lm) (col D) ∧
    Gen.IoOpen.openmicrostates_int_1d_none (dataRd1 parse nn) (limRd parse nn) dataFile dt = .ok [col D] := by
  have h := opentxt_limits_1d_end_to_end parse nn dataFile limFile dt D Lm hD hDne hD1 hL hLne hL1 hL0 (dataRd1 parse nn) rfl
  have he := openmicrostates_int_eq (dataRd1 parse nn) (limRd parse nn) dataFile limFile dt
  exact ⟨he.2.trans h.1, he.1.trans h.2⟩

/-! ### 2. multi-column files -/

/-- A multi-column DATA file (`parse dataFile = .ok D`, `npShape1 D ≠ 1`: the first row of `D` does not have exactly one entry).
    * With the multi-column specialisation of `opentxt` as data reader (`dataRd2`, the one whose domain contains `D`) the reading succeeds and it
      is the SHAPE TEST of `openmicrostates` that fires: `FileError` — without a limits file, and with a good limits file `Lm` whose limits add
      up to the number of rows; if they do not add up, the `ValueError` of `open_limits` comes first.
    * With the single-column specialisation as data reader (`dataRd1`) the guard of `opentxt_all_1d` fires first: `.error .other`, "outside
      the translated domain" — not a Python behaviour; for every limits reader `o`. -/
theorem openmicrostates_multicolumn_end_to_end (parse : Int → Int → Py (List (List Int))) (nn dataFile limFile : Int) (D : List (List Int))
    (hD : parse dataFile nn = .ok D) (hDm : npShape1 D ≠ 1) :
    (∀ o, Gen.IoOpen.openmicrostates_default_2d_none (dataRd2 parse nn) o dataFile = .error .file) ∧
    (∀ Lm, parse limFile nn = .ok Lm → Lm ≠ [] → (∀ r ∈ Lm, r.length = 1) → (∀ r ∈ Lm, 0 ≤ r.getD 0 0) →
      ((limNat Lm).sum = D.length →
        Gen.IoOpen.openmicrostates_default_2d_file (dataRd2 parse nn) (limRd parse nn) dataFile limFile = .error .file) ∧
      ((limNat Lm).sum ≠ D.length →
        Gen.IoOpen.openmicrostates_default_2d_file (dataRd2 parse nn) (limRd parse nn) dataFile limFile = .error .value)) ∧
    (∀ o, Gen.IoOpen.openmicrostates_default_1d_none (dataRd1 parse nn) o dataFile = .error .other ∧
      Gen.IoOpen.openmicrostates_default_1d_file (dataRd1 parse nn) o dataFile limFile = .error .other) := by
  have hr := opentxt_all_refines parse dataFile nn D hD
  have hd2 : dataRd2 parse nn dataFile 16 = .ok D := hr.1 hDm
  have hd1 : dataRd1 parse nn dataFile 16 = .error .other := hr.2.2.2.2 hDm
  refine ⟨fun o => ?_, fun Lm hL hLne hL1 hL0 => ?_, fun o => ?_⟩
  · exact (openmicrostates_multicolumn_rejects_split (dataRd2 parse nn) o dataFile 0 D hd2).1
  · have ho : limRd parse nn limFile = .ok ((limNat Lm).map Int.ofNat) := by
      rw [← col_limNat Lm hL0]
      exact read1 parse limFile nn Lm hL hLne hL1
    constructor
    · intro hs
      exact (openmicrostates_multicolumn_rejects_split (dataRd2 parse nn) (limRd parse nn) dataFile limFile D hd2).2
        (limNat Lm) ho (limNat_ne_nil Lm hLne) hs
    · intro hs
      have h1 := (opentxt_limits_file_refines (fun _ _ => .ok []) (dataRd2 parse nn) (limRd parse nn) dataFile limFile 16
        (limNat Lm) ho).2 D hd2
      rw [limitsOutcome_ne_nil _ _ (limNat_ne_nil Lm hLne), (splitOutcome_cases (limNat Lm) D).2.2.1.mpr hs] at h1
      exact (openmicrostates_multicolumn_rejects (dataRd2 parse nn) (limRd parse nn) dataFile limFile).2.2.2 _ h1
  · have he := openmicrostates_default_eq (dataRd1 parse nn) o dataFile limFile
    have hx := (opentxt_limits_reader_errors (dataRd1 parse nn) (fun _ _ => .ok []) o dataFile limFile 16 .other).1 hd1
    exact ⟨he.1.trans hx.1, he.2.trans hx.2⟩

/-- A multi-column LIMITS file (`parse limFile = .ok Lm`, `npShape1 Lm ≠ 1`), PARTIAL result: the limits reader is the single-column
    specialisation `opentxt_all_1d`, whose guard fires — `.error .other`, i.e. the input is outside the translated domain (the real code reads a
    2-d array and `open_limits` raises `FileError('Shoud be single column file.')`; that branch is not reachable in the plugged form).  What is
    proved: after the data were read successfully (single-column data `D` in the 1-d form, multi-column data in the 2-d form) the result is
    this `.error .other` — no pieces are ever returned. -/
theorem openmicrostates_multicolumn_limits_partial (parse : Int → Int → Py (List (List Int))) (nn dataFile limFile : Int)
    (D Lm : List (List Int)) (hD : parse dataFile nn = .ok D) (hL : parse limFile nn = .ok Lm) (hLm : npShape1 Lm ≠ 1) :
    limRd parse nn limFile = .error .other ∧
    (D ≠ [] → (∀ r ∈ D, r.length = 1) →
      Gen.IoOpen.openmicrostates_default_1d_file (dataRd1 parse nn) (limRd parse nn) dataFile limFile = .error .other) ∧
    (npShape1 D ≠ 1 →
      Gen.IoOpen.opentxt_limits_2d_file (dataRd2 parse nn) (limRd parse nn) dataFile limFile 16 = .error .other ∧
      Gen.IoOpen.openmicrostates_default_2d_file (dataRd2 parse nn) (limRd parse nn) dataFile limFile = .error .other) := by
  have ho : limRd parse nn limFile = .error .other := (opentxt_all_refines parse limFile nn Lm hL).2.2.2.2 hLm
  refine ⟨ho, fun hDne hD1 => ?_, fun hDm => ?_⟩
  · have hdd : dataRd1 parse nn dataFile 16 = .ok (col D) := read1 parse dataFile nn D hD hDne hD1
    have hx := ((opentxt_limits_reader_errors (dataRd1 parse nn) (fun _ _ => .ok []) (limRd parse nn) dataFile limFile 16 .other).2.2 ho).1
      _ hdd
    exact (openmicrostates_default_eq (dataRd1 parse nn) (limRd parse nn) dataFile limFile).2.trans hx
  · have hd2 : dataRd2 parse nn dataFile 16 = .ok D := (opentxt_all_refines parse dataFile nn D hD).1 hDm
    have hx := ((opentxt_limits_reader_errors (fun _ _ => .ok []) (dataRd2 parse nn) (limRd parse nn) dataFile limFile 16 .other).2.2 ho).2
      _ hd2
    exact ⟨hx, (openmicrostates_multicolumn_rejects (dataRd2 parse nn) (limRd parse nn) dataFile limFile).2.2.2 _ hx⟩

/-- An EMPTY parsed limits table is likewise outside the domain of the plugged limits reader (`shape[-1]` of the empty table is 0 in the
    runtime): `.error .other`, not the `IndexError` of `open_limits` on an empty 1-d array. -/
theorem limits_reader_empty_partial (parse : Int → Int → Py (List (List Int))) (nn limFile : Int) (hL : parse limFile nn = .ok []) :
    limRd parse nn limFile = .error .other :=
  (opentxt_all_refines parse limFile nn [] hL).2.2.2.2 (by decide)

/-! ### 3. `opentxt_limits`, multi-column data (2-d form): pieces of ROWS -/

/-- `opentxt_limits(file, limits_file, dtype=dt)` for a multi-column data file (`parse dataFile = .ok D`, `npShape1 D ≠ 1`), both readers := the
    translated `opentxt`; limits table `Lm` (≥ 1 row, rows of length 1, entries ≥ 0).  The result is `splitOutcome (limNat Lm) D` — the ROWS of
    `D` are split: `.ok pieces` iff the model returns `some pieces`; the pieces have the listed numbers of rows and their concatenation is `D`;
    `ValueError` iff the limits do not add up to the number of rows, no other error.  Without a limits file: the single piece `[D]`. -/
theorem opentxt_limits_2d_end_to_end (parse : Int → Int → Py (List (List Int))) (nn dataFile limFile dt : Int) (D Lm : List (List Int))
    (hD : parse dataFile nn = .ok D) (hDm : npShape1 D ≠ 1)
    (hL : parse limFile nn = .ok Lm) (hLne : Lm ≠ []) (hL1 : ∀ r ∈ Lm, r.length = 1) (hL0 : ∀ r ∈ Lm, 0 ≤ r.getD 0 0) :
    let res := Gen.IoOpen.opentxt_limits_2d_file (dataRd2 parse nn) (limRd parse nn) dataFile limFile dt
    res = splitOutcome (limNat Lm) D ∧
    (∀ pieces, res = .ok pieces ↔ TextIO.splitLimits (limNat Lm) D = some pieces) ∧
    (∀ pieces, res = .ok pieces → pieces.map List.length = limNat Lm ∧ pieces.flatten = D) ∧
    (res = .error .value ↔ (limNat Lm).sum ≠ D.length) ∧
    ((limNat Lm).sum = D.length → ∃ pieces, res = .ok pieces) ∧
    (∀ e, res = .error e → e = .value) := by
  intro res
  have hd2 : dataRd2 parse nn dataFile dt = .ok D := (opentxt_all_refines parse dataFile nn D hD).1 hDm
  have ho : limRd parse nn limFile = .ok ((limNat Lm).map Int.ofNat) := by
    rw [← col_limNat Lm hL0]
    exact read1 parse limFile nn Lm hL hLne hL1
  have h : res = splitOutcome (limNat Lm) D :=
    ((opentxt_limits_file_refines (fun _ _ => .ok []) (dataRd2 parse nn) (limRd parse nn) dataFile limFile dt (limNat Lm) ho).2 D hd2).trans
      (limitsOutcome_ne_nil _ _ (limNat_ne_nil Lm hLne))
  rw [h]
  exact ⟨rfl, splitOutcome_cases (limNat Lm) D⟩

/-- `opentxt_limits(file)` (2-d form) without a limits file: the single piece `[D]`, for every limits reader. -/
theorem opentxt_limits_2d_none_end_to_end (parse : Int → Int → Py (List (List Int))) (nn dataFile dt : Int) (D : List (List Int))
    (hD : parse dataFile nn = .ok D) (hDm : npShape1 D ≠ 1) (o : Int → Py (List Int)) :
    Gen.IoOpen.opentxt_limits_2d_none (dataRd2 parse nn) o dataFile dt = .ok [D] ∧
    TextIO.splitLimits [D.length] D = some [D] :=
  (opentxt_limits_none_refines (fun _ _ => .ok []) (dataRd2 parse nn) o dataFile dt).2 D
    ((opentxt_all_refines parse dataFile nn D hD).1 hDm)

/-! ### non-vacuity: a concrete parser stand-in with two file tokens (7 = data, 8 / 9 / 11 = limits, 10 = 2-column data; `nrows=None` token 0) -/

/-- data column `[5,5,7,7,7,5]` in file 7, limits `[2,4]` in file 8, limits `[2,3]` in file 9, a 2-column table in file 10, limits `[1,2]` in file 11 -/
def parseEx : Int → Int → Py (List (List Int)) := fun file _ =>
  if file = 7 then .ok [[5], [5], [7], [7], [7], [5]]
  else if file = 8 then .ok [[2], [4]]
  else if file = 9 then .ok [[2], [3]]
  else if file = 10 then .ok [[1, 6], [2, 7], [3, 8]]
  else if file = 11 then .ok [[1], [2]]
  else .error .file

example : Gen.IoOpen.openmicrostates_default_1d_file (dataRd1 parseEx 0) (limRd parseEx 0) 7 8 = .ok [[5, 5], [7, 7, 7, 5]] := by
  decide +kernel
example : Gen.IoOpen.openmicrostates_default_1d_file (dataRd1 parseEx 0) (limRd parseEx 0) 7 9 = .error .value := by decide +kernel
example : Gen.IoOpen.openmicrostates_default_1d_none (dataRd1 parseEx 0) (limRd parseEx 0) 7 = .ok [[5, 5, 7, 7, 7, 5]] := by
  decide +kernel
/-- the hypotheses of `openmicrostates_file_end_to_end` hold for files 7 / 8 and 7 / 9 -/
example : parseEx 7 0 = .ok [[5], [5], [7], [7], [7], [5]] ∧ parseEx 8 0 = .ok [[2], [4]] ∧
    (∀ r ∈ ([[5], [5], [7], [7], [7], [5]] : List (List Int)), r.length = 1) ∧
    (∀ r ∈ ([[2], [4]] : List (List Int)), r.length = 1) ∧ (∀ r ∈ ([[2], [4]] : List (List Int)), 0 ≤ r.getD 0 0) := by decide +kernel
example : Gen.IoOpen.openmicrostates_default_1d_file (dataRd1 parseEx 0) (limRd parseEx 0) 7 8
    = splitOutcome (limNat [[2], [4]]) (col [[5], [5], [7], [7], [7], [5]]) :=
  (openmicrostates_file_end_to_end parseEx 0 7 8 _ _ rfl (by decide) (by decide) rfl (by decide) (by decide) (by decide)).1
example : splitOutcome (limNat [[2], [4]]) (col [[5], [5], [7], [7], [7], [5]]) = .ok [[5, 5], [7, 7, 7, 5]] := by decide +kernel
example : splitOutcome (limNat [[2], [3]]) (col [[5], [5], [7], [7], [7], [5]]) = .error .value := by decide +kernel
/-- the dtype token is visible with a reader that fails for every token but 16 -/
example : Gen.IoOpen.openmicrostates_default_1d_file
    (fun f dt => if dt = 16 then Gen.IoOpen.opentxt_all_1d parseEx f 0 else .error .type) (limRd parseEx 0) 7 8
    = .ok [[5, 5], [7, 7, 7, 5]] := by decide +kernel
/-- multi-column data (file 10): `FileError` from the shape test in the 2-d form, guard `.other` in the 1-d form, `ValueError` first -/
example : Gen.IoOpen.openmicrostates_default_2d_file (dataRd2 parseEx 0) (limRd parseEx 0) 10 11 = .error .file := by decide +kernel
example : Gen.IoOpen.openmicrostates_default_2d_none (dataRd2 parseEx 0) (limRd parseEx 0) 10 = .error .file := by decide +kernel
example : Gen.IoOpen.openmicrostates_default_2d_file (dataRd2 parseEx 0) (limRd parseEx 0) 10 8 = .error .value := by decide +kernel
example : Gen.IoOpen.openmicrostates_default_1d_file (dataRd1 parseEx 0) (limRd parseEx 0) 10 11 = .error .other := by decide +kernel
/-- multi-column limits file (file 10 used as limits file): outside the translated domain -/
example : Gen.IoOpen.openmicrostates_default_1d_file (dataRd1 parseEx 0) (limRd parseEx 0) 7 10 = .error .other := by decide +kernel
/-- `opentxt_limits`, 2-d form: pieces of rows -/
example : Gen.IoOpen.opentxt_limits_2d_file (dataRd2 parseEx 0) (limRd parseEx 0) 10 11 16 = .ok [[[1, 6]], [[2, 7], [3, 8]]] := by
  decide +kernel
example : Gen.IoOpen.opentxt_limits_2d_none (dataRd2 parseEx 0) (limRd parseEx 0) 10 16 = .ok [[[1, 6], [2, 7], [3, 8]]] := by
  decide +kernel
example : npShape1 ([[1, 6], [2, 7], [3, 8]] : List (List Int)) ≠ 1 := by decide

end MsmVerif.Refine.TextIOEnd
