/-
Props/C14General.lean — Wielandt's bound for every `n` (completeness of the exponent `K = (n-1)² + 1` used by
`is_ergodic`) and uniqueness / positivity of the stationary vector of an irreducible row-stochastic matrix.
Helper lemmas live in Lemmas/WielandtGeneral.lean (abstract finite digraphs, namespace `MsmVerif.Digraph`, and the
bridge to `Walk`); the examples use the boolean powers of Lemmas/Wielandt.lean to exhibit concrete walks.

Vocabulary (see Props/C14.lean): `Walk b k i j` = "there is a walk of length exactly `k` from `i` to `j` in the boolean
graph `b`" (`Walk b 0 i j ↔ i = j`, `Walk b (k+1) i j ↔ ∃ l, Walk b k i l ∧ bent b l j`); `support m` has an edge
`i → j` iff `m_ij ≠ 0`; `pow m k` is the naive matrix power; `wielandtExp n = (n-1)·(n-1) + 1`; `vecMat x T` is the row
vector `x · T`.

This removes the restriction `n ≤ 3` of `C14.complete_pattern_n_le_3` / `C14.complete_n_le_3`.
-/
import MsmVerif.Lemmas.Linalg
import MsmVerif.Lemmas.Wielandt
import MsmVerif.Lemmas.WielandtGeneral

namespace MsmVerif.C14General
open MsmVerif MsmVerif.Msm MsmVerif.Linalg

/-! ### A. Wielandt's theorem -/

/-- **Wielandt's theorem (1950), all `n`.**  Let `b` be a boolean `n × n` pattern (a digraph on the vertices
`0, …, n-1`).  If for some `k ≥ 1` every ordered pair of vertices is joined by a walk of length exactly `k` (the digraph
is primitive), then every ordered pair of vertices is joined by a walk of length exactly `(n-1)² + 1`. -/
theorem wielandt (n : Nat) (b : List (List Bool)) (h : b.length = n ∧ ∀ r ∈ b, r.length = n)
    (hprim : ∃ k, 1 ≤ k ∧ ∀ i j, i < n → j < n → Walk b k i j) :
    ∀ i j, i < n → j < n → Walk b ((n - 1) ^ 2 + 1) i j := by
  obtain ⟨k, hk, hw⟩ := hprim
  exact wielandt_pattern (Nat.le_of_eq h.1) hk hw

/-- the Wielandt digraph on 4 vertices (the cycle `0 → 1 → 2 → 3 → 0` with the chord `3 → 1`) -/
def wielandt4 : List (List Bool) :=
  [[false, true, false, false], [false, false, true, false], [false, false, false, true], [true, true, false, false]]

/-- Non-vacuity and sharpness: the Wielandt digraph on 4 vertices is primitive (walks of length exactly `10 = (4-1)²+1`
join all ordered pairs), and `9` steps do not suffice — the exponent in `wielandt` cannot be lowered. -/
example : (wielandt4.length = 4 ∧ ∀ r ∈ wielandt4, r.length = 4) ∧
    (∃ k, 1 ≤ k ∧ ∀ i j, i < 4 → j < 4 → Walk wielandt4 k i j) ∧
    ¬ (∀ i j, i < 4 → j < 4 → Walk wielandt4 9 i j) := by
  refine ⟨by decide, ⟨10, by decide, ?_⟩, ?_⟩
  · intro i j hi hj
    exact (bent_bpow_iff_walk (n := 4) (by decide) 10 hi hj).mp
      ((allTrue_iff 4 _).mp (by decide +kernel) i j hi hj)
  · intro hall
    have : allTrue 4 (bpow wielandt4 4 9) = true :=
      (allTrue_iff 4 _).mpr (fun i j hi hj => (bent_bpow_iff_walk (n := 4) (by decide) 9 hi hj).mpr (hall i j hi hj))
    revert this
    decide +kernel

/-- The same statement with the exponent written as the model's `wielandtExp n = (n-1)·(n-1) + 1`, in the form of
`C14.complete_pattern_n_le_3` without the restriction `n ≤ 3`. -/
theorem complete_pattern (n : Nat) (p : List (List Bool)) (h : p.length = n ∧ ∀ r ∈ p, r.length = n)
    (k : Nat) (hk : 1 ≤ k) (hw : ∀ i j, i < n → j < n → Walk p k i j) :
    ∀ i j, i < n → j < n → Walk p (wielandtExp n) i j := by
  rw [wielandtExp_eq]
  exact wielandt n p h ⟨k, hk, hw⟩

example : (wielandt4.length = 4 ∧ ∀ r ∈ wielandt4, r.length = 4) ∧ wielandtExp 4 = 10 := by decide

/-- Walks of every length `k' ≥ (n-1)² + 1` join all ordered pairs of vertices of a primitive digraph: from the
Wielandt exponent on, the boolean powers of a primitive pattern are all-true forever. -/
theorem wielandt_ge (n : Nat) (b : List (List Bool)) (h : b.length = n ∧ ∀ r ∈ b, r.length = n)
    (hprim : ∃ k, 1 ≤ k ∧ ∀ i j, i < n → j < n → Walk b k i j) (k' : Nat) (hk' : (n - 1) ^ 2 + 1 ≤ k') :
    ∀ i j, i < n → j < n → Walk b k' i j := by
  obtain ⟨k, hk, hw⟩ := hprim
  exact wielandt_pattern_ge (Nat.le_of_eq h.1) hk hw hk'

example : (4 - 1) ^ 2 + 1 ≤ 17 := by decide

/-- **Completeness of the power test of `is_ergodic`, all `n`.**  If some power `k ≥ 1` of a non-negative well-formed
`n × n` matrix is entrywise positive (the matrix is primitive), then already the `K`-th power, `K = (n-1)² + 1`
(`wielandtExp n`, the exponent used by `is_ergodic`), is entrywise positive. -/
theorem complete (n : Nat) (m : Mat) (h : m.length = n ∧ ∀ r ∈ m, r.length = n)
    (hnn : ∀ r ∈ m, ∀ x ∈ r, 0 ≤ x) (k : Nat) (hk : 1 ≤ k)
    (hpos : ∀ i j, i < n → j < n → 0 < entry (pow m k) i j) :
    ∀ i j, i < n → j < n → 0 < entry (pow m (wielandtExp n)) i j := by
  have hw := complete_pattern n (support m) (WF_support h) k hk
    (fun i j hi hj => (Linalg.pow_pos_iff_walk (n := n) h hnn k hi hj).mp (hpos i j hi hj))
  exact fun i j hi hj => (Linalg.pow_pos_iff_walk (n := n) h hnn _ hi hj).mpr (hw i j hi hj)

/-- a stochastic matrix on the Wielandt digraph with 4 states -/
def wielandtT4 : Mat := [[0, 1, 0, 0], [0, 0, 1, 0], [0, 0, 0, 1], [1/2, 1/2, 0, 0]]

/-- Non-vacuity and sharpness on a `4 × 4` stochastic matrix: the 10th power (`10 = wielandtExp 4`) is entrywise
positive, the 9th is not. -/
example : (wielandtT4.length = 4 ∧ ∀ r ∈ wielandtT4, r.length = 4) ∧ (∀ r ∈ wielandtT4, ∀ x ∈ r, 0 ≤ x) ∧
    (∀ i, i < 4 → ∀ j, j < 4 → 0 < entry (pow wielandtT4 10) i j) ∧
    ¬ (∀ i, i < 4 → ∀ j, j < 4 → 0 < entry (pow wielandtT4 9) i j) := by decide +kernel

/-- **`is_ergodic` accepts every primitive transition matrix** (up to the tolerance): if `m` is accepted by
`is_transition_matrix`, has non-negative entries, some power `k ≥ 1` of `m` is entrywise positive, and the (then
positive) entries of the `K`-th power exceed `atol = 1e-8`, then `is_ergodic m` holds.  Only the last hypothesis is
about magnitudes; the exponent `K` itself never causes a primitive matrix to be rejected. -/
theorem complete_isErgodic (m : Mat) (ht : isTmat m = true) (hnn : ∀ r ∈ m, ∀ x ∈ r, 0 ≤ x)
    (k : Nat) (hk : 1 ≤ k) (hpos : ∀ i j, i < m.length → j < m.length → 0 < entry (pow m k) i j)
    (htol : ∀ i j, i < m.length → j < m.length →
      0 < entry (pow m (wielandtExp m.length)) i j → atol < entry (pow m (wielandtExp m.length)) i j) :
    isErgodic m = true := by
  rw [isErgodic_iff]
  refine ⟨ht, fun i j hi hj => htol i j hi hj ?_⟩
  exact complete m.length m (WF_of_isTmat ht) hnn k hk hpos i j hi hj

example : isTmat wielandtT4 = true ∧ isErgodic wielandtT4 = true := by decide +kernel

/-! ### B. the stationary vector of an irreducible stochastic matrix -/

/-- **Uniqueness of the stationary vector.**  Let `T` be a well-formed `n × n` matrix with non-negative entries and
all row sums equal to 1 whose support graph is strongly connected (every vertex reaches every vertex by some walk).
Then any two row vectors `x`, `y` with `x T = x`, `y T = y` and entry sums 1 are equal.  (No sign condition on `x`, `y`
is needed.) -/
theorem stationary_unique_irreducible (n : Nat) (T : Mat) (h : T.length = n ∧ ∀ r ∈ T, r.length = n)
    (hnn : ∀ r ∈ T, ∀ x ∈ r, 0 ≤ x) (hrow : ∀ r ∈ T, r.sum = 1)
    (hirr : ∀ i j, i < n → j < n → ∃ k, Walk (support T) k i j)
    (x y : Vec) (hx : vecMat x T = x) (hy : vecMat y T = y) (hxs : x.sum = 1) (hys : y.sum = 1) : x = y :=
  stationary_unique (n := n) h hnn hrow hirr hx hy hxs hys

/-- an irreducible but periodic (not primitive) stochastic matrix: `0 ↔ 1 ↔ 2`-chain with period 2 -/
def chainT3 : Mat := [[0, 1, 0], [1/2, 0, 1/2], [0, 1, 0]]

/-- Non-vacuity: `chainT3` satisfies all hypotheses (it is irreducible, although periodic — so `is_ergodic` rejects it
and the uniqueness statement is about a larger class than the accepted matrices), and `(1/4, 1/2, 1/4)` is a
stationary probability vector. -/
example : (chainT3.length = 3 ∧ ∀ r ∈ chainT3, r.length = 3) ∧ (∀ r ∈ chainT3, ∀ x ∈ r, 0 ≤ x) ∧
    (∀ r ∈ chainT3, r.sum = 1) ∧ (∀ i j, i < 3 → j < 3 → ∃ k, Walk (support chainT3) k i j) ∧
    vecMat [1/4, 1/2, 1/4] chainT3 = [1/4, 1/2, 1/4] ∧ ([1/4, 1/2, 1/4] : Vec).sum = 1 ∧
    isErgodic chainT3 = false := by
  refine ⟨by decide, by decide +kernel, by decide +kernel, ?_, by decide +kernel, by decide +kernel, by decide +kernel⟩
  -- every pair is joined by a walk of length 2 or 3
  have h2 : ∀ i, i < 3 → ∀ j, j < 3 → bent (bpow (support chainT3) 3 2) i j = true ∨
      bent (bpow (support chainT3) 3 3) i j = true := by decide +kernel
  intro i j hi hj
  rcases h2 i hi j hj with h | h
  · exact ⟨2, (bent_bpow_iff_walk (n := 3) (by decide +kernel) 2 hi hj).mp h⟩
  · exact ⟨3, (bent_bpow_iff_walk (n := 3) (by decide +kernel) 3 hi hj).mp h⟩

/-- **Positivity of the stationary vector.**  Under the same hypotheses every row vector `x` with `x T = x` and entry
sum 1 has all its `n` entries strictly positive. -/
theorem stationary_pos_irreducible (n : Nat) (T : Mat) (h : T.length = n ∧ ∀ r ∈ T, r.length = n)
    (hnn : ∀ r ∈ T, ∀ x ∈ r, 0 ≤ x) (hrow : ∀ r ∈ T, r.sum = 1)
    (hirr : ∀ i j, i < n → j < n → ∃ k, Walk (support T) k i j)
    (x : Vec) (hx : vecMat x T = x) (hxs : x.sum = 1) : x.length = n ∧ ∀ i, i < n → 0 < x.getD i 0 :=
  ⟨by rw [← hx]; exact length_vecMat h x, stationary_pos (n := n) h hnn hrow hirr hx hxs⟩

example : vecMat [1/4, 1/2, 1/4] chainT3 = [1/4, 1/2, 1/4] ∧ ([1/4, 1/2, 1/4] : Vec).sum = 1 := by decide +kernel

/-- **`stationary` returns the only candidate.**  If the model's solver `stationary T` (the linear solve behind
`equilibrium_population`) returns a vector `π` for an irreducible non-negative matrix with unit row sums, then every
row vector `x` with `x T = x` and entry sum 1 equals `π`. -/
theorem stationary_is_unique (n : Nat) (T : Mat) (h : T.length = n ∧ ∀ r ∈ T, r.length = n)
    (hnn : ∀ r ∈ T, ∀ x ∈ r, 0 ≤ x) (hrow : ∀ r ∈ T, r.sum = 1)
    (hirr : ∀ i j, i < n → j < n → ∃ k, Walk (support T) k i j)
    (π : Vec) (hπ : stationary T = some π)
    (x : Vec) (hx : vecMat x T = x) (hxs : x.sum = 1) : x = π := by
  obtain ⟨hfix, hsum, _⟩ := stationary_spec (n := n) h hπ
  exact stationary_unique (n := n) h hnn hrow hirr hx hfix hxs hsum

example : stationary chainT3 = some [1/4, 1/2, 1/4] := by decide +kernel

end MsmVerif.C14General
