#!/bin/bash
# tools/trial.sh <seeded-id> <Cxx> <worktree> [tier]  — mutation trial in a scratch worktree (never touches /repo or evidence/)
id="$1"; pid="$2"; wt="$3"; tier="${4:-quick}"
cd "$wt" || exit 9
git checkout -q -- . ; git clean -fdq
git apply "/verif/seeded/$id/patch.diff" || { echo "$id: patch does not apply"; exit 9; }
out=/tmp/trial_out/$id-$pid; mkdir -p "$out"
cd /verif && VERIF_REPO="$wt" VERIF_OUT="$out" timeout 3000 ./bin/check "$pid" "$tier" > "$out/log" 2>&1; rc=$?
cd "$wt" && git checkout -q -- . && git clean -fdq
line=$(grep -E "^(VIOLATION|KNOWN-FINDING)" "$out/log" | head -1)
echo "$id $pid $tier exit=$rc $line"
