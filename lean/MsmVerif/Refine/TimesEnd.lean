/-
Refine/TimesEnd.lean — task RP28 (property C08, first sentence): the public `msm.estimate_waiting_times` / `msm.estimate_transition_times`
END TO END — the composition of

* the public wrappers (`Refine/TimesPublic.lean`, task RP26) and `_estimate_times` (`Refine/Times.lean`, task RP11): validation, label → index
  conversion, `np.random.choice` of the start index among the final indices, `_get_cummat(lagtime)`, THE KERNEL, post-processing of its dictionary;
* the translated compiled kernels `_estimate_waiting_times` / `_estimate_transition_times` (`Refine/Mcmc.lean`, task RP4), which consume a stream of
  uniform draws: plugged in as the kernel oracle by fixing the stream (`wtOracle us`, `ttOracle us`).

Setting of all theorems of the section `accepted` (the section variables, included in every theorem): `ss` ascending state list, `S`, `F` disjoint
sets of states of `ss`; `np.random.choice`, called with the final indices `idxOf ss F`, answered the index `c < n`; `_get_cummat(lagtime)` answered a
well-formed `(cum, permI perm)` (`WF cum perm n`).  The chain is `chainI cum perm c steps us` = `Mcmc.realised cum perm c steps us` (as integers): the
state after each of the `steps` propagation steps from `c` with the draws `us`.

Results:
* `msm_waiting_times_end_to_end`, `msm_transition_times_end_to_end` (list form; `…_sorted_durations`: closed form `sort(durations) * lag`),
  `msm_waiting_times_hist_end_to_end`, `msm_transition_times_hist_end_to_end` (density; `…_hist_no_event`: `ValueError`),
  `msm_times_draws_exhausted` (fewer than `steps` draws: the kernel's error, all four forms);
* corollaries with `Props/C08.lean`: `msm_waiting_times_sorted_perm` (ascending rearrangement of `lag ×` the md waiting times of the chain),
  `msm_transition_times_sorted_perm` (last-visit pairs), `msm_waiting_times_density`, `msm_transition_times_density` (integrates to one, bins, edges);
* index space = label space (`n = |ss|`): `index_space_eq_label_space`, `msm_waiting_times_end_to_end_labels`, `msm_transition_times_end_to_end_labels`;
* `msm_times_end_to_end_choice`: `c < n` follows when `np.random.choice` returns a MEMBER of its argument and `n = |ss|`.

Helper lemmas and the definitions `wtOracle`, `ttOracle`, `idxOf`, `chainI`: `Refine/TimesEndLemmas.lean` (same namespace).
-/
import MsmVerif.Refine.TimesEndLemmas

namespace MsmVerif.Refine.TimesEnd
open MsmVerif MsmVerif.Gen MsmVerif.Events
open MsmVerif.Refine.Times (dictI exChoice)
open MsmVerif.Refine.Mcmc (WF permI exCum exPerm exUs exWF)

section accepted
variable {choice : List Int → Py Int} {cummat : Int → Py Cummat}
  {ss : List Int} {lag : Nat} {S F : List Int} {cum : List (List Rat)} {perm : List (List Nat)} {n c : Nat}
  (hss : ss.Pairwise (· < ·)) (hd : ∀ x ∈ S, x ∉ F) (hS : ∀ x ∈ S, x ∈ ss) (hF : ∀ x ∈ F, x ∈ ss)
  (hchoice : choice (idxOf ss F) = .ok (c : Int)) (hc : c < n)
  (hcm : cummat (lag : Int) = .ok (cum, permI perm)) (hwf : WF cum perm n)
include hss hd hS hF hchoice hc hcm hwf

/-! ### 1. list forms -/

/-- **waiting times, list form, end to end.**  `ss` ascending states, `S`, `F` disjoint subsets of `ss`; `np.random.choice` (called with the final
    indices) answered the index `c < n`; `_get_cummat(lagtime)` answered a well-formed `(cum, permI perm)`; at least `steps` draws in `us`.  Then
    `msm.estimate_waiting_times(…, return_list=True)` with the TRANSLATED kernel plugged in (run on `us`) raises nothing and returns the model's
    `histList … lag` of the model's waiting-time loop `msmWtLoop` — the events of the start / final automaton (first entry into the start set until
    the next hit of the final set) — along the realised chain `Mcmc.realised cum perm c steps us`, in index space: start indices
    `idxOf ss S = (sortDedup S).map (rank ss)`, final indices `idxOf ss F`.  (No assumption on the lag time is needed for this form.) -/
theorem msm_waiting_times_end_to_end (steps : Nat) (jit : Bool) (us : List Rat) (hus : steps ≤ us.length) :
    Gen.MsmTimesApi.estimate_waiting_times_list (wtOracle us) choice cummat ss lag S F steps jit
      = .ok ((histList (msmWtLoop (idxOf ss S) (idxOf ss F) (chainI cum perm c steps us)) lag).map Int.ofNat) :=
  TimesPublic.estimate_waiting_times_list_refines (wtOracle us) choice cummat ss lag S F steps jit hss hd hS hF (c : Int)
    (cum, permI perm) _ hchoice hcm (wtOracle_ok hwf c steps hc _ _ us hus)

/-- **transition times, list form, end to end**: as `msm_waiting_times_end_to_end` for `msm.estimate_transition_times(…, return_list=True)` with the
    translated TRANSITION-time kernel: the model's transition-time loop `msmTtLoop` (LAST visit of the start set until the next hit of the final
    set) along the same realised chain. -/
theorem msm_transition_times_end_to_end (steps : Nat) (jit : Bool) (us : List Rat) (hus : steps ≤ us.length) :
    Gen.MsmTimesApi.estimate_transition_times_list (ttOracle us) choice cummat ss lag S F steps jit
      = .ok ((histList (msmTtLoop (idxOf ss S) (idxOf ss F) (chainI cum perm c steps us)) lag).map Int.ofNat) :=
  TimesPublic.estimate_transition_times_list_refines (ttOracle us) choice cummat ss lag S F steps jit hss hd hS hF (c : Int)
    (cum, permI perm) _ hchoice hcm (ttOracle_ok hwf c steps hc _ _ us hus)

/-- **waiting times, list form, closed form**: the result is the ascending list of the durations `j - i` of the events `(i, j)` of the start / final
    automaton (`Events.events`) along the realised chain, each multiplied by the lag time. -/
theorem msm_waiting_times_sorted_durations (steps : Nat) (jit : Bool) (us : List Rat) (hus : steps ≤ us.length) :
    Gen.MsmTimesApi.estimate_waiting_times_list (wtOracle us) choice cummat ss lag S F steps jit
      = .ok (((((events (idxOf ss S) (idxOf ss F) (chainI cum perm c steps us)).map (fun e => e.2 - e.1)).mergeSort (· ≤ ·)).map
          (· * lag)).map Int.ofNat) := by
  rw [msm_waiting_times_end_to_end hss hd hS hF hchoice hc hcm hwf steps jit us hus, msmWtLoop, histList_hist_eq]

/-- **transition times, list form, closed form**: the ascending list of the transition times emitted by `Events.ttFrom` along the realised chain,
    each multiplied by the lag time. -/
theorem msm_transition_times_sorted_durations (steps : Nat) (jit : Bool) (us : List Rat) (hus : steps ≤ us.length) :
    Gen.MsmTimesApi.estimate_transition_times_list (ttOracle us) choice cummat ss lag S F steps jit
      = .ok ((((ttFrom (idxOf ss S) (idxOf ss F) {} 0 (chainI cum perm c steps us)).mergeSort (· ≤ ·)).map (· * lag)).map Int.ofNat) := by
  rw [msm_transition_times_end_to_end hss hd hS hF hchoice hc hcm hwf steps jit us hus, msmTtLoop, histList_hist_eq]

/-! ### 2. histogram forms -/

/-- **waiting times, histogram form, end to end.**  Setting as in `msm_waiting_times_end_to_end`; if the realised chain has at least one event,
    `msm.estimate_waiting_times(…, return_list=False)` with the translated kernel raises nothing (no `IndexError`) and returns the model's
    `histDensity … lag` of the waiting-time histogram: the density over consecutive multiples of the lag time, and the bin edges. -/
theorem msm_waiting_times_hist_end_to_end (steps : Nat) (jit : Bool) (us : List Rat) (hus : steps ≤ us.length)
    (hev : events (idxOf ss S) (idxOf ss F) (chainI cum perm c steps us) ≠ []) :
    Gen.MsmTimesApi.estimate_waiting_times_hist (wtOracle us) choice cummat ss lag S F steps jit
      = .ok ((histDensity (msmWtLoop (idxOf ss S) (idxOf ss F) (chainI cum perm c steps us)) lag).1,
          (histDensity (msmWtLoop (idxOf ss S) (idxOf ss F) (chainI cum perm c steps us)) lag).2.map Int.ofNat) :=
  TimesPublic.estimate_waiting_times_hist_refines (wtOracle us) choice cummat ss lag S F steps jit hss hd hS hF (c : Int)
    (cum, permI perm) _ hchoice hcm (wtOracle_ok hwf c steps hc _ _ us hus)
    (by rw [msmWtLoop, Ne, hist_eq_nil_iff, List.map_eq_nil_iff]; exact hev) (C08.hist_keys_nodup _)

/-- **waiting times, histogram form, no event**: if the realised chain has no event, the histogram form raises `ValueError` (`max` of an empty
    sequence). -/
theorem msm_waiting_times_hist_no_event (steps : Nat) (jit : Bool) (us : List Rat) (hus : steps ≤ us.length)
    (hev : events (idxOf ss S) (idxOf ss F) (chainI cum perm c steps us) = []) :
    Gen.MsmTimesApi.estimate_waiting_times_hist (wtOracle us) choice cummat ss lag S F steps jit = .error .value := by
  have h := wtOracle_ok hwf c steps hc (idxOf ss S) (idxOf ss F) us hus
  rw [msmWtLoop, hev] at h
  exact (TimesPublic.estimate_times_public_hist_empty choice cummat ss lag S F steps jit hss hd hS hF (wtOracle us) (c : Int)
    (cum, permI perm) hchoice hcm h).1

/-- **transition times, histogram form, end to end**: as `msm_waiting_times_hist_end_to_end` for `msm.estimate_transition_times(…,
    return_list=False)` and the transition-time histogram `msmTtLoop`. -/
theorem msm_transition_times_hist_end_to_end (steps : Nat) (jit : Bool) (us : List Rat) (hus : steps ≤ us.length)
    (hev : ttFrom (idxOf ss S) (idxOf ss F) {} 0 (chainI cum perm c steps us) ≠ []) :
    Gen.MsmTimesApi.estimate_transition_times_hist (ttOracle us) choice cummat ss lag S F steps jit
      = .ok ((histDensity (msmTtLoop (idxOf ss S) (idxOf ss F) (chainI cum perm c steps us)) lag).1,
          (histDensity (msmTtLoop (idxOf ss S) (idxOf ss F) (chainI cum perm c steps us)) lag).2.map Int.ofNat) :=
  TimesPublic.estimate_transition_times_hist_refines (ttOracle us) choice cummat ss lag S F steps jit hss hd hS hF (c : Int)
    (cum, permI perm) _ hchoice hcm (ttOracle_ok hwf c steps hc _ _ us hus)
    (by rw [msmTtLoop, Ne, hist_eq_nil_iff]; exact hev) (C08.hist_keys_nodup _)

/-- **transition times, histogram form, no event**: `ValueError`. -/
theorem msm_transition_times_hist_no_event (steps : Nat) (jit : Bool) (us : List Rat) (hus : steps ≤ us.length)
    (hev : ttFrom (idxOf ss S) (idxOf ss F) {} 0 (chainI cum perm c steps us) = []) :
    Gen.MsmTimesApi.estimate_transition_times_hist (ttOracle us) choice cummat ss lag S F steps jit = .error .value := by
  have h := ttOracle_ok hwf c steps hc (idxOf ss S) (idxOf ss F) us hus
  rw [msmTtLoop, hev] at h
  exact (TimesPublic.estimate_times_public_hist_empty choice cummat ss lag S F steps jit hss hd hS hF (ttOracle us) (c : Int)
    (cum, permI perm) hchoice hcm h).2

/-! ### 3. too few draws -/

/-- **draws exhausted.**  Setting as above but FEWER than `steps` draws in the stream: all four public forms fail with the kernel's error (the
    runtime's "no draw left") — nothing is defaulted, no value is returned. -/
theorem msm_times_draws_exhausted (steps : Nat) (jit : Bool) (us : List Rat) (hus : us.length < steps) :
    Gen.MsmTimesApi.estimate_waiting_times_list (wtOracle us) choice cummat ss lag S F steps jit = .error .other ∧
    Gen.MsmTimesApi.estimate_waiting_times_hist (wtOracle us) choice cummat ss lag S F steps jit = .error .other ∧
    Gen.MsmTimesApi.estimate_transition_times_list (ttOracle us) choice cummat ss lag S F steps jit = .error .other ∧
    Gen.MsmTimesApi.estimate_transition_times_hist (ttOracle us) choice cummat ss lag S F steps jit = .error .other := by
  have hw := TimesPublic.estimate_times_public_kernel_error choice cummat ss lag S F steps jit hss hd hS hF (wtOracle us) (c : Int)
    (cum, permI perm) .other hchoice hcm (wtOracle_exhausted hwf c steps hc _ _ us hus)
  have ht := TimesPublic.estimate_times_public_kernel_error choice cummat ss lag S F steps jit hss hd hS hF (ttOracle us) (c : Int)
    (cum, permI perm) .other hchoice hcm (ttOracle_exhausted hwf c steps hc _ _ us hus)
  exact ⟨hw.1, hw.2.1, ht.2.2.1, ht.2.2.2⟩

/-! ### 4. corollaries with `Props/C08.lean` -/

/-- **the waiting-time list is sorted and a rearrangement of `lag ×` the md waiting times of the realised chain.**  The result `r` of the list form
    is ascending, and a permutation of `(j - i) * lag` over the DECLARATIVE events `(i, j)` (`Events.specEvents`, the specification of the md
    estimator, C06: `i` the first start-set frame at or after the end of the previous event, `j` the first final-set frame after `i`) of the
    realised chain.  (An ascending list is determined by being a permutation of a given list, so this fixes `r`.) -/
theorem msm_waiting_times_sorted_perm (steps : Nat) (jit : Bool) (us : List Rat) (hus : steps ≤ us.length) :
    ∃ r, Gen.MsmTimesApi.estimate_waiting_times_list (wtOracle us) choice cummat ss lag S F steps jit = .ok r ∧
      r.Pairwise (· ≤ ·) ∧
      r.Perm (((specEvents (idxOf ss S) (idxOf ss F) (chainI cum perm c steps us)).map (fun e => (e.2 - e.1) * lag)).map Int.ofNat) := by
  refine ⟨_, msm_waiting_times_end_to_end hss hd hS hF hchoice hc hcm hwf steps jit us hus, ?_, ?_⟩
  · exact pairwise_map_ofNat _ (C08.list_sorted _ lag)
  · rw [C08.wt_is_md_events]
    have := (histList_hist ((specEvents (idxOf ss S) (idxOf ss F) (chainI cum perm c steps us)).map (fun e => e.2 - e.1)) lag).2
    rw [List.map_map] at this
    exact this.map _

/-- **the transition-time list is sorted and a rearrangement of `lag ×` the last-visit durations.**  There is a list `ps` of frame pairs `(i, j)` of
    the realised chain `xs`, strictly ordered in time, containing EXACTLY the pairs with `x_i` a start index, `x_j` a final index, `i < j` and no
    frame strictly between in the start or the final set (`i` is the LAST start-set frame before `j`, `j` the first final-set frame after it); the
    result `r` of the list form is ascending and a permutation of `(j - i) * lag` over `ps`. -/
theorem msm_transition_times_sorted_perm (steps : Nat) (jit : Bool) (us : List Rat) (hus : steps ≤ us.length) :
    ∃ (r : List Int) (ps : List (Nat × Nat)), Gen.MsmTimesApi.estimate_transition_times_list (ttOracle us) choice cummat ss lag S F steps jit = .ok r ∧
      r.Pairwise (· ≤ ·) ∧
      r.Perm ((ps.map (fun e : Nat × Nat => (e.2 - e.1) * lag)).map Int.ofNat) ∧
      ps.Pairwise (fun e e' => e.2 < e'.1) ∧
      ∀ i j, (i, j) ∈ ps ↔
        (i < j ∧ j < steps ∧ (chainI cum perm c steps us).getD i 0 ∈ idxOf ss S ∧ (chainI cum perm c steps us).getD j 0 ∈ idxOf ss F ∧
          ∀ m, i < m → m < j →
            (chainI cum perm c steps us).getD m 0 ∉ idxOf ss S ∧ (chainI cum perm c steps us).getD m 0 ∉ idxOf ss F) := by
  obtain ⟨ps, h1, h2, h3⟩ := C08.tt_last_visit_disjoint (idxOf ss S) (idxOf ss F) (chainI cum perm c steps us)
    (fun x hx => idxOf_disjoint ss S F hd hS x hx)
  have hlen : (chainI cum perm c steps us).length = steps := by
    simp only [chainI, Mcmc.realised, List.length_map, Mcmc.chainFrom_length, List.length_take]
    omega
  refine ⟨_, ps, msm_transition_times_end_to_end hss hd hS hF hchoice hc hcm hwf steps jit us hus, ?_, ?_, h2, ?_⟩
  · exact pairwise_map_ofNat _ (C08.list_sorted _ lag)
  · have := (histList_hist (ttFrom (idxOf ss S) (idxOf ss F) {} 0 (chainI cum perm c steps us)) lag).2
    rw [h1, List.map_map] at this
    rw [msmTtLoop, h1]
    exact this.map _
  · intro i j
    rw [h3, hlen]

/-- **the waiting-time density.**  Lag time `≥ 1`, at least one event.  The histogram form returns `(dens, edges)` with: the density integrates
    to one (`Σ_k dens[k] · lag = 1`); one bin per duration `0 … K` (`K` the longest event) and the `K + 2` edges `0, lag, …, (K+1)·lag`; and
    `dens[k] · lag` is the fraction of the events of the realised chain that last exactly `k` steps. -/
theorem msm_waiting_times_density (hlag : 1 ≤ lag) (steps : Nat) (jit : Bool) (us : List Rat) (hus : steps ≤ us.length)
    (hev : events (idxOf ss S) (idxOf ss F) (chainI cum perm c steps us) ≠ []) :
    ∃ dens edges, Gen.MsmTimesApi.estimate_waiting_times_hist (wtOracle us) choice cummat ss lag S F steps jit = .ok (dens, edges) ∧
      (dens.map (· * (lag : Rat))).sum = 1 ∧
      let durs := (events (idxOf ss S) (idxOf ss F) (chainI cum perm c steps us)).map (fun e => e.2 - e.1)
      dens.length = durs.foldl max 0 + 1 ∧
      edges = ((List.range (durs.foldl max 0 + 2)).map (· * lag)).map Int.ofNat ∧
      ∀ k, k ≤ durs.foldl max 0 → dens[k]?.map (· * (lag : Rat)) = some ((durs.count k : Rat) / (durs.length : Rat)) := by
  have h := density_hist ((events (idxOf ss S) (idxOf ss F) (chainI cum perm c steps us)).map (fun e => e.2 - e.1)) lag (by omega)
    (by rw [Ne, List.map_eq_nil_iff]; exact hev)
  refine ⟨_, _, msm_waiting_times_hist_end_to_end hss hd hS hF hchoice hc hcm hwf steps jit us hus hev, h.1, h.2.1, ?_, h.2.2.2⟩
  rw [← h.2.2.1]; rfl

/-- **the transition-time density**: as `msm_waiting_times_density` for the transition times emitted along the realised chain. -/
theorem msm_transition_times_density (hlag : 1 ≤ lag) (steps : Nat) (jit : Bool) (us : List Rat) (hus : steps ≤ us.length)
    (hev : ttFrom (idxOf ss S) (idxOf ss F) {} 0 (chainI cum perm c steps us) ≠ []) :
    ∃ dens edges, Gen.MsmTimesApi.estimate_transition_times_hist (ttOracle us) choice cummat ss lag S F steps jit = .ok (dens, edges) ∧
      (dens.map (· * (lag : Rat))).sum = 1 ∧
      let durs := ttFrom (idxOf ss S) (idxOf ss F) {} 0 (chainI cum perm c steps us)
      dens.length = durs.foldl max 0 + 1 ∧
      edges = ((List.range (durs.foldl max 0 + 2)).map (· * lag)).map Int.ofNat ∧
      ∀ k, k ≤ durs.foldl max 0 → dens[k]?.map (· * (lag : Rat)) = some ((durs.count k : Rat) / (durs.length : Rat)) := by
  have h := density_hist (ttFrom (idxOf ss S) (idxOf ss F) {} 0 (chainI cum perm c steps us)) lag (by omega) hev
  refine ⟨_, _, msm_transition_times_hist_end_to_end hss hd hS hF hchoice hc hcm hwf steps jit us hus hev, h.1, h.2.1, ?_, h.2.2.2⟩
  rw [← h.2.2.1]; rfl

/-! ### 5. index space = label space -/

omit hd hS hF hchoice hcm in
/-- **index space = label space.**  If the cumulative matrix has one row per state (`n = |ss|`), running the automata with the index lists on the
    index chain is the same as running them with the ORIGINAL start / final label lists on the chain of LABELS `ss[x_k]`: same events, same
    transition times, same histograms. -/
theorem index_space_eq_label_space (hn : n = ss.length) (steps : Nat) (us : List Rat) :
    events (idxOf ss S) (idxOf ss F) (chainI cum perm c steps us) = events S F ((chainI cum perm c steps us).map (labelOf ss)) ∧
    ttFrom (idxOf ss S) (idxOf ss F) {} 0 (chainI cum perm c steps us) = ttFrom S F {} 0 ((chainI cum perm c steps us).map (labelOf ss)) ∧
    msmWtLoop (idxOf ss S) (idxOf ss F) (chainI cum perm c steps us) = msmWtLoop S F ((chainI cum perm c steps us).map (labelOf ss)) ∧
    msmTtLoop (idxOf ss S) (idxOf ss F) (chainI cum perm c steps us) = msmTtLoop S F ((chainI cum perm c steps us).map (labelOf ss)) := by
  have hnd : ss.Nodup := hss.imp (fun h => Int.ne_of_lt h)
  have hlt : ∀ x ∈ Mcmc.realised cum perm c steps us, x < ss.length := fun x hx => hn ▸ realised_lt hwf c steps hc us x hx
  have h1 := eventsFrom_idx_label ss S F hnd _ hlt {} 0
  have h2 := ttFrom_idx_label ss S F hnd _ hlt {} 0
  refine ⟨h1, h2, ?_, ?_⟩
  · unfold msmWtLoop events chainI; rw [h1]
  · unfold msmTtLoop chainI; rw [h2]

/-- **waiting times, list form, in label space** (`n = |ss|`): the ascending list of `lag ×` the durations of the events of the start / final
    automaton with the ORIGINAL label lists `S`, `F` along the chain of labels `ss[x_k]`. -/
theorem msm_waiting_times_end_to_end_labels (hn : n = ss.length) (steps : Nat) (jit : Bool) (us : List Rat) (hus : steps ≤ us.length) :
    Gen.MsmTimesApi.estimate_waiting_times_list (wtOracle us) choice cummat ss lag S F steps jit
      = .ok (((((events S F ((chainI cum perm c steps us).map (labelOf ss))).map (fun e => e.2 - e.1)).mergeSort (· ≤ ·)).map
          (· * lag)).map Int.ofNat) := by
  rw [msm_waiting_times_sorted_durations hss hd hS hF hchoice hc hcm hwf steps jit us hus,
    (index_space_eq_label_space hss hc hwf hn steps us).1]

/-- **transition times, list form, in label space** (`n = |ss|`). -/
theorem msm_transition_times_end_to_end_labels (hn : n = ss.length) (steps : Nat) (jit : Bool) (us : List Rat) (hus : steps ≤ us.length) :
    Gen.MsmTimesApi.estimate_transition_times_list (ttOracle us) choice cummat ss lag S F steps jit
      = .ok ((((ttFrom S F {} 0 ((chainI cum perm c steps us).map (labelOf ss))).mergeSort (· ≤ ·)).map (· * lag)).map Int.ofNat) := by
  rw [msm_transition_times_sorted_durations hss hd hS hF hchoice hc hcm hwf steps jit us hus,
    (index_space_eq_label_space hss hc hwf hn steps us).2.1]

end accepted

/-! ### 6. `c < n` from the contract of `np.random.choice` -/

/-- **`np.random.choice` returns a member of its argument.**  `ss` ascending, `S`, `F` disjoint subsets of `ss`; `np.random.choice(idxs_final)`
    answered `ci`, a MEMBER of the final indices; `_get_cummat(lagtime)` answered a well-formed cumulative matrix with one row per state.  Then
    `ci` is (the cast of) a natural number `c < |ss|` whose label `ss[c]` is a final state, and both list forms return the end-to-end value of
    `msm_waiting_times_end_to_end` / `msm_transition_times_end_to_end` for the chain started at `c`. -/
theorem msm_times_end_to_end_choice {choice : List Int → Py Int} {cummat : Int → Py Cummat}
    {ss : List Int} {lag : Nat} {S F : List Int} {cum : List (List Rat)} {perm : List (List Nat)} {ci : Int}
    (hss : ss.Pairwise (· < ·)) (hd : ∀ x ∈ S, x ∉ F) (hS : ∀ x ∈ S, x ∈ ss) (hF : ∀ x ∈ F, x ∈ ss)
    (hchoice : choice (idxOf ss F) = .ok ci) (hmem : ci ∈ idxOf ss F)
    (hcm : cummat (lag : Int) = .ok (cum, permI perm)) (hwf : WF cum perm ss.length)
    (steps : Nat) (jit : Bool) (us : List Rat) (hus : steps ≤ us.length) :
    ci = (ci.toNat : Int) ∧ ci.toNat < ss.length ∧ labelOf ss ci ∈ F ∧
    Gen.MsmTimesApi.estimate_waiting_times_list (wtOracle us) choice cummat ss lag S F steps jit
      = .ok ((histList (msmWtLoop (idxOf ss S) (idxOf ss F) (chainI cum perm ci.toNat steps us)) lag).map Int.ofNat) ∧
    Gen.MsmTimesApi.estimate_transition_times_list (ttOracle us) choice cummat ss lag S F steps jit
      = .ok ((histList (msmTtLoop (idxOf ss S) (idxOf ss F) (chainI cum perm ci.toNat steps us)) lag).map Int.ofNat) := by
  obtain ⟨c, rfl, hc, hl⟩ := idxOf_mem ss F hF ci hmem
  rw [Int.toNat_natCast]
  exact ⟨rfl, hc, hl, msm_waiting_times_end_to_end hss hd hS hF hchoice hc hcm hwf steps jit us hus,
    msm_transition_times_end_to_end hss hd hS hF hchoice hc hcm hwf steps jit us hus⟩

/-! ### 7. non-vacuity: the worked example of `Refine/Mcmc.lean` (`exCum`, `exPerm`, `exUs`) behind the public functions -/

/-- `_get_cummat` of the example: the well-formed 2-state cumulative matrix `exCum` / `exPerm`, available for lag time 2 only -/
def exCummat : Int → Py Cummat := fun lag => if lag = 2 then .ok (exCum, permI exPerm) else .error .lagtime
/-- twelve draws: the six draws `exUs`, twice -/
def exUs2 : List Rat := exUs ++ exUs

/-- states `3 < 7`, start `{3}` (given with a repetition), final `{7}`: index lists `[0]`, `[1]`; `exChoice` picks the last final index, `c = 1`;
    the realised chain of 12 steps and its events -/
example : idxOf [3, 7] [3, 3] = [0] ∧ idxOf [3, 7] [7] = [1] ∧ exChoice (idxOf [3, 7] [7]) = .ok ((1 : Nat) : Int) ∧
    chainI exCum exPerm 1 12 exUs2 = [1, 0, 1, 1, 0, 0, 0, 1, 0, 0, 1, 1] ∧
    events [0] [1] (chainI exCum exPerm 1 12 exUs2) = [(1, 2), (4, 7), (8, 10)] ∧
    ttFrom [0] [1] {} 0 (chainI exCum exPerm 1 12 exUs2) = [1, 1, 1] := by decide +kernel

/-- waiting times, list form: the theorem applies … -/
example : Gen.MsmTimesApi.estimate_waiting_times_list (wtOracle exUs2) exChoice exCummat [3, 7] (2 : Nat) [3, 3] [7] (12 : Nat) false
    = .ok ((histList (msmWtLoop (idxOf [3, 7] [3, 3]) (idxOf [3, 7] [7]) (chainI exCum exPerm 1 12 exUs2)) 2).map Int.ofNat) :=
  msm_waiting_times_end_to_end (n := 2) (by decide +kernel) (by decide +kernel) (by decide +kernel) (by decide +kernel)
    (by decide +kernel) (by decide) (by decide +kernel) exWF 12 false exUs2 (by decide)
/-- … and the value is `lag ×` the sorted durations `1, 2, 3` (the translated kernel really runs, on the twelve draws) -/
example : Gen.MsmTimesApi.estimate_waiting_times_list (wtOracle exUs2) exChoice exCummat [3, 7] 2 [3, 3] [7] 12 false = .ok [2, 4, 6] := by
  decide +kernel

/-- transition times, list form: the theorem applies; the value: three transitions of one step -/
example : Gen.MsmTimesApi.estimate_transition_times_list (ttOracle exUs2) exChoice exCummat [3, 7] (2 : Nat) [3, 3] [7] (12 : Nat) true
    = .ok ((histList (msmTtLoop (idxOf [3, 7] [3, 3]) (idxOf [3, 7] [7]) (chainI exCum exPerm 1 12 exUs2)) 2).map Int.ofNat) :=
  msm_transition_times_end_to_end (n := 2) (by decide +kernel) (by decide +kernel) (by decide +kernel) (by decide +kernel)
    (by decide +kernel) (by decide) (by decide +kernel) exWF 12 true exUs2 (by decide)
example : Gen.MsmTimesApi.estimate_transition_times_list (ttOracle exUs2) exChoice exCummat [3, 7] 2 [3, 3] [7] 12 true = .ok [2, 2, 2] := by
  decide +kernel

/-- histogram forms: the theorems apply (there are events) -/
example : Gen.MsmTimesApi.estimate_waiting_times_hist (wtOracle exUs2) exChoice exCummat [3, 7] (2 : Nat) [3, 3] [7] (12 : Nat) false
    = .ok ((histDensity (msmWtLoop (idxOf [3, 7] [3, 3]) (idxOf [3, 7] [7]) (chainI exCum exPerm 1 12 exUs2)) 2).1,
        (histDensity (msmWtLoop (idxOf [3, 7] [3, 3]) (idxOf [3, 7] [7]) (chainI exCum exPerm 1 12 exUs2)) 2).2.map Int.ofNat) :=
  msm_waiting_times_hist_end_to_end (n := 2) (by decide +kernel) (by decide +kernel) (by decide +kernel) (by decide +kernel)
    (by decide +kernel) (by decide) (by decide +kernel) exWF 12 false exUs2 (by decide) (by decide +kernel)
example : Gen.MsmTimesApi.estimate_transition_times_hist (ttOracle exUs2) exChoice exCummat [3, 7] (2 : Nat) [3, 3] [7] (12 : Nat) false
    = .ok ((histDensity (msmTtLoop (idxOf [3, 7] [3, 3]) (idxOf [3, 7] [7]) (chainI exCum exPerm 1 12 exUs2)) 2).1,
        (histDensity (msmTtLoop (idxOf [3, 7] [3, 3]) (idxOf [3, 7] [7]) (chainI exCum exPerm 1 12 exUs2)) 2).2.map Int.ofNat) :=
  msm_transition_times_hist_end_to_end (n := 2) (by decide +kernel) (by decide +kernel) (by decide +kernel) (by decide +kernel)
    (by decide +kernel) (by decide) (by decide +kernel) exWF 12 false exUs2 (by decide) (by decide +kernel)
/-- … and the values: densities over the bins `[0,2), [2,4), [4,6), [6,8)` resp. `[0,2), [2,4)`, integrating to one -/
example : Gen.MsmTimesApi.estimate_waiting_times_hist (wtOracle exUs2) exChoice exCummat [3, 7] 2 [3, 3] [7] 12 false
      = .ok ([0, 1/6, 1/6, 1/6], [0, 2, 4, 6, 8]) ∧
    Gen.MsmTimesApi.estimate_transition_times_hist (ttOracle exUs2) exChoice exCummat [3, 7] 2 [3, 3] [7] 12 false
      = .ok ([0, 1/2], [0, 2, 4]) := by decide +kernel

/-- no event (one step: the chain `[1]` never enters the start set): `ValueError` in the histogram forms, the empty list in the list forms -/
example : Gen.MsmTimesApi.estimate_waiting_times_hist (wtOracle exUs2) exChoice exCummat [3, 7] (2 : Nat) [3, 3] [7] (1 : Nat) false
    = .error .value :=
  msm_waiting_times_hist_no_event (n := 2) (c := 1) (cum := exCum) (perm := exPerm) (by decide +kernel) (by decide +kernel)
    (by decide +kernel) (by decide +kernel) (by decide +kernel) (by decide) (by decide +kernel) exWF 1 false exUs2 (by decide)
    (by decide +kernel)
example : Gen.MsmTimesApi.estimate_transition_times_hist (ttOracle exUs2) exChoice exCummat [3, 7] (2 : Nat) [3, 3] [7] (1 : Nat) false
    = .error .value :=
  msm_transition_times_hist_no_event (n := 2) (c := 1) (cum := exCum) (perm := exPerm) (by decide +kernel) (by decide +kernel)
    (by decide +kernel) (by decide +kernel) (by decide +kernel) (by decide) (by decide +kernel) exWF 1 false exUs2 (by decide)
    (by decide +kernel)
example : Gen.MsmTimesApi.estimate_waiting_times_list (wtOracle exUs2) exChoice exCummat [3, 7] 2 [3, 3] [7] 1 false = .ok [] := by
  decide +kernel

/-- thirteen steps on twelve draws: the kernel's error in all four forms -/
example : Gen.MsmTimesApi.estimate_waiting_times_list (wtOracle exUs2) exChoice exCummat [3, 7] (2 : Nat) [3, 3] [7] (13 : Nat) false
    = .error .other :=
  (msm_times_draws_exhausted (n := 2) (c := 1) (cum := exCum) (perm := exPerm) (by decide +kernel) (by decide +kernel)
    (by decide +kernel) (by decide +kernel) (by decide +kernel) (by decide) (by decide +kernel) exWF 13 false exUs2 (by decide)).1

/-- the corollaries apply: sorted rearrangement (waiting and transition times), densities (lag time `2 ≥ 1`, there are events) -/
example : ∃ r, Gen.MsmTimesApi.estimate_waiting_times_list (wtOracle exUs2) exChoice exCummat [3, 7] (2 : Nat) [3, 3] [7] (12 : Nat) false = .ok r ∧
    r.Pairwise (· ≤ ·) ∧
    r.Perm (((specEvents (idxOf [3, 7] [3, 3]) (idxOf [3, 7] [7]) (chainI exCum exPerm 1 12 exUs2)).map
      (fun e => (e.2 - e.1) * 2)).map Int.ofNat) :=
  msm_waiting_times_sorted_perm (n := 2) (by decide +kernel) (by decide +kernel) (by decide +kernel) (by decide +kernel)
    (by decide +kernel) (by decide) (by decide +kernel) exWF 12 false exUs2 (by decide)
example : specEvents (idxOf [3, 7] [3, 3]) (idxOf [3, 7] [7]) (chainI exCum exPerm 1 12 exUs2) = [(1, 2), (4, 7), (8, 10)] := by
  decide +kernel
example := msm_transition_times_sorted_perm (choice := exChoice) (cummat := exCummat) (ss := [3, 7]) (lag := 2) (S := [3, 3]) (F := [7])
  (n := 2) (c := 1) (cum := exCum) (perm := exPerm) (by decide +kernel) (by decide +kernel) (by decide +kernel) (by decide +kernel)
  (by decide +kernel) (by decide) (by decide +kernel) exWF 12 false exUs2 (by decide)
example := msm_waiting_times_density (choice := exChoice) (cummat := exCummat) (ss := [3, 7]) (lag := 2) (S := [3, 3]) (F := [7])
  (n := 2) (c := 1) (cum := exCum) (perm := exPerm) (by decide +kernel) (by decide +kernel) (by decide +kernel) (by decide +kernel)
  (by decide +kernel) (by decide) (by decide +kernel) exWF (by decide) 12 false exUs2 (by decide) (by decide +kernel)
example := msm_transition_times_density (choice := exChoice) (cummat := exCummat) (ss := [3, 7]) (lag := 2) (S := [3, 3]) (F := [7])
  (n := 2) (c := 1) (cum := exCum) (perm := exPerm) (by decide +kernel) (by decide +kernel) (by decide +kernel) (by decide +kernel)
  (by decide +kernel) (by decide) (by decide +kernel) exWF (by decide) 12 false exUs2 (by decide) (by decide +kernel)

/-- label space (`n = 2 = |ss|`): the chain of labels, and the list forms through the ORIGINAL start `[3, 3]` / final `[7]` -/
example : (chainI exCum exPerm 1 12 exUs2).map (labelOf [3, 7]) = [7, 3, 7, 7, 3, 3, 3, 7, 3, 3, 7, 7] ∧
    events [3, 3] [7] ((chainI exCum exPerm 1 12 exUs2).map (labelOf [3, 7])) = [(1, 2), (4, 7), (8, 10)] := by decide +kernel
example : Gen.MsmTimesApi.estimate_waiting_times_list (wtOracle exUs2) exChoice exCummat [3, 7] (2 : Nat) [3, 3] [7] (12 : Nat) false
    = .ok (((((events [3, 3] [7] ((chainI exCum exPerm 1 12 exUs2).map (labelOf [3, 7]))).map (fun e => e.2 - e.1)).mergeSort (· ≤ ·)).map
        (· * 2)).map Int.ofNat) :=
  msm_waiting_times_end_to_end_labels (n := 2) (by decide +kernel) (by decide +kernel) (by decide +kernel) (by decide +kernel)
    (by decide +kernel) (by decide) (by decide +kernel) exWF rfl 12 false exUs2 (by decide)
example : Gen.MsmTimesApi.estimate_transition_times_list (ttOracle exUs2) exChoice exCummat [3, 7] (2 : Nat) [3, 3] [7] (12 : Nat) false
    = .ok ((((ttFrom [3, 3] [7] {} 0 ((chainI exCum exPerm 1 12 exUs2).map (labelOf [3, 7]))).mergeSort (· ≤ ·)).map (· * 2)).map
        Int.ofNat) :=
  msm_transition_times_end_to_end_labels (n := 2) (by decide +kernel) (by decide +kernel) (by decide +kernel) (by decide +kernel)
    (by decide +kernel) (by decide) (by decide +kernel) exWF rfl 12 false exUs2 (by decide)

/-- the membership form: `exChoice` returned `1`, a member of the final indices `[1]`; the matrix has `2 = |ss|` rows -/
example := msm_times_end_to_end_choice (choice := exChoice) (cummat := exCummat) (ss := [3, 7]) (lag := 2) (S := [3, 3]) (F := [7])
  (cum := exCum) (perm := exPerm) (ci := 1) (by decide +kernel) (by decide +kernel) (by decide +kernel) (by decide +kernel)
  (by decide +kernel) (by decide +kernel) (by decide +kernel) exWF 12 false exUs2 (by decide)

end MsmVerif.Refine.TimesEnd
