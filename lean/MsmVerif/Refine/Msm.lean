/-
Refine/Msm.lean — task RP1 (properties C01, C11): the kernels TRANSLATED from Python
(`Gen.MsmMsm.generate_transition_count_matrix`, `Gen.UtilsUtils.find_first`) compute exactly the hand-written models
(`Msm.countMatrix`, `List.idxOf`), raise no `IndexError` under the caller's guarantee, and raise `IndexError` exactly when
some index pair leaves `[-n, n)`.
-/
import MsmVerif.Refine.MsmLemmas

namespace MsmVerif.Refine.Msm
open MsmVerif MsmVerif.Gen

/-- complete description of the translated kernel for `lag ≥ 1`: it succeeds iff every index pair is inside `[-n, n)²` and then
    returns the counts with numpy index wrap-around; otherwise it raises `IndexError` -/
theorem count_matrix_general (idx : List (List Int)) (lag n : Nat) (hlag : 1 ≤ lag) :
    Gen.MsmMsm.generate_transition_count_matrix idx (lag : Int) (n : Int)
      = if allOk idx lag n then .ok (countI idx lag n (pyFull2 (n : Int) (n : Int) (0 : Int))) else .error .index := by
  unfold Gen.MsmMsm.generate_transition_count_matrix
  simp only []
  rw [outer_loop lag hlag idx (shape_zero n)]
  split <;> rfl


/-- for every set of index trajectories with entries in [0, n) and every lag ≥ 1 the translated counting kernel returns
    (without IndexError) exactly the model's count matrix -/
theorem count_matrix_refines (idx : List (List Int)) (lag n : Nat) (hlag : 1 ≤ lag)
    (hidx : ∀ t ∈ idx, ∀ x ∈ t, 0 ≤ x ∧ x < (n : Int)) :
    Gen.MsmMsm.generate_transition_count_matrix idx (lag : Int) (n : Int) = .ok (natMat (Msm.countMatrix idx lag n)) := by
  rw [count_matrix_general idx lag n hlag, allOk_of_nonneg hidx, if_pos rfl, full_eq_zeroMat,
    countI_natMat lag idx hidx]
  rfl


/-- the slice pair of the kernel is the model's `pairs` -/
theorem slices_eq_pairs (t : List Int) (lag : Nat) (hlag : 1 ≤ lag) :
    Gen.pyZip (Gen.pySlice t none (some (-(lag : Int)))) (Gen.pySlice t (some (lag : Int)) none) = Msm.pairs lag t :=
  slices_eq_pairs' t lag hlag

/-- `find_first v a` is the first position of `v` in `a`, or −1 -/
theorem find_first_refines (v : Int) (a : List Int) :
    Gen.UtilsUtils.find_first v a = .ok (if a.idxOf v < a.length then ((a.idxOf v : Nat) : Int) else -1) := by
  unfold Gen.UtilsUtils.find_first
  simp only []
  have := find_loop v a 0
  simp only [Int.zero_add] at this
  unfold pyEnumerate pyLen
  rw [this]
  split <;> rfl


/-! ### safety: the precondition is exactly what the caller must guarantee -/

/-- the translated kernel terminates normally iff every index pair `(traj[k], traj[k+lag])` lies in `[-n, n)²`
    (numpy wraps a negative index once) -/
theorem count_matrix_safe_iff (idx : List (List Int)) (lag n : Nat) (hlag : 1 ≤ lag) :
    (∃ m, Gen.MsmMsm.generate_transition_count_matrix idx (lag : Int) (n : Int) = .ok m) ↔
      ∀ t ∈ idx, ∀ p ∈ Msm.pairs lag t,
        (-(n : Int) ≤ p.1 ∧ p.1 < (n : Int)) ∧ (-(n : Int) ≤ p.2 ∧ p.2 < (n : Int)) := by
  rw [count_matrix_general idx lag n hlag, ← allOk_iff]
  cases allOk idx lag n <;> simp

/-- if some index pair has an entry outside `[-n, n)` the translated kernel returns `IndexError` (the compiled numba kernel would
    access memory out of bounds) -/
theorem count_matrix_index_error (idx : List (List Int)) (lag n : Nat) (hlag : 1 ≤ lag)
    (h : ∃ t ∈ idx, ∃ p ∈ Msm.pairs lag t,
      ¬ ((-(n : Int) ≤ p.1 ∧ p.1 < (n : Int)) ∧ (-(n : Int) ≤ p.2 ∧ p.2 < (n : Int)))) :
    Gen.MsmMsm.generate_transition_count_matrix idx (lag : Int) (n : Int) = .error .index := by
  rw [count_matrix_general idx lag n hlag]
  have : allOk idx lag n = false := by
    cases hk : allOk idx lag n with
    | false => rfl
    | true =>
      obtain ⟨t, ht, p, hp, hn⟩ := h
      exact absurd (allOk_iff.mp hk t ht p hp) hn
  rw [this]
  rfl

/-- a trajectory entry outside `[-n, n)` that takes part in a transition (here: position `k` with `k + lag < len`) makes the
    kernel fail -/
theorem count_matrix_index_error_of_entry (idx : List (List Int)) (lag n : Nat) (hlag : 1 ≤ lag)
    (t : List Int) (ht : t ∈ idx) (k : Nat) (hk : k + lag < t.length)
    (hx : t[k]'(by omega) < -(n : Int) ∨ (n : Int) ≤ t[k]'(by omega)) :
    Gen.MsmMsm.generate_transition_count_matrix idx (lag : Int) (n : Int) = .error .index := by
  apply count_matrix_index_error idx lag n hlag
  refine ⟨t, ht, (t[k]'(by omega), t[k + lag]'hk), ?_, ?_⟩
  · unfold Msm.pairs
    rw [List.mem_iff_getElem]
    refine ⟨k, by simp; omega, ?_⟩
    simp [Nat.add_comm lag k]
  · simp only; omega

/-! ### `lag = 0` : why `1 ≤ lag` is assumed -/

/-- Python: `traj[:-0]` is the empty slice, so with `lagtime = 0` no transition is counted at all -/
theorem count_matrix_lag_zero (idx : List (List Int)) (n : Int) :
    Gen.MsmMsm.generate_transition_count_matrix idx 0 n = .ok (pyFull2 n n (0 : Int)) := by
  unfold Gen.MsmMsm.generate_transition_count_matrix
  simp only []
  generalize pyFull2 n n (0 : Int) = M
  induction idx generalizing M with
  | nil => rfl
  | cons t ts ih =>
    have := ih M
    rw [List.forIn_cons, slices_lag_zero]
    exact this


/-- … whereas the model's `pairs 0 t = t.zip t` counts every frame as a self-transition: the refinement needs `1 ≤ lag` -/
example : Gen.MsmMsm.generate_transition_count_matrix [[0, 1]] 0 2 = .ok [[0, 0], [0, 0]]
    ∧ natMat (Msm.countMatrix [[0, 1]] 0 2) = [[1, 0], [0, 1]] := ⟨by rfl, by decide⟩

/-! ### non-vacuity -/

example : Gen.MsmMsm.generate_transition_count_matrix [[0, 1, 2, 1, 0], [2, 2]] 2 3
    = .ok (natMat (Msm.countMatrix [[0, 1, 2, 1, 0], [2, 2]] 2 3)) :=
  count_matrix_refines [[0, 1, 2, 1, 0], [2, 2]] 2 3 (by decide) (by decide)

example : natMat (Msm.countMatrix [[0, 1, 2, 1, 0], [2, 2]] 1 3) = [[0, 1, 0], [1, 0, 1], [0, 1, 1]] := by decide

example : ∀ t ∈ [[0, 1, 2, 1, 0], [2, 2]], ∀ x ∈ t, 0 ≤ x ∧ x < ((3 : Nat) : Int) := by decide

example : Gen.pyZip (Gen.pySlice [5, 6, 7, 8] none (some (-2))) (Gen.pySlice [5, 6, 7, 8] (some 2) none) = [(5, 7), (6, 8)] := by
  decide

/-- entry `3` is outside `[-3, 3)` : `IndexError` -/
example : Gen.MsmMsm.generate_transition_count_matrix [[0, 3, 1]] 1 3 = .error .index := by rfl

/-- entry `-1` wraps to the last row: no error, but not the model's matrix — the caller must pass ranks `≥ 0` -/
example : Gen.MsmMsm.generate_transition_count_matrix [[0, -1]] 1 2 = .ok [[0, 1], [0, 0]] := by rfl

/-- an out-of-range entry that takes part in no transition (`lag ≥ len`) is never used as an index -/
example : Gen.MsmMsm.generate_transition_count_matrix [[7]] 1 2 = .ok [[0, 0], [0, 0]] := by rfl

example : Gen.UtilsUtils.find_first 3 [1, 2, 3, 3] = .ok 2 := by rfl
example : Gen.UtilsUtils.find_first 9 [1, 2, 3, 3] = .ok (-1) := by rfl
example : Gen.UtilsUtils.find_first 9 [] = .ok (-1) := by rfl

end MsmVerif.Refine.Msm
