/-
Refine/CompareApi.lean — task RP14 (property C13): the TRANSLATED numpy glue `_compare_discretization` of
`src/msmhelper/md/comparison.py` (`Gen/MdCompareApi.lean`, one translation per value of `method`) is exactly the
composition of the kernels that `Refine/Compare.lean` (`similarity_refines`) already ties to the model, hence computes
`Compare.similarityIdx` on every well-formed input: no `ValueError` from broadcasting, no `IndexError`, enough fuel.
-/
import MsmVerif.Refine.CompareApiLemmas
open MsmVerif MsmVerif.Gen

namespace MsmVerif.Refine.CompareApi
open MsmVerif.Refine.Compare

/-- **`np.where(flat == state)[0]` of the translation is the model's `frameIdx`**: the ascending positions of `flat`
that carry the value `s` (any list, any value). -/
theorem npWhere1_eq_frameIdx (flat : List Int) (s : Int) :
    Gen.npWhere1 (flat.map (fun x => x == s)) = Compare.frameIdx flat s :=
  npWhere1_map_beq flat s

/-- The translated glue with the division of the two normalisations replaced by an arbitrary operation `dv`
(`dv = (· / ·)` is the translated text, see `symmetric_eq_glue` / `directed_eq_glue`); `sym` selects the frame-sum kernel. -/
def glue (dv : Rat → Rat → Rat) (sym : Bool) (f1 : List Int) (n1 : Nat) (f2 : List Int) (n2 : Nat) : Py Rat := do
  let t1 ← Gen.MdComparison.intersect_array (f1.length + f2.length + 1) (idxLists f1 n1) (idxLists f2 n2)
  let t2 ← Gen.npMatCol (fun x_ y_ => dv x_ ((y_ : Int) : Rat)) t1 ((idxLists f1 n1).map (fun idx => pyLen idx))
  let t3 ← Gen.npMatCol (fun x_ y_ => dv x_ ((y_ : Int) : Rat)) (Gen.npTranspose t1) ((idxLists f2 n2).map (fun idx => pyLen idx))
  if sym then Gen.MdComparison.compare_trajs_symmetric f1 f2 t2 t3
  else Gen.MdComparison.compare_trajs_directed f1 f2 t2 t3

/-- The translated `_compare_discretization(method='symmetric')`, for either value of the `disable_jit` flag, is literally
`glue` with the real division: the per-state index lists are the model's `frameIdx` lists, the flag branch changes nothing. -/
theorem symmetric_eq_glue (f1 f2 : List Int) (n1 n2 : Nat) (flag : Bool) :
    Gen.MdCompareApi.compare_discretization_symmetric f1 n1 f2 n2 flag = glue (· / ·) true f1 n1 f2 n2 := by
  unfold Gen.MdCompareApi.compare_discretization_symmetric glue
  simp only [idx_eq_idxLists]
  cases flag <;> rfl

/-- The translated `_compare_discretization(method='directed')`, for either value of the flag, is `glue` with the real division. -/
theorem directed_eq_glue (f1 f2 : List Int) (n1 n2 : Nat) (flag : Bool) :
    Gen.MdCompareApi.compare_discretization_directed f1 n1 f2 n2 flag = glue (· / ·) false f1 n1 f2 n2 := by
  unfold Gen.MdCompareApi.compare_discretization_directed glue
  simp only [idx_eq_idxLists]
  cases flag <;> rfl

/-- **The translated glue is the kernel composition of `Refine.Compare.similarity_refines`**: with at least one state in
the first labeling (so that the table has a first row and `.T` sees its width), the two broadcasting divisions raise no
`ValueError` and produce exactly the tables `norm12` / `norm21` of the hand-written pipeline `discretizationKernel`. -/
theorem glue_eq_kernel (f1 f2 : List Int) (n1 n2 : Nat) (sym : Bool) (hn1 : 1 ≤ n1) :
    glue (· / ·) sym f1 n1 f2 n2 = discretizationKernel (f1.length + f2.length + 1) f1 f2 n1 n2 sym := by
  unfold glue discretizationKernel
  rw [intersect_array_refines _ _ _ (by
    intro a ha b hb
    simp only [idxLists, List.mem_map] at ha hb
    obtain ⟨s, _, rfl⟩ := ha
    obtain ⟨t, _, rfl⟩ := hb
    have := frameIdx_length_le f1 s
    have := frameIdx_length_le f2 t
    omega)]
  simp only [bind, Except.bind]
  have hrows : ∀ r ∈ (idxLists f1 n1).map (fun a => (idxLists f2 n2).map
      (fun b => ((Events.intersect a b : Nat) : Rat))), r.length = (idxLists f2 n2).length := by
    intro r hr
    simp only [List.mem_map] at hr
    obtain ⟨a, _, rfl⟩ := hr
    simp
  have hne : (idxLists f1 n1).map (fun a => (idxLists f2 n2).map
      (fun b => ((Events.intersect a b : Nat) : Rat))) ≠ [] := by
    intro e
    have := congrArg List.length e
    simp [idxLists_length] at this
    omega
  rw [npMatCol_of_length _ _ _ (by simp), divRow_eq_norm12 _ _ (idxLists f2 n2).length (by simp) hrows]
  simp only []
  rw [npTranspose_eq _ _ hne hrows, npMatCol_of_length _ _ _ (by simp),
    divCol_eq_norm21 _ _ n1 (by simp [idxLists_length])]
  simp only [idxLists_length]

/-! ### the divisors of the normalisation are the class sizes, which are positive -/

/-- **The divisors are non-zero**: when every state `< n` occurs in the index trajectory `f` (as in a `StateTraj`), every
entry of the column `[len(idx) for idx in idx]` by which the translated code divides is at least 1. -/
theorem divisors_pos (f : List Int) (n : Nat) (ho : ∀ s : Nat, s < n → (s : Int) ∈ f) :
    ∀ y ∈ (idxLists f n).map (fun idx => pyLen idx), (1 : Int) ≤ y :=
  sizes_pos f n ho

/-- **The value of `x / 0` is never used**: when every state occurs in its trajectory, replacing the division of both
normalisations by ANY operation `dv` that agrees with `/` for non-zero divisors leaves the result of the glue unchanged
(this is where the occurrence of every state is used: all divisors are class sizes `≥ 1`). -/
theorem glue_div_indep (dv : Rat → Rat → Rat) (hdv : ∀ x y : Rat, y ≠ 0 → dv x y = x / y) (sym : Bool)
    (f1 f2 : List Int) (n1 n2 : Nat)
    (ho1 : ∀ s : Nat, s < n1 → (s : Int) ∈ f1) (ho2 : ∀ s : Nat, s < n2 → (s : Int) ∈ f2) :
    glue dv sym f1 n1 f2 n2 = glue (· / ·) sym f1 n1 f2 n2 := by
  have k1 : ∀ m : List (List Rat),
      Gen.npMatCol (fun x_ y_ => dv x_ ((y_ : Int) : Rat)) m ((idxLists f1 n1).map (fun idx => pyLen idx))
        = Gen.npMatCol (fun x_ y_ => x_ / ((y_ : Int) : Rat)) m ((idxLists f1 n1).map (fun idx => pyLen idx)) :=
    fun m => npMatCol_congr _ _ m _ (fun y hy x => hdv x _ (intCast_ne_zero_of_pos y (sizes_pos f1 n1 ho1 y hy)))
  have k2 : ∀ m : List (List Rat),
      Gen.npMatCol (fun x_ y_ => dv x_ ((y_ : Int) : Rat)) m ((idxLists f2 n2).map (fun idx => pyLen idx))
        = Gen.npMatCol (fun x_ y_ => x_ / ((y_ : Int) : Rat)) m ((idxLists f2 n2).map (fun idx => pyLen idx)) :=
    fun m => npMatCol_congr _ _ m _ (fun y hy x => hdv x _ (intCast_ne_zero_of_pos y (sizes_pos f2 n2 ho2 y hy)))
  unfold glue
  simp only [k1, k2]

/-! ### the glue computes the model -/

/-- a non-empty in-range index trajectory has at least one state -/
theorem nstates_pos (f : List Int) (n : Nat) (hN : 1 ≤ f.length) (h : ∀ x ∈ f, 0 ≤ x ∧ x < (n : Int)) : 1 ≤ n := by
  cases f with
  | nil => simp at hN
  | cons x xs =>
    have := h x (by simp)
    omega

/-- **The glue computes the model, whatever `x / 0` is**: on well-formed input (equally many frames, at least one,
entries in range, every state occurs) the glue with any division-like `dv` (equal to `/` for non-zero divisors) returns,
without exception, `Compare.similarityIdx` — symmetric for `sym = true`, directed for `sym = false`. -/
theorem glue_refines (dv : Rat → Rat → Rat) (hdv : ∀ x y : Rat, y ≠ 0 → dv x y = x / y) (sym : Bool)
    (f1 f2 : List Int) (n1 n2 : Nat)
    (hlen : f1.length = f2.length) (hN : 1 ≤ f1.length)
    (h1 : ∀ x ∈ f1, 0 ≤ x ∧ x < (n1 : Int)) (h2 : ∀ x ∈ f2, 0 ≤ x ∧ x < (n2 : Int))
    (ho1 : ∀ s : Nat, s < n1 → (s : Int) ∈ f1) (ho2 : ∀ s : Nat, s < n2 → (s : Int) ∈ f2) :
    glue dv sym f1 n1 f2 n2 = .ok (Compare.similarityIdx f1 f2 n1 n2 sym) := by
  rw [glue_div_indep dv hdv sym f1 f2 n1 n2 ho1 ho2, glue_eq_kernel f1 f2 n1 n2 sym (nstates_pos f1 n1 hN h1)]
  exact similarity_refines f1 f2 n1 n2 sym _ hlen hN h1 h2 (by omega)

/-- **Translated `_compare_discretization(method='symmetric')` = model** : on well-formed input (the two index
trajectories have equally many frames, at least one; entries of `f1` in `[0, n1)`, of `f2` in `[0, n2)`; every state
`< n1` occurs in `f1` and every state `< n2` in `f2`), for both values of the `disable_jit` flag, the translated function
raises no exception (no `ValueError` from broadcasting, no `IndexError`, the fuel of `_intersect` suffices) and returns
`Compare.similarityIdx f1 f2 n1 n2 true`.  The occurrence hypotheses make every divisor a class size `≥ 1`
(`divisors_pos`); by `glue_refines` the result does not depend on the convention `x / 0 = 0`. -/
theorem compare_discretization_symmetric_refines (f1 f2 : List Int) (n1 n2 : Nat) (flag : Bool)
    (hlen : f1.length = f2.length) (hN : 1 ≤ f1.length)
    (h1 : ∀ x ∈ f1, 0 ≤ x ∧ x < (n1 : Int)) (h2 : ∀ x ∈ f2, 0 ≤ x ∧ x < (n2 : Int))
    (ho1 : ∀ s : Nat, s < n1 → (s : Int) ∈ f1) (ho2 : ∀ s : Nat, s < n2 → (s : Int) ∈ f2) :
    Gen.MdCompareApi.compare_discretization_symmetric f1 n1 f2 n2 flag
      = .ok (Compare.similarityIdx f1 f2 n1 n2 true) := by
  rw [symmetric_eq_glue]
  exact glue_refines (· / ·) (fun _ _ _ => rfl) true f1 f2 n1 n2 hlen hN h1 h2 ho1 ho2

/-- **Translated `_compare_discretization(method='directed')` = model** : on well-formed input (as in
`compare_discretization_symmetric_refines`), for both flag values, no exception and the value
`Compare.similarityIdx f1 f2 n1 n2 false`; all divisors are class sizes `≥ 1`. -/
theorem compare_discretization_directed_refines (f1 f2 : List Int) (n1 n2 : Nat) (flag : Bool)
    (hlen : f1.length = f2.length) (hN : 1 ≤ f1.length)
    (h1 : ∀ x ∈ f1, 0 ≤ x ∧ x < (n1 : Int)) (h2 : ∀ x ∈ f2, 0 ≤ x ∧ x < (n2 : Int))
    (ho1 : ∀ s : Nat, s < n1 → (s : Int) ∈ f1) (ho2 : ∀ s : Nat, s < n2 → (s : Int) ∈ f2) :
    Gen.MdCompareApi.compare_discretization_directed f1 n1 f2 n2 flag
      = .ok (Compare.similarityIdx f1 f2 n1 n2 false) := by
  rw [directed_eq_glue]
  exact glue_refines (· / ·) (fun _ _ _ => rfl) false f1 f2 n1 n2 hlen hN h1 h2 ho1 ho2

/-- **Without the occurrence hypothesis** (entries in range only; some state may have no frame, its class size is 0)
the translated functions still return the model value — but only because the runtime and the model share the
convention `x / 0 = 0` (numpy would produce `nan`/`inf` there); the public API never calls the glue on such input. -/
theorem compare_discretization_refines_of_inrange (f1 f2 : List Int) (n1 n2 : Nat) (flag : Bool)
    (hlen : f1.length = f2.length) (hN : 1 ≤ f1.length)
    (h1 : ∀ x ∈ f1, 0 ≤ x ∧ x < (n1 : Int)) (h2 : ∀ x ∈ f2, 0 ≤ x ∧ x < (n2 : Int)) :
    Gen.MdCompareApi.compare_discretization_symmetric f1 n1 f2 n2 flag
        = .ok (Compare.similarityIdx f1 f2 n1 n2 true) ∧
    Gen.MdCompareApi.compare_discretization_directed f1 n1 f2 n2 flag
        = .ok (Compare.similarityIdx f1 f2 n1 n2 false) := by
  rw [symmetric_eq_glue, directed_eq_glue, glue_eq_kernel _ _ _ _ _ (nstates_pos f1 n1 hN h1),
    glue_eq_kernel _ _ _ _ _ (nstates_pos f1 n1 hN h1)]
  exact ⟨similarity_refines f1 f2 n1 n2 true _ hlen hN h1 h2 (by omega),
    similarity_refines f1 f2 n1 n2 false _ hlen hN h1 h2 (by omega)⟩

/-! ### non-vacuity -/

/-- the well-formedness hypotheses hold on a pair of labelings with 6 frames, 2 and 3 states -/
example :
    let f1 : List Int := [0, 1, 1, 0, 1, 0]
    let f2 : List Int := [0, 1, 2, 2, 1, 0]
    f1.length = f2.length ∧ 1 ≤ f1.length ∧ (∀ x ∈ f1, 0 ≤ x ∧ x < ((2 : Nat) : Int)) ∧
      (∀ x ∈ f2, 0 ≤ x ∧ x < ((3 : Nat) : Int)) ∧ (∀ s : Nat, s < 2 → (s : Int) ∈ f1) ∧
      (∀ s : Nat, s < 3 → (s : Int) ∈ f2) := by
  decide

example (flag : Bool) :
    Gen.MdCompareApi.compare_discretization_symmetric [0, 1, 1, 0, 1, 0] (2 : Nat) [0, 1, 2, 2, 1, 0] (3 : Nat) flag
      = .ok (Compare.similarityIdx [0, 1, 1, 0, 1, 0] [0, 1, 2, 2, 1, 0] 2 3 true) :=
  compare_discretization_symmetric_refines _ _ 2 3 flag rfl (by decide) (by decide) (by decide) (by decide) (by decide)

example (flag : Bool) :
    Gen.MdCompareApi.compare_discretization_directed [0, 1, 1, 0, 1, 0] (2 : Nat) [0, 1, 2, 2, 1, 0] (3 : Nat) flag
      = .ok (Compare.similarityIdx [0, 1, 1, 0, 1, 0] [0, 1, 2, 2, 1, 0] 2 3 false) :=
  compare_discretization_directed_refines _ _ 2 3 flag rfl (by decide) (by decide) (by decide) (by decide) (by decide)

/-- the value on this pair: the model (hence the translation) gives 5/6 for both methods -/
example : Compare.similarityIdx [0, 1, 1, 0, 1, 0] [0, 1, 2, 2, 1, 0] 2 3 true = 5 / 6 ∧
    Compare.similarityIdx [0, 1, 1, 0, 1, 0] [0, 1, 2, 2, 1, 0] 2 3 false = 5 / 6 := by
  decide +kernel

/-- `npWhere1_eq_frameIdx` on a concrete list -/
example : Gen.npWhere1 (([0, 1, 2, 2, 1, 0] : List Int).map (fun x => x == 2)) = [2, 3] := by
  rw [npWhere1_eq_frameIdx]; decide

/-- the divisors on this pair are the class sizes 3,3 and 2,2,2 -/
example : (idxLists [0, 1, 1, 0, 1, 0] 2).map (fun idx => pyLen idx) = [3, 3] ∧
    (idxLists [0, 1, 2, 2, 1, 0] 3).map (fun idx => pyLen idx) = [2, 2, 2] := by decide

/-- the occurrence hypothesis of `divisors_pos` is not superfluous: a state without a frame gives the divisor 0 -/
example : (idxLists [0, 0, 1] 3).map (fun idx => pyLen idx) = [2, 1, 0] := by decide

/-- `1 ≤ n1` in `glue_eq_kernel` is not superfluous: with no state in the first labeling numpy's `.T` has shape
`(0,)` and the second broadcast is a `ValueError`, while the hand-written pipeline fails with an `IndexError` -/
example : glue (· / ·) true [0, 1] 0 [0, 1] 2 = .error .value ∧
    discretizationKernel 5 [0, 1] [0, 1] 0 2 true = .error .index := by
  constructor <;> rfl

end MsmVerif.Refine.CompareApi
