import MsmVerif.Model.Basic
namespace MsmVerif

theorem mem_insertSorted {x y : Int} {l : List Int} : y ∈ insertSorted x l ↔ y = x ∨ y ∈ l := by
  induction l with
  | nil => simp [insertSorted]
  | cons z zs ih =>
    simp only [insertSorted]
    split
    · simp
    · split
      · subst_vars; simp
      · simp only [List.mem_cons, ih]
        grind

theorem pairwise_insertSorted {x : Int} {l : List Int} (h : l.Pairwise (· < ·)) :
    (insertSorted x l).Pairwise (· < ·) := by
  induction l with
  | nil => simp [insertSorted]
  | cons z zs ih =>
    simp only [insertSorted]
    split
    · rw [List.pairwise_cons] at h ⊢
      refine ⟨?_, List.pairwise_cons.mpr h⟩
      intro a ha
      rcases List.mem_cons.mp ha with rfl | ha
      · assumption
      · have := h.1 a ha; omega
    · split
      · exact h
      · rw [List.pairwise_cons] at h ⊢
        refine ⟨?_, ih h.2⟩
        intro a ha
        rcases mem_insertSorted.mp ha with rfl | ha
        · omega
        · exact h.1 a ha

theorem sortDedup_pairwise (l : List Int) : (sortDedup l).Pairwise (· < ·) := by
  induction l with
  | nil => simp [sortDedup]
  | cons x xs ih => exact pairwise_insertSorted ih

theorem sortDedup_nodup (l : List Int) : (sortDedup l).Nodup :=
  (sortDedup_pairwise l).imp (fun h => Int.ne_of_lt h)

theorem mem_sortDedup {x : Int} {l : List Int} : x ∈ sortDedup l ↔ x ∈ l := by
  induction l with
  | nil => simp [sortDedup]
  | cons y ys ih =>
    show x ∈ insertSorted y (sortDedup ys) ↔ _
    rw [mem_insertSorted, ih, List.mem_cons]

end MsmVerif
