import MsmVerif.Lemmas.Coring
open MsmVerif.Coring
theorem runLengths_cons_cons (x y : Int) (ys : List Int) :
    runLengths (x :: y :: ys) =
      match runLengths (y :: ys) with
      | n :: ns => if x = y then (n + 1) :: ns else 1 :: n :: ns
      | [] => [1] := by
  conv => lhs; unfold runLengths
  cases h : runLengths (y :: ys) <;> simp
