/-
Props/C14.lean — property theorems for C14 (ergodicity predicates of `utils/tests.py` agree with the transition graph).
Helper lemmas live in Lemmas/Linalg.lean (and Lemmas/Wielandt.lean for the enumerated small cases).

Model of the code (`Model/Linalg.lean`): `isTmat` (`is_transition_matrix`), `isErgodic` (`is_ergodic`: stochastic and
every entry of `T^K`, `K = (n-1)^2+1`, exceeds `atol = 1e-8`), `isFuzzyErgodic` (`is_fuzzy_ergodic`), `ergodicMask`
(`ergodic_mask`), all in exact rational arithmetic.  `WF n m` = "`m` is a well-formed `n × n` list-of-lists matrix",
`NonNeg m` = "all stored entries are `≥ 0`", `Walk b k i j` = "there is a walk of length `k` from `i` to `j` in the
boolean graph `b`" (for `b = support m`: an edge `i → j` iff `m_ij ≠ 0`; see `walk_is_walk`).  `maskRel`/`maskCnt`
(the symmetric relation and the row counts inside `ergodic_mask`) and `addState T d` (the block matrix `T ⊕ (d)`) are
defined in Lemmas/Linalg.lean.

Not proved: completeness of the exponent `K` for `n ≥ 4` (Wielandt's theorem); `complete_n_le_3` covers `n ≤ 3` by
kernel enumeration.  All statements about walks need non-negative entries, which `is_transition_matrix` does not check.
-/
import MsmVerif.Lemmas.Linalg
import MsmVerif.Lemmas.Wielandt

namespace MsmVerif.C14
open MsmVerif MsmVerif.Msm MsmVerif.Linalg

/-! ### 1. repeated squaring is the matrix power -/

/-- For a well-formed square matrix the repeated-squaring power used by the driver equals the naive power
`m · m · … · m` (`k` factors, identity for `k = 0`). -/
theorem powFast_eq_pow (n : Nat) (m : Mat) (h : m.length = n ∧ ∀ r ∈ m, r.length = n) (k : Nat) :
    powFast m k = pow m k :=
  Linalg.powFast_eq_pow (n := n) h k

example : (([[1/2, 1/2], [1/3, 2/3]] : Mat).length = 2 ∧ ∀ r ∈ ([[1/2, 1/2], [1/3, 2/3]] : Mat), r.length = 2) := by
  decide

/-- `is_ergodic` in terms of the naive matrix power: the model accepts `m` iff `m` is a transition matrix and every
entry of `m^K`, `K = (n-1)² + 1`, exceeds `atol = 1e-8`. -/
theorem ergodic_iff_pow (m : Mat) : isErgodic m = true ↔
    isTmat m = true ∧ ∀ i j, i < m.length → j < m.length → atol < entry (pow m (wielandtExp m.length)) i j :=
  isErgodic_iff m

/-! ### 2. positive entries of powers are walks in the support graph -/

/-- `Walk` is the usual notion: a walk of length 0 stays put, a walk of length 1 is an edge, and walks of length `a + c`
are concatenations of a walk of length `a` and a walk of length `c`. -/
theorem walk_is_walk (b : List (List Bool)) (i j : Nat) :
    (Walk b 0 i j ↔ i = j) ∧ (Walk b 1 i j ↔ bent b i j = true) ∧
    ∀ a c, Walk b (a + c) i j ↔ ∃ l, Walk b a i l ∧ Walk b c l j :=
  ⟨Iff.rfl, Walk.one_iff b i j, fun a c => Walk.add_iff b a c i j⟩

/-- For a non-negative well-formed `n × n` matrix and `i, j < n`: the `(i, j)` entry of the `k`-th power is positive
iff the support graph (`edge u → v` iff `m_uv ≠ 0`) has a walk of length exactly `k` from `i` to `j`. -/
theorem pow_pos_iff_walk (n : Nat) (m : Mat) (h : m.length = n ∧ ∀ r ∈ m, r.length = n)
    (hnn : ∀ r ∈ m, ∀ x ∈ r, 0 ≤ x) (k i j : Nat) (hi : i < n) (hj : j < n) :
    0 < entry (pow m k) i j ↔ Walk (support m) k i j :=
  Linalg.pow_pos_iff_walk (n := n) h hnn k hi hj

/-- Positivity of entries of powers depends on the support only: two non-negative well-formed `n × n` matrices with
the same zero pattern have the same positive entries in every power. -/
theorem support_only (n : Nat) (m m' : Mat) (h : m.length = n ∧ ∀ r ∈ m, r.length = n)
    (h' : m'.length = n ∧ ∀ r ∈ m', r.length = n)
    (hnn : ∀ r ∈ m, ∀ x ∈ r, 0 ≤ x) (hnn' : ∀ r ∈ m', ∀ x ∈ r, 0 ≤ x)
    (hs : support m = support m') (k i j : Nat) (hi : i < n) (hj : j < n) :
    0 < entry (pow m k) i j ↔ 0 < entry (pow m' k) i j := by
  rw [Linalg.pow_pos_iff_walk (n := n) h hnn k hi hj, Linalg.pow_pos_iff_walk (n := n) h' hnn' k hi hj, hs]

example : support [[1/2, 1/2], [1/3, 2/3]] = support [[1/5, 4/5], [1/7, 6/7]] ∧
    (∀ r ∈ ([[1/5, 4/5], [1/7, 6/7]] : Mat), r.length = 2) ∧
    (∀ r ∈ ([[1/5, 4/5], [1/7, 6/7]] : Mat), ∀ x ∈ r, 0 ≤ x) := by decide +kernel

/-! ### 3. soundness of `is_ergodic` -/

/-- If `is_ergodic` accepts a non-negative matrix then it is a transition matrix and every ordered pair of states is
joined by a walk of length exactly `K = (n-1)² + 1` in the support graph. -/
theorem sound (m : Mat) (hnn : ∀ r ∈ m, ∀ x ∈ r, 0 ≤ x) (h : isErgodic m = true) :
    isTmat m = true ∧ ∀ i j, i < m.length → j < m.length → Walk (support m) (wielandtExp m.length) i j :=
  ⟨isTmat_of_isErgodic h, fun _ _ hi hj => walk_of_isErgodic hnn h hi hj⟩

/-- Consequence 1 (irreducible): the support graph of an accepted non-negative matrix is strongly connected. -/
theorem sound_strongly_connected (m : Mat) (hnn : ∀ r ∈ m, ∀ x ∈ r, 0 ≤ x) (h : isErgodic m = true)
    (i j : Nat) (hi : i < m.length) (hj : j < m.length) : ∃ k, Walk (support m) k i j :=
  ⟨_, walk_of_isErgodic hnn h hi hj⟩

/-- Consequence 2 (aperiodic): every state of an accepted non-negative matrix lies on closed walks of two consecutive
lengths, so the gcd of its return times is 1. -/
theorem sound_aperiodic (m : Mat) (hnn : ∀ r ∈ m, ∀ x ∈ r, 0 ≤ x) (h : isErgodic m = true)
    (i : Nat) (hi : i < m.length) : ∃ k, Walk (support m) k i i ∧ Walk (support m) (k + 1) i i :=
  ⟨_, consecutive_closed_walks hnn h hi⟩

example : isErgodic [[0, 1, 0], [0, 0, 1], [1/2, 1/2, 0]] = true ∧
    (∀ r ∈ ([[0, 1, 0], [0, 0, 1], [1/2, 1/2, 0]] : Mat), ∀ x ∈ r, 0 ≤ x) := by decide +kernel

/-! ### 4./5. relations between the three predicates -/

/-- Every matrix accepted by `is_ergodic` is accepted by `is_fuzzy_ergodic`. -/
theorem ergodic_imp_fuzzy (m : Mat) (h : isErgodic m = true) : isFuzzyErgodic m = true :=
  isFuzzyErgodic_of_isErgodic h

example : isErgodic [[1/2, 1/2], [1/3, 2/3]] = true := by decide +kernel

/-- A matrix that is not a transition matrix (`is_transition_matrix` false) is rejected by `is_ergodic` and by
`is_fuzzy_ergodic`, and `ergodic_mask` raises (`none`). -/
theorem nonstochastic (m : Mat) (h : isTmat m = false) :
    isErgodic m = false ∧ isFuzzyErgodic m = false ∧ ergodicMask m = none :=
  not_isErgodic_of_not_isTmat h

example : isTmat [[1/2, 1/3], [1/3, 2/3]] = false := by decide +kernel

/-! ### 6. `ergodic_mask` -/

/-- What `ergodic_mask` computes: with `maskRel m i j` = "`(T^K)_ij > atol` and `(T^K)_ji > atol`" and
`maskCnt m i` = number of `j < n` with `maskRel m i j`, the mask has length `n` and marks exactly the states whose
count is maximal. -/
theorem mask_marks_max (m : Mat) (mask : List Bool) (h : ergodicMask m = some mask) :
    mask.length = m.length ∧
    ∀ i, i < m.length → (mask.getD i false = true ↔ ∀ i', i' < m.length → maskCnt m i' ≤ maskCnt m i) := by
  have ht := isTmat_of_ergodicMask h
  rw [ergodicMask_eq ht] at h
  injection h with h
  subst h
  refine ⟨by simp, ?_⟩
  intro i hi
  rw [List.map_map, getD_map_range _ _ _ hi]
  simp only [Function.comp, beq_iff_eq]
  rw [eq_foldl_max_iff _ (List.mem_map.mpr ⟨i, List.mem_range.mpr hi, rfl⟩)]
  simp only [List.mem_map, List.mem_range, forall_exists_index, and_imp, forall_apply_eq_imp_iff₂]

/-- States related by the `ergodic_mask` relation are mutually reachable: for a non-negative transition matrix,
`maskRel m i j` gives walks `i → j` and `j → i` (of length `K`) in the support graph. -/
theorem mask_sound (m : Mat) (hnn : ∀ r ∈ m, ∀ x ∈ r, 0 ≤ x) (ht : isTmat m = true) (i j : Nat)
    (hi : i < m.length) (hj : j < m.length) (h : maskRel m i j = true) :
    Walk (support m) (wielandtExp m.length) i j ∧ Walk (support m) (wielandtExp m.length) j i := by
  unfold maskRel at h
  simp only [Bool.and_eq_true, decide_eq_true_eq] at h
  have hw := WF_of_isTmat ht
  exact ⟨(Linalg.pow_pos_iff_walk hw hnn _ hi hj).mp (lt_trans atol_pos h.1),
    (Linalg.pow_pos_iff_walk hw hnn _ hj hi).mp (lt_trans atol_pos h.2)⟩

example : ergodicMask [[1/2, 1/2, 0], [1/2, 1/2, 0], [0, 0, 1]] = some [true, true, false] ∧
    isTmat [[1/2, 1/2, 0], [1/2, 1/2, 0], [0, 0, 1]] = true ∧
    (∀ r ∈ ([[1/2, 1/2, 0], [1/2, 1/2, 0], [0, 0, 1]] : Mat), ∀ x ∈ r, 0 ≤ x) ∧
    maskRel [[1/2, 1/2, 0], [1/2, 1/2, 0], [0, 0, 1]] 0 1 = true ∧
    maskRel [[1/2, 1/2, 0], [1/2, 1/2, 0], [0, 0, 1]] 0 2 = false := by decide +kernel

/-! ### 7. completeness of the exponent `K` (Wielandt's bound), enumerated for `n ≤ 3` -/

/-- Wielandt's bound for boolean patterns on `n ≤ 3` vertices.  What is enumerated (in `Lemmas/Wielandt.lean`, by
`decide +kernel` over all 2 + 16 + 512 patterns with `n = 1, 2, 3`): the boolean powers satisfy `p⁶ = p¹²`, and each of
`p¹ … p¹¹` that is all-true forces `p^K` all-true.  Consequence, for every `k ≥ 1`: walks of length exactly `k` between
all ordered pairs imply walks of length exactly `K = (n-1)² + 1` between all ordered pairs. -/
theorem complete_pattern_n_le_3 (n : Nat) (hn : n ≤ 3) (p : List (List Bool))
    (h : p.length = n ∧ ∀ r ∈ p, r.length = n) (k : Nat) (hk : 1 ≤ k)
    (hw : ∀ i j, i < n → j < n → Walk p k i j) :
    ∀ i j, i < n → j < n → Walk p (wielandtExp n) i j :=
  wielandt_n_le_3 hn h.1 h.2 hk hw

/-- Completeness of the power test for `n ≤ 3`: if some power `k ≥ 1` of a non-negative well-formed `n × n` matrix is
entrywise positive (the matrix is primitive), then already the `K`-th power, `K = (n-1)² + 1`, is entrywise positive —
the exponent used by `is_ergodic` is large enough.  (For `n ≥ 4` this is Wielandt's theorem and is not proved here.) -/
theorem complete_n_le_3 (n : Nat) (hn : n ≤ 3) (m : Mat) (h : m.length = n ∧ ∀ r ∈ m, r.length = n)
    (hnn : ∀ r ∈ m, ∀ x ∈ r, 0 ≤ x) (k : Nat) (hk : 1 ≤ k)
    (hpos : ∀ i j, i < n → j < n → 0 < entry (pow m k) i j) :
    ∀ i j, i < n → j < n → 0 < entry (pow m (wielandtExp n)) i j := by
  have hs : (support m).length = n ∧ ∀ r ∈ support m, r.length = n := by
    refine ⟨by rw [support_length, h.1], ?_⟩
    intro r hr
    simp only [support, List.mem_map] at hr
    obtain ⟨r', hr', rfl⟩ := hr
    rw [List.length_map, h.2 r' hr']
  have hw := wielandt_n_le_3 hn hs.1 hs.2 hk
    (fun i j hi hj => (Linalg.pow_pos_iff_walk (n := n) h hnn k hi hj).mp (hpos i j hi hj))
  exact fun i j hi hj => (Linalg.pow_pos_iff_walk (n := n) h hnn _ hi hj).mpr (hw i j hi hj)

example : (∀ r ∈ ([[0, 1, 0], [0, 0, 1], [1/2, 1/2, 0]] : Mat), ∀ x ∈ r, 0 ≤ x) ∧
    (∀ i, i < 3 → ∀ j, j < 3 → 0 < entry (pow [[0, 1, 0], [0, 0, 1], [1/2, 1/2, 0]] 7) i j) ∧
    ¬ (∀ i, i < 3 → ∀ j, j < 3 → 0 < entry (pow [[0, 1, 0], [0, 0, 1], [1/2, 1/2, 0]] 4) i j) := by decide +kernel

/-! ### 8. adding a trap state or a never-visited state keeps a matrix fuzzy-ergodic -/

/-- Let `T` be a non-negative matrix accepted by `is_ergodic`.  The block matrix `T ⊕ (1)` (`addState T 1`: one more
state, isolated from the others and absorbing) and the block matrix `T ⊕ (0)` (`addState T 0`: one more state that is
never entered or left — zero row and column) are accepted by `is_fuzzy_ergodic`. -/
theorem fuzzy_add_trap (T : Mat) (hnn : ∀ r ∈ T, ∀ x ∈ r, 0 ≤ x) (h : isErgodic T = true) :
    isFuzzyErgodic (addState T 1) = true ∧ isFuzzyErgodic (addState T 0) = true :=
  ⟨isFuzzyErgodic_addState hnn h (Or.inr rfl), isFuzzyErgodic_addState hnn h (Or.inl rfl)⟩

/-- The enlarged matrices are not accepted by `is_ergodic` itself (on the running example), so the statement is about
a genuinely larger class. -/
example : addState [[1/2, 1/2], [1/3, 2/3]] 1 = [[1/2, 1/2, 0], [1/3, 2/3, 0], [0, 0, 1]] ∧
    isErgodic [[1/2, 1/2], [1/3, 2/3]] = true ∧
    isErgodic (addState [[1/2, 1/2], [1/3, 2/3]] 1) = false ∧
    isFuzzyErgodic (addState [[1/2, 1/2], [1/3, 2/3]] 0) = true := by decide +kernel

end MsmVerif.C14
