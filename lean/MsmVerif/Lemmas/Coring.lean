/-
Lemmas/Coring.lean — helper lemmas for the coring theorems (core Lean only).
-/
import MsmVerif.Model.Coring

namespace MsmVerif.Coring

/-- we are inside a run of `c` that is `k` long so far; every maximal run must reach length `τ` -/
def okFrom (τ : Nat) : Int → Nat → List Int → Prop
  | _, k, [] => τ ≤ k
  | c, k, x :: xs => if x = c then okFrom τ c (k + 1) xs else τ ≤ k ∧ okFrom τ x 1 xs

/-- every maximal constant run of `l` is at least `τ` long -/
def AllRunsGE (τ : Nat) : List Int → Prop
  | [] => True
  | x :: xs => okFrom τ x 1 xs

/-- after the leading run of `x`, every maximal run is at least `k` long -/
def tailOk (k : Nat) (x : Int) : List Int → Prop
  | [] => True
  | y :: ys => if y = x then tailOk k x ys else okFrom k y 1 ys

/-- the next `m` input frames are all `c` -/
def startsWith (c : Int) (m : Nat) (l : List Int) : Prop := m ≤ l.length ∧ ∀ y ∈ l.take m, y = c

theorem startsWith_zero (c : Int) (l : List Int) : startsWith c 0 l := by
  simp [startsWith]

theorem startsWith_cons {c x : Int} {m : Nat} {xs : List Int} (h : startsWith c (m + 1) (x :: xs)) :
    x = c ∧ startsWith c m xs := by
  obtain ⟨h1, h2⟩ := h
  refine ⟨h2 x (by simp), ?_, ?_⟩
  · simp at h1; omega
  · intro y hy; exact h2 y (by simp [List.take_succ_cons]; exact Or.inr hy)

theorem remains_startsWith {τ : Nat} {x : Int} {xs : List Int} (h : remains τ (x :: xs) = true) :
    startsWith x (τ - 1) xs := by
  simp [remains] at h
  refine ⟨by omega, ?_⟩
  intro y hy
  exact h.2 y hy

theorem runs_ge_aux (rem : List Int → Bool) (τ : Nat)
    (hrem : ∀ x xs, rem (x :: xs) = true → startsWith x (τ - 1) xs) :
    ∀ (l : List Int) (c : Int) (k : Nat),
    startsWith c (τ - k) l → okFrom τ c k (scanWith rem c l) := by
  intro l
  induction l with
  | nil =>
    intro c k h
    simp [startsWith] at h
    simp [scanWith, okFrom]; omega
  | cons x xs ih =>
    intro c k h
    simp only [scanWith]
    by_cases hx : x = c
    · subst hx
      simp only [if_true, okFrom]
      apply ih
      by_cases hk : τ - k = 0
      · have : τ - (k + 1) = 0 := by omega
        rw [this]; exact startsWith_zero _ _
      · have e : τ - k = (τ - (k + 1)) + 1 := by omega
        rw [e] at h
        exact (startsWith_cons h).2
    · have hk : τ - k = 0 := by
        by_cases hk : τ - k = 0
        · exact hk
        · have e : τ - k = (τ - k - 1) + 1 := by omega
          rw [e] at h
          exact absurd (startsWith_cons h).1 hx
      simp only [if_neg hx]
      by_cases hr : rem (x :: xs) = true
      · simp only [hr, if_true, okFrom, if_neg hx]
        refine ⟨by omega, ?_⟩
        apply ih
        exact hrem x xs hr
      · simp only [hr, Bool.false_eq_true, if_false, okFrom, if_true]
        apply ih
        have : τ - (k + 1) = 0 := by omega
        rw [this]; exact startsWith_zero _ _

/-- the first `k - j` elements after a run position are the run's label -/
theorem okFrom_prefix {k : Nat} : ∀ (ys : List Int) (y : Int) (j i : Nat),
    okFrom k y j ys → i < k - j → ys[i]? = some y := by
  intro ys
  induction ys with
  | nil => intro y j i h hi; simp [okFrom] at h; omega
  | cons z zs ih =>
    intro y j i h hi
    by_cases hz : z = y
    · subst hz
      simp only [okFrom, if_true] at h
      cases i with
      | zero => simp
      | succ i => simp; exact ih z (j + 1) i h (by omega)
    · simp only [okFrom, if_neg hz] at h
      omega

theorem okFrom_length {k : Nat} : ∀ (ys : List Int) (y : Int) (j : Nat),
    okFrom k y j ys → k - j ≤ ys.length := by
  intro ys
  induction ys with
  | nil => intro y j h; simp [okFrom] at h; simp; omega
  | cons z zs ih =>
    intro y j h
    by_cases hz : z = y
    · subst hz
      simp only [okFrom, if_true] at h
      have := ih z (j + 1) h
      simp; omega
    · simp only [okFrom, if_neg hz] at h
      simp; omega

theorem okFrom_mono {k k' : Nat} (hk : k' ≤ k) : ∀ (ys : List Int) (y : Int) (j : Nat),
    okFrom k y j ys → okFrom k' y j ys := by
  intro ys
  induction ys with
  | nil => intro y j h; simp [okFrom] at *; omega
  | cons z zs ih =>
    intro y j h
    by_cases hz : z = y
    · subst hz
      simp only [okFrom, if_true] at *
      exact ih z (j + 1) h
    · simp only [okFrom, if_neg hz] at *
      exact ⟨by omega, ih z 1 h.2⟩

theorem okFrom_tailOk {k : Nat} : ∀ (ys : List Int) (y : Int) (j : Nat),
    okFrom k y j ys → tailOk k y ys := by
  intro ys
  induction ys with
  | nil => intro y j _; simp [tailOk]
  | cons z zs ih =>
    intro y j h
    by_cases hz : z = y
    · subst hz
      simp only [okFrom, if_true] at h
      simp only [tailOk, if_true]
      exact ih z (j + 1) h
    · simp only [okFrom, if_neg hz] at h
      simp only [tailOk, if_neg hz]
      exact h.2

/-- key lemma for the last-frame shortcut: for `1 ≤ m ≤ k`, if after the leading run of `x` all runs are
`≥ k`, then "frame `m-1` of the rest is `x`" is the same as "the first `m` frames of the rest are all `x`". -/
theorem short_iff_full {k : Nat} (x : Int) : ∀ (rest : List Int) (m : Nat),
    1 ≤ m → m ≤ k → m ≤ rest.length → tailOk k x rest →
    ((rest[m - 1]? == some x) = (rest.take m).all (· == x)) := by
  intro rest
  induction rest with
  | nil => intro m h1 _ hl _; simp at hl; omega
  | cons y ys ih =>
    intro m h1 hk hl ht
    by_cases hy : y = x
    · subst hy
      simp only [tailOk, if_true] at ht
      cases m with
      | zero => omega
      | succ m =>
        cases m with
        | zero => simp
        | succ m =>
          have := ih (m + 1) (by omega) (by omega) (by simp at hl; omega) ht
          simp only [Nat.add_sub_cancel] at this
          simp [List.take_succ_cons, this]
    · simp only [tailOk, if_neg hy] at ht
      have hne : (y == x) = false := by simp [hy]
      cases m with
      | zero => omega
      | succ m =>
        simp only [List.take_succ_cons, List.all_cons, hne, Bool.false_and]
        cases m with
        | zero => simp [hy]
        | succ m =>
          have := okFrom_prefix ys y 1 m ht (by omega)
          simp [this, hy]

theorem remainsShort_eq_remains {τ : Nat} (hτ : 2 ≤ τ) (x : Int) (rest : List Int)
    (ht : tailOk (τ - 1) x rest) : remainsShort τ (x :: rest) = remains τ (x :: rest) := by
  simp only [remainsShort, remains]
  by_cases hl : τ ≤ rest.length + 1
  · simp only [hl, decide_true, Bool.true_and]
    have e : τ - 1 = (τ - 2) + 1 := by omega
    have h := short_iff_full (k := τ - 1) x rest (τ - 1) (by omega) (Nat.le_refl _) (by omega) ht
    rw [← h]
    rw [e]
    simp only [List.getElem?_cons_succ, Nat.add_sub_cancel]
  · simp [hl]

/-- `scanWith` only consults the window test on suffixes of its input -/
theorem scanWith_congr (r1 r2 : List Int → Bool) : ∀ (l : List Int) (c : Int),
    (∀ (pre : List Int) (x : Int) (rest : List Int), l = pre ++ x :: rest → r1 (x :: rest) = r2 (x :: rest)) →
    scanWith r1 c l = scanWith r2 c l := by
  intro l
  induction l with
  | nil => intro c _; simp [scanWith]
  | cons x xs ih =>
    intro c h
    have hx : r1 (x :: xs) = r2 (x :: xs) := h [] x xs rfl
    have ih' : ∀ c', scanWith r1 c' xs = scanWith r2 c' xs := fun c' =>
      ih c' (fun pre y rest e => h (x :: pre) y rest (by simp [e]))
    simp only [scanWith, hx, ih']

/-- every suffix `x :: rest` of a list all of whose runs are `≥ k` satisfies `tailOk k x rest` -/
theorem okFrom_suffix_tailOk {k : Nat} : ∀ (l : List Int) (c : Int) (j : Nat), okFrom k c j l →
    ∀ (pre : List Int) (x : Int) (rest : List Int), l = pre ++ x :: rest → tailOk k x rest := by
  intro l
  induction l with
  | nil => intro c j _ pre x rest e; simp at e
  | cons y ys ih =>
    intro c j h pre x rest e
    cases pre with
    | nil =>
      simp at e
      obtain ⟨rfl, rfl⟩ := e
      by_cases hy : y = c
      · subst hy
        simp only [okFrom, if_true] at h
        exact okFrom_tailOk _ _ _ h
      · simp only [okFrom, if_neg hy] at h
        exact okFrom_tailOk _ _ _ h.2
    | cons p pre =>
      simp at e
      obtain ⟨rfl, rfl⟩ := e
      by_cases hy : y = c
      · subst hy
        simp only [okFrom, if_true] at h
        exact ih y (j + 1) h pre x rest rfl
      · simp only [okFrom, if_neg hy] at h
        exact ih y 1 h.2 pre x rest rfl

theorem scanWith_length (rem : List Int → Bool) : ∀ (l : List Int) (c : Int),
    (scanWith rem c l).length = l.length := by
  intro l
  induction l with
  | nil => intro c; simp [scanWith]
  | cons x xs ih =>
    intro c
    simp only [scanWith]
    split
    · simp [ih]
    · split <;> simp [ih]

theorem scanWith_mem (rem : List Int → Bool) : ∀ (l : List Int) (c : Int) (y : Int),
    y ∈ scanWith rem c l → y = c ∨ y ∈ l := by
  intro l
  induction l with
  | nil => intro c y h; simp [scanWith] at h
  | cons x xs ih =>
    intro c y h
    simp only [scanWith] at h
    split at h
    · rcases List.mem_cons.mp h with h | h
      · exact Or.inl h
      · rcases ih c y h with h | h
        · exact Or.inl h
        · exact Or.inr (List.mem_cons_of_mem _ h)
    · split at h
      · rcases List.mem_cons.mp h with h | h
        · exact Or.inr (by simp [h])
        · rcases ih x y h with h | h
          · exact Or.inr (by simp [h])
          · exact Or.inr (List.mem_cons_of_mem _ h)
      · rcases List.mem_cons.mp h with h | h
        · exact Or.inl h
        · rcases ih c y h with h | h
          · exact Or.inl h
          · exact Or.inr (List.mem_cons_of_mem _ h)

theorem firstCore_mem (τ : Nat) : ∀ (l : List Int) (c : Int), firstCore τ l = some c → c ∈ l := by
  intro l
  induction l with
  | nil => intro c h; simp [firstCore] at h
  | cons x xs ih =>
    intro c h
    simp only [firstCore] at h
    split at h
    · simp at h; simp [h]
    · exact List.mem_cons_of_mem _ (ih c h)

/-- the first core starts a window: there is a split `l = pre ++ c :: rest` with `remains τ (c :: rest)`
and no earlier position has a window -/
theorem firstCore_spec (τ : Nat) : ∀ (l : List Int) (c : Int), firstCore τ l = some c →
    ∃ pre rest, l = pre ++ c :: rest ∧ remains τ (c :: rest) = true ∧
      ∀ (p1 : List Int) (y : Int) (p2 : List Int), pre = p1 ++ y :: p2 →
        remains τ (y :: (p2 ++ c :: rest)) = false := by
  intro l
  induction l with
  | nil => intro c h; simp [firstCore] at h
  | cons x xs ih =>
    intro c h
    simp only [firstCore] at h
    by_cases hr : remains τ (x :: xs) = true
    · simp [hr] at h
      subst h
      exact ⟨[], xs, rfl, hr, by intro p1 y p2 e; simp at e⟩
    · simp [hr] at h
      obtain ⟨pre, rest, e, hrem, hno⟩ := ih c h
      refine ⟨x :: pre, rest, by simp [e], hrem, ?_⟩
      intro p1 y p2 e2
      cases p1 with
      | nil =>
        simp at e2
        obtain ⟨rfl, rfl⟩ := e2
        rw [← e]
        simpa using hr
      | cons q p1 =>
        simp at e2
        obtain ⟨rfl, rfl⟩ := e2
        exact hno p1 y p2 rfl

theorem firstCore_none (τ : Nat) : ∀ (l : List Int), firstCore τ l = none ↔
    ∀ (pre : List Int) (x : Int) (rest : List Int), l = pre ++ x :: rest → remains τ (x :: rest) = false := by
  intro l
  induction l with
  | nil => simp [firstCore]
  | cons y ys ih =>
    simp only [firstCore]
    constructor
    · intro h pre x rest e
      by_cases hr : remains τ (y :: ys) = true
      · simp [hr] at h
      · simp [hr] at h
        cases pre with
        | nil => simp at e; obtain ⟨rfl, rfl⟩ := e; simpa using hr
        | cons p pre => simp at e; obtain ⟨rfl, rfl⟩ := e; exact (ih.mp h) pre x rest rfl
    · intro h
      have h0 : remains τ (y :: ys) = false := h [] y ys rfl
      simp [h0]
      exact ih.mpr (fun pre x rest e => h (y :: pre) x rest (by simp [e]))

theorem startsWith_mono {c : Int} {m m' : Nat} {l : List Int} (hm : m' ≤ m) (h : startsWith c m l) :
    startsWith c m' l := by
  obtain ⟨h1, h2⟩ := h
  refine ⟨by omega, ?_⟩
  intro y hy
  apply h2 y
  have : l.take m' = (l.take m).take m' := by simp [List.take_take, Nat.min_eq_left hm]
  rw [this] at hy
  exact List.mem_of_mem_take hy

/-- scanning from the first core: whatever run length `k` of the core label has been emitted so far,
the output satisfies `okFrom` -/
theorem scan_firstCore_okFrom (τ : Nat) : ∀ (l : List Int) (c : Int) (k : Nat),
    firstCore τ l = some c → okFrom τ c k (scanWith (remains τ) c l) := by
  intro l
  induction l with
  | nil => intro c k h; simp [firstCore] at h
  | cons x xs ih =>
    intro c k h
    simp only [firstCore] at h
    by_cases hr : remains τ (x :: xs) = true
    · simp [hr] at h
      subst h
      simp only [scanWith, if_true, okFrom]
      apply runs_ge_aux (remains τ) τ (fun x xs h => remains_startsWith h)
      exact startsWith_mono (by omega) (remains_startsWith hr)
    · simp [hr] at h
      have hrf : remains τ (x :: xs) = false := by simpa using hr
      simp only [scanWith, hrf]
      by_cases hx : x = c
      · simp only [hx, if_true, okFrom]
        exact ih c (k + 1) h
      · simp only [if_neg hx, Bool.false_eq_true, if_false, okFrom, if_true]
        exact ih c (k + 1) h

theorem okFrom_zero_allRuns {τ : Nat} (hτ : 1 ≤ τ) (c : Int) : ∀ (l : List Int),
    okFrom τ c 0 l → AllRunsGE τ l := by
  intro l h
  cases l with
  | nil => simp [AllRunsGE]
  | cons x xs =>
    by_cases hx : x = c
    · subst hx
      simpa [okFrom, AllRunsGE] using h
    · simp only [okFrom, if_neg hx] at h
      omega

end MsmVerif.Coring
