/-
Props/C18.lean — property theorems for C18 (purity) on the heap model of Model/Heap.lean.  Helper lemmas live in
Lemmas/Heap.lean.

Reading of the property: an analysis is modelled as an accessor / constructor call that reads arrays.  Purity has
two halves: (1) such a call never modifies an array that existed before the call (its arguments in particular);
(2) the value it returns is a function of the object's private data (`report`) alone, so the same call returns the
same value whatever reads, writes into returned arrays or writes into the former constructor arguments happened in
between.
-/
import MsmVerif.Lemmas.Heap

namespace MsmVerif.C18
open MsmVerif MsmVerif.Heap

/-- An operation that is not a `write` (array creation, constructor calls, accessor calls) leaves the contents of
every previously allocated array unchanged: analyses never modify the arrays passed to them. -/
theorem args_unchanged {s : State} {op : Op} {a : Addr} (hop : op.isWrite = false) (ha : a < s.heap.length) :
    (step s op).1.read a = s.read a := by
  apply read_step_of_lt ha
  rintro pos v rfl
  simp [Op.isWrite] at hop

/-- The same for whole sequences without writes. -/
theorem args_unchanged_run {s : State} {ops : List Op} {a : Addr} (hops : ∀ op ∈ ops, op.isWrite = false)
    (ha : a < s.heap.length) : (run s ops).1.read a = s.read a := by
  induction ops generalizing s with
  | nil => rfl
  | cons op ops ih =>
    rw [run_cons, ih (fun o ho => hops o (List.mem_cons_of_mem _ ho))
      (Nat.lt_of_lt_of_le ha (heap_length_step s op)), args_unchanged (hops op List.mem_cons_self) ha]

/-- A `write a' _ _` changes the array at `a'` only. -/
theorem write_only_target {s : State} {a a' : Addr} (pos : Nat) (v : Int) (hne : a' ≠ a) :
    (step s (.write a' pos v)).1.read a = s.read a := read_write_ne pos v hne

/-- The value returned by an accessor call is a function of `report s` alone: nothing if there is no object,
`acc.eval r` if the object reports `r`. -/
theorem access_value (s : State) (acc : Acc) :
    (step s (.access acc)).2 = match report s with
      | none => []
      | some r => acc.eval r := by
  cases hr : report s with
  | none => rw [step_access_none acc hr]
  | some r => rw [step_access_some acc hr]

/-- Determinism: two states whose objects report the same return the same value for every accessor call. -/
theorem access_deterministic {s s' : State} (acc : Acc) (h : report s = report s') :
    (step s (.access acc)).2 = (step s' (.access acc)).2 := by
  rw [access_value, access_value, h]

/-- Repeatability: under the invariant, an accessor call returns the same value before and after any sequence of
operations without constructor calls (reads, writes into returned arrays, writes into the former constructor
arguments, new caller arrays). -/
theorem repeatable {s : State} {ops : List Op} (acc : Acc) (h : Inv s) (hc : NoCtor ops) :
    (step (run s ops).1 (.access acc)).2 = (step s (.access acc)).2 :=
  access_deterministic acc (report_run_of_inv h hc)

/-! non-vacuity: two trajectories `[3,5,3]`, `[7,5]`; the session `exOps` overwrites a returned array (address 5)
and a constructor argument (address 0) between the accessor calls -/
example : Inv (step exState (.construct [0, 1])).1 := inv_step _ _ ⟨by decide, trivial⟩
example : NoCtor exOps := by decide
example : (step (step exState (.construct [0, 1])).1 (.access .trajs)).2 = [[3, 5, 3], [7, 5]] := by decide
example : (step (run (step exState (.construct [0, 1])).1 exOps).1 (.access .trajs)).2 = [[3, 5, 3], [7, 5]] := by
  decide
example : (run (step exState (.construct [0, 1])).1 exOps).1.read 0 = [3, 42, 3] ∧
    (run (step exState (.construct [0, 1])).1 exOps).1.read 5 = [99, 5, 3] := by decide
example : (Op.construct [0, 1]).isWrite = false ∧ (Op.access .trajs).isWrite = false := by decide
example : (step exState (.construct [0, 1])).1.read 0 = [3, 5, 3] := by decide

end MsmVerif.C18
