/-
Model/Events.lean — executable model of `src/msmhelper/md/timescales.py` (waiting-time events, loop-erased
pathways) and of the two event loops of `src/msmhelper/msm/timescales.py`, plus a declarative Spec.
-/
import MsmVerif.Model.Basic

namespace MsmVerif.Events

/-- `_intersect(ar1, ar2)` : merge count of two sorted duplicate-free arrays -/
def intersect : List Int → List Int → Nat
  | [], _ => 0
  | _, [] => 0
  | a :: as, b :: bs =>
    if a = b then intersect as bs + 1
    else if a > b then intersect (a :: as) bs
    else intersect as (b :: bs)
termination_by l1 l2 => l1.length + l2.length

/-- state of the automaton of `_estimate_events_singletraj` -/
structure Auto where
  open_ : Bool := false
  start : Nat := 0
  deriving Repr

/-- one step of the automaton at frame `idx`; emits an event `(idx_start, idx)` when it closes -/
def autoStep (S F : List Int) (a : Auto) (idx : Nat) (x : Int) : Auto × Option (Nat × Nat) :=
  if !a.open_ && S.contains x then ({ open_ := true, start := idx }, none)
  else if a.open_ && F.contains x then ({ open_ := false, start := a.start }, some (a.start, idx))
  else (a, none)

def eventsFrom (S F : List Int) : Auto → Nat → List Int → List (Nat × Nat)
  | _, _, [] => []
  | a, idx, x :: rest =>
    match autoStep S F a idx x with
    | (a', some e) => e :: eventsFrom S F a' (idx + 1) rest
    | (a', none) => eventsFrom S F a' (idx + 1) rest

/-- `_estimate_events_singletraj(traj, states_start, states_final)` -/
def events (S F : List Int) (t : List Int) : List (Nat × Nat) := eventsFrom S F {} 0 t

/-- `_estimate_waiting_times` over all trajectories, in order -/
def waitingTimes (S F : List Int) (ts : Trajs) : List Nat :=
  (ts.map (fun t => (events S F t).map (fun e => e.2 - e.1))).flatten

/-- the path loop: reset on a start-basin label, truncate at the first earlier occurrence, append -/
def pathStep (S : List Int) (path : List Int) (x : Int) : List Int :=
  if S.contains x then [x]
  else if path.contains x then path.take (path.idxOf x) ++ [x]
  else path ++ [x]

/-- loop-erased path of the frames `traj[i..j]` -/
def loopErase (S : List Int) (seg : List Int) : List Int := seg.foldl (pathStep S) []

/-- `_estimate_paths_singletraj` : (path, duration) per event -/
def pathsSingle (S F : List Int) (t : List Int) : List (List Int × Nat) :=
  (events S F t).map (fun e => (loopErase S ((t.drop e.1).take (e.2 - e.1 + 1)), e.2 - e.1))

def pathsAll (S F : List Int) (ts : Trajs) : List (List Int × Nat) :=
  (ts.map (pathsSingle S F)).flatten

/-- validation shared by the md and msm entry points: overlap → ValueError; absent label → ValueError.
`start`/`final` are made unique-sorted first (`np.unique`). -/
def validate (start final : List Int) (sts : List Int) : Except Err (List Int × List Int) :=
  let S := sortDedup start
  let F := sortDedup final
  if intersect S F ≠ 0 then .error .value
  else if intersect S sts ≠ S.length then .error .value
  else if intersect F sts ≠ F.length then .error .value
  else .ok (S, F)

/-- `md.estimate_waiting_times(trajs, start, final)` -/
def mdWaitingTimes (ts : Trajs) (start final : List Int) : Except Err (List Nat) :=
  match StateTraj.mk' ts with
  | .error e => .error e
  | .ok st =>
    match validate start final st.sts with
    | .error e => .error e
    | .ok (S, F) => .ok (waitingTimes S F ts)

/-- `md.estimate_paths(trajs, start, final)` as the list of (path, time) tuples in order of occurrence
(the dictionary is the grouping of this list by path) -/
def mdPaths (ts : Trajs) (start final : List Int) : Except Err (List (List Int × Nat)) :=
  match StateTraj.mk' ts with
  | .error e => .error e
  | .ok st =>
    match validate start final st.sts with
    | .error e => .error e
    | .ok (S, F) => .ok (pathsAll S F ts)

/-! ### Declarative Spec of the events (C06) -/

/-- `(i, j)` is an event of `t` given that the previous event ended at `lo` (first candidate frame):
`i` is the first `S`-frame at or after `lo`, `j` the first `F`-frame after `i`. -/
def firstIdx (p : Int → Bool) (t : List Int) (lo : Nat) : Option Nat :=
  ((List.range t.length).filter (fun i => lo ≤ i && p (t.getD i 0))).head?

/-- spec events by "search the next start, then the next final", with fuel = length -/
def specEventsFrom (S F : List Int) (t : List Int) : Nat → Nat → List (Nat × Nat)
  | 0, _ => []
  | fuel + 1, lo =>
    match firstIdx (fun x => S.contains x) t lo with
    | none => []
    | some i =>
      match firstIdx (fun x => F.contains x) t (i + 1) with
      | none => []
      | some j => (i, j) :: specEventsFrom S F t fuel (j + 1)

def specEvents (S F : List Int) (t : List Int) : List (Nat × Nat) := specEventsFrom S F t (t.length + 1) 0

/-- grouping of (path, time) tuples into the dictionary, as an association list (keys duplicate-free; key order is NOT the insertion order of a Python dict and is never compared) -/
def groupPaths : List (List Int × Nat) → List (List Int × List Nat)
  | [] => []
  | (p, d) :: rest =>
    let g := groupPaths rest
    match g.find? (fun e => e.1 == p) with
    | some _ => g.map (fun e => if e.1 == p then (e.1, d :: e.2) else e)
    | none => (p, [d]) :: g

/-- path-shape predicate of the property for one event `(i,j)` of `t` with path `p` -/
def pathShapeOk (S _F : List Int) (t : List Int) (e : Nat × Nat) (p : List Int) : Bool :=
  let seg := (t.drop e.1).take (e.2 - e.1 + 1)
  -- last start-set frame of the segment
  let lastS := (seg.reverse.find? (fun x => S.contains x))
  p.head? == lastS &&
  p.getLast? == seg.getLast? &&
  p.Nodup &&
  (p.zip p.tail).all (fun ab => (seg.zip seg.tail).contains ab)

/-- oracle for `md.estimate_waiting_times` -/
def holdsWt (ts : Trajs) (start final : List Int) (obs : Except Err (List Nat)) : Bool :=
  let sts := states ts
  let S := sortDedup start
  let F := sortDedup final
  let bad := S.any (fun x => F.contains x) || S.any (fun x => !sts.contains x) || F.any (fun x => !sts.contains x)
  match obs with
  | .error e => bad && e == .value
  | .ok w => !bad && w == (ts.map (fun t => (specEvents S F t).map (fun e => e.2 - e.1))).flatten

/-- Spec of the loop-erased path of an event segment: start again at the LAST start-set frame, then
chronological loop erasure (on revisiting a label, cut the path back to its first occurrence). -/
def lastSuffix (S : List Int) : List Int → List Int
  | [] => []
  | x :: rest =>
    let r := lastSuffix S rest
    if r.any (fun y => S.contains y) then r else x :: rest

def lerwStep (path : List Int) (x : Int) : List Int :=
  if path.contains x then path.take (path.idxOf x) ++ [x] else path ++ [x]

def lerw (seg : List Int) : List Int := seg.foldl lerwStep []

def specPath (S : List Int) (seg : List Int) : List Int := lerw (lastSuffix S seg)

/-- spec (path, duration) tuples of a trajectory set, in order of occurrence -/
def specTuples (S F : List Int) (ts : Trajs) : List (List Int × Nat) :=
  (ts.map (fun t => (specEvents S F t).map (fun e =>
    (specPath S ((t.drop e.1).take (e.2 - e.1 + 1)), e.2 - e.1)))).flatten

/-- canonical dictionary: durations sorted inside each bucket -/
def canonDict (d : List (List Int × List Nat)) : List (List Int × List Nat) :=
  d.map (fun e => (e.1, e.2.mergeSort (· ≤ ·)))

/-- two association lists denote the same finite map (keys duplicate-free on both sides) -/
def sameDict (a b : List (List Int × List Nat)) : Bool :=
  a.length == b.length && (a.map (·.1)).Nodup && (b.map (·.1)).Nodup &&
  a.all (fun e => b.any (fun e' => e'.1 == e.1 && e'.2 == e.2))

/-- oracle for `md.estimate_paths`: `obs` is the returned dictionary as (path, durations) items; it must be
the grouping of the spec events by their loop-erased spec path (order inside a bucket is free), and every
key must have the path shape of the property. -/
def holdsPaths (ts : Trajs) (start final : List Int) (obs : Except Err (List (List Int × List Nat))) : Bool :=
  let sts := states ts
  let S := sortDedup start
  let F := sortDedup final
  let bad := S.any (fun x => F.contains x) || S.any (fun x => !sts.contains x) || F.any (fun x => !sts.contains x)
  match obs with
  | .error e => bad && e == .value
  | .ok d => !bad && sameDict (canonDict d) (canonDict (groupPaths (specTuples S F ts)))

/-! ### MSM event loops over a realised chain (C08) -/

/-- `_estimate_waiting_times` of `msm/timescales.py` on the realised states `x_0 … x_{steps-1}`
(the states *after* each propagation step): histogram as association list in insertion order -/
def histInsert (h : List (Nat × Nat)) (k : Nat) : List (Nat × Nat) :=
  if h.any (fun e => e.1 == k) then h.map (fun e => if e.1 == k then (e.1, e.2 + 1) else e)
  else h ++ [(k, 1)]

def msmWtLoop (S F : List Int) (xs : List Int) : List (Nat × Nat) :=
  ((events S F xs).map (fun e => e.2 - e.1)).foldl histInsert []

/-- transition-time loop: re-open on every start-set hit -/
def ttFrom (S F : List Int) : Auto → Nat → List Int → List Nat
  | _, _, [] => []
  | a, idx, x :: rest =>
    if S.contains x then ttFrom S F { open_ := true, start := idx } (idx + 1) rest
    else if a.open_ && F.contains x then (idx - a.start) :: ttFrom S F { open_ := false, start := a.start } (idx + 1) rest
    else ttFrom S F a (idx + 1) rest

def msmTtLoop (S F : List Int) (xs : List Int) : List (Nat × Nat) :=
  (ttFrom S F {} 0 xs).foldl histInsert []

/-- `np.sort(np.repeat(keys, values)) * lagtime` -/
def histList (h : List (Nat × Nat)) (lag : Nat) : List Nat :=
  let expanded := (h.map (fun e => List.replicate e.2 e.1)).flatten
  (expanded.mergeSort (· ≤ ·)).map (· * lag)

/-- density and edges of `_estimate_times(return_list=False)` : `pts / (sum * lag)`, `arange(len+1)*lag` -/
def histDensity (h : List (Nat × Nat)) (lag : Nat) : List Rat × List Nat :=
  let maxt := (h.map (·.1)).foldl max 0
  let pts : List Nat := (List.range (maxt + 1)).map (fun k => ((h.filter (fun e => e.1 == k)).map (·.2)).sum)
  let tot := pts.sum
  (pts.map (fun (c : Nat) => (c : Rat) / ((tot : Rat) * (lag : Rat))), (List.range (maxt + 2)).map (· * lag))

end MsmVerif.Events
