#!/usr/bin/env python3
"""tools/refresh_design_table.py — rewrite the measured columns of the DESIGN §0 table (theorem counts, number of correspondence cases, wall time of
the quick check) from lean/registry.json and evidence/*.json (the evidence of the last quick runs on the unchanged tree)."""
import json, os, re
HOME = os.path.dirname(os.path.dirname(os.path.abspath(__file__)))
reg = json.load(open(os.path.join(HOME, 'lean', 'registry.json')))
p = os.path.join(HOME, 'DESIGN.md')
lines = open(p).read().split('\n')
for i, ln in enumerate(lines):
    m = re.match(r'^\| (C\d\d) \| (.*?) \| ([\d+ ]+) \| (.*?) \| ([\d ]+s) \| (.*)$', ln)
    if not m:
        continue
    pid = m.group(1)
    th = reg[pid]['theorems']
    r = sum(1 for t in th if '.Refine.' in t['name'])
    thms = ('%d + %d' % (len(th) - r, r)) if r else str(len(th))
    ev = json.load(open(os.path.join(HOME, 'evidence', pid + '.json')))
    n = ev['coverage']['evaluations']
    cases = '{:,}'.format(n).replace(',', ' ')
    desc = re.sub(r'^[\d ]+(?=[ :(])', cases, m.group(4), count=1) if re.match(r'^\d', m.group(4)) else m.group(4)
    lines[i] = '| %s | %s | %s | %s | %d s | %s' % (pid, m.group(2), thms, desc, round(ev['wall_s']), m.group(6))
s = '\n'.join(lines)
tot = sum(len(v['theorems']) for v in reg.values())
names = {t['name'] for v in reg.values() for t in v['theorems']}
ref = {n for n in names if '.Refine.' in n}
s = re.sub(r'\d+ obligations in total \(\d+ distinct theorems, \d+ of them refinement theorems',
           '%d obligations in total (%d distinct theorems, %d of them refinement theorems' % (tot, len(names), len(ref)), s)
open(p, 'w').write(s)
print(tot, len(names), len(ref))
