"""Infrastructure shared by all property checks.

* Lean side: incremental `lake build`, axiom audit of the registered theorems, forbidden-token grep,
  and the JSON line-protocol driver (`lake env lean --run Main.lean`).
* Python side: canonicalisation helpers, exact float→rational conversion, PRNG, evidence / replay writers,
  known-findings handling and the generic check loop (correspondence → judge → search).
"""
import fractions
import hashlib
import json
import os
import random
import re
import subprocess
import sys
import time
import traceback

HOME = os.environ.get('VERIF_HOME') or os.path.dirname(os.path.dirname(os.path.abspath(__file__)))
REPO = os.environ.get('VERIF_REPO', '/repo')
LEAN_DIR = os.path.join(HOME, 'lean')
OUT = os.environ.get('VERIF_OUT') or HOME     # evidence/ and replays/ live here (overridable for mutation trials)
ALLOWED_AXIOMS = {'propext', 'Classical.choice', 'Quot.sound'}
FORBIDDEN = re.compile(r'\bsorry\b|\badmit\b|^\s*axiom\s|native_decide|bv_decide|implemented_by|\bunsafe\s|maxHeartbeats\s+0\b')


MAX_CRASHES = 8


class HarnessError(Exception):
    """The machinery itself failed (exit code 2)."""


# --------------------------------------------------------------------------- translated kernels (Gen layer)

TRANSLATION = {'regenerated': False, 'identical_to_committed': None, 'problems': {}, 'lean_dir': None, 'changed_files': []}
_SCRATCH = []


def sync_translation():
    """Regenerate lean/MsmVerif/Gen/*.lean from $VERIF_REPO/src with harness/py2lean.py.  If the text equals what is in the
    Lean tree nothing happens; otherwise the Lean project (with its build cache) is copied to a scratch directory, the new
    text is written there and LEAN_DIR is redirected to it, so that the refinement theorems are re-checked against what the
    code says NOW while the committed tree (and runs that share it) stays untouched."""
    global LEAN_DIR
    import atexit
    import shutil
    import tempfile
    import py2lean
    files, probs = py2lean.translate_all(REPO)
    TRANSLATION['regenerated'] = True
    TRANSLATION['problems'] = {k: v for k, v in probs.items() if v}
    gen_dir = os.path.join(LEAN_DIR, 'MsmVerif', 'Gen')
    changed = []
    for fn, text in files.items():
        if text is None:
            text = '/- GENERATED: translation of this module failed: %s -/\nimport MsmVerif.Gen.PyRt\n' % '; '.join(probs.get(fn, []))[:500]
            files[fn] = text
        path = os.path.join(gen_dir, fn)
        old = open(path).read() if os.path.exists(path) else None
        if old != text:
            changed.append(fn)
    TRANSLATION['changed_files'] = changed
    TRANSLATION['identical_to_committed'] = not changed
    if not changed:
        return
    scratch = tempfile.mkdtemp(prefix='msmverif_lean_')
    _SCRATCH.append(scratch)
    atexit.register(lambda: shutil.rmtree(scratch, ignore_errors=True))
    dst = os.path.join(scratch, 'lean')
    shutil.copytree(LEAN_DIR, dst, symlinks=True, ignore=shutil.ignore_patterns('scratch', 'tasks'))
    for fn in changed:
        with open(os.path.join(dst, 'MsmVerif', 'Gen', fn), 'w') as fh:
            fh.write(files[fn])
    LEAN_DIR = dst
    TRANSLATION['lean_dir'] = dst


# --------------------------------------------------------------------------- Lean build / audit

def _run(cmd, cwd=None, inp=None, timeout=None):
    return subprocess.run(cmd, cwd=cwd, input=inp, capture_output=True, text=True, timeout=timeout)


def lean_build(targets=None, clean=False):
    """Build the Lean library (incremental).  Returns (ok, log, seconds)."""
    t0 = time.time()
    if clean:
        _run(['rm', '-rf', os.path.join(LEAN_DIR, '.lake', 'build')])
    cmd = ['lake', 'build'] + (targets or [])
    r = _run(cmd, cwd=LEAN_DIR, timeout=3600)
    return r.returncode == 0, (r.stdout + r.stderr)[-4000:], time.time() - t0


def lean_build_modules(mods):
    """build each module on its own: {module: (ok, log_tail)} — a refinement module that no longer compiles must not hide
    the theorems of the other modules of the property"""
    res = {}
    for m in mods:
        r = _run(['lake', 'build', m], cwd=LEAN_DIR, timeout=3600)
        res[m] = (r.returncode == 0, (r.stdout + r.stderr)[-2500:])
    return res


def strip_comments(src):
    """Remove `--` line comments and (nested) `/- -/` block comments from Lean source."""
    out, i, depth, n = [], 0, 0, len(src)
    while i < n:
        if src.startswith('/-', i):
            depth += 1
            i += 2
        elif depth and src.startswith('-/', i):
            depth -= 1
            i += 2
        elif depth:
            if src[i] == '\n':
                out.append('\n')
            i += 1
        elif src.startswith('--', i):
            while i < n and src[i] != '\n':
                i += 1
        else:
            out.append(src[i])
            i += 1
    return ''.join(out)


def forbidden_tokens():
    """Grep all Lean sources (comments stripped) for sorry/admit/axiom/native_decide/…"""
    hits = []
    for root, _, files in os.walk(LEAN_DIR):
        if '.lake' in root or '/scratch' in root or '/tasks' in root:
            continue
        for f in files:
            if f.endswith('.lean'):
                p = os.path.join(root, f)
                for ln, line in enumerate(strip_comments(open(p).read()).split('\n'), 1):
                    if FORBIDDEN.search(line):
                        hits.append('%s:%d: %s' % (os.path.relpath(p, HOME), ln, line.strip()[:120]))
    return hits


def registry():
    return json.load(open(os.path.join(LEAN_DIR, 'registry.json')))


def axiom_audit(pid, built=None):
    """`#print axioms` for every theorem registered for `pid`.

    Returns a list of dicts {name, statement, axioms, ok, why}.
    """
    reg = registry().get(pid, {})
    thms = reg.get('theorems', [])
    mods = reg.get('modules', [])
    if not thms:
        return []
    auditdir = os.path.join(LEAN_DIR, '.lake', 'audit')
    os.makedirs(auditdir, exist_ok=True)
    built = built or {}
    text = ''
    for m in mods:
        mine = [t for t in thms if t.get('module', mods[0]) == m]
        if not mine:
            continue
        if m in built and not built[m][0]:
            continue          # module does not compile: its theorems stay undischarged
        path = os.path.join(auditdir, 'Audit_%s_%s.lean' % (pid, m.split('.')[-1]))
        with open(path, 'w') as fh:
            fh.write('import %s\n' % m)
            for t in mine:
                fh.write('#print axioms %s\n' % t['name'])
        r = _run(['lake', 'env', 'lean', path], cwd=LEAN_DIR, timeout=1800)
        text += r.stdout + r.stderr + '\n'
    # join continuation lines
    flat = re.sub(r'\n\s+', ' ', text)
    res = []
    for t in thms:
        name = t['name']
        entry = {'name': name, 'statement': t.get('statement', ''), 'axioms': None, 'ok': False, 'why': ''}
        m = re.search(r"'%s' depends on axioms: \[([^\]]*)\]" % re.escape(name), flat)
        if m:
            ax = [a.strip() for a in m.group(1).split(',') if a.strip()]
            entry['axioms'] = ax
            bad = [a for a in ax if a not in ALLOWED_AXIOMS]
            entry['ok'] = not bad
            entry['why'] = ('non-standard axioms: %s' % bad) if bad else ''
        elif re.search(r"'%s' does not depend on any axioms" % re.escape(name), flat):
            entry['axioms'] = []
            entry['ok'] = True
        else:
            m = t.get('module')
            if m and built and m in built and not built[m][0]:
                entry['why'] = 'module %s no longer compiles: %s' % (m, built[m][1][-500:])
            else:
                entry['why'] = 'theorem not found / does not check: ' + text[-400:]
        res.append(entry)
    return res


# --------------------------------------------------------------------------- Lean driver

class LeanDriver:
    """Persistent line-protocol driver process (used for judging / shrinking single cases)."""

    def __init__(self):
        self.p = subprocess.Popen(['lake', 'env', 'lean', '--run', 'Main.lean'], cwd=LEAN_DIR,
                                  stdin=subprocess.PIPE, stdout=subprocess.PIPE, text=True, bufsize=1)

    def ask(self, obj):
        self.p.stdin.write(json.dumps(obj) + '\n')
        self.p.stdin.flush()
        line = self.p.stdout.readline()
        if not line:
            raise HarnessError('Lean driver died on %r' % (obj,))
        return json.loads(line)

    def close(self):
        try:
            self.p.stdin.close()
            self.p.wait(timeout=10)
        except Exception:
            self.p.kill()


def lean_batch(reqs, shards=None, timeout=3000):
    """Run many requests through fresh driver processes (sharded), return replies in order."""
    if not reqs:
        return []
    n = len(reqs)
    if shards is None:
        shards = (1 if n < 400 else 4) if n < 4000 else min(int(os.environ.get('VERIF_JOBS', '12')), max(1, n // 3000))
    size = (n + shards - 1) // shards
    procs = []
    for s in range(shards):
        part = reqs[s * size:(s + 1) * size]
        if not part:
            continue
        data = '\n'.join(json.dumps(r, separators=(',', ':')) for r in part) + '\n'
        p = subprocess.Popen(['lake', 'env', 'lean', '--run', 'Main.lean'], cwd=LEAN_DIR,
                             stdin=subprocess.PIPE, stdout=subprocess.PIPE, stderr=subprocess.PIPE, text=True)
        procs.append((p, data, len(part)))
    # feed via threads to avoid pipe deadlocks
    import threading
    outs = [None] * len(procs)

    def work(i):
        p, data, _ = procs[i]
        try:
            outs[i] = p.communicate(data, timeout=timeout)
        except subprocess.TimeoutExpired:
            p.kill()
            outs[i] = ('', 'timeout')
    ths = [threading.Thread(target=work, args=(i,)) for i in range(len(procs))]
    for t in ths:
        t.start()
    for t in ths:
        t.join()
    replies = []
    for (p, _, cnt), (so, se) in zip(procs, outs):
        lines = [l for l in so.split('\n') if l.strip()]
        if len(lines) != cnt:
            raise HarnessError('Lean driver returned %d lines for %d requests: %s' % (len(lines), cnt, (se or '')[-800:]))
        replies.extend(json.loads(l) for l in lines)
    for r in replies:
        if 'driver_error' in r:
            raise HarnessError('Lean driver error: %s' % r['driver_error'])
    return replies


# --------------------------------------------------------------------------- real-code workers

def run_real(pid, cases, nworkers=None, env=None, timeout=3000):
    """Run prop.real on every case in worker subprocesses; a crash of the real code becomes
    obs = {"err": "Crash", ...} for exactly the case that crashed."""
    import tempfile
    import threading
    n = len(cases)
    if n == 0:
        return []
    if nworkers is None:
        nworkers = max(1, min(int(os.environ.get('VERIF_JOBS', '8')), n // 10000 + 1))
    size = (n + nworkers - 1) // nworkers
    results = [None] * n
    tmpdir = tempfile.mkdtemp(prefix='msmverif_')
    wenv = dict(os.environ)
    for k in ('OMP_NUM_THREADS', 'OPENBLAS_NUM_THREADS', 'MKL_NUM_THREADS', 'NUMBA_NUM_THREADS'):
        wenv.setdefault(k, '1' if k != 'NUMBA_NUM_THREADS' else '2')
    if env:
        wenv.update(env)

    def work(w):
        lo, hi = w * size, min(n, (w + 1) * size)
        pos = lo
        attempt = 0
        while pos < hi:
            attempt += 1
            if attempt > MAX_CRASHES + 1:
                # the real code keeps crashing: do not burn the time budget on restarts
                for k in range(pos, hi):
                    results[k] = {'err': 'NotRun', 'msg': 'skipped after %d crashes of the real code' % MAX_CRASHES}
                break
            fin = os.path.join(tmpdir, 'in_%d_%d.jsonl' % (w, attempt))
            fout = os.path.join(tmpdir, 'out_%d_%d.jsonl' % (w, attempt))
            with open(fin, 'w') as fh:
                for c in cases[pos:hi]:
                    fh.write(json.dumps(c) + '\n')
            open(fout, 'w').close()
            try:
                r = subprocess.run([sys.executable, '-W', 'ignore', os.path.join(HOME, 'harness', 'worker.py'), pid, fin, fout],
                                   env=wenv, capture_output=True, text=True, timeout=timeout)
                rc, tail = r.returncode, (r.stderr or '')[-300:]
            except subprocess.TimeoutExpired:
                rc, tail = -999, 'timeout'
            lines = [l for l in open(fout).read().split('\n') if l.strip()]
            for k, l in enumerate(lines):
                results[pos + k] = json.loads(l)
            pos += len(lines)
            if pos < hi:
                # the worker died while processing cases[pos]
                results[pos] = {'err': 'Crash', 'msg': 'worker exit code %s: %s' % (rc, tail)}
                pos += 1
    ths = [threading.Thread(target=work, args=(w,)) for w in range(nworkers)]
    for t in ths:
        t.start()
    for t in ths:
        t.join()
    import shutil
    shutil.rmtree(tmpdir, ignore_errors=True)
    if any(r is None for r in results):
        raise HarnessError('worker produced no result for some cases')
    return results


# --------------------------------------------------------------------------- helpers for props

def frac(x):
    """exact rational of a python/numpy float or int"""
    import numpy as np
    if isinstance(x, (int, np.integer)):
        return fractions.Fraction(int(x))
    return fractions.Fraction(float(x))


def rat_str(x):
    """float/int/Fraction → "p/q" string for the driver (exact)."""
    f = x if isinstance(x, fractions.Fraction) else frac(x)
    return str(f.numerator) if f.denominator == 1 else '%d/%d' % (f.numerator, f.denominator)


def parse_rat(s):
    return fractions.Fraction(s) if not isinstance(s, (int,)) else fractions.Fraction(s)


def err_name(e):
    n = type(e).__name__
    known = {'ValueError', 'TypeError', 'LagtimeError', 'IndexError', 'NotImplementedError', 'FileError',
             'AssertionError'}
    if n in known:
        return n
    # numba re-raises typed errors with various names
    for k in known:
        if k in n:
            return k
    return 'Other:' + n


def call(fn, *a, **k):
    """Run real code, mapping exceptions to {"err": kind} and results through the caller's canon."""
    try:
        return {'ok': fn(*a, **k)}
    except Exception as e:  # noqa
        return {'err': err_name(e), 'msg': str(e)[:200]}


def tolist(x):
    import numpy as np
    if isinstance(x, np.ndarray):
        return x.tolist()
    if isinstance(x, (list, tuple)):
        return [tolist(v) for v in x]
    if isinstance(x, np.generic):
        return x.item()
    return x


class Rng(random.Random):
    """single PRNG: every random choice of a check derives from VERIF_SEED"""

    def ints(self, n, lo, hi):
        return [self.randint(lo, hi) for _ in range(n)]


def seed():
    try:
        return int(os.environ.get('VERIF_SEED', '20260929'))
    except ValueError:
        return 20260929


# --------------------------------------------------------------------------- known findings

def known_findings(pid):
    p = os.path.join(HOME, 'known_findings.json')
    if not os.path.exists(p):
        return []
    data = json.load(open(p))
    return [k for k in data.get('known', []) if k.get('property') == pid]


# --------------------------------------------------------------------------- evidence / replay

def write_json(path, obj):
    os.makedirs(os.path.dirname(path), exist_ok=True)
    tmp = path + '.tmp'
    with open(tmp, 'w') as fh:
        json.dump(obj, fh, indent=1, sort_keys=True, default=str)
        fh.write('\n')
    os.replace(tmp, path)


def replay_path(pid, tag):
    d = os.path.join(OUT, 'replays')
    os.makedirs(d, exist_ok=True)
    return os.path.join(d, '%s-%s.json' % (pid, tag))


def digest(obj):
    return hashlib.sha256(json.dumps(obj, sort_keys=True, default=str).encode()).hexdigest()[:16]
