/-
Refine/Coring.lean — task RP2 (property C05, also C11): the TRANSLATED dynamical-coring kernels of
`Gen/MdCorrections.lean` (generated from `src/msmhelper/md/corrections.py`) compute exactly the hand-written model
`Model/Coring.lean`, for all inputs with `1 ≤ lagtime`, with no size bound.

Every right-hand side is `.ok …` or `.error .lagtime`, never `.error .index`: the kernels are memory safe.
The key step is `sct_loop` (in `CoringLemmas.lean`): although `_dynamical_coring_single_traj` relabels its working copy in
place, after the positions `< idx` have been processed the copy is `(scanned prefix) ++ (input suffix)`, and the window test
at `idx` only reads positions `≥ idx` — so the kernel scans the *input* suffix, which is what `Coring.scanWith` does.
-/
import MsmVerif.Refine.CoringLemmas

namespace MsmVerif.Refine.Coring
open MsmVerif MsmVerif.Gen MsmVerif.Gen.MdCorrections

/-- `_remains_in_core(idx, traj, lagtime, iterative=False)` at a valid position `idx` returns (without any index error)
the model's full window test `Coring.remains` on the suffix `traj[idx:]`. -/
theorem remains_refines (traj : List Int) (idx τ : Nat) (hidx : idx < traj.length) (hτ : 1 ≤ τ) :
    remains_in_core (idx : Int) traj (τ : Int) false = .ok (Coring.remains τ (traj.drop idx)) :=
  remains_eq traj idx τ hidx hτ

example : (2 : Nat) < [1, 1, 2, 2, 2, 1].length ∧ 1 ≤ 3 := by decide
example : remains_in_core 2 [1, 1, 2, 2, 2, 1] 3 false = .ok true :=
  (remains_refines [1, 1, 2, 2, 2, 1] 2 3 (by decide) (by decide)).trans (by rfl)
example : remains_in_core 3 [1, 1, 2, 2, 2, 1] 3 false = .ok false :=
  (remains_refines [1, 1, 2, 2, 2, 1] 3 3 (by decide) (by decide)).trans (by rfl)

/-- `_remains_in_core(idx, traj, lagtime, iterative=True)` at a valid position `idx` returns (without any index error)
the model's short test `Coring.remainsShort` (only first and last frame of the window) on the suffix `traj[idx:]`. -/
theorem remains_short_refines (traj : List Int) (idx τ : Nat) (hidx : idx < traj.length) (hτ : 1 ≤ τ) :
    remains_in_core (idx : Int) traj (τ : Int) true = .ok (Coring.remainsShort τ (traj.drop idx)) :=
  remainsShort_eq traj idx τ hidx hτ

example : remains_in_core 2 [1, 1, 2, 1, 2, 1] 3 true = .ok true :=
  (remains_short_refines [1, 1, 2, 1, 2, 1] 2 3 (by decide) (by decide)).trans (by rfl)
example : remains_in_core 2 [1, 1, 2, 1, 2, 1] 3 false = .ok false :=
  (remains_refines [1, 1, 2, 1, 2, 1] 2 3 (by decide) (by decide)).trans (by rfl)

/-- General form of the two theorems above for every position `idx ≥ 0`, also past the end of the trajectory
(there the kernel's length test fails before any read, and the model sees the empty suffix). -/
theorem remains_refines_general (traj : List Int) (idx τ : Nat) (hτ : 1 ≤ τ) (iter : Bool) :
    remains_in_core (idx : Int) traj (τ : Int) iter
      = .ok ((if iter then Coring.remainsShort τ else Coring.remains τ) (traj.drop idx)) :=
  remains_any_refines_general traj idx τ hτ iter

example : remains_in_core 7 [1, 1, 2, 2, 2, 1] 3 true = .ok false :=
  (remains_refines_general [1, 1, 2, 2, 2, 1] 7 3 (by decide) true).trans (by rfl)

/-- `_find_first_core(traj, lagtime)` returns (without any index error) the label of the first position that passes the
full window test, or the sentinel `-1` when there is none — the model's `Coring.firstCoreSentinel`. -/
theorem find_first_core_refines (traj : List Int) (τ : Nat) (hτ : 1 ≤ τ) :
    find_first_core traj (τ : Int) = .ok (Coring.firstCoreSentinel τ traj) := by
  unfold find_first_core pyLen
  change (forIn (m := Py) _ _ (ffcBody traj τ) >>= _) = _
  have := ffc_loop traj τ hτ traj.length 0 (by omega)
  simp only [Int.cast_ofNat_Int, List.drop_zero] at this
  rw [this, ok_bind]
  unfold Coring.firstCoreSentinel
  cases Coring.firstCore τ traj <;> rfl

example : find_first_core [1, 1, 2, 2, 2, 1] 3 = .ok 2 :=
  (find_first_core_refines [1, 1, 2, 2, 2, 1] 3 (by decide)).trans (by rfl)
example : find_first_core [1, 2, 1, 2] 3 = .ok (-1) :=
  (find_first_core_refines [1, 2, 1, 2] 3 (by decide)).trans (by rfl)

/-- `_dynamical_coring_single_traj(traj, lagtime, iterative)` equals the model `Coring.kernelSingle`: it raises
`LagtimeError` exactly when the sentinel-valued first core is `-1`, and otherwise returns the scan of the *input*
trajectory (`Coring.scanWith`) with the window test selected by `iterative`; it never raises an index error. -/
theorem single_traj_refines (traj : List Int) (τ : Nat) (hτ : 1 ≤ τ) (iter : Bool) :
    dynamical_coring_single_traj traj (τ : Int) iter = optErr .lagtime (Coring.kernelSingle τ iter traj) := by
  unfold dynamical_coring_single_traj Coring.kernelSingle
  rw [find_first_core_refines traj τ hτ, ok_bind]
  simp only
  by_cases hc : Coring.firstCoreSentinel τ traj = -1
  · rw [if_pos (by simp [hc]), if_pos hc]; rfl
  · rw [if_neg (by simp [hc]), if_neg hc]
    unfold pyLen
    change (forIn (m := Py) _ _ (sctBody τ iter) >>= _) = _
    obtain ⟨c', hc'⟩ :=
      sct_loop τ hτ iter traj.length traj.length 0 (Coring.firstCoreSentinel τ traj) traj rfl (by omega)
    simp only [Int.cast_ofNat_Int, List.drop_zero, List.take_zero, List.nil_append] at hc'
    rw [hc', ok_bind]
    cases iter <;> rfl

example : dynamical_coring_single_traj [1, 1, 2, 2, 2, 1] 3 false = .ok [2, 2, 2, 2, 2, 2] :=
  (single_traj_refines _ 3 (by decide) _).trans (by rfl)
example : dynamical_coring_single_traj [1, 1, 2, 2, 2, 1] 3 true = .ok [2, 2, 2, 2, 2, 2] :=
  (single_traj_refines _ 3 (by decide) _).trans (by rfl)
/-- the two modes differ on a trajectory that is not pre-cored at window 2 -/
example : dynamical_coring_single_traj [1, 1, 1, 2, 1, 2, 1, 1] 3 false = .ok [1, 1, 1, 1, 1, 1, 1, 1] :=
  (single_traj_refines _ 3 (by decide) _).trans (by rfl)
example : dynamical_coring_single_traj [1, 1, 1, 2, 1, 2, 1, 1] 3 true = .ok [1, 1, 1, 2, 1, 1, 1, 1] :=
  (single_traj_refines _ 3 (by decide) _).trans (by rfl)
example : dynamical_coring_single_traj [1, 2, 1, 2] 3 false = .error .lagtime :=
  (single_traj_refines _ 3 (by decide) _).trans (by rfl)
/-- the sentinel clash kept from the Python: a first core labelled `-1` is reported as "no core" -/
example : dynamical_coring_single_traj [0, -1, -1, -1, 0] 3 false = .error .lagtime :=
  (single_traj_refines _ 3 (by decide) _).trans (by rfl)

/-- `_dynamical_coring_single_lagtime(trajs, lagtime, iterative)` equals the model `Coring.kernelStage`: every
trajectory is cored on its own, and the stage raises `LagtimeError` iff some trajectory has no core. -/
theorem single_lagtime_refines (trajs : List (List Int)) (τ : Nat) (hτ : 1 ≤ τ) (iter : Bool) :
    dynamical_coring_single_lagtime trajs (τ : Int) iter = optErr .lagtime (Coring.kernelStage τ iter trajs) := by
  unfold dynamical_coring_single_lagtime Coring.kernelStage
  induction trajs with
  | nil => rfl
  | cons t ts ih =>
    rw [List.mapM_cons, List.mapM_cons, single_traj_refines t τ hτ iter, ih]
    cases Coring.kernelSingle τ iter t with
    | none => rfl
    | some a =>
      cases List.mapM (Coring.kernelSingle τ iter) ts <;> rfl

example : dynamical_coring_single_lagtime [[1, 1, 2, 2, 2, 1], [1, 2, 1, 1, 1, 2]] 3 false
    = .ok [[2, 2, 2, 2, 2, 2], [1, 1, 1, 1, 1, 1]] :=
  (single_lagtime_refines _ 3 (by decide) _).trans (by rfl)
/-- a set in which one trajectory has no core -/
example : dynamical_coring_single_lagtime [[1, 1, 2, 2, 2, 1], [1, 2, 1, 2]] 3 false = .error .lagtime :=
  (single_lagtime_refines _ 3 (by decide) _).trans (by rfl)

/-- the stage loop of `_dynamical_coring` over a list of natural lag times, all `≥ 1` -/
theorem dc_loop (iter : Bool) (ss : List Nat) : (∀ s ∈ ss, 1 ≤ s) → ∀ ts : List (List Int),
    forIn (m := Py) (ss.map (fun (s : Nat) => (s : Int))) ts (dcBody iter)
      = optErr .lagtime (ss.foldlM (fun acc s => Coring.kernelStage s iter acc) ts) := by
  induction ss with
  | nil => intro _ ts; rfl
  | cons s ss ih =>
    intro h ts
    have hs : 1 ≤ s := h s (List.mem_cons_self)
    rw [List.map_cons, List.forIn_cons, List.foldlM_cons]
    unfold dcBody
    rw [single_lagtime_refines ts s hs iter]
    cases Coring.kernelStage s iter ts with
    | none => rfl
    | some r => exact ih (fun s' hs' => h s' (List.mem_cons_of_mem _ hs')) r

/-- `_dynamical_coring(trajs, lagtime, iterative)` equals the model `Coring.kernelAll`: the stages `2..lagtime`
(iterative) or `lagtime` alone are applied in order, the first failing stage raises `LagtimeError`, and no index error
can occur. -/
theorem dynamical_coring_refines (trajs : List (List Int)) (τ : Nat) (hτ : 1 ≤ τ) (iter : Bool) :
    dynamical_coring trajs (τ : Int) iter = optErr .lagtime (Coring.kernelAll τ iter trajs) := by
  unfold dynamical_coring Coring.kernelAll
  simp only
  rw [schedule_cast]
  change (forIn (m := Py) _ _ (dcBody iter) >>= _) = _
  rw [dc_loop iter _ (schedule_pos τ hτ iter)]
  cases List.foldlM (fun acc s => Coring.kernelStage s iter acc) trajs (Coring.schedule τ iter) <;> rfl

example : dynamical_coring [[1, 1, 2, 2, 2, 1], [1, 2, 1, 1, 1, 2]] 3 true
    = .ok [[2, 2, 2, 2, 2, 2], [1, 1, 1, 1, 1, 1]] :=
  (dynamical_coring_refines _ 3 (by decide) _).trans (by rfl)
example : dynamical_coring [[1, 1, 1, 2, 1, 2, 1, 1]] 3 false = .ok [[1, 1, 1, 1, 1, 1, 1, 1]] :=
  (dynamical_coring_refines _ 3 (by decide) _).trans (by rfl)
example : dynamical_coring [[1, 1, 1, 2, 1, 2, 1, 1]] 3 true = .ok [[1, 1, 1, 1, 1, 1, 1, 1]] :=
  (dynamical_coring_refines _ 3 (by decide) _).trans (by rfl)
/-- a set in which one trajectory has no core: already stage `τ = 2` fails -/
example : dynamical_coring [[1, 1, 2, 2, 2, 1], [1, 2, 1, 2]] 3 true = .error .lagtime :=
  (dynamical_coring_refines _ 3 (by decide) _).trans (by rfl)

end MsmVerif.Refine.Coring
