/-
Refine/ItsPlainLemmas.lean — helper definitions and lemmas for task RP31 (property C10): the public `implied_timescales` on PLAIN label
trajectories, i.e. with the translated constructor `StateTraj.__init__` and the translated method `StateTraj.estimate_markov_model`
(the term `Refine/Public.lean` composes) plugged into the estimator oracle of `Gen.MsmIts.implied_timescales_n` / `_default`.

* `plainEst ts flag` : the plugged estimator (construct, then estimate), `plainEst_refines` / `plainEst_ok`: it is `Msm.estimate`;
* `itsPlainN`, `itsPlainDefault` : the programs that construct the object ONCE and then run the public function on its state
  (`nstates` = the length of the state list the constructor stored); `itsPlainN_eq`, `itsPlainDefault_eq`: they are the public function with
  `plainEst` as the estimator oracle;
* the transition matrix `Msm.specT ts lag` is square; it is the zero matrix for a lag no trajectory is longer than, and a zero matrix has
  only the eigenvalue `0`.

The theorems with docstrings are in `Refine/ItsPlain.lean`.
-/
import MsmVerif.Refine.ItsEnd
import MsmVerif.Refine.Public

namespace MsmVerif.Refine.ItsPlain
open MsmVerif MsmVerif.Gen MsmVerif.Timescales
open MsmVerif.Refine.Its (LogContract entry)
open MsmVerif.Refine.Eigen (Accepted EigOk ArgsortOk SquareN sortedVals sortedVecs CxLeftEigenpair)
open MsmVerif.Refine.ItsEnd (retEvs)

/-! ### definitions -/

/-- **The plugged estimator**: `StateTraj(ts).estimate_markov_model(lag)` — the translated constructor followed by the translated method on
    the object state it left, exactly the term of `Refine/Public.lean` (`public_estimate_refines`), as a function of the lag time -/
def plainEst (ts : Trajs) (flag : Bool) : Int → Py (List (List Rat) × List Int) := fun lag => do
  let (i, s) ← Gen.StateTrajInit.init ts
  Gen.StateTrajEst.estimate_markov_model i s lag flag

/-- `implied_timescales(ts, lagtimes, ntimescales, reversible)` on plain trajectories as the Python code runs it: construct the `StateTraj`
    object ONCE, then run the translated public function with the object's method as estimator and `trajs.nstates = len(states)` -/
def itsPlainN (log : List Cx → Py (List Cx)) (eig : List (List Rat) → Py (List Cx × List (List Cx)))
    (argsort : List Cx → Py (List Int)) (ts : Trajs) (lags : List Int) (nts : Int) (rev flag : Bool) : Py (List (List Cx)) := do
  let (i, s) ← Gen.StateTrajInit.init ts
  Gen.MsmIts.implied_timescales_n (fun lag => Gen.StateTrajEst.estimate_markov_model i s lag flag) log eig argsort (pyLen s) lags nts rev

/-- the same with `ntimescales=None` -/
def itsPlainDefault (log : List Cx → Py (List Cx)) (eig : List (List Rat) → Py (List Cx × List (List Cx)))
    (argsort : List Cx → Py (List Int)) (ts : Trajs) (lags : List Int) (rev flag : Bool) : Py (List (List Cx)) := do
  let (i, s) ← Gen.StateTrajInit.init ts
  Gen.MsmIts.implied_timescales_default (fun lag => Gen.StateTrajEst.estimate_markov_model i s lag flag) log eig argsort (pyLen s) lags rev

/-! ### the plugged estimator is `Msm.estimate` -/

theorem plainEst_refines (ts : Trajs) (hguard : LabelGuard ts) (flag : Bool) (τ : Int) (hτ : 1 ≤ τ) :
    plainEst ts flag τ = (Msm.estimate ts τ.toNat).map (fun r => (r.2.1, r.2.2)) := by
  have h := Public.public_estimate_refines ts hguard τ.toNat (by omega) flag
  rw [Int.toNat_of_nonneg (by omega)] at h
  exact h

theorem estimate_ok (ts : Trajs) (hguard : LabelGuard ts) (τ : Int) (hτ : 1 ≤ τ) :
    Msm.estimate ts τ.toNat = .ok (Msm.specCounts ts τ.toNat, Msm.specT ts τ.toNat, states ts) :=
  C01.model_meets_spec ts τ.toNat (by omega) hguard

theorem plainEst_ok (ts : Trajs) (hguard : LabelGuard ts) (flag : Bool) (τ : Int) (hτ : 1 ≤ τ) :
    plainEst ts flag τ = .ok (Msm.specT ts τ.toNat, states ts) := by
  rw [plainEst_refines ts hguard flag τ hτ, estimate_ok ts hguard τ hτ]
  rfl

/-- with the object state `(idx, sts)` the constructor returns, the plugged estimator is the method on that state -/
theorem plainEst_of_init {ts : Trajs} {idx : List (List Int)} {sts : List Int} (h : Gen.StateTrajInit.init ts = .ok (idx, sts))
    (flag : Bool) : plainEst ts flag = fun lag => Gen.StateTrajEst.estimate_markov_model idx sts lag flag := by
  funext lag
  unfold plainEst
  rw [h]
  rfl

/-! ### construct once = plug the estimator -/

theorem itsPlainN_eq (log : List Cx → Py (List Cx)) (eig : List (List Rat) → Py (List Cx × List (List Cx)))
    (argsort : List Cx → Py (List Int)) (ts : Trajs) (lags : List Int) (nts : Int) (rev flag : Bool) :
    itsPlainN log eig argsort ts lags nts rev flag =
      Gen.MsmIts.implied_timescales_n (plainEst ts flag) log eig argsort ((states ts).length : Int) lags nts rev := by
  obtain ⟨idx, sts, h⟩ := Init.init_ok ts
  have hs := Init.init_states_eq ts h
  subst hs
  rw [plainEst_of_init h flag]
  unfold itsPlainN
  rw [h]
  rfl

theorem itsPlainDefault_eq (log : List Cx → Py (List Cx)) (eig : List (List Rat) → Py (List Cx × List (List Cx)))
    (argsort : List Cx → Py (List Int)) (ts : Trajs) (lags : List Int) (rev flag : Bool) :
    itsPlainDefault log eig argsort ts lags rev flag =
      Gen.MsmIts.implied_timescales_default (plainEst ts flag) log eig argsort ((states ts).length : Int) lags rev := by
  obtain ⟨idx, sts, h⟩ := Init.init_ok ts
  have hs := Init.init_states_eq ts h
  subst hs
  rw [plainEst_of_init h flag]
  unfold itsPlainDefault
  rw [h]
  rfl

/-! ### the estimated matrix -/

theorem specT_square (ts : Trajs) (lag : Nat) : SquareN (Msm.specT ts lag) (states ts).length := by
  unfold Msm.specT
  refine ⟨List.length_map _, ?_⟩
  intro r hr
  obtain ⟨a, -, rfl⟩ := List.mem_map.mp hr
  exact List.length_map _

theorem pairs_of_short (lag : Nat) (t : List Int) (h : t.length ≤ lag) : Msm.pairs lag t = [] := by
  unfold Msm.pairs
  rw [Nat.sub_eq_zero_of_le h]
  rfl

theorem sum_map_zero {α : Type} (l : List α) (f : α → Nat) (h : ∀ x ∈ l, f x = 0) : (l.map f).sum = 0 := by
  induction l with
  | nil => rfl
  | cons a t ih =>
    rw [List.map_cons, List.sum_cons, h a List.mem_cons_self, ih (fun x hx => h x (List.mem_cons_of_mem _ hx))]

theorem count_of_long (ts : Trajs) (lag : Nat) (h : ∀ t ∈ ts, t.length ≤ lag) (a b : Int) : Msm.count ts lag a b = 0 := by
  unfold Msm.count
  apply sum_map_zero
  intro t ht
  rw [pairs_of_short lag t (h t ht)]
  rfl

theorem T_of_long (ts : Trajs) (lag : Nat) (h : ∀ t ∈ ts, t.length ≤ lag) (a b : Int) : Msm.T ts lag a b = 0 := by
  unfold Msm.T
  rw [if_pos]
  unfold Msm.rowTotal
  exact sum_map_zero _ _ (fun b _ => count_of_long ts lag h a b)

/-- for a lag no trajectory is longer than, there is no transition pair at all and the estimated matrix is the zero matrix -/
theorem specT_of_long (ts : Trajs) (lag : Nat) (h : ∀ t ∈ ts, t.length ≤ lag) :
    Msm.specT ts lag = List.replicate (states ts).length (List.replicate (states ts).length 0) := by
  unfold Msm.specT
  rw [List.eq_replicate_iff]
  refine ⟨List.length_map _, ?_⟩
  intro r hr
  obtain ⟨a, -, rfl⟩ := List.mem_map.mp hr
  rw [List.eq_replicate_iff]
  refine ⟨List.length_map _, ?_⟩
  intro x hx
  obtain ⟨b, -, rfl⟩ := List.mem_map.mp hx
  exact T_of_long ts lag h a b

/-! ### a zero matrix has only the eigenvalue 0 -/

theorem cmul_zero_right (z : Eigen.C) : Eigen.cmul z (Eigen.cofRat 0) = (0, 0) := by
  simp [Eigen.cmul, Eigen.cofRat]

theorem csum_zero (l : List Eigen.C) (h : ∀ z ∈ l, z = (0, 0)) : Eigen.csum l = (0, 0) := by
  induction l with
  | nil => rfl
  | cons a t ih =>
    unfold Eigen.csum at ih ⊢
    rw [List.foldr_cons, ih (fun z hz => h z (List.mem_cons_of_mem _ hz)), h a List.mem_cons_self]
    simp [Eigen.cadd]

theorem colDot_zero (M : List (List Rat)) (hM : ∀ r ∈ M, ∀ x ∈ r, x = 0) (j : Nat) (v : List Eigen.C) :
    Eigen.colDot M j v = (0, 0) := by
  unfold Eigen.colDot
  apply csum_zero
  intro z hz
  obtain ⟨i, hi, rfl⟩ := List.getElem_of_mem hz
  rw [List.getElem_zipWith]
  rw [List.length_zipWith] at hi
  have h0 : (M[i]'(by omega)).getD j 0 = 0 := by
    rw [List.getD_eq_getElem?_getD]
    cases hj : (M[i]'(by omega))[j]? with
    | none => rfl
    | some x =>
      exact hM _ (List.getElem_mem _) x (List.mem_of_getElem? hj)
  rw [h0]
  exact cmul_zero_right _

theorem cmul_eq_zero (a z : Eigen.C) (hz : z ≠ (0, 0)) (h : Eigen.cmul a z = (0, 0)) : a = (0, 0) := by
  obtain ⟨a1, a2⟩ := a
  obtain ⟨c, d⟩ := z
  simp only [Eigen.cmul, Prod.mk.injEq] at h
  obtain ⟨h1, h2⟩ := h
  have hpos : 0 < c * c + d * d := by
    apply Its.sq_add_sq_pos
    rintro ⟨rfl, rfl⟩
    exact hz rfl
  have e1 : a1 * (c * c + d * d) = 0 := by
    have : a1 * (c * c + d * d) = c * (a1 * c - a2 * d) + d * (a1 * d + a2 * c) := by ring
    rw [this, h1, h2]; ring
  have e2 : a2 * (c * c + d * d) = 0 := by
    have : a2 * (c * c + d * d) = c * (a1 * d + a2 * c) - d * (a1 * c - a2 * d) := by ring
    rw [this, h1, h2]; ring
  rcases mul_eq_zero.mp e1 with h | h
  · rcases mul_eq_zero.mp e2 with h' | h'
    · rw [h, h']
    · exact absurd h' hpos.ne'
  · exact absurd h hpos.ne'

/-- a left eigenvalue of a matrix all of whose entries vanish is `0` -/
theorem left_eigenvalue_of_zero {M : List (List Rat)} (hM : ∀ r ∈ M, ∀ x ∈ r, x = 0) {lam : Cx} {v : List Cx}
    (h : CxLeftEigenpair M lam v) : lam = some (0, 0) := by
  obtain ⟨hsome, -, hlen, ⟨z, hz, hz0⟩, heq⟩ := h
  obtain ⟨j, hj, rfl⟩ := List.getElem_of_mem hz
  have hjM : j < M.length := by rw [← hlen]; exact hj
  have h1 := heq j hjM
  rw [colDot_zero M hM j] at h1
  have hget : (v.map Eigen.cxVal).getD j (0, 0) = (v.map Eigen.cxVal)[j] := by
    rw [List.getD_eq_getElem?_getD, List.getElem?_eq_getElem hj]; rfl
  rw [hget] at h1
  have := cmul_eq_zero _ _ hz0 h1.symm
  cases lam with
  | none => cases hsome
  | some c =>
    unfold Eigen.cxVal at this
    simp only [Option.getD_some] at this
    rw [this]

theorem replicate_entries_zero (n : Nat) : ∀ r ∈ List.replicate n (List.replicate n (0 : Rat)), ∀ x ∈ r, x = 0 := by
  intro r hr x hx
  rw [(List.mem_replicate.mp hr).2] at hx
  exact (List.mem_replicate.mp hx).2

/-- the entry computed from the eigenvalue `0` (also after `real_if_close`) is NaN -/
theorem entry_zero {log : List Cx → Py (List Cx)} {L : Cx → Cx} (hlog : LogContract log L) (τ : Int) :
    cxReal (entry τ L (some (0, 0))) = none := by
  rw [Its.entry_lexNonPos τ L hlog.nan 0 0 (Or.inr ⟨rfl, le_refl _⟩)]
  rfl

/-! ### rejections of the eigen-solver wrapper on the estimated matrix -/

theorem too_many_solver_error (eig : List (List Rat) → Py (List Cx × List (List Cx))) (argsort : List Cx → Py (List Int))
    (ts : Trajs) (lag : Nat) (h2 : 2 ≤ (states ts).length) (nvals : Int) (hn : ((states ts).length : Int) < nvals) :
    Gen.MsmLinalg.left_eigenvalues_n eig argsort (Msm.specT ts lag) nvals = .error .type := by
  have hsq := Eigen.square_transpose (specT_square ts lag) (by omega)
  rw [Eigen.left_eigenvalues_n_eq, Eigen.left_eigenvectors_n_eq,
    Eigen.eigenvectors_n_too_many _ nvals (Eigen.quadratic_of_square hsq h2) (by rw [hsq.1]; exact hn)]
  rfl

theorem one_state_solver_error (eig : List (List Rat) → Py (List Cx × List (List Cx))) (argsort : List Cx → Py (List Int))
    (ts : Trajs) (lag : Nat) (h1 : (states ts).length = 1) (nvals : Int) :
    Gen.MsmLinalg.left_eigenvalues_n eig argsort (Msm.specT ts lag) nvals = .error .type := by
  have hsq := Eigen.square_transpose (specT_square ts lag) (by omega)
  rw [Eigen.left_eigenvalues_n_eq, Eigen.left_eigenvectors_n_eq,
    Eigen.eigenvectors_n_not_quadratic _ nvals (by rw [Eigen.npShape0_of_square hsq, h1]; simp)]
  rfl

/-! ### `mapM` -/

theorem mapM_congr {α β : Type} (f g : α → Py β) : ∀ (xs : List α), (∀ x ∈ xs, f x = g x) → xs.mapM f = xs.mapM g := by
  intro xs
  induction xs with
  | nil => intro _; rfl
  | cons x xs ih =>
    intro h
    rw [List.mapM_cons, List.mapM_cons, h x List.mem_cons_self, ih (fun y hy => h y (List.mem_cons_of_mem _ hy))]

end MsmVerif.Refine.ItsPlain
