/-
Lemmas/Mcmc.lean — helper lemmas for C07 (Markov-chain propagation).  All statements are about the exact
rational model `Model/Mcmc.lean`.
-/
import MsmVerif.Model.Mcmc
import Mathlib.Tactic.Linarith
import Mathlib.Algebra.Order.Ring.Rat
import Mathlib.Tactic.Ring
import Batteries.Data.List.Perm

namespace MsmVerif.Mcmc
open MsmVerif.Msm

theorem getD_of_lt {α : Type} (l : List α) (d : α) {k : Nat} (h : k < l.length) : l.getD k d = l[k] := by
  rw [List.getD_eq_getElem?_getD, List.getElem?_eq_getElem h]
  rfl

/-! ### `step`: first breakpoint exceeding the draw -/

/-- if some breakpoint exceeds `u` there is a first one -/
theorem exists_first (cum : List Rat) (u : Rat) (h : ∃ c ∈ cum, u < c) :
    ∃ k, ∃ hk : k < cum.length, u < cum[k] ∧ ∀ j (hj : j < k), cum[j] ≤ u := by
  induction cum with
  | nil => simp at h
  | cons x xs ih =>
    by_cases hx : u < x
    · exact ⟨0, by simp, by simpa using hx, by intro j hj; omega⟩
    · have h' : ∃ c ∈ xs, u < c := by
        obtain ⟨c, hc, huc⟩ := h
        rcases List.mem_cons.mp hc with rfl | hc
        · exact absurd huc hx
        · exact ⟨c, hc, huc⟩
      obtain ⟨k, hk, h1, h2⟩ := ih h'
      refine ⟨k + 1, by simp only [List.length_cons]; omega, by simpa using h1, ?_⟩
      intro j hj
      cases j with
      | zero => simpa using not_lt.mp hx
      | succ j => simpa using h2 j (by omega)

/-- the linear search of `step` returns the first column whose breakpoint exceeds `u` -/
theorem find_of_first (cum : List Rat) (perm : List Nat) (u : Rat) (hlen : perm.length = cum.length)
    (k : Nat) (hk : k < cum.length) (hu : u < cum[k]) (hbefore : ∀ j (hj : j < k), cum[j] ≤ u) :
    (cum.zip perm).find? (fun cp => decide (u < cp.1)) = some (cum[k], perm[k]'(by omega)) := by
  rw [List.find?_eq_some_iff_getElem]
  refine ⟨by simpa using hu, k, by simp only [List.length_zip]; omega, by simp, ?_⟩
  intro j hj
  have := hbefore j hj
  simpa [List.getElem_zip] using this

theorem step_of_first (cum : List Rat) (perm : List Nat) (u : Rat) (hlen : perm.length = cum.length)
    (k : Nat) (hk : k < cum.length) (hu : u < cum[k]) (hbefore : ∀ j (hj : j < k), cum[j] ≤ u) :
    step cum perm u = perm[k]'(by omega) := by
  simp only [step, find_of_first cum perm u hlen k hk hu hbefore]

/-- a non-decreasing list in index form -/
theorem mono_getElem {cum : List Rat} (hmono : cum.Pairwise (· ≤ ·)) {j k : Nat} (hjk : j ≤ k)
    (hk : k < cum.length) : cum[j]'(by omega) ≤ cum[k] := by
  rcases Nat.lt_or_eq_of_le hjk with h | rfl
  · exact (List.pairwise_iff_getElem.mp hmono) j k (by omega) hk h
  · exact le_refl _

theorem getLastD_eq_getElem (cum : List Rat) (h : cum ≠ []) :
    cum.getLastD 0 = cum[cum.length - 1]'(by have := List.length_pos_iff.mpr h; omega) := by
  cases cum with
  | nil => exact absurd rfl h
  | cons x xs =>
    rw [List.getLastD_eq_getLast?, List.getLast?_eq_getElem?]
    simp

/-- with `0 ≤ u < last breakpoint` some breakpoint exceeds `u` -/
theorem exists_gt_of_lt_last (cum : List Rat) (u : Rat) (h0 : 0 ≤ u) (hlast : u < cum.getLastD 0) :
    ∃ c ∈ cum, u < c := by
  by_cases hc : cum = []
  · subst hc
    simp only [List.getLastD_nil] at hlast
    exact absurd hlast (not_lt.mpr h0)
  · rw [getLastD_eq_getElem cum hc] at hlast
    exact ⟨_, List.getElem_mem _, hlast⟩

theorem intervalOf_zero (cum : List Rat) : intervalOf cum 0 = (0, cum.getD 0 0) := by
  simp [intervalOf]

theorem intervalOf_succ (cum : List Rat) (k : Nat) :
    intervalOf cum (k + 1) = (cum.getD k 0, cum.getD (k + 1) 0) := by
  simp [intervalOf]

/-- index form of "u lies in the interval of position k" for a non-decreasing row -/
theorem first_of_interval {cum : List Rat} (hmono : cum.Pairwise (· ≤ ·)) {u : Rat}
    {k : Nat} (hk : k < cum.length)
    (hlo : (intervalOf cum k).1 ≤ u) (hhi : u < (intervalOf cum k).2) :
    u < cum[k] ∧ ∀ j (hj : j < k), cum[j] ≤ u := by
  constructor
  · simpa [intervalOf, List.getD_eq_getElem?_getD, List.getElem?_eq_getElem hk] using hhi
  · intro j hj
    cases k with
    | zero => omega
    | succ k =>
      have hk' : k < cum.length := by omega
      have h1 : cum[k] ≤ u := by
        simpa [intervalOf, List.getD_eq_getElem?_getD, List.getElem?_eq_getElem hk'] using hlo
      exact le_trans (mono_getElem hmono (by omega) hk') h1

theorem interval_of_first {cum : List Rat} {u : Rat} (h0 : 0 ≤ u)
    {k : Nat} (hk : k < cum.length) (hu : u < cum[k]) (hbefore : ∀ j (hj : j < k), cum[j] ≤ u) :
    (intervalOf cum k).1 ≤ u ∧ u < (intervalOf cum k).2 := by
  constructor
  · cases k with
    | zero => simpa [intervalOf] using h0
    | succ k =>
      have hk' : k < cum.length := by omega
      simpa [intervalOf, List.getD_eq_getElem?_getD, List.getElem?_eq_getElem hk'] using
        hbefore k (by omega)
  · simpa [intervalOf, List.getD_eq_getElem?_getD, List.getElem?_eq_getElem hk] using hu

/-- the first exceeding index is unique -/
theorem first_unique {cum : List Rat} {u : Rat} {k k' : Nat} (hk : k < cum.length) (hk' : k' < cum.length)
    (hu : u < cum[k]) (hbefore : ∀ j (hj : j < k), cum[j] ≤ u)
    (hu' : u < cum[k']) (hbefore' : ∀ j (hj : j < k'), cum[j] ≤ u) : k = k' := by
  rcases Nat.lt_trichotomy k k' with h | h | h
  · exact absurd hu (not_lt.mpr (hbefore' k h))
  · exact h
  · exact absurd hu' (not_lt.mpr (hbefore k' h))

/-- `step` never leaves the entries of `perm` (or `0` through the `getD` default) -/
theorem step_lt (cum : List Rat) (perm : List Nat) (u : Rat) (n : Nat) (hn : 0 < n)
    (hperm : ∀ x ∈ perm, x < n) : step cum perm u < n := by
  unfold step
  split
  · next cp hcp =>
    have hmem := List.mem_of_find?_eq_some hcp
    obtain ⟨a, b⟩ := cp
    exact hperm _ (List.of_mem_zip hmem).2
  · rw [List.getD_eq_getElem?_getD]
    cases h : perm[argmax cum]? with
    | none => simpa using hn
    | some x => exact hperm x (List.mem_of_getElem? h)

/-! ### cumulative sums -/

@[simp] theorem length_cumsum (l : List Rat) : (cumsum l).length = l.length := by
  induction l with
  | nil => rfl
  | cons x xs ih => simp [cumsum, ih]

theorem getElem_cumsum (l : List Rat) (k : Nat) (hk : k < l.length) :
    (cumsum l)[k]'(by simpa using hk) = (l.take (k + 1)).sum := by
  induction l generalizing k with
  | nil => simp at hk
  | cons x xs ih =>
    cases k with
    | zero => simp [cumsum]
    | succ k =>
      simp only [cumsum, List.getElem_cons_succ, List.getElem_map, List.take_succ_cons, List.sum_cons]
      rw [ih k (by simpa using hk)]
      ring

theorem sum_take_add_sum_drop (l : List Rat) (j : Nat) : (l.take j).sum + (l.drop j).sum = l.sum := by
  induction l generalizing j with
  | nil => simp
  | cons x xs ih =>
    cases j with
    | zero => simp
    | succ j =>
      simp only [List.take_succ_cons, List.drop_succ_cons, List.sum_cons]
      rw [← ih j]; ring

theorem sum_eq_zero_of_all_zero (l : List Rat) (h : ∀ y ∈ l, y = 0) : l.sum = 0 := by
  induction l with
  | nil => rfl
  | cons x xs ih =>
    simp only [List.sum_cons]
    rw [h x (by simp), ih (fun y hy => h y (by simp [hy]))]
    ring

theorem sum_nonneg (l : List Rat) (h : ∀ y ∈ l, 0 ≤ y) : 0 ≤ l.sum := by
  induction l with
  | nil => simp
  | cons x xs ih =>
    simp only [List.sum_cons]
    have := h x (by simp)
    have := ih (fun y hy => h y (by simp [hy]))
    linarith

theorem perm_sum {l₁ l₂ : List Rat} (h : l₁.Perm l₂) : l₁.sum = l₂.sum := by
  induction h with
  | nil => rfl
  | cons x _ ih => simp only [List.sum_cons, ih]
  | swap x y l => simp only [List.sum_cons]; ring
  | trans _ _ ih1 ih2 => exact ih1.trans ih2

/-- consecutive differences of the running sums are the summands -/
theorem cumsum_succ_sub (l : List Rat) (k : Nat) (hk : k + 1 < l.length) :
    (cumsum l)[k + 1]'(by simpa using hk) - (cumsum l)[k]'(by simp; omega) = l[k + 1] := by
  rw [getElem_cumsum l (k + 1) hk, getElem_cumsum l k (by omega)]
  rw [List.take_succ_eq_append_getElem hk, List.sum_append]
  simp

theorem cumsum_zero (l : List Rat) (h : 0 < l.length) : (cumsum l)[0]'(by simpa using h) = l[0] := by
  rw [getElem_cumsum l 0 h]
  cases l with
  | nil => simp at h
  | cons x xs => simp

/-- interval lengths of the running sums are the summands -/
theorem interval_cumsum (l : List Rat) (k : Nat) (hk : k < l.length) :
    (intervalOf (cumsum l) k).2 - (intervalOf (cumsum l) k).1 = l[k] := by
  have hlen := length_cumsum l
  cases k with
  | zero =>
    rw [intervalOf_zero]
    simp only [List.getD_eq_getElem?_getD]
    rw [List.getElem?_eq_getElem (by omega)]
    simp [cumsum_zero l hk]
  | succ k =>
    rw [intervalOf_succ]
    simp only [List.getD_eq_getElem?_getD]
    rw [List.getElem?_eq_getElem (by omega), List.getElem?_eq_getElem (by omega)]
    simpa using cumsum_succ_sub l k hk

theorem cumsum_nonneg (l : List Rat) (h : ∀ y ∈ l, 0 ≤ y) : ∀ c ∈ cumsum l, 0 ≤ c := by
  intro c hc
  obtain ⟨k, hk, rfl⟩ := List.getElem_of_mem hc
  rw [getElem_cumsum l k (by simpa using hk)]
  exact sum_nonneg _ (fun y hy => h y (List.mem_of_mem_take hy))

/-- running sums of non-negative numbers are non-decreasing -/
theorem cumsum_mono (l : List Rat) (h : ∀ y ∈ l, 0 ≤ y) : (cumsum l).Pairwise (· ≤ ·) := by
  rw [List.pairwise_iff_getElem]
  intro i j hi hj hij
  have hj' : j < l.length := by simpa using hj
  rw [getElem_cumsum l i (by omega), getElem_cumsum l j hj']
  have hsplit := sum_take_add_sum_drop (l.take (j + 1)) (i + 1)
  rw [List.take_take, Nat.min_eq_left (by omega)] at hsplit
  have : 0 ≤ ((l.take (j + 1)).drop (i + 1)).sum :=
    sum_nonneg _ (fun y hy => h y (List.mem_of_mem_take (List.mem_of_mem_drop hy)))
  linarith

theorem cumsum_last (l : List Rat) (h : l ≠ []) : (cumsum l).getLastD 0 = l.sum := by
  have hpos := List.length_pos_iff.mpr h
  have hc : cumsum l ≠ [] := by
    apply List.ne_nil_of_length_pos; simpa using hpos
  rw [getLastD_eq_getElem _ hc]
  rw [getElem_cumsum l _ (by simp; omega)]
  simp only [length_cumsum]
  rw [show l.length - 1 + 1 = l.length by omega, List.take_length]

/-! ### sorted probability rows -/

theorem nonIncreasing_iff_pairwise (l : List Rat) :
    nonIncreasing l = true ↔ l.Pairwise (fun a b => b ≤ a) := by
  induction l with
  | nil => simp [nonIncreasing]
  | cons x xs ih =>
    cases xs with
    | nil => simp [nonIncreasing]
    | cons y ys =>
      simp only [nonIncreasing, Bool.and_eq_true, decide_eq_true_eq, ih]
      constructor
      · rintro ⟨hyx, hp⟩
        refine List.pairwise_cons.mpr ⟨?_, hp⟩
        intro z hz
        rcases List.mem_cons.mp hz with rfl | hz
        · exact hyx
        · exact le_trans ((List.pairwise_cons.mp hp).1 z hz) hyx
      · intro hp
        have := List.pairwise_cons.mp hp
        exact ⟨this.1 y (by simp), this.2⟩

/-- in a non-increasing non-negative list everything after the first `m` positions is zero, `m` the number of
non-zero entries -/
theorem drop_zero_of_sorted (l : List Rat) (hnn : ∀ p ∈ l, 0 ≤ p) (hs : l.Pairwise (fun a b => b ≤ a))
    (j : Nat) (hj : (l.filter (fun p => p != 0)).length ≤ j) : ∀ y ∈ l.drop j, y = 0 := by
  induction l generalizing j with
  | nil => simp
  | cons x xs ih =>
    have hp := List.pairwise_cons.mp hs
    cases j with
    | zero =>
      have hnil : (x :: xs).filter (fun p => p != 0) = [] := List.eq_nil_of_length_eq_zero (by omega)
      intro y hy
      have := (List.filter_eq_nil_iff.mp hnil) y (by simpa using hy)
      simpa using this
    | succ j =>
      intro y hy
      simp only [List.drop_succ_cons] at hy
      by_cases hx : x = 0
      · have hyxs := List.mem_of_mem_drop hy
        have h1 := hp.1 y hyxs
        have h2 := hnn y (by simp [hyxs])
        rw [hx] at h1
        exact le_antisymm h1 h2
      · have hfil : (x :: xs).filter (fun p => p != 0) = x :: xs.filter (fun p => p != 0) := by
          simp [hx]
        rw [hfil] at hj
        simp only [List.length_cons] at hj
        exact ih (fun p hp' => hnn p (by simp [hp'])) hp.2 j (by omega) y hy

theorem perm_of_isPermOfRange (order : List Nat) (n : Nat) (h : isPermOfRange order n = true) :
    order.Perm (List.range n) := by
  simp only [isPermOfRange, Bool.and_eq_true, beq_iff_eq, List.all_eq_true, List.mem_range,
    List.contains_iff_mem] at h
  obtain ⟨hl, hall⟩ := h
  have hsub : List.range n ⊆ order := by
    intro i hi
    exact hall i (List.mem_range.mp hi)
  have hsp := List.subperm_of_subset List.nodup_range hsub
  exact (hsp.perm_of_length_le (by simp [hl])).symm

theorem map_getD_range (row : List Rat) : (List.range row.length).map (fun j => row.getD j 0) = row := by
  apply List.ext_getElem
  · simp
  · intro i h1 h2
    simp [List.getD_eq_getElem?_getD, List.getElem?_eq_getElem h2]

/-- the probabilities visited in `order` are a rearrangement of the row -/
theorem perm_ps (row : List Rat) (order : List Nat) (h : isPermOfRange order row.length = true) :
    (order.map (fun j => row.getD j 0)).Perm row := by
  have := (perm_of_isPermOfRange order row.length h).map (fun j => row.getD j 0)
  rwa [map_getD_range] at this

/-- In exact arithmetic the forcing to 1 of `_get_cummat` changes nothing: for a probability row visited in
non-increasing order the cumulative row is just the running sum. -/
theorem cumRow_eq_cumsum (row : List Rat) (order : List Nat)
    (hnn : ∀ p ∈ row, 0 ≤ p) (hsum : row.sum = 1)
    (hperm : isPermOfRange order row.length = true)
    (hsort : nonIncreasing (order.map (fun j => row.getD j 0)) = true) :
    cumRow row order = cumsum (order.map (fun j => row.getD j 0)) := by
  have hps := perm_ps row order hperm
  generalize hpsdef : order.map (fun j => row.getD j 0) = ps at *
  have hpsnn : ∀ p ∈ ps, 0 ≤ p := fun p hp => hnn p (hps.mem_iff.mp hp)
  have hpssum : ps.sum = 1 := (perm_sum hps).trans hsum
  have hfil : (ps.filter (fun p => p != 0)).length = (row.filter (fun p => p != 0)).length :=
    (hps.filter _).length_eq
  have hsorted := (nonIncreasing_iff_pairwise ps).mp hsort
  unfold cumRow
  simp only [hpsdef]
  apply List.ext_getElem
  · simp
  · intro k h1 h2
    have hk : k < ps.length := by simpa using h2
    simp only [List.getElem_map, List.getElem_range, length_cumsum]
    rw [List.getD_eq_getElem?_getD, List.getElem?_eq_getElem h2]
    split
    · next hcond =>
      have hle : (ps.filter (fun p => p != 0)).length ≤ k + 1 := by
        rw [hfil]
        rcases hcond with ⟨_, h⟩ | h
        · omega
        · have := List.length_filter_le (fun p => p != 0) ps
          rw [hfil] at this
          omega
      have hz := sum_eq_zero_of_all_zero _ (drop_zero_of_sorted ps hpsnn hsorted (k + 1) hle)
      have hsplit := sum_take_add_sum_drop ps (k + 1)
      rw [getElem_cumsum ps k hk]
      linarith
    · simp

/-! ### chains -/

@[simp] theorem length_chainFrom (cummat : List (List Rat)) (perm : List (List Nat)) (s : Nat) (us : List Rat) :
    (chainFrom cummat perm s us).length = us.length := by
  induction us generalizing s with
  | nil => rfl
  | cons u us ih => simp [chainFrom, ih]

theorem chainFrom_prefix (cummat : List (List Rat)) (perm : List (List Nat)) (s : Nat) (l₁ l₂ : List Rat)
    (h : l₁ <+: l₂) : chainFrom cummat perm s l₁ <+: chainFrom cummat perm s l₂ := by
  induction l₁ generalizing s l₂ with
  | nil => simp [chainFrom]
  | cons u l₁ ih =>
    cases l₂ with
    | nil => simp at h
    | cons v l₂ =>
      obtain ⟨rfl, h'⟩ := List.cons_prefix_cons.mp h
      simp only [chainFrom]
      exact List.cons_prefix_cons.mpr ⟨rfl, ih _ _ h'⟩

/-- each frame after the first is the `step` from the previous frame with the corresponding draw -/
theorem chainFrom_getElem (cummat : List (List Rat)) (perm : List (List Nat)) (s : Nat) (l : List Rat)
    (i : Nat) (hi : i < l.length) :
    (s :: chainFrom cummat perm s l)[i + 1]'(by simp; omega) =
      step (cummat.getD ((s :: chainFrom cummat perm s l)[i]'(by simp; omega)) [])
        (perm.getD ((s :: chainFrom cummat perm s l)[i]'(by simp; omega)) []) l[i] := by
  induction l generalizing s i with
  | nil => simp at hi
  | cons u l ih =>
    cases i with
    | zero => simp [chainFrom]
    | succ i =>
      have := ih (step (cummat.getD s []) (perm.getD s []) u) i (by simpa using hi)
      simpa [chainFrom] using this

theorem chainFrom_lt (cummat : List (List Rat)) (perm : List (List Nat)) (n : Nat)
    (hperm : ∀ s, s < n → ∀ x ∈ perm.getD s [], x < n) (s : Nat) (hs : s < n) (l : List Rat) :
    ∀ x ∈ chainFrom cummat perm s l, x < n := by
  induction l generalizing s with
  | nil => simp [chainFrom]
  | cons u l ih =>
    have h1 : step (cummat.getD s []) (perm.getD s []) u < n :=
      step_lt _ _ _ n (by omega) (hperm s hs)
    intro x hx
    simp only [chainFrom, List.mem_cons] at hx
    rcases hx with rfl | hx
    · exact h1
    · exact ih _ h1 x hx

/-! ### absolute value -/

theorem absQ_le_iff (x e : Rat) : absQ x ≤ e ↔ -e ≤ x ∧ x ≤ e := by
  unfold absQ
  split
  · constructor
    · intro h; constructor <;> linarith
    · rintro ⟨h1, h2⟩; linarith
  · constructor
    · intro h; constructor <;> linarith
    · rintro ⟨h1, h2⟩; linarith

/-! ### assembled facts used by Props/C07 -/

theorem find_isSome_of_lt_last (cum : List Rat) (perm : List Nat) (u : Rat) (hlen : perm.length = cum.length)
    (h0 : 0 ≤ u) (hlast : u < cum.getLastD 0) :
    ((cum.zip perm).find? (fun cp => decide (u < cp.1))).isSome = true := by
  obtain ⟨k, hk, h1, h2⟩ := exists_first cum u (exists_gt_of_lt_last cum u h0 hlast)
  rw [find_of_first cum perm u hlen k hk h1 h2]
  rfl

theorem identity_perm_aux (row : List Rat) (hnn : ∀ p ∈ row, 0 ≤ p) (hsum : row.sum = 1) :
    (cumsum row).length = row.length ∧
    (cumsum row).Pairwise (· ≤ ·) ∧
    (cumsum row).getLastD 0 = 1 ∧
    ∀ k, k < row.length →
      (intervalOf (cumsum row) k).2 - (intervalOf (cumsum row) k).1 = row.getD k 0 := by
  have hne : row ≠ [] := by
    rintro rfl
    simp at hsum
  refine ⟨length_cumsum row, cumsum_mono row hnn, (cumsum_last row hne).trans hsum, ?_⟩
  intro k hk
  rw [interval_cumsum row k hk, List.getD_eq_getElem?_getD, List.getElem?_eq_getElem hk]
  rfl

theorem cumRow_spec_aux (row : List Rat) (order : List Nat)
    (hnn : ∀ p ∈ row, 0 ≤ p) (hsum : row.sum = 1)
    (hperm : isPermOfRange order row.length = true)
    (hsort : nonIncreasing (order.map (fun j => row.getD j 0)) = true) :
    (cumRow row order).length = row.length ∧
    (cumRow row order).Pairwise (· ≤ ·) ∧
    (cumRow row order).getLastD 0 = 1 ∧
    ∀ k, k < row.length →
      (intervalOf (cumRow row order) k).2 - (intervalOf (cumRow row order) k).1
        = row.getD (order.getD k 0) 0 := by
  rw [cumRow_eq_cumsum row order hnn hsum hperm hsort]
  have hps := perm_ps row order hperm
  have hpsnn : ∀ p ∈ order.map (fun j => row.getD j 0), 0 ≤ p := fun p hp => hnn p (hps.mem_iff.mp hp)
  have hpssum : (order.map (fun j => row.getD j 0)).sum = 1 := (perm_sum hps).trans hsum
  obtain ⟨h1, h2, h3, h4⟩ := identity_perm_aux _ hpsnn hpssum
  have hl : (order.map (fun j => row.getD j 0)).length = row.length := hps.length_eq
  refine ⟨h1.trans hl, h2, h3, ?_⟩
  intro k hk
  rw [h4 k (by omega)]
  have hko : k < order.length := by simpa using (show k < (order.map (fun j => row.getD j 0)).length by omega)
  simp [List.getD_eq_getElem?_getD, List.getElem?_eq_getElem hko]

/-- breakpoints within `ε` give interval lengths within `2ε` -/
theorem interval_length_close (c c' : List Rat) (ε : Rat)
    (hclose : ∀ j, j < c.length → absQ (c'.getD j 0 - c.getD j 0) ≤ ε)
    (k : Nat) (hk : k < c.length) :
    absQ (((intervalOf c' k).2 - (intervalOf c' k).1) - ((intervalOf c k).2 - (intervalOf c k).1)) ≤ 2 * ε := by
  rw [absQ_le_iff]
  cases k with
  | zero =>
    have h := (absQ_le_iff _ _).mp (hclose 0 hk)
    simp only [intervalOf_zero]
    constructor <;> linarith [h.1, h.2]
  | succ k =>
    have h := (absQ_le_iff _ _).mp (hclose (k + 1) hk)
    have h' := (absQ_le_iff _ _).mp (hclose k (by omega))
    simp only [intervalOf_succ]
    constructor <;> linarith [h.1, h.2, h'.1, h'.2]

theorem chain_getD_succ (cummat : List (List Rat)) (perm : List (List Nat)) (start steps : Nat) (us : List Rat)
    (hus : steps - 1 ≤ us.length) (i : Nat) (hi : i + 1 < steps) :
    (chain cummat perm start steps us).getD (i + 1) 0 =
      step (cummat.getD ((chain cummat perm start steps us).getD i 0) [])
        (perm.getD ((chain cummat perm start steps us).getD i 0) []) (us.getD i 0) := by
  unfold chain
  rw [if_neg (by omega)]
  have hil : i < (us.take (steps - 1)).length := by simp only [List.length_take]; omega
  have h := chainFrom_getElem cummat perm start (us.take (steps - 1)) i hil
  have hiu : i < us.length := by omega
  rw [getD_of_lt _ 0 (by simp only [List.length_cons, length_chainFrom]; omega),
    getD_of_lt _ 0 (by simp only [List.length_cons, length_chainFrom]; omega),
    getD_of_lt us 0 hiu, h, List.getElem_take]

/-! ### float breakpoints accepted by `holdsCummat` -/

/-- in a non-increasing non-negative list everything from a zero entry on is zero -/
theorem drop_zero_of_getElem_zero (l : List Rat) (hnn : ∀ p ∈ l, 0 ≤ p) (hs : l.Pairwise (fun a b => b ≤ a))
    (k : Nat) (hk : k < l.length) (h : l[k] = 0) : ∀ y ∈ l.drop k, y = 0 := by
  intro y hy
  obtain ⟨j, hj, rfl⟩ := List.getElem_of_mem hy
  rw [List.getElem_drop]
  have hkj : k + j < l.length := by simp only [List.length_drop] at hj; omega
  apply le_antisymm _ (hnn _ (List.getElem_mem hkj))
  rcases Nat.eq_zero_or_pos j with rfl | hpos
  · simp [h]
  · have := (List.pairwise_iff_getElem.mp hs) k (k + j) hk hkj (by omega)
    rwa [h] at this

/-- what the oracle `holdsCummat` says about row `i` -/
theorem holdsCummat_row (T : RatMat) (cum : List (List Rat)) (perm : List (List Nat))
    (h : holdsCummat T cum perm = true) (i : Nat) (hi : i < T.length) :
    isPermOfRange (perm.getD i []) T.length = true ∧
    nonIncreasing ((perm.getD i []).map (fun j => (T.getD i []).getD j 0)) = true ∧
    (cum.getD i []).length = T.length ∧
    ∀ j, j < T.length → j < (cumRow (T.getD i []) (perm.getD i [])).length →
      ((cumRow (T.getD i []) (perm.getD i [])).getD j 0 = 1 → (cum.getD i []).getD j 0 = 1) ∧
      absQ ((cum.getD i []).getD j 0 - (cumRow (T.getD i []) (perm.getD i [])).getD j 0)
        ≤ (T.length : Rat) / 9007199254740992 := by
  simp only [holdsCummat, Bool.and_eq_true, List.all_eq_true, List.mem_range, beq_iff_eq] at h
  obtain ⟨_, hall⟩ := h
  obtain ⟨⟨⟨hperm, hsort⟩, hclen⟩, hzip⟩ := hall i hi
  refine ⟨hperm, hsort, hclen, ?_⟩
  intro j hjn hj
  have hj1 : j < (cum.getD i []).length := by omega
  have hmem : ((cum.getD i [])[j], (cumRow (T.getD i []) (perm.getD i []))[j]) ∈
      (cum.getD i []).zip (cumRow (T.getD i []) (perm.getD i [])) := by
    rw [List.mem_iff_getElem]
    exact ⟨j, by simp only [List.length_zip]; omega, by simp⟩
  have := hzip _ hmem
  rw [getD_of_lt _ 0 hj1, getD_of_lt _ 0 hj]
  split at this
  · next hb =>
    simp only at hb this
    rw [beq_iff_eq.mp this, hb]
    have hpos : (0 : Rat) ≤ (T.length : Rat) / 9007199254740992 :=
      div_nonneg (Nat.cast_nonneg _) (by norm_num)
    refine ⟨fun _ => rfl, ?_⟩
    rw [absQ_le_iff]; constructor <;> linarith
  · next hb =>
    simp only at hb
    exact ⟨fun h1 => absurd h1 hb, by simpa using this⟩

theorem holdsCummat_interval_aux (T : RatMat) (cum : List (List Rat)) (perm : List (List Nat))
    (h : holdsCummat T cum perm = true) (i : Nat) (hi : i < T.length)
    (hrowlen : (T.getD i []).length = T.length)
    (hnn : ∀ p ∈ T.getD i [], 0 ≤ p) (hsum : (T.getD i []).sum = 1)
    (k : Nat) (hk : k < T.length) :
    absQ (((intervalOf (cum.getD i []) k).2 - (intervalOf (cum.getD i []) k).1)
        - (T.getD i []).getD ((perm.getD i []).getD k 0) 0)
      ≤ 2 * ((T.length : Rat) / 9007199254740992) := by
  obtain ⟨hperm, hsort, hclen, hrow⟩ := holdsCummat_row T cum perm h i hi
  rw [← hrowlen] at hperm
  obtain ⟨hlen, _, _, hint⟩ := cumRow_spec_aux (T.getD i []) (perm.getD i []) hnn hsum hperm hsort
  rw [← hint k (by omega)]
  exact interval_length_close _ _ _ (fun j hj => (hrow j (by omega) hj).2) k (by omega)

theorem zero_never_float_aux (T : RatMat) (cum : List (List Rat)) (perm : List (List Nat))
    (h : holdsCummat T cum perm = true) (i : Nat) (hi : i < T.length)
    (hrowlen : (T.getD i []).length = T.length)
    (hnn : ∀ p ∈ T.getD i [], 0 ≤ p) (hsum : (T.getD i []).sum = 1)
    (u : Rat) (h0 : 0 ≤ u) (h1 : u < 1) :
    ((((cum.getD i []).zip (perm.getD i [])).find? (fun cp => decide (u < cp.1))).isSome = true) ∧
    0 < (T.getD i []).getD (step (cum.getD i []) (perm.getD i []) u) 0 := by
  obtain ⟨hperm, hsort, hclen, hrow⟩ := holdsCummat_row T cum perm h i hi
  generalize hrowdef : T.getD i [] = row at *
  generalize hcdef : cum.getD i [] = c at *
  generalize horddef : perm.getD i [] = order at *
  rw [← hrowlen] at hperm
  have hex := cumRow_eq_cumsum row order hnn hsum hperm hsort
  have hps := perm_ps row order hperm
  obtain ⟨hexlen, _, hexlast, hexint⟩ := cumRow_spec_aux row order hnn hsum hperm hsort
  have hol : order.length = c.length := by
    rw [hclen, ← hrowlen]; exact (perm_of_isPermOfRange order _ hperm).length_eq.trans (by simp)
  -- the last float breakpoint is exactly 1
  have hcne : c ≠ [] := by apply List.ne_nil_of_length_pos; omega
  have hexne : cumRow row order ≠ [] := by apply List.ne_nil_of_length_pos; omega
  have hclast : c.getLastD 0 = 1 := by
    rw [getLastD_eq_getElem c hcne, ← getD_of_lt c 0 (by omega)]
    apply (hrow (c.length - 1) (by omega) (by omega)).1
    rw [getD_of_lt _ 0 (by omega)]
    rw [getLastD_eq_getElem _ hexne] at hexlast
    rw [← hexlast]
    congr 1
    omega
  have hlt : u < c.getLastD 0 := by rw [hclast]; exact h1
  refine ⟨find_isSome_of_lt_last c order u hol h0 hlt, ?_⟩
  obtain ⟨k, hk, h1', h2'⟩ := exists_first c u (exists_gt_of_lt_last c u h0 hlt)
  have hstep : step c order u = order.getD k 0 := by
    rw [step_of_first c order u hol k hk h1' h2', getD_of_lt]
  rw [hstep]
  -- suppose the state at position `k` has probability 0
  generalize hpsdef : order.map (fun j => row.getD j 0) = ps at *
  have hpsnn : ∀ p ∈ ps, 0 ≤ p := fun p hp => hnn p (hps.mem_iff.mp hp)
  have hpssum : ps.sum = 1 := (perm_sum hps).trans hsum
  have hpslen : ps.length = row.length := hps.length_eq
  have hkps : k < ps.length := by omega
  have hval : row.getD (order.getD k 0) 0 = ps[k] := by
    have hko : k < order.length := by omega
    subst hpsdef
    rw [getD_of_lt order 0 hko]
    simp [List.getD_eq_getElem?_getD]
  rw [hval]
  rcases lt_or_eq_of_le (hpsnn _ (List.getElem_mem hkps)) with hpos | hzero
  · exact hpos
  · exfalso
    have hsorted := (nonIncreasing_iff_pairwise ps).mp hsort
    have hz := sum_eq_zero_of_all_zero _ (drop_zero_of_getElem_zero ps hpsnn hsorted k hkps hzero.symm)
    have hsplit := sum_take_add_sum_drop ps k
    have htake : (ps.take k).sum = 1 := by linarith
    cases k with
    | zero => simp at htake
    | succ k =>
      have hexk : (cumRow row order).getD k 0 = 1 := by
        rw [getD_of_lt _ 0 (by omega)]
        simp only [hex]
        rw [getElem_cumsum ps k (by omega)]
        exact htake
      have hck : c.getD k 0 = 1 := (hrow k (by omega) (by omega)).1 hexk
      have := h2' k (by omega)
      rw [← getD_of_lt c 0 (by omega), hck] at this
      exact absurd h1 (not_lt.mpr this)

end MsmVerif.Mcmc
