/-
Model/Relabel.lean — executable model of the relabelling utilities of `src/msmhelper/utils/_utils.py`
(`shift_data` on every container structure, `rename_by_index`, `rename_by_population`, `unique`) and the
Spec of property C15 (simultaneous substitution).
-/
import MsmVerif.Model.Basic

namespace MsmVerif.Relabel

/-- container structure remembered by `_flatten_data` -/
inductive Shape where
  | flat                      -- list of numbers / 1-d array: stays 1-d
  | mat (rows cols : Nat)     -- 2-d array, C order
  | ragged (lens : List Nat)  -- list of arrays / lists
  deriving Repr, DecidableEq

/-- data = flattened values (C order / concatenation) + structure -/
structure Data where
  vals : List Int
  shape : Shape
  deriving Repr, DecidableEq

/-- `shift_data(array, val_old, val_new)` : structure preserved, values through the lookup table -/
def shiftData (d : Data) (old new : List Int) : Except Err Data :=
  (shiftFlat d.vals old new).map (fun v => { vals := v, shape := d.shape })

/-- Spec: simultaneous substitution — the LAST `k` with `old[k] = x` wins (numpy fancy assignment) -/
def subst (old new : List Int) (x : Int) : Int :=
  match ((old.zip new).reverse.find? (fun p => p.1 == x)) with
  | some p => p.2
  | none => x

/-- `unique(trajs)` -/
def unique (d : Data) : List Int := sortDedup d.vals

/-- `unique(trajs, return_counts=True)` -/
def uniqueCounts (d : Data) : List Int × List Nat :=
  let s := sortDedup d.vals
  (s, s.map (fun x => d.vals.count x))

/-- `rename_by_index(trajs, return_permutation=True)` -/
def renameByIndex (d : Data) : Except Err (Data × List Int) :=
  let s := sortDedup d.vals
  (shiftData d s ((List.range s.length).map (fun (i : Nat) => (i : Int)))).map (fun r => (r, s))

/-- `rename_by_population` for a given sorting permutation `perm` of the states (old labels in new order) -/
def renameByPopulationWith (d : Data) (perm : List Int) : Except Err (Data × List Int) :=
  (shiftData d perm ((List.range perm.length).map (fun (i : Nat) => (i : Int) + 1))).map (fun r => (r, perm))

def nonIncreasingNat : List Nat → Bool
  | [] => true
  | [_] => true
  | x :: y :: rest => decide (y ≤ x) && nonIncreasingNat (y :: rest)

/-- oracle for `shift_data` under the documented guard; outside the guard nothing is demanded -/
def guardOk (vals old new : List Int) : Bool :=
  match minimum? vals, maximum? vals, minimum? new, maximum? new with
  | some dmin, some dmax, some nmin, some nmax =>
    let off := min dmin nmin
    old.length == new.length &&
    old.all (fun o => decide (dmin ≤ o) && decide (o ≤ dmax)) &&
    decide (max dmax nmax - off < 2147483648) && decide (-2147483648 ≤ off)
  | _, _, _, _ => false

def holdsShift (d : Data) (old new : List Int) (obs : Except Err Data) : Bool :=
  if guardOk d.vals old new then
    match obs with
    | .ok o => o.shape == d.shape && o.vals == d.vals.map (subst old new)
    | .error _ => false
  else true

/-- oracle for `rename_by_index` -/
def holdsRenameIndex (d : Data) (obs : Except Err (Data × List Int)) : Bool :=
  match obs with
  | .ok (r, perm) =>
    perm == sortDedup d.vals && r.shape == d.shape &&
    r.vals == d.vals.map (fun x => (rank perm x : Int)) &&
    r.vals.map (fun i => perm.getD i.toNat 0) == d.vals
  | .error _ => false

/-- oracle for `rename_by_population`: labels `1..n`, populations non-increasing, `perm[renamed-1] = data` -/
def holdsRenamePop (d : Data) (obs : Except Err (Data × List Int)) : Bool :=
  match obs with
  | .ok (r, perm) =>
    let s := sortDedup d.vals
    perm.length == s.length && s.all (fun x => perm.contains x) && perm.all (fun x => s.contains x) &&
    nonIncreasingNat (perm.map (fun x => d.vals.count x)) &&
    r.shape == d.shape &&
    r.vals.all (fun v => decide (1 ≤ v) && decide (v ≤ perm.length)) &&
    r.vals.map (fun v => perm.getD (v - 1).toNat 0) == d.vals &&
    nonIncreasingNat ((List.range perm.length).map (fun (i : Nat) => r.vals.count ((i : Int) + 1)))
  | .error _ => false

end MsmVerif.Relabel
