"""C20 — smoothing filters are per-column, shape-preserving weighted averages."""
from fractions import Fraction

import numpy as np

import core

PID = 'C20'
ANCHORS = [('src/msmhelper/utils/filtering.py', ['runningmean', 'gaussian_filter']), ('src/msmhelper/utils/_utils.py', ['runningmean'])]
RULE = ('tables 1-60 rows (a few up to 500) x 1-6 columns and 1-d series of dyadic values incl. large dynamic range, sigma in (0,50] (several calls with '
        'different sigma in one process, also sigmas sharing a kernel radius), all windows 1..n odd and even, both runningmean entry points; >2-d / 2-d '
        'inputs to the rejecting functions. The Gaussian weights are the impulse response of the real 1-d filter at that sigma (validated: symmetric, '
        '>= 0, sum 1 within 1e-15, ratios exp(-k^2/2 sigma^2) within 1e-12); output compared with the exact rational weighted sum within '
        '1e-12(1 + local weighted mean of |x|); window 1 must be the exact identity. Non-trivial = length > kernel radius; distinct by (data, sigma/window).')
RELATION = 'gaussian_filter(x, sigma) = Filter.filtTable w x (w = impulse response), runningmean(x, w) = Filter.runningMean x w, within 1e-12(1+max|x|)'
TRUSTED = ['scipy kernel weights enter the model as a parameter (impulse response of the real filter), validated in Python against exp(-k^2/2sigma^2)']
PARTIAL = 'closeness of the weights to a Gaussian is checked in Python, not proved'


def _mk(kind, x, **kw):
    d = {'op': 'filter', 'kind': kind, 'x': x, 'src': 'rand'}
    d.update(kw)
    return d


def _vals(rng, n):
    mode = rng.choice(['small', 'small', 'int', 'wide', 'const'])
    if mode == 'const':
        c = rng.randint(-5, 5)
        return [float(c)] * n
    if mode == 'int':
        return [float(rng.randint(-20, 20)) for _ in range(n)]
    if mode == 'wide':
        v = [rng.uniform(-1, 1) for _ in range(n)]
        v[rng.randrange(n)] = rng.choice([1e6, -1e8, 1e12])
        return v
    return [round(rng.uniform(-3, 3) * 1024) / 1024 for _ in range(n)]


def cases(tier, rng, boost=1):
    yield _mk('gauss', [[1.0, 2.0], [3.0, -1.0], [0.5, 0.25], [4.0, 4.0]], sigma=2.0, prev_sigma=None, src='corpus')
    yield _mk('gauss', [[v] for v in [0.0, 1.0, 0.0, 0.0, 2.0, 0.0, 0.0, 0.0, 1.0]], sigma=2.1, prev_sigma=2.0, src='corpus', one_d=True)
    yield _mk('rm', [[1.5], [1e17], [1.25], [1.75], [2.0]], window=1, entry='filtering', src='corpus')
    # one huge value early, small values after it: entry i is the mean over ITS window only — an implementation through running totals of the whole series
    # carries the rounding error of the early value into every later entry
    spike = [[0.5], [0.25], [0.75], [1073741824.0]] + [[((k * 37) % 64) / 64.0] for k in range(40)]
    for w_ in (2, 3, 5, 8):
        yield _mk('rm', spike, window=w_, entry='filtering', src='corpus')
    yield _mk('rm', spike, window=4, entry='utils', src='corpus')
    n = {'quick': 300, 'thorough': 4000, 'search': 1000}[tier] * boost
    for i in range(n):
        r = rng.random()
        if r < 0.55:
            rows = rng.choice([1, 2, 3, 5, 9, 17, 33, 60]) if i % 50 else rng.choice([200, 500])
            cols = rng.randint(1, 6)
            x = [_vals(rng, cols) for _ in range(rows)]
            # make columns independent signals
            colsig = [_vals(rng, rows) for _ in range(cols)]
            x = [[colsig[c][r_] for c in range(cols)] for r_ in range(rows)]
            sigma = rng.choice([0.3, 0.5, 1.0, 2.0, 2.1, 3.7, 12.4, 12.5, 50.0]) if rows > 9 else rng.choice([0.3, 0.5, 1.0, 2.0, 2.1])
            prev = rng.choice([None, None, sigma + 0.1, sigma - 0.1 if sigma > 0.4 else sigma + 0.05])
            yield _mk('gauss', x, sigma=sigma, prev_sigma=prev, one_d=(cols == 1 and rng.random() < 0.5))
        elif r < 0.6:
            yield _mk('gauss3d', [[1.0, 2.0], [3.0, 4.0]], sigma=1.0, prev_sigma=None)
        elif r < 0.95:
            nrow = rng.randint(1, 40)
            x = [[v] for v in _vals(rng, nrow)]
            yield _mk('rm', x, window=rng.randint(1, nrow), entry=rng.choice(['filtering', 'utils']))
        else:
            yield _mk('rm2d', [[1.0, 2.0], [3.0, 4.0]], window=1, entry='filtering')


def _weights(sigma):
    """impulse response of the real 1-d filter: the kernel weights w_{-r..r} as exact dyadics (validated)"""
    import math
    from scipy.ndimage import gaussian_filter1d
    r = int(4.0 * sigma + 0.5)
    imp = np.zeros(4 * r + 5)
    c = len(imp) // 2
    imp[c] = 1.0
    resp = gaussian_filter1d(imp, sigma=sigma, mode='nearest')
    w = resp[c - r:c + r + 1]
    assert np.all(resp[:c - r] == 0) and np.all(resp[c + r + 1:] == 0), 'kernel radius'
    assert np.all(w >= 0) and np.allclose(w, w[::-1], rtol=0, atol=1e-17) and abs(float(np.sum(w)) - 1) < 1e-15, 'kernel shape'
    for k in range(r + 1):
        ref = math.exp(-0.5 * k * k / (sigma * sigma)) * w[r]
        assert abs(w[r + k] - ref) <= 1e-12, 'not gaussian'
    return [float(v) for v in w]


def real(case):
    import msmhelper as mh
    from msmhelper.utils import filtering
    x = np.array(case['x'], dtype=np.float64)

    def run():
        if case['kind'] in ('gauss', 'gauss3d'):
            if case.get('prev_sigma'):
                filtering.gaussian_filter(np.array(case['x'], dtype=np.float64), sigma=case['prev_sigma'])   # earlier call in the same process
            if case['kind'] == 'gauss3d':
                filtering.gaussian_filter(np.zeros((2, 2, 2)), sigma=case['sigma'])
                return 'accepted'
            arg = x[:, 0].copy() if case.get('one_d') else x.copy()
            before = arg.copy()
            res = np.asarray(filtering.gaussian_filter(arg, sigma=case['sigma']))
            if res.shape != arg.shape:
                raise AssertionError('shape changed')
            if not np.array_equal(before, arg):
                raise AssertionError('argument modified')
            res2 = res.reshape(len(res), -1)
            return {'out': [[core.rat_str(float(v)) for v in row] for row in res2], 'w': [core.rat_str(v) for v in _weights(case['sigma'])]}
        fn = filtering.runningmean if case['entry'] == 'filtering' else mh.utils.runningmean
        if case['kind'] == 'rm2d':
            fn(x, case['window'])
            return 'accepted'
        res = np.asarray(fn(x[:, 0].copy(), case['window']))
        if res.shape != (len(x),):
            raise AssertionError('length changed')
        return {'out': [[core.rat_str(float(v))] for v in res]}
    out = core.call(run)
    out.pop('msg', None)
    return out


def _tol(case):
    # relative to the magnitudes inside each window (the Lean oracle scales it by 1 + local weighted mean of |x|)
    return Fraction(1, 10 ** 12)


def request(case, obs):
    if 'err' in obs or obs.get('ok') == 'accepted':
        return {'op': 'ping'}
    x = [[core.rat_str(v) for v in row] for row in case['x']]
    if case['kind'] == 'gauss':
        return {'op': 'filter', 'kind': 'gauss', 'x': x, 'w': obs['ok']['w'], 'obs': obs['ok']['out'], 'tol': core.rat_str(_tol(case))}
    return {'op': 'filter', 'kind': 'rm', 'x': x, 'window': case['window'], 'obs': obs['ok']['out'], 'tol': core.rat_str(_tol(case))}


def agree(case, obs, reply):
    return holds(case, obs, reply)


def holds(case, obs, reply):
    if case['kind'] == 'gauss3d':
        return obs.get('err') == 'ValueError'
    if case['kind'] == 'rm2d':
        return obs.get('err') == 'ValueError' if case['entry'] == 'filtering' else True
    if 'err' in obs:
        return False
    return bool(reply.get('holds'))


def nontrivial(case, obs, reply):
    if case['kind'] == 'gauss':
        return 'ok' in obs and len(case['x']) > int(4 * case['sigma'] + 0.5)
    return case['kind'] == 'rm' and case['window'] > 1


def key(case):
    return [case['kind'], case['x'], case.get('sigma'), case.get('window')]


def classify(case, obs, reply):
    return '%s/%s' % (case['kind'], obs.get('err', 'ok'))


def known_match(k, case, obs, reply):
    return False
