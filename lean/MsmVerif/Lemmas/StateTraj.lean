/-
Lemmas/StateTraj.lean — helper lemmas about the shared definitions of Model/Basic.lean (core Lean only):
`sortDedup`/`states` (np.unique), `minimum?`/`maximum?`, `shiftFlat` (shift_data) as a substitution,
`rank`/`labelOf`, and the three-branch encoder `StateTraj.mk'` / decoder `StateTraj.trajs`.
-/
import MsmVerif.Model.Basic

namespace MsmVerif

/-! ### `sortDedup` : ascending, duplicate free, same members -/

theorem mem_insertSorted {x y : Int} {l : List Int} : y ∈ insertSorted x l ↔ y = x ∨ y ∈ l := by
  induction l with
  | nil => simp [insertSorted]
  | cons z zs ih =>
    simp only [insertSorted]
    split
    · simp
    · split
      · subst_vars; simp
      · simp only [List.mem_cons, ih]
        grind

theorem pairwise_insertSorted {x : Int} {l : List Int} (h : l.Pairwise (· < ·)) :
    (insertSorted x l).Pairwise (· < ·) := by
  induction l with
  | nil => simp [insertSorted]
  | cons z zs ih =>
    simp only [insertSorted]
    split
    · rw [List.pairwise_cons] at h ⊢
      refine ⟨?_, List.pairwise_cons.mpr h⟩
      intro a ha
      rcases List.mem_cons.mp ha with rfl | ha
      · assumption
      · have := h.1 a ha; omega
    · split
      · exact h
      · rw [List.pairwise_cons] at h ⊢
        refine ⟨?_, ih h.2⟩
        intro a ha
        rcases mem_insertSorted.mp ha with rfl | ha
        · omega
        · exact h.1 a ha

theorem sortDedup_pairwise (l : List Int) : (sortDedup l).Pairwise (· < ·) := by
  induction l with
  | nil => simp [sortDedup]
  | cons x xs ih => exact pairwise_insertSorted ih

theorem sortDedup_nodup (l : List Int) : (sortDedup l).Nodup :=
  (sortDedup_pairwise l).imp (fun h => Int.ne_of_lt h)

theorem mem_sortDedup {x : Int} {l : List Int} : x ∈ sortDedup l ↔ x ∈ l := by
  induction l with
  | nil => simp [sortDedup]
  | cons y ys ih =>
    show x ∈ insertSorted y (sortDedup ys) ↔ _
    rw [mem_insertSorted, ih, List.mem_cons]


/-! ### minimum? / maximum? -/

theorem foldl_min_le (l : List Int) (a : Int) :
    l.foldl min a ≤ a ∧ ∀ x ∈ l, l.foldl min a ≤ x := by
  induction l generalizing a with
  | nil => simp
  | cons y ys ih =>
    simp only [List.foldl_cons, List.mem_cons, forall_eq_or_imp]
    have h := ih (min a y)
    refine ⟨by omega, by omega, h.2⟩

theorem foldl_min_mem (l : List Int) (a : Int) :
    l.foldl min a = a ∨ l.foldl min a ∈ l := by
  induction l generalizing a with
  | nil => simp
  | cons y ys ih =>
    simp only [List.foldl_cons, List.mem_cons]
    rcases ih (min a y) with h | h
    · rw [h]; omega
    · exact Or.inr (Or.inr h)

theorem foldl_max_ge (l : List Int) (a : Int) :
    a ≤ l.foldl max a ∧ ∀ x ∈ l, x ≤ l.foldl max a := by
  induction l generalizing a with
  | nil => simp
  | cons y ys ih =>
    simp only [List.foldl_cons, List.mem_cons, forall_eq_or_imp]
    have h := ih (max a y)
    refine ⟨by omega, by omega, h.2⟩

theorem foldl_max_mem (l : List Int) (a : Int) :
    l.foldl max a = a ∨ l.foldl max a ∈ l := by
  induction l generalizing a with
  | nil => simp
  | cons y ys ih =>
    simp only [List.foldl_cons, List.mem_cons]
    rcases ih (max a y) with h | h
    · rw [h]; omega
    · exact Or.inr (Or.inr h)

theorem minimum?_spec {l : List Int} {m : Int} (h : minimum? l = some m) :
    m ∈ l ∧ ∀ x ∈ l, m ≤ x := by
  cases l with
  | nil => simp [minimum?] at h
  | cons y ys =>
    simp only [minimum?, Option.some.injEq] at h
    subst h
    have h1 := foldl_min_le ys y
    have h2 := foldl_min_mem ys y
    simp only [List.mem_cons, forall_eq_or_imp]
    exact ⟨h2, h1⟩

theorem maximum?_spec {l : List Int} {m : Int} (h : maximum? l = some m) :
    m ∈ l ∧ ∀ x ∈ l, x ≤ m := by
  cases l with
  | nil => simp [maximum?] at h
  | cons y ys =>
    simp only [maximum?, Option.some.injEq] at h
    subst h
    have h1 := foldl_max_ge ys y
    have h2 := foldl_max_mem ys y
    simp only [List.mem_cons, forall_eq_or_imp]
    exact ⟨h2, h1⟩

theorem minimum?_isSome {l : List Int} (h : l ≠ []) : ∃ m, minimum? l = some m := by
  cases l with
  | nil => exact absurd rfl h
  | cons y ys => exact ⟨_, rfl⟩

theorem maximum?_isSome {l : List Int} (h : l ≠ []) : ∃ m, maximum? l = some m := by
  cases l with
  | nil => exact absurd rfl h
  | cons y ys => exact ⟨_, rfl⟩

/-! ### wrap32 -/

theorem wrap32_of_range {v : Int} (h0 : -2147483648 ≤ v) (h1 : v < 2147483648) : wrap32 v = v := by
  unfold wrap32; omega

/-! ### assignAll -/

theorem assignAll_eq_foldl (ps : List (Int × Int)) (conv : List Int)
    (h : ∀ p ∈ ps, 0 ≤ p.1 ∧ p.1 < conv.length) :
    assignAll conv ps = some (ps.foldl (fun c p => c.set p.1.toNat p.2) conv) := by
  induction ps generalizing conv with
  | nil => rfl
  | cons p ps ih =>
    obtain ⟨o, v⟩ := p
    have hp := h (o, v) (List.mem_cons_self)
    simp only at hp
    simp only [assignAll, normIdx, hp.1, hp.2, if_true, List.foldl_cons]
    apply ih
    intro q hq
    simpa using h q (List.mem_cons_of_mem _ hq)

theorem getD_foldl_set (ps : List (Int × Int)) (conv : List Int) (i : Nat) (hi : i < conv.length) :
    (ps.foldl (fun c p => c.set p.1.toNat p.2) conv).getD i 0
      = ps.foldl (fun acc p => if p.1.toNat = i then p.2 else acc) (conv.getD i 0) := by
  induction ps generalizing conv with
  | nil => rfl
  | cons p ps ih =>
    simp only [List.foldl_cons]
    rw [ih _ (by simpa using hi)]
    congr 1
    simp only [List.getD_eq_getElem?_getD, List.getElem?_set]
    split
    · next h => subst h; simp [hi]
    · rfl

/-- `subst old new x` : `new[k]` for the LAST `k` with `old[k] = x` (pairs beyond the shorter list are
ignored), and `x` itself when `x` does not occur in `old`. -/
def subst (old new : List Int) (x : Int) : Int :=
  (old.zip new).foldl (fun acc p => if p.1 = x then p.2 else acc) x

theorem foldl_shift (old new : List Int) (off x a : Int) (hx : off ≤ x) (ho : ∀ o ∈ old, off ≤ o) :
    ((old.map (· - off)).zip (new.map (· - off))).foldl
        (fun acc p => if p.1.toNat = (x - off).toNat then p.2 else acc) (a - off)
      = (old.zip new).foldl (fun acc p => if p.1 = x then p.2 else acc) a - off := by
  induction old generalizing new a with
  | nil => simp
  | cons o os ih =>
    cases new with
    | nil => simp
    | cons n ns =>
      simp only [List.map_cons, List.zip_cons_cons, List.foldl_cons]
      have ho' := ho o List.mem_cons_self
      have : ((o - off).toNat = (x - off).toNat) ↔ o = x := by omega
      by_cases hox : o = x
      · simp only [hox, if_true]
        exact ih ns n (fun o' h' => ho o' (List.mem_cons_of_mem _ h'))
      · simp only [this, hox, if_false]
        exact ih ns a (fun o' h' => ho o' (List.mem_cons_of_mem _ h'))

theorem foldl_subst_mem (ps : List (Int × Int)) (x a : Int) :
    ps.foldl (fun acc p => if p.1 = x then p.2 else acc) a = a ∨
    ∃ p ∈ ps, ps.foldl (fun acc p => if p.1 = x then p.2 else acc) a = p.2 := by
  induction ps generalizing a with
  | nil => simp
  | cons p ps ih =>
    simp only [List.foldl_cons, List.mem_cons]
    rcases ih (if p.1 = x then p.2 else a) with h | ⟨q, hq, h⟩
    · rw [h]; split
      · exact Or.inr ⟨p, Or.inl rfl, rfl⟩
      · exact Or.inl rfl
    · exact Or.inr ⟨q, Or.inr hq, h⟩

theorem subst_eq_or_mem (old new : List Int) (x : Int) :
    subst old new x = x ∨ subst old new x ∈ new := by
  rcases foldl_subst_mem (old.zip new) x x with h | ⟨p, hp, h⟩
  · exact Or.inl h
  · right
    unfold subst
    rw [h]
    exact (List.of_mem_zip (a := p.1) (b := p.2) hp).2

/-- core form of `shiftFlat_eq_subst`, with the extrema named explicitly -/
theorem shiftFlat_eq_subst' {data old new : List Int} {dmin nmin dmax : Int}
    (hdmin : minimum? data = some dmin) (hnmin : minimum? new = some nmin)
    (hdmax : maximum? data = some dmax)
    (hlen : old.length = new.length)
    (hold : ∀ o ∈ old, min dmin nmin ≤ o ∧ o ≤ dmax)
    (h32 : ∀ x ∈ data ++ new, x - min dmin nmin < 2147483648) :
    shiftFlat data old new = .ok (data.map (subst old new)) := by
  have hdmin' := minimum?_spec hdmin
  have hnmin' := minimum?_spec hnmin
  have hdmax' := maximum?_spec hdmax
  unfold shiftFlat
  simp only [hdmin, hnmin, hdmax, hlen, ne_eq, not_true_eq_false, if_false]
  rw [assignAll_eq_foldl]
  · simp only [Except.ok.injEq]
    apply List.map_congr_left
    intro x hx
    have hx0 : min dmin nmin ≤ x := by have := hdmin'.2 x hx; omega
    have hx1 : x ≤ dmax := hdmax'.2 x hx
    rw [getD_foldl_set]
    · have hget : ((List.range (dmax - min dmin nmin + 1).toNat).map (fun (i : Nat) => (i : Int))).getD
          (x - min dmin nmin).toNat 0 = x - min dmin nmin := by
        rw [List.getD_eq_getElem?_getD, List.getElem?_map, List.getElem?_range (by omega)]
        simp only [Option.map_some, Option.getD_some]
        omega
      rw [hget, foldl_shift old new _ x x hx0 (fun o ho => (hold o ho).1)]
      show wrap32 (subst old new x - min dmin nmin) + min dmin nmin = subst old new x
      have hb : min dmin nmin ≤ subst old new x ∧ subst old new x - min dmin nmin < 2147483648 := by
        rcases subst_eq_or_mem old new x with h | h
        · rw [h]; exact ⟨hx0, h32 x (List.mem_append_left _ hx)⟩
        · refine ⟨?_, h32 _ (List.mem_append_right _ h)⟩
          have := hnmin'.2 _ h; omega
      rw [wrap32_of_range (by omega) hb.2]; omega
    · simp only [List.length_map, List.length_range]; omega
  · intro p hp
    simp only [List.length_map, List.length_range]
    obtain ⟨o, v⟩ := p
    have := (List.of_mem_zip hp).1
    simp only [List.mem_map] at this
    obtain ⟨o', ho', rfl⟩ := this
    have := hold o' ho'
    simp only
    omega

/-- `shift_data` is "replace by the lookup table": under the documented guard of the real code (data and
`new` non-empty, same number of old and new values, every old value between the table offset
`min (min data) (min new)` and `max data`) and if all values involved lie in a window `[lo, hi]` narrower
than `2^31` (so the `int32` cast is harmless), the result is `data.map (subst old new)`. -/
theorem shiftFlat_eq_subst {data old new : List Int} {lo hi : Int}
    (hdata : data ≠ []) (hnew : new ≠ []) (hlen : old.length = new.length)
    (hlow : ∀ o ∈ old, ∃ y ∈ data ++ new, y ≤ o)
    (hhigh : ∀ o ∈ old, ∃ y ∈ data, o ≤ y)
    (hwin : ∀ x ∈ data ++ new, lo ≤ x ∧ x ≤ hi) (hrange : hi - lo < 2147483648) :
    shiftFlat data old new = .ok (data.map (subst old new)) := by
  obtain ⟨dmin, hdmin⟩ := minimum?_isSome hdata
  obtain ⟨nmin, hnmin⟩ := minimum?_isSome hnew
  obtain ⟨dmax, hdmax⟩ := maximum?_isSome hdata
  have hdmin' := minimum?_spec hdmin
  have hnmin' := minimum?_spec hnmin
  have hdmax' := maximum?_spec hdmax
  apply shiftFlat_eq_subst' hdmin hnmin hdmax hlen
  · intro o ho
    obtain ⟨y, hy, hyo⟩ := hlow o ho
    obtain ⟨z, hz, hoz⟩ := hhigh o ho
    have := hdmax'.2 z hz
    rcases List.mem_append.mp hy with hy | hy
    · have := hdmin'.2 y hy; omega
    · have := hnmin'.2 y hy; omega
  · intro x hx
    have h1 := (hwin x hx).2
    have h2 := (hwin dmin (List.mem_append_left _ hdmin'.1)).1
    have h3 := (hwin nmin (List.mem_append_right _ hnmin'.1)).1
    omega

/-- non-vacuity: the hypotheses of `shiftFlat_eq_subst` hold on a concrete relabelling -/
example : shiftFlat [5, 7, 9, 7] [5, 9] [6, 5] = .ok ([5, 7, 9, 7].map (subst [5, 9] [6, 5])) :=
  shiftFlat_eq_subst (lo := 5) (hi := 9) (by decide) (by decide) (by decide) (by decide) (by decide)
    (by decide) (by decide)
example : [5, 7, 9, 7].map (subst [5, 9] [6, 5]) = [6, 7, 5, 7] := by decide

/-! ### `subst` characterisation -/

theorem foldl_subst_of_not_mem (ps : List (Int × Int)) (x a : Int) (h : ∀ p ∈ ps, p.1 ≠ x) :
    ps.foldl (fun acc p => if p.1 = x then p.2 else acc) a = a := by
  induction ps generalizing a with
  | nil => rfl
  | cons p ps ih =>
    simp only [List.foldl_cons, h p List.mem_cons_self, if_false]
    exact ih a (fun q hq => h q (List.mem_cons_of_mem _ hq))

theorem subst_of_not_mem {old new : List Int} {x : Int} (h : x ∉ old) : subst old new x = x := by
  apply foldl_subst_of_not_mem
  intro p hp hpx
  exact h (hpx ▸ (List.of_mem_zip (a := p.1) (b := p.2) hp).1)

theorem foldl_subst_last (old new : List Int) (x a : Int) (k : Nat)
    (hk : k < old.length) (hk' : k < new.length) (hx : old[k] = x)
    (hlast : ∀ j (hj : j < old.length), k < j → old[j] ≠ x) :
    (old.zip new).foldl (fun acc p => if p.1 = x then p.2 else acc) a = new[k] := by
  induction old generalizing new k a with
  | nil => simp at hk
  | cons o os ih =>
    cases new with
    | nil => simp at hk'
    | cons n ns =>
      simp only [List.zip_cons_cons, List.foldl_cons]
      cases k with
      | zero =>
        simp only [List.getElem_cons_zero] at hx ⊢
        simp only [hx, if_true]
        apply foldl_subst_of_not_mem
        intro p hp hpx
        obtain ⟨j, hj, hjx⟩ := List.getElem_of_mem (List.of_mem_zip (a := p.1) (b := p.2) hp).1
        exact hlast (j + 1) (by simpa using hj) (by omega) (by simpa [hjx] using hpx)
      | succ k =>
        simp only [List.getElem_cons_succ] at hx ⊢
        apply ih
        · exact hx
        · intro j hj hkj
          have := hlast (j + 1) (by simpa using hj) (by omega)
          simpa using this

/-- `subst old new x = new[k]` for the last `k` with `old[k] = x` -/
theorem subst_eq_last {old new : List Int} {x : Int} {k : Nat}
    (hk : k < old.length) (hk' : k < new.length) (hx : old[k] = x)
    (hlast : ∀ j (hj : j < old.length), k < j → old[j] ≠ x) :
    subst old new x = new[k] :=
  foldl_subst_last old new x x k hk hk' hx hlast

theorem subst_getElem_of_nodup {old new : List Int} (hnd : old.Nodup) {k : Nat}
    (hk : k < old.length) (hk' : k < new.length) : subst old new old[k] = new[k] := by
  apply subst_eq_last hk hk' rfl
  intro j hj hkj heq
  have := (List.pairwise_iff_getElem.mp hnd) k j hk hj hkj
  exact this heq.symm

/-! ### `rank` and `labelOf` -/

theorem rank_lt {ss : List Int} {x : Int} (h : x ∈ ss) : rank ss x < ss.length :=
  List.idxOf_lt_length_of_mem h

theorem mem_of_rank_lt {ss : List Int} {x : Int} (h : rank ss x < ss.length) : x ∈ ss :=
  List.idxOf_lt_length_iff.mp h

theorem getElem_rank {ss : List Int} {x : Int} (h : x ∈ ss) : ss[rank ss x]'(rank_lt h) = x :=
  List.getElem_idxOf (rank_lt h)

theorem labelOf_natCast (ss : List Int) (k : Nat) : labelOf ss (k : Int) = ss.getD k 0 := by
  simp [labelOf]

theorem labelOf_rank' {ss : List Int} {x : Int} (h : x ∈ ss) : labelOf ss (rank ss x : Int) = x := by
  rw [labelOf_natCast, List.getD_eq_getElem?_getD, List.getElem?_eq_getElem (rank_lt h), getElem_rank h]
  rfl

theorem labelOf_rank {ts : Trajs} {x : Int} (h : x ∈ states ts) :
    labelOf (states ts) (rank (states ts) x : Int) = x := labelOf_rank' h

theorem rank_getElem {ss : List Int} (hnd : ss.Nodup) {k : Nat} (hk : k < ss.length) :
    rank ss ss[k] = k := by
  have hm : ss[k] ∈ ss := List.getElem_mem hk
  have h1 := rank_lt hm
  have h2 := getElem_rank hm
  have hp := List.pairwise_iff_getElem.mp hnd
  rcases Nat.lt_trichotomy (rank ss ss[k]) k with h | h | h
  · exact absurd h2 (hp _ _ h1 hk h)
  · exact h
  · exact absurd h2.symm (hp _ _ hk h1 h)

theorem rank_inj {ss : List Int} {x y : Int} (hx : x ∈ ss) (h : rank ss x = rank ss y) : x = y := by
  have hy : y ∈ ss := mem_of_rank_lt (h ▸ rank_lt hx)
  have h1 := getElem_rank hx
  have h2 := getElem_rank hy
  simp only [h] at h1
  exact h1.symm.trans h2

theorem rank_lt_rank {ss : List Int} (hs : ss.Pairwise (· < ·)) {x y : Int} (hx : x ∈ ss) (hy : y ∈ ss)
    (hxy : x < y) : rank ss x < rank ss y := by
  have h1 := getElem_rank hx
  have h2 := getElem_rank hy
  have hp := List.pairwise_iff_getElem.mp hs
  rcases Nat.lt_trichotomy (rank ss x) (rank ss y) with h | h | h
  · exact h
  · have := rank_inj hx h; omega
  · have := hp _ _ (rank_lt hy) (rank_lt hx) h; omega

theorem rank_lt_rank_iff {ss : List Int} (hs : ss.Pairwise (· < ·)) {x y : Int} (hx : x ∈ ss) (hy : y ∈ ss) :
    rank ss x < rank ss y ↔ x < y := by
  refine ⟨fun h => ?_, rank_lt_rank hs hx hy⟩
  rcases Int.lt_trichotomy x y with h' | h' | h'
  · exact h'
  · subst h'; omega
  · have := rank_lt_rank hs hy hx h'; omega

/-- in a strictly ascending integer list the `k`-th entry is at least `first + k` -/
theorem add_le_getElem_of_pairwise {ss : List Int} (hs : ss.Pairwise (· < ·)) (k : Nat) (hk : k < ss.length) :
    ss[0]'(by omega) + (k : Int) ≤ ss[k] := by
  induction k with
  | zero => simp
  | succ k ih =>
    have := ih (by omega)
    have := List.pairwise_iff_getElem.mp hs k (k + 1) (by omega) hk (by omega)
    omega

/-! ### consecutive labels -/

/-- `[start, start+1, …, start+n-1]` -/
def arange (start : Int) (n : Nat) : List Int := (List.range n).map (fun (i : Nat) => start + (i : Int))

theorem isArange_iff {start : Int} {ss : List Int} : isArange start ss = true ↔ ss = arange start ss.length := by
  simp [isArange, arange]

theorem arange_nodup (start : Int) (n : Nat) : (arange start n).Nodup := by
  apply List.pairwise_iff_getElem.mpr
  intro i j hi hj hij
  simp only [arange, List.getElem_map, List.getElem_range]
  omega

theorem mem_arange {start x : Int} {n : Nat} : x ∈ arange start n ↔ start ≤ x ∧ x < start + n := by
  simp only [arange, List.mem_map, List.mem_range]
  constructor
  · rintro ⟨i, hi, rfl⟩; omega
  · rintro ⟨h0, h1⟩; exact ⟨(x - start).toNat, by omega, by omega⟩

theorem rank_arange {start x : Int} {n : Nat} (h : x ∈ arange start n) :
    rank (arange start n) x = (x - start).toNat := by
  have hx := mem_arange.mp h
  have hk : (x - start).toNat < (arange start n).length := by simp [arange]; omega
  have : (arange start n)[(x - start).toNat] = x := by
    simp only [arange, List.getElem_map, List.getElem_range]; omega
  rw [← rank_getElem (arange_nodup start n) hk, this]

/-! ### `unflatten` and maps over trajectories -/

theorem unflatten_map_flatten (ts : Trajs) (f : Int → Int) :
    unflatten (ts.map List.length) (ts.flatten.map f) = ts.map (·.map f) := by
  induction ts with
  | nil => rfl
  | cons t ts ih =>
    simp only [List.map_cons, List.flatten_cons, List.map_append, unflatten]
    rw [List.take_left' (by simp), List.drop_left' (by simp), ih]

theorem map_map_congr {ts : Trajs} {f g : Int → Int} (h : ∀ x ∈ ts.flatten, f x = g x) :
    ts.map (·.map f) = ts.map (·.map g) := by
  apply List.map_congr_left
  intro t ht
  apply List.map_congr_left
  intro x hx
  exact h x (List.mem_flatten.mpr ⟨t, ht, hx⟩)

theorem map_map_id {ts : Trajs} {f : Int → Int} (h : ∀ x ∈ ts.flatten, f x = x) :
    ts.map (·.map f) = ts := by
  rw [map_map_congr (g := id) h]; simp

theorem mem_states {ts : Trajs} {x : Int} : x ∈ states ts ↔ x ∈ ts.flatten := mem_sortDedup

theorem states_pairwise (ts : Trajs) : (states ts).Pairwise (· < ·) := sortDedup_pairwise _
theorem states_nodup (ts : Trajs) : (states ts).Nodup := sortDedup_nodup _

/-! ### `StateTraj.mk'` and `StateTraj.trajs` through all three branches -/

/-- index trajectories as ranks of the labels -/
def rankTrajs (ts : Trajs) : Trajs := ts.map (·.map (fun x => (rank (states ts) x : Int)))

/-- the 32-bit guard of the lookup-table branch in general form: all labels lie in `[lo, hi]` with `lo ≤ 0`
and `hi - 2*lo < 2^31` -/
structure LabelWindow (ts : Trajs) (lo hi : Int) : Prop where
  mem : ∀ x ∈ ts.flatten, lo ≤ x ∧ x ≤ hi
  lo_nonpos : lo ≤ 0
  narrow : hi - 2 * lo < 2147483648

theorem natCast_range_eq_arange (n : Nat) :
    (List.range n).map (fun (i : Nat) => (i : Int)) = arange 0 n := by
  simp [arange]

theorem rank_le_of_window {ts : Trajs} {lo hi : Int} (hw : LabelWindow ts lo hi) {k : Nat}
    (hk : k < (states ts).length) : (k : Int) ≤ hi - lo := by
  have h0 := add_le_getElem_of_pairwise (states_pairwise ts) k hk
  have h1 := hw.mem _ (mem_states.mp (List.getElem_mem (by omega : 0 < (states ts).length)))
  have h2 := hw.mem _ (mem_states.mp (List.getElem_mem hk))
  omega

theorem shiftFlat_states_eq_rank {ts : Trajs} {lo hi : Int} (hw : LabelWindow ts lo hi)
    (hne : ts.flatten ≠ []) :
    shiftFlat ts.flatten (states ts) (arange 0 (states ts).length)
      = .ok (ts.flatten.map (fun x => (rank (states ts) x : Int))) := by
  have hss : states ts ≠ [] := by
    obtain ⟨x, hx⟩ := List.exists_mem_of_ne_nil _ hne
    exact List.ne_nil_of_mem (mem_states.mpr hx)
  rw [shiftFlat_eq_subst (lo := lo) (hi := hi - lo) hne]
  · congr 1
    apply List.map_congr_left
    intro x hx
    have hx' := mem_states.mpr hx
    have := subst_getElem_of_nodup (new := arange 0 (states ts).length) (states_nodup ts)
      (rank_lt hx') (by simpa [arange] using rank_lt hx')
    rw [getElem_rank hx'] at this
    rw [this]
    simp [arange]
  · simpa [arange] using hss
  · simp [arange]
  · intro o ho; exact ⟨o, List.mem_append_left _ (mem_states.mp ho), Int.le_refl _⟩
  · intro o ho; exact ⟨o, mem_states.mp ho, Int.le_refl _⟩
  · intro x hx
    have := hw.lo_nonpos
    rcases List.mem_append.mp hx with hx | hx
    · have := hw.mem x hx; omega
    · have hx := mem_arange.mp hx
      have := rank_le_of_window hw (k := x.toNat) (by omega)
      omega
  · have := hw.narrow; omega

theorem mk'_eq_rank_of_window {ts : Trajs} {lo hi : Int} (hw : LabelWindow ts lo hi) :
    StateTraj.mk' ts = .ok ⟨rankTrajs ts, states ts⟩ := by
  unfold StateTraj.mk' rankTrajs
  simp only
  split
  · next h =>
    rw [isArange_iff] at h
    congr 2
    symm
    apply map_map_id
    intro x hx
    have hx' := mem_states.mpr hx
    rw [h] at hx' ⊢
    rw [rank_arange hx']
    have := mem_arange.mp hx'
    omega
  · split
    · next h =>
      rw [isArange_iff] at h
      congr 2
      apply map_map_congr
      intro x hx
      have hx' := mem_states.mpr hx
      rw [h] at hx' ⊢
      rw [rank_arange hx']
      have := mem_arange.mp hx'
      omega
    · next h0 _ =>
      have hne : ts.flatten ≠ [] := by
        intro he
        apply h0
        simp [states, he, sortDedup, isArange]
      rw [natCast_range_eq_arange]
      simp only [shiftTrajs, shiftFlat_states_eq_rank hw hne, Except.map, unflatten_map_flatten]

/-- the concrete 32-bit guard used throughout: every label lies in `[-2^29, 2^29]` -/
def LabelGuard (ts : Trajs) : Prop := ∀ x ∈ ts.flatten, -536870912 ≤ x ∧ x ≤ 536870912

instance (ts : Trajs) : Decidable (LabelGuard ts) := by unfold LabelGuard; infer_instance

theorem LabelGuard.window {ts : Trajs} (h : LabelGuard ts) : LabelWindow ts (-536870912) 536870912 :=
  ⟨h, by omega, by omega⟩

/-- non-negative labels below `2^31` also satisfy the general guard -/
theorem LabelWindow.of_nonneg {ts : Trajs} (h : ∀ x ∈ ts.flatten, 0 ≤ x ∧ x ≤ 2147483647) :
    LabelWindow ts 0 2147483647 := ⟨h, by omega, by omega⟩

/-- A.3 : the constructor returns the rank trajectories and the ascending distinct labels, through all
three branches (labels `0..n-1` copied, labels `1..n` minus one, lookup table otherwise). -/
theorem mk'_eq_rank {ts : Trajs} (hg : LabelGuard ts) :
    StateTraj.mk' ts
      = .ok ⟨ts.map (·.map (fun x => (rank (states ts) x : Int))), states ts⟩ :=
  mk'_eq_rank_of_window hg.window

theorem mem_rankTrajs_flatten {ts : Trajs} {y : Int} :
    y ∈ (rankTrajs ts).flatten ↔ ∃ x ∈ ts.flatten, (rank (states ts) x : Int) = y := by
  simp only [rankTrajs, ← List.map_flatten, List.mem_map]

theorem rankTrajs_map_length (ts : Trajs) : (rankTrajs ts).map List.length = ts.map List.length := by
  simp [rankTrajs]

theorem rankTrajs_map_map (ts : Trajs) (g : Int → Int) :
    (rankTrajs ts).map (·.map g) = ts.map (·.map (fun x => g (rank (states ts) x : Int))) := by
  simp [rankTrajs, List.map_map, Function.comp_def]

theorem natCast_mem_rankTrajs {ts : Trajs} {k : Nat} (hk : k < (states ts).length) :
    (k : Int) ∈ (rankTrajs ts).flatten :=
  mem_rankTrajs_flatten.mpr ⟨_, mem_states.mp (List.getElem_mem hk), by rw [rank_getElem (states_nodup ts) hk]⟩

theorem shiftFlat_rank_eq_label {ts : Trajs} {lo hi : Int} (hw : LabelWindow ts lo hi)
    (hne : ts.flatten ≠ []) :
    shiftFlat (rankTrajs ts).flatten (arange 0 (states ts).length) (states ts)
      = .ok ((rankTrajs ts).flatten.map (subst (arange 0 (states ts).length) (states ts))) := by
  obtain ⟨x0, hx0⟩ := List.exists_mem_of_ne_nil _ hne
  have hss : states ts ≠ [] := List.ne_nil_of_mem (mem_states.mpr hx0)
  have hdata : (rankTrajs ts).flatten ≠ [] :=
    List.ne_nil_of_mem (mem_rankTrajs_flatten.mpr ⟨x0, hx0, rfl⟩)
  have hmem : ∀ o ∈ arange 0 (states ts).length, o ∈ (rankTrajs ts).flatten := by
    intro o ho
    have ho := mem_arange.mp ho
    have := natCast_mem_rankTrajs (ts := ts) (k := o.toNat) (by omega)
    rwa [Int.toNat_of_nonneg ho.1] at this
  apply shiftFlat_eq_subst (lo := lo) (hi := hi - lo) hdata hss
  · simp [arange]
  · intro o ho; exact ⟨o, List.mem_append_left _ (hmem o ho), Int.le_refl _⟩
  · intro o ho; exact ⟨o, hmem o ho, Int.le_refl _⟩
  · intro x hx
    have := hw.lo_nonpos
    rcases List.mem_append.mp hx with hx | hx
    · obtain ⟨y, hy, rfl⟩ := mem_rankTrajs_flatten.mp hx
      have := rank_le_of_window hw (rank_lt (mem_states.mpr hy))
      omega
    · have := hw.mem x (mem_states.mp hx); omega
  · have := hw.narrow; omega

theorem subst_arange_rank {ss : List Int} {x : Int} (hx : x ∈ ss) :
    subst (arange 0 ss.length) ss (rank ss x : Int) = x := by
  have hk := rank_lt hx
  have hk' : rank ss x < (arange 0 ss.length).length := by simpa [arange] using hk
  have := subst_getElem_of_nodup (new := ss) (arange_nodup 0 ss.length) hk' hk
  have key : (arange 0 ss.length)[rank ss x] = (rank ss x : Int) := by simp [arange]
  rw [getElem_rank hx, key] at this
  exact this

theorem trajs_rank_of_window {ts : Trajs} {lo hi : Int} (hw : LabelWindow ts lo hi) :
    (⟨rankTrajs ts, states ts⟩ : StateTraj).trajs = .ok ts := by
  unfold StateTraj.trajs
  simp only
  split
  · next h =>
    rw [isArange_iff] at h
    congr 1
    rw [rankTrajs_map_map]
    apply map_map_id
    intro x hx
    have hx' := mem_states.mpr hx
    rw [h] at hx' ⊢
    rw [rank_arange hx']
    have := mem_arange.mp hx'
    omega
  · split
    · next h =>
      rw [isArange_iff] at h
      congr 1
      apply map_map_id
      intro x hx
      have hx' := mem_states.mpr hx
      rw [h] at hx' ⊢
      rw [rank_arange hx']
      have := mem_arange.mp hx'
      omega
    · next _ h0 =>
      have hne : ts.flatten ≠ [] := by
        intro he
        apply h0
        simp [states, he, sortDedup, isArange]
      rw [natCast_range_eq_arange]
      simp only [shiftTrajs, shiftFlat_rank_eq_label hw hne, Except.map, unflatten_map_flatten]
      congr 1
      rw [rankTrajs_map_map]
      apply map_map_id
      intro x hx
      exact subst_arange_rank (mem_states.mpr hx)

theorem trajs_roundtrip_of_window {ts : Trajs} {lo hi : Int} (hw : LabelWindow ts lo hi) {st : StateTraj}
    (h : StateTraj.mk' ts = .ok st) : st.trajs = .ok ts := by
  rw [mk'_eq_rank_of_window hw, Except.ok.injEq] at h
  subst h
  exact trajs_rank_of_window hw

/-- A.5 : decoding the encoded trajectories gives back the input (all three branches of both directions) -/
theorem trajs_roundtrip {ts : Trajs} (hg : LabelGuard ts) {st : StateTraj}
    (h : StateTraj.mk' ts = .ok st) : st.trajs = .ok ts :=
  trajs_roundtrip_of_window hg.window h

/-! non-vacuity: the guard holds on ordinary inputs and each of the three branches is exercised -/
example : LabelGuard [[3, 5, 3], [7], []] := by decide
example : StateTraj.mk' [[0, 1, 0], [2]] = .ok ⟨[[0, 1, 0], [2]], [0, 1, 2]⟩ := by rfl
example : StateTraj.mk' [[1, 2, 1], [3]] = .ok ⟨[[0, 1, 0], [2]], [1, 2, 3]⟩ := by rfl
example : StateTraj.mk' [[3, -5, 3], [7], []] = .ok ⟨[[1, 0, 1], [2], []], [-5, 3, 7]⟩ := by rfl
example : (⟨[[1, 0, 1], [2], []], [-5, 3, 7]⟩ : StateTraj).trajs = .ok [[3, -5, 3], [7], []] := by rfl
example : subst [1, 2, 1] [10, 20, 30] 1 = 30 ∧ subst [1, 2, 1] [10, 20, 30] 5 = 5 := by decide

end MsmVerif
