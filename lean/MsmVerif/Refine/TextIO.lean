/-
Refine/TextIO.lean — task RP25 (property C16): the functions of `msmhelper.io` / `utils.swapcols` TRANSLATED from Python compute what the
text-IO model (`Model/TextIO.lean`) says.
* `Gen.UtilsSwap.swapcols` : `ValueError` for index lists of different length, the table itself for equal lists, otherwise column
  `old[k]` := column `new[k]` (all other columns and the shape unchanged);
* `Gen.IoOpen.opentxt_cols_2d/_1d` (`opentxt(usecols=…)`, pandas branch): with `argsort` a sorting permutation and the parser contract for
  ascending column lists, the result is `TextIO.selectCols cols F` — the REQUESTED column order (= `TextIO.selectColsCode cols F`);
* `Gen.IoOpen.opentxt_all_*` (`usecols=None`), the guards of the four specialisations;
* `Gen.IoOpen.opentxt_limits_*` = `TextIO.splitLimits`; `Gen.IoOpen.openmicrostates_*`: dtype handling and the single-column check.
File names, `nrows` and dtypes are opaque integer tokens; `pandas.read_csv`, `np.argsort` and the data / limits readers are oracles.
Helper lemmas live in Refine/TextIOLemmas.lean.
-/
import MsmVerif.Refine.TextIOLemmas

namespace MsmVerif.Refine.TextIO
open MsmVerif MsmVerif.Gen

/-! ### 1. `swapcols` -/

/-- `swapcols(array, indicesold, indicesnew)` with index lists of different lengths raises `ValueError` — for every table and all
    index values. -/
theorem swapcols_unequal (array : List (List Int)) (old new : List Int) (h : new.length ≠ old.length) :
    Gen.UtilsSwap.swapcols array old new = .error .value := by
  rw [swapcols_head, if_pos h]

/-- `swapcols(array, idx, idx)`: equal index lists return the table itself — for every table (any shape) and all index values (they are
    not even range-checked). -/
theorem swapcols_same (array : List (List Int)) (idx : List Int) :
    Gen.UtilsSwap.swapcols array idx idx = .ok array := by
  rw [swapcols_head, if_neg (by simp), if_pos rfl]

/-- `swapcols` in closed form: for a rectangular table with ≥ 1 row and `c` columns, index lists of the same length with entries in
    `[0, c)` and `old` duplicate-free, no error is raised and every row `r` becomes `swapRow c old new r`: position `j` holds
    `r[new[k]]` if `j = old[k]`, and `r[j]` if `j` does not occur in `old`. -/
theorem swapcols_closed_form (array : List (List Int)) (c : Nat) (old new : List Nat) (hne : array ≠ [])
    (hrect : ∀ r ∈ array, r.length = c) (hold : ∀ j ∈ old, j < c) (hnew : ∀ j ∈ new, j < c) (hnd : old.Nodup)
    (hlen : old.length = new.length) :
    Gen.UtilsSwap.swapcols array (old.map Int.ofNat) (new.map Int.ofNat) = .ok (array.map (swapRow c old new)) :=
  swapcols_eq array c old new hne hrect hold hnew hnd hlen

/-- `swapcols` (same hypotheses): the result `res` has the shape of the input (same number of rows, every row `c` entries); in every row `i`
    column `old[k]` of the result is column `new[k]` of the input, and every column not listed in `old` is unchanged. -/
theorem swapcols_refines (array : List (List Int)) (c : Nat) (old new : List Nat) (hne : array ≠ [])
    (hrect : ∀ r ∈ array, r.length = c) (hold : ∀ j ∈ old, j < c) (hnew : ∀ j ∈ new, j < c) (hnd : old.Nodup)
    (hlen : old.length = new.length) :
    ∃ res, Gen.UtilsSwap.swapcols array (old.map Int.ofNat) (new.map Int.ofNat) = .ok res ∧
      res.length = array.length ∧ (∀ r ∈ res, r.length = c) ∧
      (∀ i k, i < array.length → k < old.length →
        (res.getD i []).getD (old.getD k 0) 0 = (array.getD i []).getD (new.getD k 0) 0) ∧
      (∀ i j, i < array.length → j < c → j ∉ old → (res.getD i []).getD j 0 = (array.getD i []).getD j 0) := by
  refine ⟨_, swapcols_eq array c old new hne hrect hold hnew hnd hlen, by simp, ?_, ?_, ?_⟩
  · intro r hr
    obtain ⟨row, _, rfl⟩ := List.mem_map.mp hr
    simp [swapRow]
  · intro i k hi hk
    have hko : old[k] < c := hold _ (List.getElem_mem _)
    have hidx : old.idxOf old[k] = k := TextIO.idxOf_getElem_nodup old hnd k hk
    have hmem : old[k] ∈ old := List.getElem_mem _
    simp only [List.getD_eq_getElem?_getD, List.getElem?_map, List.getElem?_eq_getElem hi, List.getElem?_eq_getElem hk,
      Option.map_some, Option.getD_some, swapRow, List.getElem?_range hko, hmem, if_true, hidx]
  · intro i j hi hj hjo
    simp only [List.getD_eq_getElem?_getD, List.getElem?_map, List.getElem?_eq_getElem hi,
      Option.map_some, Option.getD_some, swapRow, List.getElem?_range hj, hjo, if_false]

/-! non-vacuity: a 2×3 table, `old = [0,1,2]`, `new = [2,0,1]` -/

example : Gen.UtilsSwap.swapcols [[10, 11, 12], [20, 21, 22]] [0, 1, 2] [2, 0, 1] = .ok [[12, 10, 11], [22, 20, 21]] := by
  decide +kernel
example : ([[10, 11, 12], [20, 21, 22]] : List (List Int)) ≠ [] ∧ (∀ r ∈ ([[10, 11, 12], [20, 21, 22]] : List (List Int)), r.length = 3) ∧
    (∀ j ∈ ([0, 1, 2] : List Nat), j < 3) ∧ (∀ j ∈ ([2, 0, 1] : List Nat), j < 3) ∧ ([0, 1, 2] : List Nat).Nodup := by decide
example : Gen.UtilsSwap.swapcols [[10, 11, 12], [20, 21, 22]] (([0, 1, 2] : List Nat).map Int.ofNat) (([2, 0, 1] : List Nat).map Int.ofNat)
    = .ok [[12, 10, 11], [22, 20, 21]] := by
  rw [swapcols_closed_form _ 3 [0, 1, 2] [2, 0, 1] (by decide) (by decide) (by decide) (by decide) (by decide) rfl]
  decide
/-- a genuine swap of two columns of three (column 1 untouched) -/
example : Gen.UtilsSwap.swapcols [[10, 11, 12], [20, 21, 22]] [0, 2] [2, 0] = .ok [[12, 11, 10], [22, 21, 20]] := by decide +kernel
example : Gen.UtilsSwap.swapcols [[10, 11, 12]] [0, 2] [1] = .error .value := swapcols_unequal _ _ _ (by decide)

/-! ### 2. `opentxt(usecols=cols)` -/

/-- The list handed to the parser: if `np.argsort` answers with a permutation `p` of the positions that sorts `cols` (all below 2³¹, so
    `astype(int32)` is the identity), then `cols.astype(int32)[idx]` is the ascending list `sortAsc cols` of the model. -/
theorem opentxt_cols_parser_arg (cols p : List Nat) (h32 : ∀ c ∈ cols, c < 2147483648)
    (hperm : p.Perm (List.range cols.length)) (hasc : (p.map (fun k => cols.getD k 0)).Pairwise (· ≤ ·)) :
    npTake ((cols.map Int.ofNat).map npWrap32) (p.map Int.ofNat) = .ok ((TextIO.sortAsc cols).map Int.ofNat) ∧
    p.map (fun k => cols.getD k 0) = TextIO.sortAsc cols := by
  have hpb : ∀ k ∈ p, k < cols.length := fun k hk => List.mem_range.mp (hperm.mem_iff.mp hk)
  have hcs : p.map (fun k => cols.getD k 0) = TextIO.sortAsc cols := by
    apply List.Perm.eq_of_pairwise (le := (· ≤ ·)) (fun a b _ _ h1 h2 => Nat.le_antisymm h1 h2) hasc (TextIO.sortAsc_sorted cols)
    exact (perm_map_getD cols p hperm).trans (TextIO.sortAsc_perm cols).symm
  refine ⟨?_, hcs⟩
  rw [← hcs, map_wrap32 cols h32, npTake_nat _ 0 p (by simpa using hpb)]
  congr 1
  rw [List.map_map]
  apply List.map_congr_left
  intro k hk
  have := hpb k hk
  simp [List.getD_eq_getElem?_getD, this]

/-- `opentxt(file, usecols=cols)` for a list of distinct columns that does not consist of exactly one column (in particular ≥ 2 columns),
    in terms of the ONE parser call that is made.
    Hypotheses: the parsed file `F` has ≥ 1 row; the requested columns are below 2³¹; `np.argsort` answers with a permutation `p` of the
    positions that sorts `cols`; the parser (`pandas.read_csv(..., usecols=sortAsc cols)`) returns `selectCols (sortAsc cols) F` — the
    requested columns in ascending file order.
    Then no error is raised and the result is `selectCols cols F`: column `m` of the result is FILE column `cols[m]` — the requested order. -/
theorem opentxt_cols_2d_refines_call (rd : Int → Int → List Int → Py (List (List Int))) (argsort : List Int → Py (List Int))
    (file nrows : Int) (F : List (List Int)) (hF : F ≠ [])
    (cols p : List Nat) (hlen : cols.length ≠ 1) (h32 : ∀ c ∈ cols, c < 2147483648)
    (hsort : argsort (cols.map Int.ofNat) = .ok (p.map Int.ofNat))
    (hperm : p.Perm (List.range cols.length))
    (hasc : (p.map (fun k => cols.getD k 0)).Pairwise (· ≤ ·))
    (hread : rd file nrows ((TextIO.sortAsc cols).map Int.ofNat) = .ok (TextIO.selectCols (TextIO.sortAsc cols) F)) :
    Gen.IoOpen.opentxt_cols_2d rd argsort file nrows (cols.map Int.ofNat) = .ok (TextIO.selectCols cols F) := by
  have hpl : p.length = cols.length := by rw [hperm.length_eq, List.length_range]
  have hpb : ∀ k ∈ p, k < cols.length := fun k hk => List.mem_range.mp (hperm.mem_iff.mp hk)
  have hpn : p.Nodup := hperm.nodup_iff.mpr List.nodup_range
  obtain ⟨htake, hcs⟩ := opentxt_cols_parser_arg cols p h32 hperm hasc
  rw [opentxt_cols_2d_head, hsort]
  simp only [bind, Except.bind, htake, hread]
  have hs : ¬ npShape1 (TextIO.selectCols (TextIO.sortAsc cols) F) = 1 := by
    rw [selectCols_shape1 _ F hF, ← hcs, List.length_map, hpl]
    omega
  rw [if_neg hs]
  have har : npArange 0 (pyLen (p.map Int.ofNat)) = (List.range cols.length).map Int.ofNat := by
    rw [pyLen, List.length_map, hpl, Small.arange_eq]
  rw [har, swapcols_eq _ cols.length p (List.range cols.length)
    (by intro h; apply hF; simpa [TextIO.selectCols] using h)
    (by intro r hr; obtain ⟨row, _, rfl⟩ := List.mem_map.mp hr; simp [← hcs, hpl])
    hpb (fun j hj => List.mem_range.mp hj) hpn (by simp [hpl])]
  congr 1
  unfold TextIO.selectCols
  rw [List.map_map]
  apply List.map_congr_left
  intro row _
  rw [← hcs]
  exact swapRow_back cols p hperm row

/-- `opentxt(file, usecols=cols)` under the parser CONTRACT for ascending column lists.
    Hypotheses: the parsed file `F` has ≥ 1 row and width `w` (only used to restrict the contract to existing columns; `selectCols` reads a
    missing entry as 0, so rectangularity of `F` is not needed); the requested columns are distinct, `< w`, below 2³¹, and not exactly one;
    `np.argsort` answers with a sorting permutation `p`; the parser returns, for every STRICTLY ASCENDING list `cs` of columns `< w`, the
    table `selectCols cs F`.  Then no error is raised and the result is `selectCols cols F` — the REQUESTED column order. -/
theorem opentxt_cols_2d_refines (rd : Int → Int → List Int → Py (List (List Int))) (argsort : List Int → Py (List Int))
    (file nrows : Int) (F : List (List Int)) (w : Nat) (hF : F ≠ [])
    (cols p : List Nat) (hnd : cols.Nodup) (hlen : cols.length ≠ 1) (hw : ∀ c ∈ cols, c < w) (h32 : ∀ c ∈ cols, c < 2147483648)
    (hsort : argsort (cols.map Int.ofNat) = .ok (p.map Int.ofNat))
    (hperm : p.Perm (List.range cols.length))
    (hasc : (p.map (fun k => cols.getD k 0)).Pairwise (· ≤ ·))
    (hread : ∀ cs : List Nat, cs.Pairwise (· < ·) → (∀ c ∈ cs, c < w) →
      rd file nrows (cs.map Int.ofNat) = .ok (TextIO.selectCols cs F)) :
    Gen.IoOpen.opentxt_cols_2d rd argsort file nrows (cols.map Int.ofNat) = .ok (TextIO.selectCols cols F) := by
  have hs_nd : (TextIO.sortAsc cols).Nodup := (TextIO.sortAsc_perm cols).nodup_iff.mpr hnd
  have hs_asc : (TextIO.sortAsc cols).Pairwise (· < ·) :=
    ((TextIO.sortAsc_sorted cols).and hs_nd).imp (fun {a b} h => Nat.lt_of_le_of_ne h.1 h.2)
  have hs_w : ∀ c ∈ TextIO.sortAsc cols, c < w := fun c hc => hw c ((TextIO.mem_sortAsc c cols).mp hc)
  exact opentxt_cols_2d_refines_call rd argsort file nrows F hF cols p hlen h32 hsort hperm hasc (hread _ hs_asc hs_w)

/-- Same hypotheses: the result is also what the model of the CODE PATH (`selectColsCode`: ascending read, then swap back with
    `idx = argsort(cols)`) computes — `C16.usecols` identifies the two. -/
theorem opentxt_cols_2d_refines_code (rd : Int → Int → List Int → Py (List (List Int))) (argsort : List Int → Py (List Int))
    (file nrows : Int) (F : List (List Int)) (w : Nat) (hF : F ≠ [])
    (cols p : List Nat) (hnd : cols.Nodup) (hlen : cols.length ≠ 1) (hw : ∀ c ∈ cols, c < w) (h32 : ∀ c ∈ cols, c < 2147483648)
    (hsort : argsort (cols.map Int.ofNat) = .ok (p.map Int.ofNat))
    (hperm : p.Perm (List.range cols.length))
    (hasc : (p.map (fun k => cols.getD k 0)).Pairwise (· ≤ ·))
    (hread : ∀ cs : List Nat, cs.Pairwise (· < ·) → (∀ c ∈ cs, c < w) →
      rd file nrows (cs.map Int.ofNat) = .ok (TextIO.selectCols cs F)) :
    Gen.IoOpen.opentxt_cols_2d rd argsort file nrows (cols.map Int.ofNat) = .ok (TextIO.selectColsCode cols F) := by
  rw [C16.usecols cols hnd F]
  exact opentxt_cols_2d_refines rd argsort file nrows F w hF cols p hnd hlen hw h32 hsort hperm hasc hread

/-- `opentxt(file, usecols=[c])`, one requested column `c < 2³¹`: with `argsort([c]) = [0]` and the parser returning `selectCols [c] F`
    for the (non-empty) parsed file `F`, the result is the 1-d array of file column `c`. -/
theorem opentxt_cols_1d_refines (rd : Int → Int → List Int → Py (List (List Int))) (argsort : List Int → Py (List Int))
    (file nrows : Int) (F : List (List Int)) (hF : F ≠ []) (c : Nat) (h32 : c < 2147483648)
    (hsort : argsort [Int.ofNat c] = .ok [0])
    (hread : rd file nrows [Int.ofNat c] = .ok (TextIO.selectCols [c] F)) :
    Gen.IoOpen.opentxt_cols_1d rd argsort file nrows [Int.ofNat c] = .ok (F.map (fun row => row.getD c 0)) := by
  have htake : npTake ([Int.ofNat c].map npWrap32) [0] = .ok [Int.ofNat c] := by
    rw [List.map_cons, List.map_nil, npWrap32_small c h32]
    rfl
  rw [opentxt_cols_1d_head, hsort]
  simp only [bind, Except.bind, htake, hread]
  rw [if_pos (by rw [selectCols_shape1 _ F hF]; rfl)]
  congr 1
  rw [flatten_single_col _ (by intro r hr; obtain ⟨row, _, rfl⟩ := List.mem_map.mp hr; rfl)]
  simp [TextIO.selectCols]

/-- The data-dependent branch `array.shape[-1] == 1` as a guard of the two specialisations: whatever the oracles answer (`idx` from
    `argsort`, the column list `cs = cols.astype(int32)[idx]`, the table `A` from the parser), the multi-column specialisation
    `opentxt_cols_2d` on a 1-column answer and the single-column specialisation `opentxt_cols_1d` on an answer of any other width are
    `.error .other` (outside the specialisation's domain; never a Python behaviour). -/
theorem opentxt_cols_guard (rd : Int → Int → List Int → Py (List (List Int))) (argsort : List Int → Py (List Int))
    (file nrows : Int) (usecols idx cs : List Int) (A : List (List Int))
    (hsort : argsort usecols = .ok idx) (htake : npTake (usecols.map npWrap32) idx = .ok cs) (hread : rd file nrows cs = .ok A) :
    (npShape1 A = 1 → Gen.IoOpen.opentxt_cols_2d rd argsort file nrows usecols = .error .other) ∧
    (npShape1 A ≠ 1 → Gen.IoOpen.opentxt_cols_1d rd argsort file nrows usecols = .error .other) := by
  constructor
  · intro h
    rw [opentxt_cols_2d_head, hsort]
    simp only [bind, Except.bind, htake, hread]
    rw [if_pos h]
  · intro h
    rw [opentxt_cols_1d_head, hsort]
    simp only [bind, Except.bind, htake, hread]
    rw [if_neg h]

/-- Inside their domains the two specialisations are: the parser's answer swapped back (`opentxt_cols_2d`, answer not 1 column wide),
    the flattened answer (`opentxt_cols_1d`, answer 1 column wide) — for all oracle answers. -/
theorem opentxt_cols_domain (rd : Int → Int → List Int → Py (List (List Int))) (argsort : List Int → Py (List Int))
    (file nrows : Int) (usecols idx cs : List Int) (A : List (List Int))
    (hsort : argsort usecols = .ok idx) (htake : npTake (usecols.map npWrap32) idx = .ok cs) (hread : rd file nrows cs = .ok A) :
    (npShape1 A ≠ 1 → Gen.IoOpen.opentxt_cols_2d rd argsort file nrows usecols
        = Gen.UtilsSwap.swapcols A idx (npArange 0 (pyLen idx))) ∧
    (npShape1 A = 1 → Gen.IoOpen.opentxt_cols_1d rd argsort file nrows usecols = .ok A.flatten) := by
  constructor
  · intro h
    rw [opentxt_cols_2d_head, hsort]
    simp only [bind, Except.bind, htake, hread]
    rw [if_neg h]
  · intro h
    rw [opentxt_cols_1d_head, hsort]
    simp only [bind, Except.bind, htake, hread]
    rw [if_pos h]

/-- Errors of the oracles of `opentxt(usecols=…)` are passed on unchanged by both specialisations: an `argsort` error, and a parser
    error (e.g. a missing file) after `argsort` answered `idx` and the fancy read `cols[idx]` gave `cs`. -/
theorem opentxt_cols_errors (rd : Int → Int → List Int → Py (List (List Int))) (argsort : List Int → Py (List Int))
    (file nrows : Int) (usecols : List Int) (e : Err) :
    (argsort usecols = .error e →
      Gen.IoOpen.opentxt_cols_2d rd argsort file nrows usecols = .error e ∧
      Gen.IoOpen.opentxt_cols_1d rd argsort file nrows usecols = .error e) ∧
    (∀ idx cs, argsort usecols = .ok idx → npTake (usecols.map npWrap32) idx = .ok cs → rd file nrows cs = .error e →
      Gen.IoOpen.opentxt_cols_2d rd argsort file nrows usecols = .error e ∧
      Gen.IoOpen.opentxt_cols_1d rd argsort file nrows usecols = .error e) := by
  constructor
  · intro h
    rw [opentxt_cols_2d_head, opentxt_cols_1d_head, h]
    exact ⟨rfl, rfl⟩
  · intro idx cs h1 h2 h3
    rw [opentxt_cols_2d_head, opentxt_cols_1d_head, h1]
    simp only [bind, Except.bind, h2, h3]
    exact ⟨trivial, trivial⟩

/-! non-vacuity: `usecols = [2,0,1]` on the 2×3 file `[[10,11,12],[20,21,22]]`; the parser stand-in returns the columns it is asked for
(`[0,1,2]`), `argsort` returns `[1,2,0]` -/

example : Gen.IoOpen.opentxt_cols_2d (fun _ _ cs => .ok (TextIO.selectCols (cs.map Int.toNat) [[10, 11, 12], [20, 21, 22]]))
    (fun _ => .ok [1, 2, 0]) 7 0 [2, 0, 1] = .ok [[12, 10, 11], [22, 20, 21]] := by decide +kernel
example : Gen.IoOpen.opentxt_cols_2d (fun _ _ cs => .ok (TextIO.selectCols (cs.map Int.toNat) [[10, 11, 12], [20, 21, 22]]))
    (fun _ => .ok (([1, 2, 0] : List Nat).map Int.ofNat)) 7 0 (([2, 0, 1] : List Nat).map Int.ofNat)
    = .ok (TextIO.selectCols [2, 0, 1] [[10, 11, 12], [20, 21, 22]]) :=
  opentxt_cols_2d_refines _ _ 7 0 [[10, 11, 12], [20, 21, 22]] 3 (by decide) [2, 0, 1] [1, 2, 0]
    (by decide) (by decide) (by decide) (by decide) rfl (by decide) (by decide)
    (fun cs _ _ => by simp [Function.comp_def])
example : TextIO.selectCols [2, 0, 1] [[10, 11, 12], [20, 21, 22]] = [[12, 10, 11], [22, 20, 21]] := by decide
example : Gen.IoOpen.opentxt_cols_1d (fun _ _ cs => .ok (TextIO.selectCols (cs.map Int.toNat) [[10, 11, 12], [20, 21, 22]]))
    (fun _ => .ok [0]) 7 0 [1] = .ok [11, 21] := by decide +kernel
example : Gen.IoOpen.opentxt_cols_2d (fun _ _ cs => .ok (TextIO.selectCols (cs.map Int.toNat) [[10, 11, 12], [20, 21, 22]]))
    (fun _ => .ok [0]) 7 0 [1] = .error .other := by decide +kernel
example : Gen.IoOpen.opentxt_cols_1d (fun _ _ cs => .ok (TextIO.selectCols (cs.map Int.toNat) [[10, 11, 12], [20, 21, 22]]))
    (fun _ => .ok [1, 0]) 7 0 [2, 0] = .error .other := by decide +kernel

/-! ### 3. `opentxt(usecols=None)` -/

/-- `opentxt(file)` without `usecols`, the parser answering with the table `A`: the multi-column specialisation returns `A` itself when `A`
    is not exactly one column wide; the single-column specialisation returns the flattened `A` when it is one column wide — which for a
    table whose rows all have one entry is its column 0; outside these domains both are `.error .other` (the guard). -/
theorem opentxt_all_refines (rd : Int → Int → Py (List (List Int))) (file nrows : Int) (A : List (List Int))
    (hread : rd file nrows = .ok A) :
    (npShape1 A ≠ 1 → Gen.IoOpen.opentxt_all_2d rd file nrows = .ok A) ∧
    (npShape1 A = 1 → Gen.IoOpen.opentxt_all_1d rd file nrows = .ok A.flatten) ∧
    ((∀ r ∈ A, r.length = 1) → A ≠ [] → Gen.IoOpen.opentxt_all_1d rd file nrows = .ok (A.map (fun r => r.getD 0 0))) ∧
    (npShape1 A = 1 → Gen.IoOpen.opentxt_all_2d rd file nrows = .error .other) ∧
    (npShape1 A ≠ 1 → Gen.IoOpen.opentxt_all_1d rd file nrows = .error .other) := by
  rw [opentxt_all_2d_head, opentxt_all_1d_head, hread]
  simp only [bind, Except.bind]
  refine ⟨fun h => by rw [if_neg h], fun h => by rw [if_pos h], fun h hne => ?_, fun h => by rw [if_pos h], fun h => by rw [if_neg h]⟩
  rw [if_pos (by rw [npShape1_of_rect A 1 hne h]; rfl), flatten_single_col A h]

/-- `opentxt(file)` without `usecols`: a parser error (e.g. a missing file) is passed on unchanged. -/
theorem opentxt_all_error (rd : Int → Int → Py (List (List Int))) (file nrows : Int) (e : Err) (hread : rd file nrows = .error e) :
    Gen.IoOpen.opentxt_all_2d rd file nrows = .error e ∧ Gen.IoOpen.opentxt_all_1d rd file nrows = .error e := by
  rw [opentxt_all_2d_head, opentxt_all_1d_head, hread]
  exact ⟨rfl, rfl⟩

example : Gen.IoOpen.opentxt_all_2d (fun _ _ => .ok [[10, 11, 12], [20, 21, 22]]) 7 0 = .ok [[10, 11, 12], [20, 21, 22]] := by decide +kernel
example : Gen.IoOpen.opentxt_all_1d (fun _ _ => .ok [[3], [1], [2]]) 7 0 = .ok [3, 1, 2] := by decide +kernel
example : Gen.IoOpen.opentxt_all_2d (fun _ _ => .ok [[3], [1], [2]]) 7 0 = .error .other := by decide +kernel

/-! ### 4. `opentxt_limits` -/

/-- `opentxt_limits(file, limits_file=None)`: when the data reader answers `rows` (a 1-d column, or a 2-d table) the result is the single
    piece `[rows]` — which is `splitLimits [len(rows)] rows`; the limits reader is not consulted (the statement holds for every `o`). -/
theorem opentxt_limits_none_refines (d1 : Int → Int → Py (List Int)) (d2 : Int → Int → Py (List (List Int)))
    (o : Int → Py (List Int)) (f dt : Int) :
    (∀ rows, d1 f dt = .ok rows → Gen.IoOpen.opentxt_limits_1d_none d1 o f dt = .ok [rows]
        ∧ TextIO.splitLimits [rows.length] rows = some [rows]) ∧
    (∀ rows, d2 f dt = .ok rows → Gen.IoOpen.opentxt_limits_2d_none d2 o f dt = .ok [rows]
        ∧ TextIO.splitLimits [rows.length] rows = some [rows]) := by
  constructor
  · intro rows h
    rw [limits_1d_none_head, h]
    exact ⟨rfl, TextIO.splitLimits_single rows⟩
  · intro rows h
    rw [limits_2d_none_head, h]
    exact ⟨rfl, TextIO.splitLimits_single rows⟩

/-- the outcome of `opentxt_limits` with a limits file holding the natural numbers `lim`, on the data `rows`, in terms of the model -/
def limitsOutcome {α : Type} (lim : List Nat) (rows : List α) : Py (List (List α)) :=
  if lim = [] then .error .index
  else match TextIO.splitLimits lim rows with
    | none => .error .value
    | some pieces => .ok pieces

/-- the common tail of the four `opentxt_limits_*_file` forms (`open_limits`, then `np.split(traj, limits)[:-1]`) is `limitsOutcome` -/
theorem split_outcome {α : Type} (o : Int → Py (List Int)) (lf : Int) (lim : List Nat) (rows : List α)
    (ho : o lf = .ok (lim.map Int.ofNat)) :
    (Gen.IoLimits.open_limits_file o (pyLen rows) lf >>= fun limits =>
      (.ok (pySlice (npSplit rows limits) none (some (-1))) : Py (List (List α)))) = limitsOutcome lim rows := by
  rw [Small.open_limits_refines o _ lf _ ho, Small.sum_map_ofNat]
  unfold limitsOutcome TextIO.splitLimits
  by_cases hl : lim = []
  · subst hl; rfl
  · have hl' : lim.map Int.ofNat ≠ [] := by simpa using hl
    rw [if_neg hl', if_neg hl]
    by_cases hs : lim.sum = rows.length
    · have h1 : pyLen rows = ((lim.sum : Nat) : Int) := by simp [pyLen, hs]
      rw [if_pos h1, if_neg (by simpa using hs)]
      simp only [bind, Except.bind, split_cumsums]
    · have h1 : ¬ pyLen rows = ((lim.sum : Nat) : Int) := by simp only [pyLen]; omega
      rw [if_neg h1, if_pos hs]
      rfl

/-- `opentxt_limits(file, limits_file)` when the data reader answers `rows` (1-d or 2-d form) and the limits reader the non-negative integers
    `lim`: an empty limits file is `IndexError` (the error of `open_limits_empty_file`); otherwise the result is the model's
    `splitLimits lim rows` — `none` ↔ `ValueError`, `some pieces` ↔ `.ok pieces`. -/
theorem opentxt_limits_file_refines (d1 : Int → Int → Py (List Int)) (d2 : Int → Int → Py (List (List Int)))
    (o : Int → Py (List Int)) (f lf dt : Int) (lim : List Nat) (ho : o lf = .ok (lim.map Int.ofNat)) :
    (∀ rows, d1 f dt = .ok rows → Gen.IoOpen.opentxt_limits_1d_file d1 o f lf dt = limitsOutcome lim rows) ∧
    (∀ rows, d2 f dt = .ok rows → Gen.IoOpen.opentxt_limits_2d_file d2 o f lf dt = limitsOutcome lim rows) := by
  constructor
  · intro rows h
    rw [limits_1d_file_head, h]
    exact split_outcome o lf lim rows ho
  · intro rows h
    rw [limits_2d_file_head, h]
    exact split_outcome o lf lim rows ho

/-- The three cases of `limitsOutcome` spelt out: for a non-empty limits list, `.ok pieces` exactly when the model returns `some pieces`,
    `ValueError` exactly when the model returns `none` (the limits do not sum to the number of rows); `IndexError` for the empty list.
    With `C16.limits`: accepted pieces have the requested lengths and concatenate to the data. -/
theorem limitsOutcome_cases {α : Type} (lim : List Nat) (rows : List α) :
    (lim = [] → limitsOutcome lim rows = .error .index) ∧
    (lim ≠ [] → ∀ pieces, limitsOutcome lim rows = .ok pieces ↔ TextIO.splitLimits lim rows = some pieces) ∧
    (lim ≠ [] → (limitsOutcome lim rows = .error .value ↔ TextIO.splitLimits lim rows = none)) ∧
    (lim ≠ [] → (limitsOutcome lim rows = .error .value ↔ lim.sum ≠ rows.length)) ∧
    (∀ pieces, limitsOutcome lim rows = .ok pieces → pieces.map List.length = lim ∧ pieces.flatten = rows ∧ pieces ≠ []) := by
  have hcase : lim ≠ [] → limitsOutcome lim rows
      = (match TextIO.splitLimits lim rows with | none => .error .value | some pieces => .ok pieces) := by
    intro hl; unfold limitsOutcome; rw [if_neg hl]
  refine ⟨fun hl => by unfold limitsOutcome; rw [if_pos hl], fun hl pieces => ?_, fun hl => ?_, fun hl => ?_, fun pieces h => ?_⟩
  · rw [hcase hl]
    cases TextIO.splitLimits lim rows with
    | none => simp
    | some q => simp
  · rw [hcase hl]
    cases TextIO.splitLimits lim rows with
    | none => simp
    | some q => simp
  · rw [hcase hl, ← C16.limits_reject]
    cases TextIO.splitLimits lim rows with
    | none => simp
    | some q => simp
  · by_cases hl : lim = []
    · unfold limitsOutcome at h; rw [if_pos hl] at h; cases h
    · rw [hcase hl] at h
      cases hs : TextIO.splitLimits lim rows with
      | none => rw [hs] at h; cases h
      | some q =>
        rw [hs] at h
        simp only [Except.ok.injEq] at h
        subst h
        have h2 := C16.limits lim rows q hs
        refine ⟨h2.1, h2.2, ?_⟩
        intro hq
        rw [hq] at h2
        exact hl h2.1.symm

/-- Errors of the readers are passed on unchanged by `opentxt_limits`: an error of the data reader (all four forms), and an error of
    the limits reader after the data were read. -/
theorem opentxt_limits_reader_errors (d1 : Int → Int → Py (List Int)) (d2 : Int → Int → Py (List (List Int)))
    (o : Int → Py (List Int)) (f lf dt : Int) (e : Err) :
    (d1 f dt = .error e → Gen.IoOpen.opentxt_limits_1d_none d1 o f dt = .error e ∧
        Gen.IoOpen.opentxt_limits_1d_file d1 o f lf dt = .error e) ∧
    (d2 f dt = .error e → Gen.IoOpen.opentxt_limits_2d_none d2 o f dt = .error e ∧
        Gen.IoOpen.opentxt_limits_2d_file d2 o f lf dt = .error e) ∧
    (o lf = .error e → (∀ rows, d1 f dt = .ok rows → Gen.IoOpen.opentxt_limits_1d_file d1 o f lf dt = .error e) ∧
        (∀ rows, d2 f dt = .ok rows → Gen.IoOpen.opentxt_limits_2d_file d2 o f lf dt = .error e)) := by
  refine ⟨fun h => ?_, fun h => ?_, fun h => ⟨fun rows hr => ?_, fun rows hr => ?_⟩⟩
  · rw [limits_1d_none_head, limits_1d_file_head, h]; exact ⟨rfl, rfl⟩
  · rw [limits_2d_none_head, limits_2d_file_head, h]; exact ⟨rfl, rfl⟩
  · rw [limits_1d_file_head, hr]
    simp only [bind, Except.bind, Small.open_limits_reader_error o _ lf e h]
  · rw [limits_2d_file_head, hr]
    simp only [bind, Except.bind, Small.open_limits_reader_error o _ lf e h]

/-! non-vacuity: limits `[2,0,3]` on 5 rows -/

example : Gen.IoOpen.opentxt_limits_1d_file (fun _ _ => .ok [1, 2, 3, 4, 5]) (fun _ => .ok [2, 0, 3]) 7 8 16
    = .ok [[1, 2], [], [3, 4, 5]] := by decide +kernel
example : Gen.IoOpen.opentxt_limits_1d_file (fun _ _ => .ok [1, 2, 3, 4, 5]) (fun _ => .ok (([2, 0, 3] : List Nat).map Int.ofNat)) 7 8 16
    = limitsOutcome [2, 0, 3] [1, 2, 3, 4, 5] :=
  (opentxt_limits_file_refines (fun _ _ => .ok [1, 2, 3, 4, 5]) (fun _ _ => .ok []) _ 7 8 16 [2, 0, 3] rfl).1 _ rfl
example : limitsOutcome [2, 0, 3] [1, 2, 3, 4, 5] = .ok [[1, 2], [], [3, 4, 5]] := by decide
example : Gen.IoOpen.opentxt_limits_2d_file (fun _ _ => .ok [[1, 6], [2, 7], [3, 8], [4, 9], [5, 0]]) (fun _ => .ok [2, 0, 3]) 7 8 16
    = .ok [[[1, 6], [2, 7]], [], [[3, 8], [4, 9], [5, 0]]] := by decide +kernel
example : Gen.IoOpen.opentxt_limits_1d_file (fun _ _ => .ok [1, 2, 3, 4, 5]) (fun _ => .ok [2, 2]) 7 8 16 = .error .value := by
  decide +kernel
example : Gen.IoOpen.opentxt_limits_1d_file (fun _ _ => .ok []) (fun _ => .ok []) 7 8 16 = .error .index := by decide +kernel
example : Gen.IoOpen.opentxt_limits_1d_none (fun _ _ => .ok [1, 2, 3, 4, 5]) (fun _ => .error .other) 7 16 = .ok [[1, 2, 3, 4, 5]] := by
  decide +kernel

/-! ### 5. `openmicrostates` -/

/-- `openmicrostates(file, limits_file)` without a `dtype`: for ALL oracles, exactly `opentxt_limits` called with the dtype token 16
    (`np.int16`) — a single-column (1-d) reading passes the final shape check, and `traj[0]` exists because a successful split has ≥ 1
    piece. -/
theorem openmicrostates_default_eq (d : Int → Int → Py (List Int)) (o : Int → Py (List Int)) (f lf : Int) :
    Gen.IoOpen.openmicrostates_default_1d_none d o f = Gen.IoOpen.opentxt_limits_1d_none d o f 16 ∧
    Gen.IoOpen.openmicrostates_default_1d_file d o f lf = Gen.IoOpen.opentxt_limits_1d_file d o f lf 16 :=
  ⟨micro_bind _ (limits_1d_none_ne_nil d o f 16), micro_bind _ (limits_1d_file_ne_nil d o f lf 16)⟩

/-- `openmicrostates(file, limits_file, dtype=dt)` with an integer dtype: for ALL oracles, exactly `opentxt_limits` with the dtype token
    passed on unchanged. -/
theorem openmicrostates_int_eq (d : Int → Int → Py (List Int)) (o : Int → Py (List Int)) (f lf dt : Int) :
    Gen.IoOpen.openmicrostates_int_1d_none d o f dt = Gen.IoOpen.opentxt_limits_1d_none d o f dt ∧
    Gen.IoOpen.openmicrostates_int_1d_file d o f lf dt = Gen.IoOpen.opentxt_limits_1d_file d o f lf dt :=
  ⟨micro_bind _ (limits_1d_none_ne_nil d o f dt), micro_bind _ (limits_1d_file_ne_nil d o f lf dt)⟩

/-- `openmicrostates(file, dtype=<non-integer>)` raises `TypeError` whatever the oracles would do — in particular for readers that would
    fail: no file is read before the check. -/
theorem openmicrostates_nonint_rejects (d : Int → Int → Py (List Int)) (o : Int → Py (List Int)) (f dt : Int) :
    Gen.IoOpen.openmicrostates_nonint_1d_none d o f dt = .error .type := rfl

/-- `openmicrostates` on a multi-column file (the 2-d form of the reader): for ALL oracles it is `opentxt_limits` (dtype token 16)
    followed by `FileError` — i.e. `FileError` whenever reading and splitting succeeded (with whatever pieces), and the reader's /
    `open_limits`' own error otherwise (raised first). -/
theorem openmicrostates_multicolumn_rejects (d : Int → Int → Py (List (List Int))) (o : Int → Py (List Int)) (f lf : Int) :
    (∀ pieces, Gen.IoOpen.opentxt_limits_2d_none d o f 16 = .ok pieces →
        Gen.IoOpen.openmicrostates_default_2d_none d o f = .error .file) ∧
    (∀ pieces, Gen.IoOpen.opentxt_limits_2d_file d o f lf 16 = .ok pieces →
        Gen.IoOpen.openmicrostates_default_2d_file d o f lf = .error .file) ∧
    (∀ e, Gen.IoOpen.opentxt_limits_2d_none d o f 16 = .error e →
        Gen.IoOpen.openmicrostates_default_2d_none d o f = .error e) ∧
    (∀ e, Gen.IoOpen.opentxt_limits_2d_file d o f lf 16 = .error e →
        Gen.IoOpen.openmicrostates_default_2d_file d o f lf = .error e) := by
  refine ⟨fun p h => ?_, fun p h => ?_, fun e h => ?_, fun e h => ?_⟩
  · rw [micro_2d_none_head, h]; rfl
  · rw [micro_2d_file_head, h]; rfl
  · rw [micro_2d_none_head, h]; rfl
  · rw [micro_2d_file_head, h]; rfl

/-- In particular: a multi-column data file `rows` with a limits file `lim` (non-empty, summing to the number of rows) — the split succeeds
    with ≥ 1 piece — is rejected with `FileError`; without a limits file likewise. -/
theorem openmicrostates_multicolumn_rejects_split (d : Int → Int → Py (List (List Int))) (o : Int → Py (List Int)) (f lf : Int)
    (rows : List (List Int)) (hd : d f 16 = .ok rows) :
    Gen.IoOpen.openmicrostates_default_2d_none d o f = .error .file ∧
    (∀ lim : List Nat, o lf = .ok (lim.map Int.ofNat) → lim ≠ [] → lim.sum = rows.length →
      Gen.IoOpen.openmicrostates_default_2d_file d o f lf = .error .file) := by
  constructor
  · exact (openmicrostates_multicolumn_rejects d o f lf).1 [rows]
      (((opentxt_limits_none_refines (fun _ _ => .ok []) d o f 16).2 rows hd).1)
  · intro lim ho hl hs
    have h1 := (opentxt_limits_file_refines (fun _ _ => .ok []) d o f lf 16 lim ho).2 rows hd
    cases hsp : TextIO.splitLimits lim rows with
    | none => exact absurd hs ((C16.limits_reject lim rows).mp hsp)
    | some pieces =>
      have h2 := ((limitsOutcome_cases lim rows).2.1 hl pieces).mpr hsp
      exact (openmicrostates_multicolumn_rejects d o f lf).2.1 pieces (h1.trans h2)

/-! non-vacuity -/

example : Gen.IoOpen.openmicrostates_default_1d_file (fun _ dt => if dt = 16 then .ok [1, 2, 3, 4, 5] else .error .other)
    (fun _ => .ok [2, 0, 3]) 7 8 = .ok [[1, 2], [], [3, 4, 5]] := by decide +kernel
example : Gen.IoOpen.openmicrostates_int_1d_none (fun _ dt => if dt = 32 then .ok [1, 2, 3] else .error .other)
    (fun _ => .error .other) 7 32 = .ok [[1, 2, 3]] := by decide +kernel
example : Gen.IoOpen.openmicrostates_nonint_1d_none (fun _ _ => .error .other) (fun _ => .error .other) 7 64 = .error .type := rfl
example : Gen.IoOpen.openmicrostates_default_2d_file (fun _ _ => .ok [[1, 6], [2, 7], [3, 8]]) (fun _ => .ok [1, 2]) 7 8
    = .error .file := by decide +kernel
example : Gen.IoOpen.openmicrostates_default_2d_file (fun _ _ => .ok [[1, 6], [2, 7], [3, 8]]) (fun _ => .ok [1, 1]) 7 8
    = .error .value := by decide +kernel

end MsmVerif.Refine.TextIO
