/-
Refine/PeqLemmas.lean — helper lemmas for task RP10 (Refine/Peq.lean): the translated `equilibrium_population`
(`Gen.MsmNorm.equilibrium_population`, with the LAPACK eigen-solver as an oracle parameter) against the model
`Linalg.equilibrium`.

Contents: (1) `|v|` of a left fixed vector of a non-negative matrix with row sums `≤ 1` is again a left fixed vector (the
inequality argument), (2) the numpy runtime's boolean-mask read `npIx` is `Linalg.restrict`, the boolean-mask write
`npMaskAssign` into a zero vector is `Linalg.embed`, (3) case-by-case unfolding of the translated function, (4) properties of
`rowNormalizeQ (restrict T mask)` and of `ergodicMask`.
-/
import MsmVerif.Gen.MsmNorm
import MsmVerif.Refine.Ergodic
import MsmVerif.Refine.Norm
import MsmVerif.Props.C04
import Mathlib.Algebra.Order.Ring.Abs

namespace MsmVerif.Refine.Peq
open MsmVerif MsmVerif.Gen MsmVerif.Linalg MsmVerif.Msm

/-! ### absolute values -/

theorem npAbs_eq_abs (x : Rat) : npAbs x = |x| := by
  unfold npAbs
  split
  · next h => rw [abs_of_neg h]
  · next h => rw [abs_of_nonneg (not_lt.mp h)]

theorem npAbs_zero : npAbs 0 = 0 := by rw [npAbs_eq_abs, abs_zero]

theorem getD_map_abs (v : Vec) (k : Nat) : (v.map npAbs).getD k 0 = |v.getD k 0| := by
  by_cases hk : k < v.length
  · rw [getD_map _ _ _ hk, getD_of_lt _ _ hk, npAbs_eq_abs]
  · rw [getD_of_ge _ _ (by simpa using hk), getD_of_ge _ _ (by simpa using hk), abs_zero]

/-- row sum as a positional sum of entries -/
theorem row_sum_eq {n : Nat} {M : Mat} (h : WF n M) {k : Nat} (hk : k < n) :
    (M.getD k []).sum = rsum n (fun j => entry M k j) := by
  rw [sum_eq_rsum, h.row_length hk]
  rfl

/-- **core inequality argument.** `M` well-formed `n × n`, non-negative, all row sums `≤ 1`; if `v M = v` then `|v| M = |v|`. -/
theorem abs_fixed {n : Nat} {M : Mat} (h : WF n M) (hnn : NonNeg M) (hrow : ∀ r ∈ M, r.sum ≤ 1)
    {v : Vec} (hv : v.length = n) (hfix : vecMat v M = v) :
    vecMat (v.map npAbs) M = v.map npAbs := by
  have hw : (v.map npAbs).length = n := by simpa using hv
  -- entrywise `≥`
  have hge : ∀ j, j < n → |v.getD j 0| ≤ rsum n (fun k => |v.getD k 0| * entry M k j) := by
    intro j hj
    have e := getD_vecMat h hv hj
    rw [hfix] at e
    rw [e, rsum_eq_finset, rsum_eq_finset]
    refine le_trans (Finset.abs_sum_le_sum_abs _ _) (le_of_eq ?_)
    apply Finset.sum_congr rfl
    intro k _
    rw [abs_mul, abs_of_nonneg (hnn.entry k j)]
  -- total mass does not grow
  have hrs : ∀ k, k < n → rsum n (fun j => entry M k j) ≤ 1 := by
    intro k hk
    rw [← row_sum_eq h hk]
    apply hrow
    rw [getD_of_lt _ _ (by rw [h.1]; exact hk)]
    exact List.getElem_mem _
  have hsum : rsum n (fun j => rsum n (fun k => |v.getD k 0| * entry M k j)) ≤ rsum n (fun j => |v.getD j 0|) := by
    simp only [rsum_eq_finset]
    rw [Finset.sum_comm]
    apply Finset.sum_le_sum
    intro k hk
    rw [← Finset.mul_sum]
    have := hrs k (Finset.mem_range.mp hk)
    rw [rsum_eq_finset] at this
    calc |v.getD k 0| * ∑ j ∈ Finset.range n, entry M k j ≤ |v.getD k 0| * 1 :=
          mul_le_mul_of_nonneg_left this (abs_nonneg _)
      _ = |v.getD k 0| := mul_one _
  -- hence equality entrywise
  have hzero : ∀ j, j < n → rsum n (fun k => |v.getD k 0| * entry M k j) - |v.getD j 0| = 0 := by
    have hnonneg : ∀ j ∈ Finset.range n, 0 ≤ rsum n (fun k => |v.getD k 0| * entry M k j) - |v.getD j 0| :=
      fun j hj => sub_nonneg.mpr (hge j (Finset.mem_range.mp hj))
    have htot : ∑ j ∈ Finset.range n, (rsum n (fun k => |v.getD k 0| * entry M k j) - |v.getD j 0|) = 0 := by
      apply le_antisymm
      · rw [Finset.sum_sub_distrib]
        simp only [rsum_eq_finset] at hsum ⊢
        linarith
      · exact Finset.sum_nonneg hnonneg
    intro j hj
    exact (Finset.sum_eq_zero_iff_of_nonneg hnonneg).mp htot j (Finset.mem_range.mpr hj)
  apply vec_ext (length_vecMat h _) hw
  intro j hj
  rw [getD_vecMat h hw hj, getD_map_abs]
  have := hzero j hj
  rw [rsum_congr (g := fun k => |v.getD k 0| * entry M k j) (fun k _ => by rw [getD_map_abs])]
  linarith

/-- a vector with a non-zero entry has a positive sum of absolute values -/
theorem sum_abs_pos {v : Vec} (hnz : ∃ x ∈ v, x ≠ 0) : 0 < (v.map npAbs).sum := by
  induction v with
  | nil => obtain ⟨x, hx, _⟩ := hnz; cases hx
  | cons y ys ih =>
    have hnn : ∀ l : Vec, 0 ≤ (l.map npAbs).sum := by
      intro l
      induction l with
      | nil => simp
      | cons a as iha =>
        rw [List.map_cons, List.sum_cons, npAbs_eq_abs]
        have := abs_nonneg a
        linarith
    rw [List.map_cons, List.sum_cons, npAbs_eq_abs]
    by_cases hy : y = 0
    · have : ∃ x ∈ ys, x ≠ 0 := by
        obtain ⟨x, hx, hx0⟩ := hnz
        rcases List.mem_cons.mp hx with rfl | hx'
        · exact absurd hy hx0
        · exact ⟨x, hx', hx0⟩
      have := ih this
      have := abs_nonneg y
      linarith
    · have := abs_pos.mpr hy
      have := hnn ys
      linarith


/-! ### runtime: `pyGet`, boolean-mask reads -/

theorem pyGet_zero_cons {α : Type} (x : α) (xs : List α) : pyGet (x :: xs) 0 = .ok x := by
  unfold pyGet normIdx
  simp

theorem mapM_ok_of_forall {α β : Type} (l : List α) (f : α → Py β) (g : α → β) (h : ∀ x ∈ l, f x = .ok (g x)) :
    l.mapM f = .ok (l.map g) := by
  induction l with
  | nil => rfl
  | cons x xs ih =>
    rw [List.mapM_cons, h x (by simp), ih (fun y hy => h y (by simp [hy]))]
    rfl

/-- recursion of the selected index list -/
theorem maskIdx_cons (n : Nat) (b : Bool) (bs : List Bool) :
    maskIdx (n + 1) (b :: bs) = (if b then [0] else []) ++ (maskIdx n bs).map (· + 1) := by
  unfold maskIdx
  rw [List.range_succ_eq_map, List.filter_cons, List.filter_map]
  cases b <;> simp [Function.comp_def]

/-- `v[mask]` picks the entries at the selected indices -/
theorem maskGet_eq {α : Type} (d : α) (l : List α) (mask : List Bool) (h : l.length = mask.length) :
    (l.zip mask).filterMap (fun p => if p.2 then some p.1 else none)
      = (maskIdx l.length mask).map (fun i => l.getD i d) := by
  induction l generalizing mask with
  | nil => simp [maskIdx]
  | cons x xs ih =>
    cases mask with
    | nil => simp at h
    | cons b bs =>
      have h' : xs.length = bs.length := by simpa using h
      rw [List.length_cons, maskIdx_cons, List.zip_cons_cons, List.filterMap_cons, List.map_append, List.map_map]
      cases b
      · simp [ih bs h', Function.comp_def]
      · simp [ih bs h', Function.comp_def]

theorem npMaskGet_eq {α : Type} (d : α) (l : List α) (mask : List Bool) (h : l.length = mask.length) :
    npMaskGet l mask = .ok ((maskIdx l.length mask).map (fun i => l.getD i d)) := by
  unfold npMaskGet
  rw [if_pos h, maskGet_eq d l mask h]

theorem npIx_eq (T : Mat) (mask : List Bool) (hsq : isSquare T = true) (hm : mask.length = T.length) :
    npIx T mask mask = .ok (restrict T mask) := by
  have hT := WF_of_isSquare hsq
  unfold npIx
  rw [npMaskGet_eq [] T mask hm.symm]
  simp only [bind, Except.bind]
  rw [mapM_ok_of_forall _ _ (fun r => (maskIdx T.length mask).map (fun j => r.getD j 0))]
  · rw [restrict_eq, List.map_map]
    rfl
  · intro r hr
    simp only [List.mem_map] at hr
    obtain ⟨i, hi, rfl⟩ := hr
    have hin := (mem_maskIdx.mp hi).1
    have hl : (T.getD i []).length = mask.length := by rw [hT.row_length hin, hm]
    rw [npMaskGet_eq 0 _ mask hl, hT.row_length hin]

/-! ### boolean-mask assignment = `embed` -/

/-- put the entries of `w` one after another at the marked positions, `0` elsewhere (and for missing entries) -/
def scatter : List Bool → Vec → Vec
  | [], _ => []
  | b :: bs, w => (if b then w.headD 0 else 0) :: scatter bs (if b then w.tail else w)

theorem length_scatter (mask : List Bool) (w : Vec) : (scatter mask w).length = mask.length := by
  induction mask generalizing w with
  | nil => rfl
  | cons b bs ih => simp [scatter, ih]

theorem scatter_getD_not (mask : List Bool) (w : Vec) {i : Nat} (hi : mask.getD i false = false) :
    (scatter mask w).getD i 0 = 0 := by
  induction mask generalizing w i with
  | nil => simp [scatter]
  | cons b bs ih =>
    cases i with
    | zero =>
      have : b = false := by simpa using hi
      subst this
      simp [scatter]
    | succ i =>
      have hi' : bs.getD i false = false := by simpa using hi
      simp only [scatter, List.getD_cons_succ]
      exact ih _ hi'

theorem scatter_getD_idx (mask : List Bool) (w : Vec) {a : Nat} (ha : a < (maskIdx mask.length mask).length) :
    (scatter mask w).getD ((maskIdx mask.length mask).getD a 0) 0 = w.getD a 0 := by
  induction mask generalizing w a with
  | nil => simp [maskIdx] at ha
  | cons b bs ih =>
    rw [List.length_cons, maskIdx_cons] at ha ⊢
    cases b with
    | false =>
      simp only [Bool.false_eq_true, ↓reduceIte, List.nil_append, List.length_map] at ha ⊢
      rw [getD_map _ _ _ ha]
      simp only [scatter, Bool.false_eq_true, ↓reduceIte, List.getD_cons_succ]
      rw [← getD_of_lt _ 0 ha]
      exact ih w ha
    | true =>
      simp only [↓reduceIte, List.cons_append, List.nil_append, List.length_cons, List.length_map] at ha ⊢
      cases a with
      | zero =>
        simp only [List.getD_cons_zero, scatter, ↓reduceIte]
        cases w <;> simp
      | succ a =>
        have ha' : a < (maskIdx bs.length bs).length := by omega
        simp only [List.getD_cons_succ]
        rw [getD_map _ _ _ ha']
        simp only [scatter, ↓reduceIte, List.getD_cons_succ]
        rw [← getD_of_lt _ 0 ha', ih w.tail ha']
        cases w <;> simp

theorem scatter_eq_embed (mask : List Bool) (w : Vec) : scatter mask w = embed w mask := by
  apply vec_ext (length_scatter mask w) (length_embed w mask)
  intro i hi
  by_cases hm : mask.getD i false = true
  · obtain ⟨a, ha, hai⟩ := List.getElem_of_mem (mem_maskIdx.mpr ⟨hi, hm⟩)
    have h1 := scatter_getD_idx mask w ha
    have h2 := getD_embed_of_mem w mask ha
    rw [getD_of_lt _ _ ha, hai] at h1
    rw [hai] at h2
    rw [h1, h2]
  · have hm' : mask.getD i false = false := by simpa using hm
    rw [scatter_getD_not mask w hm', getD_embed_of_not w mask hm']

theorem maskAssign_fold (F : List Rat × List Rat → Rat × Bool → List Rat × List Rat)
    (h1 : ∀ a y ys p, F (a, y :: ys) (p, true) = (a ++ [y], ys))
    (h2 : ∀ a p, F (a, []) (p, true) = (a ++ [p], []))
    (h3 : ∀ a w p, F (a, w) (p, false) = (a ++ [p], w))
    (mask : List Bool) (w acc : Vec) :
    (((List.replicate mask.length (0 : Rat)).zip mask).foldl F (acc, w)).1 = acc ++ scatter mask w := by
  induction mask generalizing w acc with
  | nil => simp [scatter]
  | cons b bs ih =>
    rw [List.length_cons, List.replicate_succ, List.zip_cons_cons, List.foldl_cons]
    cases b with
    | false =>
      rw [h3, ih]
      simp [scatter]
    | true =>
      cases w with
      | nil =>
        rw [h2, ih]
        simp [scatter]
      | cons y ys =>
        rw [h1, ih]
        simp [scatter]

theorem length_maskIdx_eq_count (mask : List Bool) : (maskIdx mask.length mask).length = (mask.filter id).length := by
  induction mask with
  | nil => simp [maskIdx]
  | cons b bs ih =>
    rw [List.length_cons, maskIdx_cons]
    cases b <;> simp [ih]

theorem pyFull1_len {α : Type} (T : List α) : pyFull1 (pyLen T) (0 : Rat) = List.replicate T.length 0 := by
  unfold pyFull1 pyLen
  rw [Int.toNat_natCast]

/-- `zeros(n)[mask] = w` is the model's `embed w mask` when `w` has one entry per marked state and is not a single number -/
theorem npMaskAssign_eq_embed (n : Nat) (mask : List Bool) (w : Vec) (hm : mask.length = n)
    (hw : w.length = (maskIdx n mask).length) (h1 : w.length ≠ 1) :
    npMaskAssign (List.replicate n (0 : Rat)) mask w = .ok (embed w mask) := by
  subst hm
  unfold npMaskAssign
  rw [if_neg (by simp)]
  have hk : ¬ w.length ≠ (mask.filter id).length := by rw [hw, length_maskIdx_eq_count]; simp
  match w, h1, hw, hk with
  | [x], h1, _, _ => simp at h1
  | [], _, _, hk =>
    simp only [hk, ↓reduceIte]
    refine congrArg Except.ok (Eq.trans (maskAssign_fold _ (fun _ _ _ _ => rfl) (fun _ _ => rfl) (fun _ _ _ => rfl) mask _ []) ?_)
    rw [scatter_eq_embed]
    rfl
  | x :: y :: zs, _, _, hk =>
    simp only [hk, ↓reduceIte]
    refine congrArg Except.ok (Eq.trans (maskAssign_fold _ (fun _ _ _ _ => rfl) (fun _ _ => rfl) (fun _ _ _ => rfl) mask _ []) ?_)
    rw [scatter_eq_embed]
    rfl


/-! ### case-by-case unfolding of the translated function -/

/-- type of the eigen-solver oracle `linalg.left_eigenvectors(M, nvals)`: eigenvalues and the list of left eigenvectors -/
abbrev Oracle := List (List Rat) → Int → Py (List Rat × List (List Rat))

/-- the last two lines of `equilibrium_population`: `|v| / Σ|v|` -/
def absNormalize (v : Vec) : Vec := (v.map npAbs).map (fun x => x / npSum1 (v.map npAbs))

theorem peq_case_refused (ext : Oracle) (T : Mat) (h : UtilsTests.is_ergodic T atol = .ok false) :
    MsmNorm.equilibrium_population ext T false = .error .value := by
  unfold MsmNorm.equilibrium_population
  have h' : UtilsTests.is_ergodic T (3022314549036573 / 302231454903657293676544) = .ok false := h
  simp only [h', bind, Except.bind]
  rfl

theorem peq_case_error (ext : Oracle) (T : Mat) (allow : Bool) (e : Err) (h : UtilsTests.is_ergodic T atol = .error e) :
    MsmNorm.equilibrium_population ext T allow = .error e := by
  unfold MsmNorm.equilibrium_population
  have h' : UtilsTests.is_ergodic T (3022314549036573 / 302231454903657293676544) = .error e := h
  simp only [h', bind, Except.bind]

theorem peq_case_ergodic (ext : Oracle) (T : Mat) (allow : Bool) (h : UtilsTests.is_ergodic T atol = .ok true)
    (vals v : Vec) (rest : List Vec) (hext : ext T 1 = .ok (vals, v :: rest)) :
    MsmNorm.equilibrium_population ext T allow = .ok (absNormalize v) := by
  unfold MsmNorm.equilibrium_population
  have h' : UtilsTests.is_ergodic T (3022314549036573 / 302231454903657293676544) = .ok true := h
  simp only [h', bind, Except.bind, hext, pyGet_zero_cons, pure, Except.pure, absNormalize]
  cases allow <;> simp

theorem peq_case_ergodic_error (ext : Oracle) (T : Mat) (allow : Bool) (h : UtilsTests.is_ergodic T atol = .ok true)
    (e : Err) (hext : ext T 1 = .error e) :
    MsmNorm.equilibrium_population ext T allow = .error e := by
  unfold MsmNorm.equilibrium_population
  have h' : UtilsTests.is_ergodic T (3022314549036573 / 302231454903657293676544) = .ok true := h
  simp only [h', bind, Except.bind, hext]
  cases allow <;> rfl

theorem peq_case_mask_error (ext : Oracle) (T : Mat) (h : UtilsTests.is_ergodic T atol = .ok false)
    (e : Err) (hmask : UtilsTests.ergodic_mask T atol = .error e) :
    MsmNorm.equilibrium_population ext T true = .error e := by
  unfold MsmNorm.equilibrium_population
  have h' : UtilsTests.is_ergodic T (3022314549036573 / 302231454903657293676544) = .ok false := h
  have hm' : UtilsTests.ergodic_mask T (3022314549036573 / 302231454903657293676544) = .error e := hmask
  simp only [h', hm', bind, Except.bind]
  rfl

theorem peq_case_nonergodic_error (ext : Oracle) (T : Mat) (h : UtilsTests.is_ergodic T atol = .ok false)
    (mask : List Bool) (hmask : UtilsTests.ergodic_mask T atol = .ok mask)
    (R0 R : Mat) (hix : npIx T mask mask = .ok R0) (hnorm : MsmNorm.row_normalize_matrix R0 = .ok R)
    (e : Err) (hext : ext R 1 = .error e) :
    MsmNorm.equilibrium_population ext T true = .error e := by
  unfold MsmNorm.equilibrium_population
  have h' : UtilsTests.is_ergodic T (3022314549036573 / 302231454903657293676544) = .ok false := h
  have hm' : UtilsTests.ergodic_mask T (3022314549036573 / 302231454903657293676544) = .ok mask := hmask
  simp only [h', hm', hix, hnorm, hext, bind, Except.bind]
  rfl

theorem peq_case_nonergodic (ext : Oracle) (T : Mat) (h : UtilsTests.is_ergodic T atol = .ok false)
    (mask : List Bool) (hmask : UtilsTests.ergodic_mask T atol = .ok mask)
    (R0 R : Mat) (hix : npIx T mask mask = .ok R0) (hnorm : MsmNorm.row_normalize_matrix R0 = .ok R)
    (vals v : Vec) (rest : List Vec) (hext : ext R 1 = .ok (vals, v :: rest))
    (e : Vec) (hassign : npMaskAssign (pyFull1 (pyLen T) (0 : Rat)) mask v = .ok e) :
    MsmNorm.equilibrium_population ext T true = .ok (absNormalize e) := by
  unfold MsmNorm.equilibrium_population
  have h' : UtilsTests.is_ergodic T (3022314549036573 / 302231454903657293676544) = .ok false := h
  have hm' : UtilsTests.ergodic_mask T (3022314549036573 / 302231454903657293676544) = .ok mask := hmask
  simp only [h', hm', hix, hnorm, hext, hassign, bind, Except.bind, pyGet_zero_cons, pure, Except.pure, absNormalize]
  simp


/-! ### the value `|v| / Σ|v|` -/

theorem exists_ne_zero_of_sum_ne_zero {v : Vec} (h : v.sum ≠ 0) : ∃ x ∈ v, x ≠ 0 := by
  induction v with
  | nil => simp at h
  | cons y ys ih =>
    by_cases hy : y = 0
    · subst hy
      rw [List.sum_cons, zero_add] at h
      obtain ⟨x, hx, hx0⟩ := ih h
      exact ⟨x, List.mem_cons_of_mem _ hx, hx0⟩
    · exact ⟨y, by simp, hy⟩

/-- the heart of the main theorem: for a non-negative `n × n` matrix with row sums `≤ 1` whose exact solver returns `π`, every
non-zero left fixed vector `v` satisfies `|v| / Σ|v| = π` -/
theorem absNormalize_eq_stationary {n : Nat} {T : Mat} (hT : WF n T) (hnn : NonNeg T) (hrow : ∀ r ∈ T, r.sum ≤ 1)
    {π v : Vec} (hπ : stationary T = some π) (hv : v.length = n) (hnz : ∃ x ∈ v, x ≠ 0) (hfix : vecMat v T = v) :
    absNormalize v = π := by
  have h1 := abs_fixed hT hnn hrow hv hfix
  have h2 : (v.map npAbs).sum ≠ 0 := ne_of_gt (sum_abs_pos hnz)
  have h3 := C04.normalize T (v.map npAbs) h1 h2
  exact C04.stationary_unique n T π _ hT hπ h3.1 h3.2

/-! ### `rowNormalizeQ (restrict T mask)` -/

theorem NonNeg_restrict {T : Mat} (hnn : NonNeg T) (mask : List Bool) : NonNeg (restrict T mask) := by
  intro r hr x hx
  rw [restrict_eq] at hr
  simp only [List.mem_map] at hr
  obtain ⟨i, _, rfl⟩ := hr
  simp only [List.mem_map] at hx
  obtain ⟨j, _, rfl⟩ := hx
  exact hnn.entry i j

theorem sum_nonneg_of_forall {r : Vec} (h : ∀ x ∈ r, 0 ≤ x) : 0 ≤ r.sum := by
  induction r with
  | nil => simp
  | cons y ys ih =>
    rw [List.sum_cons]
    have := h y (by simp)
    have := ih (fun x hx => h x (by simp [hx]))
    linarith

theorem NonNeg_rowNormalizeQ {M : Mat} (hnn : NonNeg M) : NonNeg (rowNormalizeQ M) := by
  intro r hr x hx
  unfold rowNormalizeQ at hr
  simp only [List.mem_map] at hr
  obtain ⟨row, hrow, rfl⟩ := hr
  simp only [List.mem_map] at hx
  obtain ⟨c, hc, rfl⟩ := hx
  have hs := sum_nonneg_of_forall (hnn row hrow)
  apply div_nonneg (hnn row hrow c hc)
  split
  · exact zero_le_one
  · exact hs

theorem rowNormalizeQ_row_sum_le (M : Mat) : ∀ r ∈ rowNormalizeQ M, r.sum ≤ 1 := by
  intro r hr
  unfold rowNormalizeQ at hr
  simp only [List.mem_map] at hr
  obtain ⟨row, _, rfl⟩ := hr
  show (row.map (· / (if row.sum = 0 then 1 else row.sum))).sum ≤ 1
  rw [sum_map_div]
  by_cases h : row.sum = 0
  · rw [if_pos h, h]; norm_num
  · rw [if_neg h, div_self h]

theorem WF_rowNormalizeQ {n : Nat} {M : Mat} (h : WF n M) : WF n (rowNormalizeQ M) := by
  unfold rowNormalizeQ
  refine ⟨by simpa using h.1, ?_⟩
  intro r hr
  simp only [List.mem_map] at hr
  obtain ⟨row, hrow, rfl⟩ := hr
  simpa using h.2 row hrow

theorem length_restrict (T : Mat) (mask : List Bool) : (restrict T mask).length = (maskIdx T.length mask).length :=
  (WF_restrict T mask).1

theorem WF_normRestrict (T : Mat) (mask : List Bool) :
    WF (restrict T mask).length (rowNormalizeQ (restrict T mask)) := by
  rw [length_restrict]
  exact WF_rowNormalizeQ (WF_restrict T mask)

theorem length_normRestrict (T : Mat) (mask : List Bool) :
    (rowNormalizeQ (restrict T mask)).length = (restrict T mask).length := (WF_normRestrict T mask).1

theorem isSquare_normRestrict (T : Mat) (mask : List Bool) : isSquare (rowNormalizeQ (restrict T mask)) = true := by
  apply isSquare_of_WF
  rw [length_normRestrict]
  exact WF_normRestrict T mask

/-! ### `ergodicMask` marks at least one state -/

theorem exists_marked {m : Mat} {mask : List Bool} (h : ergodicMask m = some mask) :
    ∃ i, i < m.length ∧ mask.getD i false = true := by
  have ht := isTmat_of_ergodicMask h
  have hn := two_le_of_isTmat ht
  rw [ergodicMask_eq ht] at h
  injection h with h
  subst h
  have hlen : ((List.range m.length).map (maskCnt m)).length = m.length := by simp
  have hex : ∃ c ∈ (List.range m.length).map (maskCnt m), c = ((List.range m.length).map (maskCnt m)).foldl max 0 := by
    rcases foldl_max_mem ((List.range m.length).map (maskCnt m)) 0 with h0 | hmem
    · refine ⟨maskCnt m 0, ?_, ?_⟩
      · exact List.mem_map.mpr ⟨0, List.mem_range.mpr (by omega), rfl⟩
      · have := (le_foldl_max ((List.range m.length).map (maskCnt m)) 0).2 (maskCnt m 0)
          (List.mem_map.mpr ⟨0, List.mem_range.mpr (by omega), rfl⟩)
        omega
    · exact ⟨_, hmem, rfl⟩
  obtain ⟨c, hc, hcm⟩ := hex
  obtain ⟨i, hi, hci⟩ := List.getElem_of_mem hc
  refine ⟨i, by rw [← hlen]; exact hi, ?_⟩
  rw [getD_map _ _ _ hi, hci, hcm]
  simp

theorem one_le_length_restrict {T : Mat} {mask : List Bool} (h : ergodicMask T = some mask) :
    1 ≤ (restrict T mask).length := by
  obtain ⟨i, hi, hm⟩ := exists_marked h
  rw [length_restrict]
  exact List.length_pos_of_mem (mem_maskIdx.mpr ⟨hi, hm⟩)

/-! ### `embed` commutes with `|·|`, with division by a constant, and preserves the sum -/

theorem scatter_map (f : Rat → Rat) (hf : f 0 = 0) (mask : List Bool) (w : Vec) :
    (scatter mask w).map f = scatter mask (w.map f) := by
  induction mask generalizing w with
  | nil => rfl
  | cons b bs ih =>
    cases b with
    | false => simp [scatter, ih, hf]
    | true => cases w <;> simp [scatter, ih, hf]

theorem sum_scatter (mask : List Bool) (w : Vec) (h : w.length ≤ (mask.filter id).length) :
    (scatter mask w).sum = w.sum := by
  induction mask generalizing w with
  | nil =>
    have : w = [] := by simpa using h
    subst this; rfl
  | cons b bs ih =>
    cases b with
    | false =>
      simp only [scatter, Bool.false_eq_true, ↓reduceIte, List.sum_cons, zero_add]
      exact ih w (by simpa using h)
    | true =>
      cases w with
      | nil =>
        simp only [scatter, ↓reduceIte, List.sum_cons, List.headD_nil, List.tail_nil, zero_add]
        exact ih [] (by simp)
      | cons y ys =>
        simp only [scatter, ↓reduceIte, List.sum_cons, List.headD_cons, List.tail_cons]
        rw [ih ys (by simpa using h)]

theorem embed_map (f : Rat → Rat) (hf : f 0 = 0) (w : Vec) (mask : List Bool) :
    (embed w mask).map f = embed (w.map f) mask := by
  rw [← scatter_eq_embed, ← scatter_eq_embed, scatter_map f hf]

theorem sum_embed (w : Vec) (mask : List Bool) (h : w.length = (maskIdx mask.length mask).length) :
    (embed w mask).sum = w.sum := by
  rw [← scatter_eq_embed]
  exact sum_scatter mask w (by rw [h, length_maskIdx_eq_count])

/-- `|e| / Σ|e|` of a zero-padded vector is the zero-padded `|v| / Σ|v|` -/
theorem absNormalize_embed (v : Vec) (mask : List Bool) (h : v.length = (maskIdx mask.length mask).length) :
    absNormalize (embed v mask) = embed (absNormalize v) mask := by
  unfold absNormalize npSum1
  rw [embed_map npAbs npAbs_zero, sum_embed _ _ (by simpa using h),
    embed_map (fun x => x / (v.map npAbs).sum) (by simp)]

end MsmVerif.Refine.Peq
