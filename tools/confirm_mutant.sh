#!/bin/bash
# tools/confirm_mutant.sh <seeded-id> <worktree>   — confirm in a scratch worktree: demo fails with / passes without, suite passes with
id="$1"; wt="$2"; S=/verif/seeded/$id
cd "$wt" || exit 9
git checkout -q -- . ; git clean -fdq
res="{}"
run_demo() { (cd "$wt" && PYTHONPATH="$wt/src" timeout 900 /venv/bin/python -W ignore "$S/demo.py" > /tmp/confirm_$id.demo.log 2>&1; echo $?); }
without=$(run_demo)
git apply "$S/patch.diff" || { echo "$id: patch does not apply"; exit 9; }
with=$(run_demo)
PYTHONPATH="$wt/src" timeout 1500 /venv/bin/python -m pytest -q -p no:cacheprovider --timeout=900 test/ > /tmp/confirm_$id.pytest.log 2>&1
summary=$(grep -E "passed|failed" /tmp/confirm_$id.pytest.log | tail -1)
git checkout -q -- . ; git clean -fdq
echo "$id demo_without=$without demo_with=$with pytest: $summary"
python3 - "$S/meta.json" "$without" "$with" "$summary" <<'PY'
import json,sys
p,wo,wi,s=sys.argv[1:5]
m=json.load(open(p))
m['confirmed']={'demo_exit_without_patch':int(wo),'demo_exit_with_patch':int(wi),'pytest_with_patch':s,
  'cmds':['PYTHONPATH=<wt>/src /venv/bin/python demo.py (clean / patched)','PYTHONPATH=<wt>/src /venv/bin/python -m pytest -q -p no:cacheprovider --timeout=900 test/ (patched)']}
json.dump(m,open(p,'w'),indent=1)
PY
