#!/usr/bin/env python3
"""py2lean — translator from the numba kernels of msmhelper (a small, explicit Python subset) to Lean 4.

    python3 harness/py2lean.py [--repo /repo] [--out lean/MsmVerif/Gen] [--check]

For every kernel listed in KERNELS the function's AST is read from <repo>/src/msmhelper/<file> and emitted as a Lean
`def` in `do` notation over the runtime library `MsmVerif/Gen/PyRt.lean` (monad `Py = Except Err`, or `PyR` when the
kernel consumes `random.random()`).  The result, one file per source module, is what the refinement theorems of
`MsmVerif/Refine/*.lean` are about; it is regenerated from the working tree on every check run, so the theorems are
re-checked against what the code says now (DESIGN §2.4).

What the translation does (and nothing else):
* expressions are put into A-normal form: every operation that can raise (indexing, `.index`, division, kernel calls,
  `random.random()`) becomes its own `let t ← …` in Python's evaluation order; `and`/`or` with such operands short-circuit;
* every local that is assigned becomes a `let mut` declared at the top of the function (Python has function scope);
  `for`/`if`/`return`/`break`/`continue`/`raise` map to the same constructs of Lean's `do` notation;
* `while` becomes a fuel-bounded `for` (extra leading argument `fuel : Nat`; running out of fuel is an error, so a theorem
  `kernel fuel … = .ok …` contains the termination proof);
* types come from the signature table below (parameters, return type, and hints for locals that start as empty
  containers or as an integer literal but hold floats).
Anything outside the subset raises Unsupported — the check then treats the kernel as "no longer translated" (an
undischarged obligation), never as a silent default.
"""
import ast
import hashlib
import os
import sys
import textwrap


class Unsupported(Exception):
    pass


# --------------------------------------------------------------------------- kernel table
# types: Int | Rat | Bool | L[T] | T[A,B] | Dict
CUMMAT = 'T[L[L[Rat]],L[L[Int]]]'
EVT = 'L[T[Int,Int]]'
PATHS = 'L[T[L[Int],Int]]'
KERNELS = [
    ('msm/msm.py', 'MsmMsm', [
        ('_generate_transition_count_matrix', dict(params=['L[L[Int]]', 'Int', 'Int'], ret='L[L[Int]]')),
    ]),
    ('md/corrections.py', 'MdCorrections', [
        ('_remains_in_core', dict(params=['Int', 'L[Int]', 'Int', 'Bool'], ret='Bool')),
        ('_find_first_core', dict(params=['L[Int]', 'Int'], ret='Int')),
        ('_dynamical_coring_single_traj', dict(params=['L[Int]', 'Int', 'Bool'], ret='L[Int]')),
        ('_dynamical_coring_single_lagtime', dict(params=['L[L[Int]]', 'Int', 'Bool'], ret='L[L[Int]]')),
        ('_dynamical_coring', dict(params=['L[L[Int]]', 'Int', 'Bool'], ret='L[L[Int]]', locals={'lagtimes': 'L[Int]'})),
    ]),
    ('md/timescales.py', 'MdTimescales', [
        ('_estimate_events_singletraj', dict(params=['L[Int]', 'L[Int]', 'L[Int]'], ret=EVT, locals={'paths_idx': EVT})),
        ('_estimate_waiting_times_singletraj', dict(params=['L[Int]', 'L[Int]', 'L[Int]'], ret='L[Int]')),
        ('_estimate_waiting_times', dict(params=['L[L[Int]]', 'L[Int]', 'L[Int]'], ret='L[Int]', locals={'times': 'L[Int]'})),
        ('_estimate_paths_singletraj', dict(params=['L[Int]', 'L[Int]', 'L[Int]'], ret=PATHS,
                                            locals={'paths': PATHS, 'path': 'L[Int]'})),
        ('_estimate_paths', dict(params=['L[L[Int]]', 'L[Int]', 'L[Int]'], ret=PATHS, locals={'paths': PATHS})),
    ]),
    ('msm/timescales.py', 'MsmTimescales', [
        ('_propagate_MCMC_step', dict(params=[CUMMAT, 'Int'], ret='Int')),
        ('_estimate_waiting_times', dict(params=[CUMMAT, 'Int', 'L[Int]', 'L[Int]', 'Int'], ret='Dict', locals={'wts': 'Dict'})),
        ('_estimate_transition_times', dict(params=[CUMMAT, 'Int', 'L[Int]', 'L[Int]', 'Int'], ret='Dict', locals={'tpts': 'Dict'})),
        ('_propagate_MCMC', dict(params=[CUMMAT, 'Int', 'Int'], ret='L[Int]', locals={'mcmc': 'L[Int]'})),
    ]),
    ('md/comparison.py', 'MdComparison', [
        ('_intersect', dict(params=['L[Int]', 'L[Int]'], ret='Int')),
        ('_intersect_array', dict(params=['L[L[Int]]', 'L[L[Int]]'], ret='L[L[Rat]]', locals={'intersect': 'L[L[Rat]]'})),
        ('_compare_trajs_symmetric', dict(params=['L[Int]', 'L[Int]', 'L[L[Rat]]', 'L[L[Rat]]'], ret='Rat',
                                          locals={'similarity': 'Rat'})),
        ('_compare_trajs_directed', dict(params=['L[Int]', 'L[Int]', 'L[L[Rat]]', 'L[L[Rat]]'], ret='Rat',
                                         locals={'similarity': 'Rat'})),
    ]),
    ('utils/_utils.py', 'UtilsUtils', [
        ('find_first', dict(params=['Int', 'L[Int]'], ret='Int')),
    ]),
]

ERRS = {'LagtimeError': 'Err.lagtime', 'ValueError': 'Err.value', 'TypeError': 'Err.type', 'IndexError': 'Err.index',
        'NotImplementedError': 'Err.notImplemented', 'AssertionError': 'Err.assertion', 'FileError': 'Err.file',
        'AssumptionViolated': 'Err.other'}      # raised by the guards the array dialect inserts for the `assume` table of a specialisation


# --------------------------------------------------------------------------- types

def parse_type(s):
    s = s.strip()
    if s in ('Int', 'Rat', 'Bool', 'Dict', 'Unit', 'Cx'):
        return s
    if s.startswith('L[') and s.endswith(']'):
        return ('L', parse_type(s[2:-1]))
    if s.startswith('T[') and s.endswith(']'):
        inner, depth, parts, cur = s[2:-1], 0, [], ''
        for ch in inner:
            if ch == '[':
                depth += 1
            if ch == ']':
                depth -= 1
            if ch == ',' and depth == 0:
                parts.append(cur)
                cur = ''
            else:
                cur += ch
        parts.append(cur)
        return ('T',) + tuple(parse_type(p) for p in parts)
    raise Unsupported('type ' + s)


def lean_type(t):
    if t == 'Dict':
        return 'PyDict'
    if isinstance(t, str):
        return t
    if t[0] == 'L':
        return 'List %s' % lean_atom(t[1])
    if t[0] == 'T':
        return ' × '.join(lean_atom(x) for x in t[1:])
    raise Unsupported(str(t))


def lean_atom(t):
    s = lean_type(t)
    return s if (' ' not in s) else '(%s)' % s


def lean_name(n):
    return n.lstrip('_')


# --------------------------------------------------------------------------- function translator

class Fn:
    def __init__(self, node, sig, module_fns, src_file, ns=''):
        self.ns = ns
        self.node = node
        self.name = node.name
        self.sig = sig
        self.mod = module_fns          # name -> Fn (same module, for calls)
        self.src_file = src_file
        args = [a.arg for a in node.args.args]
        if len(args) != len(sig['params']):
            raise Unsupported('%s: signature table has %d parameters, source has %d' % (self.name, len(sig['params']), len(args)))
        if node.args.vararg or node.args.kwarg or node.args.kwonlyargs:
            raise Unsupported('%s: *args/**kwargs/keyword-only' % self.name)
        self.params = args
        self.ptypes = [parse_type(p) for p in sig['params']]
        self.ret = parse_type(sig['ret'])
        self.hints = {k: parse_type(v) for k, v in sig.get('locals', {}).items()}
        self.uses_random = self._scan(lambda n: isinstance(n, ast.Call) and self._callname(n) == 'random.random')
        self.uses_while = self._scan(lambda n: isinstance(n, ast.While))
        self.callees = set()
        for n in ast.walk(node):
            if isinstance(n, ast.Call) and isinstance(n.func, ast.Name):
                self.callees.add(n.func.id)
        self.tmp = 0
        self.env = {}

    def _scan(self, pred):
        return any(pred(n) for n in ast.walk(self.node))

    @staticmethod
    def _callname(n):
        f = n.func
        if isinstance(f, ast.Name):
            return f.id
        if isinstance(f, ast.Attribute):
            parts = []
            while isinstance(f, ast.Attribute):
                parts.append(f.attr)
                f = f.value
            if isinstance(f, ast.Name):
                parts.append(f.id)
                return '.'.join(reversed(parts))
        return None

    # ----- helpers
    def fresh(self):
        self.tmp += 1
        return 't%d' % self.tmp

    def monad(self):
        return 'PyR' if self.uses_random else 'Py'

    # ----- pass 1: variable types
    def assigned_names(self):
        """all names bound by assignment (not loop targets / comprehension variables), in order of first appearance"""
        out = []

        def add(t):
            if isinstance(t, ast.Name):
                if t.id not in out:
                    out.append(t.id)
            elif isinstance(t, ast.Tuple):
                for e in t.elts:
                    add(e)
            elif isinstance(t, ast.Subscript):
                add(t.value)
            else:
                raise Unsupported('%s: assignment target %s' % (self.name, ast.dump(t)))

        def walk(stmts):
            for s in stmts:
                if isinstance(s, ast.Assign):
                    for t in s.targets:
                        add(t)
                elif isinstance(s, ast.AugAssign):
                    add(s.target)
                elif isinstance(s, ast.Expr) and isinstance(s.value, ast.Call) and isinstance(s.value.func, ast.Attribute) \
                        and s.value.func.attr in ('append', 'extend') and isinstance(s.value.func.value, ast.Name):
                    add(s.value.func.value)
                elif isinstance(s, (ast.For, ast.While)):
                    walk(s.body)
                    if s.orelse:
                        raise Unsupported('%s: loop else' % self.name)
                elif isinstance(s, ast.If):
                    walk(s.body)
                    walk(s.orelse)
        walk(self.node.body)
        return out

    def loop_targets(self):
        out = set()
        for n in ast.walk(self.node):
            if isinstance(n, ast.For):
                for e in ast.walk(n.target):
                    if isinstance(e, ast.Name):
                        out.add(e.id)
        return out

    def infer_types(self):
        """forward pass: type of every variable (parameters, assigned locals, loop targets)"""
        env = dict(zip(self.params, self.ptypes))
        env.update(self.hints)
        self.env = env

        def bind(target, typ):
            if isinstance(target, ast.Name):
                if target.id in self.hints:
                    return
                old = env.get(target.id)
                if old is not None and old != typ:
                    if {old, typ} == {'Int', 'Rat'}:
                        raise Unsupported('%s: variable %s holds Int and Rat — add a hint' % (self.name, target.id))
                    raise Unsupported('%s: variable %s has types %s and %s' % (self.name, target.id, old, typ))
                env[target.id] = typ
            elif isinstance(target, ast.Tuple):
                if not (isinstance(typ, tuple) and typ[0] == 'T' and len(typ) - 1 == len(target.elts)):
                    raise Unsupported('%s: tuple target against %s' % (self.name, typ))
                for e, t in zip(target.elts, typ[1:]):
                    bind(e, t)
            elif isinstance(target, ast.Subscript):
                pass
            else:
                raise Unsupported('target')

        def walk(stmts):
            for s in stmts:
                if isinstance(s, ast.Assign):
                    if len(s.targets) != 1:
                        raise Unsupported('%s: chained assignment' % self.name)
                    t = s.targets[0]
                    if isinstance(t, ast.Tuple) and isinstance(s.value, ast.Tuple):
                        for a, b in zip(t.elts, s.value.elts):
                            bind(a, self.typeof(b))
                    elif isinstance(t, ast.Name) and t.id in self.hints:
                        pass
                    else:
                        bind(t, self.typeof(s.value))
                elif isinstance(s, ast.For):
                    it = self.typeof(s.iter)
                    if not (isinstance(it, tuple) and it[0] == 'L'):
                        raise Unsupported('%s: for over %s' % (self.name, it))
                    bind(s.target, it[1])
                    walk(s.body)
                elif isinstance(s, ast.While):
                    walk(s.body)
                elif isinstance(s, ast.If):
                    walk(s.body)
                    walk(s.orelse)
        walk(self.node.body)

    # ----- expression typing (no code)
    def typeof(self, e):
        return self.ex(e, dry=True)[2]

    # ----- expressions: returns (pre-statements, code, type)
    def cast(self, code, frm, to):
        if frm == to:
            return code
        if frm == 'Int' and to == 'Rat':
            return '((%s : Int) : Rat)' % code
        raise Unsupported('%s: cannot use %s where %s is needed (%s)' % (self.name, frm, to, code))

    def ex(self, e, dry=False, want=None):
        """A-normalising expression compiler.  `want` is a type the context needs (for literals / casts)."""
        pre = []

        def sub(x, want=None):
            p, c, t = self.ex(x, dry=dry, want=want)
            pre.extend(p)
            return c, t

        def eff(code, typ):
            """bind an effectful computation to a fresh name"""
            t = self.fresh() if not dry else 't'
            pre.append('let %s ← %s' % (t, code))
            return t, typ

        if isinstance(e, ast.Constant):
            if isinstance(e.value, bool):
                return pre, ('true' if e.value else 'false'), 'Bool'
            if isinstance(e.value, int):
                if want == 'Rat':
                    return pre, '(%d : Rat)' % e.value, 'Rat'
                return pre, '(%d : Int)' % e.value, 'Int'
            raise Unsupported('%s: constant %r' % (self.name, e.value))
        if isinstance(e, ast.Name):
            if e.id not in self.env:
                raise Unsupported('%s: unknown name %s' % (self.name, e.id))
            return pre, e.id, self.env[e.id]
        if isinstance(e, ast.UnaryOp):
            c, t = sub(e.operand, want)
            if isinstance(e.op, ast.Not):
                if t != 'Bool':
                    raise Unsupported('%s: not on %s' % (self.name, t))
                return pre, '(!%s)' % c, 'Bool'
            if isinstance(e.op, ast.USub):
                return pre, '(-%s)' % c, t
            raise Unsupported('unary')
        if isinstance(e, ast.BinOp):
            a, ta = sub(e.left)
            b, tb = sub(e.right)
            if isinstance(e.op, ast.Div):
                a, b = self.cast(a, ta, 'Rat'), self.cast(b, tb, 'Rat')
                c, t = eff('pyTrueDiv %s %s' % (a, b), 'Rat')
                return pre, c, t
            ops = {ast.Add: '+', ast.Sub: '-', ast.Mult: '*'}
            if type(e.op) not in ops:
                raise Unsupported('%s: operator %s' % (self.name, type(e.op).__name__))
            if isinstance(ta, tuple) and ta[0] == 'L' and isinstance(e.op, ast.Add):
                return pre, '(%s ++ %s)' % (a, b), ta
            t = 'Rat' if 'Rat' in (ta, tb) else 'Int'
            if ta not in ('Int', 'Rat') or tb not in ('Int', 'Rat'):
                raise Unsupported('%s: arithmetic on %s, %s' % (self.name, ta, tb))
            return pre, '(%s %s %s)' % (self.cast(a, ta, t), ops[type(e.op)], self.cast(b, tb, t)), t
        if isinstance(e, ast.BoolOp):
            op = '&&' if isinstance(e.op, ast.And) else '||'
            short = 'false' if isinstance(e.op, ast.And) else 'true'
            acc_c, acc_t = sub(e.values[0])
            for v in e.values[1:]:
                p2, c2, t2 = self.ex(v, dry=dry)
                if acc_t != 'Bool' or t2 != 'Bool':
                    raise Unsupported('%s: and/or on non-Bool' % self.name)
                if not p2:
                    acc_c = '(%s %s %s)' % (acc_c, op, c2)
                else:
                    # short-circuit: the right operand may raise / consume randomness
                    t = self.fresh() if not dry else 't'
                    body = '; '.join(p2 + ['pure %s' % c2])
                    cond = acc_c if isinstance(e.op, ast.And) else '(!%s)' % acc_c
                    pre.append('let %s ← (if %s then (do %s) else pure %s)' % (t, cond, body, short))
                    acc_c = t
            return pre, acc_c, 'Bool'
        if isinstance(e, ast.Compare):
            if len(e.ops) != 1:
                raise Unsupported('%s: chained comparison' % self.name)
            a, ta = sub(e.left)
            b, tb = sub(e.comparators[0])
            o = e.ops[0]
            if isinstance(o, (ast.In, ast.NotIn)):
                if tb == 'Dict':
                    c = 'pyDictHas %s %s' % (b, a)
                elif tb == ('L', 'Int') and ta == 'Int':
                    c = 'pyIn %s %s' % (a, b)
                else:
                    raise Unsupported('%s: membership %s in %s' % (self.name, ta, tb))
                return pre, ('(%s)' % c) if isinstance(o, ast.In) else '(!(%s))' % c, 'Bool'
            if ta != tb:
                if {ta, tb} == {'Int', 'Rat'}:
                    a, b = self.cast(a, ta, 'Rat'), self.cast(b, tb, 'Rat')
                else:
                    raise Unsupported('%s: comparing %s with %s' % (self.name, ta, tb))
            if isinstance(o, ast.Eq):
                return pre, '(%s == %s)' % (a, b), 'Bool'
            if isinstance(o, ast.NotEq):
                return pre, '(%s != %s)' % (a, b), 'Bool'
            sym = {ast.Lt: '<', ast.LtE: '≤', ast.Gt: '>', ast.GtE: '≥'}
            if type(o) not in sym:
                raise Unsupported('compare op')
            if ta not in ('Int', 'Rat'):
                raise Unsupported('%s: ordering on %s' % (self.name, ta))
            return pre, '(decide (%s %s %s))' % (a, sym[type(o)], b), 'Bool'
        if isinstance(e, ast.IfExp):
            p1, c1, t1 = self.ex(e.body, dry=dry, want=want)
            p2, c2, t2 = self.ex(e.orelse, dry=dry, want=want)
            c0, t0 = sub(e.test)
            if t1 != t2 or t0 != 'Bool':
                raise Unsupported('%s: conditional expression types' % self.name)
            if p1 or p2:
                t = self.fresh() if not dry else 't'
                pre.append('let %s ← (if %s then (do %s) else (do %s))'
                           % (t, c0, '; '.join(p1 + ['pure %s' % c1]), '; '.join(p2 + ['pure %s' % c2])))
                return pre, t, t1
            return pre, '(if %s then %s else %s)' % (c0, c1, c2), t1
        if isinstance(e, ast.Tuple):
            cs = [sub(x) for x in e.elts]
            return pre, '(%s)' % ', '.join(c for c, _ in cs), ('T',) + tuple(t for _, t in cs)
        if isinstance(e, ast.List):
            if not e.elts:
                if want is None:
                    raise Unsupported('%s: empty list literal without a type hint' % self.name)
                return pre, '[]', want
            cs = [sub(x) for x in e.elts]
            return pre, '[%s]' % ', '.join(c for c, _ in cs), ('L', cs[0][1])
        if isinstance(e, ast.Dict):
            if e.keys:
                raise Unsupported('dict literal')
            return pre, '([] : PyDict)', 'Dict'
        if isinstance(e, ast.Subscript):
            v, tv = sub(e.value)
            sl = e.slice
            if isinstance(sl, ast.Slice):
                if sl.step is not None:
                    raise Unsupported('%s: slice step' % self.name)
                lo = 'none'
                hi = 'none'
                if sl.lower is not None:
                    c, t = sub(sl.lower)
                    lo = '(some %s)' % c
                if sl.upper is not None:
                    c, t = sub(sl.upper)
                    hi = '(some %s)' % c
                if not (isinstance(tv, tuple) and tv[0] == 'L'):
                    raise Unsupported('slice of %s' % (tv,))
                return pre, '(pySlice %s %s %s)' % (v, lo, hi), tv
            if isinstance(sl, ast.Tuple):
                if len(sl.elts) != 2 or not (isinstance(tv, tuple) and tv[0] == 'L' and isinstance(tv[1], tuple) and tv[1][0] == 'L'):
                    raise Unsupported('%s: 2-d index' % self.name)
                i, _ = sub(sl.elts[0])
                j, _ = sub(sl.elts[1])
                c, t = eff('pyGet2 %s %s %s' % (v, i, j), tv[1][1])
                return pre, c, t
            i, ti = sub(sl)
            if tv == 'Dict':
                c, t = eff('pyDictGet %s %s' % (v, i), 'Int')
                return pre, c, t
            if not (isinstance(tv, tuple) and tv[0] == 'L') or ti != 'Int':
                raise Unsupported('%s: index %s[%s]' % (self.name, tv, ti))
            c, t = eff('pyGet %s %s' % (v, i), tv[1])
            return pre, c, t
        if isinstance(e, ast.ListComp):
            if len(e.generators) != 1 or e.generators[0].ifs or e.generators[0].is_async:
                raise Unsupported('%s: comprehension shape' % self.name)
            g = e.generators[0]
            it, tit = sub(g.iter)
            if not (isinstance(tit, tuple) and tit[0] == 'L'):
                raise Unsupported('comprehension over %s' % (tit,))
            saved = dict(self.env)
            pat = self.pattern(g.target, tit[1])
            pb, cb, tb = self.ex(e.elt, dry=dry)
            self.env = saved
            if pb:
                t = self.fresh() if not dry else 't'
                pre.append('let %s ← (%s).mapM (fun %s => do %s)' % (t, it, pat, '; '.join(pb + ['pure %s' % cb])))
                return pre, t, ('L', tb)
            return pre, '((%s).map (fun %s => %s))' % (it, pat, cb), ('L', tb)
        if isinstance(e, ast.Call):
            name = self._callname(e)
            args = e.args
            if name == 'len':
                c, t = sub(args[0])
                return pre, '(pyLen %s)' % c, 'Int'
            if name in ('range', 'numba.prange'):
                if len(args) == 1:
                    c, _ = sub(args[0])
                    return pre, '(pyRange 0 %s)' % c, ('L', 'Int')
                if len(args) == 2:
                    a, _ = sub(args[0])
                    b, _ = sub(args[1])
                    return pre, '(pyRange %s %s)' % (a, b), ('L', 'Int')
                raise Unsupported('range with step')
            if name == 'zip':
                a, ta = sub(args[0])
                b, tb = sub(args[1])
                return pre, '(pyZip %s %s)' % (a, b), ('L', ('T', ta[1], tb[1]))
            if name == 'enumerate':
                a, ta = sub(args[0])
                return pre, '(pyEnumerate %s)' % a, ('L', ('T', 'Int', ta[1]))
            if name == 'int':
                c, t = sub(args[0])
                if t != 'Int':
                    raise Unsupported('int() of %s' % (t,))
                return pre, c, 'Int'
            if name == 'max':
                if len(args) == 1 and isinstance(args[0], ast.List) and args[0].elts:
                    cs = [sub(x) for x in args[0].elts]
                    ts = {t for _, t in cs}
                    if ts != {'Rat'}:
                        raise Unsupported('%s: max over %s' % (self.name, ts))
                    return pre, '(pyMaxOf %s [%s])' % (cs[0][0], ', '.join(c for c, _ in cs[1:])), 'Rat'
                raise Unsupported('max form')
            if name in ('np.zeros', 'np.empty'):
                shape = args[0]
                dt = None
                for k in e.keywords:
                    if k.arg == 'dtype':
                        dt = self._callname(ast.Call(func=k.value, args=[], keywords=[])) if isinstance(k.value, ast.Attribute) else None
                elem = 'Rat' if (dt and 'float' in dt) else 'Int'
                zero = '(0 : %s)' % elem
                if isinstance(shape, ast.Tuple):
                    if len(shape.elts) != 2:
                        raise Unsupported('shape')
                    a, _ = sub(shape.elts[0])
                    b, _ = sub(shape.elts[1])
                    return pre, '(pyFull2 %s %s %s)' % (a, b, zero), ('L', ('L', elem))
                a, _ = sub(shape)
                return pre, '(pyFull1 %s %s)' % (a, zero), ('L', elem)
            if name in ('np.array', 'numba.typed.List', 'list'):
                c, t = sub(args[0], want=want)
                return pre, c, t
            if name == 'np.argmax':
                c, t = sub(args[0])
                if t != ('L', 'Rat'):
                    raise Unsupported('argmax of %s' % (t,))
                return pre, '(pyArgmax %s)' % c, 'Int'
            if name == 'random.random':
                c, t = eff('pyRandom', 'Rat')
                return pre, c, t
            if isinstance(e.func, ast.Attribute) and e.func.attr == 'copy' and not args:
                c, t = sub(e.func.value)
                return pre, c, t
            if isinstance(e.func, ast.Attribute) and e.func.attr == 'index' and len(args) == 1:
                v, tv = sub(e.func.value)
                a, ta = sub(args[0])
                if tv != ('L', 'Int') or ta != 'Int':
                    raise Unsupported('.index on %s' % (tv,))
                c, t = eff('pyIndex %s %s' % (v, a), 'Int')
                return pre, c, t
            if isinstance(e.func, ast.Name) and e.func.id in self.mod:
                callee = self.mod[e.func.id]
                actual = {}
                for p, a in zip(callee.params, args):
                    actual[p] = a
                for k in e.keywords:
                    if k.arg not in callee.params or k.arg in actual:
                        raise Unsupported('%s: call of %s with keyword %s' % (self.name, callee.name, k.arg))
                    actual[k.arg] = k.value
                if set(actual) != set(callee.params):
                    raise Unsupported('%s: call of %s misses arguments' % (self.name, callee.name))
                cs = []
                for p, pt in zip(callee.params, callee.ptypes):
                    c, t = sub(actual[p], want=pt)
                    cs.append(self.cast(c, t, pt))
                head = 'MsmVerif.Gen.%s.%s' % (self.ns, lean_name(callee.name)) + (' fuel' if callee.needs_fuel() else '')
                c, t = eff('%s %s' % (head, ' '.join(cs)), callee.ret)
                return pre, c, t
            raise Unsupported('%s: call of %s' % (self.name, name or ast.dump(e.func)))
        raise Unsupported('%s: expression %s' % (self.name, type(e).__name__))

    def pattern(self, target, typ):
        """binder pattern for loop / comprehension targets; binds the names in env"""
        if isinstance(target, ast.Name):
            self.env[target.id] = typ
            return target.id
        if isinstance(target, ast.Tuple):
            if not (isinstance(typ, tuple) and typ[0] == 'T' and len(typ) - 1 == len(target.elts)):
                raise Unsupported('%s: tuple pattern against %s' % (self.name, typ))
            return '(%s)' % ', '.join(self.pattern(e, t) for e, t in zip(target.elts, typ[1:]))
        raise Unsupported('pattern')

    def needs_fuel(self, seen=None):
        seen = seen or set()
        if self.name in seen:
            return False
        seen.add(self.name)
        return self.uses_while or any(self.mod[c].needs_fuel(seen) for c in self.callees if c in self.mod and c != self.name)

    def needs_random(self, seen=None):
        seen = seen or set()
        if self.name in seen:
            return False
        seen.add(self.name)
        return self.uses_random or any(self.mod[c].needs_random(seen) for c in self.callees if c in self.mod and c != self.name)

    # ----- statements
    def block(self, stmts, ind):
        out = []
        for s in stmts:
            out.extend(self.stmt(s, ind))
            if getattr(self, '_dead', False):
                self._dead = False            # a statically taken branch ended in return / raise: the rest of this block is unreachable
                break
        if not out:
            out.append(' ' * ind + 'pure ()')
        return out

    def assign_to(self, target, code, typ, ind):
        sp = ' ' * ind
        if isinstance(target, ast.Name):
            want = self.env[target.id]
            if target.id in self.late and target.id not in self.declared:
                # first assignment sits at the top level of the function body: declare the variable here
                self.declared.add(target.id)
                return [sp + 'let mut %s : %s := %s' % (target.id, lean_type(want), self.cast(code, typ, want))]
            return [sp + '%s := %s' % (target.id, self.cast(code, typ, want))]
        raise Unsupported('assign')

    def stmt(self, s, ind):
        sp = ' ' * ind
        out = []

        def emit_pre(pre):
            for p in pre:
                out.append(sp + p)

        if isinstance(s, ast.Expr):
            if isinstance(s.value, ast.Constant) and isinstance(s.value.value, str):
                return []      # docstring
            v = s.value
            if isinstance(v, ast.Call) and isinstance(v.func, ast.Attribute) and v.func.attr in ('append', 'extend') \
                    and isinstance(v.func.value, ast.Name):
                lst = v.func.value.id
                tl = self.env[lst]
                if not (isinstance(tl, tuple) and tl[0] == 'L'):
                    raise Unsupported('%s: append on %s' % (self.name, tl))
                if v.func.attr == 'append':
                    pre, c, t = self.ex(v.args[0], want=tl[1])
                    emit_pre(pre)
                    out.append(sp + '%s := %s ++ [%s]' % (lst, lst, self.cast(c, t, tl[1])))
                else:
                    pre, c, t = self.ex(v.args[0], want=tl)
                    emit_pre(pre)
                    if t != tl:
                        raise Unsupported('%s: extend %s with %s' % (self.name, tl, t))
                    out.append(sp + '%s := %s ++ %s' % (lst, lst, c))
                return out
            raise Unsupported('%s: expression statement' % self.name)
        if isinstance(s, ast.Pass):
            return [sp + 'pure ()']
        if isinstance(s, ast.Continue):
            return [sp + 'continue']
        if isinstance(s, ast.Break):
            return [sp + 'break']
        if isinstance(s, ast.Return):
            if s.value is None:
                raise Unsupported('bare return')
            pre, c, t = self.ex(s.value, want=self.ret)
            emit_pre(pre)
            out.append(sp + 'return %s' % self.cast(c, t, self.ret))
            return out
        if isinstance(s, ast.Raise):
            exc = s.exc
            nm = exc.func.id if isinstance(exc, ast.Call) and isinstance(exc.func, ast.Name) else (exc.id if isinstance(exc, ast.Name) else None)
            if nm not in ERRS:
                raise Unsupported('%s: raise %s' % (self.name, nm))
            return [sp + 'throw %s' % ERRS[nm]]
        if isinstance(s, ast.Assign):
            t = s.targets[0]
            if isinstance(t, ast.Tuple):
                if isinstance(s.value, ast.Tuple) and len(s.value.elts) == len(t.elts):
                    vals = []
                    for te, ve in zip(t.elts, s.value.elts):
                        if not isinstance(te, ast.Name):
                            raise Unsupported('tuple target element')
                        pre, c, ty = self.ex(ve, want=self.env.get(te.id))
                        emit_pre(pre)
                        vals.append((te, c, ty))
                    # python evaluates the whole right-hand side first: bind to temporaries when a target is read on the right
                    names = {te.id for te, _, _ in vals}
                    reads = {n.id for ve in s.value.elts for n in ast.walk(ve) if isinstance(n, ast.Name)}
                    if names & reads:
                        tmps = []
                        for te, c, ty in vals:
                            tn = self.fresh()
                            out.append(sp + 'let %s := %s' % (tn, c))
                            tmps.append((te, tn, ty))
                        vals = tmps
                    for te, c, ty in vals:
                        out.extend(self.assign_to(te, c, ty, ind))
                    return out
                pre, c, ty = self.ex(s.value)
                emit_pre(pre)
                if not (isinstance(ty, tuple) and ty[0] == 'T' and len(ty) - 1 == len(t.elts)):
                    raise Unsupported('%s: unpacking %s' % (self.name, ty))
                for k, te in enumerate(t.elts):
                    if not isinstance(te, ast.Name):
                        raise Unsupported('tuple target element')
                tn = self.fresh()
                out.append(sp + 'let %s := %s' % (tn, c))
                proj = tn
                for k, te in enumerate(t.elts):
                    last = (k == len(t.elts) - 1)
                    acc = proj if last else proj + '.1'
                    out.extend(self.assign_to(te, acc, ty[1 + k], ind))
                    proj = proj + '.2'
                return out
            if isinstance(t, ast.Name):
                pre, c, ty = self.ex(s.value, want=self.env.get(t.id))
                emit_pre(pre)
                out.extend(self.assign_to(t, c, ty, ind))
                return out
            if isinstance(t, ast.Subscript) and isinstance(t.value, ast.Name):
                arr = t.value.id
                ta = self.env[arr]
                if ta == 'Dict':
                    pi, ci, _ = self.ex(t.slice)
                    emit_pre(pi)
                    pv, cv, tv = self.ex(s.value, want='Int')
                    emit_pre(pv)
                    out.append(sp + '%s := pyDictSet %s %s %s' % (arr, arr, ci, cv))
                    return out
                if isinstance(t.slice, ast.Tuple):
                    i = self.ex(t.slice.elts[0])
                    j = self.ex(t.slice.elts[1])
                    emit_pre(i[0]); emit_pre(j[0])
                    elem = ta[1][1]
                    pv, cv, tv = self.ex(s.value, want=elem)
                    emit_pre(pv)
                    out.append(sp + '%s ← pySet2 %s %s %s %s' % (arr, arr, i[1], j[1], self.cast(cv, tv, elem)))
                    return out
                if isinstance(t.slice, ast.Slice):
                    raise Unsupported('%s: slice assignment' % self.name)
                pi, ci, _ = self.ex(t.slice)
                emit_pre(pi)
                elem = ta[1]
                pv, cv, tv = self.ex(s.value, want=elem)
                emit_pre(pv)
                out.append(sp + '%s ← pySet %s %s %s' % (arr, arr, ci, self.cast(cv, tv, elem)))
                return out
            raise Unsupported('%s: assignment form' % self.name)
        if isinstance(s, ast.AugAssign):
            ops = {ast.Add: '+', ast.Sub: '-', ast.Mult: '*'}
            if type(s.op) not in ops:
                raise Unsupported('augmented operator')
            op = ops[type(s.op)]
            t = s.target
            if isinstance(t, ast.Name):
                ty = self.env[t.id]
                pv, cv, tv = self.ex(s.value, want=ty)
                emit_pre(pv)
                out.append(sp + '%s := %s %s %s' % (t.id, t.id, op, self.cast(cv, tv, ty)))
                return out
            if isinstance(t, ast.Subscript) and isinstance(t.value, ast.Name):
                arr = t.value.id
                ta = self.env[arr]
                if ta == 'Dict':
                    pi, ci, _ = self.ex(t.slice)
                    emit_pre(pi)
                    old = self.fresh()
                    out.append(sp + 'let %s ← pyDictGet %s %s' % (old, arr, ci))
                    pv, cv, tv = self.ex(s.value, want='Int')
                    emit_pre(pv)
                    out.append(sp + '%s := pyDictSet %s %s (%s %s %s)' % (arr, arr, ci, old, op, cv))
                    return out
                if isinstance(t.slice, ast.Tuple):
                    i = self.ex(t.slice.elts[0])
                    j = self.ex(t.slice.elts[1])
                    emit_pre(i[0]); emit_pre(j[0])
                    elem = ta[1][1]
                    old = self.fresh()
                    out.append(sp + 'let %s ← pyGet2 %s %s %s' % (old, arr, i[1], j[1]))
                    pv, cv, tv = self.ex(s.value, want=elem)
                    emit_pre(pv)
                    out.append(sp + '%s ← pySet2 %s %s %s (%s %s %s)' % (arr, arr, i[1], j[1], old, op, self.cast(cv, tv, elem)))
                    return out
                pi, ci, _ = self.ex(t.slice)
                emit_pre(pi)
                elem = ta[1]
                old = self.fresh()
                out.append(sp + 'let %s ← pyGet %s %s' % (old, arr, ci))
                pv, cv, tv = self.ex(s.value, want=elem)
                emit_pre(pv)
                out.append(sp + '%s ← pySet %s %s (%s %s %s)' % (arr, arr, ci, old, op, self.cast(cv, tv, elem)))
                return out
            raise Unsupported('augmented target')
        if isinstance(s, ast.If):
            pre, c, t = self.ex(s.test)
            if t != 'Bool':
                raise Unsupported('%s: condition of type %s' % (self.name, t))
            emit_pre(pre)
            out.append(sp + 'if %s then' % c)
            out.extend(self.block(s.body, ind + 2))
            if s.orelse:
                out.append(sp + 'else')
                out.extend(self.block(s.orelse, ind + 2))
            return out
        if isinstance(s, ast.For):
            pre, c, t = self.ex(s.iter)
            emit_pre(pre)
            pat = self.pattern(s.target, t[1])
            out.append(sp + 'for %s in %s do' % (pat, c))
            out.extend(self.block(s.body, ind + 2))
            return out
        if isinstance(s, ast.While):
            out.append(sp + 'for _ in List.range fuel do')
            pre, c, t = self.ex(s.test)
            for p in pre:
                out.append(sp + '  ' + p)
            out.append(sp + '  if (!%s) then' % c)
            out.append(sp + '    break')
            out.extend(self.block(s.body, ind + 2))
            # fuel exhausted while the condition still holds: not a Python behaviour → error
            pre, c, t = self.ex(s.test)
            emit_pre(pre)
            out.append(sp + 'if %s then' % c)
            out.append(sp + '  throw pyFuel')
            return out
        raise Unsupported('%s: statement %s' % (self.name, type(s).__name__))

    def emit(self):
        self.infer_types()
        assigned = self.assigned_names()
        targets = self.loop_targets()
        for a in assigned:
            if a in targets:
                raise Unsupported('%s: %s is both a loop variable and assigned' % (self.name, a))
            if a not in self.env:
                raise Unsupported('%s: no type for local %s' % (self.name, a))
        self.uses_random = self.needs_random()
        params = ' '.join('(%s : %s)' % (p, lean_type(t)) for p, t in zip(self.params, self.ptypes))
        fuel = '(fuel : Nat) ' if self.needs_fuel() else ''
        head = 'def %s %s%s : %s %s := do' % (lean_name(self.name), fuel, params, self.monad(), lean_atom(self.ret))
        lines = [head]
        # a local whose first assignment (in source order) is a plain top-level `x = …` / `x, y = …` is declared there;
        # everything else (first assigned inside a loop / branch, or through `x[i] = …`, `x.append`) is declared up front
        self.late, self.declared = set(), set()
        first_seen = set()

        def first_targets(stmts, top):
            for st in stmts:
                if isinstance(st, ast.Assign):
                    t = st.targets[0]
                    names = [t] if isinstance(t, ast.Name) else (list(t.elts) if isinstance(t, ast.Tuple) else [])
                    for nm in names:
                        if isinstance(nm, ast.Name) and nm.id not in first_seen:
                            first_seen.add(nm.id)
                            if top and nm.id not in self.params:
                                self.late.add(nm.id)
                    if isinstance(t, ast.Subscript) and isinstance(t.value, ast.Name):
                        first_seen.add(t.value.id)
                elif isinstance(st, ast.AugAssign):
                    tt = st.target
                    first_seen.add(tt.id if isinstance(tt, ast.Name) else tt.value.id)
                elif isinstance(st, ast.Expr) and isinstance(st.value, ast.Call) and isinstance(st.value.func, ast.Attribute) \
                        and isinstance(st.value.func.value, ast.Name):
                    first_seen.add(st.value.func.value.id)
                elif isinstance(st, (ast.For, ast.While)):
                    first_targets(st.body, False)
                elif isinstance(st, ast.If):
                    first_targets(st.body, False)
                    first_targets(st.orelse, False)
        first_targets(self.node.body, True)
        for a in assigned:
            if a in self.params:
                lines.append('  let mut %s := %s' % (a, a))
            elif a not in self.late:
                lines.append('  let mut %s : %s := default' % (a, lean_type(self.env[a])))
        self.tmp = 0
        body = self.block(self.node.body, 2)
        lines.extend(body)
        return '\n'.join(lines)


# --------------------------------------------------------------------------- driver

def fn_source_hash(src, node):
    seg = ast.get_source_segment(src, node) or ''
    return hashlib.sha256(seg.encode()).hexdigest()[:16]


def translate_module(repo, relfile, ns, funcs):
    path = os.path.join(repo, 'src', 'msmhelper', relfile)
    src = open(path).read()
    tree = ast.parse(src)
    nodes = {n.name: n for n in tree.body if isinstance(n, ast.FunctionDef)}
    fns = {}
    problems = []
    for name, sig in funcs:
        if name not in nodes:
            problems.append('%s: function %s not found in %s' % (ns, name, relfile))
            continue
        import argwrites
        aw = argwrites.arg_writes(nodes[name])
        if aw:
            # arrays are immutable values in the translation: a kernel that writes through a parameter is not translated faithfully
            problems.append('%s: writes through its argument (%s) — not a pure function of its arguments' % (
                name, '; '.join('line %d: `%s`: %s' % x for x in aw[:3])))
            continue
        try:
            fns[name] = Fn(nodes[name], sig, fns, relfile, ns)
        except Unsupported as e:
            problems.append(str(e))
    # callees must be defined before callers in Lean: order by dependency
    order, seen = [], set()

    def visit(n):
        if n in seen or n not in fns:
            return
        seen.add(n)
        for c in sorted(fns[n].callees):
            if c != n:
                visit(c)
        order.append(n)
    for name, _ in funcs:
        visit(name)
    out = ['/-',
           'GENERATED by harness/py2lean.py from src/msmhelper/%s — do not edit.' % relfile,
           'Kernels: ' + ', '.join('%s@%s' % (n, fn_source_hash(src, nodes[n])) for n, _ in funcs if n in nodes),
           '-/',
           'import MsmVerif.Gen.PyRt',
           '',
           'set_option linter.unusedVariables false',
           '',
           'namespace MsmVerif.Gen.%s' % ns,
           '']
    for n in order:
        try:
            code = fns[n].emit()
        except Unsupported as e:
            problems.append(str(e))
            # dependents cannot be emitted either
            fns.pop(n)
            continue
        except KeyError as e:
            problems.append('%s: unknown name %s' % (n, e))
            fns.pop(n)
            continue
        doc = '/-- `%s` of `src/msmhelper/%s` -/' % (n, relfile)
        out.append(doc)
        out.append(code)
        out.append('')
    out.append('end MsmVerif.Gen.%s' % ns)
    out.append('')
    emitted = [fns[n] for n in order if n in fns]
    return '\n'.join(out), problems, emitted


def run_module(ns, relfile, emitted):
    """driver for the translated kernels of one module: `lake env lean --run MsmVerif/Gen/<ns>Run.lean`"""
    out = ['/-',
           'GENERATED by harness/py2lean.py — line-protocol driver for the translated kernels of src/msmhelper/%s.' % relfile,
           '-/',
           'import MsmVerif.Gen.%s' % ns,
           'import MsmVerif.Driver.GenCodec',
           '',
           'open Lean MsmVerif MsmVerif.Gen MsmVerif.GenCodec',
           '',
           'namespace MsmVerif.Gen.%sRun' % ns,
           '',
           'def dispatch (r : Req) : Except String Json :=',
           '  match r.k, r.args with']
    for f in emitted:
        n = len(f.params)
        pats = ', '.join('a%d' % i for i in range(n))
        call = 'MsmVerif.Gen.%s.%s%s %s' % (ns, lean_name(f.name), ' r.fuel' if f.needs_fuel() else '',
                                            ' '.join('(← JCodec.dec a%d)' % i for i in range(n)))
        enc = 'encPyR r.draws' if f.uses_random else 'encPy'
        out.append('  | "%s", [%s] => do return %s (%s)' % (f.name, pats, enc, call))
    out.append('  | k, _ => throw s!"unknown kernel or arity: {k}"')
    out.append('')
    out.append('end MsmVerif.Gen.%sRun' % ns)
    out.append('')
    out.append('def main : IO Unit := runMain MsmVerif.Gen.%sRun.dispatch' % ns)
    out.append('')
    return '\n'.join(out)


def translate_all(repo):
    """returns {filename: text}, {filename: [problems]}"""
    files, probs = {}, {}
    for relfile, ns, funcs in KERNELS:
        try:
            text, pr, emitted = translate_module(repo, relfile, ns, funcs)
            files[ns + 'Run.lean'] = run_module(ns, relfile, emitted)
            probs[ns + 'Run.lean'] = []
        except (SyntaxError, OSError, Unsupported) as e:
            text, pr = None, ['%s: %r' % (relfile, e)]
        files[ns + '.lean'] = text
        probs[ns + '.lean'] = pr
    import np2lean
    np2lean.translate_all(repo, files, probs)
    # the context the bodies are read in (decorators, imports, module-level bindings, class headers, re-exports) must be the pinned one
    import pins
    for fn, pr in pins.check(repo, files).items():
        if fn == '*':
            for k in probs:
                probs[k] = probs[k] + pr
        elif fn in probs:
            probs[fn] = probs[fn] + pr
    return files, probs


def main(argv):
    repo = '/repo'
    out = os.path.join(os.path.dirname(os.path.dirname(os.path.abspath(__file__))), 'lean', 'MsmVerif', 'Gen')
    check = False
    i = 1
    while i < len(argv):
        if argv[i] == '--repo':
            repo = argv[i + 1]; i += 2
        elif argv[i] == '--out':
            out = argv[i + 1]; i += 2
        elif argv[i] == '--check':
            check = True; i += 1
        else:
            print(__doc__); return 2
    files, probs = translate_all(repo)
    rc = 0
    for fn, text in files.items():
        for p in probs[fn]:
            print('PROBLEM %s: %s' % (fn, p))
            rc = 1
        if text is None:
            continue
        path = os.path.join(out, fn)
        old = open(path).read() if os.path.exists(path) else None
        if check:
            if old != text:
                print('DIFFERS %s' % fn)
                rc = 1
        elif old != text:
            os.makedirs(out, exist_ok=True)
            open(path, 'w').write(text)
            print('wrote %s' % path)
    return rc


if __name__ == '__main__':
    sys.exit(main(sys.argv))
