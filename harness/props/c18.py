"""C18 — analyses are pure: arguments untouched, repeatable, generator-independent (call-history differential)."""
import json

import numpy as np

import core
import gen

PID = 'C18'
ANCHORS = [('src/msmhelper/md/corrections.py', ['dynamical_coring', '_dynamical_coring_single_traj']),
           ('src/msmhelper/utils/_utils.py', ['shift_data', 'swapcols', 'rename_by_index', 'rename_by_population']),
           ('src/msmhelper/msm/msm.py', ['row_normalize_matrix', 'equilibrium_population']),
           ('src/msmhelper/statetraj.py', ['StateTraj.estimate_markov_model', 'StateTraj.index_trajs', 'StateTraj.trajs']),
           ('src/msmhelper/utils/filtering.py', ['gaussian_filter', 'runningmean']),
           ('src/msmhelper/msm/timescales.py', ['_estimate_times', 'propagate_MCMC', '_get_cummat', 'implied_timescales']),
           ('src/msmhelper/msm/tests.py', ['chapman_kolmogorov_test'])]
RULE = ('random histories of 6-14 (quick) / up to 40 (thorough) public calls on SHARED arguments (list of arrays, one shared StateTraj object, a shared '
        'unsorted lag-time ndarray, contiguous 1-d / 2-d label arrays with negative labels, a transition matrix, a coordinate table, relabelling lists): estimation, implied timescales, CK test, coring, md waiting '
        'times / paths, similarity, shift_data / rename_*, eigen / ergodicity / equilibrium, filters, and the sampling functions; interleaved with '
        'reseeding of the Python, NumPy and compiled generators. Every argument is snapshotted (bytes, dtype, shape) before and after every call; every '
        'deterministic call is repeated at a later point of the history and must return the same value; every sampling call is repeated after restoring '
        'the same generator seeds. Non-trivial = history contains a repeated call after an intervening call; distinct by history.')
RELATION = ('heap model (Heap.step): analyses only read; the real history must show unchanged argument snapshots and equal repeated outputs '
            '(theorems C18.args_unchanged / repeatable / access_deterministic say this of the model)')
PARTIAL = 'the theorem about the model is thin; the assurance is the history differential'
TRUSTED = ['snapshot comparison of numpy buffers; generator reseeding through random.seed, np.random.seed and a jitted random.seed']
DET = ['shift_flat', 'rename_idx_flat', 'rename_pop_flat', 'shift_2d', 'rename_idx_2d', 'unique_flat', 'est_big', 'est', 'est_obj', 'its', 'its_obj', 'ck', 'ck_obj', 'coring', 'coring_obj', 'wt', 'paths', 'sim', 'shift', 'rename_idx', 'rename_pop', 'unique',
       'eigl', 'peq', 'erg', 'mask', 'rownorm', 'matpow', 'gauss', 'rmean']
RND = ['mcmc', 'mcmc_obj', 'msm_wt', 'msm_wt_obj', 'msm_paths_obj']


def static_obligations():
    """syntactic side condition (harness/argwrites.py) on EVERY function of the package in the working tree: no function writes through one of its
    parameters (element / slice assignment, in-place operator, in-place method or numpy function on a name that may still alias a parameter).
    It is what lets the translator treat arrays as immutable values; a hit is an undischarged obligation (→ failing-input search), not a verdict."""
    import ast
    import os
    import argwrites
    root = os.path.join(core.REPO, 'src', 'msmhelper')
    hits, nfun = [], 0
    for dp, _dn, fns in os.walk(root):
        for f in sorted(fns):
            if not f.endswith('.py'):
                continue
            path = os.path.join(dp, f)
            try:
                tree = ast.parse(open(path).read())
            except SyntaxError as e:
                hits.append('%s: %r' % (os.path.relpath(path, root), e))
                continue
            for n in ast.walk(tree):
                if isinstance(n, (ast.FunctionDef, ast.AsyncFunctionDef)):
                    nfun += 1
                    for (ln, nm, what) in argwrites.arg_writes(n):
                        hits.append('%s:%d %s(): argument `%s`: %s' % (os.path.relpath(path, root), ln, n.name, nm, what))
    return [{'name': 'no function of src/msmhelper writes through a parameter (static alias analysis, harness/argwrites.py)', 'ok': not hits,
             'functions_checked': nfun, 'detail': hits[:20]}]


def cases(tier, rng, boost=1):
    # corpus: sampling on the shared object, then a deterministic model estimate at the same lag
    yield {'op': 'history', 'seed': 1, 'ops': [['msm_wt_obj', 1], ['est_obj', 2], ['seed', 3], ['mcmc_obj', 4], ['est_obj', 2], ['its_obj', 5]], 'src': 'corpus'}
    yield {'op': 'history', 'seed': 2, 'ops': [['ck', 1], ['its', 2], ['ck', 1], ['its', 2]], 'src': 'corpus'}
    yield {'op': 'history', 'seed': 3, 'ops': [['est_big', 0], ['est_big', 0], ['seed', 5], ['est_big', 0], ['est_big', 0]], 'src': 'corpus'}
    n = {'quick': 60, 'thorough': 800, 'search': 200}[tier] * boost
    for _ in range(n):
        k = rng.randint(6, 14 if tier == 'quick' else 40)
        ops = []
        for _i in range(k):
            r = rng.random()
            if r < 0.12:
                ops.append(['seed', rng.randrange(1000)])
            elif r < 0.3:
                ops.append([rng.choice(RND), rng.randrange(1000)])
            elif r < 0.5 and ops:
                prev = [o for o in ops if o[0] != 'seed']
                ops.append(list(rng.choice(prev)) if prev else [rng.choice(DET), rng.randrange(1000)])
            else:
                ops.append([rng.choice(DET), rng.randrange(6)])
        yield {'op': 'history', 'seed': rng.randrange(1 << 30), 'ops': ops, 'src': 'rand'}


def _canon(v):
    """canonical JSON-able value of any result (arrays → exact rationals / ints)"""
    import msmhelper as mh
    if isinstance(v, mh.StateTraj):
        return {'statetraj': [t.tolist() for t in v.trajs]}
    if isinstance(v, np.ma.MaskedArray):
        v = v.filled(np.nan)
    if isinstance(v, np.ndarray):
        if v.dtype.kind in 'iub':
            return {'a': v.tolist(), 'dt': str(v.dtype)}
        if v.dtype.kind == 'c':
            return {'c': [[repr(float(x.real)), repr(float(x.imag))] for x in v.reshape(-1)], 'shape': list(v.shape)}
        return {'f': [repr(float(x)) for x in v.reshape(-1)], 'shape': list(v.shape)}
    if isinstance(v, (list, tuple)):
        return [_canon(x) for x in v]
    if isinstance(v, dict):
        return {str(k): _canon(x) for k, x in sorted(v.items(), key=lambda kv: str(kv[0]))}
    if isinstance(v, (np.generic,)):
        return _canon(np.asarray(v).reshape(1))
    if isinstance(v, float):
        return repr(v)
    return v


def _snap(a):
    import msmhelper as mh
    if isinstance(a, mh.StateTraj):
        return ('obj', [t.tobytes() for t in a._trajs], a._states.tobytes(), [str(t.dtype) for t in a._trajs])
    if isinstance(a, np.ndarray):
        return ('arr', a.tobytes(), str(a.dtype), a.shape)
    if isinstance(a, (list, tuple)):
        return ('seq', [_snap(x) for x in a])
    return ('val', repr(a))


def real(case):
    import random
    import numba
    import msmhelper as mh
    from msmhelper.msm import timescales as ts
    from msmhelper.msm.utils import linalg
    from msmhelper.utils import tests as tst, filtering
    rng = core.Rng(case['seed'])

    @numba.njit
    def nb_seed(s):
        random.seed(s)

    def reseed(s):
        random.seed(s)
        np.random.seed(s)
        if not numba.config.DISABLE_JIT:
            nb_seed(s)

    ns = rng.randint(3, 5)
    labs, _ = gen.alphabet(rng, ns, cls=rng.choice(['zero', 'one', 'gapped']))
    idx = [gen.random_traj(rng, ns, rng.randint(30, 60), 0.5) for _ in range(rng.randint(1, 3))]
    for t in idx:
        t[:ns] = list(range(ns))
    shared = {
        'trajs': [np.array(t, dtype=np.int64) for t in gen.relabel(idx, labs)],
        'trajs2': [np.array([(x * 3 + 1) % 4 for x in t], dtype=np.int64) for t in idx],
        'lags': np.array([3, 1, 2]),                       # deliberately unsorted ndarray
        # a transition matrix the way a user would type it: 9 decimals, so its row sums miss 1 by ~1e-9 (inside every tolerance of the library, but a
        # "clean-up" of the rows would change the caller's array)
        'T': np.round(gen.normalise_counts(gen.rand_irreducible(rng, ns)), 9),
        'table': np.array([[rng.uniform(-2, 2) for _ in range(3)] for _ in range(25)]),
        'series': np.array([rng.uniform(-2, 2) for _ in range(25)]),
        'old': [labs[0], labs[1]], 'new': [labs[1], labs[0]],
    }
    # contiguous 1-d / 2-d label arrays with NEGATIVE labels handed to the relabelling utilities directly
    flat = [rng.choice([-3, -1, 0, 2, 5]) for _ in range(24)]
    shared['flat1d'] = np.array(flat, dtype=np.int64)
    shared['flat2d'] = np.array([flat[:12], flat[12:]], dtype=np.int64)
    shared['fold'], shared['fnew'] = [-3, 5], [5, -7]
    shared['obj'] = mh.StateTraj(shared['trajs'])
    brng = core.Rng(99)
    shared['big'] = [np.array([brng.randrange(3) for _ in range(25000)], dtype=np.int64) for _ in range(16)]   # 400k frames in 16 trajectories
    occ = sorted(set(labs))
    S, F = [occ[0]], ([occ[-1]] if case['seed'] % 2 else occ[-2:])     # every other history: a final basin of two states

    def call(name, p):
        tr, obj = shared['trajs'], shared['obj']
        lag = 1 + p % 2
        if name == 'est_big':
            return mh.msm.estimate_markov_model(shared['big'], 1)
        if name == 'est':
            return mh.msm.estimate_markov_model(tr, lag)
        if name == 'est_obj':
            return obj.estimate_markov_model(lag)
        if name in ('its', 'its_obj'):
            return mh.msm.implied_timescales(tr if name == 'its' else obj, shared['lags'])
        if name in ('ck', 'ck_obj'):
            return mh.msm.ck_test(tr if name == 'ck' else obj, shared['lags'], 6)
        if name in ('coring', 'coring_obj'):
            return mh.md.dynamical_coring(tr if name == 'coring' else obj, 2 + p % 2)
        if name == 'wt':
            return mh.md.estimate_waiting_times(tr, S, F)
        if name == 'paths':
            return {str(k): v for k, v in mh.md.estimate_paths(obj, S, F).items()}
        if name == 'sim':
            return mh.md.compare_discretization(tr, shared['trajs2'], method='directed' if p % 2 else 'symmetric')
        if name == 'shift_flat':
            return mh.shift_data(shared['flat1d'], shared['fold'], shared['fnew'])
        if name == 'shift_2d':
            return mh.shift_data(shared['flat2d'], shared['fold'], shared['fnew'])
        if name == 'rename_idx_flat':
            return mh.rename_by_index(shared['flat1d'], return_permutation=True)
        if name == 'rename_idx_2d':
            return mh.rename_by_index(shared['flat2d'], return_permutation=True)
        if name == 'rename_pop_flat':
            return mh.rename_by_population(shared['flat1d'], return_permutation=True)
        if name == 'unique_flat':
            return mh.unique(shared['flat2d'], return_counts=True)
        if name == 'shift':
            return mh.shift_data(tr, shared['old'], shared['new'])
        if name == 'rename_idx':
            return mh.rename_by_index(tr, return_permutation=True)
        if name == 'rename_pop':
            return mh.rename_by_population(tr, return_permutation=True)
        if name == 'unique':
            return mh.unique(tr, return_counts=True)
        if name == 'eigl':
            return linalg.left_eigenvectors(shared['T'])
        if name == 'peq':
            return mh.msm.peq(shared['T'])
        if name == 'erg':
            return [tst.is_ergodic(shared['T']), tst.is_fuzzy_ergodic(shared['T']), tst.is_transition_matrix(shared['T'])]
        if name == 'mask':
            return tst.ergodic_mask(shared['T'])
        if name == 'rownorm':
            return mh.msm.row_normalize_matrix(shared['T'])
        if name == 'matpow':
            return mh.utils.matrix_power(shared['T'], 2 + p % 3)
        if name == 'gauss':
            return filtering.gaussian_filter(shared['table'], sigma=1.0 + p % 3)
        if name == 'rmean':
            return filtering.runningmean(shared['series'], 1 + p % 5)
        if name in ('mcmc', 'mcmc_obj'):
            return ts.propagate_MCMC(tr if name == 'mcmc' else obj, lag, 20)
        if name in ('msm_wt', 'msm_wt_obj'):
            return mh.msm.estimate_waiting_times(trajs=tr if name == 'msm_wt' else obj, lagtime=lag, start=S, final=F, steps=150, return_list=True)
        if name == 'msm_paths_obj':
            return {str(k): v for k, v in mh.msm.estimate_paths(trajs=obj, lagtime=lag, start=S, final=F, steps=80).items()}
        raise KeyError(name)

    problems = []
    seen = {}
    snap0 = {k: _snap(v) for k, v in shared.items()}
    for step, (name, p) in enumerate(case['ops']):
        if name == 'seed':
            reseed(p)
            continue
        is_rnd = name in RND
        if is_rnd:
            reseed(p)
        try:
            val = ('ok', json.dumps(_canon(call(name, p)), sort_keys=True))
        except Exception as e:  # noqa
            val = ('err', core.err_name(e))
        for k, v in shared.items():
            if _snap(v) != snap0[k]:
                problems.append({'step': step, 'call': name, 'what': 'argument %s modified' % k})
                snap0[k] = _snap(v)
        keyc = (name, p)
        if keyc in seen and seen[keyc] != val:
            problems.append({'step': step, 'call': name, 'what': 'repeated call returned a different value',
                             'first': seen[keyc][1][:200], 'now': val[1][:200]})
        seen.setdefault(keyc, val)
    return {'ok': {'problems': problems[:5], 'ncalls': len(case['ops'])}}


def request(case, obs):
    return {'op': 'ping'}


def agree(case, obs, reply):
    return 'ok' in obs and not obs['ok']['problems']


def holds(case, obs, reply):
    return agree(case, obs, reply)


def nontrivial(case, obs, reply):
    names = [tuple(o) for o in case['ops'] if o[0] != 'seed']
    return len(names) != len(set(names))


def key(case):
    return [case['seed'], case['ops']]


def classify(case, obs, reply):
    return '%s/%s' % (case['src'], 'clean' if agree(case, obs, reply) else 'PROBLEM')


def known_match(k, case, obs, reply):
    return False


def shrink(case):
    ops = case['ops']
    for i in range(len(ops)):
        yield dict(case, ops=ops[:i] + ops[i + 1:])
