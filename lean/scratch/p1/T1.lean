import Mathlib.Tactic.Linarith
import Mathlib.Tactic.Ring
import Mathlib.Tactic.FieldSimp
import Mathlib.Algebra.Order.Ring.Rat
example (a b : Rat) (h : 0 < b) (h2 : 0 ≤ a) (h3 : a ≤ b) : a / b ≤ 1 := by
  exact (div_le_one h).mpr h3
