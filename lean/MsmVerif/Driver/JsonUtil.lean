/-
Driver/JsonUtil.lean — JSON helpers for the line protocol (imports `Lean.Data.Json`, no Mathlib).
Rationals travel as strings "p/q" (or plain integers); errors as `{"err": "<Kind>"}`.
-/
import Lean.Data.Json
import MsmVerif.Model.Basic

open Lean

namespace MsmVerif.J

def int? (j : Json) : Except String Int := j.getInt?
def nat? (j : Json) : Except String Nat := j.getNat?
def bool? (j : Json) : Except String Bool := j.getBool?
def str? (j : Json) : Except String String := j.getStr?

def arr? (j : Json) : Except String (List Json) := do
  let a ← j.getArr?
  return a.toList

def ints? (j : Json) : Except String (List Int) := do
  (← arr? j).mapM int?

def nats? (j : Json) : Except String (List Nat) := do
  (← arr? j).mapM nat?

def trajs? (j : Json) : Except String (List (List Int)) := do
  (← arr? j).mapM ints?

def field (j : Json) (k : String) : Except String Json := j.getObjVal? k

def fieldD (j : Json) (k : String) (d : Json) : Json :=
  match j.getObjVal? k with
  | .ok v => v
  | .error _ => d

/-- parse "p/q", "p", or a JSON integer into a rational -/
def rat? (j : Json) : Except String Rat :=
  match j with
  | .str s =>
    match s.splitOn "/" with
    | [p] => match p.toInt? with
      | some n => .ok (n : Rat)
      | none => .error s!"bad rational {s}"
    | [p, q] => match p.toInt?, q.toNat? with
      | some n, some d => if d = 0 then .error "zero denominator" else .ok (mkRat n d)
      | _, _ => .error s!"bad rational {s}"
    | _ => .error s!"bad rational {s}"
  | _ => do
    let n ← j.getInt?
    return (n : Rat)

def rats? (j : Json) : Except String (List Rat) := do (← arr? j).mapM rat?
def ratMat? (j : Json) : Except String (List (List Rat)) := do (← arr? j).mapM rats?

def ofInt (n : Int) : Json := Json.num (JsonNumber.fromInt n)
def ofNat (n : Nat) : Json := Json.num (JsonNumber.fromNat n)
def ofInts (l : List Int) : Json := Json.arr (l.map ofInt).toArray
def ofNats (l : List Nat) : Json := Json.arr (l.map ofNat).toArray
def ofTrajs (l : List (List Int)) : Json := Json.arr (l.map ofInts).toArray
def ofRat (r : Rat) : Json :=
  if r.den = 1 then Json.str (toString r.num) else Json.str s!"{r.num}/{r.den}"
def ofRats (l : List Rat) : Json := Json.arr (l.map ofRat).toArray
def ofRatMat (l : List (List Rat)) : Json := Json.arr (l.map ofRats).toArray
def ofList {α} (f : α → Json) (l : List α) : Json := Json.arr (l.map f).toArray

def errOfName (s : String) : Err :=
  match s with
  | "ValueError" => .value | "TypeError" => .type | "LagtimeError" => .lagtime
  | "IndexError" => .index | "NotImplementedError" => .notImplemented
  | "FileError" => .file | "AssertionError" => .assertion | _ => .other

def ofExcept {α} (f : α → Json) : Except Err α → Json
  | .ok a => Json.mkObj [("ok", f a)]
  | .error e => Json.mkObj [("err", Json.str e.name)]

/-- parse `{"ok": …}` / `{"err": "Kind"}` -/
def except? {α} (f : Json → Except String α) (j : Json) : Except String (Except Err α) :=
  match j.getObjVal? "err" with
  | .ok e => do return .error (errOfName (← e.getStr?))
  | .error _ => do
    let v ← j.getObjVal? "ok"
    return .ok (← f v)

end MsmVerif.J
