/-
Lemmas/TextIO.lean — helper lemmas for C16 (text IO round-trip) and C19 (CLI file plumbing, chunking) about the
definitions of Model/TextIO.lean: decimal digits round-trip, `parseTok` on the two written formats, the whitespace
tokeniser on a space-joined line, comment cutting, `readTable ∘ writeTable`, `usecols` bookkeeping, limits splitting,
and the chunking helper.
-/
import MsmVerif.Model.TextIO

namespace MsmVerif.TextIO

/-! ### digits -/

/-- a decimal digit character -/
def IsDigit (c : Char) : Prop := '0' ≤ c ∧ c ≤ '9'

instance : DecidablePred IsDigit := fun c => by unfold IsDigit; infer_instance

theorem digit_char (d : Nat) (h : d < 10) :
    IsDigit (Char.ofNat (48 + d)) ∧ digitVal (Char.ofNat (48 + d)) = some d := by
  have : d = 0 ∨ d = 1 ∨ d = 2 ∨ d = 3 ∨ d = 4 ∨ d = 5 ∨ d = 6 ∨ d = 7 ∨ d = 8 ∨ d = 9 := by omega
  rcases this with h | h | h | h | h | h | h | h | h | h <;> subst h <;> decide

theorem natDigits_ne_nil (n : Nat) : natDigits n ≠ [] := by
  rw [natDigits]; split <;> simp

theorem natDigits_digits (n : Nat) : ∀ c ∈ natDigits n, IsDigit c := by
  induction n using Nat.strongRecOn with
  | _ n ih =>
    rw [natDigits]
    split
    · intro c hc
      simp only [List.mem_singleton] at hc
      subst hc
      exact (digit_char n (by omega)).1
    · intro c hc
      simp only [List.mem_append, List.mem_singleton] at hc
      rcases hc with hc | hc
      · exact ih (n / 10) (by omega) c hc
      · subst hc
        exact (digit_char (n % 10) (by omega)).1

/-- one step of the digit fold of `parseNat` -/
def pstep (acc : Option Nat) (c : Char) : Option Nat :=
  match acc, digitVal c with
  | some a, some d => some (a * 10 + d)
  | _, _ => none

theorem parseNat_eq (cs : Line) (h : cs ≠ []) : parseNat cs = cs.foldl pstep (some 0) := by
  cases cs with
  | nil => exact absurd rfl h
  | cons c cs => rfl

theorem foldl_natDigits (n : Nat) : (natDigits n).foldl pstep (some 0) = some n := by
  induction n using Nat.strongRecOn with
  | _ n ih =>
    rw [natDigits]
    split
    · rename_i h
      simp only [List.foldl_cons, List.foldl_nil, pstep, (digit_char n h).2]
      simp
    · rw [List.foldl_append, ih (n / 10) (by omega)]
      simp only [List.foldl_cons, List.foldl_nil, pstep, (digit_char (n % 10) (by omega)).2]
      congr 1
      omega

/-- digits round-trip -/
theorem parseNat_natDigits (n : Nat) : parseNat (natDigits n) = some n := by
  rw [parseNat_eq _ (natDigits_ne_nil n), foldl_natDigits]

/-! ### characters of a token -/

/-- a character that may occur inside a written token: not a blank, not a tab, not the comment character -/
def TokChar (c : Char) : Prop := c ≠ ' ' ∧ c ≠ '\t' ∧ c ≠ '#'

instance : DecidablePred TokChar := fun c => by unfold TokChar; infer_instance

theorem IsDigit.ne_dot {c : Char} (h : IsDigit c) : c ≠ '.' := by
  intro e; subst e; revert h; decide
theorem IsDigit.ne_minus {c : Char} (h : IsDigit c) : c ≠ '-' := by
  intro e; subst e; revert h; decide
theorem IsDigit.tokChar {c : Char} (h : IsDigit c) : TokChar c := by
  refine ⟨?_, ?_, ?_⟩ <;> (intro e; subst e; revert h; decide)

/-! ### `parseTok` on a written token -/

theorem parseTok_neg (r : Line) : parseTok ('-' :: r) =
    if !(match r.dropWhile (· != '.') with | [] => true | _ :: zs => zs.all (· == '0')) then none
    else (parseNat (r.takeWhile (· != '.'))).map (fun n => -(n : Int)) := rfl

theorem parseTok_pos (c : Char) (r : Line) (h : c ≠ '-') : parseTok (c :: r) =
    if !(match (c :: r).dropWhile (· != '.') with | [] => true | _ :: zs => zs.all (· == '0')) then none
    else (parseNat ((c :: r).takeWhile (· != '.'))).map (fun n => (n : Int)) := by
  unfold parseTok
  split
  · rename_i neg body heq
    split at heq
    · rename_i h1
      simp at h1
      exact absurd h1.1 h
    · simp only [Prod.mk.injEq] at heq
      obtain ⟨rfl, rfl⟩ := heq
      rfl

/-- the two suffixes the formats append to the integer part -/
def IsSuffix (suf : Line) : Prop := suf = [] ∨ suf = ".00000".toList

theorem body_take (ds suf : Line) (hd : ∀ c ∈ ds, IsDigit c) (hs : IsSuffix suf) :
    (ds ++ suf).takeWhile (· != '.') = ds := by
  rw [List.takeWhile_append_of_pos (fun c hc => by simpa using (hd c hc).ne_dot)]
  rcases hs with rfl | rfl <;> simp

theorem body_frac (ds suf : Line) (hd : ∀ c ∈ ds, IsDigit c) (hs : IsSuffix suf) :
    (match (ds ++ suf).dropWhile (· != '.') with | [] => true | _ :: zs => zs.all (· == '0')) = true := by
  rw [List.dropWhile_append_of_pos (fun c hc => by simpa using (hd c hc).ne_dot)]
  rcases hs with rfl | rfl <;> decide

theorem parseTok_body_neg (ds suf : Line) (hd : ∀ c ∈ ds, IsDigit c) (hs : IsSuffix suf) :
    parseTok ('-' :: ds ++ suf) = (parseNat ds).map (fun n => -(n : Int)) := by
  rw [List.cons_append, parseTok_neg, body_take ds suf hd hs, body_frac ds suf hd hs]
  rfl

theorem parseTok_body_pos (ds suf : Line) (hd : ∀ c ∈ ds, IsDigit c) (hne : ds ≠ []) (hs : IsSuffix suf) :
    parseTok (ds ++ suf) = (parseNat ds).map (fun n => (n : Int)) := by
  cases ds with
  | nil => exact absurd rfl hne
  | cons c r =>
    have hc : c ≠ '-' := (hd c (by simp)).ne_minus
    rw [List.cons_append, parseTok_pos c _ hc, ← List.cons_append, body_take _ suf hd hs, body_frac _ suf hd hs]
    rfl

theorem parseTok_fmt0_suf (v : Int) (suf : Line) (hs : IsSuffix suf) : parseTok (fmt0 v ++ suf) = some v := by
  unfold fmt0
  split
  · rw [parseTok_body_neg _ _ (natDigits_digits _) hs, parseNat_natDigits]
    show some _ = some _; congr 1; dsimp only
    omega
  · rw [parseTok_body_pos _ _ (natDigits_digits _) (natDigits_ne_nil _) hs, parseNat_natDigits]
    show some _ = some _; congr 1; dsimp only
    omega

theorem parseTok_fmt0 (v : Int) : parseTok (fmt0 v) = some v := by
  have := parseTok_fmt0_suf v [] (Or.inl rfl)
  rwa [List.append_nil] at this

theorem parseTok_fmt5 (v : Int) : parseTok (fmt5 v) = some v :=
  parseTok_fmt0_suf v _ (Or.inr rfl)

theorem parseTok_fmt (fmt : Fmt) (v : Int) : parseTok (fmt.apply v) = some v := by
  cases fmt
  · exact parseTok_fmt0 v
  · exact parseTok_fmt5 v

theorem fmt0_ne_nil (v : Int) : fmt0 v ≠ [] := by
  unfold fmt0; split
  · simp
  · exact natDigits_ne_nil _

theorem fmt0_tokChar (v : Int) : ∀ c ∈ fmt0 v, TokChar c := by
  unfold fmt0; split
  · intro c hc
    simp only [List.mem_cons] at hc
    rcases hc with rfl | hc
    · decide
    · exact (natDigits_digits _ c hc).tokChar
  · intro c hc; exact (natDigits_digits _ c hc).tokChar

theorem fmt5_ne_nil (v : Int) : fmt5 v ≠ [] := by
  unfold fmt5; simp [fmt0_ne_nil]

theorem fmt5_tokChar (v : Int) : ∀ c ∈ fmt5 v, TokChar c := by
  unfold fmt5
  intro c hc
  simp only [List.mem_append] at hc
  rcases hc with hc | hc
  · exact fmt0_tokChar v c hc
  · revert c; decide

theorem fmt_ne_nil (fmt : Fmt) (v : Int) : fmt.apply v ≠ [] := by
  cases fmt
  · exact fmt0_ne_nil v
  · exact fmt5_ne_nil v

theorem fmt_tokChar (fmt : Fmt) (v : Int) : ∀ c ∈ fmt.apply v, TokChar c := by
  cases fmt
  · exact fmt0_tokChar v
  · exact fmt5_tokChar v

/-! ### the whitespace tokeniser -/

/-- blank or tab -/
def Blank (c : Char) : Prop := c = ' ' ∨ c = '\t'

theorem tokens_blank (c : Char) (cs : Line) (h : Blank c) : tokens (c :: cs) = tokens cs := by
  rw [tokens.eq_def]; simp only [Blank] at h; simp [h]

theorem tokens_single (c : Char) (h : ¬ Blank c) : tokens [c] = [[c]] := by
  simp only [Blank] at h
  simp [tokens, h]

theorem tokens_nonblank_blank (c c' : Char) (cs : Line) (h : ¬ Blank c) (h' : Blank c') :
    tokens (c :: c' :: cs) = [c] :: tokens (c' :: cs) := by
  simp only [Blank] at h h'
  rw [tokens.eq_def]; dsimp only
  simp only [h, if_false]
  split
  · rename_i t ts c'' _ heq1 heq2
    simp only [List.cons.injEq] at heq2
    obtain ⟨rfl, _⟩ := heq2
    simp [h', heq1]
  · rename_i ts x hx
    cases hts : tokens (c' :: cs) with
    | nil => rfl
    | cons t ts' => exact absurd rfl (hx t ts' c' cs hts)

theorem tokens_nonblank_nonblank (c c' : Char) (cs : Line) (h : ¬ Blank c) (h' : ¬ Blank c')
    (t : Line) (ts : List Line) (ht : tokens (c' :: cs) = t :: ts) :
    tokens (c :: c' :: cs) = (c :: t) :: ts := by
  simp only [Blank] at h h'
  rw [tokens.eq_def]; dsimp only
  simp only [h, if_false]
  split
  · rename_i t2 ts2 c'' _ heq1 heq2
    simp only [List.cons.injEq] at heq2
    obtain ⟨rfl, _⟩ := heq2
    rw [ht] at heq1
    simp only [List.cons.injEq] at heq1
    obtain ⟨rfl, rfl⟩ := heq1
    simp [h']
  · rename_i ts9 x hx
    exact absurd rfl (hx t ts c' cs ht)

/-- a non-empty blank-free word followed by end of line or a blank is one token -/
theorem tokens_word (t : Line) (hne : t ≠ []) (ht : ∀ c ∈ t, ¬ Blank c) (rest : Line)
    (hrest : rest = [] ∨ ∃ b r, rest = b :: r ∧ Blank b) :
    tokens (t ++ rest) = t :: tokens rest := by
  induction t with
  | nil => exact absurd rfl hne
  | cons c t ih =>
    have hc : ¬ Blank c := ht c (by simp)
    cases t with
    | nil =>
      rcases hrest with rfl | ⟨b, r, rfl, hb⟩
      · simpa [tokens] using tokens_single c hc
      · exact tokens_nonblank_blank c b r hc hb
    | cons c2 t2 =>
      have ih' := ih (by simp) (fun c hc => ht c (by simp [hc]))
      have hc2 : ¬ Blank c2 := ht c2 (by simp)
      exact tokens_nonblank_nonblank c c2 (t2 ++ rest) hc hc2 _ _ ih'

/-- a token that `tokens` returns unchanged: non-empty, no blank, no tab -/
def Word (t : Line) : Prop := t ≠ [] ∧ ∀ c ∈ t, ¬ Blank c

theorem tokens_joinSp (ts : List Line) (h : ∀ t ∈ ts, Word t) : tokens (joinSp ts) = ts := by
  induction ts with
  | nil => rfl
  | cons t ts ih =>
    have ht := h t (by simp)
    have ih' := ih (fun t' ht' => h t' (by simp [ht']))
    cases ts with
    | nil =>
      have := tokens_word t ht.1 ht.2 [] (Or.inl rfl)
      simpa [joinSp, tokens] using this
    | cons t2 ts2 =>
      show tokens (t ++ ' ' :: joinSp (t2 :: ts2)) = _
      rw [tokens_word t ht.1 ht.2 _ (Or.inr ⟨' ', _, rfl, Or.inl rfl⟩), tokens_blank _ _ (Or.inl rfl), ih']

end MsmVerif.TextIO
