/-
Props/C11.lean — property theorems for C11 (trajectories are independent pieces), MSM part.
Helper lemmas live in Lemmas/Msm.lean.

Reading of the property: the set of trajectories is a multiset of independent pieces.  The lagged counts
(and with them states, count matrix and transition matrix) are additive over the set, do not depend on the
order of the trajectories, and differ from the counts of the concatenated trajectory exactly by the pairs
that straddle the cut.  (The events / coring / similarity parts of C11 are in other files.)
-/
import MsmVerif.Lemmas.Msm

namespace MsmVerif.C11
open MsmVerif MsmVerif.Msm

/-- counts are additive over the union of two trajectory sets -/
theorem count_append (A B : Trajs) (lag : Nat) (a b : Int) :
    count (A ++ B) lag a b = count A lag a b + count B lag a b :=
  Msm.count_append A B lag a b

/-- counts do not depend on the order of the trajectories -/
theorem count_perm {A B : Trajs} (h : A.Perm B) (lag : Nat) (a b : Int) :
    count A lag a b = count B lag a b :=
  Msm.count_perm h lag a b

example : [[1, 2, 1], [2, 2], [3]].Perm [[3], [1, 2, 1], [2, 2]] := by decide

/-- the frame pairs of a concatenation are, in order, the pairs of the first piece, the pairs that straddle
the cut, and the pairs of the second piece — here on the level of counts -/
theorem pairs_count_append (lag : Nat) (t₁ t₂ : List Int) (a b : Int) :
    (pairs lag (t₁ ++ t₂)).count (a, b)
      = (pairs lag t₁).count (a, b) + straddle lag t₁ t₂ a b + (pairs lag t₂).count (a, b) := by
  rw [straddle_eq_straddleCount]
  exact count_pairs_append lag t₁ t₂ a b

/-- cutting a trajectory in two loses exactly the straddling pairs -/
theorem count_cut (lag : Nat) (t₁ t₂ : List Int) (a b : Int) :
    count [t₁ ++ t₂] lag a b = count [t₁, t₂] lag a b + straddle lag t₁ t₂ a b :=
  Msm.count_cut lag t₁ t₂ a b

/-- `straddle` is the number of positions `i` in the first piece (`i < |t₁|`) whose partner `i + lag` lies in the
second piece (`|t₁| ≤ i + lag < |t₁ ++ t₂|`) and whose frame pair in the concatenation is `(a, b)`
(`getD … 0` is a plain lookup here because both indices are in range) -/
theorem straddle_eq (lag : Nat) (t₁ t₂ : List Int) (a b : Int) :
    straddle lag t₁ t₂ a b
      = (List.range t₁.length).countP (fun i =>
          decide (t₁.length ≤ i + lag ∧ i + lag < (t₁ ++ t₂).length ∧
            ((t₁ ++ t₂).getD i 0, (t₁ ++ t₂).getD (i + lag) 0) = (a, b))) := by
  rw [straddle_eq_straddleCount, straddleCount]
  apply List.countP_congr
  intro i _
  simp [pairAt, and_assoc]

/-- for each label pair at most `min lag (min |t₁| |t₂|)` frame pairs straddle a cut
(in particular none when one piece is empty) -/
theorem straddle_le (lag : Nat) (t₁ t₂ : List Int) (a b : Int) :
    straddle lag t₁ t₂ a b ≤ min lag (min t₁.length t₂.length) := by
  rw [straddle_eq_straddleCount]
  exact straddleCount_le lag t₁ t₂ a b

example : straddle 1 [1] [2] 1 2 = 1 := by decide
example : straddle 2 [1, 1, 2] [2, 2] 1 2 = 1 ∧ straddle 2 [1, 1, 2] [2, 2] 2 2 = 1 := by decide

/-- the ascending distinct labels do not depend on the order of the trajectories -/
theorem states_perm {A B : Trajs} (h : A.Perm B) : states A = states B :=
  Msm.states_perm h

/-- the labels of a union are the labels of the parts -/
theorem mem_states_append {A B : Trajs} {x : Int} :
    x ∈ states (A ++ B) ↔ x ∈ states A ∨ x ∈ states B :=
  Msm.mem_states_append

/-- cutting a trajectory does not change the labels -/
theorem states_cut (t₁ t₂ : List Int) (rest : Trajs) :
    states ((t₁ ++ t₂) :: rest) = states (t₁ :: t₂ :: rest) := by
  simp [states]

/-- the count matrix of the spec does not depend on the order of the trajectories -/
theorem specCounts_perm {A B : Trajs} (h : A.Perm B) (lag : Nat) : specCounts A lag = specCounts B lag :=
  Msm.specCounts_perm h lag

/-- the transition matrix of the spec does not depend on the order of the trajectories -/
theorem specT_perm {A B : Trajs} (h : A.Perm B) (lag : Nat) : specT A lag = specT B lag :=
  Msm.specT_perm h lag

/-- the model of `estimate_markov_model` returns the same triple for any reordering of the trajectories -/
theorem estimate_perm {A B : Trajs} (h : A.Perm B) (lag : Nat) (hg : LabelGuard A) :
    estimate A lag = estimate B lag := by
  have hgB : LabelGuard B := fun x hx => hg x (h.flatten.mem_iff.mpr hx)
  rw [estimate_eq_spec_of_window hg.window, estimate_eq_spec_of_window hgB.window,
    Msm.specCounts_perm h, Msm.specT_perm h, Msm.states_perm h]

example : LabelGuard [[1, 2, 1], [2, 2], [3]] := by decide

end MsmVerif.C11
