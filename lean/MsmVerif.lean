import MsmVerif.Model.Basic
import MsmVerif.Model.Coring
import MsmVerif.Driver.Ops
