/-
Refine/AccessorsLemmas.lean — helper lemmas for task RP18 (`Refine/Accessors.lean`): the translated accessors of `StateTraj`
(`Gen/StateTrajAcc.lean`) and the translated constructor / accessors of `LumpedStateTraj` (`Gen/LumpedAcc.lean`) in terms of
the model (`Model/Basic.lean`, `Model/Heap.lean`): the three decoding branches, the assignment loop of
`LumpedStateTraj.__init__`, `shift_data` on a 1-d array, shapes.
-/
import MsmVerif.Refine.Init
import MsmVerif.Refine.Msm
import MsmVerif.Gen.StateTrajAcc
import MsmVerif.Gen.LumpedAcc
open MsmVerif MsmVerif.Gen

namespace MsmVerif.Refine.Accessors

/-! ### small facts -/

theorem arange0_len (ss : List Int) :
    npArange 0 (pyLen ss) = (List.range ss.length).map (fun (i : Nat) => (i : Int)) := by
  rw [Relabel.arange_eq]; simp [pyLen]

theorem sum_map_pyLen (idx : List (List Int)) :
    List.sum (idx.map (fun traj => pyLen traj)) = (((idx.map List.length).sum : Nat) : Int) := by
  induction idx with
  | nil => rfl
  | cons t ts ih =>
    simp only [List.map_cons, List.sum_cons, Int.natCast_add]
    rw [ih]; rfl

/-- the translated `StateTraj.trajs` in the three-branch shape of the model -/
theorem trajs_eq_model (idx : List (List Int)) (sts : List Int) :
    StateTrajAcc.trajs idx sts = StateTraj.trajs ⟨idx, sts⟩ := by
  unfold StateTrajAcc.trajs StateTraj.trajs
  simp only [Init.test_arange0, Init.test_arange1, List.map_id', pure, Except.pure]
  rw [Relabel.shift_data_refines _ _ _ (Or.inl (by simp [arange0_len])), arange0_len]

/-! ### shapes -/

theorem unflatten_map_length (lens : List Nat) (v : List Int) (h : v.length = lens.sum) :
    (unflatten lens v).map List.length = lens := by
  induction lens generalizing v with
  | nil => rfl
  | cons n ns ih =>
    simp only [List.sum_cons] at h
    simp only [unflatten, List.map_cons, List.length_take]
    rw [ih _ (by simp; omega)]
    congr 1; omega

theorem shiftFlat_length {data old new r : List Int} (h : shiftFlat data old new = .ok r) :
    r.length = data.length := by
  unfold shiftFlat at h
  split at h
  · split at h
    · cases h
    · simp only at h
      split at h
      · cases h
      · simp only [Except.ok.injEq] at h
        subst h; simp
  · cases h

theorem shiftTrajs_shape {ts : Trajs} {old new : List Int} {r : Trajs} (h : shiftTrajs ts old new = .ok r) :
    r.map List.length = ts.map List.length := by
  unfold shiftTrajs at h
  cases hf : shiftFlat ts.flatten old new with
  | error e => rw [hf] at h; cases h
  | ok v =>
    rw [hf] at h
    simp only [Except.map, Except.ok.injEq] at h
    subst h
    apply unflatten_map_length
    rw [shiftFlat_length hf, List.length_flatten]

/-- the constructor keeps the shape: as many index trajectories as input trajectories, of the same lengths — for every input -/
theorem init_shape (ts : Trajs) {idx : Trajs} {sts : List Int} (h : StateTrajInit.init ts = .ok (idx, sts)) :
    idx.map List.length = ts.map List.length := by
  rw [Init.init_branches] at h
  split at h
  · simp only [Except.ok.injEq, Prod.mk.injEq] at h; rw [← h.1]
  · split at h
    · simp only [Except.ok.injEq, Prod.mk.injEq] at h; rw [← h.1]; simp
    · rw [Relabel.rename_by_index_refines] at h
      cases hs : shiftTrajs ts (states ts) ((List.range (states ts).length).map Int.ofNat) with
      | error e => rw [hs] at h; cases h
      | ok r =>
        rw [hs] at h
        simp only [Except.map, Except.ok.injEq, Prod.mk.injEq] at h
        rw [← h.1]
        exact shiftTrajs_shape hs

theorem pyGet_ge {l : List Int} {i : Int} (h : (l.length : Int) ≤ i) : pyGet l i = .error .index := by
  have h0 : (0 : Int) ≤ i := by omega
  have h1 : ¬ (i < (l.length : Int)) := by omega
  simp only [pyGet, normIdx, h0, h1, if_true, if_false]

/-! ### the assignment loop of `LumpedStateTraj.__init__` -/

/-- one round of the assignment loop of `LumpedStateTraj.__init__` -/
def assignStep (mic mac : List Int) (x : Int × Int) (st : Int × List Int) : Py (ForInStep (Int × List Int)) := do
  let t5 ← UtilsUtils.find_first x.2 mic
  let t6 ← pyGet mac t5
  let a ← pySet st.2 x.1 t6
  pure (ForInStep.yield (t5, a))

/-- macro label at the first occurrence of a micro label -/
def firstMacro (mic mac : List Int) (s : Int) : Int := mac.getD (mic.idxOf s) 0

theorem find_first_mem {s : Int} {mic : List Int} (h : s ∈ mic) :
    UtilsUtils.find_first s mic = .ok ((mic.idxOf s : Nat) : Int) := by
  rw [Msm.find_first_refines, if_pos (List.idxOf_lt_length_of_mem h)]

theorem find_first_not_mem {s : Int} {mic : List Int} (h : s ∉ mic) :
    UtilsUtils.find_first s mic = .ok (-1) := by
  rw [Msm.find_first_refines, if_neg]
  intro h'
  exact h (List.idxOf_lt_length_iff.mp h')

theorem pySet_nat {l : List Int} {k : Nat} (h : k < l.length) (v : Int) :
    pySet l (k : Int) v = .ok (l.set k v) := by
  have h0 : (0 : Int) ≤ (k : Int) := by omega
  have h1 : (k : Int) < (l.length : Int) := by omega
  simp only [pySet, normIdx, h0, h1, if_true, Int.toNat_natCast]

theorem assignStep_ok {mic mac : List Int} {s : Int} (hs : s ∈ mic) (hlt : mic.idxOf s < mac.length)
    (k : Nat) (d : Int) (asg : List Int) (hk : k < asg.length) :
    assignStep mic mac ((k : Int), s) (d, asg)
      = .ok (ForInStep.yield (((mic.idxOf s : Nat) : Int), asg.set k (firstMacro mic mac s))) := by
  unfold assignStep
  simp only [find_first_mem hs, bind, Except.bind]
  rw [Relabel.pyGet_of_range (by omega) (by omega)]
  simp only [pySet_nat hk, Int.toNat_natCast]
  rfl

theorem assign_loop (mic mac : List Int)
    (f : Int × Int → Int × List Int → Py (ForInStep (Int × List Int)))
    (hf : ∀ x st, f x st = assignStep mic mac x st)
    (suf : List Int) (hsuf : ∀ s ∈ suf, s ∈ mic ∧ mic.idxOf s < mac.length) (pre : List Int) (d : Int) :
    ∃ d', forIn (((List.range' pre.length suf.length).map (fun (k : Nat) => (k : Int))).zip suf)
        (d, pre.map (firstMacro mic mac) ++ List.replicate suf.length 0) f
      = .ok (d', (pre ++ suf).map (firstMacro mic mac)) := by
  induction suf generalizing pre d with
  | nil => exact ⟨d, by simp [pure, Except.pure]⟩
  | cons s ss ih =>
    have hs := hsuf s List.mem_cons_self
    obtain ⟨d', hd'⟩ := ih (fun s' h' => hsuf s' (List.mem_cons_of_mem _ h')) (pre ++ [s]) ((mic.idxOf s : Nat) : Int)
    refine ⟨d', ?_⟩
    rw [List.length_cons, List.range'_succ, List.map_cons, List.zip_cons_cons, List.forIn_cons, hf,
      assignStep_ok hs.1 hs.2 _ _ _ (by simp)]
    simp only [bind, Except.bind]
    have e : (pre.map (firstMacro mic mac) ++ List.replicate (ss.length + 1) 0).set pre.length (firstMacro mic mac s)
        = (pre ++ [s]).map (firstMacro mic mac) ++ List.replicate ss.length 0 := by
      rw [List.set_append_right _ _ (by simp)]
      simp [List.replicate_succ]
    rw [e]
    simpa using hd'


theorem assignStep_error {mic mac : List Int} {s : Int} (hs : s ∈ mic) (hge : mac.length ≤ mic.idxOf s)
    (k : Int) (st : Int × List Int) :
    assignStep mic mac (k, s) st = .error .index := by
  unfold assignStep
  simp only [find_first_mem hs, bind, Except.bind]
  rw [pyGet_ge (by omega)]

/-- the assignment loop stops with `IndexError` at the first micro state whose first occurrence lies beyond the macro data -/
theorem assign_loop_error (mic mac : List Int)
    (f : Int × Int → Int × List Int → Py (ForInStep (Int × List Int)))
    (hf : ∀ x st, f x st = assignStep mic mac x st)
    (suf : List Int) (hmem : ∀ s ∈ suf, s ∈ mic) (hbad : ∃ s ∈ suf, mac.length ≤ mic.idxOf s)
    (k : Nat) (d : Int) (asg : List Int) (hlen : k + suf.length ≤ asg.length) :
    forIn (((List.range' k suf.length).map (fun (k : Nat) => (k : Int))).zip suf) (d, asg) f = .error .index := by
  induction suf generalizing k d asg with
  | nil => obtain ⟨s, hs, _⟩ := hbad; cases hs
  | cons s ss ih =>
    have hs := hmem s List.mem_cons_self
    rw [List.length_cons, List.range'_succ, List.map_cons, List.zip_cons_cons, List.forIn_cons, hf]
    by_cases hgood : mic.idxOf s < mac.length
    · rw [assignStep_ok hs hgood _ _ _ (by simp at hlen; omega)]
      simp only [bind, Except.bind]
      apply ih (fun s' h' => hmem s' (List.mem_cons_of_mem _ h'))
      · obtain ⟨s', hs', hb⟩ := hbad
        rcases List.mem_cons.mp hs' with rfl | hs'
        · omega
        · exact ⟨s', hs', hb⟩
      · simp at hlen ⊢; omega
    · rw [assignStep_error hs (by omega)]
      rfl

/-! ### `microstate_trajs` -/

/-- the translated `LumpedStateTraj.microstate_trajs` in three-branch shape: the first test compares with `1 … nmacro` -/
theorem microstate_trajs_unfold (idx : List (List Int)) (sts ms : List Int) :
    LumpedAcc.microstate_trajs idx sts ms
      = if sts == npArange 1 (pyLen ms + 1) then .ok (idx.map (·.map (· + 1)))
        else if isArange 0 sts then .ok idx
        else shiftTrajs idx ((List.range sts.length).map (fun (i : Nat) => (i : Int))) sts := by
  unfold LumpedAcc.microstate_trajs
  simp only [Init.test_arange0, List.map_id', pure, Except.pure]
  rw [Relabel.shift_data_refines _ _ _ (Or.inl (by simp [arange0_len])), arange0_len]

/-- the first test of `microstate_trajs` succeeds only if there are as many micro as macro states, and then it is the model's -/
theorem first_test_iff (sts ms : List Int) :
    (sts == npArange 1 (pyLen ms + 1)) = true ↔ (isArange 1 sts = true ∧ sts.length = ms.length) := by
  have h := Init.npArange_eq 1 ms.length
  rw [Int.add_comm] at h
  simp only [pyLen, h, beq_iff_eq, isArange]
  constructor
  · intro h'
    have hl : sts.length = ms.length := by rw [h']; simp
    exact ⟨by rw [hl]; exact h', hl⟩
  · rintro ⟨h1, h2⟩
    rw [← h2]; exact h1

theorem shiftTrajs_rank {ts : Trajs} {lo hi : Int} (hw : LabelWindow ts lo hi) (hne : ts.flatten ≠ []) :
    shiftTrajs (rankTrajs ts) ((List.range (states ts).length).map (fun (i : Nat) => (i : Int))) (states ts) = .ok ts := by
  rw [natCast_range_eq_arange]
  simp only [shiftTrajs, shiftFlat_rank_eq_label hw hne, Except.map, unflatten_map_flatten]
  congr 1
  rw [rankTrajs_map_map]
  apply map_map_id
  intro x hx
  exact subst_arange_rank (mem_states.mpr hx)

theorem flatten_ne_of_not_arange0 {ts : Trajs} (h0 : isArange 0 (states ts) = false) : ts.flatten ≠ [] := by
  intro he
  simp [states, he, sortDedup, isArange] at h0

theorem rankTrajs_add_one {ts : Trajs} (h : isArange 1 (states ts) = true) :
    (rankTrajs ts).map (·.map (· + 1)) = ts := by
  rw [isArange_iff] at h
  rw [rankTrajs_map_map]
  apply map_map_id
  intro x hx
  have hx' := mem_states.mpr hx
  rw [h] at hx' ⊢
  rw [rank_arange hx']
  have := mem_arange.mp hx'
  omega

theorem rankTrajs_of_arange0 {ts : Trajs} (h : isArange 0 (states ts) = true) : rankTrajs ts = ts := by
  rw [isArange_iff] at h
  unfold rankTrajs
  apply map_map_id
  intro x hx
  have hx' := mem_states.mpr hx
  rw [h] at hx' ⊢
  rw [rank_arange hx']
  have := mem_arange.mp hx'
  omega

/-- on an object state built by the constructor, `microstate_trajs` returns the micro input, whatever the macro state list -/
theorem microstate_trajs_rank {ts : Trajs} {lo hi : Int} (hw : LabelWindow ts lo hi) (ms : List Int) :
    LumpedAcc.microstate_trajs (rankTrajs ts) (states ts) ms = .ok ts := by
  rw [microstate_trajs_unfold]
  by_cases h1 : (states ts == npArange 1 (pyLen ms + 1)) = true
  · rw [if_pos h1, rankTrajs_add_one ((first_test_iff _ _).mp h1).1]
  · rw [if_neg h1]
    by_cases h0 : isArange 0 (states ts) = true
    · rw [if_pos h0, rankTrajs_of_arange0 h0]
    · rw [if_neg h0]
      exact shiftTrajs_rank hw (flatten_ne_of_not_arange0 (by simpa using h0))


/-! ### `LumpedStateTraj.__init__` -/

theorem pyEnumerate_eq (ss : List Int) :
    pyEnumerate ss = ((List.range' 0 ss.length).map (fun (k : Nat) => (k : Int))).zip ss := by
  simp [pyEnumerate, pyRange, pyLen, List.range_eq_range']

theorem assignment_eq (mic mac : Trajs) :
    Heap.assignment mic mac = (states mic).map (firstMacro mic.flatten mac.flatten) := rfl

theorem lumped_init_of_window (mac mic : Trajs) (pos : Bool) {lo hi : Int} (hw : LabelWindow mic lo hi)
    (hfirst : ∀ s ∈ mic.flatten, mic.flatten.idxOf s < mac.flatten.length) :
    LumpedAcc.init mac mic pos
      = .ok (pos, states mac, rankTrajs mic, states mic, Heap.assignment mic mac) := by
  obtain ⟨d', hd'⟩ := assign_loop mic.flatten mac.flatten
    (fun x st => assignStep mic.flatten mac.flatten x st) (fun _ _ => rfl) (states mic)
    (fun s hs => ⟨mem_states.mp hs, hfirst s (mem_states.mp hs)⟩) [] default
  unfold LumpedAcc.init LumpedAcc.microstate_trajs_flatten
  simp only [Relabel.unique_refines, Init.init_eq_rank_of_window mic hw, microstate_trajs_rank hw, bind, Except.bind,
    pure, Except.pure, pyEnumerate_eq]
  simp only [List.length_nil, List.map_nil, List.nil_append] at hd'
  have hfull : pyFull1 (pyLen (states mic)) (0 : Int) = List.replicate (states mic).length 0 := by
    simp [pyFull1, pyLen]
  rw [hfull]
  simp only [assignStep, bind, Except.bind, pure, Except.pure] at hd'
  rw [hd']
  rfl

/-! ### decoding through a table -/

theorem subst_arange_getD (tbl : List Int) {i : Int} (h0 : 0 ≤ i) (h1 : i < tbl.length) :
    subst (arange 0 tbl.length) tbl i = labelOf tbl i := by
  have hk' : i.toNat < tbl.length := by omega
  have hk : i.toNat < (arange 0 tbl.length).length := by simpa [arange] using hk'
  have h := subst_getElem_of_nodup (new := tbl) (arange_nodup 0 tbl.length) hk hk'
  have key : (arange 0 tbl.length)[i.toNat] = i := by simp [arange]; omega
  rw [key] at h
  rw [h, labelOf, List.getD_eq_getElem?_getD, List.getElem?_eq_getElem hk']
  rfl

/-- `shift_data` from `0 … n-1` to a table of length `n` reads the table (`states[i]`), if the indices are exactly
`0 … n-1` and everything fits into one 32-bit window -/
theorem shiftTrajs_decode (idx : Trajs) (tbl : List Int) {lo hi : Int} (hne : idx.flatten ≠ [])
    (hrange : ∀ i ∈ idx.flatten, 0 ≤ i ∧ i < tbl.length)
    (honto : ∀ k : Nat, k < tbl.length → (k : Int) ∈ idx.flatten)
    (hwin : ∀ x ∈ idx.flatten ++ tbl, lo ≤ x ∧ x ≤ hi) (hnar : hi - lo < 2147483648) :
    shiftTrajs idx ((List.range tbl.length).map (fun (i : Nat) => (i : Int))) tbl
      = .ok (idx.map (·.map (labelOf tbl))) := by
  obtain ⟨i0, hi0⟩ := List.exists_mem_of_ne_nil _ hne
  have htbl : tbl ≠ [] := by
    intro h; have := hrange i0 hi0; simp [h] at this; omega
  have hmem : ∀ o ∈ arange 0 tbl.length, o ∈ idx.flatten := by
    intro o ho
    have ho := mem_arange.mp ho
    have := honto o.toNat (by omega)
    rwa [Int.toNat_of_nonneg ho.1] at this
  rw [natCast_range_eq_arange]
  unfold shiftTrajs
  rw [shiftFlat_eq_subst (lo := lo) (hi := hi) hne htbl (by simp [arange])
    (fun o ho => ⟨o, List.mem_append_left _ (hmem o ho), Int.le_refl _⟩)
    (fun o ho => ⟨o, hmem o ho, Int.le_refl _⟩) hwin hnar]
  simp only [Except.map, unflatten_map_flatten]
  congr 1
  apply map_map_congr
  intro x hx
  exact subst_arange_getD tbl (hrange x hx).1 (hrange x hx).2

theorem labelOf_arange {start i : Int} {n : Nat} (h0 : 0 ≤ i) (h1 : i < n) :
    labelOf (arange start n) i = start + i := by
  have hk : i.toNat < (arange start n).length := by simp [arange]; omega
  rw [labelOf, List.getD_eq_getElem?_getD, List.getElem?_eq_getElem hk]
  simp [arange]; omega

/-- the three decoding branches give `states[i]` for every index, whatever (sound) test selects the `+ 1` branch -/
theorem threeBranch_decode (idx : Trajs) (sts : List Int) (b : Bool) (hb : b = true → isArange 1 sts = true)
    {lo hi : Int} (hne : idx.flatten ≠ [])
    (hrange : ∀ i ∈ idx.flatten, 0 ≤ i ∧ i < sts.length)
    (honto : ∀ k : Nat, k < sts.length → (k : Int) ∈ idx.flatten)
    (hwin : ∀ x ∈ idx.flatten ++ sts, lo ≤ x ∧ x ≤ hi) (hnar : hi - lo < 2147483648) :
    (if b = true then .ok (idx.map (·.map (· + 1)))
      else if isArange 0 sts = true then .ok idx
      else shiftTrajs idx ((List.range sts.length).map (fun (i : Nat) => (i : Int))) sts)
      = (.ok (idx.map (Heap.decode sts)) : Except Err Trajs) := by
  show _ = Except.ok (idx.map (·.map (labelOf sts)))
  by_cases h1 : b = true
  · rw [if_pos h1]
    have h := isArange_iff.mp (hb h1)
    congr 1
    apply map_map_congr
    intro x hx
    rw [h, labelOf_arange (hrange x hx).1 (hrange x hx).2]; omega
  · rw [if_neg h1]
    by_cases h0 : isArange 0 sts = true
    · rw [if_pos h0]
      have h := isArange_iff.mp h0
      congr 1
      symm
      apply map_map_id
      intro x hx
      rw [h, labelOf_arange (hrange x hx).1 (hrange x hx).2]; omega
    · rw [if_neg h0]
      exact shiftTrajs_decode idx sts hne hrange honto hwin hnar

/-! ### `shift_data` on a 1-d array, `_state_assignment_idx` -/

theorem mapM_length {α β : Type} (f : α → Py β) (l : List α) {r : List β} (h : l.mapM f = .ok r) :
    r.length = l.length := by
  induction l generalizing r with
  | nil => simp [List.mapM_nil, pure, Except.pure] at h; subst h; rfl
  | cons x xs ih =>
    rw [List.mapM_cons] at h
    cases hx : f x with
    | error e => simp [hx, bind, Except.bind] at h
    | ok v =>
      cases hxs : xs.mapM f with
      | error e => simp [hx, hxs, bind, Except.bind] at h
      | ok vs =>
        simp [hx, hxs, bind, Except.bind, pure, Except.pure] at h
        subst h
        simp [ih hxs]

/-- the translated `shift_data` on a 1-d array is the translated body on that array (the final reshape to the recorded
shape never fails) -/
theorem shift_data_1d_eq_core (a old new : List Int) :
    UtilsRelabel.shift_data_1d a old new = Relabel.shiftCore a old new := by
  unfold UtilsRelabel.shift_data_1d Relabel.shiftCore
  simp only [bind, Except.bind, pure, Except.pure]
  cases npMinInt a with
  | error e => rfl
  | ok v =>
    cases npMinInt new with
    | error e => rfl
    | ok v1 =>
      simp only
      cases npMaxInt (List.map (fun x_ => x_ - min v v1) a) with
      | error e => rfl
      | ok v2 =>
        simp only
        cases npAssignAt (npArange 0 (v2 + 1)) (List.map (fun x_ => x_ - min v v1) old)
            (List.map (fun x_ => x_ - min v v1) new) with
        | error e => rfl
        | ok v3 =>
          simp only
          cases hT : npTake v3 (List.map (fun x_ => x_ - min v v1) a) with
          | error e => rfl
          | ok v4 =>
            have hl := mapM_length _ _ hT
            simp only [List.length_map] at hl
            simp only [npReshape1, pyLen, List.length_map, hl, if_true]


/-- the translated `shift_data` on a 1-d array is the model's `shiftFlat` (same exception as `shift_data_refines`) -/
theorem shift_data_1d_eq_shiftFlat (a old new : List Int) (h : old.length = new.length ∨ new.length ≠ 1) :
    UtilsRelabel.shift_data_1d a old new = shiftFlat a old new := by
  rw [shift_data_1d_eq_core, Relabel.shiftCore_eq_shiftFlat _ _ _ h]

theorem subst_rank {ms : List Int} (hnd : ms.Nodup) {a : Int} (ha : a ∈ ms) :
    subst ms (arange 0 ms.length) a = (rank ms a : Int) := by
  have hk := rank_lt ha
  have h := subst_getElem_of_nodup (new := arange 0 ms.length) hnd hk (by simpa [arange] using hk)
  rw [getElem_rank ha] at h
  rw [h]; simp [arange]

/-- `_state_assignment_idx`: every macro label of the assignment replaced by its rank in the macro state list -/
theorem state_assignment_idx_rank (ms asg : List Int) {lo hi : Int} (hnd : ms.Nodup) (hne : asg ≠ [])
    (hsub : ∀ a ∈ asg, a ∈ ms) (hsup : ∀ m ∈ ms, m ∈ asg)
    (hwin : ∀ x ∈ asg, lo ≤ x ∧ x ≤ hi) (hlo : lo ≤ 0) (hlen : (ms.length : Int) ≤ hi + 1)
    (hnar : hi - lo < 2147483648) :
    LumpedAcc.state_assignment_idx ms asg = .ok (asg.map (fun a => (rank ms a : Int))) := by
  obtain ⟨a0, ha0⟩ := List.exists_mem_of_ne_nil _ hne
  have hms : ms ≠ [] := List.ne_nil_of_mem (hsub a0 ha0)
  unfold LumpedAcc.state_assignment_idx
  rw [shift_data_1d_eq_shiftFlat _ _ _ (Or.inl (by simp [arange0_len])), arange0_len, natCast_range_eq_arange]
  rw [shiftFlat_eq_subst (lo := lo) (hi := hi) hne (by simpa [arange] using hms) (by simp [arange])
    (fun o ho => ⟨o, List.mem_append_left _ (hsup o ho), Int.le_refl _⟩)
    (fun o ho => ⟨o, hsup o ho, Int.le_refl _⟩) ?_ hnar]
  · congr 1
    apply List.map_congr_left
    intro a ha
    exact subst_rank hnd (hsub a ha)
  · intro x hx
    rcases List.mem_append.mp hx with hx | hx
    · exact hwin x hx
    · have := mem_arange.mp hx
      omega

/-! ### the invariant under which a table lookup decodes -/

/-- **Invariant of a non-empty object state within the 32-bit guard**, relative to a lookup table `tbl` (the state list
`_states`, or the assignment `_state_assignment`): the index trajectories are not all empty, every stored index is a valid
position `0 ≤ i < len tbl`, every position is used by some frame, every table entry lies in `[-2^29, 2^29]` and the table has
at most `2^30 + 1` entries (what `LabelGuard` on the input gives). -/
structure DecodeOk (idx : Trajs) (tbl : List Int) : Prop where
  ne : idx.flatten ≠ []
  range : ∀ i ∈ idx.flatten, 0 ≤ i ∧ i < (tbl.length : Int)
  onto : ∀ k : Nat, k < tbl.length → (k : Int) ∈ idx.flatten
  guard : ∀ x ∈ tbl, -536870912 ≤ x ∧ x ≤ 536870912
  size : tbl.length ≤ 1073741825

theorem DecodeOk.decode {idx : Trajs} {tbl : List Int} (h : DecodeOk idx tbl) :
    shiftTrajs idx ((List.range tbl.length).map (fun (i : Nat) => (i : Int))) tbl
      = .ok (idx.map (·.map (labelOf tbl))) := by
  apply shiftTrajs_decode idx tbl (lo := -536870912) (hi := 1073741824) h.ne h.range h.onto
  · intro x hx
    rcases List.mem_append.mp hx with hx | hx
    · have := h.range x hx; have := h.size; omega
    · have := h.guard x hx; omega
  · omega

theorem states_length_le {ts : Trajs} (hg : LabelGuard ts) : (states ts).length ≤ 1073741825 := by
  by_cases h : (states ts).length = 0
  · omega
  · have := rank_le_of_window hg.window (k := (states ts).length - 1) (by omega)
    omega

theorem rankTrajs_flatten_ne {ts : Trajs} (hne : ts.flatten ≠ []) : (rankTrajs ts).flatten ≠ [] := by
  obtain ⟨x0, hx0⟩ := List.exists_mem_of_ne_nil _ hne
  exact List.ne_nil_of_mem (mem_rankTrajs_flatten.mpr ⟨x0, hx0, rfl⟩)

theorem rankTrajs_range {ts : Trajs} : ∀ i ∈ (rankTrajs ts).flatten, 0 ≤ i ∧ i < ((states ts).length : Int) := by
  intro i hi
  obtain ⟨x, hx, rfl⟩ := mem_rankTrajs_flatten.mp hi
  have := rank_lt (mem_states.mpr hx)
  omega

/-- the object state the constructor builds from guarded non-empty data satisfies the invariant w.r.t. its state list -/
theorem decodeOk_states {ts : Trajs} (hg : LabelGuard ts) (hne : ts.flatten ≠ []) :
    DecodeOk (rankTrajs ts) (states ts) :=
  ⟨rankTrajs_flatten_ne hne, rankTrajs_range, fun _ hk => natCast_mem_rankTrajs hk,
    fun x hx => hg x (mem_states.mp hx), states_length_le hg⟩

theorem firstMacro_mem {mic mac : List Int} {s : Int} (h : mic.idxOf s < mac.length) : firstMacro mic mac s ∈ mac := by
  unfold firstMacro
  rw [List.getD_eq_getElem?_getD, List.getElem?_eq_getElem h]
  exact List.getElem_mem h

/-- … and w.r.t. the assignment the lumped constructor computes, if the macro labels are guarded as well -/
theorem decodeOk_assignment {mic mac : Trajs} (hg : LabelGuard mic) (hgm : LabelGuard mac) (hne : mic.flatten ≠ [])
    (hfirst : ∀ s ∈ mic.flatten, mic.flatten.idxOf s < mac.flatten.length) :
    DecodeOk (rankTrajs mic) (Heap.assignment mic mac) := by
  have hl : (Heap.assignment mic mac).length = (states mic).length := by simp [Heap.assignment]
  refine ⟨rankTrajs_flatten_ne hne, ?_, ?_, ?_, ?_⟩
  · rw [hl]; exact rankTrajs_range
  · rw [hl]; exact fun _ hk => natCast_mem_rankTrajs hk
  · intro x hx
    rw [assignment_eq] at hx
    obtain ⟨s, hs, rfl⟩ := List.mem_map.mp hx
    exact hgm _ (firstMacro_mem (hfirst s (mem_states.mp hs)))
  · rw [hl]; exact states_length_le hg

end MsmVerif.Refine.Accessors
