/-
Refine/NormLemmas.lean — helper lemmas for task RP7 (`Refine/Norm.lean`): the numpy-runtime primitives used by the translated
`row_normalize_matrix`, `_split_array`, `_calc_times` (mask assignment, matrix/column broadcasting, `np.split`, `floor`, `int()`),
and the model's `chunks` as "full chunks + remainder".
-/
import MsmVerif.Gen.MsmNorm
import MsmVerif.Gen.PlotCkTest
import MsmVerif.Gen.MsmTests
import MsmVerif.Model.Msm
import MsmVerif.Model.TextIO
import MsmVerif.Model.Timescales

namespace MsmVerif.Refine.Norm
open MsmVerif MsmVerif.Gen

/-! ### row normalisation -/

/-- the guard: a row sum, or 1 where the row sum is 0 -/
def guard1 (s : Rat) : Rat := if s = 0 then 1 else s

theorem guard1_ne_zero (s : Rat) : guard1 s ≠ 0 := by
  unfold guard1; split
  · decide
  · assumption

theorem maskSet_guard (s : List Rat) :
    npMaskSet s (s.map (fun x_ => x_ == (((0 : Int) : Int) : Rat))) (1 : Rat) = .ok (s.map guard1) := by
  unfold npMaskSet
  rw [if_pos (by simp)]
  congr 1
  induction s with
  | nil => rfl
  | cons x xs ih =>
    simp only [List.map_cons, List.zipWith_cons_cons, ih]
    congr 1
    simp [guard1]

theorem guard_id_of_all (s : List Rat) (h : npAll1 (s.map (fun x_ => x_ != 0)) = true) :
    s.map guard1 = s := by
  induction s with
  | nil => rfl
  | cons x xs ih =>
    simp only [npAll1, List.map_cons, List.all_cons, Bool.and_eq_true, id] at h
    simp only [List.map_cons]
    rw [ih (by simpa [npAll1] using h.2)]
    congr 1
    have : x ≠ 0 := by simpa using h.1
    simp [guard1, this]

theorem matCol_eq {α β γ : Type} (f : α → β → γ) (m : List (List α)) (c : List β) (h : m.length = c.length) :
    npMatCol f m c = .ok (List.zipWith (fun r y => r.map (fun x => f x y)) m c) := by
  match m, c, h with
  | [], [], _ => simp [npMatCol]
  | [r], [y], _ => simp [npMatCol]
  | r :: r' :: rs, y :: y' :: ys, h => simp [npMatCol] at h ⊢; omega

theorem zipWith_map_self {α β γ : Type} (F : α → β → γ) (g : α → β) (m : List α) :
    List.zipWith F m (m.map g) = m.map (fun r => F r (g r)) := by
  induction m with
  | nil => rfl
  | cons x xs ih => simp [ih]

/-- the translated function is one broadcast division by the guarded row sums, whichever branch of the guard is taken -/
theorem row_normalize_eq_matCol (m : List (List Rat)) :
    Gen.MsmNorm.row_normalize_matrix m = npMatCol (fun x y => x / y) m ((npSumAxis1 m).map guard1) := by
  unfold Gen.MsmNorm.row_normalize_matrix
  simp only []
  split
  · rw [maskSet_guard]
    simp [bind, Except.bind, npReshapeCol, npShape0, npSumAxis1]
  · rename_i h
    have h' : npAll1 ((npSumAxis1 m).map (fun x_ => x_ != 0)) = true := by simpa using h
    rw [guard_id_of_all _ h']
    simp [bind, Except.bind, npReshapeCol, npShape0, npSumAxis1]

theorem sum_cast (row : List Nat) : (row.map (fun (k : Nat) => (k : Rat))).sum = ((row.sum : Nat) : Rat) := by
  induction row with
  | nil => rfl
  | cons x xs ih => simp [ih, Rat.natCast_add]

theorem rowNormalizeQ_cast (c : List (List Nat)) :
    Msm.rowNormalizeQ (c.map (·.map (fun (k : Nat) => (k : Rat)))) = Msm.rowNormalize c := by
  unfold Msm.rowNormalizeQ Msm.rowNormalize
  rw [List.map_map]
  apply List.map_congr_left
  intro row _
  simp only [Function.comp, sum_cast, List.map_map, Rat.natCast_eq_zero_iff]
  rfl

theorem zipWith_congr_mem {α β γ : Type} (F G : α → β → γ) (m : List α) (c : List β)
    (h : ∀ r ∈ m, ∀ y ∈ c, F r y = G r y) : List.zipWith F m c = List.zipWith G m c := by
  induction m generalizing c with
  | nil => simp
  | cons r rs ih =>
    cases c with
    | nil => simp
    | cons y ys =>
      simp only [List.zipWith_cons_cons]
      rw [h r (by simp) y (by simp), ih ys (fun r hr y hy => h r (by simp [hr]) y (by simp [hy]))]

theorem matCol_congr {α β γ : Type} (f g : α → β → γ) (m : List (List α)) (c : List β)
    (h : ∀ x, ∀ y ∈ c, f x y = g x y) : npMatCol f m c = npMatCol g m c := by
  unfold npMatCol
  split
  · congr 1
    apply List.map_congr_left
    intro y hy
    apply List.map_congr_left
    intro x _
    exact h x y hy
  · congr 1
    apply List.map_congr_left
    intro r _
    apply List.map_congr_left
    intro x _
    exact h x _ (by simp)
  · split
    · congr 1
      apply zipWith_congr_mem
      intro r _ y hy
      apply List.map_congr_left
      intro x _
      exact h x y hy
    · rfl

/-! ### floor / int() of a quotient of integers -/

theorem floor_div_int (n c : Int) (hc : 0 < c) : ((n : Rat) / (c : Rat)).floor = n / c := by
  have hcq : (0 : Rat) < (c : Rat) := by
    have := (Rat.intCast_lt_intCast (a := 0) (b := c)).2 hc
    simpa using this
  have h1 : ((n : Rat) / (c : Rat)).floor < n / c + 1 := by
    rw [Rat.floor_lt_iff, Rat.div_lt_iff hcq, ← Rat.intCast_mul, Rat.intCast_lt_intCast]
    exact Int.lt_ediv_add_one_mul_self n hc
  have h2 : ¬ ((n : Rat) / (c : Rat)).floor < n / c := by
    rw [Rat.floor_lt_iff, Rat.div_lt_iff hcq, ← Rat.intCast_mul, Rat.intCast_lt_intCast]
    have := Int.ediv_mul_le n (Int.ne_of_gt hc)
    omega
  omega

theorem div_int_nonneg (n c : Int) (hn : 0 ≤ n) (hc : 0 < c) : (0 : Rat) ≤ (n : Rat) / (c : Rat) := by
  have := Rat.floor_le ((n : Rat) / (c : Rat))
  rw [floor_div_int n c hc] at this
  refine Rat.le_trans ?_ this
  have h : (0 : Int) ≤ n / c := Int.ediv_nonneg hn (Int.le_of_lt hc)
  have := (Rat.intCast_le_intCast (a := 0) (b := n / c)).2 h
  simpa using this

theorem trunc_div (n c : Int) (hn : 0 ≤ n) (hc : 0 < c) : pyIntTrunc ((n : Rat) / (c : Rat)) = n / c := by
  unfold pyIntTrunc
  rw [if_pos (div_int_nonneg n c hn hc), floor_div_int n c hc]

theorem trunc_intCast (k : Int) (hk : 0 ≤ k) : pyIntTrunc (k : Rat) = k := by
  unfold pyIntTrunc
  have := (Rat.intCast_le_intCast (a := 0) (b := k)).2 hk
  rw [if_pos (by simpa using this), Rat.floor_intCast]

theorem intCast_ne_zero (c : Int) (hc : 0 < c) : ¬ ((c : Rat) = 0) := by
  intro h
  have := (Rat.intCast_lt_intCast (a := 0) (b := c)).2 hc
  rw [h] at this
  exact absurd this (by decide)

/-! ### `np.split` and the model's `chunks` -/

/-- `k` consecutive full chunks of size `c` -/
def fullChunks {α : Type} (c : Nat) : Nat → List α → List (List α)
  | 0, _ => []
  | k + 1, l => l.take c :: fullChunks c k (l.drop c)

theorem pyRange_cons (a b : Int) (h : a < b) : pyRange a b = a :: pyRange (a + 1) b := by
  unfold pyRange
  have : (b - a).toNat = (b - (a + 1)).toNat + 1 := by omega
  rw [this, List.range_succ_eq_map]
  simp only [List.map_cons, List.map_map]
  congr 1
  · simp
  · apply List.map_congr_left
    intro k _
    simp only [Function.comp]
    omega

theorem pyRange_nil (a b : Int) (h : b ≤ a) : pyRange a b = [] := by
  unfold pyRange
  have : (b - a).toNat = 0 := by omega
  rw [this]; rfl

theorem slice_nat_nat {α : Type} (l : List α) (p e : Nat) (hp : p ≤ e) (he : e ≤ l.length) :
    pySlice l (some (p : Int)) (some (e : Int)) = (l.drop p).take (e - p) := by
  unfold pySlice pyBound
  simp only []
  rw [if_neg (by omega), if_neg (by omega)]
  simp only [Int.toNat_natCast]
  rw [Nat.min_eq_left (show p ≤ l.length by omega), Nat.min_eq_left he]

theorem slice_nat_none {α : Type} (l : List α) (p : Nat) (hp : p ≤ l.length) :
    pySlice l (some (p : Int)) none = l.drop p := by
  unfold pySlice pyBound
  simp only []
  rw [if_neg (by omega)]
  simp only [Int.toNat_natCast]
  rw [Nat.min_eq_left hp]
  apply List.take_of_length_le
  simp

theorem split_go {α : Type} (l : List α) (c : Nat) (k : Nat) : ∀ (j : Nat), (j + k) * c ≤ l.length →
    npSplit.go l ((j * c : Nat) : Int) ((pyRange ((j : Int) + 1) ((j : Int) + k + 1)).map (fun i => (c : Int) * i))
      = fullChunks c k (l.drop (j * c)) ++ [l.drop ((j + k) * c)] := by
  induction k with
  | zero =>
    intro j h
    rw [pyRange_nil _ _ (by omega)]
    simp only [List.map_nil, npSplit.go, fullChunks, List.nil_append, Nat.add_zero]
    rw [slice_nat_none _ _ (by simpa using h)]
  | succ k ih =>
    intro j h
    rw [pyRange_cons _ _ (by omega)]
    simp only [List.map_cons, npSplit.go, fullChunks, List.cons_append]
    have e1 : (c : Int) * ((j : Int) + 1) = (((j + 1) * c : Nat) : Int) := by
      simp only [Int.natCast_mul, Int.natCast_add, Int.natCast_one]; rw [Int.mul_comm]
    have hle : (j + 1) * c ≤ (j + (k + 1)) * c := Nat.mul_le_mul_right _ (by omega)
    rw [e1, slice_nat_nat _ _ _ (Nat.mul_le_mul_right _ (by omega)) (by omega)]
    have e2 : (j + 1) * c - j * c = c := by rw [Nat.add_mul]; omega
    rw [e2]
    have e3 : ((j : Int) + ((k + 1 : Nat) : Int) + 1) = (((j + 1 : Nat) : Int) + k + 1) := by omega
    have e4 : ((j : Int) + 1 + 1) = (((j + 1 : Nat) : Int) + 1) := by omega
    rw [e3, e4, ih (j + 1) (by rw [show j + 1 + k = j + (k + 1) by omega]; exact h)]
    rw [List.drop_drop, show j * c + c = (j + 1) * c by rw [Nat.add_mul]; omega,
      show j + 1 + k = j + (k + 1) by omega]

theorem chunks_go {α : Type} (c : Nat) (hc : 1 ≤ c) (k : Nat) : ∀ (l : List α) (fuel r : Nat), l.length = k * c + r → r < c →
    l.length ≤ fuel →
    TextIO.chunks.go c fuel l = fullChunks c k l ++ (if r = 0 then [] else [l.drop (k * c)]) := by
  induction k with
  | zero =>
    intro l fuel r hl hr hf
    simp only [Nat.zero_mul, Nat.zero_add] at hl
    simp only [fullChunks, List.nil_append, Nat.zero_mul, List.drop_zero]
    cases l with
    | nil =>
      simp only [List.length_nil] at hl
      rw [if_pos hl.symm]
      cases fuel <;> simp [TextIO.chunks.go]
    | cons x xs =>
      simp only [List.length_cons] at hl hf
      rw [if_neg (by omega)]
      cases fuel with
      | zero => omega
      | succ f =>
        simp only [TextIO.chunks.go]
        rw [List.take_of_length_le (by simp; omega), List.drop_of_length_le (by simp; omega)]
        cases f <;> simp [TextIO.chunks.go]
  | succ k ih =>
    intro l fuel r hl hr hf
    have hlen : c ≤ l.length := by rw [hl, Nat.add_mul]; omega
    cases l with
    | nil => simp only [List.length_nil] at hlen; omega
    | cons x xs =>
      cases fuel with
      | zero => simp only [List.length_cons] at hf; omega
      | succ f =>
        simp only [TextIO.chunks.go, fullChunks, List.cons_append]
        have hl' : ((x :: xs).drop c).length = k * c + r := by
          rw [List.length_drop, hl, Nat.add_mul]; omega
        rw [ih _ f r hl' hr (by rw [hl']; rw [hl, Nat.add_mul] at hf; omega)]
        rw [List.drop_drop, show c + k * c = (k + 1) * c by rw [Nat.add_mul]; omega]

theorem pyGet_last {α : Type} (xs : List α) (y : α) : pyGet (xs ++ [y]) (-1) = .ok y := by
  unfold pyGet normIdx
  have hl : (xs ++ [y]).length = xs.length + 1 := by simp
  rw [if_neg (by omega), if_pos (by omega)]
  have : ((-1 : Int) + ((xs ++ [y]).length : Nat)).toNat = xs.length := by omega
  simp only [this]
  simp

theorem pySlice_dropLast {α : Type} (xs : List α) (y : α) : pySlice (xs ++ [y]) none (some (-1)) = xs := by
  unfold pySlice pyBound
  simp only []
  have hl : (xs ++ [y]).length = xs.length + 1 := by simp
  rw [if_pos (by omega)]
  have : ((-1 : Int) + ((xs ++ [y]).length : Nat)).toNat = xs.length := by omega
  rw [this]
  simp

end MsmVerif.Refine.Norm
