/-
Refine/CkTest.lean — task RP19 (property C09): the functions TRANSLATED from `src/msmhelper/msm/tests.py`
(`Gen.MsmTests.chapman_kolmogorov_test`, `Gen.MsmTests.chapman_kolmogorov_test_md`) compute exactly the hand-written model
(`Timescales.ckTimes`, `Timescales.ckCurves`, `Linalg.pow`, `Linalg.entry`, `Linalg.isErgodic`, `Linalg.isFuzzyErgodic`,
`sortDedup`, `Timescales.refGridOk`).

The estimator `trajs.estimate_markov_model(lagtime)` is an ORACLE parameter (`est`), as is the rounded geometric time grid
`np.around(np.geomspace(tmin, tmax, steps)).astype(int64)` (`geo`); both are universally quantified, the hypotheses say what they
returned at the calls the function makes.  The result dictionaries are tuples in key order `(ck, time, is_ergodic, is_fuzzy_ergodic)`,
`ck` being the list of `(state label, curve)` pairs in the order of `trajs.states`.

All helper lemmas live in `Refine/CkTestLemmas.lean` (same namespace).
-/
import MsmVerif.Refine.CkTestLemmas

namespace MsmVerif.Refine.CkTest
open MsmVerif MsmVerif.Gen MsmVerif.Linalg MsmVerif.Timescales

/-! ### `_chapman_kolmogorov_test` : the model curve `T(τ)^k` -/

/-- **Model curve.**  Let the lag time be `≥ 1`, let the estimator, called with the lag time, return `(T, sts')` where `T` is a
    non-empty square `n × n` rational matrix, let `trajs.nstates = n` and let `trajs.states` be a list of `n` labels.  Then
    `_chapman_kolmogorov_test` raises nothing (no `ZeroDivisionError`, no `LinAlgError`, no `ValueError` from the column
    assignment `ckeq[:, idx] = …`, no `IndexError` from `ckeq[idx]`) and returns
    * `ck`: the state labels paired, in order, with the model curves `ckCurves T lag tmax` — the curve of the `s`-th state holds at
      position `k` (counted from 0) the diagonal element `(T^(k+1))_{ss}` of the model's matrix power `Linalg.pow`, one value for every
      `k + 1 = 1 … tmax / lag`, i.e. for every multiple `(k+1)·lag ≤ tmax` of the lag time (see `C09.curves_shape`);
    * `time`: the model grid `ckTimes lag tmax = [lag, 2·lag, …, (tmax / lag)·lag]` (as integers);
    * `is_ergodic`, `is_fuzzy_ergodic`: the model predicates `Linalg.isErgodic T`, `Linalg.isFuzzyErgodic T`. -/
theorem ck_test_refines (est : Int → Py ((List (List Rat)) × (List Int))) (T : Mat) (sts' : List Int) (n : Nat)
    (states : List Int) (lag tmax : Nat) (hlag : 1 ≤ lag)
    (hest : est (lag : Int) = .ok (T, sts')) (hne : T ≠ []) (hsq : Linalg.isSquare T = true) (hn : T.length = n)
    (hst : states.length = n) :
    Gen.MsmTests.chapman_kolmogorov_test est (n : Int) states (lag : Int) (tmax : Int)
      = .ok (states.zip (ckCurves T lag tmax), (ckTimes lag tmax).map Int.ofNat, Linalg.isErgodic T, Linalg.isFuzzyErgodic T) := by
  subst hn
  rw [ck_unfold, Norm.calc_times_refines lag tmax hlag]
  show (do let t2 ← est (lag : Int); ckTail states _ _ t2.1) = _
  rw [hest]
  exact ckTail_eq T hne hsq states hst lag tmax

/-- **Model curve, read entry by entry.**  Under the hypotheses of `ck_test_refines` the function returns a result `(ck, time, …)` such that
    the keys of `ck` are the state labels in order, there are `tmax / lag` times, the `k`-th time (from 0) is `(k+1)·lag`, and the curve of
    the `s`-th state has at position `k` the value `(T^(k+1))_{ss}` — the `s`-diagonal element of the `(k+1)`-th power of `T`, belonging to
    the time `(k+1)·lag`; the two flags are the model's predicates of `T`. -/
theorem ck_test_pointwise (est : Int → Py ((List (List Rat)) × (List Int))) (T : Mat) (sts' : List Int) (n : Nat)
    (states : List Int) (lag tmax : Nat) (hlag : 1 ≤ lag)
    (hest : est (lag : Int) = .ok (T, sts')) (hne : T ≠ []) (hsq : Linalg.isSquare T = true) (hn : T.length = n)
    (hst : states.length = n) :
    ∃ ck times,
      Gen.MsmTests.chapman_kolmogorov_test est (n : Int) states (lag : Int) (tmax : Int)
        = .ok (ck, times, Linalg.isErgodic T, Linalg.isFuzzyErgodic T)
      ∧ ck.map Prod.fst = states ∧ times.length = tmax / lag
      ∧ (∀ k, k < tmax / lag → times[k]? = some ((((k + 1) * lag : Nat)) : Int))
      ∧ (∀ s k, s < n → k < tmax / lag →
          ((ck.map Prod.snd)[s]?.bind (fun c => c[k]?)) = some (Linalg.entry (Linalg.pow T (k + 1)) s s)) := by
  refine ⟨_, _, ck_test_refines est T sts' n states lag tmax hlag hest hne hsq hn hst, ?_, ?_, ?_, ?_⟩
  · exact List.map_fst_zip (by rw [Misc.ckCurves_length]; omega)
  · simp [ckTimes]
  · intro k hk
    simp [ckTimes, hk]
  · intro s k hs hk
    rw [List.map_snd_zip (by rw [Misc.ckCurves_length]; omega)]
    subst hn
    simp [ckCurves, hs, hk]

/-- **The estimator's error is passed on.**  For every lag time `≠ 0` (any integer) and every `tmax`: if the estimator raises `e`
    (e.g. `LagtimeError` or whatever else), `_chapman_kolmogorov_test` raises the same `e` — nothing else is evaluated first
    that could fail. -/
theorem ck_test_estimator_error (est : Int → Py ((List (List Rat)) × (List Int))) (nstates : Int) (states : List Int)
    (lag tmax : Int) (hlag : lag ≠ 0) (e : Err) (hest : est lag = .error e) :
    Gen.MsmTests.chapman_kolmogorov_test est nstates states lag tmax = .error e := by
  obtain ⟨ts, hts⟩ := calc_times_ok lag tmax hlag
  rw [ck_unfold, hts]
  show (do let t2 ← est lag; ckTail states ts nstates t2.1) = _
  rw [hest]
  rfl

/-- **Lag time 0.**  `_chapman_kolmogorov_test(trajs, 0, tmax)` raises `ZeroDivisionError` (translated as `Err.other`) from
    `_calc_times`, whatever the estimator is (it is not consulted). -/
theorem ck_test_lag_zero (est : Int → Py ((List (List Rat)) × (List Int))) (nstates : Int) (states : List Int) (tmax : Int) :
    Gen.MsmTests.chapman_kolmogorov_test est nstates states 0 tmax = .error .other := by
  rw [ck_unfold, Norm.calc_times_zero]
  rfl

/-! #### non-vacuity: a concrete oracle, a 2×2 rational matrix, lag time 2, `tmax = 7` -/

/-- an estimator that knows only lag time 2 -/
def exEst : Int → Py ((List (List Rat)) × (List Int)) :=
  fun lag => if lag = 2 then .ok ([[1/2, 1/2], [1/4, 3/4]], [1, 3]) else .error .lagtime

/-- the theorem applies … -/
example : Gen.MsmTests.chapman_kolmogorov_test exEst ((2 : Nat) : Int) [1, 3] ((2 : Nat) : Int) ((7 : Nat) : Int)
    = .ok ([1, 3].zip (ckCurves [[1/2, 1/2], [1/4, 3/4]] 2 7), (ckTimes 2 7).map Int.ofNat,
        Linalg.isErgodic [[1/2, 1/2], [1/4, 3/4]], Linalg.isFuzzyErgodic [[1/2, 1/2], [1/4, 3/4]]) :=
  ck_test_refines exEst [[1/2, 1/2], [1/4, 3/4]] [1, 3] 2 [1, 3] 2 7 (by decide) (by decide +kernel) (by decide)
    (by decide +kernel) rfl rfl
/-- … and the value is: diagonals of `T`, `T²`, `T³` at the times 2, 4, 6 -/
example : Gen.MsmTests.chapman_kolmogorov_test exEst 2 [1, 3] 2 7
    = .ok ([(1, [1/2, 3/8, 11/32]), (3, [3/4, 11/16, 43/64])], [2, 4, 6], true, true) := by decide +kernel
example : ckCurves [[1/2, 1/2], [1/4, 3/4]] 2 7 = [[1/2, 3/8, 11/32], [3/4, 11/16, 43/64]] ∧ ckTimes 2 7 = [2, 4, 6] := by
  decide +kernel
/-- `tmax < lag`: empty grid, empty curves, no error -/
example : Gen.MsmTests.chapman_kolmogorov_test exEst 2 [1, 3] 2 1 = .ok ([(1, []), (3, [])], [], true, true) := by
  decide +kernel
/-- the estimator's error (`LagtimeError` for lag time 3, also for a negative lag time) and lag time 0 -/
example : Gen.MsmTests.chapman_kolmogorov_test exEst 2 [1, 3] 3 7 = .error .lagtime :=
  ck_test_estimator_error exEst 2 [1, 3] 3 7 (by decide) .lagtime (by decide +kernel)
example : Gen.MsmTests.chapman_kolmogorov_test exEst 2 [1, 3] (-2) 7 = .error .lagtime :=
  ck_test_estimator_error exEst 2 [1, 3] (-2) 7 (by decide) .lagtime (by decide +kernel)
example : Gen.MsmTests.chapman_kolmogorov_test exEst 2 [1, 3] 0 7 = .error .other := ck_test_lag_zero exEst 2 [1, 3] 7
/-- the hypotheses `states.length = n` and `nstates = n` are needed: one label too many is an `IndexError` (`ckeq[2]`),
    `nstates = 3` with a 2×2 matrix a `ValueError` (the diagonal of length 2 does not fit a column of length 3) -/
example : Gen.MsmTests.chapman_kolmogorov_test exEst 2 [1, 3, 5] 2 7 = .error .index := by decide +kernel
example : Gen.MsmTests.chapman_kolmogorov_test exEst 3 [1, 3, 5] 2 7 = .error .value := by decide +kernel

/-! ### `_chapman_kolmogorov_test_md` : the reference curve `T(kτ)` -/

/-- **Reference curve.**  Let the grid oracle return `g` (ANY list of integers) and let, for every time `t` of the grid, the PLAIN
    estimator called with `t` return `(Tm t, _)` with `Tm t` a non-empty square `n × n` rational matrix; `trajs.nstates = n`,
    `trajs.states` a list of `n` labels.  Then `_chapman_kolmogorov_test_md` raises nothing and returns
    * `time`: `sortDedup g`, the ascending list of the distinct grid values (`np.unique`);
    * `ck`: the state labels paired, in order, with their curves — the curve of the `s`-th state holds at position `j` the diagonal
      element `(Tm t_j)_{ss}` of the matrix estimated at the `j`-th time `t_j` of `sortDedup g` (no matrix power here);
    * `is_ergodic`, `is_fuzzy_ergodic`: at position `j` the model predicates `Linalg.isErgodic (Tm t_j)`,
      `Linalg.isFuzzyErgodic (Tm t_j)`.
    (For properties of the returned times see `ck_test_md_grid`.) -/
theorem ck_test_md_refines (est : Int → Py ((List (List Rat)) × (List Int))) (geo : Int → Int → Int → Py (List Int))
    (n : Nat) (states : List Int) (tmin tmax steps : Int) (g : List Int) (Tm : Int → Mat)
    (hgeo : geo tmin tmax steps = .ok g)
    (hest : ∀ t ∈ g, ∃ sts, est t = .ok (Tm t, sts))
    (hT : ∀ t ∈ g, Tm t ≠ [] ∧ Linalg.isSquare (Tm t) = true ∧ (Tm t).length = n)
    (hst : states.length = n) :
    Gen.MsmTests.chapman_kolmogorov_test_md est geo (n : Int) states tmin tmax steps
      = .ok (states.zip ((List.range n).map (fun s => (sortDedup g).map (fun t => Linalg.entry (Tm t) s s))),
          sortDedup g,
          (sortDedup g).map (fun t => Linalg.isErgodic (Tm t)),
          (sortDedup g).map (fun t => Linalg.isFuzzyErgodic (Tm t))) := by
  rw [md_unfold, hgeo]
  show mdTail est states (n : Int) (npUnique g) = _
  rw [Times.npUnique_eq_sortDedup]
  exact mdTail_eq est n Tm states (sortDedup g) hst
    (fun t ht => ⟨hest t (mem_sortDedup.mp ht), hT t (mem_sortDedup.mp ht)⟩)

/-- **The returned times of the reference curve.**  For every oracle grid `g` the returned list `sortDedup g` is strictly
    increasing and has exactly the members of `g`.  If moreover the grid contains `tmin` and all its values lie in `[tmin, tmax]`
    (as the rounded `np.geomspace(tmin, tmax, …)` with `1 ≤ tmin ≤ tmax` does — it starts at `tmin`), then the returned times are
    natural numbers and satisfy the model's predicate `refGridOk`: they start with `tmin`, never exceed `tmax`, strictly increase. -/
theorem ck_test_md_grid (g : List Int) :
    (sortDedup g).Pairwise (· < ·) ∧ (∀ t, t ∈ sortDedup g ↔ t ∈ g) ∧
    ∀ (tmin tmax : Nat), (tmin : Int) ∈ g → (∀ t ∈ g, (tmin : Int) ≤ t ∧ t ≤ (tmax : Int)) →
      refGridOk ((sortDedup g).map Int.toNat) tmin tmax = true ∧
      ((sortDedup g).map Int.toNat).map Int.ofNat = sortDedup g :=
  ⟨sortDedup_pairwise g, fun _ => mem_sortDedup, fun tmin tmax hmin hr =>
    ⟨grid_ok g tmin tmax hmin hr, grid_cast g (fun t ht => by have := hr t ht; omega)⟩⟩

/-- **Reference curve, with the grid predicate.**  Under the hypotheses of `ck_test_md_refines`, if the oracle grid `g` starts with
    `tmin` and all its values lie in `[tmin, tmax]`, the function returns a result whose `time` entry satisfies `refGridOk … tmin tmax`
    (after reading the non-negative integers as naturals). -/
theorem ck_test_md_refGridOk (est : Int → Py ((List (List Rat)) × (List Int))) (geo : Int → Int → Int → Py (List Int))
    (n : Nat) (states : List Int) (tmin tmax : Nat) (steps : Int) (g : List Int) (Tm : Int → Mat)
    (hgeo : geo (tmin : Int) (tmax : Int) steps = .ok g)
    (hest : ∀ t ∈ g, ∃ sts, est t = .ok (Tm t, sts))
    (hT : ∀ t ∈ g, Tm t ≠ [] ∧ Linalg.isSquare (Tm t) = true ∧ (Tm t).length = n)
    (hst : states.length = n)
    (hhead : g.head? = some (tmin : Int)) (hr : ∀ t ∈ g, (tmin : Int) ≤ t ∧ t ≤ (tmax : Int)) :
    ∃ ck times erg fuz,
      Gen.MsmTests.chapman_kolmogorov_test_md est geo (n : Int) states (tmin : Int) (tmax : Int) steps = .ok (ck, times, erg, fuz)
      ∧ refGridOk (times.map Int.toNat) tmin tmax = true
      ∧ (times.map Int.toNat).map Int.ofNat = times
      ∧ ck.length = n ∧ (∀ p ∈ ck, p.2.length = times.length) ∧ erg.length = times.length ∧ fuz.length = times.length := by
  have hmin : (tmin : Int) ∈ g := List.mem_of_mem_head? hhead
  refine ⟨_, _, _, _, ck_test_md_refines est geo n states _ _ steps g Tm hgeo hest hT hst,
    grid_ok g tmin tmax hmin hr, grid_cast g (fun t ht => by have := hr t ht; omega), ?_, ?_, ?_, ?_⟩
  · simp [hst]
  · intro p hp
    have := (List.of_mem_zip hp).2
    obtain ⟨s, _, hs⟩ := List.mem_map.mp this
    rw [← hs]
    simp
  · simp
  · simp

/-- **The grid oracle's error is passed on** (nothing is evaluated before it). -/
theorem ck_test_md_grid_error (est : Int → Py ((List (List Rat)) × (List Int))) (geo : Int → Int → Int → Py (List Int))
    (nstates : Int) (states : List Int) (tmin tmax steps : Int) (e : Err) (hgeo : geo tmin tmax steps = .error e) :
    Gen.MsmTests.chapman_kolmogorov_test_md est geo nstates states tmin tmax steps = .error e := by
  rw [md_unfold, hgeo]
  rfl

/-- **The plain estimator's error is passed on.**  If the sorted distinct grid is `pre ++ t0 :: rest`, the estimator answers with
    non-empty square `n × n` matrices for the times of `pre` and raises `e` at `t0`, then `_chapman_kolmogorov_test_md` raises `e`
    (the later times are not tried, nothing else fails before). -/
theorem ck_test_md_estimator_error (est : Int → Py ((List (List Rat)) × (List Int))) (geo : Int → Int → Int → Py (List Int))
    (n : Nat) (states : List Int) (tmin tmax steps : Int) (g : List Int) (Tm : Int → Mat)
    (pre : List Int) (t0 : Int) (rest : List Int) (e : Err)
    (hgeo : geo tmin tmax steps = .ok g) (hsplit : sortDedup g = pre ++ t0 :: rest)
    (hest : ∀ t ∈ pre, ∃ sts, est t = .ok (Tm t, sts))
    (hT : ∀ t ∈ pre, Tm t ≠ [] ∧ Linalg.isSquare (Tm t) = true ∧ (Tm t).length = n)
    (h0 : est t0 = .error e) :
    Gen.MsmTests.chapman_kolmogorov_test_md est geo (n : Int) states tmin tmax steps = .error e := by
  rw [md_unfold, hgeo]
  show mdTail est states (n : Int) (npUnique g) = _
  rw [Times.npUnique_eq_sortDedup, hsplit]
  exact mdTail_error est n Tm states pre t0 rest e (fun t ht => ⟨hest t ht, hT t ht⟩) h0

/-! #### non-vacuity: a grid with a duplicate, `[1, 1, 2, 4]`, and a concrete plain estimator -/

/-- the matrices "estimated" at the lag times 1, 2, 4 -/
def exTm : Int → Mat :=
  fun t => if t = 1 then [[1/2, 1/2], [1/4, 3/4]] else if t = 2 then [[1/3, 2/3], [1/3, 2/3]] else [[0, 1], [1, 0]]
/-- a plain estimator that knows only the lag times 1, 2, 4 -/
def exPlain : Int → Py ((List (List Rat)) × (List Int)) :=
  fun t => if t = 1 ∨ t = 2 ∨ t = 4 then .ok (exTm t, [1, 3]) else .error .lagtime
/-- a grid oracle that answers only the expected call -/
def exGeo : Int → Int → Int → Py (List Int) :=
  fun tmin tmax steps => if tmin = 1 ∧ tmax = 4 ∧ steps = 4 then .ok [1, 1, 2, 4] else .error .assertion

/-- the theorem applies … -/
example : Gen.MsmTests.chapman_kolmogorov_test_md exPlain exGeo ((2 : Nat) : Int) [1, 3] 1 4 4
    = .ok ([1, 3].zip ((List.range 2).map (fun s => (sortDedup [1, 1, 2, 4]).map (fun t => Linalg.entry (exTm t) s s))),
        sortDedup [1, 1, 2, 4],
        (sortDedup [1, 1, 2, 4]).map (fun t => Linalg.isErgodic (exTm t)),
        (sortDedup [1, 1, 2, 4]).map (fun t => Linalg.isFuzzyErgodic (exTm t))) :=
  ck_test_md_refines exPlain exGeo 2 [1, 3] 1 4 4 [1, 1, 2, 4] exTm (by decide +kernel)
    (by intro t ht
        simp only [List.mem_cons, List.not_mem_nil, or_false] at ht
        rcases ht with rfl | rfl | rfl | rfl <;> exact ⟨[1, 3], by decide +kernel⟩)
    (by decide +kernel) rfl
/-- … and the value is: the duplicate time is dropped, the curves hold the diagonals of the three matrices -/
example : Gen.MsmTests.chapman_kolmogorov_test_md exPlain exGeo 2 [1, 3] 1 4 4
    = .ok ([(1, [1/2, 1/3, 0]), (3, [3/4, 2/3, 0])], [1, 2, 4], [true, true, false], [true, true, true]) := by decide +kernel
/-- the grid predicate: hypotheses of `ck_test_md_grid` / `ck_test_md_refGridOk` hold for this grid -/
example : refGridOk ((sortDedup [1, 1, 2, 4]).map Int.toNat) 1 4 = true :=
  ((ck_test_md_grid [1, 1, 2, 4]).2.2 1 4 (by decide) (by decide)).1
example : ([1, 1, 2, 4] : List Int).head? = some ((1 : Nat) : Int) ∧ ∀ t ∈ ([1, 1, 2, 4] : List Int), ((1 : Nat) : Int) ≤ t ∧ t ≤ ((4 : Nat) : Int) := by
  decide
/-- errors: the grid oracle's (`AssertionError` for an unexpected call), the estimator's (`LagtimeError` at time 3 of `[1, 3, 4]`) -/
example : Gen.MsmTests.chapman_kolmogorov_test_md exPlain exGeo 2 [1, 3] 1 4 5 = .error .assertion :=
  ck_test_md_grid_error exPlain exGeo 2 [1, 3] 1 4 5 .assertion (by decide +kernel)
example : Gen.MsmTests.chapman_kolmogorov_test_md exPlain (fun _ _ _ => .ok [4, 3, 1]) ((2 : Nat) : Int) [1, 3] 1 4 5 = .error .lagtime :=
  ck_test_md_estimator_error exPlain _ 2 [1, 3] 1 4 5 [4, 3, 1] exTm [1] 3 [4] .lagtime rfl (by decide)
    (by intro t ht
        simp only [List.mem_cons, List.not_mem_nil, or_false] at ht
        subst ht
        exact ⟨[1, 3], by decide +kernel⟩)
    (by decide +kernel) (by decide +kernel)

end MsmVerif.Refine.CkTest
