"""C03 — Hummer-Szabo lumped model matches the projection formula, keeps equilibrium."""
import itertools
from fractions import Fraction

import numpy as np

import core
import gen

PID = 'C03'
ANCHORS = [('src/msmhelper/statetraj.py', ['LumpedStateTraj.__init__', 'LumpedStateTraj.estimate_markov_model',
                                           'LumpedStateTraj._estimate_markov_model', 'LumpedStateTraj._state_assignment_idx',
                                           'LumpedStateTraj.state_assignment', 'LumpedStateTraj.states']),
           ('src/msmhelper/msm/msm.py', ['row_normalize_matrix', 'equilibrium_population'])]
RULE = ('ergodic micro chains with 2-7 microstates sampled (by the harness PRNG) into 1-3 trajectories; every surjective lumping for <=4 microstates '
        'and random ones above, incl. singleton lumpings with order-reversing label maps; micro/macro labels unsorted and gapped; lags 1-3; both values '
        'of positive; short non-ergodic data (must be refused with TypeError). Compared entrywise within 1e-8 with the exact rational projection '
        '(certified inverses). Non-trivial = >=1 macrostate with >=2 microstates and ergodic micro model; distinct by (micro, macro, lag, positive).')
RELATION = '|LumpedStateTraj(macro, micro, positive).estimate_markov_model(lag) - Linalg.hsProject(exact micro model)| <= 1e-8, labels exact, TypeError iff not ergodic'
TRUSTED = ['np.linalg.inv / eigen-solver are not modelled: the exact rational Gauss-Jordan inverses of the model are certificate-checked (X*Z = 1) on every input']
PARTIAL = 'floats compared by the tolerance 1e-8 of the property'


def _mk(micro, macro, lag, positive, src='rand', kind=''):
    return {'op': 'hs', 'micro': micro, 'macro': macro, 'lag': lag, 'positive': positive, 'src': src, 'kind': kind}


def sample_chain(rng, n, length, cyc_bias=0.0):
    """sticky random walk on a random strongly connected graph (so the estimated model is usually ergodic)"""
    nbrs = []
    for i in range(n):
        others = [j for j in range(n) if j != i]
        k = rng.randint(1, len(others))
        nb = rng.sample(others, k)
        if (i + 1) % n not in nb:
            nb.append((i + 1) % n)
        nbrs.append(nb)
    t = [rng.randrange(n)]
    for _ in range(length - 1):
        r = rng.random()
        if r < 0.45:
            t.append(t[-1])
        elif r < 0.45 + cyc_bias:
            t.append((t[-1] + 1) % n)
        else:
            t.append(rng.choice(nbrs[t[-1]]))
    return t


def surjections(n, m):
    for f in itertools.product(range(m), repeat=n):
        if len(set(f)) == m:
            yield f


def cases(tier, rng, boost=1):
    # corpus: singleton lumping with an order-reversing label map; short non-reversible data with positive=True
    yield _mk([[5, 11, 42, 11, 5, 5, 42, 42, 11, 5, 42, 5, 11, 11, 42, 5]], [[30, -7, 12, -7, 30, 30, 12, 12, -7, 30, 12, 30, -7, -7, 12, 30]], 1, False,
              src='corpus', kind='singleton')
    # periodic micro model: strictly alternating between two groups of microstates -> irreducible but NOT ergodic -> must be refused
    yield _mk([[0, 2, 1, 3, 0, 3, 1, 2, 0, 2, 1, 3, 1, 2, 0, 3, 0, 2]], [[5, 9, 5, 9, 5, 9, 5, 9, 5, 9, 5, 9, 5, 9, 5, 9, 5, 9]], 1, False, src='corpus', kind='lump')
    yield _mk([[0, 2, 1, 3, 0, 3, 1, 2, 0, 2, 1, 3, 1, 2, 0, 3, 0, 2]], [[5, 9, 6, 9, 5, 9, 6, 9, 5, 9, 6, 9, 6, 9, 5, 9, 5, 9]], 3, True, src='corpus', kind='lump')
    # long trajectories (prime lengths above powers of two) in which some microstates are visited for the first time late — beyond the first blocks of a
    # blockwise search —, so that reading a microstate's macrostate at its first frame needs the right global index
    for N_ in (4099, 8209, 12301) + ((65537,) if tier == 'thorough' else ()):
        lrng = core.Rng(N_)
        mi = [lrng.randrange(3) for _ in range(N_)]
        for k_ in range(N_ // 2 + 7, N_):
            mi[k_] = lrng.randrange(6)                       # microstates 3, 4, 5 appear only in the second half
        ma = [[10, 10, 20, 30, 20, 30][x] for x in mi]     # first-half and second-half microstates share macrostates, the late ones in another order
        yield _mk([mi], [ma], 1, False, src='corpus-long', kind='lump')
        yield _mk([mi], [ma], 2, True, src='corpus-long', kind='lump')
    # metastable micro model (two basins, exchange probability ~1e-3): an iterative stationary vector stopped by its step size is wrong by step/(1 - lambda_2),
    # which then exceeds the 1e-8 of the property
    mi = []
    for b_ in range(120):
        base = 2 * (b_ % 2)
        blk = [base, base, base + 1, base, base + 1, base + 1, base, base + 1]
        mi += blk * (120 + (b_ * 5) % 7)
    ma = [[10, 20, 20, 30][x] for x in mi]
    yield _mk([mi], [ma], 1, False, src='corpus-long', kind='lump')
    yield _mk([mi], [ma], 3, True, src='corpus-long', kind='lump')
    nmodels = {'quick': 150, 'thorough': 1500, 'search': 400}[tier] * boost
    for _ in range(nmodels):
        n = rng.randint(2, 7)
        ntraj = rng.randint(1, 3)
        L = rng.choice([6, 10, 28, 40, 80, 200])
        idx = [sample_chain(rng, n, L, cyc_bias=rng.choice([0.0, 0.3])) for _ in range(ntraj)]
        if rng.random() < 0.08 and n >= 4:
            half = n // 2           # bipartite (period 2) dynamics
            idx = [[(rng.randrange(half) if k % 2 == 0 else half + rng.randrange(n - half)) for k in range(L)] for _ in range(ntraj)]
        mlabs, _ = gen.alphabet(rng, n)
        micro = gen.relabel(idx, mlabs)
        lumps = []
        if n <= 4:
            for m in range(2, n + 1):
                lumps += list(surjections(n, m))
            if tier == 'quick':
                lumps = rng.sample(lumps, min(len(lumps), 6))
        else:
            for _k in range(4 if tier == 'quick' else 10):
                m = rng.randint(2, n)
                f = [rng.randrange(m) for _ in range(n)]
                for a in range(m):
                    f[rng.randrange(n)] = a
                if len(set(f)) == m:
                    lumps.append(tuple(f))
            perm = list(range(n))
            rng.shuffle(perm)
            lumps.append(tuple(perm))          # singleton lumping, arbitrary order
        for f in lumps:
            m = max(f) + 1
            alabs, _ = gen.alphabet(rng, m)
            macro = [[alabs[f[i]] for i in t] for t in idx]
            for lag in ([1] if tier == 'quick' else [1, 2, 3]):
                yield _mk(micro, macro, lag, rng.random() < 0.5, kind='singleton' if m == n else 'lump')


def real(case):
    import msmhelper as mh

    def run():
        obj = mh.LumpedStateTraj([np.array(t) for t in case['macro']], [np.array(t) for t in case['micro']], positive=case['positive'])
        # the estimate at one lag time must not depend on what the same object estimated before: every other case first asks the
        # object for another lag time (result discarded; it may legitimately be refused)
        if sum(len(t) for t in case['micro']) % 2 == 0:
            try:
                obj.estimate_markov_model(case['lag'] + 1)
            except Exception:  # noqa
                pass
        T, st = obj.estimate_markov_model(case['lag'])
        T = np.asarray(T, dtype=np.float64)
        if not np.all(np.isfinite(T)):
            raise AssertionError('non-finite lumped matrix')
        return {'T': [[core.rat_str(float(v)) for v in row] for row in T], 'states': [int(s) for s in st]}
    out = core.call(run)
    out.pop('msg', None)
    return out


def request(case, obs):
    return {'op': 'hs', 'micro': case['micro'], 'macro': case['macro'], 'lag': case['lag'], 'positive': case['positive'], 'obs': obs}


def agree(case, obs, reply):
    if reply.get('near_threshold'):
        return True
    m = reply['model']
    if 'err' in m or 'err' in obs:
        return m.get('err') == obs.get('err')
    if m['ok'] is None:
        return True
    if m['ok']['states'] != obs['ok']['states']:
        return False
    tol = Fraction(1, 10 ** 8)
    for r1, r2 in zip(m['ok']['T'], obs['ok']['T']):
        for a, b in zip(r1, r2):
            if abs(Fraction(a) - Fraction(b)) > tol:
                return False
    return True


def holds(case, obs, reply):
    return bool(reply['holds'])


def nontrivial(case, obs, reply):
    return 'ok' in obs and not reply.get('near_threshold') and case['kind'] == 'lump'


def key(case):
    return [case['micro'], case['macro'], case['lag'], case['positive']]


def classify(case, obs, reply):
    return '%s/%s/%s/%s' % (case['kind'], 'pos' if case['positive'] else 'raw', 'near' if reply.get('near_threshold') else 'far', obs.get('err', 'ok'))


def known_match(k, case, obs, reply):
    return False
