/-
Lemmas/Relabelling.lean — helper lemmas for C17 (representation independence): what happens to the state list, the
ranks, the transition counts/probabilities, the coring reference, the waiting-time events and the loop-erased pathways
when every label `x` of a trajectory set is replaced by `f x`, for `f` injective (or strictly increasing) on the labels
that occur.
-/
import MsmVerif.Lemmas.StateTraj
import MsmVerif.Lemmas.Msm
import MsmVerif.Lemmas.Events
import MsmVerif.Props.C05
import MsmVerif.Props.C13

namespace MsmVerif.Relabelling
open MsmVerif MsmVerif.Msm MsmVerif.Coring MsmVerif.Events

/-- `f` is injective on the members of `L` -/
def InjOn (f : Int → Int) (L : List Int) : Prop := ∀ a ∈ L, ∀ b ∈ L, f a = f b → a = b

/-- `f` is strictly increasing on the members of `L` -/
def StrictMonoOn (f : Int → Int) (L : List Int) : Prop := ∀ a ∈ L, ∀ b ∈ L, a < b → f a < f b

theorem StrictMonoOn.injOn {f : Int → Int} {L : List Int} (h : StrictMonoOn f L) : InjOn f L := by
  intro a ha b hb e
  rcases Int.lt_trichotomy a b with hlt | heq | hgt
  · have := h a ha b hb hlt; omega
  · exact heq
  · have := h b hb a ha hgt; omega

theorem InjOn.mono {f : Int → Int} {L L' : List Int} (h : InjOn f L) (hs : ∀ x ∈ L', x ∈ L) : InjOn f L' :=
  fun a ha b hb e => h a (hs a ha) b (hs b hb) e

theorem nodup_map_of_injOn {f : Int → Int} {l : List Int} (hn : l.Nodup) (hf : InjOn f l) : (l.map f).Nodup := by
  unfold List.Nodup at *
  rw [List.pairwise_map]
  exact hn.imp_of_mem (fun {a b} ha hb hab e => hab (hf a ha b hb e))

/-- the relabelled trajectory set -/
def relabel (f : Int → Int) (ts : Trajs) : Trajs := ts.map (·.map f)

theorem relabel_flatten (f : Int → Int) (ts : Trajs) : (relabel f ts).flatten = ts.flatten.map f := by
  simp [relabel, List.map_flatten]

theorem mem_states_relabel {f : Int → Int} {ts : Trajs} {y : Int} :
    y ∈ states (relabel f ts) ↔ ∃ x ∈ states ts, f x = y := by
  rw [mem_states, relabel_flatten, List.mem_map]
  constructor
  · rintro ⟨x, hx, rfl⟩; exact ⟨x, mem_states.mpr hx, rfl⟩
  · rintro ⟨x, hx, rfl⟩; exact ⟨x, mem_states.mp hx, rfl⟩

/-- under an injective relabelling the new state list is a permutation of the relabelled old one -/
theorem states_relabel_perm {f : Int → Int} {ts : Trajs} (hf : InjOn f ts.flatten) :
    (states (relabel f ts)).Perm ((states ts).map f) := by
  rw [List.perm_ext_iff_of_nodup (states_nodup _)]
  · intro y
    rw [mem_states_relabel, List.mem_map]
  · exact nodup_map_of_injOn (states_nodup ts) (hf.mono (fun y hy => mem_states.mp hy))

theorem states_relabel_length {f : Int → Int} {ts : Trajs} (hf : InjOn f ts.flatten) :
    (states (relabel f ts)).length = (states ts).length := by
  rw [(states_relabel_perm hf).length_eq, List.length_map]

/-- under a strictly increasing relabelling the new state list is the relabelled old one, in the same order -/
theorem states_relabel_mono {f : Int → Int} {ts : Trajs} (hf : StrictMonoOn f ts.flatten) :
    states (relabel f ts) = (states ts).map f := by
  apply eq_of_pairwise_lt_of_mem_iff _ _ (states_pairwise _)
  · rw [List.pairwise_map]
    exact (states_pairwise ts).imp_of_mem (fun {a b} ha hb hab => hf a (mem_states.mp ha) b (mem_states.mp hb) hab)
  · intro y
    rw [mem_states_relabel, List.mem_map]

theorem idxOf_map_of_injOn (f : Int → Int) (l : List Int) (x : Int) (hx : x ∈ l) (hf : InjOn f l) :
    (l.map f).idxOf (f x) = l.idxOf x := by
  induction l with
  | nil => simp at hx
  | cons a l ih =>
    rw [List.map_cons, List.idxOf_cons, List.idxOf_cons]
    by_cases hax : a = x
    · subst hax; simp
    · have hne : f a ≠ f x := fun e => hax (hf a (by simp) x hx e)
      have hx' : x ∈ l := by
        rcases List.mem_cons.mp hx with rfl | hx
        · exact absurd rfl hax
        · exact hx
      have h1 : (f a == f x) = false := by simpa using hne
      have h2 : (a == x) = false := by simpa using hax
      rw [h1, h2, cond_false, cond_false, ih hx' (hf.mono (fun y hy => by simp [hy]))]

theorem rank_relabel_mono {f : Int → Int} {ts : Trajs} (hf : StrictMonoOn f ts.flatten) {x : Int}
    (hx : x ∈ ts.flatten) : rank (states (relabel f ts)) (f x) = rank (states ts) x := by
  rw [states_relabel_mono hf]
  exact idxOf_map_of_injOn f _ x (mem_states.mpr hx) (hf.injOn.mono (fun y hy => mem_states.mp hy))

theorem rankTrajs_relabel_mono {f : Int → Int} {ts : Trajs} (hf : StrictMonoOn f ts.flatten) :
    rankTrajs (relabel f ts) = rankTrajs ts := by
  unfold rankTrajs
  conv => lhs; arg 2; rw [relabel]
  rw [List.map_map]
  apply List.map_congr_left
  intro t ht
  simp only [Function.comp, List.map_map]
  apply List.map_congr_left
  intro x hx
  simp only [Function.comp]
  rw [rank_relabel_mono hf (List.mem_flatten.mpr ⟨t, ht, hx⟩)]

/-! ### transition counts and probabilities -/

theorem count_pairs_map {f : Int → Int} {L t : List Int} (hf : InjOn f L) (ht : ∀ x ∈ t, x ∈ L) (lag : Nat)
    {a b : Int} (ha : a ∈ L) (hb : b ∈ L) :
    (pairs lag (t.map f)).count (f a, f b) = (pairs lag t).count (a, b) := by
  rw [pairs_map, List.count_eq_countP, List.count_eq_countP, List.countP_map]
  apply List.countP_congr
  intro p hp
  obtain ⟨h1, h2⟩ := mem_of_mem_pairs hp
  obtain ⟨p1, p2⟩ := p
  simp only [Function.comp, Prod.map, beq_iff_eq, Prod.mk.injEq]
  constructor
  · rintro ⟨e1, e2⟩; exact ⟨hf _ (ht _ h1) _ ha e1, hf _ (ht _ h2) _ hb e2⟩
  · rintro ⟨rfl, rfl⟩; exact ⟨rfl, rfl⟩

theorem count_relabel {f : Int → Int} {ts : Trajs} (hf : InjOn f ts.flatten) (lag : Nat) {a b : Int}
    (ha : a ∈ ts.flatten) (hb : b ∈ ts.flatten) :
    count (relabel f ts) lag (f a) (f b) = count ts lag a b := by
  unfold count relabel
  rw [List.map_map]
  congr 1
  apply List.map_congr_left
  intro t ht
  exact count_pairs_map hf (fun x hx => List.mem_flatten.mpr ⟨t, ht, hx⟩) lag ha hb

theorem rowTotal_relabel {f : Int → Int} {ts : Trajs} (hf : InjOn f ts.flatten) (lag : Nat) {a : Int}
    (ha : a ∈ ts.flatten) : rowTotal (relabel f ts) lag (f a) = rowTotal ts lag a := by
  unfold rowTotal
  rw [((states_relabel_perm hf).map _).sum_nat, List.map_map]
  congr 1
  apply List.map_congr_left
  intro b hb
  exact count_relabel hf lag ha (mem_states.mp hb)

theorem T_relabel {f : Int → Int} {ts : Trajs} (hf : InjOn f ts.flatten) (lag : Nat) {a b : Int}
    (ha : a ∈ ts.flatten) (hb : b ∈ ts.flatten) :
    T (relabel f ts) lag (f a) (f b) = T ts lag a b := by
  unfold T
  rw [rowTotal_relabel hf lag ha, count_relabel hf lag ha hb]

theorem specCounts_relabel_mono {f : Int → Int} {ts : Trajs} (hf : StrictMonoOn f ts.flatten) (lag : Nat) :
    specCounts (relabel f ts) lag = specCounts ts lag := by
  unfold specCounts
  rw [states_relabel_mono hf, List.map_map]
  apply List.map_congr_left
  intro a ha
  simp only [Function.comp, List.map_map]
  apply List.map_congr_left
  intro b hb
  exact count_relabel hf.injOn lag (mem_states.mp ha) (mem_states.mp hb)

theorem specT_relabel_mono {f : Int → Int} {ts : Trajs} (hf : StrictMonoOn f ts.flatten) (lag : Nat) :
    specT (relabel f ts) lag = specT ts lag := by
  unfold specT
  rw [states_relabel_mono hf, List.map_map]
  apply List.map_congr_left
  intro a ha
  simp only [Function.comp, List.map_map]
  apply List.map_congr_left
  intro b hb
  exact T_relabel hf.injOn lag (mem_states.mp ha) (mem_states.mp hb)

/-! ### dynamical coring -/

theorem refSet_relabel {f : Int → Int} {ts : Trajs} (hf : ∀ t ∈ ts, InjOn f t) (τ : Int) (iter : Bool) :
    refSet (relabel f ts) τ iter = (refSet ts τ iter).map (relabel f) := by
  unfold refSet
  by_cases h0 : τ ≤ 0
  · simp only [if_pos h0]; rfl
  simp only [if_neg h0]
  by_cases h1 : τ = 1
  · simp only [if_pos h1]; rfl
  simp only [if_neg h1]
  have : (relabel f ts).mapM (refOne τ.toNat iter) = (ts.mapM (refOne τ.toNat iter)).map (relabel f) := by
    unfold relabel
    rw [List.mapM_map, ← mapM_map_opt]
    exact mapM_congr_opt _ _ ts (fun t ht => C05.equivariant_refOne f τ.toNat iter t (hf t ht))
  rw [this]
  cases ts.mapM (refOne τ.toNat iter) <;> rfl

/-! ### events, waiting times, pathways -/

theorem contains_map_of_injOn {f : Int → Int} {L : List Int} (hf : InjOn f L) {S : List Int}
    (hS : ∀ s ∈ S, s ∈ L) {x : Int} (hx : x ∈ L) : (S.map f).contains (f x) = S.contains x := by
  rw [Bool.eq_iff_iff]
  simp only [List.contains_iff_mem, List.mem_map]
  constructor
  · rintro ⟨s, hs, e⟩
    have := hf s (hS s hs) x hx e
    exact this ▸ hs
  · intro h; exact ⟨x, h, rfl⟩

theorem autoStep_map {f : Int → Int} {L : List Int} (hf : InjOn f L) {S F : List Int}
    (hS : ∀ s ∈ S, s ∈ L) (hF : ∀ s ∈ F, s ∈ L) (a : Auto) (idx : Nat) {x : Int} (hx : x ∈ L) :
    autoStep (S.map f) (F.map f) a idx (f x) = autoStep S F a idx x := by
  unfold autoStep
  rw [contains_map_of_injOn hf hS hx, contains_map_of_injOn hf hF hx]

theorem eventsFrom_map {f : Int → Int} {L : List Int} (hf : InjOn f L) {S F : List Int}
    (hS : ∀ s ∈ S, s ∈ L) (hF : ∀ s ∈ F, s ∈ L) (a : Auto) (idx : Nat) (t : List Int) (ht : ∀ x ∈ t, x ∈ L) :
    eventsFrom (S.map f) (F.map f) a idx (t.map f) = eventsFrom S F a idx t := by
  induction t generalizing a idx with
  | nil => rfl
  | cons x rest ih =>
    have hx : x ∈ L := ht x (by simp)
    have hrest : ∀ y ∈ rest, y ∈ L := fun y hy => ht y (by simp [hy])
    simp only [List.map_cons, eventsFrom, autoStep_map hf hS hF a idx hx]
    split <;> simp only [ih _ _ hrest]

theorem events_map {f : Int → Int} {L : List Int} (hf : InjOn f L) {S F : List Int}
    (hS : ∀ s ∈ S, s ∈ L) (hF : ∀ s ∈ F, s ∈ L) (t : List Int) (ht : ∀ x ∈ t, x ∈ L) :
    events (S.map f) (F.map f) (t.map f) = events S F t :=
  eventsFrom_map hf hS hF _ _ t ht

theorem waitingTimes_relabel {f : Int → Int} {L : List Int} (hf : InjOn f L) {S F : List Int}
    (hS : ∀ s ∈ S, s ∈ L) (hF : ∀ s ∈ F, s ∈ L) (ts : Trajs) (hts : ∀ x ∈ ts.flatten, x ∈ L) :
    waitingTimes (S.map f) (F.map f) (relabel f ts) = waitingTimes S F ts := by
  unfold waitingTimes relabel
  rw [List.map_map]
  congr 1
  apply List.map_congr_left
  intro t ht
  simp only [Function.comp]
  rw [events_map hf hS hF t (fun x hx => hts x (List.mem_flatten.mpr ⟨t, ht, hx⟩))]

theorem pathStep_map {f : Int → Int} {L : List Int} (hf : InjOn f L) {S : List Int}
    (hS : ∀ s ∈ S, s ∈ L) {path : List Int} (hp : ∀ y ∈ path, y ∈ L) {x : Int} (hx : x ∈ L) :
    pathStep (S.map f) (path.map f) (f x) = (pathStep S path x).map f := by
  unfold pathStep
  rw [contains_map_of_injOn hf hS hx, contains_map_of_injOn hf hp hx]
  split
  · rfl
  · split
    · rename_i h
      have hmem : x ∈ path := by simpa using h
      rw [idxOf_map_of_injOn f path x hmem (hf.mono hp), List.map_append, List.map_take]
      rfl
    · rw [List.map_append]; rfl

theorem pathStep_subset {S path : List Int} {x : Int} {L : List Int} (hp : ∀ y ∈ path, y ∈ L) (hx : x ∈ L) :
    ∀ y ∈ pathStep S path x, y ∈ L := by
  unfold pathStep
  intro y hy
  split at hy
  · simp only [List.mem_singleton] at hy; exact hy ▸ hx
  · split at hy
    · simp only [List.mem_append, List.mem_singleton] at hy
      rcases hy with hy | rfl
      · exact hp y (List.mem_of_mem_take hy)
      · exact hx
    · simp only [List.mem_append, List.mem_singleton] at hy
      rcases hy with hy | rfl
      · exact hp y hy
      · exact hx

theorem foldl_pathStep_map {f : Int → Int} {L : List Int} (hf : InjOn f L) {S : List Int}
    (hS : ∀ s ∈ S, s ∈ L) (seg : List Int) (hseg : ∀ x ∈ seg, x ∈ L) (path : List Int) (hp : ∀ y ∈ path, y ∈ L) :
    (seg.map f).foldl (pathStep (S.map f)) (path.map f) = (seg.foldl (pathStep S) path).map f := by
  induction seg generalizing path with
  | nil => rfl
  | cons x rest ih =>
    have hx : x ∈ L := hseg x (by simp)
    simp only [List.map_cons, List.foldl_cons, pathStep_map hf hS hp hx]
    exact ih (fun y hy => hseg y (by simp [hy])) _ (pathStep_subset hp hx)

theorem loopErase_map {f : Int → Int} {L : List Int} (hf : InjOn f L) {S : List Int}
    (hS : ∀ s ∈ S, s ∈ L) (seg : List Int) (hseg : ∀ x ∈ seg, x ∈ L) :
    loopErase (S.map f) (seg.map f) = (loopErase S seg).map f :=
  foldl_pathStep_map hf hS seg hseg [] (by simp)

theorem pathsSingle_map {f : Int → Int} {L : List Int} (hf : InjOn f L) {S F : List Int}
    (hS : ∀ s ∈ S, s ∈ L) (hF : ∀ s ∈ F, s ∈ L) (t : List Int) (ht : ∀ x ∈ t, x ∈ L) :
    pathsSingle (S.map f) (F.map f) (t.map f) = (pathsSingle S F t).map (fun p => (p.1.map f, p.2)) := by
  unfold pathsSingle
  rw [events_map hf hS hF t ht, List.map_map]
  apply List.map_congr_left
  intro e _
  simp only [Function.comp]
  rw [← List.map_drop, ← List.map_take,
    loopErase_map hf hS _ (fun x hx => ht x (List.mem_of_mem_drop (List.mem_of_mem_take hx)))]

theorem pathsAll_relabel {f : Int → Int} {L : List Int} (hf : InjOn f L) {S F : List Int}
    (hS : ∀ s ∈ S, s ∈ L) (hF : ∀ s ∈ F, s ∈ L) (ts : Trajs) (hts : ∀ x ∈ ts.flatten, x ∈ L) :
    pathsAll (S.map f) (F.map f) (relabel f ts) = (pathsAll S F ts).map (fun p => (p.1.map f, p.2)) := by
  unfold pathsAll relabel
  rw [List.map_map, List.map_flatten, List.map_map]
  congr 1
  apply List.map_congr_left
  intro t ht
  simp only [Function.comp]
  exact pathsSingle_map hf hS hF t (fun x hx => hts x (List.mem_flatten.mpr ⟨t, ht, hx⟩))

/-! ### the public entry points (models of the code) under the label guard -/

theorem estimate_relabel_mono {f : Int → Int} {ts : Trajs} (hf : StrictMonoOn f ts.flatten)
    (hg : LabelGuard ts) (hg' : LabelGuard (relabel f ts)) (lag : Nat) :
    estimate (relabel f ts) lag = (estimate ts lag).map (fun r => (r.1, r.2.1, r.2.2.map f)) := by
  rw [estimate_eq_spec_of_window hg'.window, estimate_eq_spec_of_window hg.window, specCounts_relabel_mono hf,
    specT_relabel_mono hf, states_relabel_mono hf]
  rfl

theorem dynamicalCoring_relabel {f : Int → Int} {ts : Trajs} (hf : ∀ t ∈ ts, InjOn f t)
    (hg : LabelGuard ts) (hg' : LabelGuard (relabel f ts)) (τ : Int) (iter : Bool) :
    dynamicalCoring (relabel f ts) τ iter = (dynamicalCoring ts τ iter).map (relabel f) := by
  rw [C05.model_meets_spec _ _ _ hg', C05.model_meets_spec _ _ _ hg, refSet_relabel hf]

/-- events depend on the start and final sets only through membership -/
theorem eventsFrom_congr {S S' F F' : List Int} (hS : ∀ x, x ∈ S ↔ x ∈ S') (hF : ∀ x, x ∈ F ↔ x ∈ F')
    (a : Auto) (idx : Nat) (t : List Int) : eventsFrom S F a idx t = eventsFrom S' F' a idx t := by
  have cS : ∀ x, S.contains x = S'.contains x := fun x => by
    rw [Bool.eq_iff_iff]; simp only [List.contains_iff_mem]; exact hS x
  have cF : ∀ x, F.contains x = F'.contains x := fun x => by
    rw [Bool.eq_iff_iff]; simp only [List.contains_iff_mem]; exact hF x
  induction t generalizing a idx with
  | nil => rfl
  | cons x rest ih =>
    have : autoStep S F a idx x = autoStep S' F' a idx x := by
      unfold autoStep; rw [cS, cF]
    simp only [eventsFrom, this]
    split <;> simp only [ih]

theorem pathStep_congr {S S' : List Int} (hS : ∀ x, x ∈ S ↔ x ∈ S') : pathStep S = pathStep S' := by
  funext path x
  have : S.contains x = S'.contains x := by
    rw [Bool.eq_iff_iff]; simp only [List.contains_iff_mem]; exact hS x
  unfold pathStep
  rw [this]

theorem waitingTimes_congr {S S' F F' : List Int} (hS : ∀ x, x ∈ S ↔ x ∈ S') (hF : ∀ x, x ∈ F ↔ x ∈ F')
    (ts : Trajs) : waitingTimes S F ts = waitingTimes S' F' ts := by
  unfold waitingTimes events
  simp only [eventsFrom_congr hS hF]

theorem pathsAll_congr {S S' F F' : List Int} (hS : ∀ x, x ∈ S ↔ x ∈ S') (hF : ∀ x, x ∈ F ↔ x ∈ F')
    (ts : Trajs) : pathsAll S F ts = pathsAll S' F' ts := by
  unfold pathsAll pathsSingle loopErase events
  simp only [eventsFrom_congr hS hF, pathStep_congr hS]

theorem mem_sortDedup_map {f : Int → Int} {l : List Int} {y : Int} :
    y ∈ sortDedup (l.map f) ↔ y ∈ (sortDedup l).map f := by
  simp only [mem_sortDedup, List.mem_map]

theorem badSets_relabel {f : Int → Int} {ts : Trajs} {start final : List Int}
    (hf : InjOn f (ts.flatten ++ start ++ final)) :
    badSets (sortDedup (start.map f)) (sortDedup (final.map f)) (states (relabel f ts))
      = badSets (sortDedup start) (sortDedup final) (states ts) := by
  rw [Bool.eq_iff_iff, badSets_eq_true_iff, badSets_eq_true_iff]
  simp only [mem_sortDedup, mem_states, relabel_flatten, List.mem_map]
  have inj : ∀ a b, a ∈ ts.flatten ++ start ++ final → b ∈ ts.flatten ++ start ++ final → f a = f b → a = b :=
    fun a b ha hb => hf a ha b hb
  constructor
  · rintro (⟨_, ⟨x, hx, rfl⟩, ⟨y, hy, e⟩⟩ | ⟨_, ⟨x, hx, rfl⟩, hn⟩ | ⟨_, ⟨x, hx, rfl⟩, hn⟩)
    · left
      have := inj y x (by simp [hy]) (by simp [hx]) e
      exact ⟨x, hx, this ▸ hy⟩
    · right; left
      exact ⟨x, hx, fun h => hn ⟨x, h, rfl⟩⟩
    · right; right
      exact ⟨x, hx, fun h => hn ⟨x, h, rfl⟩⟩
  · rintro (⟨x, hx, hx'⟩ | ⟨x, hx, hn⟩ | ⟨x, hx, hn⟩)
    · left; exact ⟨f x, ⟨x, hx, rfl⟩, ⟨x, hx', rfl⟩⟩
    · right; left
      refine ⟨f x, ⟨x, hx, rfl⟩, ?_⟩
      rintro ⟨y, hy, e⟩
      exact hn (inj y x (by simp [hy]) (by simp [hx]) e ▸ hy)
    · right; right
      refine ⟨f x, ⟨x, hx, rfl⟩, ?_⟩
      rintro ⟨y, hy, e⟩
      exact hn (inj y x (by simp [hy]) (by simp [hx]) e ▸ hy)

theorem mdWaitingTimes_relabel {f : Int → Int} {ts : Trajs} {start final : List Int}
    (hf : InjOn f (ts.flatten ++ start ++ final))
    (hg : LabelGuard ts) (hg' : LabelGuard (relabel f ts)) :
    mdWaitingTimes (relabel f ts) (start.map f) (final.map f) = mdWaitingTimes ts start final := by
  rw [mdWaitingTimes_eq _ _ _ _ (mk'_eq_rank hg'), mdWaitingTimes_eq _ _ _ _ (mk'_eq_rank hg), badSets_relabel hf,
    waitingTimes_congr (S' := (sortDedup start).map f) (F' := (sortDedup final).map f)
      (fun _ => mem_sortDedup_map) (fun _ => mem_sortDedup_map),
    waitingTimes_relabel hf (fun s hs => by simp [mem_sortDedup.mp hs]) (fun s hs => by simp [mem_sortDedup.mp hs])
      ts (fun x hx => by simp [hx])]

theorem mdPaths_relabel {f : Int → Int} {ts : Trajs} {start final : List Int}
    (hf : InjOn f (ts.flatten ++ start ++ final))
    (hg : LabelGuard ts) (hg' : LabelGuard (relabel f ts)) :
    mdPaths (relabel f ts) (start.map f) (final.map f)
      = (mdPaths ts start final).map (List.map (fun p => (p.1.map f, p.2))) := by
  rw [mdPaths_eq _ _ _ _ (mk'_eq_rank hg'), mdPaths_eq _ _ _ _ (mk'_eq_rank hg), badSets_relabel hf,
    pathsAll_congr (S' := (sortDedup start).map f) (F' := (sortDedup final).map f)
      (fun _ => mem_sortDedup_map) (fun _ => mem_sortDedup_map),
    pathsAll_relabel hf (fun s hs => by simp [mem_sortDedup.mp hs]) (fun s hs => by simp [mem_sortDedup.mp hs])
      ts (fun x hx => by simp [hx])]
  split <;> rfl

/-! ### similarity of two discretisations -/

theorem compare_relabel {f g : Int → Int} {t1 t2 : Trajs} (hf : InjOn f t1.flatten) (hg : InjOn g t2.flatten)
    (hg1 : LabelGuard t1) (hg2 : LabelGuard t2) (hg1' : LabelGuard (relabel f t1)) (hg2' : LabelGuard (relabel g t2))
    (m : Nat) : Compare.compare (relabel f t1) (relabel g t2) m = Compare.compare t1 t2 m := by
  by_cases hbad : m > 1 ∨ t1.flatten.length ≠ t2.flatten.length ∨ (states t1).length = 1 ∨ (states t2).length = 1
  · rw [(C13.reject t1 t2 m _ _ (mk'_eq_rank hg1) (mk'_eq_rank hg2)).mpr hbad]
    apply (C13.reject _ _ m _ _ (mk'_eq_rank hg1') (mk'_eq_rank hg2')).mpr
    rw [states_relabel_length hf, states_relabel_length hg, relabel_flatten, relabel_flatten,
      List.length_map, List.length_map]
    exact hbad
  · simp only [not_or, Nat.not_lt, ne_eq, Decidable.not_not] at hbad
    obtain ⟨hm, hlen, hs1, hs2⟩ := hbad
    rw [C13.compare_eq_spec t1 t2 m hg1 hg2 hm hlen hs1 hs2,
      C13.compare_eq_spec _ _ m hg1' hg2' hm
        (by rw [relabel_flatten, relabel_flatten, List.length_map, List.length_map]; exact hlen)
        (by rw [states_relabel_length hf]; exact hs1) (by rw [states_relabel_length hg]; exact hs2)]
    rw [relabel_flatten, relabel_flatten, ← C13.frames_eq_spec_symmetric, ← C13.frames_eq_spec_directed,
      ← C13.frames_eq_spec_symmetric, ← C13.frames_eq_spec_directed,
      C13.rename_directed _ _ hlen f g hf hg, C13.rename_symmetric _ _ hlen f g hf hg]

end MsmVerif.Relabelling
