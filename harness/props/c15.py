"""C15 — relabelling utilities apply exactly the requested label map."""
import numpy as np

import core
import gen

PID = 'C15'
ANCHORS = [('src/msmhelper/utils/_utils.py', ['shift_data', 'rename_by_population', 'rename_by_index', 'unique',
                                              '_flatten_data', '_unflatten_data'])]
RULE = ('random integer data as list, 1-d array, 2-d array (C- and F-ordered, transposed views), list of arrays, list of lists; labels in '
        '+-10^6; maps with old values inside [min,max] of the data: swaps, cycles, partial maps, non-injective targets, duplicated old values; '
        'rename_by_index / rename_by_population (with population ties) / unique on the same data. Non-trivial = map changes >=1 element and '
        'contains a swap, cycle or non-injective target (shift) / >=2 states (rename); distinct by (data, map, function).')
RELATION = 'shift_data / rename_by_* / unique on real containers = Relabel.shiftData / renameBy* / uniqueCounts on (flattened values, shape)'
STRUCTS = ['list', 'array1d', 'array1d_narrow', 'array2d', 'array2d_F', 'array2d_T', 'list_of_arrays', 'list_of_arrays_narrow', 'list_of_lists',
           'tuple_of_arrays']


def _mk(fn, vals, struct, shape, old=None, new=None, src='rand', kindmap=''):
    return {'op': fn, 'vals': vals, 'struct': struct, 'shape': shape, 'old': old, 'new': new, 'src': src, 'kindmap': kindmap}


def _shape(rng, n, struct):
    if struct in ('list', 'array1d', 'array1d_narrow'):
        return {'kind': 'flat'}
    if struct.startswith('array2d'):
        divs = [d for d in range(1, n + 1) if n % d == 0]
        r = rng.choice(divs)
        return {'kind': 'mat', 'rows': r, 'cols': n // r}
    k = rng.randint(1, min(4, n))
    cuts = sorted(rng.sample(range(1, n), k - 1)) if n > 1 else []
    b = [0] + cuts + [n]
    return {'kind': 'ragged', 'lens': [y - x for x, y in zip(b, b[1:])]}


def cases(tier, rng, boost=1):
    yield _mk('shift', [1, 2, 3, 1, 2, 3], 'array2d_T', {'kind': 'mat', 'rows': 2, 'cols': 3}, [1, 2], [2, 1], src='corpus', kindmap='swap')
    yield _mk('rename_pop', [1, 1, 2, 2, 3], 'list', {'kind': 'flat'}, src='corpus')
    yield _mk('rename_index', [-128, -1, 0, 127, -1], 'array1d_narrow', {'kind': 'flat'}, src='corpus')
    yield _mk('shift', [-100, 100, -100, -1], 'array1d_narrow', {'kind': 'flat'}, [-100, 100], [100, -100], src='corpus', kindmap='swap')
    yield _mk('shift', [5, 7, 3000000, 7, 5], 'array1d', {'kind': 'flat'}, [5, 7], [7, 5], src='corpus', kindmap='swap')
    nrand = {'quick': 3000, 'thorough': 40000, 'search': 10000}[tier] * boost
    for _ in range(nrand):
        nlab = rng.randint(1, 8)
        scale = rng.choice([1] * 12 + [10, 10, 1000, 1000, 30000, 100000])
        labs = rng.sample(range(-10 * scale, 10 * scale + 1), nlab) if rng.random() < 0.7 else list(range(rng.choice([0, 1]), nlab + 1))[:nlab]
        n = rng.randint(1, 24)
        vals = [rng.choice(labs) for _ in range(n)]
        if rng.random() < 0.3:      # population ties
            vals = (vals * 2)[:n] if n > 1 else vals
        struct = rng.choice(STRUCTS)
        if struct.endswith('_narrow') and rng.random() < 0.5 and n >= 2:
            lo, hi = rng.choice([(-128, 127), (-32768, 32767)])
            vals = [rng.choice([lo, hi, rng.randint(lo, hi)]) for _ in range(n)]
        shape = _shape(rng, n, struct)
        fn = rng.choice(['shift', 'shift', 'shift', 'rename_index', 'rename_pop', 'unique'])
        if fn != 'shift':
            yield _mk(fn, vals, struct, shape)
            continue
        occ = sorted(set(vals))
        lo, hi = min(vals), max(vals)
        kindmap = rng.choice(['swap', 'cycle', 'partial', 'noninj', 'dup_old', 'inrange_absent', 'outside'])
        if kindmap == 'swap' and len(occ) >= 2:
            a, b = rng.sample(occ, 2)
            old, new = [a, b], [b, a]
        elif kindmap == 'cycle' and len(occ) >= 3:
            c = rng.sample(occ, 3)
            old, new = c, c[1:] + c[:1]
        elif kindmap == 'noninj' and len(occ) >= 2:
            old = rng.sample(occ, 2)
            t = rng.randint(lo - 5, hi + 5)
            new = [t, t]
        elif kindmap == 'dup_old':
            a = rng.choice(occ)
            old, new = [a, a], [rng.randint(lo - 3, hi + 3), rng.randint(lo - 3, hi + 3)]
        elif kindmap == 'inrange_absent' and hi - lo >= 2:
            a = rng.randint(lo, hi)
            old, new = [a], [rng.randint(lo - 50, hi + 50)]
        elif kindmap == 'outside':
            old, new = [hi + rng.randint(1, 3)], [lo]          # outside the documented guard: nothing demanded
        else:
            kindmap = 'partial'
            k = rng.randint(1, len(occ))
            old = rng.sample(occ, k)
            new = [rng.randint(lo - 20 * scale, hi + 20 * scale) for _ in old]
        yield _mk('shift', vals, struct, shape, old, new, kindmap=kindmap)


def build(vals, struct, shape):
    if struct == 'list':
        return list(vals)
    if struct == 'array1d':
        return np.array(vals, dtype=np.int64)
    if struct == 'array1d_narrow':
        return np.array(vals, dtype=gen.min_dtype([vals]))
    if struct.startswith('array2d'):
        a = np.array(vals, dtype=np.int64).reshape(shape['rows'], shape['cols'])
        if struct == 'array2d_F':
            return np.asfortranarray(a)
        if struct == 'array2d_T':
            return np.ascontiguousarray(a.T).T      # same values, non-C-contiguous view
        return a
    pieces, pos = [], 0
    for L in shape['lens']:
        pieces.append(vals[pos:pos + L])
        pos += L
    if struct == 'list_of_lists':
        return [list(p) for p in pieces]
    arrs = [np.array(p, dtype=gen.min_dtype([vals]) if struct.endswith('_narrow') else np.int64) for p in pieces]
    return tuple(arrs) if struct == 'tuple_of_arrays' else arrs


def canon_data(res, shape):
    """observed container → (flattened values in C order, observed shape)"""
    if isinstance(res, np.ndarray):
        if not np.issubdtype(res.dtype, np.integer):
            raise AssertionError('non-integer result dtype %s' % res.dtype)
        if res.ndim == 1:
            return {'vals': [int(x) for x in res], 'shape': {'kind': 'flat'}}
        if res.ndim == 2:
            return {'vals': [int(x) for x in res.reshape(-1)], 'shape': {'kind': 'mat', 'rows': res.shape[0], 'cols': res.shape[1]}}
        raise AssertionError('unexpected ndim')
    if isinstance(res, (list, tuple)):
        for p in res:
            if not np.issubdtype(np.asarray(p).dtype, np.integer) and len(p):
                raise AssertionError('non-integer piece')
        return {'vals': [int(x) for p in res for x in p], 'shape': {'kind': 'ragged', 'lens': [len(p) for p in res]}}
    raise AssertionError('unexpected result type %s' % type(res))


def real(case):
    import msmhelper as mh
    data = build(case['vals'], case['struct'], case['shape'])

    def run():
        if case['op'] == 'shift':
            return canon_data(mh.shift_data(data, case['old'], case['new']), case['shape'])
        if case['op'] == 'rename_index':
            r, perm = mh.rename_by_index(data, return_permutation=True)
            r2 = mh.rename_by_index(data)
            d = canon_data(r, case['shape'])
            if canon_data(r2, case['shape']) != d:
                raise AssertionError('return_permutation changes the renamed data')
            return {'data': d, 'perm': [int(x) for x in perm]}
        if case['op'] == 'rename_pop':
            r, perm = mh.rename_by_population(data, return_permutation=True)
            return {'data': canon_data(r, case['shape']), 'perm': [int(x) for x in perm]}
        st, cnt = mh.unique(data, return_counts=True)
        st2 = mh.unique(data)
        if [int(x) for x in st2] != [int(x) for x in st]:
            raise AssertionError('unique with/without counts differ')
        return {'states': [int(x) for x in st], 'counts': [int(x) for x in cnt]}
    out = core.call(run)
    out.pop('msg', None)
    return out


def request(case, obs):
    d = {'vals': case['vals'], 'shape': case['shape']}
    if case['op'] == 'shift':
        return {'op': 'shift', 'data': d, 'old': case['old'], 'new': case['new'], 'obs': obs}
    if case['op'] in ('rename_index', 'rename_pop'):
        return {'op': 'rename', 'kind': 'index' if case['op'] == 'rename_index' else 'population', 'data': d, 'obs': obs}
    return {'op': 'unique', 'data': d}


def agree(case, obs, reply):
    if case['op'] == 'shift' and not reply.get('guard', True):
        return True            # outside the documented guard the property demands nothing; the model is not compared
    m = reply['model']
    if 'err' in m or 'err' in obs:
        return m.get('err') == obs.get('err')
    return m['ok'] == obs['ok']


def holds(case, obs, reply):
    if case['op'] == 'unique':
        return agree(case, obs, reply)
    return bool(reply['holds'])


def nontrivial(case, obs, reply):
    if 'ok' not in obs:
        return False
    if case['op'] == 'shift':
        return reply.get('guard', False) and obs['ok']['vals'] != case['vals'] and case['kindmap'] in ('swap', 'cycle', 'noninj', 'dup_old')
    return len(set(case['vals'])) >= 2


def key(case):
    return [case['op'], case['vals'], case['struct'], case['shape'], case['old'], case['new']]


def classify(case, obs, reply):
    return '%s/%s/%s/%s' % (case['op'], case['struct'], case.get('kindmap', ''), obs.get('err', 'ok'))


def known_match(k, case, obs, reply):
    return False


def shrink(case):
    if case['struct'] in ('list', 'array1d') and len(case['vals']) > 1:
        v = case['vals']
        for j in range(len(v)):
            yield dict(case, vals=v[:j] + v[j + 1:])
