/-
Refine/EigenLemmas.lean — task RP23: definitions (complex arithmetic on `Rat × Rat`, eigenpairs, the oracle contracts) and helper lemmas for
`Refine/Eigen.lean` (the translated eigen-solver wrappers of `src/msmhelper/msm/utils/linalg.py`).
-/
import MsmVerif.Gen.MsmLinalg

namespace MsmVerif.Refine.Eigen
open MsmVerif MsmVerif.Gen

/-! ### complex arithmetic on pairs of rationals -/

/-- a (NaN-free) complex number `re + i·im` with exact rational parts -/
abbrev C := Rat × Rat

def cadd (a b : C) : C := (a.1 + b.1, a.2 + b.2)
def cmul (a b : C) : C := (a.1 * b.1 - a.2 * b.2, a.1 * b.2 + a.2 * b.1)
def cofRat (r : Rat) : C := (r, 0)
def csum (l : List C) : C := l.foldr cadd (0, 0)

theorem cmul_comm (a b : C) : cmul a b = cmul b a := by
  simp [cmul, Rat.mul_comm, Rat.add_comm]

/-- `Σ_j row[j] · v[j]` : one entry of the matrix–vector product `M v` -/
def rowDot (row : List Rat) (v : List C) : C := csum (List.zipWith (fun a z => cmul (cofRat a) z) row v)

/-- `Σ_i v[i] · M[i][j]` : entry `j` of the vector–matrix product `v M` -/
def colDot (M : List (List Rat)) (j : Nat) (v : List C) : C :=
  csum (List.zipWith (fun row z => cmul z (cofRat (row.getD j 0))) M v)

/-- `(λ, v)` is a right eigenpair of the real matrix `M`: `v` has one entry per row, is not the zero vector, and
    `Σ_j M[i][j]·v[j] = λ·v[i]` for every row `i` -/
def IsRightEigenpair (M : List (List Rat)) (lam : C) (v : List C) : Prop :=
  v.length = M.length ∧ (∃ z ∈ v, z ≠ (0, 0)) ∧ ∀ i, i < M.length → rowDot (M.getD i []) v = cmul lam (v.getD i (0, 0))

/-- `(λ, v)` is a left eigenpair of `M`: `v M = λ v`, i.e. `Σ_i v[i]·M[i][j] = λ·v[j]` for every column `j` (`M` square) -/
def IsLeftEigenpair (M : List (List Rat)) (lam : C) (v : List C) : Prop :=
  v.length = M.length ∧ (∃ z ∈ v, z ≠ (0, 0)) ∧ ∀ j, j < M.length → colDot M j v = cmul lam (v.getD j (0, 0))

instance (M lam v) : Decidable (IsRightEigenpair M lam v) := by unfold IsRightEigenpair; infer_instance
instance (M lam v) : Decidable (IsLeftEigenpair M lam v) := by unfold IsLeftEigenpair; infer_instance

/-- the value of a NaN-free `Cx` (`0` for NaN; only used under an `isSome` hypothesis) -/
def cxVal (z : Cx) : C := z.getD (0, 0)

/-- the same for values of the runtime type `Cx` (complex double or NaN): no NaN anywhere, and the values form a right eigenpair -/
def CxRightEigenpair (M : List (List Rat)) (lam : Cx) (v : List Cx) : Prop :=
  lam.isSome = true ∧ (∀ z ∈ v, z.isSome = true) ∧ IsRightEigenpair M (cxVal lam) (v.map cxVal)

def CxLeftEigenpair (M : List (List Rat)) (lam : Cx) (v : List Cx) : Prop :=
  lam.isSome = true ∧ (∀ z ∈ v, z.isSome = true) ∧ IsLeftEigenpair M (cxVal lam) (v.map cxVal)

instance (M lam v) : Decidable (CxRightEigenpair M lam v) := by unfold CxRightEigenpair; infer_instance
instance (M lam v) : Decidable (CxLeftEigenpair M lam v) := by unfold CxLeftEigenpair; infer_instance

/-! ### the contracts of the two oracles -/

/-- an `n × n` table -/
def SquareN {α : Type} (M : List (List α)) (n : Nat) : Prop := M.length = n ∧ ∀ r ∈ M, r.length = n

instance {α : Type} (M : List (List α)) (n : Nat) : Decidable (SquareN M n) := by unfold SquareN; infer_instance

/-- what `np.linalg.eig(M)` promises about its output `(w, V)` for an `n × n` matrix `M`: `n` eigenvalues, an `n × n` table `V`, and COLUMN `j` of
    `V` together with `w[j]` is a right eigenpair of `M` (in particular no entry is NaN) -/
def EigOk (M : List (List Rat)) (w : List Cx) (V : List (List Cx)) : Prop :=
  w.length = M.length ∧ SquareN V M.length ∧ ∀ j, j < M.length → CxRightEigenpair M (w.getD j none) (npCol none V j)

instance (M w V) : Decidable (EigOk M w V) := by unfold EigOk; infer_instance

/-- the eigen-solver oracle meets its contract on the matrix `M` -/
def EigContractAt (eig : List (List Rat) → Py (List Cx × List (List Cx))) (M : List (List Rat)) : Prop :=
  ∃ w V, eig M = .ok (w, V) ∧ EigOk M w V

/-- the eigen-solver oracle meets its contract on every non-empty square matrix.  NOTE (remark, not machine-checked): over exact rationals no oracle can satisfy this for
    ALL matrices (`[[0,1],[2,0]]` has the eigenvalues `±√2`); the theorems therefore only assume `EigContractAt eig M` for the matrix at hand. -/
def EigContract (eig : List (List Rat) → Py (List Cx × List (List Cx))) : Prop :=
  ∀ M n, SquareN M n → 0 < n → EigContractAt eig M

/-- what `l.argsort()` promises about its output `p`: the indices are a permutation of `0 … len(l)-1` and `l` read in the order `p` is
    ascending in numpy's lexicographic order of complex numbers -/
def ArgsortOk (l : List Cx) (p : List Int) : Prop :=
  (∀ i ∈ p, 0 ≤ i) ∧ (p.map Int.toNat).Perm (List.range l.length) ∧
    (p.map (fun i => l.getD i.toNat none)).Pairwise (fun a b => cxLe a b = true)

instance (l p) : Decidable (ArgsortOk l p) := by unfold ArgsortOk; infer_instance

def ArgsortContractAt (argsort : List Cx → Py (List Int)) (l : List Cx) : Prop :=
  ∃ p, argsort l = .ok p ∧ ArgsortOk l p

/-- the argsort oracle meets its contract on every NaN-free array -/
def ArgsortContract (argsort : List Cx → Py (List Int)) : Prop :=
  ∀ l, (∀ z ∈ l, z.isSome = true) → ArgsortContractAt argsort l

/-! ### the specification of the result -/

/-- the eigenvalues in DESCENDING order: `w[p[::-1]]` -/
def sortedVals (w : List Cx) (p : List Int) : List Cx := p.reverse.map (fun i => w.getD i.toNat none)

/-- the eigenvectors (COLUMNS of `V`, as rows) in the same order: `V.T[p[::-1]]` -/
def sortedVecs (V : List (List Cx)) (p : List Int) : List (List Cx) := p.reverse.map (fun i => npCol none V i.toNat)

/-- the result of `_eigenvectors(M, k)` -/
def eigResult (w : List Cx) (V : List (List Cx)) (p : List Int) (k : Nat) : List Cx × List (List Cx) :=
  (npRealIfClose1 ((sortedVals w p).take k), npRealIfClose2 ((sortedVecs V p).take k))

/-! ### runtime lemmas -/

theorem is_quadratic_eq (M : List (List Rat)) :
    Gen.UtilsTests.is_quadratic M = .ok (decide (npShape0 M = npShape1 M ∧ npShape0 M ≠ 1)) := by
  unfold Gen.UtilsTests.is_quadratic
  by_cases h1 : npShape0 M = npShape1 M
  · by_cases h2 : npShape1 M = 1 <;> simp [h1, h2, pure, Except.pure]
  · simp [h1, pure, Except.pure]

theorem pyGet_ok {α : Type} (l : List α) (i : Int) (d : α) (h0 : 0 ≤ i) (h1 : i.toNat < l.length) :
    pyGet l i = .ok (l.getD i.toNat d) := by
  have h2 : i < (l.length : Int) := by omega
  simp [pyGet, normIdx, h0, h2, List.getD]

theorem npTake_ok {α : Type} (v : List α) (d : α) (idx : List Int)
    (h : ∀ i ∈ idx, 0 ≤ i ∧ i.toNat < v.length) :
    npTake v idx = .ok (idx.map (fun i => v.getD i.toNat d)) := by
  unfold npTake
  induction idx with
  | nil => rfl
  | cons i rest ih =>
    have hi := h i (by simp)
    rw [List.mapM_cons, pyGet_ok v i d hi.1 hi.2, ih (fun j hj => h j (by simp [hj]))]
    rfl

theorem pySlice_take {α : Type} (l : List α) (k : Int) (h : 0 ≤ k) :
    pySlice l none (some k) = l.take k.toNat := by
  have : ¬ k < 0 := by omega
  simp [pySlice, pyBound, this, List.take_eq_take_iff]

theorem npShape1_of_square {α : Type} {M : List (List α)} {n : Nat} (h : SquareN M n) (hn : 0 < n) : npShape1 M = n := by
  obtain ⟨h1, h2⟩ := h
  cases M with
  | nil => simp at h1; omega
  | cons r rs => simp [npShape1, h2 r (by simp)]

theorem npShape0_of_square {α : Type} {M : List (List α)} {n : Nat} (h : SquareN M n) : npShape0 M = n := by
  simp [npShape0, h.1]

theorem npTranspose_of_square {α : Type} [Inhabited α] {M : List (List α)} {n : Nat} (h : SquareN M n) (hn : 0 < n) :
    npTranspose M = (List.range n).map (fun j => npCol default M j) := by
  unfold npTranspose; rw [npShape1_of_square h hn]; rfl

theorem square_transpose {α : Type} [Inhabited α] {M : List (List α)} {n : Nat} (h : SquareN M n) (hn : 0 < n) :
    SquareN (npTranspose M) n := by
  rw [npTranspose_of_square h hn]
  refine ⟨by simp, ?_⟩
  intro r hr
  simp only [List.mem_map] at hr
  obtain ⟨j, _, rfl⟩ := hr
  simp [npCol, h.1]

/-! ### the straight-line computation -/

/-- the generic run of `_eigenvectors` once the checks pass and the oracles answer with in-range indices -/
theorem eigenvectors_n_run (eig : List (List Rat) → Py (List Cx × List (List Cx))) (argsort : List Cx → Py (List Int))
    (M : List (List Rat)) (nvals : Int) (w : List Cx) (V : List (List Cx)) (p : List Int)
    (hq : npShape0 M = npShape1 M ∧ npShape0 M ≠ 1) (hn : nvals ≤ M.length)
    (heig : eig M = .ok (w, V)) (hsort : argsort w = .ok p)
    (hp : ∀ i ∈ p, 0 ≤ i ∧ i.toNat < w.length) (hV : npShape1 V = w.length) :
    Gen.MsmLinalg.eigenvectors_n eig argsort M nvals =
      .ok (npRealIfClose1 (pySlice (sortedVals w p) none (some nvals)),
           npRealIfClose2 (pySlice (sortedVecs V p) none (some nvals))) := by
  have hT : npTranspose V = (List.range w.length).map (fun j => npCol none V j) := by
    unfold npTranspose; rw [hV]; rfl
  have h5 : npTake w (npReverse p) = .ok (sortedVals w p) :=
    npTake_ok w none _ (by simpa [npReverse] using hp)
  have h6 : npTake (npTranspose V) (npReverse p) = .ok (sortedVecs V p) := by
    rw [npTake_ok (npTranspose V) [] _ (by simpa [npReverse, hT] using hp)]
    simp only [sortedVecs, npReverse]
    congr 1
    apply List.map_congr_left
    intro i hi
    have := (hp i (by simpa using hi)).2
    simp [hT, List.getD, this]
  have hn' : ¬ nvals > pyLen M := by simp [pyLen]; omega
  have hd : decide (npShape0 M = npShape1 M ∧ npShape0 M ≠ 1) = true := decide_eq_true hq
  unfold Gen.MsmLinalg.eigenvectors_n
  simp [is_quadratic_eq, hd, heig, hsort, h5, h6, hn', bind, Except.bind, pure, Except.pure]

/-! ### facts about the oracle outputs -/

theorem argsort_range {l : List Cx} {p : List Int} (h : ArgsortOk l p) : ∀ i ∈ p, 0 ≤ i ∧ i.toNat < l.length := by
  intro i hi
  refine ⟨h.1 i hi, ?_⟩
  have : i.toNat ∈ p.map Int.toNat := List.mem_map_of_mem hi
  simpa using (h.2.1.mem_iff).1 this

theorem argsort_length {l : List Cx} {p : List Int} (h : ArgsortOk l p) : p.length = l.length := by
  simpa using h.2.1.length_eq

theorem range_map_getD {α : Type} (l : List α) (d : α) : (List.range l.length).map (fun i => l.getD i d) = l := by
  apply List.ext_getElem
  · simp
  · intro i h1 h2
    simp at h1
    simp [List.getD, h1]

theorem sortedVals_perm {l : List Cx} {p : List Int} (h : ArgsortOk l p) : (sortedVals l p).Perm l := by
  have h1 : (sortedVals l p).Perm (p.map (fun i => l.getD i.toNat none)) := (List.reverse_perm p).map _
  have h2 : p.map (fun i => l.getD i.toNat none) = (p.map Int.toNat).map (fun i => l.getD i none) := by
    simp [List.map_map, Function.comp_def]
  have h3 := h.2.1.map (fun i => l.getD i none)
  rw [range_map_getD] at h3
  exact h1.trans (h2 ▸ h3)

theorem sortedVals_length {l : List Cx} {p : List Int} (h : ArgsortOk l p) : (sortedVals l p).length = l.length :=
  (sortedVals_perm h).length_eq

theorem sortedVecs_length (V : List (List Cx)) {l : List Cx} {p : List Int} (h : ArgsortOk l p) : (sortedVecs V p).length = l.length := by
  simp [sortedVecs, argsort_length h]

theorem cxGe_eq (a b : Cx) : cxGe a b = cxLe b a := rfl

theorem sortedVals_descending {l : List Cx} {p : List Int} (h : ArgsortOk l p) :
    (sortedVals l p).Pairwise (fun a b => cxGe a b = true) := by
  unfold sortedVals
  rw [List.map_reverse, List.pairwise_reverse]
  exact h.2.2

theorem cxLe_cxReal {a b : Cx} (h : cxLe a b = true) : cxLe (cxReal a) (cxReal b) = true := by
  cases a with
  | none => simp [cxLe] at h
  | some a =>
    cases b with
    | none => simp [cxLe] at h
    | some b =>
      obtain ⟨ar, ai⟩ := a
      obtain ⟨br, bi⟩ := b
      simp only [cxLe, cxReal, Option.map, decide_eq_true_eq] at h ⊢
      rcases h with h | ⟨h, _⟩
      · exact Or.inl h
      · exact Or.inr ⟨h, Rat.le_refl⟩

theorem cxLe_refl {a : Cx} (h : a.isSome = true) : cxLe a a = true := by
  cases a with
  | none => simp at h
  | some a => obtain ⟨ar, ai⟩ := a; simp [cxLe]

theorem npRealIfClose1_cases (l : List Cx) :
    npRealIfClose1 l = l ∨ ((∀ z ∈ l, cxImagSmall z = true) ∧ npRealIfClose1 l = l.map cxReal) := by
  unfold npRealIfClose1
  split
  · rename_i h; right; exact ⟨by simpa using h, rfl⟩
  · left; rfl

theorem npRealIfClose2_cases (m : List (List Cx)) :
    npRealIfClose2 m = m ∨ ((∀ r ∈ m, ∀ z ∈ r, cxImagSmall z = true) ∧ npRealIfClose2 m = m.map (fun r => r.map cxReal)) := by
  unfold npRealIfClose2
  split
  · rename_i h; right; exact ⟨by simpa using h, rfl⟩
  · left; rfl

theorem npRealIfClose1_length (l : List Cx) : (npRealIfClose1 l).length = l.length := by
  rcases npRealIfClose1_cases l with h | ⟨_, h⟩ <;> simp [h]

theorem npRealIfClose2_length (m : List (List Cx)) : (npRealIfClose2 m).length = m.length := by
  rcases npRealIfClose2_cases m with h | ⟨_, h⟩ <;> simp [h]

theorem npRealIfClose2_row_length (m : List (List Cx)) (n : Nat) (h : ∀ r ∈ m, r.length = n) : ∀ r ∈ npRealIfClose2 m, r.length = n := by
  rcases npRealIfClose2_cases m with h' | ⟨_, h'⟩ <;> rw [h']
  · exact h
  · intro r hr
    simp only [List.mem_map] at hr
    obtain ⟨r', hr', rfl⟩ := hr
    simp [h r' hr']

theorem npRealIfClose1_descending {l : List Cx} (h : l.Pairwise (fun a b => cxGe a b = true)) :
    (npRealIfClose1 l).Pairwise (fun a b => cxGe a b = true) := by
  rcases npRealIfClose1_cases l with h' | ⟨_, h'⟩ <;> rw [h']
  · exact h
  · exact h.map _ (fun a b hab => cxLe_cxReal hab)

/-! ### indexing the sorted lists -/

theorem getD_take {α : Type} (l : List α) (m k : Nat) (d : α) (hk : k < m) : (l.take m).getD k d = l.getD k d := by
  simp [List.getD_eq_getElem?_getD, hk]

theorem getD_map {α β : Type} (f : α → β) (l : List α) (k : Nat) (d : α) (e : β) (hk : k < l.length) :
    (l.map f).getD k e = f (l.getD k d) := by
  simp [List.getD_eq_getElem?_getD, List.getElem?_map, List.getElem?_eq_getElem hk]

theorem getD_mem {α : Type} (l : List α) (k : Nat) (d : α) (hk : k < l.length) : l.getD k d ∈ l := by
  simp [List.getD_eq_getElem?_getD, List.getElem?_eq_getElem hk]

/-- the `k`-th index of the descending order -/
def sortedIdx (p : List Int) (k : Nat) : Nat := (p.reverse.getD k 0).toNat

theorem sortedIdx_lt {l : List Cx} {p : List Int} (h : ArgsortOk l p) {k : Nat} (hk : k < l.length) : sortedIdx p k < l.length := by
  have hk' : k < p.reverse.length := by simpa [argsort_length h] using hk
  exact (argsort_range h _ (by simpa using getD_mem p.reverse k 0 hk')).2

theorem sortedVals_getD {l : List Cx} {p : List Int} (h : ArgsortOk l p) {k : Nat} (hk : k < l.length) :
    (sortedVals l p).getD k none = l.getD (sortedIdx p k) none := by
  have hk' : k < p.reverse.length := by simpa [argsort_length h] using hk
  simp only [sortedVals, sortedIdx]
  rw [getD_map _ _ _ 0 _ hk']

theorem sortedVecs_getD (V : List (List Cx)) {l : List Cx} {p : List Int} (h : ArgsortOk l p) {k : Nat} (hk : k < l.length) :
    (sortedVecs V p).getD k [] = npCol none V (sortedIdx p k) := by
  have hk' : k < p.reverse.length := by simpa [argsort_length h] using hk
  simp only [sortedVecs, sortedIdx]
  rw [getD_map _ _ _ 0 _ hk']

theorem eigOk_nanfree {M : List (List Rat)} {w : List Cx} {V : List (List Cx)} (h : EigOk M w V) : ∀ z ∈ w, z.isSome = true := by
  intro z hz
  obtain ⟨k, hk, rfl⟩ := List.getElem_of_mem hz
  have := (h.2.2 k (h.1 ▸ hk)).1
  simpa [List.getD_eq_getElem?_getD, List.getElem?_eq_getElem hk] using this

/-- the `k`-th largest eigenvalue and the `k`-th row of the sorted eigenvector table are a right eigenpair -/
theorem sorted_eigenpair {M : List (List Rat)} {w : List Cx} {V : List (List Cx)} {p : List Int}
    (he : EigOk M w V) (hs : ArgsortOk w p) {k : Nat} (hk : k < M.length) :
    CxRightEigenpair M ((sortedVals w p).getD k none) ((sortedVecs V p).getD k []) := by
  have hk' : k < w.length := he.1 ▸ hk
  rw [sortedVals_getD hs hk', sortedVecs_getD V hs hk']
  exact he.2.2 _ (he.1 ▸ sortedIdx_lt hs hk')

/-- the first entry of the descending list dominates every eigenvalue -/
theorem sortedVals_head_max {l : List Cx} {p : List Int} (h : ArgsortOk l p) (hl : ∀ z ∈ l, z.isSome = true) :
    ∀ z ∈ l, cxGe ((sortedVals l p).getD 0 none) z = true := by
  intro z hz
  have hperm := sortedVals_perm h
  have hdesc := sortedVals_descending h
  have hz' : z ∈ sortedVals l p := hperm.mem_iff.2 hz
  cases hsv : sortedVals l p with
  | nil => rw [hsv] at hz'; simp at hz'
  | cons x rest =>
    rw [hsv] at hz' hdesc
    simp only [List.getD_cons_zero]
    rcases List.mem_cons.1 hz' with rfl | hr
    · exact cxLe_refl (hl _ hz)
    · exact (List.pairwise_cons.1 hdesc).1 z hr

/-! ### left eigenpairs are right eigenpairs of the transpose -/

theorem rowDot_col (M : List (List Rat)) (j : Nat) (v : List C) : rowDot (npCol 0 M j) v = colDot M j v := by
  unfold rowDot colDot npCol
  rw [List.zipWith_map_left]
  congr 1
  apply congrFun; apply congrFun; apply congrArg
  funext row z
  exact cmul_comm _ _

theorem right_transpose_iff {M : List (List Rat)} {n : Nat} (h : SquareN M n) (hn : 0 < n) (lam : C) (v : List C) :
    IsRightEigenpair (npTranspose M) lam v ↔ IsLeftEigenpair M lam v := by
  have hT := npTranspose_of_square h hn
  have hlen : (npTranspose M).length = M.length := by rw [hT]; simp [h.1]
  have hrow : ∀ i, i < M.length → (npTranspose M).getD i [] = npCol 0 M i := by
    intro i hi
    rw [hT, getD_map _ _ _ 0 _ (by simpa [h.1] using hi)]
    have : i < (List.range n).length := by simpa [h.1] using hi
    simp [List.getD_eq_getElem?_getD, List.getElem?_eq_getElem this]
    rfl
  unfold IsRightEigenpair IsLeftEigenpair
  rw [hlen]
  constructor
  · rintro ⟨h1, h2, h3⟩
    exact ⟨h1, h2, fun j hj => by rw [← rowDot_col, ← hrow j hj]; exact h3 j hj⟩
  · rintro ⟨h1, h2, h3⟩
    exact ⟨h1, h2, fun j hj => by rw [hrow j hj, rowDot_col]; exact h3 j hj⟩

theorem cx_right_transpose_iff {M : List (List Rat)} {n : Nat} (h : SquareN M n) (hn : 0 < n) (lam : Cx) (v : List Cx) :
    CxRightEigenpair (npTranspose M) lam v ↔ CxLeftEigenpair M lam v := by
  unfold CxRightEigenpair CxLeftEigenpair
  rw [right_transpose_iff h hn]

/-! ### the accepted case, bundled -/

/-- the accepted case of `_eigenvectors(M, nvals)`: `M` is `n × n` with `n ≥ 2` (`is_quadratic` rejects `1 × 1`), the eigen-solver answered
    `(w, V)` meeting its contract, `argsort` answered `p` meeting its contract -/
structure Accepted (eig : List (List Rat) → Py (List Cx × List (List Cx))) (argsort : List Cx → Py (List Int))
    (M : List (List Rat)) (n : Nat) (w : List Cx) (V : List (List Cx)) (p : List Int) : Prop where
  sq : SquareN M n
  two : 2 ≤ n
  heig : eig M = .ok (w, V)
  eigOk : EigOk M w V
  hsort : argsort w = .ok p
  sortOk : ArgsortOk w p

theorem accepted_of_contracts {eig : List (List Rat) → Py (List Cx × List (List Cx))} {argsort : List Cx → Py (List Int)}
    {M : List (List Rat)} {n : Nat} (hsq : SquareN M n) (h2 : 2 ≤ n) (he : EigContractAt eig M) (hs : ArgsortContract argsort) :
    ∃ w V p, Accepted eig argsort M n w V p := by
  obtain ⟨w, V, h1, h2'⟩ := he
  obtain ⟨p, h3, h4⟩ := hs w (eigOk_nanfree h2')
  exact ⟨w, V, p, ⟨hsq, h2, h1, h2', h3, h4⟩⟩

theorem quadratic_of_square {M : List (List Rat)} {n : Nat} (hsq : SquareN M n) (h2 : 2 ≤ n) :
    npShape0 M = npShape1 M ∧ npShape0 M ≠ 1 := by
  rw [npShape0_of_square hsq, npShape1_of_square hsq (by omega)]
  exact ⟨rfl, by omega⟩

theorem pySlice_neg {α : Type} (l : List α) (k : Int) (h : k < 0) :
    pySlice l none (some k) = l.take (k + l.length).toNat := by
  simp [pySlice, pyBound, h]

/-! ### when `real_if_close` is the identity -/

theorem map_eq_self {α : Type} (f : α → α) (l : List α) : l.map f = l ↔ ∀ z ∈ l, f z = z := by
  induction l with
  | nil => simp
  | cons a t ih => simp [ih]

theorem npRealIfClose1_id_iff (l : List Cx) :
    npRealIfClose1 l = l ↔ (l.all cxImagSmall = false ∨ ∀ z ∈ l, cxReal z = z) := by
  unfold npRealIfClose1
  by_cases h : l.all cxImagSmall = true
  · rw [if_pos h, map_eq_self]; simp [h]
  · rw [if_neg h]; simp at h; simp [h]

theorem npRealIfClose2_id_iff (m : List (List Cx)) :
    npRealIfClose2 m = m ↔ (m.all (fun r => r.all cxImagSmall) = false ∨ ∀ r ∈ m, ∀ z ∈ r, cxReal z = z) := by
  unfold npRealIfClose2
  by_cases h : m.all (fun r => r.all cxImagSmall) = true
  · rw [if_pos h, map_eq_self]; simp [h, map_eq_self]
  · rw [if_neg h]; simp at h; simp [h]


/-! ### a reference `argsort` : the global contract `ArgsortContract` is satisfiable -/

/-- a total preorder extending `cxLe` (NaN last); only used to build a reference `argsort` -/
def cxLeTot (a b : Cx) : Bool :=
  match a, b with
  | some _, some _ => cxLe a b
  | _, none => true
  | none, some _ => false

theorem cxLeTot_trans (a b c : Cx) (h1 : cxLeTot a b = true) (h2 : cxLeTot b c = true) : cxLeTot a c = true := by
  rcases a with _ | ⟨ar, ai⟩ <;> rcases b with _ | ⟨br, bi⟩ <;> rcases c with _ | ⟨cr, ci⟩ <;>
    simp_all [cxLeTot, cxLe] <;> grind

theorem cxLeTot_total (a b : Cx) : (cxLeTot a b || cxLeTot b a) = true := by
  rcases a with _ | ⟨ar, ai⟩ <;> rcases b with _ | ⟨br, bi⟩ <;>
    simp [cxLeTot, cxLe] <;> grind


def refArgsortNat (l : List Cx) : List Nat :=
  (List.range l.length).mergeSort (fun i j => cxLeTot (l.getD i none) (l.getD j none))

/-- a reference implementation of the `argsort` oracle (merge sort of the indices) -/
def refArgsort (l : List Cx) : Py (List Int) := .ok ((refArgsortNat l).map Int.ofNat)

theorem refArgsort_contract : ArgsortContract refArgsort := by
  intro l hl
  refine ⟨_, rfl, ?_, ?_, ?_⟩
  · intro i hi
    simp only [List.mem_map] at hi
    obtain ⟨k, _, rfl⟩ := hi
    exact Int.natCast_nonneg k
  · have : ((refArgsortNat l).map Int.ofNat).map Int.toNat = refArgsortNat l := by
      simp [List.map_map, Function.comp_def]
    rw [this]
    exact List.mergeSort_perm _ _
  · rw [List.map_map, List.pairwise_map]
    have hs := List.pairwise_mergeSort (le := fun i j => cxLeTot (l.getD i none) (l.getD j none))
      (fun a b c => cxLeTot_trans _ _ _) (fun a b => cxLeTot_total _ _) (List.range l.length)
    refine List.Pairwise.imp_of_mem ?_ hs
    intro i j hi hj hij
    have hi' : i < l.length := by simpa [refArgsortNat] using hi
    have hj' : j < l.length := by simpa [refArgsortNat] using hj
    have h1 := hl _ (getD_mem l i none hi')
    have h2 := hl _ (getD_mem l j none hj')
    simp only [Function.comp, Int.ofNat_eq_natCast, Int.toNat_natCast]
    revert hij h1 h2
    generalize l.getD i none = a
    generalize l.getD j none = b
    rcases a with _ | a <;> rcases b with _ | b <;> simp [cxLeTot]


end MsmVerif.Refine.Eigen
