/-
Props/C20.lean — property theorems for C20 (`utils/filtering.py`: Gaussian filter with repeated edge values, running mean).
Helper lemmas live in Lemmas/Misc.lean.

Model of the code (`Model/Filter.lean`): `filt w x` is the correlation of the signal `x` with the kernel
`w = [w_{-r}, …, w_{r}]` (odd length `2r+1`), indices outside the signal clamped to the nearest edge (`mode='nearest'`);
`filtTable w t` filters every column of a table on its own; `runningMean x w` is `np.convolve(x, ones(w)/w, 'same')`
(zero padding) and `runningMeanDoc x w` the documented centred window.  All arithmetic is exact (`Rat`).
"Pointwise list operations": `a•x + b•y` is `List.zipWith (· + ·) (x.map (a * ·)) (y.map (b * ·))`.
-/
import MsmVerif.Lemmas.Misc

namespace MsmVerif.C20
open MsmVerif MsmVerif.Filter MsmVerif.Misc

/-! ### 1. shape -/

/-- The filtered signal has as many samples as the input (any kernel, any signal). -/
theorem filt_length (w x : List Rat) : (filt w x).length = x.length :=
  Misc.filt_length w x

/-- The filtered table has as many rows as the input table. -/
theorem filtTable_rows (w : List Rat) (t : List (List Rat)) : (filtTable w t).length = t.length :=
  Misc.filtTable_length w t

/-- For a rectangular table (every row as long as the first one) the filtered table has exactly the input's shape:
the same number of rows and row by row the same lengths. -/
theorem filtTable_shape (w : List Rat) (t : List (List Rat))
    (hrect : ∀ row ∈ t, row.length = (t.headD []).length) :
    (filtTable w t).length = t.length ∧ (filtTable w t).map List.length = t.map List.length :=
  ⟨Misc.filtTable_length w t, Misc.filtTable_shape w t hrect⟩

example : ∀ row ∈ ([[1, 2], [3, 4], [5, 7]] : List (List Rat)), row.length = (([[1, 2], [3, 4], [5, 7]] : List (List Rat)).headD []).length := by
  decide

/-! ### 2. linearity -/

/-- The filter is linear: filtering `a•x + b•y` gives `a•(filt x) + b•(filt y)` for two signals of the same length
(any kernel). -/
theorem linear (w x y : List Rat) (a b : Rat) (hlen : x.length = y.length) :
    filt w (List.zipWith (· + ·) (x.map (a * ·)) (y.map (b * ·)))
      = List.zipWith (· + ·) ((filt w x).map (a * ·)) ((filt w y).map (b * ·)) := by
  rw [List.zipWith_map, List.zipWith_map]
  exact Misc.filt_linear w x y a b hlen

example : ([1, 5, 2] : List Rat).length = ([0, 3, 3] : List Rat).length := by decide
example : filt [1/4, 1/2, 1/4] [1, 5, 2] = [2, 13/4, 11/4] := by decide +kernel

/-! ### 3. constants -/

/-- A kernel whose weights sum to one leaves every constant signal unchanged (thanks to the repeated edge values
this holds up to the border). -/
theorem const (w : List Rat) (hw : w.sum = 1) (n : Nat) (c : Rat) :
    filt w (List.replicate n c) = List.replicate n c :=
  Misc.filt_const w hw n c

example : ([1/4, 1/2, 1/4] : List Rat).sum = 1 := by decide +kernel

/-! ### 4. no overshoot -/

/-- With non-negative weights summing to one every output sample lies between the minimum and the maximum of the input:
any interval `[lo, hi]` containing all input samples contains all output samples. -/
theorem minmax (w x : List Rat) (lo hi : Rat) (hw0 : ∀ v ∈ w, 0 ≤ v) (hw : w.sum = 1)
    (hx : ∀ v ∈ x, lo ≤ v ∧ v ≤ hi) : ∀ y ∈ filt w x, lo ≤ y ∧ y ≤ hi :=
  Misc.filt_minmax w x lo hi hw0 hw hx

example : (∀ v ∈ ([1/4, 1/2, 1/4] : List Rat), 0 ≤ v) ∧ (∀ v ∈ ([1, 5, 2] : List Rat), 1 ≤ v ∧ v ≤ 5) := by
  decide +kernel

/-! ### 5. time reversal -/

/-- For a symmetric kernel of odd length, filtering the reversed signal gives the reversed filtered signal. -/
theorem reverse (w x : List Rat) (r : Nat) (hlen : w.length = 2 * r + 1) (hsym : w.reverse = w) :
    filt w x.reverse = (filt w x).reverse :=
  Misc.filt_reverse w x r hlen hsym

example : ([1/4, 1/2, 1/4] : List Rat).length = 2 * 1 + 1 ∧ ([1/4, 1/2, 1/4] : List Rat).reverse = [1/4, 1/2, 1/4] := by
  decide +kernel
/-- symmetry of the kernel cannot be dropped -/
example : filt [1, 0, 0] ([1, 2, 3] : List Rat).reverse ≠ (filt [1, 0, 0] [1, 2, 3]).reverse := by decide +kernel

/-! ### 6. columns never mix -/

/-- Column `j` of the filtered table is the filtered column `j` of the input table (for every column index of the
table, i.e. `j` below the length of the first row); no rectangularity is needed. -/
theorem columns (w : List Rat) (t : List (List Rat)) (j : Nat) (hj : j < (t.headD []).length) :
    column (filtTable w t) j = filt w (column t j) :=
  Misc.filtTable_column w t j hj

example : 1 < (([[1, 2], [3, 4], [5, 7]] : List (List Rat)).headD []).length := by decide

/-! ### 7. running mean -/

/-- The running mean has as many samples as the input. -/
theorem rm_len (x : List Rat) (w : Nat) : (runningMean x w).length = x.length :=
  Misc.runningMean_length x w

/-- A window of one sample changes nothing. -/
theorem rm_one (x : List Rat) : runningMean x 1 = x :=
  Misc.runningMean_one x

/-- For a window `1 ≤ w ≤ x.length` the `convolve(..., 'same')` model equals the documented centred window
`i - w/2 … i + (w-1)/2` (odd and even `w`; the extra sample of an even window is on the left), divided by `w` also at
the borders where fewer than `w` samples are inside the signal.  (The identity of the two models does not need
`w ≤ x.length`; that hypothesis is the range on which `runningMean` models numpy's `'same'` mode.) -/
theorem rm_window (x : List Rat) (w : Nat) (hw : 1 ≤ w) (_hwn : w ≤ x.length) :
    runningMean x w = runningMeanDoc x w :=
  Misc.runningMean_eq_doc x w hw

example : runningMean [1, 2, 3, 4] 2 = [1/2, 3/2, 5/2, 7/2] := by decide +kernel
example : runningMean [1, 2, 3, 4] 3 = [1, 2, 3, 7/3] := by decide +kernel

end MsmVerif.C20
