/-
Model/Msm.lean — executable model of `src/msmhelper/msm/msm.py` (count matrix, row normalisation,
`estimate_markov_model`) in exact arithmetic (`Nat` counts, `Rat` probabilities).
-/
import MsmVerif.Model.Basic

namespace MsmVerif.Msm

abbrev NatMat := List (List Nat)
abbrev RatMat := List (List Rat)

/-- `zip(traj[:-lag], traj[lag:])` — for `lag ≥ 1`, `traj[:-lag]` is the first `len - lag` frames
(empty when `lag ≥ len`); `zip` stops at the shorter list, so this is `t.zip (t.drop lag)`. -/
def pairs (lag : Nat) (t : List Int) : List (Int × Int) :=
  (t.take (t.length - lag)).zip (t.drop lag)

def zeroMat (n : Nat) : NatMat := List.replicate n (List.replicate n 0)

/-- `T_count[i, j] += 1` (python/numpy indices: negatives wrap; out of range is an IndexError in
interpreted mode and undefined behaviour when compiled — the model never reaches it because index
trajectories are ranks `< n`) -/
def bump (m : NatMat) (i j : Nat) : NatMat :=
  m.modify i (fun row => row.modify j (· + 1))

/-- `_generate_transition_count_matrix(trajs, lagtime, nstates)` on index trajectories -/
def countMatrix (idx : Trajs) (lag n : Nat) : NatMat :=
  idx.foldl (fun m t => (pairs lag t).foldl (fun m p => bump m p.1.toNat p.2.toNat) m) (zeroMat n)

/-- `row_normalize_matrix` on a count matrix: rows with sum 0 are divided by 1 -/
def rowNormalize (m : NatMat) : RatMat :=
  m.map (fun row =>
    let s := row.sum
    let d : Rat := if s = 0 then 1 else (s : Rat)
    row.map (fun (c : Nat) => (c : Rat) / d))

/-- `row_normalize_matrix` on a rational matrix -/
def rowNormalizeQ (m : RatMat) : RatMat :=
  m.map (fun row =>
    let s := row.sum
    let d : Rat := if s = 0 then 1 else s
    row.map (fun c => c / d))

/-- `estimate_markov_model(trajs, lagtime)` = `StateTraj(trajs).estimate_markov_model(lagtime)`;
returns the count matrix too (the harness compares counts exactly and `T` within one rounding). -/
def estimate (ts : Trajs) (lag : Nat) : Except Err (NatMat × RatMat × List Int) :=
  match StateTraj.mk' ts with
  | .error e => .error e
  | .ok st =>
    let c := countMatrix st.idx lag st.nstates
    .ok (c, rowNormalize c, st.sts)

/-! ### Spec: lagged transition counts over labels -/

/-- number of frame pairs `(t, t+lag)` inside one and the same trajectory going `a → b` -/
def count (ts : Trajs) (lag : Nat) (a b : Int) : Nat :=
  (ts.map (fun t => (pairs lag t).count (a, b))).sum

def rowTotal (ts : Trajs) (lag : Nat) (a : Int) : Nat :=
  ((states ts).map (fun b => count ts lag a b)).sum

/-- the transition probability of the property statement -/
def T (ts : Trajs) (lag : Nat) (a b : Int) : Rat :=
  if rowTotal ts lag a = 0 then 0 else (count ts lag a b : Rat) / (rowTotal ts lag a : Rat)

def specCounts (ts : Trajs) (lag : Nat) : NatMat :=
  (states ts).map (fun a => (states ts).map (fun b => count ts lag a b))

def specT (ts : Trajs) (lag : Nat) : RatMat :=
  (states ts).map (fun a => (states ts).map (fun b => T ts lag a b))

/-- pairs that straddle a cut between `t₁` and `t₂` in `t₁ ++ t₂` -/
def straddle (lag : Nat) (t₁ t₂ : List Int) (a b : Int) : Nat :=
  ((pairs lag (t₁ ++ t₂)).count (a, b)) - ((pairs lag t₁).count (a, b) + (pairs lag t₂).count (a, b))

def absQ (r : Rat) : Rat := if r < 0 then -r else r

/-- oracle on the real output: observed state list and float matrix (as exact rationals) against the
spec; every entry within one rounding of `C/R`, i.e. `|T·R − C| ≤ R·2⁻⁵³` -/
def holds (ts : Trajs) (lag : Nat) (obsStates : List Int) (obsT : RatMat) : Bool :=
  let ss := states ts
  obsStates == ss &&
  obsT.length == ss.length &&
  (List.zip ss obsT).all (fun (a, row) =>
    row.length == ss.length &&
    (List.zip ss row).all (fun (b, v) =>
      let R := rowTotal ts lag a
      if R = 0 then v == 0
      else decide (absQ (v * (R : Rat) - (count ts lag a b : Rat)) ≤ (R : Rat) / 9007199254740992)))

end MsmVerif.Msm
