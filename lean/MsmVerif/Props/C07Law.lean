/-
Props/C07Law.lean — the law of the sampled chain (C07/C08) in elementary, measure-free form.
Helper lemmas and the definitions live in Lemmas/ChainLaw.lean.

Model of the code: `Mcmc.chainFrom cummat perm s us` are the states after each propagation step of `_propagate_MCMC`
started in `s` with the uniform draws `us`; `Mcmc.realised` is the same with the draws cut to `steps`.

Vocabulary (all in namespace `MsmVerif.Mcmc`, defined in Lemmas/ChainLaw.lean):
* `posOf perm s j` — column position of state `j` in row `s` of `perm` (`idxOf`).
* `pathBox cummat perm s path` — one half-open interval `[lo, hi)` (stored as the pair `(lo, hi)`) per step: for the move
  `a → b` of `s → path[0] → path[1] → …` the interval `intervalOf cummat[a] (posOf perm a b)`.
* `inBox box us` — `us` has as many coordinates as the box and `lo_i ≤ u_i < hi_i` for every `i` (`inBox_spec`).
* `volume box` — product of the side lengths `hi_i - lo_i`.
* `pathIn perm s path` — every state of `path` occurs in the `perm` row of its predecessor (`s` precedes `path[0]`).
* `allPaths n m` — all `n^m` state lists of length `m` over the states `0 … n-1`.
* `ExactModel T cummat perm` — `T` is square and row-stochastic (every row has `T.length` entries, all `≥ 0`, sum `1`), and
  for every `i < T.length`: `perm[i]` is a permutation of `range n` (`isPermOfRange`) that sorts row `i` non-increasingly
  (`nonIncreasing`), and `cummat[i] = cumRow T[i] perm[i]` (the exact-arithmetic `_get_cummat`).  (`exactModel_iff`)

Reading: for independent uniform draws the probability that the chain runs through `path` is the volume of the set of
draw vectors realising it.  `chain_box` says this set is exactly the box `pathBox …`, `box_volume` says its volume is
`Π T[s_k][s_{k+1}]`; `boxes_disjoint`, `boxes_cover` and `volume_sum_one` say the boxes of the paths of length `m`
partition `[0,1)^m` and their volumes add up to 1.  So the sampled chain is a Markov chain with transition matrix `T`.
-/
import MsmVerif.Lemmas.ChainLaw

namespace MsmVerif.C07Law
open MsmVerif MsmVerif.Msm MsmVerif.Mcmc MsmVerif.Events

/- The concrete 3-state model `T3`, `perm3`, `cum3` used by the non-vacuity examples (with `exactModel3 : ExactModel T3 cum3
perm3` and `pathBox3`, the box of the path `0 → 1 → 2 → 2`) is defined at the end of Lemmas/ChainLaw.lean. -/

/-! ### 0. the definitions say what they should -/

/-- `inBox` in index form: `us` has one coordinate per side of the box and coordinate `i` lies in `[lo_i, hi_i)`. -/
theorem inBox_spec (box : List (Rat × Rat)) (us : List Rat) :
    inBox box us ↔ us.length = box.length ∧
      ∀ i (h : i < box.length), box[i].1 ≤ us.getD i 0 ∧ us.getD i 0 < box[i].2 :=
  inBox_iff_getElem box us

/-- `ExactModel` spelled out. -/
theorem exactModel_iff (T cummat : List (List Rat)) (perm : List (List Nat)) :
    ExactModel T cummat perm ↔
      (∀ row ∈ T, row.length = T.length ∧ (∀ p ∈ row, 0 ≤ p) ∧ row.sum = 1) ∧
      ∀ i, i < T.length →
        isPermOfRange (perm.getD i []) T.length = true ∧
        nonIncreasing ((perm.getD i []).map (fun j => (T.getD i []).getD j 0)) = true ∧
        cummat.getD i [] = cumRow (T.getD i []) (perm.getD i []) :=
  Iff.rfl

/-- `allPaths n m` lists exactly the state lists of length `m` with all states `< n`, each once (`n^m` of them). -/
theorem allPaths_spec (n m : Nat) :
    (∀ p, p ∈ allPaths n m ↔ p.length = m ∧ ∀ j ∈ p, j < n) ∧ (allPaths n m).Nodup ∧
    (allPaths n m).length = n ^ m :=
  ⟨mem_allPaths n m, allPaths_nodup n m, length_allPaths n m⟩

example : allPaths 2 2 = [[0, 0], [0, 1], [1, 0], [1, 1]] := by decide

/-! ### 1. the draw vectors realising a path form exactly the box of the path -/

/-- (⇐, no condition on the draws.)  If the breakpoint rows of the visited states are non-decreasing and as long as the
corresponding `perm` rows, and every state of `path` occurs in the `perm` row of its predecessor, then every draw
vector inside the box of `path` makes the chain started in `s` run through `path`. -/
theorem chain_of_inBox (cummat : List (List Rat)) (perm : List (List Nat)) (s : Nat) (path : List Nat)
    (hmono : ∀ i ∈ s :: path, (cummat.getD i []).Pairwise (· ≤ ·))
    (hlen : ∀ i ∈ s :: path, (perm.getD i []).length = (cummat.getD i []).length)
    (hp : pathIn perm s path) (us : List Rat) (hb : inBox (pathBox cummat perm s path) us) :
    chainFrom cummat perm s us = path :=
  chainFrom_of_inBox cummat perm s path hmono hlen hp us hb

/-- The set of draw vectors realising `path` is exactly the box `pathBox cummat perm s path`.
Hypotheses on the rows of the visited states `s :: path`: breakpoints non-decreasing, `perm` row duplicate-free and as
long as the breakpoint row, last breakpoint equal to 1 (the real `_get_cummat` forces this); every state of `path` occurs
in the `perm` row of its predecessor; every draw is in `[0, 1)`.  The hypothesis `us.length = path.length` of the task
is NOT needed (both sides imply it).  The hypotheses `0 ≤ u` and `u < 1 = last breakpoint` ARE needed for the direction
⇒ (see the two counterexamples below); they are not needed for ⇐ (`chain_of_inBox`). -/
theorem chain_box (cummat : List (List Rat)) (perm : List (List Nat)) (s : Nat) (path : List Nat)
    (hmono : ∀ i ∈ s :: path, (cummat.getD i []).Pairwise (· ≤ ·))
    (hlen : ∀ i ∈ s :: path, (perm.getD i []).length = (cummat.getD i []).length)
    (hnd : ∀ i ∈ s :: path, (perm.getD i []).Nodup)
    (hlast : ∀ i ∈ s :: path, (cummat.getD i []).getLastD 0 = 1)
    (hp : pathIn perm s path) (us : List Rat) (hu : ∀ u ∈ us, 0 ≤ u ∧ u < 1) :
    chainFrom cummat perm s us = path ↔ inBox (pathBox cummat perm s path) us :=
  ⟨inBox_of_chainFrom cummat perm s path hlen hnd hlast hp us hu,
   chainFrom_of_inBox cummat perm s path hmono hlen hp us⟩

/-- non-vacuity: the hypotheses of `chain_box` hold for the concrete model and the path `0 → 1 → 2 → 2`; the draw vector
`(3/5, 4/5, 1/3)` lies in its box and realises it, `(3/5, 1/2, 1/3)` lies outside and realises another path -/
example : (∀ i ∈ [0, 1, 2, 2], (cum3.getD i []).Pairwise (· ≤ ·)) ∧
    (∀ i ∈ [0, 1, 2, 2], (perm3.getD i []).length = (cum3.getD i []).length) ∧
    (∀ i ∈ [0, 1, 2, 2], (perm3.getD i []).Nodup) ∧
    (∀ i ∈ [0, 1, 2, 2], (cum3.getD i []).getLastD 0 = 1) ∧
    pathIn perm3 0 [1, 2, 2] ∧
    inBox (pathBox cum3 perm3 0 [1, 2, 2]) [3/5, 4/5, 1/3] ∧
    chainFrom cum3 perm3 0 [3/5, 4/5, 1/3] = [1, 2, 2] ∧
    ¬ inBox (pathBox cum3 perm3 0 [1, 2, 2]) [3/5, 1/2, 1/3] ∧
    chainFrom cum3 perm3 0 [3/5, 1/2, 1/3] = [1, 0, 0] := by
  refine ⟨?_, ?_, ?_, ?_, ?_, ?_, ?_, ?_, ?_⟩
  · intro i hi; simp at hi; rcases hi with rfl | rfl | rfl <;> simp [cum3] <;> norm_num
  · intro i hi; simp at hi; rcases hi with rfl | rfl | rfl <;> simp [cum3, perm3]
  · intro i hi; simp at hi; rcases hi with rfl | rfl | rfl <;> simp [perm3]
  · intro i hi; simp at hi; rcases hi with rfl | rfl | rfl <;> simp [cum3]
  · simp [pathIn, perm3]
  · rw [pathBox3]; simp; norm_num
  · simp [chainFrom, step, cum3, perm3]; norm_num
  · rw [pathBox3]; simp; norm_num
  · simp [chainFrom, step, cum3, perm3]; norm_num

/-- `u < last breakpoint` is needed for ⇒: the draw `2` is mapped to state 1 by the `argmax` fallback of `step` but
does not lie in the interval `[1/2, 1)` of state 1 -/
example : chainFrom [[1/2, 1]] [[0, 1]] 0 [2] = [1] ∧ ¬ inBox (pathBox [[1/2, 1]] [[0, 1]] 0 [1]) [2] := by
  refine ⟨?_, ?_⟩
  · simp [chainFrom, step, argmax, argmax.go]; norm_num
  · simp [pathBox, posOf, intervalOf, List.idxOf, List.findIdx, List.findIdx.go]

/-- `0 ≤ u` is needed for ⇒: the draw `-1` is mapped to state 0 but does not lie in its interval `[0, 1/2)` -/
example : chainFrom [[1/2, 1]] [[0, 1]] 0 [-1] = [0] ∧ ¬ inBox (pathBox [[1/2, 1]] [[0, 1]] 0 [0]) [-1] := by
  refine ⟨?_, ?_⟩
  · simp [chainFrom, step]; norm_num
  · simp [pathBox, posOf, intervalOf, List.idxOf, List.findIdx, List.findIdx.go]

/-! ### 2. the volume of the box is the product of the transition probabilities -/

/-- For an exact model (`ExactModel`: square row-stochastic `T`, sorting permutations, `cummat[i] = cumRow T[i] perm[i]`),
a start `s < n` and a path with all states `< n`, the volume of the box of the path is the product of the transition
probabilities `T[s][p_0] · T[p_0][p_1] · …` along the path. -/
theorem box_volume (T cummat : List (List Rat)) (perm : List (List Nat)) (hm : ExactModel T cummat perm)
    (s : Nat) (hs : s < T.length) (path : List Nat) (hpath : ∀ j ∈ path, j < T.length) :
    volume (pathBox cummat perm s path) =
      (((s :: path).zip path).map (fun ab => (T.getD ab.1 []).getD ab.2 0)).prod :=
  volume_pathBox hm s hs path hpath

/-- The box volumes (path probabilities) are non-negative. -/
theorem box_volume_nonneg (T cummat : List (List Rat)) (perm : List (List Nat)) (hm : ExactModel T cummat perm)
    (s : Nat) (hs : s < T.length) (path : List Nat) (hpath : ∀ j ∈ path, j < T.length) :
    0 ≤ volume (pathBox cummat perm s path) := by
  rw [volume_pathBox hm s hs path hpath]
  exact pathProb_nonneg hm s path

/-- the path `0 → 1 → 2 → 2` of the concrete model has volume `1/2 · 1/4 · 2/3 = 1/12` -/
example : volume (pathBox cum3 perm3 0 [1, 2, 2]) = 1 / 12 := by
  rw [box_volume T3 cum3 perm3 exactModel3 0 (by decide) [1, 2, 2] (by decide)]
  simp [T3]; norm_num

/-- For an exact model the equivalence of `chain_box` holds for every start and path over the states `< n` and all draws
in `[0,1)`: the draw vectors realising `path` are exactly the points of a box of volume `Π T[s_k][s_{k+1}]`. -/
theorem chain_law (T cummat : List (List Rat)) (perm : List (List Nat)) (hm : ExactModel T cummat perm)
    (s : Nat) (hs : s < T.length) (path : List Nat) (hpath : ∀ j ∈ path, j < T.length)
    (us : List Rat) (hu : ∀ u ∈ us, 0 ≤ u ∧ u < 1) :
    (chainFrom cummat perm s us = path ↔ inBox (pathBox cummat perm s path) us) ∧
    volume (pathBox cummat perm s path) =
      (((s :: path).zip path).map (fun ab => (T.getD ab.1 []).getD ab.2 0)).prod := by
  have hall : ∀ i ∈ s :: path, i < T.length := by
    intro i hi
    rcases List.mem_cons.mp hi with rfl | hi
    · exact hs
    · exact hpath i hi
  refine ⟨?_, volume_pathBox hm s hs path hpath⟩
  exact chain_box cummat perm s path (fun i hi => (hm.cum (hall i hi)).2.1)
    (fun i hi => (hm.perm_length (hall i hi)).trans (hm.cum (hall i hi)).1.symm)
    (fun i hi => hm.nodup (hall i hi)) (fun i hi => (hm.cum (hall i hi)).2.2)
    (hm.pathIn s hs path hpath) us hu

/-! ### 3. different paths have disjoint boxes -/

/-- No draw vector lies in the boxes of two different paths from the same start (under the hypotheses of
`chain_of_inBox` for both paths; the paths need not even have the same length). -/
theorem boxes_disjoint (cummat : List (List Rat)) (perm : List (List Nat)) (s : Nat) (path path' : List Nat)
    (hmono : ∀ i ∈ s :: (path ++ path'), (cummat.getD i []).Pairwise (· ≤ ·))
    (hlen : ∀ i ∈ s :: (path ++ path'), (perm.getD i []).length = (cummat.getD i []).length)
    (hp : pathIn perm s path) (hp' : pathIn perm s path') (hne : path ≠ path') (us : List Rat) :
    ¬ (inBox (pathBox cummat perm s path) us ∧ inBox (pathBox cummat perm s path') us) := by
  rintro ⟨h1, h2⟩
  have e1 := chainFrom_of_inBox cummat perm s path
    (fun i hi => hmono i (by simp only [List.mem_cons, List.mem_append] at hi ⊢; tauto))
    (fun i hi => hlen i (by simp only [List.mem_cons, List.mem_append] at hi ⊢; tauto)) hp us h1
  have e2 := chainFrom_of_inBox cummat perm s path'
    (fun i hi => hmono i (by simp only [List.mem_cons, List.mem_append] at hi ⊢; tauto))
    (fun i hi => hlen i (by simp only [List.mem_cons, List.mem_append] at hi ⊢; tauto)) hp' us h2
  exact hne (e1.symm.trans e2)

/-- For an exact model: two different paths over the states `< n` from the same start have disjoint boxes. -/
theorem boxes_disjoint_model (T cummat : List (List Rat)) (perm : List (List Nat)) (hm : ExactModel T cummat perm)
    (s : Nat) (hs : s < T.length) (path path' : List Nat)
    (hpath : ∀ j ∈ path, j < T.length) (hpath' : ∀ j ∈ path', j < T.length) (hne : path ≠ path') (us : List Rat) :
    ¬ (inBox (pathBox cummat perm s path) us ∧ inBox (pathBox cummat perm s path') us) := by
  have hall : ∀ i ∈ s :: (path ++ path'), i < T.length := by
    intro i hi
    simp only [List.mem_cons, List.mem_append] at hi
    rcases hi with rfl | hi | hi
    · exact hs
    · exact hpath i hi
    · exact hpath' i hi
  exact boxes_disjoint cummat perm s path path' (fun i hi => (hm.cum (hall i hi)).2.1)
    (fun i hi => (hm.perm_length (hall i hi)).trans (hm.cum (hall i hi)).1.symm)
    (hm.pathIn s hs path hpath) (hm.pathIn s hs path' hpath') hne us

/-- the boxes of `0 → 1 → 2 → 2` and `0 → 1 → 1 → 1` in the concrete model: the first holds `(3/5, 4/5, 1/3)`, the
second does not -/
example : inBox (pathBox cum3 perm3 0 [1, 2, 2]) [3/5, 4/5, 1/3] ∧
    ¬ inBox (pathBox cum3 perm3 0 [1, 1, 1]) [3/5, 4/5, 1/3] := by
  refine ⟨by rw [pathBox3]; simp; norm_num, ?_⟩
  intro h
  exact boxes_disjoint_model T3 cum3 perm3 exactModel3 0 (by decide) [1, 2, 2] [1, 1, 1] (by decide) (by decide)
    (by decide) _ ⟨by rw [pathBox3]; simp; norm_num, h⟩

/-! ### 4. every draw vector of `[0,1)^m` lies in the box of the path it realises -/

/-- For an exact model, a start `s < n` and draws in `[0,1)`: the realised path has one state per draw, all states
`< n`, every transition `a → b` it uses has `T[a][b] > 0`, and the draw vector lies in the box of the realised path.
Together with `boxes_disjoint_model`: the boxes of the positive-probability paths of length `m` partition `[0,1)^m`. -/
theorem boxes_cover (T cummat : List (List Rat)) (perm : List (List Nat)) (hm : ExactModel T cummat perm)
    (s : Nat) (hs : s < T.length) (us : List Rat) (hu : ∀ u ∈ us, 0 ≤ u ∧ u < 1) :
    (chainFrom cummat perm s us).length = us.length ∧
    (∀ x ∈ chainFrom cummat perm s us, x < T.length) ∧
    (∀ ab ∈ (s :: chainFrom cummat perm s us).zip (chainFrom cummat perm s us),
      0 < (T.getD ab.1 []).getD ab.2 0) ∧
    0 < volume (pathBox cummat perm s (chainFrom cummat perm s us)) ∧
    inBox (pathBox cummat perm s (chainFrom cummat perm s us)) us := by
  have hlt := chainFrom_lt_of_model hm s hs us
  have hpos := chainFrom_pos hm s hs us hu
  refine ⟨length_chainFrom _ _ _ _, hlt, hpos, ?_, ?_⟩
  · rw [volume_pathBox hm s hs _ hlt]
    unfold pathProb
    apply prod_pos_of_forall
    intro x hx
    obtain ⟨ab, hab, rfl⟩ := List.mem_map.mp hx
    exact hpos ab hab
  · exact ((chain_law T cummat perm hm s hs _ hlt us hu).1).mp rfl

example : (∀ u ∈ ([3/5, 4/5, 1/3] : List Rat), 0 ≤ u ∧ u < 1) := by
  intro u hu; simp at hu; rcases hu with rfl | rfl | rfl <;> norm_num

/-- The boxes of the paths partition `[0,1)^m`: for an exact model, a start `s < n` and draws in `[0,1)` there is exactly
one path over the states `< n` whose box holds the draw vector (namely the realised path). -/
theorem boxes_partition (T cummat : List (List Rat)) (perm : List (List Nat)) (hm : ExactModel T cummat perm)
    (s : Nat) (hs : s < T.length) (us : List Rat) (hu : ∀ u ∈ us, 0 ≤ u ∧ u < 1) :
    ∃! path : List Nat, (∀ j ∈ path, j < T.length) ∧ inBox (pathBox cummat perm s path) us := by
  obtain ⟨_, hlt, _, _, hin⟩ := boxes_cover T cummat perm hm s hs us hu
  refine ⟨chainFrom cummat perm s us, ⟨hlt, hin⟩, ?_⟩
  rintro path ⟨hpath, hb⟩
  exact (((chain_law T cummat perm hm s hs path hpath us hu).1).mpr hb).symm

/-! ### 5. the path probabilities form a distribution -/

/-- For an exact model, every start `s < n` and every length `m`: the volumes of the boxes of all `n^m` paths of length
`m` add up to 1. -/
theorem volume_sum_one (T cummat : List (List Rat)) (perm : List (List Nat)) (hm : ExactModel T cummat perm)
    (s : Nat) (hs : s < T.length) (m : Nat) :
    ((allPaths T.length m).map (fun p => volume (pathBox cummat perm s p))).sum = 1 := by
  rw [← sum_pathProb hm m s hs]
  congr 1
  apply List.map_congr_left
  intro p hp
  exact volume_pathBox hm s hs p ((mem_allPaths _ _ p).mp hp).2

example : ((allPaths T3.length 2).map (fun p => volume (pathBox cum3 perm3 1 p))).sum = 1 :=
  volume_sum_one T3 cum3 perm3 exactModel3 1 (by decide) 2

/-! ### 6. the event histograms depend on the draws only through the realised path (C08) -/

/-- If the first `steps` draws lie in the box of `path`, the realised states of the event loops are `path`. -/
theorem realised_of_inBox (cummat : List (List Rat)) (perm : List (List Nat)) (s : Nat) (path : List Nat)
    (hmono : ∀ i ∈ s :: path, (cummat.getD i []).Pairwise (· ≤ ·))
    (hlen : ∀ i ∈ s :: path, (perm.getD i []).length = (cummat.getD i []).length)
    (hp : pathIn perm s path) (steps : Nat) (us : List Rat)
    (hb : inBox (pathBox cummat perm s path) (us.take steps)) :
    realised cummat perm s steps us = path :=
  chainFrom_of_inBox cummat perm s path hmono hlen hp _ hb

/-- The waiting-time and transition-time histograms (`msmWtLoop`, `msmTtLoop` applied to the realised chain, as in the
driver) are functions of the realised path: any two draw vectors whose first `steps` draws lie in the box of the same
`path` give the histogram of `path`, hence the same histogram.  So the probability of any event that is read off the
histogram (e.g. "a first passage of duration `d` is recorded") is the sum of the box volumes of the paths showing it.
(`S` and `F` need not be disjoint for this.) -/
theorem first_passage_box (cummat : List (List Rat)) (perm : List (List Nat)) (s : Nat) (path : List Nat)
    (hmono : ∀ i ∈ s :: path, (cummat.getD i []).Pairwise (· ≤ ·))
    (hlen : ∀ i ∈ s :: path, (perm.getD i []).length = (cummat.getD i []).length)
    (hp : pathIn perm s path) (S F : List Int) (steps : Nat) (us us' : List Rat)
    (hb : inBox (pathBox cummat perm s path) (us.take steps))
    (hb' : inBox (pathBox cummat perm s path) (us'.take steps)) :
    msmWtLoop S F ((realised cummat perm s steps us).map (fun (i : Nat) => (i : Int)))
        = msmWtLoop S F (path.map (fun (i : Nat) => (i : Int))) ∧
    msmTtLoop S F ((realised cummat perm s steps us).map (fun (i : Nat) => (i : Int)))
        = msmTtLoop S F (path.map (fun (i : Nat) => (i : Int))) ∧
    msmWtLoop S F ((realised cummat perm s steps us).map (fun (i : Nat) => (i : Int)))
        = msmWtLoop S F ((realised cummat perm s steps us').map (fun (i : Nat) => (i : Int))) ∧
    msmTtLoop S F ((realised cummat perm s steps us).map (fun (i : Nat) => (i : Int)))
        = msmTtLoop S F ((realised cummat perm s steps us').map (fun (i : Nat) => (i : Int))) := by
  rw [realised_of_inBox cummat perm s path hmono hlen hp steps us hb,
    realised_of_inBox cummat perm s path hmono hlen hp steps us' hb']
  exact ⟨rfl, rfl, rfl, rfl⟩

/-- two different draw vectors in the box of `0 → 1 → 2 → 2` (the extra fourth draw is not consumed) -/
example : inBox (pathBox cum3 perm3 0 [1, 2, 2]) (([3/5, 4/5, 1/3, 9/10] : List Rat).take 3) ∧
    inBox (pathBox cum3 perm3 0 [1, 2, 2]) (([9/10, 7/8, 0, 0] : List Rat).take 3) := by
  rw [pathBox3]; simp; norm_num

end MsmVerif.C07Law
