/-
Refine/CkEnd.lean — task RP30 (property C09): the public `chapman_kolmogorov_test(trajs, lagtimes, tmax)` of `src/msmhelper/msm/tests.py` on a
PLAIN `StateTraj` object END TO END — the composition of

* the public function and its two inner functions (`Refine/CkApi.lean`, `Refine/CkTest.lean`, tasks RP22 / RP19), relative to the estimator
  oracles `est` (`trajs.estimate_markov_model`) and `estp` (the plain estimator used for the reference curve) and the grid oracle `geo`;
* the translated constructor `StateTraj.__init__` + method `StateTraj.estimate_markov_model` (`Refine/Public.lean`, task RP20), which is the
  public model `Msm.estimate`: plugged into BOTH estimator oracles (`plainEst ts flag`; for a plain trajectory object both are the same method).

The grid oracle `geo` (rounded `np.geomspace`) stays an oracle.  `estT ts lag` is the transition matrix `T` of `Msm.estimate ts lag`
(`estimate_estT`), i.e. the lagged-count matrix `Msm.specT ts lag` of property C01 (`estT_eq_specT`).

Results:
* `ck_plain_end_to_end` (value, in terms of `estT`; `ck_plain_end_to_end_int` for an integer `tmax ≥ 0`), `ck_plain_end_to_end_spec` (the same in terms of `Msm.specT`), `ck_plain_object_end_to_end`
  (constructor run ONCE, `nstates` / `states` read from the object), `ck_plain_of_estimate` (with the matrices given by hypotheses
  `Msm.estimate ts τ = .ok (_, T τ, _)`);
* `ck_plain_bounds` (with `Props/C09.lean`: keys, number of points, values in `[0, 1]`), `ck_plain_refGridOk` (reference grid predicate);
* errors: `plainEst_total` (the plugged estimator raises nothing for a lag time `≥ 1`, so NO estimation error can occur), `ck_plain_long_lag`
  (a lag time not shorter than any trajectory: no error, the all-zero matrix, all-zero curves), `ck_plain_geo_error` (the grid oracle's error is
  passed on), `ck_plain_rejections` (`TypeError` / `IndexError` on bad arguments);
* `ck_plain_all_empty`: on all-empty data (`n = 0`) the flags differ from the model's — hence the hypothesis `ts.flatten ≠ []`.

Helper lemmas and the definitions `plainEst`, `estT`, `AllZero`: `Refine/CkEndLemmas.lean` (same namespace).
-/
import MsmVerif.Refine.CkEndLemmas

namespace MsmVerif.Refine.CkEnd
open MsmVerif MsmVerif.Gen MsmVerif.Linalg MsmVerif.Timescales

/-! ### 1. the value -/

/-- **The public CK test on plain trajectories, end to end.**  `ts` any list of label trajectories (ragged, empty ones allowed) with labels in
    `[-2^29, 2^29]` and at least one frame; `trajs.states = states ts` (ascending distinct labels), `trajs.nstates` their number; both estimator
    oracles are the translated constructor + `StateTraj.estimate_markov_model` (`plainEst ts flag`, either value of the `DISABLE_JIT` flag); lag
    times all `≥ 1` in any order, repetitions allowed, smallest one `m`; `tmax` a natural number; the grid oracle, called with `(m, tmax, 30)`,
    returned `g`, all of whose times are `≥ 1`.  Then the translated public function raises nothing and returns
    * one entry per DISTINCT lag time `τ`, in ASCENDING order (`sortDedup lags`), holding: for every state (keyed by the ascending labels) the curve
      `ckCurves T_τ τ tmax` = `((T_τ)^k)_{ss}`, `k = 1 … tmax / τ`; the times `ckTimes τ tmax = [τ, 2τ, …] ≤ tmax`; and the model's predicates
      `isErgodic T_τ`, `isFuzzyErgodic T_τ` — where `T_τ = estT ts τ` is the transition matrix of `Msm.estimate ts τ`;
    * the reference entry: times `sortDedup g` (ascending distinct grid values); for state `s` the values `(T_t)_{ss}`, `T_t` the transition
      matrix of `Msm.estimate ts t`, over these times `t` (NO matrix power); and the two predicates of `T_t` over these times. -/
theorem ck_plain_end_to_end (geo : Int → Int → Int → Py (List Int)) (ts : Trajs) (hguard : LabelGuard ts) (hne : ts.flatten ≠ [])
    (flag : Bool) (lags : List Int) (tmax : Nat) (m : Int) (g : List Int)
    (hpos : ∀ l ∈ lags, 1 ≤ l) (hm : m ∈ lags) (hmin : ∀ l ∈ lags, m ≤ l)
    (hgeo : geo m (tmax : Int) 30 = .ok g) (hg : ∀ t ∈ g, 1 ≤ t) :
    Gen.MsmCkApi.chapman_kolmogorov_test (plainEst ts flag) (plainEst ts flag) geo ((states ts).length : Int) (states ts) lags (tmax : Int)
      = .ok ((sortDedup lags).map (fun τ =>
                (τ, ((states ts).zip (ckCurves (estT ts τ.toNat) τ.toNat tmax), (ckTimes τ.toNat tmax).map Int.ofNat,
                      Linalg.isErgodic (estT ts τ.toNat), Linalg.isFuzzyErgodic (estT ts τ.toNat)))),
             ((states ts).zip ((List.range (states ts).length).map (fun s =>
                (sortDedup g).map (fun t => Linalg.entry (estT ts t.toNat) s s))),
              sortDedup g,
              (sortDedup g).map (fun t => Linalg.isErgodic (estT ts t.toNat)),
              (sortDedup g).map (fun t => Linalg.isFuzzyErgodic (estT ts t.toNat)))) :=
  CkApi.ck_api_refines_model (plainEst ts flag) (plainEst ts flag) geo (states ts).length (states ts) lags tmax m
    (fun τ => estT ts τ.toNat) g (fun t => estT ts t.toNat) hpos hm hmin
    (fun τ hτ => ⟨states ts, plainEst_ok_int hguard τ (hpos τ hτ) flag⟩)
    (fun τ _ => estT_shape hguard hne τ.toNat) rfl hgeo
    (fun t ht => ⟨states ts, plainEst_ok_int hguard t (hg t ht) flag⟩)
    (fun t _ => estT_shape hguard hne t.toNat)

/-- **The same with an integer `tmax ≥ 0`** (as the function receives it): `tmax.toNat` in the model expressions. -/
theorem ck_plain_end_to_end_int (geo : Int → Int → Int → Py (List Int)) (ts : Trajs) (hguard : LabelGuard ts) (hne : ts.flatten ≠ [])
    (flag : Bool) (lags : List Int) (tmax m : Int) (g : List Int)
    (hpos : ∀ l ∈ lags, 1 ≤ l) (htmax : 0 ≤ tmax) (hm : m ∈ lags) (hmin : ∀ l ∈ lags, m ≤ l)
    (hgeo : geo m tmax 30 = .ok g) (hg : ∀ t ∈ g, 1 ≤ t) :
    Gen.MsmCkApi.chapman_kolmogorov_test (plainEst ts flag) (plainEst ts flag) geo ((states ts).length : Int) (states ts) lags tmax
      = .ok ((sortDedup lags).map (fun τ =>
                (τ, ((states ts).zip (ckCurves (estT ts τ.toNat) τ.toNat tmax.toNat), (ckTimes τ.toNat tmax.toNat).map Int.ofNat,
                      Linalg.isErgodic (estT ts τ.toNat), Linalg.isFuzzyErgodic (estT ts τ.toNat)))),
             ((states ts).zip ((List.range (states ts).length).map (fun s =>
                (sortDedup g).map (fun t => Linalg.entry (estT ts t.toNat) s s))),
              sortDedup g,
              (sortDedup g).map (fun t => Linalg.isErgodic (estT ts t.toNat)),
              (sortDedup g).map (fun t => Linalg.isFuzzyErgodic (estT ts t.toNat)))) := by
  have hcast : ((tmax.toNat : Nat) : Int) = tmax := by omega
  have h := ck_plain_end_to_end geo ts hguard hne flag lags tmax.toNat m g hpos hm hmin (by rw [hcast]; exact hgeo) hg
  rwa [hcast] at h

/-- **What `estT` is.**  On guarded data the public model `Msm.estimate ts lag` raises nothing (for ANY lag time — also one longer than every
    trajectory) and returns the count matrix, `estT ts lag` and the ascending state list; for a lag time `≥ 1`, `estT ts lag` is the matrix of
    property C01: entry `(a, b)`, `a, b` over the ascending labels, is the number of frame pairs `(t, t + lag)` inside one trajectory going
    `a → b` divided by the number of such pairs leaving `a` (0 if there is none). -/
theorem estT_spec (ts : Trajs) (hguard : LabelGuard ts) (lag : Nat) :
    (∃ c, Msm.estimate ts lag = .ok (c, estT ts lag, states ts)) ∧ (1 ≤ lag → estT ts lag = Msm.specT ts lag) :=
  ⟨⟨_, estimate_estT hguard lag⟩, estT_eq_specT hguard lag⟩

/-- **The same, with the matrices given by hypotheses on `Msm.estimate`.**  If `Msm.estimate ts τ = .ok (_, T τ, _)` for every listed lag time
    and `Msm.estimate ts t = .ok (_, Tm t, _)` for every grid time, the result of `ck_plain_end_to_end` is built from these `T τ`, `Tm t`. -/
theorem ck_plain_of_estimate (geo : Int → Int → Int → Py (List Int)) (ts : Trajs) (hguard : LabelGuard ts) (hne : ts.flatten ≠ [])
    (flag : Bool) (lags : List Int) (tmax : Nat) (m : Int) (g : List Int) (T Tm : Int → Mat)
    (hpos : ∀ l ∈ lags, 1 ≤ l) (hm : m ∈ lags) (hmin : ∀ l ∈ lags, m ≤ l)
    (hgeo : geo m (tmax : Int) 30 = .ok g) (hg : ∀ t ∈ g, 1 ≤ t)
    (hT : ∀ τ ∈ lags, ∃ c ss, Msm.estimate ts τ.toNat = .ok (c, T τ, ss))
    (hTm : ∀ t ∈ g, ∃ c ss, Msm.estimate ts t.toNat = .ok (c, Tm t, ss)) :
    Gen.MsmCkApi.chapman_kolmogorov_test (plainEst ts flag) (plainEst ts flag) geo ((states ts).length : Int) (states ts) lags (tmax : Int)
      = .ok ((sortDedup lags).map (fun τ =>
                (τ, ((states ts).zip (ckCurves (T τ) τ.toNat tmax), (ckTimes τ.toNat tmax).map Int.ofNat,
                      Linalg.isErgodic (T τ), Linalg.isFuzzyErgodic (T τ)))),
             ((states ts).zip ((List.range (states ts).length).map (fun s => (sortDedup g).map (fun t => Linalg.entry (Tm t) s s))),
              sortDedup g,
              (sortDedup g).map (fun t => Linalg.isErgodic (Tm t)),
              (sortDedup g).map (fun t => Linalg.isFuzzyErgodic (Tm t)))) := by
  rw [ck_plain_end_to_end geo ts hguard hne flag lags tmax m g hpos hm hmin hgeo hg]
  have h1 : ∀ τ ∈ sortDedup lags, estT ts τ.toNat = T τ := by
    intro τ hτ
    obtain ⟨c, ss, h⟩ := hT τ (mem_sortDedup.mp hτ)
    exact estT_of_estimate h
  have h2 : ∀ t ∈ sortDedup g, estT ts t.toNat = Tm t := by
    intro t ht
    obtain ⟨c, ss, h⟩ := hTm t (mem_sortDedup.mp ht)
    exact estT_of_estimate h
  congr 2
  · apply List.map_congr_left
    intro τ hτ
    rw [h1 τ hτ]
  · congr 1
    · congr 1
      apply List.map_congr_left
      intro s _
      apply List.map_congr_left
      intro t ht
      rw [h2 t ht]
    · congr 1
      congr 1
      · apply List.map_congr_left
        intro t ht
        rw [h2 t ht]
      · apply List.map_congr_left
        intro t ht
        rw [h2 t ht]

/-- **The same, against the lagged-count spec of C01.**  Under the hypotheses of `ck_plain_end_to_end` the result is built from the spec matrices
    `Msm.specT ts τ` (row-normalised lagged transition counts inside single trajectories over the ascending labels). -/
theorem ck_plain_end_to_end_spec (geo : Int → Int → Int → Py (List Int)) (ts : Trajs) (hguard : LabelGuard ts) (hne : ts.flatten ≠ [])
    (flag : Bool) (lags : List Int) (tmax : Nat) (m : Int) (g : List Int)
    (hpos : ∀ l ∈ lags, 1 ≤ l) (hm : m ∈ lags) (hmin : ∀ l ∈ lags, m ≤ l)
    (hgeo : geo m (tmax : Int) 30 = .ok g) (hg : ∀ t ∈ g, 1 ≤ t) :
    Gen.MsmCkApi.chapman_kolmogorov_test (plainEst ts flag) (plainEst ts flag) geo ((states ts).length : Int) (states ts) lags (tmax : Int)
      = .ok ((sortDedup lags).map (fun τ =>
                (τ, ((states ts).zip (ckCurves (Msm.specT ts τ.toNat) τ.toNat tmax), (ckTimes τ.toNat tmax).map Int.ofNat,
                      Linalg.isErgodic (Msm.specT ts τ.toNat), Linalg.isFuzzyErgodic (Msm.specT ts τ.toNat)))),
             ((states ts).zip ((List.range (states ts).length).map (fun s =>
                (sortDedup g).map (fun t => Linalg.entry (Msm.specT ts t.toNat) s s))),
              sortDedup g,
              (sortDedup g).map (fun t => Linalg.isErgodic (Msm.specT ts t.toNat)),
              (sortDedup g).map (fun t => Linalg.isFuzzyErgodic (Msm.specT ts t.toNat)))) :=
  ck_plain_of_estimate geo ts hguard hne flag lags tmax m g (fun τ => Msm.specT ts τ.toNat) (fun t => Msm.specT ts t.toNat)
    hpos hm hmin hgeo hg
    (fun τ hτ => ⟨_, _, by rw [← estT_eq_specT hguard τ.toNat (by have := hpos τ hτ; omega)]; exact estimate_estT hguard τ.toNat⟩)
    (fun t ht => ⟨_, _, by rw [← estT_eq_specT hguard t.toNat (by have := hg t ht; omega)]; exact estimate_estT hguard t.toNat⟩)

/-- **Object form: the constructor runs ONCE.**  Run the translated constructor on `ts`; with the object state `(i, s)` it left, call the
    translated public function with `trajs.estimate_markov_model = ` the translated method on `(i, s)` (both estimator oracles),
    `trajs.nstates = len(s)`, `trajs.states = s`.  Under the hypotheses of `ck_plain_end_to_end` this is the same result. -/
theorem ck_plain_object_end_to_end (geo : Int → Int → Int → Py (List Int)) (ts : Trajs) (hguard : LabelGuard ts) (hne : ts.flatten ≠ [])
    (flag : Bool) (lags : List Int) (tmax : Nat) (m : Int) (g : List Int)
    (hpos : ∀ l ∈ lags, 1 ≤ l) (hm : m ∈ lags) (hmin : ∀ l ∈ lags, m ≤ l)
    (hgeo : geo m (tmax : Int) 30 = .ok g) (hg : ∀ t ∈ g, 1 ≤ t) :
    (do let (i, s) ← Gen.StateTrajInit.init ts
        Gen.MsmCkApi.chapman_kolmogorov_test (fun lag => Gen.StateTrajEst.estimate_markov_model i s lag flag)
          (fun lag => Gen.StateTrajEst.estimate_markov_model i s lag flag) geo (pyLen s) s lags (tmax : Int))
      = .ok ((sortDedup lags).map (fun τ =>
                (τ, ((states ts).zip (ckCurves (estT ts τ.toNat) τ.toNat tmax), (ckTimes τ.toNat tmax).map Int.ofNat,
                      Linalg.isErgodic (estT ts τ.toNat), Linalg.isFuzzyErgodic (estT ts τ.toNat)))),
             ((states ts).zip ((List.range (states ts).length).map (fun s =>
                (sortDedup g).map (fun t => Linalg.entry (estT ts t.toNat) s s))),
              sortDedup g,
              (sortDedup g).map (fun t => Linalg.isErgodic (estT ts t.toNat)),
              (sortDedup g).map (fun t => Linalg.isFuzzyErgodic (estT ts t.toNat)))) := by
  rw [Init.init_eq_rank ts hguard]
  have h := ck_plain_end_to_end geo ts hguard hne flag lags tmax m g hpos hm hmin hgeo hg
  rw [plainEst_eq_method hguard flag] at h
  exact h

/-! ### 2. corollaries with `Props/C09.lean` -/

/-- **Keys, number of points, values in `[0, 1]`.**  Under the hypotheses of `ck_plain_end_to_end` the function returns a result
    `(entries, (ck, times, erg, fuz))` such that
    * the lag keys are `sortDedup lags`: strictly ascending, exactly the members of `lags`, each once;
    * in the entry of lag time `τ`: the curve keys are the ascending state labels; the times are `ckTimes τ tmax` — `tmax / τ` of them; every
      curve has `tmax / τ` points; EVERY CURVE VALUE LIES IN `[0, 1]`;
    * in the reference entry: the curve keys are the state labels, the times are `sortDedup g`, every curve has one value per time, every value
      lies in `[0, 1]`, and there is one flag of each kind per time. -/
theorem ck_plain_bounds (geo : Int → Int → Int → Py (List Int)) (ts : Trajs) (hguard : LabelGuard ts) (hne : ts.flatten ≠ [])
    (flag : Bool) (lags : List Int) (tmax : Nat) (m : Int) (g : List Int)
    (hpos : ∀ l ∈ lags, 1 ≤ l) (hm : m ∈ lags) (hmin : ∀ l ∈ lags, m ≤ l)
    (hgeo : geo m (tmax : Int) 30 = .ok g) (hg : ∀ t ∈ g, 1 ≤ t) :
    ∃ entries ck times erg fuz,
      Gen.MsmCkApi.chapman_kolmogorov_test (plainEst ts flag) (plainEst ts flag) geo ((states ts).length : Int) (states ts) lags (tmax : Int)
        = .ok (entries, ck, times, erg, fuz) ∧
      entries.map Prod.fst = sortDedup lags ∧ (entries.map Prod.fst).Pairwise (· < ·) ∧ (∀ τ, τ ∈ entries.map Prod.fst ↔ τ ∈ lags) ∧
      (∀ e ∈ entries, e.2.1.map Prod.fst = states ts ∧ e.2.2.1 = (ckTimes e.1.toNat tmax).map Int.ofNat ∧
        e.2.2.1.length = tmax / e.1.toNat ∧ ∀ p ∈ e.2.1, p.2.length = tmax / e.1.toNat ∧ ∀ v ∈ p.2, 0 ≤ v ∧ v ≤ 1) ∧
      ck.map Prod.fst = states ts ∧ times = sortDedup g ∧
      (∀ p ∈ ck, p.2.length = times.length ∧ ∀ v ∈ p.2, 0 ≤ v ∧ v ≤ 1) ∧ erg.length = times.length ∧ fuz.length = times.length := by
  refine ⟨_, _, _, _, _, ck_plain_end_to_end geo ts hguard hne flag lags tmax m g hpos hm hmin hgeo hg, ?_, ?_, ?_, ?_, ?_, rfl, ?_, ?_, ?_⟩
  · rw [List.map_map]; exact List.map_id _
  · rw [List.map_map]
    have : (Prod.fst ∘ fun τ : Int => (τ, ((states ts).zip (ckCurves (estT ts τ.toNat) τ.toNat tmax), (ckTimes τ.toNat tmax).map Int.ofNat,
        Linalg.isErgodic (estT ts τ.toNat), Linalg.isFuzzyErgodic (estT ts τ.toNat)))) = id := rfl
    rw [this, List.map_id]
    exact sortDedup_pairwise lags
  · intro τ
    rw [List.map_map]
    have : (Prod.fst ∘ fun τ : Int => (τ, ((states ts).zip (ckCurves (estT ts τ.toNat) τ.toNat tmax), (ckTimes τ.toNat tmax).map Int.ofNat,
        Linalg.isErgodic (estT ts τ.toNat), Linalg.isFuzzyErgodic (estT ts τ.toNat)))) = id := rfl
    rw [this, List.map_id]
    exact mem_sortDedup
  · intro e he
    obtain ⟨τ, hτ, rfl⟩ := List.mem_map.mp he
    have hτ1 : 1 ≤ τ := hpos τ (mem_sortDedup.mp hτ)
    have hsub := estT_subStoch hguard τ.toNat (by omega)
    have hunit := ckCurves_unit hsub τ.toNat tmax
    refine ⟨List.map_fst_zip (by rw [Misc.ckCurves_length, hsub.1]), rfl, ?_, ?_⟩
    · show ((ckTimes τ.toNat tmax).map Int.ofNat).length = _
      rw [List.length_map, Misc.ckTimes_length]
    · intro p hp
      exact hunit p.2 (List.of_mem_zip hp).2
  · exact List.map_fst_zip (by simp)
  · intro p hp
    have := (List.of_mem_zip hp).2
    obtain ⟨s, -, hs⟩ := List.mem_map.mp this
    rw [← hs]
    refine ⟨by rw [List.length_map], ?_⟩
    intro v hv
    obtain ⟨t, ht, rfl⟩ := List.mem_map.mp hv
    have ht1 : 1 ≤ t := hg t (mem_sortDedup.mp ht)
    exact entry_unit (estT_subStoch hguard t.toNat (by omega)) s s
  · rw [List.length_map]
  · rw [List.length_map]

/-- **The reference grid.**  Under the hypotheses of `ck_plain_end_to_end`, if the oracle grid `g` starts with the smallest lag time `m` and all
    its values lie in `[m, tmax]` (as the rounded `np.geomspace(m, tmax, 30)` does; the hypothesis `1 ≤ t` on the grid then follows), the
    function returns a result whose keys are the distinct lag times in ascending order and whose reference times are natural numbers satisfying
    the model's predicate `refGridOk … m tmax`: they start with the SMALLEST lag time, never exceed `tmax`, strictly increase. -/
theorem ck_plain_refGridOk (geo : Int → Int → Int → Py (List Int)) (ts : Trajs) (hguard : LabelGuard ts) (hne : ts.flatten ≠ [])
    (flag : Bool) (lags : List Int) (tmax : Nat) (m : Int) (g : List Int)
    (hpos : ∀ l ∈ lags, 1 ≤ l) (hm : m ∈ lags) (hmin : ∀ l ∈ lags, m ≤ l)
    (hgeo : geo m (tmax : Int) 30 = .ok g) (hhead : g.head? = some m) (hr : ∀ t ∈ g, m ≤ t ∧ t ≤ (tmax : Int)) :
    ∃ entries ck times erg fuz,
      Gen.MsmCkApi.chapman_kolmogorov_test (plainEst ts flag) (plainEst ts flag) geo ((states ts).length : Int) (states ts) lags (tmax : Int)
        = .ok (entries, ck, times, erg, fuz)
      ∧ entries.map Prod.fst = sortDedup lags
      ∧ refGridOk (times.map Int.toNat) m.toNat tmax = true
      ∧ (times.map Int.toNat).map Int.ofNat = times
      ∧ ck.length = (states ts).length ∧ (∀ p ∈ ck, p.2.length = times.length) ∧ erg.length = times.length
      ∧ fuz.length = times.length := by
  have hm1 := hpos m hm
  have hg : ∀ t ∈ g, 1 ≤ t := fun t ht => by have := (hr t ht).1; omega
  exact CkApi.ck_api_model_refGridOk (plainEst ts flag) (plainEst ts flag) geo (states ts).length (states ts) lags tmax m
    (fun τ => estT ts τ.toNat) g (fun t => estT ts t.toNat) hpos hm hmin
    (fun τ hτ => ⟨states ts, plainEst_ok_int hguard τ (hpos τ hτ) flag⟩)
    (fun τ _ => estT_shape hguard hne τ.toNat) rfl hgeo
    (fun t ht => ⟨states ts, plainEst_ok_int hguard t (hg t ht) flag⟩)
    (fun t _ => estT_shape hguard hne t.toNat) hhead hr

/-! ### 3. errors -/

/-- **The plugged estimator raises nothing.**  On guarded data (all-empty data included) and for every lag time `≥ 1` — also one not shorter than
    every trajectory — the translated constructor + `estimate_markov_model` returns `(estT ts lag, states ts)`: `StateTraj.estimate_markov_model`
    has no `LagtimeError`, and `Msm.estimate` reports such a lag time as the all-zero matrix (`ck_plain_long_lag`), not as an error.  Hence the
    generic "first estimation error is passed on" (`CkApi.ck_api_first_error`, `CkTest.ck_test_estimator_error`, valid for EVERY oracle) has no
    instance for plain trajectories: the only errors left are those of `ck_plain_rejections` and `ck_plain_geo_error`. -/
theorem plainEst_total (ts : Trajs) (hguard : LabelGuard ts) (flag : Bool) (t : Int) (ht : 1 ≤ t) :
    plainEst ts flag t = .ok (estT ts t.toNat, states ts) ∧ ∃ c, Msm.estimate ts t.toNat = .ok (c, estT ts t.toNat, states ts) :=
  ⟨plainEst_ok_int hguard t ht flag, _, estimate_estT hguard t.toNat⟩

/-- **A lag time not shorter than any trajectory.**  If no trajectory has more than `τ` frames (`τ ≥ 1`), the estimator still raises nothing; the
    estimated matrix is ALL-ZERO (no transition is counted, rows with sum 0 are divided by 1), and so are all curves of the entry of `τ`:
    `((T_τ)^k)_{ss} = 0` for every state and every `k ≥ 1`. -/
theorem ck_plain_long_lag (ts : Trajs) (hguard : LabelGuard ts) (flag : Bool) (τ : Int) (hτ : 1 ≤ τ) (tmax : Nat)
    (hlong : ∀ t ∈ ts, t.length ≤ τ.toNat) :
    plainEst ts flag τ = .ok (estT ts τ.toNat, states ts) ∧ AllZero (estT ts τ.toNat) ∧
      AllZero (ckCurves (estT ts τ.toNat) τ.toNat tmax) :=
  ⟨plainEst_ok_int hguard τ hτ flag, estT_zero_of_long_lag hguard τ.toNat hlong,
    ckCurves_allZero _ (estT_zero_of_long_lag hguard τ.toNat hlong) _ _⟩

/-- **The grid oracle's error is passed on.**  Hypotheses of `ck_plain_end_to_end` on the data and the lag times; if the grid oracle, called with
    `(m, tmax, 30)`, raises `e`, so does the public function (all entries of the lag times were computed before, none fails). -/
theorem ck_plain_geo_error (geo : Int → Int → Int → Py (List Int)) (ts : Trajs) (hguard : LabelGuard ts) (hne : ts.flatten ≠ [])
    (flag : Bool) (lags : List Int) (tmax : Nat) (m : Int) (e : Err)
    (hpos : ∀ l ∈ lags, 1 ≤ l) (hm : m ∈ lags) (hmin : ∀ l ∈ lags, m ≤ l)
    (hgeo : geo m (tmax : Int) 30 = .error e) :
    Gen.MsmCkApi.chapman_kolmogorov_test (plainEst ts flag) (plainEst ts flag) geo ((states ts).length : Int) (states ts) lags (tmax : Int)
      = .error e := by
  refine CkApi.ck_api_md_error _ _ geo _ _ lags _ m hpos (by omega) hm hmin e ?_
    (CkTest.ck_test_md_grid_error _ geo _ _ m _ 30 e hgeo)
  intro τ hτ
  have hτ1 := hpos τ hτ
  have hcast : ((τ.toNat : Nat) : Int) = τ := by omega
  obtain ⟨h1, h2, h3⟩ := estT_shape hguard hne τ.toNat
  have := CkTest.ck_test_refines (plainEst ts flag) (estT ts τ.toNat) (states ts) (states ts).length (states ts) τ.toNat tmax (by omega)
    (by rw [hcast]; exact plainEst_ok_int hguard τ hτ1 flag) h1 h2 h3 rfl
  rw [hcast] at this
  exact ⟨_, this⟩

/-- **Rejected arguments** (instances of the oracle-independent theorems of `Refine/CkApi.lean`): a lag time `≤ 0` anywhere in the list and a
    negative `tmax` are `TypeError`s; the empty list of lag times with `tmax ≥ 0` is an `IndexError`. -/
theorem ck_plain_rejections (geo : Int → Int → Int → Py (List Int)) (ts : Trajs) (flag : Bool) (lags : List Int) (tmax : Int) :
    ((∃ l ∈ lags, l ≤ 0) →
      Gen.MsmCkApi.chapman_kolmogorov_test (plainEst ts flag) (plainEst ts flag) geo ((states ts).length : Int) (states ts) lags tmax
        = .error .type) ∧
    (tmax < 0 →
      Gen.MsmCkApi.chapman_kolmogorov_test (plainEst ts flag) (plainEst ts flag) geo ((states ts).length : Int) (states ts) lags tmax
        = .error .type) ∧
    (0 ≤ tmax →
      Gen.MsmCkApi.chapman_kolmogorov_test (plainEst ts flag) (plainEst ts flag) geo ((states ts).length : Int) (states ts) [] tmax
        = .error .index) := by
  refine ⟨?_, ?_, ?_⟩
  · rintro ⟨l, hl, hl0⟩
    exact CkApi.ck_api_rejects_nonpositive_lag _ _ _ _ _ _ _ l hl hl0
  · intro h
    exact CkApi.ck_api_rejects_negative_tmax _ _ _ _ _ _ _ h
  · intro h
    rw [CkApi.ck_api_empty, if_neg (by omega)]

/-! ### 4. all-empty data: the hypothesis `ts.flatten ≠ []` is needed -/

/-- equality of results is decidable (staged, to keep instance search small) -/
local instance decEntry : DecidableEq ((List (Int × (List Rat))) × (List Int) × Bool × Bool) := inferInstance
local instance decMd : DecidableEq ((List (Int × (List Rat))) × (List Int) × (List Bool) × (List Bool)) := inferInstance
local instance decEntries : DecidableEq (List (Int × ((List (Int × (List Rat))) × (List Int) × Bool × Bool))) := inferInstance

/-- **All-empty data (`n = 0`).**  On trajectories without a single frame the function raises nothing either, the estimated matrix is the
    `0 × 0` matrix and all curve dictionaries are empty — but the translated `is_ergodic` / `is_fuzzy_ergodic` answer `True` on the `0 × 0` matrix
    while the model's `Linalg.isErgodic [] = Linalg.isFuzzyErgodic [] = false`: the formula of `ck_plain_end_to_end` would predict `false` flags.
    (Same finding as `Public.lumped_estimate_empty`.)  One state (`n = 1`) is fine: the theorems need `ts.flatten ≠ []` only, not `n ≥ 2`. -/
theorem ck_plain_all_empty (flag : Bool) :
    Gen.MsmCkApi.chapman_kolmogorov_test (plainEst [[], []] flag) (plainEst [[], []] flag) (fun _ _ _ => .ok [1, 2])
        ((states [[], []]).length : Int) (states [[], []]) [2, 1] 2
      = .ok ([(1, [], [1, 2], true, true), (2, [], [2], true, true)], [], [1, 2], [true, true], [true, true]) ∧
    estT [[], []] 1 = [] ∧ Linalg.isErgodic [] = false ∧ Linalg.isFuzzyErgodic [] = false := by
  refine ⟨?_, by decide +kernel, by decide +kernel, by decide +kernel⟩
  cases flag <;> decide +kernel

/-! ### 5. non-vacuity: one trajectory over the labels `0, 1`, lag times `[2, 1]`, `tmax = 4` -/

/-- the trajectory set of the examples -/
def exTs : Trajs := [[0, 1, 0, 0, 1, 1, 0, 1, 1, 1, 0, 0]]

/-- a stand-in for the grid oracle: answers only the expected call `(smallest lag time 1, tmax 4, 30 steps)`, with a repeated value -/
def exGeo : Int → Int → Int → Py (List Int) :=
  fun tmin tmax steps => if tmin = 1 ∧ tmax = 4 ∧ steps = 30 then .ok [1, 1, 2, 3, 4] else .error .assertion

/-- the hypotheses of `ck_plain_end_to_end` (and of `ck_plain_refGridOk`) hold -/
example : LabelGuard exTs ∧ exTs.flatten ≠ [] ∧ (∀ l ∈ ([2, 1] : List Int), 1 ≤ l) ∧ (1 : Int) ∈ ([2, 1] : List Int) ∧
    (∀ l ∈ ([2, 1] : List Int), (1 : Int) ≤ l) ∧ exGeo 1 ((4 : Nat) : Int) 30 = .ok [1, 1, 2, 3, 4] ∧ (∀ t ∈ ([1, 1, 2, 3, 4] : List Int), 1 ≤ t) ∧
    ([1, 1, 2, 3, 4] : List Int).head? = some 1 ∧ (∀ t ∈ ([1, 1, 2, 3, 4] : List Int), 1 ≤ t ∧ t ≤ ((4 : Nat) : Int)) := by
  decide

/-- the public model on this set: the estimates at the lag times 1, 2 and at the further grid times 3, 4 -/
example : Msm.estimate exTs 1 = .ok ([[2, 3], [3, 3]], [[2/5, 3/5], [1/2, 1/2]], [0, 1]) ∧
    Msm.estimate exTs 2 = .ok ([[1, 3], [4, 2]], [[1/4, 3/4], [2/3, 1/3]], [0, 1]) := by
  decide +kernel
example : estT exTs 1 = [[2/5, 3/5], [1/2, 1/2]] ∧ estT exTs 2 = [[1/4, 3/4], [2/3, 1/3]] ∧
    estT exTs 3 = [[1/2, 1/2], [2/5, 3/5]] ∧ estT exTs 4 = [[1/2, 1/2], [1/4, 3/4]] ∧ states exTs = [0, 1] := by
  decide +kernel

/-- `ck_plain_end_to_end` applied … -/
example : Gen.MsmCkApi.chapman_kolmogorov_test (plainEst exTs true) (plainEst exTs true) exGeo ((states exTs).length : Int) (states exTs)
      [2, 1] ((4 : Nat) : Int)
    = .ok ((sortDedup [2, 1]).map (fun τ =>
              (τ, ((states exTs).zip (ckCurves (estT exTs τ.toNat) τ.toNat 4), (ckTimes τ.toNat 4).map Int.ofNat,
                    Linalg.isErgodic (estT exTs τ.toNat), Linalg.isFuzzyErgodic (estT exTs τ.toNat)))),
           ((states exTs).zip ((List.range (states exTs).length).map (fun s =>
              (sortDedup [1, 1, 2, 3, 4]).map (fun t => Linalg.entry (estT exTs t.toNat) s s))),
            sortDedup [1, 1, 2, 3, 4],
            (sortDedup [1, 1, 2, 3, 4]).map (fun t => Linalg.isErgodic (estT exTs t.toNat)),
            (sortDedup [1, 1, 2, 3, 4]).map (fun t => Linalg.isFuzzyErgodic (estT exTs t.toNat)))) :=
  ck_plain_end_to_end exGeo exTs (by decide) (by decide) true [2, 1] 4 1 [1, 1, 2, 3, 4] (by decide) (by decide) (by decide)
    (by decide) (by decide)

/-- … and its right-hand side, computed in the MODEL: keys `1, 2` ascending although the argument is `[2, 1]`; the curve of lag time 1 holds
    `(T_1^k)_{ss}`, `k = 1 … 4`, the one of lag time 2 `(T_2^k)_{ss}`, `k = 1, 2`; the reference entry the diagonals of `T_1 … T_4` -/
example : ((sortDedup [2, 1]).map (fun τ =>
              (τ, ((states exTs).zip (ckCurves (estT exTs τ.toNat) τ.toNat 4), (ckTimes τ.toNat 4).map Int.ofNat,
                    Linalg.isErgodic (estT exTs τ.toNat), Linalg.isFuzzyErgodic (estT exTs τ.toNat)))),
           ((states exTs).zip ((List.range (states exTs).length).map (fun s =>
              (sortDedup [1, 1, 2, 3, 4]).map (fun t => Linalg.entry (estT exTs t.toNat) s s))),
            sortDedup [1, 1, 2, 3, 4],
            (sortDedup [1, 1, 2, 3, 4]).map (fun t => Linalg.isErgodic (estT exTs t.toNat)),
            (sortDedup [1, 1, 2, 3, 4]).map (fun t => Linalg.isFuzzyErgodic (estT exTs t.toNat))))
    = ([(1, [(0, [2/5, 23/50, 227/500, 2273/5000]), (1, [1/2, 11/20, 109/200, 1091/2000])], [1, 2, 3, 4], true, true),
        (2, [(0, [1/4, 9/16]), (1, [1/3, 11/18])], [2, 4], true, true)],
       [(0, [2/5, 1/4, 1/2, 1/2]), (1, [1/2, 1/3, 3/5, 3/4])], [1, 2, 3, 4], [true, true, true, true], [true, true, true, true]) := by
  decide +kernel

/-- the same value by evaluating the TRANSLATED code directly (constructor, estimator, inner functions, public function), other flag value -/
example : Gen.MsmCkApi.chapman_kolmogorov_test (plainEst exTs false) (plainEst exTs false) exGeo 2 [0, 1] [2, 1] 4
    = .ok ([(1, [(0, [2/5, 23/50, 227/500, 2273/5000]), (1, [1/2, 11/20, 109/200, 1091/2000])], [1, 2, 3, 4], true, true),
            (2, [(0, [1/4, 9/16]), (1, [1/3, 11/18])], [2, 4], true, true)],
           [(0, [2/5, 1/4, 1/2, 1/2]), (1, [1/2, 1/3, 3/5, 3/4])], [1, 2, 3, 4], [true, true, true, true], [true, true, true, true]) := by
  decide +kernel

/-- the object form (constructor run once) on the same data -/
example : (do let (i, s) ← Gen.StateTrajInit.init exTs
              Gen.MsmCkApi.chapman_kolmogorov_test (fun lag => Gen.StateTrajEst.estimate_markov_model i s lag true)
                (fun lag => Gen.StateTrajEst.estimate_markov_model i s lag true) exGeo (pyLen s) s [2, 1] 4)
    = .ok ([(1, [(0, [2/5, 23/50, 227/500, 2273/5000]), (1, [1/2, 11/20, 109/200, 1091/2000])], [1, 2, 3, 4], true, true),
            (2, [(0, [1/4, 9/16]), (1, [1/3, 11/18])], [2, 4], true, true)],
           [(0, [2/5, 1/4, 1/2, 1/2]), (1, [1/2, 1/3, 3/5, 3/4])], [1, 2, 3, 4], [true, true, true, true], [true, true, true, true]) := by
  decide +kernel

/-- `ck_plain_bounds` and `ck_plain_refGridOk` apply -/
example := ck_plain_bounds exGeo exTs (by decide) (by decide) true [2, 1] 4 1 [1, 1, 2, 3, 4] (by decide) (by decide) (by decide)
  (by decide) (by decide)
example := ck_plain_refGridOk exGeo exTs (by decide) (by decide) true [2, 1] 4 1 [1, 1, 2, 3, 4] (by decide) (by decide) (by decide)
  (by decide) (by decide) (by decide)

/-- a lag time not shorter than the trajectory (12 frames): `ck_plain_long_lag` applies; the public function returns all-zero curves, no error;
    the all-zero matrix is not ergodic but "fuzzy ergodic" (every state is a trap state) -/
example : ∀ t ∈ exTs, t.length ≤ (12 : Int).toNat := by decide
example : Gen.MsmCkApi.chapman_kolmogorov_test (plainEst exTs true) (plainEst exTs true) (fun _ _ _ => .ok [12, 24]) 2 [0, 1] [12] 30
    = .ok ([(12, [(0, [0, 0]), (1, [0, 0])], [12, 24], false, true)],
           [(0, [0, 0]), (1, [0, 0])], [12, 24], [false, false], [true, true]) := by
  decide +kernel
example : Msm.estimate exTs 12 = .ok ([[0, 0], [0, 0]], [[0, 0], [0, 0]], [0, 1]) := by decide +kernel

/-- one state only (`n = 1`): covered by the theorems (`[[5, 5, 5]].flatten ≠ []`); the `1 × 1` matrix `[[1]]` is not a transition matrix for the
    model and for the translated tests alike -/
example : Gen.MsmCkApi.chapman_kolmogorov_test (plainEst [[5, 5, 5]] true) (plainEst [[5, 5, 5]] true) exGeo 1 [5] [2, 1] 4
    = .ok ([(1, [(5, [1, 1, 1, 1])], [1, 2, 3, 4], false, false), (2, [(5, [1, 1])], [2, 4], false, false)],
           [(5, [1, 1, 0, 0])], [1, 2, 3, 4], [false, false, false, false], [false, false, false, false]) := by
  decide +kernel

/-- the grid oracle's error is passed on (`ck_plain_geo_error`): `exGeo` refuses `tmax = 5` -/
example : Gen.MsmCkApi.chapman_kolmogorov_test (plainEst exTs true) (plainEst exTs true) exGeo ((states exTs).length : Int) (states exTs)
    [2, 1] ((5 : Nat) : Int) = .error .assertion :=
  ck_plain_geo_error exGeo exTs (by decide) (by decide) true [2, 1] 5 1 .assertion (by decide) (by decide) (by decide) (by decide)

/-- rejections -/
example : Gen.MsmCkApi.chapman_kolmogorov_test (plainEst exTs true) (plainEst exTs true) exGeo ((states exTs).length : Int) (states exTs)
    [2, 0, 1] 4 = .error .type :=
  (ck_plain_rejections exGeo exTs true [2, 0, 1] 4).1 ⟨0, by decide, by decide⟩

end MsmVerif.Refine.CkEnd
