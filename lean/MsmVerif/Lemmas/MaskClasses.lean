/-
Lemmas/MaskClasses.lean — communicating classes of the support graph, what `ergodic_mask` computes on them, and the
correctness of the executable graph oracle of `Model/Linalg.lean` (for C14, sentence 2, and the ergodic case of C04).

Part A: `Reach b i j` (some walk `i → j`, length `≥ 0`), `Comm b i j` (mutual reachability), walks between members of
  one class stay inside the class (`Comm.of_split`), the class of `i` as a finite digraph `ClassV b n i` with the bridge
  `walk_iff_W_class`, `AperiodicClass` / `LooplessSingleton` / `ClosedClass`, and Wielandt's bound inside an aperiodic
  class (`aperiodic_walk_ge`).
Part B: `maskRel` in terms of walks (`maskRel_iff_walks`), `maskRel ↔ Comm` for aperiodic classes (`maskRel_iff_comm`),
  `maskRel = false` for loop-less singletons, `maskCnt = classCard` (`maskCnt_eq_classCard`, `maskCnt_le_classCard`).
Part C: existence of closed classes (`exists_closed_class`), of a largest closed class (`exists_maxClosed`) and the
  characterisation of the states with maximal `maskCnt` (`maskCnt_max_iff`).
Part D: Warshall's algorithm `closure` computes `Reach` (`Path`, `path_succ_iff`, `bent_closure_iff`); the executable
  `classOf` / `isClosed` / `classSize` agree with `Comm` / `ClosedClass` / `classCard`; boolean checkers for examples.
Part E: the BFS labels are lengths of walks (`bfs_sound`), differences of closed-walk lengths form a subgroup of `ℤ`
  (`ClosedDiff`), `period = 1` implies aperiodic (`aperiodic_of_period_one`).
Part F: a successful `maskHypothesis` implies the mathematical hypotheses (`hyps_of_maskHypothesis`).
Part G: BFS completeness (`bfs_complete`), the period divides every closed walk length at the root (`period_dvd_walk`),
  hence `period = 1 ↔ AperiodicClass` (`period_one_iff_aperiodic`).
Part H: the oracle on an ergodic matrix: one class, closed, period 1 (`oracle_of_isErgodic`), `holdsPeq_of_isErgodic`.
Part I: completeness of the Gauss–Jordan solve (`inverse_complete`) and of `stationary` on irreducible stochastic
  matrices (`statMatrix_ker`, `stationary_complete`).
-/
import MsmVerif.Lemmas.Linalg
import MsmVerif.Lemmas.Wielandt
import MsmVerif.Lemmas.WielandtGeneral
import Mathlib.Data.Fintype.Card
import Mathlib.Data.Int.GCD
import Mathlib.Data.Finset.Card
import Mathlib.Data.Finset.Max
import Mathlib.Order.Preorder.Finite

namespace MsmVerif.Linalg
open MsmVerif.Msm MsmVerif.Digraph

/-! ## Part A: reachability and communicating classes -/

/-- `j` can be reached from `i` by a walk of some length `k ≥ 0` -/
def Reach (b : List (List Bool)) (i j : Nat) : Prop := ∃ k, Walk b k i j

/-- `i` and `j` communicate: each is reachable from the other.  The class of `i` is `{j | Comm b i j}`. -/
def Comm (b : List (List Bool)) (i j : Nat) : Prop := Reach b i j ∧ Reach b j i

theorem Walk.trans {b : List (List Bool)} {a c i l j : Nat} (h1 : Walk b a i l) (h2 : Walk b c l j) :
    Walk b (a + c) i j := (Walk.add_iff b a c i j).mpr ⟨l, h1, h2⟩

theorem Reach.refl (b : List (List Bool)) (i : Nat) : Reach b i i := ⟨0, rfl⟩

theorem Reach.trans {b : List (List Bool)} {i l j : Nat} (h1 : Reach b i l) (h2 : Reach b l j) : Reach b i j := by
  obtain ⟨a, ha⟩ := h1
  obtain ⟨c, hc⟩ := h2
  exact ⟨a + c, ha.trans hc⟩

theorem Reach.of_edge {b : List (List Bool)} {i j : Nat} (h : bent b i j = true) : Reach b i j :=
  ⟨1, (Walk.one_iff b i j).mpr h⟩

theorem Comm.refl (b : List (List Bool)) (i : Nat) : Comm b i i := ⟨Reach.refl b i, Reach.refl b i⟩

theorem Comm.symm {b : List (List Bool)} {i j : Nat} (h : Comm b i j) : Comm b j i := ⟨h.2, h.1⟩

theorem Comm.trans {b : List (List Bool)} {i l j : Nat} (h1 : Comm b i l) (h2 : Comm b l j) : Comm b i j :=
  ⟨h1.1.trans h2.1, h2.2.trans h1.2⟩

/-- every vertex on a walk between two members of the class of `i` is a member of the class of `i` -/
theorem Comm.of_split {b : List (List Bool)} {i u v l : Nat} {a c : Nat} (hu : Comm b i u) (hv : Comm b i v)
    (h1 : Walk b a u l) (h2 : Walk b c l v) : Comm b i l :=
  ⟨hu.1.trans ⟨a, h1⟩, (Reach.trans ⟨c, h2⟩ hv.2)⟩

/-- a vertex with an outgoing edge is a row index of the pattern -/
theorem walk_source_lt {b : List (List Bool)} {k i j : Nat} (h : Walk b (k + 1) i j) : i < b.length := by
  induction k generalizing j with
  | zero => exact bent_lt_length ((Walk.one_iff b i j).mp h)
  | succ k ih =>
    obtain ⟨l, h1, _⟩ := h
    exact ih h1

/-- the class of `i` among the vertices `0 … n-1`, as a type -/
abbrev ClassV (b : List (List Bool)) (n i : Nat) : Type := {j : Fin n // Comm b i j}

/-- the edges of `b` between members of the class of `i` -/
def classAdj (b : List (List Bool)) (n i : Nat) : ClassV b n i → ClassV b n i → Prop :=
  fun u v => bent b u.1 v.1 = true

/-- walks of `b` between members of a class are exactly the walks of the class digraph: they cannot leave the class -/
theorem walk_iff_W_class {b : List (List Bool)} {n i : Nat} (hb : b.length ≤ n) (k : Nat) (u v : ClassV b n i) :
    Walk b k u.1 v.1 ↔ W (classAdj b n i) k u v := by
  induction k generalizing v with
  | zero =>
    constructor
    · intro h
      exact Subtype.ext (Fin.ext h)
    · intro h
      have : u = v := h
      rw [this]
      rfl
  | succ k ih =>
    constructor
    · rintro ⟨l, h1, h2⟩
      have hl : l < n := Nat.lt_of_lt_of_le (bent_lt_length h2) hb
      have hc : Comm b i l := Comm.of_split u.2 v.2 h1 ((Walk.one_iff b l v.1).mpr h2)
      exact ⟨⟨⟨l, hl⟩, hc⟩, (ih ⟨⟨l, hl⟩, hc⟩).mp h1, h2⟩
    · rintro ⟨l, h1, h2⟩
      exact ⟨l.1, (ih l).mpr h1, h2⟩

/-- the class of `i` (among the vertices `< n`) is aperiodic: for some `k ≥ 1` all ordered pairs of its members are joined
by walks of length exactly `k` (such walks stay inside the class, `Comm.of_split`), i.e. the digraph restricted to the
class is primitive.  For a single state this says that it has a self-loop. -/
def AperiodicClass (b : List (List Bool)) (n i : Nat) : Prop :=
  ∃ k, 1 ≤ k ∧ ∀ u v, u < n → v < n → Comm b i u → Comm b i v → Walk b k u v

/-- the class of `i` is the single state `i`, and `i` has no self-loop -/
def LooplessSingleton (b : List (List Bool)) (n i : Nat) : Prop :=
  (∀ j, j < n → Comm b i j → j = i) ∧ bent b i i = false

/-- no edge leaves the class of `i` -/
def ClosedClass (b : List (List Bool)) (n i : Nat) : Prop :=
  ∀ u v, u < n → v < n → Comm b i u → bent b u v = true → Comm b i v

theorem sq_succ_mono {a c : Nat} (h : a ≤ c) : (a - 1) ^ 2 + 1 ≤ (c - 1) ^ 2 + 1 :=
  Nat.add_le_add_right (Nat.pow_le_pow_left (Nat.sub_le_sub_right h 1) 2) 1

open Classical in
/-- **Wielandt inside a class**: in an aperiodic class on at most `n` vertices all ordered pairs of members are joined
by walks of every length `K ≥ (n-1)² + 1` -/
theorem aperiodic_walk_ge {b : List (List Bool)} {n i : Nat} (hb : b.length ≤ n) (hap : AperiodicClass b n i)
    {K : Nat} (hK : (n - 1) ^ 2 + 1 ≤ K) {u v : Nat} (hu : u < n) (hv : v < n) (cu : Comm b i u) (cv : Comm b i v) :
    Walk b K u v := by
  obtain ⟨k, hk, hw⟩ := hap
  have hall : AllW (classAdj b n i) k := fun x y =>
    (walk_iff_W_class hb k x y).mp (hw x.1 y.1 x.1.2 y.1.2 x.2 y.2)
  have h1 := wielandt_abstract hk hall
  have hcard : Fintype.card (ClassV b n i) ≤ n := by
    have := Fintype.card_subtype_le (fun j : Fin n => Comm b i j)
    rwa [Fintype.card_fin] at this
  have h2 := AllW.mono (by omega) h1 (Nat.le_trans (sq_succ_mono hcard) hK)
  exact (walk_iff_W_class hb K ⟨⟨u, hu⟩, cu⟩ ⟨⟨v, hv⟩, cv⟩).mpr (h2 _ _)

/-! ## Part B: the relation and the counts of `ergodic_mask` on classes -/

/-- the threshold hypothesis: positive entries of the `K`-th power exceed `atol` -/
def ThrOK (m : Mat) : Prop :=
  ∀ i j, i < m.length → j < m.length →
    0 < entry (pow m (wielandtExp m.length)) i j → atol < entry (pow m (wielandtExp m.length)) i j

/-- under the threshold hypothesis `maskRel` says: walks of length exactly `K` in both directions -/
theorem maskRel_iff_walks {m : Mat} (p : NonNeg m) (ht : isTmat m = true) (hthr : ThrOK m) {i j : Nat}
    (hi : i < m.length) (hj : j < m.length) :
    maskRel m i j = true ↔
      Walk (support m) (wielandtExp m.length) i j ∧ Walk (support m) (wielandtExp m.length) j i := by
  have hw := WF_of_isTmat ht
  unfold maskRel
  simp only [Bool.and_eq_true, decide_eq_true_eq]
  constructor
  · rintro ⟨h1, h2⟩
    exact ⟨(pow_pos_iff_walk hw p _ hi hj).mp (lt_trans atol_pos h1),
      (pow_pos_iff_walk hw p _ hj hi).mp (lt_trans atol_pos h2)⟩
  · rintro ⟨h1, h2⟩
    exact ⟨hthr i j hi hj ((pow_pos_iff_walk hw p _ hi hj).mpr h1),
      hthr j i hj hi ((pow_pos_iff_walk hw p _ hj hi).mpr h2)⟩

theorem maskRel_of_ge {m : Mat} (ht : isTmat m = true) (i : Nat) {j : Nat} (hj : m.length ≤ j) :
    maskRel m i j = false := by
  have hw := WF_pow (WF_of_isTmat ht) (wielandtExp m.length)
  unfold maskRel
  rw [entry_of_ge_right hw i hj]
  have := atol_pos
  simp [not_lt.mpr (le_of_lt this)]

/-- related states communicate -/
theorem comm_of_maskRel {m : Mat} (p : NonNeg m) (ht : isTmat m = true) {i j : Nat}
    (hi : i < m.length) (hj : j < m.length) (h : maskRel m i j = true) : Comm (support m) i j := by
  have hw := WF_of_isTmat ht
  unfold maskRel at h
  simp only [Bool.and_eq_true, decide_eq_true_eq] at h
  exact ⟨⟨_, (pow_pos_iff_walk hw p _ hi hj).mp (lt_trans atol_pos h.1)⟩,
    ⟨_, (pow_pos_iff_walk hw p _ hj hi).mp (lt_trans atol_pos h.2)⟩⟩

/-- in an aperiodic class the relation of `ergodic_mask` is exactly class membership -/
theorem maskRel_iff_comm {m : Mat} (p : NonNeg m) (ht : isTmat m = true) (hthr : ThrOK m) {i j : Nat}
    (hi : i < m.length) (hj : j < m.length) (hap : AperiodicClass (support m) m.length i) :
    maskRel m i j = true ↔ Comm (support m) i j := by
  constructor
  · exact comm_of_maskRel p ht hi hj
  · intro hc
    have hb : (support m).length ≤ m.length := Nat.le_of_eq (support_length m)
    have hK : (m.length - 1) ^ 2 + 1 ≤ wielandtExp m.length := Nat.le_of_eq (wielandtExp_eq _).symm
    rw [maskRel_iff_walks p ht hthr hi hj]
    exact ⟨aperiodic_walk_ge hb hap hK hi hj (Comm.refl _ i) hc,
      aperiodic_walk_ge hb hap hK hj hi hc (Comm.refl _ i)⟩

/-- a state whose class is a single state without self-loop is related to nothing (no threshold hypothesis needed) -/
theorem maskRel_loopless {m : Mat} (p : NonNeg m) (ht : isTmat m = true) {i : Nat}
    (hi : i < m.length) (hs : LooplessSingleton (support m) m.length i) (j : Nat) : maskRel m i j = false := by
  by_cases hj : j < m.length
  · cases hrel : maskRel m i j with
    | false => rfl
    | true =>
      exfalso
      have hc := comm_of_maskRel p ht hi hj hrel
      have hji := hs.1 j hj hc
      subst hji
      have hw := WF_of_isTmat ht
      unfold maskRel at hrel
      simp only [Bool.and_eq_true, decide_eq_true_eq] at hrel
      have hwalk := (pow_pos_iff_walk hw p _ hj hj).mp (lt_trans atol_pos hrel.1)
      have hK : wielandtExp m.length = (wielandtExp m.length - 1) + 1 := by
        have := wielandtExp_pos m.length; omega
      rw [hK] at hwalk
      obtain ⟨l, h1, h2⟩ := hwalk
      have hl : l < m.length := by rw [← support_length]; exact bent_lt_length h2
      have hcl : Comm (support m) j l := ⟨⟨_, h1⟩, Reach.of_edge h2⟩
      have := hs.1 l hl hcl
      subst this
      rw [hs.2] at h2
      cases h2
  · exact maskRel_of_ge ht i (Nat.le_of_not_lt hj)

open Classical in
/-- number of vertices `< n` in the class of `i` -/
noncomputable def classCard (b : List (List Bool)) (n i : Nat) : Nat :=
  ((List.range n).filter (fun j => decide (Comm b i j))).length

open Classical in
theorem maskCnt_eq_classCard {m : Mat} (p : NonNeg m) (ht : isTmat m = true) (hthr : ThrOK m) {i : Nat}
    (hi : i < m.length) (hap : AperiodicClass (support m) m.length i) :
    maskCnt m i = classCard (support m) m.length i := by
  unfold maskCnt classCard
  congr 1
  apply List.filter_congr
  intro j hj
  have hj' := List.mem_range.mp hj
  by_cases hc : Comm (support m) i j
  · simp [hc, (maskRel_iff_comm p ht hthr hi hj' hap).mpr hc]
  · have : maskRel m i j = false := by
      cases h : maskRel m i j with
      | false => rfl
      | true => exact absurd ((maskRel_iff_comm p ht hthr hi hj' hap).mp h) hc
    simp [hc, this]

theorem maskCnt_loopless {m : Mat} (p : NonNeg m) (ht : isTmat m = true) {i : Nat}
    (hi : i < m.length) (hs : LooplessSingleton (support m) m.length i) : maskCnt m i = 0 := by
  unfold maskCnt
  rw [List.length_eq_zero_iff, List.filter_eq_nil_iff]
  intro j _
  rw [maskRel_loopless p ht hi hs j]
  simp

open Classical in
/-- without any hypothesis on the class: the count never exceeds the class size -/
theorem maskCnt_le_classCard {m : Mat} (p : NonNeg m) (ht : isTmat m = true) {i : Nat} (hi : i < m.length) :
    maskCnt m i ≤ classCard (support m) m.length i := by
  unfold maskCnt classCard
  apply List.Sublist.length_le
  apply List.monotone_filter_right
  intro j hrel
  by_cases hj : j < m.length
  · simpa using comm_of_maskRel p ht hi hj hrel
  · rw [maskRel_of_ge ht i (Nat.le_of_not_lt hj)] at hrel
    cases hrel

open Classical in
theorem classCard_pos {b : List (List Bool)} {n i : Nat} (hi : i < n) : 1 ≤ classCard b n i := by
  unfold classCard
  apply List.length_pos_of_mem (a := i)
  simp [hi, Comm.refl]

/-! ## Part C: closed classes and the states with maximal count -/

open Classical in
/-- a finite digraph has a closed communicating class: take a vertex from which the fewest vertices are reachable -/
theorem exists_closed_class (b : List (List Bool)) {n : Nat} (hn : 0 < n) : ∃ i, i < n ∧ ClosedClass b n i := by
  let f : Nat → Nat := fun i => ((Finset.range n).filter (fun j => Reach b i j)).card
  obtain ⟨i, hi, hmin⟩ := Finset.exists_min_image (Finset.range n) f ⟨0, Finset.mem_range.mpr hn⟩
  refine ⟨i, Finset.mem_range.mp hi, ?_⟩
  intro u v _ hv hcu he
  by_contra hnc
  have hiv : Reach b i v := hcu.1.trans (Reach.of_edge he)
  have hvi : ¬ Reach b v i := fun h => hnc ⟨hiv, h⟩
  have hlt : f v < f i := by
    apply Finset.card_lt_card
    rw [Finset.ssubset_iff_of_subset]
    · exact ⟨i, by simp [Finset.mem_range.mp hi, Reach.refl], by simp [hvi]⟩
    · intro x hx
      simp only [Finset.mem_filter, Finset.mem_range] at hx ⊢
      exact ⟨hx.1, hiv.trans hx.2⟩
  have := hmin v (Finset.mem_range.mpr hv)
  omega

/-- `i` lies in a closed class of maximal size among the closed classes -/
def MaxClosed (b : List (List Bool)) (n i : Nat) : Prop :=
  ClosedClass b n i ∧ ∀ i', i' < n → ClosedClass b n i' → classCard b n i' ≤ classCard b n i

open Classical in
theorem exists_maxClosed (b : List (List Bool)) {n : Nat} (hn : 0 < n) : ∃ i, i < n ∧ MaxClosed b n i := by
  obtain ⟨i0, hi0, hc0⟩ := exists_closed_class b hn
  obtain ⟨i, hi, hmax⟩ := Finset.exists_max_image ((Finset.range n).filter (fun i => ClosedClass b n i))
    (classCard b n) ⟨i0, by simp [hi0, hc0]⟩
  simp only [Finset.mem_filter, Finset.mem_range] at hi hmax
  exact ⟨i, hi.1, hi.2, fun i' h1 h2 => hmax i' ⟨h1, h2⟩⟩

/-- hypothesis of the mask clause, in the weakest form that is needed: every closed class is aperiodic (nothing is
required of the non-closed classes: their counts are bounded by their sizes anyway, `maskCnt_le_classCard`) -/
def ClassesOK (b : List (List Bool)) (n : Nat) : Prop :=
  ∀ i, i < n → ClosedClass b n i → AperiodicClass b n i

/-- hypothesis of the mask clause: the largest closed classes are strictly larger than every non-closed class -/
def ClosedDominates (b : List (List Bool)) (n : Nat) : Prop :=
  ∀ i j, i < n → j < n → MaxClosed b n i → ¬ ClosedClass b n j → classCard b n j < classCard b n i

/-- the states whose `ergodic_mask` count is maximal are exactly the members of the largest closed classes -/
theorem maskCnt_max_iff {m : Mat} (p : NonNeg m) (ht : isTmat m = true) (hthr : ThrOK m)
    (hcls : ClassesOK (support m) m.length) (hbig : ClosedDominates (support m) m.length)
    {i : Nat} (hi : i < m.length) :
    (∀ i', i' < m.length → maskCnt m i' ≤ maskCnt m i) ↔ MaxClosed (support m) m.length i := by
  have hn : 0 < m.length := by have := two_le_of_isTmat ht; omega
  have hcnt : ∀ j, j < m.length → ClosedClass (support m) m.length j →
      maskCnt m j = classCard (support m) m.length j := by
    intro j hj hc
    exact maskCnt_eq_classCard p ht hthr hj (hcls j hj hc)
  constructor
  · intro hmax
    obtain ⟨i0, hi0, hM0⟩ := exists_maxClosed (support m) hn
    have hclosed : ClosedClass (support m) m.length i := by
      by_contra hnc
      have h1 := maskCnt_le_classCard p ht hi
      have h2 := hbig i0 i hi0 hi hM0 hnc
      have h3 := hcnt i0 hi0 hM0.1
      have h4 := hmax i0 hi0
      omega
    refine ⟨hclosed, ?_⟩
    intro i' hi' hc'
    rw [← hcnt i' hi' hc', ← hcnt i hi hclosed]
    exact hmax i' hi'
  · intro hM i' hi'
    rw [hcnt i hi hM.1]
    have h1 := maskCnt_le_classCard p ht hi'
    by_cases hc' : ClosedClass (support m) m.length i'
    · have := hM.2 i' hi' hc'
      omega
    · have := hbig i i' hi hi' hM hc'
      omega

/-! ## Part D: Warshall's algorithm computes reachability -/

/-- walks with at least one edge all of whose intermediate vertices are `< t` -/
inductive Path (b : List (List Bool)) (t : Nat) : Nat → Nat → Prop
  | edge {i j : Nat} : bent b i j = true → Path b t i j
  | snoc {i l j : Nat} : Path b t i l → l < t → bent b l j = true → Path b t i j

theorem Path.mono {b : List (List Bool)} {t t' i j : Nat} (h : t ≤ t') (hp : Path b t i j) : Path b t' i j := by
  induction hp with
  | edge e => exact Path.edge e
  | snoc _ hl e ih => exact Path.snoc ih (Nat.lt_of_lt_of_le hl h) e

theorem Path.trans {b : List (List Bool)} {t i l j : Nat} (h1 : Path b t i l) (hl : l < t) (h2 : Path b t l j) :
    Path b t i j := by
  induction h2 with
  | edge e => exact Path.snoc h1 hl e
  | snoc _ hl' e ih => exact Path.snoc ih hl' e

theorem path_zero_iff {b : List (List Bool)} {i j : Nat} : Path b 0 i j ↔ bent b i j = true := by
  constructor
  · intro h
    cases h with
    | edge e => exact e
    | snoc _ hl _ => exact absurd hl (Nat.not_lt_zero _)
  · exact Path.edge

/-- the recursion behind Warshall's algorithm -/
theorem path_succ_iff {b : List (List Bool)} {t i j : Nat} :
    Path b (t + 1) i j ↔ Path b t i j ∨ (Path b t i t ∧ Path b t t j) := by
  constructor
  · intro h
    induction h with
    | edge e => exact Or.inl (Path.edge e)
    | @snoc l j _ hl e ih =>
      by_cases hlt : l < t
      · rcases ih with h | ⟨h1, h2⟩
        · exact Or.inl (Path.snoc h hlt e)
        · exact Or.inr ⟨h1, Path.snoc h2 hlt e⟩
      · have : l = t := by omega
        subst this
        rcases ih with h | ⟨h1, _⟩
        · exact Or.inr ⟨h, Path.edge e⟩
        · exact Or.inr ⟨h1, Path.edge e⟩
  · rintro (h | ⟨h1, h2⟩)
    · exact h.mono (Nat.le_succ t)
    · exact (h1.mono (Nat.le_succ t)).trans (Nat.lt_succ_self t) (h2.mono (Nat.le_succ t))

/-- with all vertices allowed as intermediates, `Path` is a walk of positive length -/
theorem path_iff_walk {b : List (List Bool)} {n : Nat} (hb : b.length ≤ n) {i j : Nat} :
    Path b n i j ↔ ∃ k, Walk b (k + 1) i j := by
  constructor
  · intro h
    induction h with
    | edge e => exact ⟨0, (Walk.one_iff b _ _).mpr e⟩
    | snoc _ _ e ih =>
      obtain ⟨k, hk⟩ := ih
      exact ⟨k + 1, _, hk, e⟩
  · rintro ⟨k, hk⟩
    induction k generalizing j with
    | zero => exact Path.edge ((Walk.one_iff b _ _).mp hk)
    | succ k ih =>
      obtain ⟨l, h1, h2⟩ := hk
      exact Path.snoc (ih h1) (Nat.lt_of_lt_of_le (bent_lt_length h2) hb) h2

theorem reach_iff_path {b : List (List Bool)} {n : Nat} (hb : b.length ≤ n) {i j : Nat} :
    Reach b i j ↔ i = j ∨ Path b n i j := by
  rw [path_iff_walk hb]
  constructor
  · rintro ⟨k, hk⟩
    cases k with
    | zero => exact Or.inl hk
    | succ k => exact Or.inr ⟨k, hk⟩
  · rintro (h | ⟨k, hk⟩)
    · exact ⟨0, h⟩
    · exact ⟨k + 1, hk⟩

/-- one round of Warshall's algorithm -/
def warshallStep (n : Nat) (r : List (List Bool)) (k : Nat) : List (List Bool) :=
  (List.range n).map (fun i => (List.range n).map (fun j => bent r i j || (bent r i k && bent r k j)))

def warshallInit (b : List (List Bool)) : List (List Bool) :=
  (List.range b.length).map (fun i => (List.range b.length).map (fun j => i == j || bent b i j))

theorem closure_eq (b : List (List Bool)) :
    closure b = (List.range b.length).foldl (warshallStep b.length) (warshallInit b) := rfl

theorem warshall_inv (b : List (List Bool)) (t : Nat) {i j : Nat} (hi : i < b.length) (hj : j < b.length)
    (ht : t ≤ b.length) :
    bent ((List.range t).foldl (warshallStep b.length) (warshallInit b)) i j = true ↔ i = j ∨ Path b t i j := by
  induction t generalizing i j with
  | zero =>
    simp only [List.range_zero, List.foldl_nil, warshallInit]
    rw [bent_map_range _ (fun i j => i == j || bent b i j) hi hj, path_zero_iff]
    simp
  | succ t ih =>
    have htl : t < b.length := by omega
    rw [List.range_succ, List.foldl_append, List.foldl_cons, List.foldl_nil]
    generalize hr : (List.range t).foldl (warshallStep b.length) (warshallInit b) = r at ih
    unfold warshallStep
    rw [bent_map_range _ (fun i j => bent r i j || (bent r i t && bent r t j)) hi hj, path_succ_iff]
    simp only [Bool.or_eq_true, Bool.and_eq_true]
    rw [ih hi hj (by omega), ih hi htl (by omega), ih htl hj (by omega)]
    constructor
    · rintro (h | ⟨h1, h2⟩)
      · rcases h with h | h
        · exact Or.inl h
        · exact Or.inr (Or.inl h)
      · rcases h1 with h1 | h1
        · rcases h2 with h2 | h2
          · exact Or.inl (h1.trans h2)
          · subst h1; exact Or.inr (Or.inl h2)
        · rcases h2 with h2 | h2
          · subst h2; exact Or.inr (Or.inl h1)
          · exact Or.inr (Or.inr ⟨h1, h2⟩)
    · rintro (h | h | ⟨h1, h2⟩)
      · exact Or.inl (Or.inl h)
      · exact Or.inl (Or.inr h)
      · exact Or.inr ⟨Or.inr h1, Or.inr h2⟩

/-- **Warshall's algorithm is correct**: `closure b` is the reachability relation of `b` (walks of length `≥ 0`) -/
theorem bent_closure_iff (b : List (List Bool)) {i j : Nat} (hi : i < b.length) (hj : j < b.length) :
    bent (closure b) i j = true ↔ Reach b i j := by
  rw [closure_eq, warshall_inv b b.length hi hj (Nat.le_refl _), reach_iff_path (Nat.le_refl _)]

theorem length_warshallStep (n : Nat) (r : List (List Bool)) (k : Nat) : (warshallStep n r k).length = n := by
  simp [warshallStep]

theorem length_foldl_warshall (n : Nat) (r : List (List Bool)) (hr : r.length = n) (ks : List Nat) :
    (ks.foldl (warshallStep n) r).length = n := by
  induction ks generalizing r with
  | nil => exact hr
  | cons k ks ih => exact ih _ (length_warshallStep n r k)

theorem length_closure (b : List (List Bool)) : (closure b).length = b.length := by
  rw [closure_eq]
  exact length_foldl_warshall _ _ (by simp [warshallInit]) _

theorem length_classOf (reach : List (List Bool)) (i : Nat) : (classOf reach i).length = reach.length := by
  simp [classOf]

/-- the executable class membership list agrees with `Comm` -/
theorem classOf_closure_iff (b : List (List Bool)) {i j : Nat} (hi : i < b.length) :
    (classOf (closure b) i).getD j false = true ↔ j < b.length ∧ Comm b i j := by
  by_cases hj : j < b.length
  · unfold classOf
    rw [length_closure, getD_map_range _ _ _ hj, Bool.and_eq_true, bent_closure_iff b hi hj, bent_closure_iff b hj hi]
    exact ⟨fun h => ⟨hj, h⟩, fun h => h.2⟩
  · rw [getD_of_ge _ _ (by rw [length_classOf, length_closure]; omega)]
    simp [hj]

/-- members of one class have the same membership list -/
theorem classOf_closure_congr (b : List (List Bool)) {i i' : Nat} (hi : i < b.length) (hi' : i' < b.length)
    (hc : Comm b i i') : classOf (closure b) i = classOf (closure b) i' := by
  unfold classOf
  apply List.map_congr_left
  intro j hj
  have hj' : j < b.length := by rw [length_closure] at hj; exact List.mem_range.mp hj
  rw [Bool.eq_iff_iff, Bool.and_eq_true, Bool.and_eq_true, bent_closure_iff b hi hj', bent_closure_iff b hj' hi,
    bent_closure_iff b hi' hj', bent_closure_iff b hj' hi']
  exact ⟨fun h => hc.symm.trans h, fun h => hc.trans h⟩

/-- the executable closedness test agrees with `ClosedClass` -/
theorem isClosed_classOf_iff (b : List (List Bool)) {i : Nat} (hi : i < b.length) :
    isClosed b (classOf (closure b) i) = true ↔ ClosedClass b b.length i := by
  unfold isClosed ClosedClass
  simp only [List.all_eq_true, List.mem_range, Bool.or_eq_true, Bool.not_eq_true']
  constructor
  · intro h u v hu hv hcu he
    rcases h u hu with h1 | h1
    · rw [(classOf_closure_iff b hi).mpr ⟨hu, hcu⟩] at h1; cases h1
    · rcases h1 v hv with h2 | h2
      · rw [he] at h2; cases h2
      · exact ((classOf_closure_iff b hi).mp h2).2
  · intro h u hu
    by_cases hcu : (classOf (closure b) i).getD u false = true
    · right
      intro v hv
      by_cases he : bent b u v = true
      · right
        exact (classOf_closure_iff b hi).mpr ⟨hv, h u v hu hv ((classOf_closure_iff b hi).mp hcu).2 he⟩
      · left; simpa using he
    · left; simpa using hcu

open Classical in
/-- the executable class size agrees with `classCard` -/
theorem classSize_classOf (b : List (List Bool)) {i : Nat} (hi : i < b.length) :
    classSize (classOf (closure b) i) = classCard b b.length i := by
  unfold classSize classCard
  have h1 : classOf (closure b) i = (List.range b.length).map (fun j => (classOf (closure b) i).getD j false) := by
    apply List.ext_getElem
    · simp [length_classOf, length_closure]
    · intro k h1 h2
      rw [List.getElem_map, List.getElem_range, getD_of_lt _ _ h1]
  rw [h1, List.filter_map, List.length_map]
  congr 1
  apply List.filter_congr
  intro j hj
  have hj' := List.mem_range.mp hj
  simp only [Function.comp, id]
  rw [Bool.eq_iff_iff, classOf_closure_iff b hi]
  simp [hj']

/-! ### decidable sufficient conditions (used for the non-vacuity examples) -/

/-- for a class consisting of a single state, "aperiodic" means "has a self-loop" -/
theorem aperiodicClass_singleton {b : List (List Bool)} {n i : Nat} (hb : b.length ≤ n) (hi : i < n)
    (hs : ∀ j, j < n → Comm b i j → j = i) : AperiodicClass b n i ↔ bent b i i = true := by
  constructor
  · rintro ⟨k, hk, hw⟩
    have h := hw i i hi hi (Comm.refl b i) (Comm.refl b i)
    obtain ⟨k', rfl⟩ : ∃ k', k = k' + 1 := ⟨k - 1, by omega⟩
    obtain ⟨l, h1, h2⟩ := h
    have hl : l < n := Nat.lt_of_lt_of_le (bent_lt_length h2) hb
    have := hs l hl ⟨⟨_, h1⟩, Reach.of_edge h2⟩
    subst this
    exact h2
  · intro h
    refine ⟨1, Nat.le_refl 1, ?_⟩
    intro u v hu hv cu cv
    rw [hs u hu cu, hs v hv cv]
    exact (Walk.one_iff b i i).mpr h

/-- executable check of `ClassesOK`: the `k`-th boolean power joins all pairs inside every closed class -/
def classesOKB (b : List (List Bool)) (k : Nat) : Bool :=
  (List.range b.length).all (fun i => !isClosed b (classOf (closure b) i) ||
    (List.range b.length).all (fun u => (List.range b.length).all (fun v =>
      !(classOf (closure b) i).getD u false || !(classOf (closure b) i).getD v false ||
        bent (bpow b b.length k) u v)))

theorem classesOK_of_exec (b : List (List Bool)) (k : Nat) (hk : 1 ≤ k) (h : classesOKB b k = true) :
    ClassesOK b b.length := by
  intro i hi hc
  refine ⟨k, hk, ?_⟩
  intro u v hu hv cu cv
  unfold classesOKB at h
  simp only [List.all_eq_true, List.mem_range, Bool.or_eq_true, Bool.not_eq_true'] at h
  rcases h i hi with h1 | h1
  · rw [(isClosed_classOf_iff b hi).mpr hc] at h1; cases h1
  · rcases h1 u hu v hv with (h2 | h2) | h2
    · rw [(classOf_closure_iff b hi).mpr ⟨hu, cu⟩] at h2; cases h2
    · rw [(classOf_closure_iff b hi).mpr ⟨hv, cv⟩] at h2; cases h2
    · exact (bent_bpow_iff_walk (Nat.le_refl _) k hu hv).mp h2

/-- executable form of `MaxClosed` -/
theorem maxClosed_iff_exec (b : List (List Bool)) {i : Nat} (hi : i < b.length) :
    MaxClosed b b.length i ↔ (isClosed b (classOf (closure b) i) = true ∧
      ∀ i', i' < b.length → isClosed b (classOf (closure b) i') = true →
        classSize (classOf (closure b) i') ≤ classSize (classOf (closure b) i)) := by
  unfold MaxClosed
  rw [isClosed_classOf_iff b hi, classSize_classOf b hi]
  constructor
  · rintro ⟨h1, h2⟩
    refine ⟨h1, fun i' hi' hc' => ?_⟩
    rw [classSize_classOf b hi']
    exact h2 i' hi' ((isClosed_classOf_iff b hi').mp hc')
  · rintro ⟨h1, h2⟩
    refine ⟨h1, fun i' hi' hc' => ?_⟩
    rw [← classSize_classOf b hi']
    exact h2 i' hi' ((isClosed_classOf_iff b hi').mpr hc')

/-- executable form of `MaxClosed` as a boolean -/
def maxClosedB (b : List (List Bool)) (i : Nat) : Bool :=
  isClosed b (classOf (closure b) i) && (List.range b.length).all (fun i' =>
    !isClosed b (classOf (closure b) i') ||
      decide (classSize (classOf (closure b) i') ≤ classSize (classOf (closure b) i)))

theorem maxClosedB_iff (b : List (List Bool)) {i : Nat} (hi : i < b.length) :
    maxClosedB b i = true ↔ MaxClosed b b.length i := by
  rw [maxClosed_iff_exec b hi]
  unfold maxClosedB
  simp only [Bool.and_eq_true, List.all_eq_true, List.mem_range, Bool.or_eq_true, Bool.not_eq_true',
    decide_eq_true_eq]
  constructor
  · rintro ⟨h1, h2⟩
    refine ⟨h1, fun i' hi' hc' => ?_⟩
    rcases h2 i' hi' with h | h
    · rw [hc'] at h; cases h
    · exact h
  · rintro ⟨h1, h2⟩
    refine ⟨h1, fun i' hi' => ?_⟩
    cases hc' : isClosed b (classOf (closure b) i') with
    | false => exact Or.inl rfl
    | true => exact Or.inr (h2 i' hi' hc')

/-- executable check of `ClosedDominates` -/
def closedDominatesB (b : List (List Bool)) : Bool :=
  (List.range b.length).all (fun i => (List.range b.length).all (fun j =>
    !maxClosedB b i || isClosed b (classOf (closure b) j) ||
      decide (classSize (classOf (closure b) j) < classSize (classOf (closure b) i))))

theorem closedDominates_of_exec (b : List (List Bool)) (h : closedDominatesB b = true) :
    ClosedDominates b b.length := by
  intro i j hi hj hM hnc
  unfold closedDominatesB at h
  simp only [List.all_eq_true, List.mem_range, Bool.or_eq_true, Bool.not_eq_true', decide_eq_true_eq] at h
  rw [← classSize_classOf b hi, ← classSize_classOf b hj]
  rcases h i hi j hj with (h1 | h1) | h1
  · rw [(maxClosedB_iff b hi).mpr hM] at h1; cases h1
  · exact absurd ((isClosed_classOf_iff b hj).mp h1) hnc
  · exact h1

/-! ## Part E: the BFS period oracle is sound: `period = 1` implies that the class is aperiodic -/

theorem foldl_inv {α β : Type} (P : α → Prop) (f : α → β → α) (l : List β) (a : α) (h0 : P a)
    (hstep : ∀ a x, x ∈ l → P a → P (f a x)) : P (l.foldl f a) := by
  induction l generalizing a with
  | nil => exact h0
  | cons x xs ih =>
    exact ih (f a x) (hstep a x (List.mem_cons_self) h0) (fun a' y hy => hstep a' y (List.mem_cons_of_mem _ hy))

theorem foldl_min_mem_cons (xs : List Nat) (x : Nat) : xs.foldl min x ∈ x :: xs := by
  induction xs generalizing x with
  | nil => simp
  | cons y ys ih =>
    rw [List.foldl_cons]
    have := ih (min x y)
    rcases List.mem_cons.mp this with h | h
    · rw [h]
      rcases Nat.le_total x y with h' | h'
      · rw [Nat.min_eq_left h']; simp
      · rw [Nat.min_eq_right h']; simp
    · exact List.mem_cons_of_mem _ (List.mem_cons_of_mem _ h)

/-- one BFS round -/
def bfsRound (b : List (List Bool)) (cls : List Bool) (d : List (Option Nat)) : List (Option Nat) :=
  (List.range b.length).map (fun j =>
    match d.getD j none with
    | some x => some x
    | none =>
      if !cls.getD j false then none else
      match ((List.range b.length).filterMap (fun i =>
          match d.getD i none with
          | some x => if cls.getD i false && bent b i j then some (x + 1) else none
          | none => none)) with
      | [] => none
      | x :: xs => some (xs.foldl min x))

def bfsInit (b : List (List Bool)) (root : Nat) : List (Option Nat) :=
  (List.range b.length).map (fun i => if i = root then some 0 else none)

theorem bfs_eq (b : List (List Bool)) (cls : List Bool) (root : Nat) :
    bfs b cls root = (List.range b.length).foldl (fun d _ => bfsRound b cls d) (bfsInit b root) := rfl

/-- every label is the length of a walk from the root -/
def BfsSound (b : List (List Bool)) (root : Nat) (d : List (Option Nat)) : Prop :=
  ∀ j x, d.getD j none = some x → Walk b x root j

theorem bfsInit_sound (b : List (List Bool)) (root : Nat) : BfsSound b root (bfsInit b root) := by
  intro j x h
  unfold bfsInit at h
  by_cases hj : j < b.length
  · rw [getD_map_range _ _ _ hj] at h
    split at h
    · next e => injection h with h; subst h; subst e; rfl
    · cases h
  · rw [getD_of_ge _ _ (by simp; omega)] at h
    cases h

theorem bfsRound_sound (b : List (List Bool)) (cls : List Bool) (root : Nat) (d : List (Option Nat))
    (hd : BfsSound b root d) : BfsSound b root (bfsRound b cls d) := by
  intro j x h
  unfold bfsRound at h
  by_cases hj : j < b.length
  · rw [getD_map_range _ _ _ hj] at h
    split at h
    · next y hy => injection h with h; subst h; exact hd j _ hy
    · split at h
      · cases h
      · split at h
        · cases h
        · next y ys hys =>
          injection h with h
          have hmem : x ∈ y :: ys := by rw [← h]; exact foldl_min_mem_cons ys y
          rw [← hys, List.mem_filterMap] at hmem
          obtain ⟨i, _, hi⟩ := hmem
          split at hi
          · next x' hx' =>
            split at hi
            · next hc =>
              injection hi with hi
              subst hi
              simp only [Bool.and_eq_true] at hc
              exact ⟨i, hd i _ hx', hc.2⟩
            · cases hi
          · cases hi
  · rw [getD_of_ge _ _ (by simp; omega)] at h
    cases h

theorem bfs_sound (b : List (List Bool)) (cls : List Bool) (root : Nat) : BfsSound b root (bfs b cls root) := by
  rw [bfs_eq]
  exact foldl_inv (BfsSound b root) _ _ _ (bfsInit_sound b root) (fun d _ _ hd => bfsRound_sound b cls root d hd)

/-- differences of lengths of closed walks at `r` -/
def ClosedDiff (b : List (List Bool)) (r : Nat) (z : Int) : Prop :=
  ∃ a c : Nat, Walk b a r r ∧ Walk b c r r ∧ (a : Int) - (c : Int) = z

theorem ClosedDiff.zero (b : List (List Bool)) (r : Nat) : ClosedDiff b r 0 := ⟨0, 0, rfl, rfl, by simp⟩

theorem ClosedDiff.add {b : List (List Bool)} {r : Nat} {x y : Int} (hx : ClosedDiff b r x) (hy : ClosedDiff b r y) :
    ClosedDiff b r (x + y) := by
  obtain ⟨a1, c1, h1, h2, e1⟩ := hx
  obtain ⟨a2, c2, h3, h4, e2⟩ := hy
  refine ⟨a1 + a2, c1 + c2, h1.trans h3, h2.trans h4, ?_⟩
  push_cast
  omega

theorem ClosedDiff.neg {b : List (List Bool)} {r : Nat} {x : Int} (hx : ClosedDiff b r x) : ClosedDiff b r (-x) := by
  obtain ⟨a, c, h1, h2, e⟩ := hx
  exact ⟨c, a, h2, h1, by omega⟩

theorem ClosedDiff.nmul {b : List (List Bool)} {r : Nat} {x : Int} (hx : ClosedDiff b r x) (k : Nat) :
    ClosedDiff b r (x * (k : Int)) := by
  induction k with
  | zero => simpa using ClosedDiff.zero b r
  | succ k ih =>
    have : x * ((k + 1 : Nat) : Int) = x * (k : Int) + x := by push_cast; ring
    rw [this]
    exact ih.add hx

theorem ClosedDiff.zmul {b : List (List Bool)} {r : Nat} {x : Int} (hx : ClosedDiff b r x) (k : Int) :
    ClosedDiff b r (x * k) := by
  rcases Int.eq_nat_or_neg k with ⟨n, rfl | rfl⟩
  · exact hx.nmul n
  · rw [mul_neg]; exact (hx.nmul n).neg

theorem ClosedDiff.natAbs {b : List (List Bool)} {r : Nat} {x : Int} (hx : ClosedDiff b r x) :
    ClosedDiff b r (x.natAbs : Int) := by
  rcases Int.natAbs_eq x with h | h
  · rw [← h]; exact hx
  · have : (x.natAbs : Int) = -x := by omega
    rw [this]; exact hx.neg

theorem ClosedDiff.gcd {b : List (List Bool)} {r : Nat} {g δ : Nat} (hg : ClosedDiff b r (g : Int))
    (hδ : ClosedDiff b r (δ : Int)) : ClosedDiff b r ((Nat.gcd g δ : Nat) : Int) := by
  rw [Nat.gcd_eq_gcd_ab]
  exact (hg.zmul _).add (hδ.zmul _)

theorem Walk.iterate {b : List (List Bool)} {s w : Nat} (h : Walk b s w w) (t : Nat) : Walk b (s * t) w w := by
  induction t with
  | zero => exact rfl
  | succ t ih =>
    have := ih.trans h
    rwa [← Nat.mul_succ] at this

/-- closed walks of two consecutive lengths `c`, `c + 1` give closed walks of every length `≥ c²` -/
theorem closed_walks_eventually {b : List (List Bool)} {r c : Nat} (h1 : Walk b c r r) (h2 : Walk b (c + 1) r r)
    (k : Nat) (hk : c * c ≤ k) : Walk b k r r := by
  by_cases hc : c = 0
  · subst hc
    have := h2.iterate k
    simpa using this
  · have hc' : 0 < c := Nat.pos_of_ne_zero hc
    have hq : c ≤ k / c := (Nat.le_div_iff_mul_le hc').mpr hk
    have hr : k % c < c := Nat.mod_lt _ hc'
    have e : k = c * (k / c - k % c) + (c + 1) * (k % c) := by
      have h0 := Nat.div_add_mod k c
      have h3 : c * (k / c - k % c) + c * (k % c) = c * (k / c) := by
        rw [← Nat.mul_add, Nat.sub_add_cancel (by omega)]
      have h4 : (c + 1) * (k % c) = c * (k % c) + k % c := by rw [Nat.add_mul, Nat.one_mul]
      omega
    rw [e]
    exact (h1.iterate _).trans (h2.iterate _)

theorem exists_uniform_bound (n : Nat) (M : Nat → Prop) (Q : Nat → Nat → Prop)
    (h : ∀ u, u < n → M u → ∃ N, ∀ k, N ≤ k → Q u k) : ∃ N, ∀ u, u < n → M u → ∀ k, N ≤ k → Q u k := by
  induction n with
  | zero => exact ⟨0, fun u hu => absurd hu (Nat.not_lt_zero _)⟩
  | succ n ih =>
    obtain ⟨N1, h1⟩ := ih (fun u hu => h u (by omega))
    by_cases hM : M n
    · obtain ⟨N2, h2⟩ := h n (Nat.lt_succ_self n) hM
      refine ⟨max N1 N2, ?_⟩
      intro u hu hMu k hk
      by_cases hun : u = n
      · subst hun; exact h2 k (by omega)
      · exact h1 u (by omega) hMu k (by omega)
    · refine ⟨N1, ?_⟩
      intro u hu hMu k hk
      by_cases hun : u = n
      · subst hun; exact absurd hMu hM
      · exact h1 u (by omega) hMu k hk

/-- a class with closed walks of two consecutive lengths at one of its members is aperiodic -/
theorem aperiodic_of_consecutive {b : List (List Bool)} {n i r c : Nat} (hr : Comm b i r)
    (h1 : Walk b c r r) (h2 : Walk b (c + 1) r r) : AperiodicClass b n i := by
  have hto : ∃ N, ∀ u, u < n → Comm b i u → ∀ k, N ≤ k → Walk b k u r := by
    apply exists_uniform_bound
    intro u _ cu
    obtain ⟨p, hp⟩ := (cu.symm.trans hr).1
    refine ⟨p + c * c, fun k hk => ?_⟩
    have := hp.trans (closed_walks_eventually h1 h2 (k - p) (by omega))
    rwa [Nat.add_sub_cancel' (by omega)] at this
  have hfrom : ∃ N, ∀ v, v < n → Comm b i v → ∀ k, N ≤ k → Walk b k r v := by
    apply exists_uniform_bound
    intro v _ cv
    obtain ⟨p, hp⟩ := (hr.symm.trans cv).1
    refine ⟨p + c * c, fun k hk => ?_⟩
    have := (closed_walks_eventually h1 h2 (k - p) (by omega)).trans hp
    rwa [Nat.sub_add_cancel (by omega)] at this
  obtain ⟨N1, hN1⟩ := hto
  obtain ⟨N2, hN2⟩ := hfrom
  refine ⟨(N1 + 1) + N2, by omega, ?_⟩
  intro u v hu hv cu cv
  exact (hN1 u hu cu (N1 + 1) (by omega)).trans (hN2 v hv cv N2 (Nat.le_refl _))

/-- **the period oracle is sound for "aperiodic"**: if the BFS/gcd computation returns `1` on the class of `i`, the class
of `i` is aperiodic (primitive) -/
theorem aperiodic_of_period_one (b : List (List Bool)) {i : Nat} (hi : i < b.length)
    (h : period b (classOf (closure b) i) = 1) : AperiodicClass b b.length i := by
  unfold period at h
  simp only at h
  split at h
  · cases h
  · next root hroot =>
    have hmem : root ∈ (List.range b.length).filter (fun j => (classOf (closure b) i).getD j false) :=
      List.mem_of_mem_head? (by rw [hroot]; rfl)
    rw [List.mem_filter] at hmem
    have hcr : Comm b i root := ((classOf_closure_iff b hi).mp hmem.2).2
    have hsound := bfs_sound b (classOf (closure b) i) root
    have hD : ClosedDiff b root ((1 : Nat) : Int) := by
      rw [← h]
      apply foldl_inv (fun g : Nat => ClosedDiff b root (g : Int))
      · exact ClosedDiff.zero b root
      · intro g u _ hg
        apply foldl_inv (fun g : Nat => ClosedDiff b root (g : Int))
        · exact hg
        · intro g v _ hg
          split
          · next hcond =>
            simp only [Bool.and_eq_true] at hcond
            obtain ⟨⟨hu, hv⟩, he⟩ := hcond
            split
            · next du dv hdu hdv =>
              apply hg.gcd
              apply ClosedDiff.natAbs
              have wu := hsound u du hdu
              have wv := hsound v dv hdv
              have cv : Comm b i v := ((classOf_closure_iff b hi).mp hv).2
              obtain ⟨c, hc⟩ := (cv.symm.trans hcr).1
              refine ⟨du + 1 + c, dv + c, ?_, wv.trans hc, by push_cast; omega⟩
              exact (Walk.trans (c := 1) wu ((Walk.one_iff b u v).mpr he)).trans hc
            · exact hg
          · exact hg
    obtain ⟨a, c, h1, h2, e⟩ := hD
    have : a = c + 1 := by push_cast at e; omega
    subst this
    exact aperiodic_of_consecutive hcr h2 h1

/-! ## Part F: the executable hypothesis `maskHypothesis` implies the mathematical hypotheses -/

theorem mem_classes_iff (b : List (List Bool)) (c : List Bool) :
    c ∈ classes b ↔ ∃ i, i < b.length ∧ classOf (closure b) i = c := by
  unfold classes
  simp only [List.mem_eraseDups, List.mem_map, List.mem_range]

theorem boolList_ext {a b : List Bool} (hl : a.length = b.length)
    (h : ∀ i, i < a.length → (a.getD i false = true ↔ b.getD i false = true)) : a = b := by
  apply List.ext_getElem hl
  intro i h1 h2
  have := h i h1
  rw [getD_of_lt _ _ h1, getD_of_lt _ _ h2] at this
  exact Bool.eq_iff_iff.mpr this

/-- the three ingredients of a successful `maskHypothesis` -/
theorem maskHypothesis_unfold {m : Mat} {e : List Bool} (h : maskHypothesis m = some e) :
    (∀ c ∈ (classes (support m)).filter (isClosed (support m)), period (support m) c = 1) ∧
    (∀ c ∈ classes (support m), isClosed (support m) c = false →
      classSize c < (((classes (support m)).filter (isClosed (support m))).map classSize).foldl max 0) ∧
    e = (List.range m.length).map (fun i => ((classes (support m)).filter (isClosed (support m))).any
      (fun c => c.getD i false &&
        classSize c == (((classes (support m)).filter (isClosed (support m))).map classSize).foldl max 0)) := by
  unfold maskHypothesis at h
  simp only at h
  split at h
  · next hcond =>
    injection h with h
    rw [Bool.and_eq_true, List.all_eq_true, List.all_eq_true] at hcond
    refine ⟨?_, ?_, h.symm⟩
    · intro c hc
      simpa using hcond.1 c hc
    · intro c hc hcl
      have := hcond.2 c (List.mem_filter.mpr ⟨hc, by simp [hcl]⟩)
      simp only [Bool.and_eq_true, decide_eq_true_eq] at this
      exact this.2
  · cases h

/-- **the executable hypothesis implies the mathematical one**: if `maskHypothesis` succeeds with `e`, then every closed
class is aperiodic, the largest closed classes dominate the non-closed ones, and `e` marks exactly the members of the
largest closed classes -/
theorem hyps_of_maskHypothesis {m : Mat} {e : List Bool} (hn : 0 < m.length) (h : maskHypothesis m = some e) :
    ClassesOK (support m) m.length ∧ ClosedDominates (support m) m.length ∧ e.length = m.length ∧
    ∀ i, i < m.length → (e.getD i false = true ↔ MaxClosed (support m) m.length i) := by
  obtain ⟨hper, htr, he⟩ := maskHypothesis_unfold h
  have hlen := support_length m
  rw [← hlen] at hn he ⊢
  clear hlen
  generalize support m = b at *
  generalize hcl : (classes b).filter (isClosed b) = closed at *
  generalize hmx : (closed.map classSize).foldl max 0 = mx at *
  have hmemc : ∀ i, i < b.length → ClosedClass b b.length i → classOf (closure b) i ∈ closed := by
    intro i hi hc
    rw [← hcl, List.mem_filter]
    exact ⟨(mem_classes_iff b _).mpr ⟨i, hi, rfl⟩, (isClosed_classOf_iff b hi).mpr hc⟩
  have hofmem : ∀ c ∈ closed, ∃ i, i < b.length ∧ ClosedClass b b.length i ∧ classOf (closure b) i = c := by
    intro c hc
    rw [← hcl, List.mem_filter] at hc
    obtain ⟨i, hi, rfl⟩ := (mem_classes_iff b c).mp hc.1
    exact ⟨i, hi, (isClosed_classOf_iff b hi).mp hc.2, rfl⟩
  have hle : ∀ i, i < b.length → ClosedClass b b.length i → classCard b b.length i ≤ mx := by
    intro i hi hc
    rw [← classSize_classOf b hi, ← hmx]
    exact (le_foldl_max _ 0).2 _ (List.mem_map.mpr ⟨_, hmemc i hi hc, rfl⟩)
  have hatt : ∃ i0, i0 < b.length ∧ ClosedClass b b.length i0 ∧ classCard b b.length i0 = mx := by
    obtain ⟨i1, hi1, hc1⟩ := exists_closed_class b hn
    have h1 := hle i1 hi1 hc1
    have h2 := classCard_pos (b := b) hi1
    rcases foldl_max_mem (closed.map classSize) 0 with h3 | h3
    · rw [hmx] at h3; omega
    · rw [hmx, List.mem_map] at h3
      obtain ⟨c, hc, hs⟩ := h3
      obtain ⟨i0, hi0, hc0, rfl⟩ := hofmem c hc
      exact ⟨i0, hi0, hc0, by rw [← classSize_classOf b hi0]; exact hs⟩
  have hmax : ∀ i, i < b.length → (MaxClosed b b.length i ↔ ClosedClass b b.length i ∧ classCard b b.length i = mx) := by
    intro i hi
    constructor
    · rintro ⟨hc, hm⟩
      obtain ⟨i0, hi0, hc0, hs0⟩ := hatt
      have := hm i0 hi0 hc0
      have := hle i hi hc
      exact ⟨hc, by omega⟩
    · rintro ⟨hc, hs⟩
      exact ⟨hc, fun i' hi' hc' => by rw [hs]; exact hle i' hi' hc'⟩
  refine ⟨?_, ?_, ?_, ?_⟩
  · intro i hi hc
    exact aperiodic_of_period_one b hi (hper _ (hmemc i hi hc))
  · intro i j hi hj hM hnc
    rw [((hmax i hi).mp hM).2, ← classSize_classOf b hj]
    apply htr _ ((mem_classes_iff b _).mpr ⟨j, hj, rfl⟩)
    cases hcj : isClosed b (classOf (closure b) j) with
    | false => rfl
    | true => exact absurd ((isClosed_classOf_iff b hj).mp hcj) hnc
  · rw [he]; simp
  · intro i hi
    rw [he, getD_map_range _ _ _ hi, hmax i hi, List.any_eq_true]
    constructor
    · rintro ⟨c, hc, hci⟩
      rw [Bool.and_eq_true, beq_iff_eq] at hci
      obtain ⟨i', hi', hc', rfl⟩ := hofmem c hc
      have hcomm := ((classOf_closure_iff b hi').mp hci.1).2
      have heq := classOf_closure_congr b hi' hi hcomm
      refine ⟨?_, ?_⟩
      · rw [← isClosed_classOf_iff b hi, ← heq]; exact (isClosed_classOf_iff b hi').mpr hc'
      · rw [← classSize_classOf b hi, ← heq]; exact hci.2
    · rintro ⟨hc, hs⟩
      refine ⟨_, hmemc i hi hc, ?_⟩
      rw [Bool.and_eq_true, beq_iff_eq]
      exact ⟨(classOf_closure_iff b hi).mpr ⟨hi, Comm.refl b i⟩, by rw [classSize_classOf b hi]; exact hs⟩

/-! ## Part G: the BFS labels every member of the class, and the period divides every closed walk length -/

theorem bfsRound_keeps (b : List (List Bool)) (cls : List Bool) (d : List (Option Nat)) {j x : Nat}
    (hj : j < b.length) (h : d.getD j none = some x) : (bfsRound b cls d).getD j none = some x := by
  unfold bfsRound
  rw [getD_map_range _ _ _ hj, h]

theorem bfsRound_iter_succ (b : List (List Bool)) (cls : List Bool) (d0 : List (Option Nat)) (t : Nat) :
    (List.range (t + 1)).foldl (fun d _ => bfsRound b cls d) d0 =
      bfsRound b cls ((List.range t).foldl (fun d _ => bfsRound b cls d) d0) := by
  rw [List.range_succ, List.foldl_append, List.foldl_cons, List.foldl_nil]

/-- after `t` rounds every class member at walk distance `≤ t` from the root carries a label -/
theorem bfs_rounds_complete (b : List (List Bool)) {i root : Nat} (hi : i < b.length)
    (hcr : Comm b i root) (t : Nat) :
    ∀ j k, k ≤ t → j < b.length → Comm b i j → Walk b k root j →
      ∃ x, ((List.range t).foldl (fun d _ => bfsRound b (classOf (closure b) i) d) (bfsInit b root)).getD j none
        = some x := by
  induction t with
  | zero =>
    intro j k hk hj _ hw
    have : k = 0 := by omega
    subst this
    have : root = j := hw
    subst this
    refine ⟨0, ?_⟩
    simp only [List.range_zero, List.foldl_nil, bfsInit]
    rw [getD_map_range _ _ _ hj]
    simp
  | succ t ih =>
    intro j k hk hj hcj hw
    rw [bfsRound_iter_succ]
    generalize hd : (List.range t).foldl (fun d _ => bfsRound b (classOf (closure b) i) d) (bfsInit b root) = d at ih
    by_cases hkt : k ≤ t
    · obtain ⟨x, hx⟩ := ih j k hkt hj hcj hw
      exact ⟨x, bfsRound_keeps b _ d hj hx⟩
    · have : k = t + 1 := by omega
      subst this
      obtain ⟨l, h1, h2⟩ := hw
      have hl : l < b.length := bent_lt_length h2
      have hcl : Comm b i l := Comm.of_split hcr hcj h1 ((Walk.one_iff b l j).mpr h2)
      obtain ⟨xl, hxl⟩ := ih l t (Nat.le_refl t) hl hcl h1
      cases hdj : d.getD j none with
      | some x => exact ⟨x, bfsRound_keeps b _ d hj hdj⟩
      | none =>
        unfold bfsRound
        rw [getD_map_range _ _ _ hj, hdj]
        simp only
        rw [(classOf_closure_iff b hi).mpr ⟨hj, hcj⟩]
        simp only [Bool.not_true, Bool.false_eq_true, ↓reduceIte]
        generalize hL : List.filterMap _ (List.range b.length) = L
        have hmem : xl + 1 ∈ L := by
          rw [← hL, List.mem_filterMap]
          refine ⟨l, List.mem_range.mpr hl, ?_⟩
          rw [hxl]
          simp only
          rw [(classOf_closure_iff b hi).mpr ⟨hl, hcl⟩, h2]
          simp
        cases L with
        | nil => cases hmem
        | cons y ys => exact ⟨_, rfl⟩

/-- every vertex that is reachable at all is reachable within `n - 1` steps -/
theorem short_walk {b : List (List Bool)} {n u v : Nat} (hb : b.length ≤ n) (hu : u < n) (hv : v < n)
    (h : Reach b u v) : ∃ k, k + 1 ≤ n ∧ Walk b k u v := by
  obtain ⟨k0, hk0⟩ := h
  obtain ⟨k, w, hw, hk, hbound⟩ := hit_bound (adj := patAdj b n) {(⟨v, hv⟩ : Fin n)} ⟨u, hu⟩
    ⟨k0, ⟨v, hv⟩, Finset.mem_singleton_self _, (walk_iff_W hb k0 ⟨u, hu⟩ ⟨v, hv⟩).mp hk0⟩
  rw [Finset.mem_singleton] at hw
  subst hw
  rw [Finset.card_singleton, Fintype.card_fin] at hbound
  exact ⟨k, hbound, (walk_iff_W hb k ⟨u, hu⟩ ⟨v, hv⟩).mpr hk⟩

/-- **BFS completeness**: after the `n` rounds of `bfs` every member of the class carries a label -/
theorem bfs_complete (b : List (List Bool)) {i root : Nat} (hi : i < b.length) (hroot : root < b.length)
    (hcr : Comm b i root) {j : Nat} (hj : j < b.length) (hcj : Comm b i j) :
    ∃ x, (bfs b (classOf (closure b) i) root).getD j none = some x := by
  obtain ⟨k, hk, hw⟩ := short_walk (Nat.le_refl _) hroot hj (hcr.symm.trans hcj).1
  rw [bfs_eq]
  exact bfs_rounds_complete b hi hcr b.length j k (by omega) hj hcj hw

theorem bfs_root (b : List (List Bool)) (cls : List Bool) {root : Nat} (hroot : root < b.length) :
    (bfs b cls root).getD root none = some 0 := by
  rw [bfs_eq]
  apply foldl_inv (fun d : List (Option Nat) => d.getD root none = some 0)
  · unfold bfsInit
    rw [getD_map_range _ _ _ hroot]
    simp
  · intro d _ _ hd
    exact bfsRound_keeps b cls d hroot hd

theorem foldl_dvd_acc {β : Type} (f : Nat → β → Nat) (hf : ∀ g x, f g x ∣ g) (l : List β) (g : Nat) :
    l.foldl f g ∣ g := by
  induction l generalizing g with
  | nil => exact Nat.dvd_refl g
  | cons y ys ih => exact Nat.dvd_trans (ih (f g y)) (hf g y)

theorem foldl_dvd_term {β : Type} (f : Nat → β → Nat) (t : β → Nat) (hf : ∀ g x, f g x ∣ g)
    (hft : ∀ g x, f g x ∣ t x) (l : List β) (g : Nat) : ∀ x ∈ l, l.foldl f g ∣ t x := by
  induction l generalizing g with
  | nil => intro x hx; cases hx
  | cons y ys ih =>
    intro x hx
    rcases List.mem_cons.mp hx with h | h
    · subst h
      exact Nat.dvd_trans (foldl_dvd_acc f hf ys (f g x)) (hft g x)
    · exact ih (f g y) x h

/-- the value of `period` on a class with first member `root` -/
theorem period_eq_of_head (b : List (List Bool)) (cls : List Bool) {root : Nat}
    (h : ((List.range b.length).filter (fun i => cls.getD i false)).head? = some root) :
    period b cls = (List.range b.length).foldl (fun g u =>
      (List.range b.length).foldl (fun g v =>
        if cls.getD u false && cls.getD v false && bent b u v then
          match (bfs b cls root).getD u none, (bfs b cls root).getD v none with
          | some du, some dv => Nat.gcd g (Int.natAbs ((du : Int) + 1 - (dv : Int)))
          | _, _ => g
        else g) g) 0 := by
  unfold period
  simp only
  rw [h]
  rfl

/-- the period divides the discrepancy `d(u) + 1 - d(v)` of every labelled edge inside the class -/
theorem period_dvd_edge (b : List (List Bool)) (cls : List Bool) {root : Nat}
    (h : ((List.range b.length).filter (fun i => cls.getD i false)).head? = some root)
    {u v du dv : Nat} (hu : u < b.length) (hv : v < b.length) (cu : cls.getD u false = true)
    (cv : cls.getD v false = true) (he : bent b u v = true) (hdu : (bfs b cls root).getD u none = some du)
    (hdv : (bfs b cls root).getD v none = some dv) :
    ((period b cls : Nat) : Int) ∣ (du : Int) + 1 - (dv : Int) := by
  rw [← Int.dvd_natAbs, Int.natCast_dvd_natCast, period_eq_of_head b cls h]
  generalize hd : bfs b cls root = d at hdu hdv
  -- inner step and its term
  let fin : Nat → Nat → Nat → Nat := fun u g v =>
    if cls.getD u false && cls.getD v false && bent b u v then
      match d.getD u none, d.getD v none with
      | some du, some dv => Nat.gcd g (Int.natAbs ((du : Int) + 1 - (dv : Int)))
      | _, _ => g
    else g
  have hfin_acc : ∀ u g v, fin u g v ∣ g := by
    intro u g v
    simp only [fin]
    split
    · split
      · exact Nat.gcd_dvd_left _ _
      · exact Nat.dvd_refl g
    · exact Nat.dvd_refl g
  change (List.range b.length).foldl (fun g u => (List.range b.length).foldl (fin u) g) 0 ∣ _
  have hout_acc : ∀ g u, (List.range b.length).foldl (fin u) g ∣ g :=
    fun g u => foldl_dvd_acc (fin u) (hfin_acc u) _ g
  -- outer term: at `u`, the inner fold divides the discrepancy of `(u, v)`
  let tout : Nat → Nat := fun u' => if u' = u then Int.natAbs ((du : Int) + 1 - (dv : Int)) else 0
  have hout_term : ∀ g u', (List.range b.length).foldl (fin u') g ∣ tout u' := by
    intro g u'
    simp only [tout]
    split
    · next e =>
      subst e
      let tin : Nat → Nat := fun v' => if v' = v then Int.natAbs ((du : Int) + 1 - (dv : Int)) else 0
      have : (List.range b.length).foldl (fin u') g ∣ tin v := by
        apply foldl_dvd_term (fin u') tin (hfin_acc u') _ _ g v (List.mem_range.mpr hv)
        intro g' v'
        simp only [tin]
        split
        · next e' =>
          subst e'
          simp only [fin, cu, cv, he, Bool.and_self, ↓reduceIte, hdu, hdv]
          exact Nat.gcd_dvd_right _ _
        · exact Nat.dvd_zero _
      simpa [tin] using this
    · exact Nat.dvd_zero _
  have := foldl_dvd_term (fun g u => (List.range b.length).foldl (fin u) g) tout hout_acc hout_term
    (List.range b.length) 0 u (List.mem_range.mpr hu)
  simpa [tout] using this

/-- the first member of the class of `i` exists and is a member -/
theorem class_head (b : List (List Bool)) {i : Nat} (hi : i < b.length) :
    ∃ root, ((List.range b.length).filter (fun j => (classOf (closure b) i).getD j false)).head? = some root ∧
      root < b.length ∧ Comm b i root := by
  have hmem : i ∈ (List.range b.length).filter (fun j => (classOf (closure b) i).getD j false) := by
    rw [List.mem_filter]
    exact ⟨List.mem_range.mpr hi, (classOf_closure_iff b hi).mpr ⟨hi, Comm.refl b i⟩⟩
  cases hh : ((List.range b.length).filter (fun j => (classOf (closure b) i).getD j false)).head? with
  | none =>
    rw [List.head?_eq_none_iff] at hh
    rw [hh] at hmem
    cases hmem
  | some root =>
    have hr : root ∈ (List.range b.length).filter (fun j => (classOf (closure b) i).getD j false) :=
      List.mem_of_mem_head? (by rw [hh]; rfl)
    rw [List.mem_filter] at hr
    exact ⟨root, rfl, List.mem_range.mp hr.1, ((classOf_closure_iff b hi).mp hr.2).2⟩

/-- telescoping the edge discrepancies along a walk from the root: the period divides `k - d(j)` -/
theorem period_dvd_walk (b : List (List Bool)) {i root : Nat} (hi : i < b.length)
    (hh : ((List.range b.length).filter (fun j => (classOf (closure b) i).getD j false)).head? = some root)
    (hroot : root < b.length) (hcr : Comm b i root) (k : Nat) {j : Nat} (hj : j < b.length) (hcj : Comm b i j)
    (hw : Walk b k root j) :
    ∃ x, (bfs b (classOf (closure b) i) root).getD j none = some x ∧
      ((period b (classOf (closure b) i) : Nat) : Int) ∣ (k : Int) - (x : Int) := by
  induction k generalizing j with
  | zero =>
    have : root = j := hw
    subst this
    exact ⟨0, bfs_root b _ hroot, by simp⟩
  | succ k ih =>
    obtain ⟨l, h1, h2⟩ := hw
    have hl : l < b.length := bent_lt_length h2
    have hcl : Comm b i l := Comm.of_split hcr hcj h1 ((Walk.one_iff b l j).mpr h2)
    obtain ⟨xl, hxl, hdvd⟩ := ih hl hcl h1
    obtain ⟨xj, hxj⟩ := bfs_complete b hi hroot hcr hj hcj
    refine ⟨xj, hxj, ?_⟩
    have hedge := period_dvd_edge b (classOf (closure b) i) hh hl hj
      ((classOf_closure_iff b hi).mpr ⟨hl, hcl⟩) ((classOf_closure_iff b hi).mpr ⟨hj, hcj⟩) h2 hxl hxj
    have e : ((k + 1 : Nat) : Int) - (xj : Int) = ((k : Int) - (xl : Int)) + ((xl : Int) + 1 - (xj : Int)) := by
      push_cast; ring
    rw [e]
    exact Int.dvd_add hdvd hedge

/-- **the period oracle is complete for "aperiodic"**: if some member of the class of `i` has closed walks of two
consecutive lengths then the BFS/gcd computation returns `1` -/
theorem period_one_of_consecutive (b : List (List Bool)) {i : Nat} (hi : i < b.length)
    (hcons : ∀ r, r < b.length → Comm b i r → ∃ c, Walk b c r r ∧ Walk b (c + 1) r r) :
    period b (classOf (closure b) i) = 1 := by
  obtain ⟨root, hh, hroot, hcr⟩ := class_head b hi
  obtain ⟨c, h1, h2⟩ := hcons root hroot hcr
  obtain ⟨x1, hx1, hd1⟩ := period_dvd_walk b hi hh hroot hcr c hroot hcr h1
  obtain ⟨x2, hx2, hd2⟩ := period_dvd_walk b hi hh hroot hcr (c + 1) hroot hcr h2
  rw [bfs_root b _ hroot] at hx1 hx2
  injection hx1 with hx1
  injection hx2 with hx2
  subst hx1
  subst hx2
  have : ((period b (classOf (closure b) i) : Nat) : Int) ∣ 1 := by
    have := Int.dvd_sub hd2 hd1
    have e : ((c + 1 : Nat) : Int) - ((0 : Nat) : Int) - ((c : Int) - ((0 : Nat) : Int)) = 1 := by push_cast; ring
    rwa [e] at this
  have := Int.natCast_dvd_natCast.mp (by simpa using this : ((period b (classOf (closure b) i) : Nat) : Int) ∣ ((1 : Nat) : Int))
  exact Nat.dvd_one.mp this

/-- members of an aperiodic class have closed walks of two consecutive lengths -/
theorem consecutive_of_aperiodic {b : List (List Bool)} {n i : Nat} (hb : b.length ≤ n)
    (hap : AperiodicClass b n i) {r : Nat} (hr : r < n) (hcr : Comm b i r) :
    ∃ c, Walk b c r r ∧ Walk b (c + 1) r r := by
  obtain ⟨k, hk, hw⟩ := hap
  refine ⟨k, hw r r hr hr hcr hcr, ?_⟩
  have h := hw r r hr hr hcr hcr
  obtain ⟨k', rfl⟩ : ∃ k', k = k' + 1 := ⟨k - 1, by omega⟩
  obtain ⟨l, h1, h2⟩ := h
  have hl : l < n := Nat.lt_of_lt_of_le (bent_lt_length h2) hb
  have hcl : Comm b i l := Comm.of_split hcr hcr h1 ((Walk.one_iff b l r).mpr h2)
  exact ⟨l, hw r l hr hl hcr hcl, h2⟩

/-- **the period oracle decides aperiodicity**: the BFS/gcd computation returns `1` on the class of `i` iff that class is
aperiodic (primitive) -/
theorem period_one_iff_aperiodic (b : List (List Bool)) {i : Nat} (hi : i < b.length) :
    period b (classOf (closure b) i) = 1 ↔ AperiodicClass b b.length i :=
  ⟨aperiodic_of_period_one b hi,
    fun hap => period_one_of_consecutive b hi (fun _ hr hcr => consecutive_of_aperiodic (Nat.le_refl _) hap hr hcr)⟩

/-! ## Part H: the graph oracle on an ergodic matrix (C04) -/

/-- the membership list of the only class of a strongly connected graph -/
def allTrueL (n : Nat) : List Bool := (List.range n).map (fun _ => true)

theorem eraseDups_const {α : Type} [BEq α] [LawfulBEq α] (a : α) (l : List α) (h : ∀ x ∈ l, x = a) :
    (a :: l).eraseDups = [a] := by
  rw [List.eraseDups_cons]
  have : l.filter (fun b => !b == a) = [] := by
    rw [List.filter_eq_nil_iff]
    intro x hx
    simp [h x hx]
  rw [this, List.eraseDups_nil]

/-- strongly connected: one class, containing every vertex -/
theorem classOf_of_sc (b : List (List Bool)) (hsc : ∀ i j, i < b.length → j < b.length → Reach b i j)
    {i : Nat} (hi : i < b.length) : classOf (closure b) i = allTrueL b.length := by
  unfold classOf allTrueL
  rw [length_closure]
  apply List.map_congr_left
  intro j hj
  have hj' := List.mem_range.mp hj
  rw [Bool.and_eq_true, bent_closure_iff b hi hj', bent_closure_iff b hj' hi]
  exact ⟨hsc i j hi hj', hsc j i hj' hi⟩

theorem classes_of_sc (b : List (List Bool)) (hn : 0 < b.length)
    (hsc : ∀ i j, i < b.length → j < b.length → Reach b i j) : classes b = [allTrueL b.length] := by
  unfold classes
  simp only
  have h1 : (List.range b.length).map (classOf (closure b)) = (List.range b.length).map (fun _ => allTrueL b.length) := by
    apply List.map_congr_left
    intro i hi
    exact classOf_of_sc b hsc (List.mem_range.mp hi)
  rw [h1]
  obtain ⟨k, hk⟩ : ∃ k, b.length = k + 1 := ⟨b.length - 1, by omega⟩
  rw [hk, List.range_succ_eq_map, List.map_cons]
  apply eraseDups_const
  intro x hx
  simp only [List.mem_map] at hx
  obtain ⟨_, _, rfl⟩ := hx
  rfl

/-- the graph facts about an ergodic non-negative matrix that the oracle evaluates -/
theorem oracle_of_isErgodic {T : Mat} (p : NonNeg T) (h : isErgodic T = true) :
    classes (support T) = [allTrueL T.length] ∧ isClosed (support T) (allTrueL T.length) = true ∧
    period (support T) (allTrueL T.length) = 1 := by
  have ht := isTmat_of_isErgodic h
  have hn : 0 < T.length := by have := two_le_of_isTmat ht; omega
  have hlen := support_length T
  have hsc : ∀ i j, i < (support T).length → j < (support T).length → Reach (support T) i j := by
    intro i j hi hj
    rw [hlen] at hi hj
    exact ⟨_, walk_of_isErgodic p h hi hj⟩
  have h0 : 0 < (support T).length := by rw [hlen]; exact hn
  have hc0 := classOf_of_sc (support T) hsc h0
  rw [← hlen]
  refine ⟨classes_of_sc (support T) h0 hsc, ?_, ?_⟩
  · rw [← hc0, isClosed_classOf_iff (support T) h0]
    intro u v hu hv _ _
    exact ⟨hsc 0 v h0 hv, hsc v 0 hv h0⟩
  · rw [← hc0]
    apply period_one_of_consecutive (support T) h0
    intro r hr _
    rw [hlen] at hr
    exact ⟨_, consecutive_closed_walks p h hr⟩

theorem graphErgodic_of_isErgodic {T : Mat} (p : NonNeg T) (h : isErgodic T = true) : graphErgodic T = true := by
  obtain ⟨h1, _, h3⟩ := oracle_of_isErgodic p h
  unfold graphErgodic
  simp only
  rw [h1, isTmat_of_isErgodic h]
  simp [h3]

theorem uniqueLargestClosed_of_isErgodic {T : Mat} (p : NonNeg T) (h : isErgodic T = true) :
    uniqueLargestClosed T = some (allTrueL T.length) := by
  obtain ⟨h1, h2, h3⟩ := oracle_of_isErgodic p h
  unfold uniqueLargestClosed
  simp only
  rw [h1]
  simp [h2, h3]

theorem getD_allTrueL {n i : Nat} (hi : i < n) : (allTrueL n).getD i false = true := by
  unfold allTrueL
  rw [getD_map_range _ _ _ hi]

theorem maskIdx_allTrueL (n : Nat) : maskIdx n (allTrueL n) = List.range n := by
  unfold maskIdx
  rw [List.filter_eq_self]
  intro i hi
  exact getD_allTrueL (List.mem_range.mp hi)

theorem restrict_allTrueL {n : Nat} {T : Mat} (hw : WF n T) : restrict T (allTrueL T.length) = T := by
  rw [restrict_eq, maskIdx_allTrueL, hw.1]
  apply Mat.ext (n := n) _ hw
  · intro i j hi hj
    unfold entry
    rw [getD_map_range _ _ _ hi, getD_map_range _ _ _ hj]
  · refine ⟨by simp, ?_⟩
    intro r hr
    simp only [List.mem_map] at hr
    obtain ⟨_, _, rfl⟩ := hr
    simp

theorem idxOf?_range {n i : Nat} (hi : i < n) : (List.range n).idxOf? i = some i := by
  have := idxOf?_getElem_of_nodup (l := List.range n) List.nodup_range (a := i) (by simpa using hi)
  simpa using this

theorem embed_allTrueL {n : Nat} {v : Vec} (hv : v.length = n) : embed v (allTrueL n) = v := by
  have hl : (allTrueL n).length = n := by simp [allTrueL]
  apply vec_ext (n := n) (by rw [length_embed, hl]) hv
  intro i hi
  rw [embed_eq, hl, getD_map_range _ _ _ hi, maskIdx_allTrueL, idxOf?_range hi]

theorem all_zip_self (v : Vec) (tol : Rat) (htol : 0 ≤ tol) :
    (List.zip v v).all (fun (a, b) => decide (absQ (a - b) ≤ tol)) = true := by
  rw [List.all_eq_true]
  intro q hq
  have : q.1 = q.2 := by
    induction v with
    | nil => cases hq
    | cons x xs ih =>
      rw [List.zip_cons_cons, List.mem_cons] at hq
      rcases hq with hq | hq
      · rw [hq]
      · exact ih hq
  obtain ⟨a, c⟩ := q
  simp only at this
  subst this
  simp [absQ_zero, htol]

/-- **C04, ergodic case**: the exact stationary vector returned by the model for an ergodic non-negative matrix with
unit row sums is accepted by the oracle `holdsPeq`, whatever the flag -/
theorem holdsPeq_of_isErgodic {T : Mat} (p : NonNeg T) (hrow : ∀ r ∈ T, r.sum = 1) (h : isErgodic T = true)
    {v : Vec} (hs : stationary T = some v) (allow : Bool) : holdsPeq T allow (.ok v) = true := by
  have hw := WF_of_isTmat (isTmat_of_isErgodic h)
  have hv : v.length = T.length := by
    have := (stationary_spec hw hs).1
    rw [← this]
    exact length_vecMat hw v
  unfold holdsPeq
  simp only
  rw [graphErgodic_of_isErgodic p h, uniqueLargestClosed_of_isErgodic p h]
  simp only
  rw [restrict_allTrueL hw, rowNormalizeQ_eq_self hrow, hs]
  simp only
  rw [embed_allTrueL hv, all_zip_self v _ (by norm_num)]
  simp [hv]

/-! ## Part I: completeness of the Gauss–Jordan solver on irreducible stochastic matrices -/

theorem gjStep_none_iff {aug : Mat} {c : Nat} :
    gjStep aug c = none ↔ ∀ r, r < aug.length → c ≤ r → entry aug r c = 0 := by
  unfold gjStep
  simp only
  constructor
  · intro h
    split at h
    · next hnone =>
      rw [List.head?_eq_none_iff, List.filter_eq_nil_iff] at hnone
      intro r hr hcr
      have := hnone r (List.mem_range.mpr hr)
      simpa [hcr] using this
    · cases h
  · intro h
    have : ((List.range aug.length).filter (fun r => decide (c ≤ r) && entry aug r c != 0)).head? = none := by
      rw [List.head?_eq_none_iff, List.filter_eq_nil_iff]
      intro r hr
      have hr' := List.mem_range.mp hr
      by_cases hcr : c ≤ r
      · simp [h r hr' hcr]
      · simp [hcr]
    rw [this]

/-- a square matrix with trivial kernel is inverted by the exact Gauss–Jordan elimination -/
theorem inverse_complete {n : Nat} {m : Mat} (h : WF n m)
    (hker : ∀ y : Nat → Rat, (∀ r, r < n → rsum n (fun k => entry m r k * y k) = 0) → ∀ k, k < n → y k = 0) :
    ∃ inv, inverse m = some inv := by
  have hrun : ∀ c, c ≤ n → ∃ a, gjRun (aug0 m) c = some a := by
    intro c
    induction c with
    | zero => intro _; exact ⟨aug0 m, rfl⟩
    | succ c ih =>
      intro hc
      obtain ⟨a, ha⟩ := ih (by omega)
      rw [gjRun_succ, ha]
      show ∃ a', gjStep a c = some a'
      cases hstep : gjStep a c with
      | some a' => exact ⟨a', rfl⟩
      | none =>
        exfalso
        obtain ⟨hw, hI, hphi⟩ := gjRun_spec (RWF_aug0 h) (Nat.le_add_right n n) c (by omega) ha
        rw [gjStep_none_iff, hw.1] at hstep
        let w : Nat → Rat := fun k => if k < c then -(entry a k c) else if k = c then 1 else 0
        have hz : ∀ r, r < n → rowPhi (n + n) w a r = 0 := by
          intro r hr
          unfold rowPhi
          rw [rsum_eq_finset]
          have e : ∀ k ∈ Finset.range (n + n), entry a r k * w k =
              (if r = k then (if k < c then -(entry a k c) else 0) else 0) +
              (if c = k then entry a r c else 0) := by
            intro k _
            simp only [w]
            by_cases hkc : k < c
            · rw [if_pos hkc, hI r k hr hkc, if_neg (by omega : ¬ c = k)]
              by_cases hrk : r = k
              · subst hrk; simp [hkc]
              · simp [hrk]
            · rw [if_neg hkc, if_neg hkc]
              by_cases hkc' : k = c
              · subst hkc'; simp
              · simp [hkc', Ne.symm hkc']
          rw [Finset.sum_congr rfl e, Finset.sum_add_distrib, Finset.sum_ite_eq, Finset.sum_ite_eq,
            if_pos (Finset.mem_range.mpr (by omega)), if_pos (Finset.mem_range.mpr (by omega))]
          by_cases hrc : r < c
          · rw [if_pos hrc]; ring
          · rw [if_neg hrc, hstep r hr (by omega)]; ring
        have h0 := (hphi w).mpr hz
        have hy : ∀ r, r < n → rsum n (fun k => entry m r k * w k) = 0 := by
          intro r hr
          have := h0 r hr
          rw [rowPhi_aug0 h w hr] at this
          have e2 : w (n + r) = 0 := by
            simp only [w]
            rw [if_neg (by omega), if_neg (by omega)]
          rw [e2, add_zero] at this
          exact this
        have := hker w hy c (by omega)
        simp [w] at this
  obtain ⟨a, ha⟩ := hrun n (Nat.le_refl n)
  rw [inverse_eq, h.1, ha]
  exact ⟨_, rfl⟩

/-- a row vector that satisfies all but the last fixed-point equation of a matrix with unit row sums satisfies the
last one too -/
theorem last_fixed_eq {n : Nat} {T : Mat} (hn : 1 ≤ n)
    (hrow : ∀ i, i < n → ∑ j ∈ Finset.range n, entry T i j = 1) (z : Nat → Rat)
    (hz : ∀ l, l < n - 1 → ∑ k ∈ Finset.range n, z k * entry T k l = z l) :
    ∑ k ∈ Finset.range n, z k * entry T k (n - 1) = z (n - 1) := by
  have htot : ∑ l ∈ Finset.range n, (∑ k ∈ Finset.range n, z k * entry T k l - z l) = 0 := by
    rw [Finset.sum_sub_distrib, Finset.sum_comm]
    have : ∀ k ∈ Finset.range n, ∑ l ∈ Finset.range n, z k * entry T k l = z k := by
      intro k hk
      rw [← Finset.mul_sum, hrow k (Finset.mem_range.mp hk), mul_one]
    rw [Finset.sum_congr rfl this, sub_self]
  obtain ⟨n', rfl⟩ : ∃ n', n = n' + 1 := ⟨n - 1, by omega⟩
  rw [Finset.sum_range_succ] at htot
  have hz0 : ∑ l ∈ Finset.range n', (∑ k ∈ Finset.range (n' + 1), z k * entry T k l - z l) = 0 := by
    apply Finset.sum_eq_zero
    intro l hl
    rw [hz l (by have := Finset.mem_range.mp hl; omega), sub_self]
  rw [hz0, zero_add] at htot
  rw [Nat.add_sub_cancel]
  linarith

theorem statMatrix_row_lt {n : Nat} {T : Mat} (h : WF n T) (y : Nat → Rat) {l : Nat} (hl : l < n - 1) :
    rsum n (fun k => entry (statMatrix T) l k * y k) = ∑ k ∈ Finset.range n, y k * entry T k l - y l := by
  rw [rsum_congr (g := fun k => y k * entry T k l - (if l = k then y k else 0))
    (fun k hk => by rw [entry_statMatrix_lt h hl hk]; split <;> ring)]
  rw [rsum_eq_finset, Finset.sum_sub_distrib, Finset.sum_ite_eq, if_pos (Finset.mem_range.mpr (by omega))]

theorem statMatrix_row_last {n : Nat} {T : Mat} (h : WF n T) (y : Nat → Rat) :
    rsum n (fun k => entry (statMatrix T) (n - 1) k * y k) = ∑ k ∈ Finset.range n, y k := by
  rw [rsum_congr (g := y) (fun k hk => by rw [entry_statMatrix_last h hk, one_mul]), rsum_eq_finset]

/-- the matrix inverted by `stationary` has a trivial kernel when `T` is non-negative, has unit row sums and a strongly
connected support graph -/
theorem statMatrix_ker {n : Nat} {T : Mat} (h : WF n T) (hn : 1 ≤ n) (p : NonNeg T) (hrow : ∀ r ∈ T, r.sum = 1)
    (hirr : ∀ i j, i < n → j < n → ∃ k, Walk (support T) k i j) (y : Nat → Rat)
    (hy : ∀ r, r < n → rsum n (fun k => entry (statMatrix T) r k * y k) = 0) : ∀ k, k < n → y k = 0 := by
  have hrow' := row_sum_entry h hrow
  have hsum : ∑ k ∈ Finset.range n, y k = 0 := by
    rw [← statMatrix_row_last h y]; exact hy (n - 1) (by omega)
  have hlt : ∀ l, l < n - 1 → ∑ k ∈ Finset.range n, y k * entry T k l = y l := by
    intro l hl
    have := hy l (by omega)
    rw [statMatrix_row_lt h y hl] at this
    linarith
  have hz : ∀ l, l < n → ∑ k ∈ Finset.range n, y k * entry T k l = y l := by
    intro l hl
    by_cases hl' : l < n - 1
    · exact hlt l hl'
    · have : l = n - 1 := by omega
      rw [this]
      exact last_fixed_eq hn hrow' y hlt
  have h1 := fixed_nonpos h p hrow' hirr (z := y) hz hsum
  have h2 := fixed_nonpos h p hrow' hirr (z := fun k => -y k)
    (by intro j hj; simp only [neg_mul, Finset.sum_neg_distrib]; rw [hz j hj])
    (by rw [Finset.sum_neg_distrib, hsum, neg_zero])
  intro k hk
  have a := h1 k hk
  have b := h2 k hk
  linarith

/-- **the solver succeeds**: for a non-negative matrix with unit row sums and strongly connected support graph,
`stationary T` returns a vector -/
theorem stationary_complete {n : Nat} {T : Mat} (h : WF n T) (hn : 1 ≤ n) (p : NonNeg T) (hrow : ∀ r ∈ T, r.sum = 1)
    (hirr : ∀ i j, i < n → j < n → ∃ k, Walk (support T) k i j) : ∃ x, stationary T = some x := by
  have hA := WF_statMatrix h hn
  obtain ⟨inv, hinv⟩ := inverse_complete hA (statMatrix_ker h hn p hrow hirr)
  obtain ⟨hw, hr, _⟩ := inverse_spec hA hinv
  have hrow' := row_sum_entry h hrow
  rw [stationary_eq, if_neg (by rw [h.1]; omega), hinv]
  simp only
  rw [h.1]
  generalize hx : inv.map (fun row => row.getD (n - 1) 0) = x
  have hxl : x.length = n := by rw [← hx, List.length_map, hw.1]
  have hxk : ∀ k, k < n → x.getD k 0 = entry inv k (n - 1) := by
    intro k hk
    rw [← hx, getD_map _ _ _ (by rw [hw.1]; exact hk)]
    unfold entry
    rw [getD_of_lt inv _ (by rw [hw.1]; exact hk)]
  have hAx : ∀ l, l < n - 1 → rsum n (fun k => entry (statMatrix T) l k * x.getD k 0) = 0 := by
    intro l hl
    have h1 : entry (mul (statMatrix T) inv) l (n - 1) = 0 := by
      rw [hr, entry_identity (by omega) (by omega), if_neg (by omega)]
    rw [entry_mul hA hw (by omega) (by omega)] at h1
    exact Eq.trans (rsum_congr (fun k hk => by rw [hxk k hk])) h1
  have hlt : ∀ l, l < n - 1 → ∑ k ∈ Finset.range n, x.getD k 0 * entry T k l = x.getD l 0 := by
    intro l hl
    have := hAx l hl
    rw [statMatrix_row_lt h (fun k => x.getD k 0) hl] at this
    linarith
  have hfix : vecMat x T = x := by
    apply vec_ext (length_vecMat h x) hxl
    intro l hl
    rw [getD_vecMat h hxl hl, rsum_eq_finset]
    by_cases hl' : l < n - 1
    · exact hlt l hl'
    · have : l = n - 1 := by omega
      rw [this]
      exact last_fixed_eq hn hrow' (fun k => x.getD k 0) hlt
  exact ⟨x, by rw [if_pos (by rw [hfix]; exact beq_self_eq_true x)]⟩

/-- for an ergodic non-negative matrix with unit row sums the solver returns a vector -/
theorem stationary_of_isErgodic {T : Mat} (p : NonNeg T) (hrow : ∀ r ∈ T, r.sum = 1) (h : isErgodic T = true) :
    ∃ v, stationary T = some v := by
  have ht := isTmat_of_isErgodic h
  exact stationary_complete (WF_of_isTmat ht) (by have := two_le_of_isTmat ht; omega) p hrow
    (fun i j hi hj => ⟨_, walk_of_isErgodic p h hi hj⟩)

end MsmVerif.Linalg
